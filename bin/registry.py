# Registry of checks: every /verif/harness/<ID>/registry.json describes the harness parts of one property:
# {"level": "model_checking"|"exploration"|"fault_enumeration",
#  "parts": [{"pkg": "<gossamer package dir receiving the injected test>", "run": "TestVerif_<ID>...",
#             "race": false, "budget_s": {"quick": 600, "thorough": 2700}, "env": {...}}],
#  "rewrites": [{"file": "<repo file>", "subst": [["old", "new"], ...]}],   (optional, regenerated from the working tree)
#  "technique": "...", "level_text": "...", "level_note": "...", "design_ref": "..."}
import json, os

_H = os.path.join(os.path.dirname(os.path.dirname(os.path.abspath(__file__))), "harness")
REGISTRY = {}
for d in sorted(os.listdir(_H)):
    f = os.path.join(_H, d, "registry.json")
    if os.path.exists(f):
        REGISTRY[d] = json.load(open(f))
