# Registry of checks: property id -> harness parts (package receiving the injected test, test name).
MC = "model_checking"
EX = "exploration"
FE = "fault_enumeration"

REGISTRY = {
    "C01": {"level": MC, "parts": [{"pkg": "pkg/trie/inmemory", "run": "TestVerif_C01"}]},
    "C02": {"level": MC, "parts": [{"pkg": "pkg/trie/inmemory", "run": "TestVerif_C02"}]},
}
