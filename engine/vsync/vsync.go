//go:build verif

// Package vsync is a drop-in for the parts of package sync used by the files that the
// concurrency checks rebuild (import "sync" -> this package, by overlay).  Every lock
// acquisition is a scheduling point of the controlled scheduler in internal/verifmc; the
// shim delegates to a real sync primitive (always uncontended under the scheduler) so
// that the race detector still sees the program's own lock edges.  Outside a controlled
// execution it behaves exactly like package sync.
package vsync

import (
	"sync"
	"unsafe"

	"github.com/ChainSafe/gossamer/internal/verifmc"
)

type (
	WaitGroup = sync.WaitGroup
	Once      = sync.Once
	Map       = sync.Map
	Pool      = sync.Pool
	Locker    = sync.Locker
)

// Mutex mirrors sync.Mutex.
type Mutex struct{ real sync.Mutex }

func (m *Mutex) Lock() {
	c := verifmc.SchedLock(uintptr(unsafe.Pointer(m)), false)
	m.real.Lock()
	if c {
		verifmc.SchedHeld()
	}
}

func (m *Mutex) Unlock() {
	m.real.Unlock()
	verifmc.SchedUnlock(uintptr(unsafe.Pointer(m)), false)
}

func (m *Mutex) TryLock() bool {
	if c, ok := verifmc.SchedTryLock(uintptr(unsafe.Pointer(m)), false); c {
		if ok {
			m.real.Lock()
			verifmc.SchedHeld()
		}
		return ok
	}
	return m.real.TryLock()
}

// RWMutex mirrors sync.RWMutex.
type RWMutex struct{ real sync.RWMutex }

func (m *RWMutex) Lock() {
	c := verifmc.SchedLock(uintptr(unsafe.Pointer(m)), false)
	m.real.Lock()
	if c {
		verifmc.SchedHeld()
	}
}

func (m *RWMutex) TryLock() bool {
	if c, ok := verifmc.SchedTryLock(uintptr(unsafe.Pointer(m)), false); c {
		if ok {
			m.real.Lock()
			verifmc.SchedHeld()
		}
		return ok
	}
	return m.real.TryLock()
}

func (m *RWMutex) TryRLock() bool {
	if c, ok := verifmc.SchedTryLock(uintptr(unsafe.Pointer(m)), true); c {
		if ok {
			m.real.RLock()
			verifmc.SchedHeld()
		}
		return ok
	}
	return m.real.TryRLock()
}

func (m *RWMutex) Unlock() {
	m.real.Unlock()
	verifmc.SchedUnlock(uintptr(unsafe.Pointer(m)), false)
}

func (m *RWMutex) RLock() {
	c := verifmc.SchedLock(uintptr(unsafe.Pointer(m)), true)
	m.real.RLock()
	if c {
		verifmc.SchedHeld()
	}
}

func (m *RWMutex) RUnlock() {
	m.real.RUnlock()
	verifmc.SchedUnlock(uintptr(unsafe.Pointer(m)), true)
}
