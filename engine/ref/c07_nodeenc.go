//go:build verif

package ref

// Reference encoder of one Polkadot state-trie node, written from the specification
// (https://spec.polkadot.network/chap-state#defn-node-header ff.).  It shares no code with
// pkg/trie/node or pkg/trie/triedb/codec.  Used by C07 as the source of valid encodings and of
// the expected field values after decoding.

// C07Node describes one node.
type C07Node struct {
	Branch   bool
	PK       []byte // partial key, one nibble per byte
	HasValue bool   // leaves always have a value
	Hashed   bool   // the value is stored by hash (Value is then the 32-byte hash)
	Value    []byte
	// Children[i] is the Merkle value of child i (nil = no child): the child's encoding when it is
	// shorter than 32 bytes, else its 32-byte BLAKE2b hash.
	Children [16][]byte
}

// C07Header is the node header: variant bits + partial key length (min(len, max) in the first byte,
// then the remainder as a run of 255s closed by a byte < 255).
func C07Header(n C07Node) []byte {
	var bits byte
	var width uint // number of variant bits
	switch {
	case !n.Branch && !n.Hashed:
		bits, width = 0b0100_0000, 2
	case !n.Branch && n.Hashed:
		bits, width = 0b0010_0000, 3
	case n.Branch && !n.HasValue:
		bits, width = 0b1000_0000, 2
	case n.Branch && n.Hashed:
		bits, width = 0b0001_0000, 4
	default:
		bits, width = 0b1100_0000, 2
	}
	max := (1 << (8 - width)) - 1
	l := len(n.PK)
	if l < max {
		return []byte{bits | byte(l)}
	}
	out := []byte{bits | byte(max)}
	rest := l - max
	for rest >= 255 {
		out = append(out, 255)
		rest -= 255
	}
	return append(out, byte(rest))
}

// C07MerkleValue is the Merkle value of a (non-root) node encoding.
func C07MerkleValue(enc []byte) []byte {
	if len(enc) < 32 {
		return append([]byte{}, enc...)
	}
	return Blake256(enc)
}

// C07Encode returns the encoding of n and the offsets of its structural bytes (first two and last two header bytes,
// first and last partial-key byte, bitmap bytes, every compact length prefix byte, first byte of
// the value and of every child reference, last byte).
func C07Encode(n C07Node) (enc []byte, marks []int) {
	mark := func() { marks = append(marks, len(enc)) }
	h := C07Header(n)
	for i := range h {
		if i < 2 || i >= len(h)-2 { // the inner bytes of a long length run are all 255 and alike
			mark()
		}
		enc = append(enc, 0)
	}
	copy(enc, h)
	// partial key: nibbles packed two per byte, an odd count is padded with a leading zero nibble
	pk := n.PK
	if len(pk) > 0 {
		mark()
	}
	if len(pk)%2 == 1 {
		enc = append(enc, pk[0]&0x0f)
		pk = pk[1:]
	}
	for i := 0; i < len(pk); i += 2 {
		enc = append(enc, pk[i]<<4|pk[i+1]&0x0f)
	}
	if len(n.PK) > 0 {
		marks = append(marks, len(enc)-1)
	}
	if n.Branch {
		var bitmap uint16
		for i, c := range n.Children {
			if c != nil {
				bitmap |= 1 << uint(i)
			}
		}
		mark()
		enc = append(enc, byte(bitmap))
		mark()
		enc = append(enc, byte(bitmap>>8))
	}
	if n.HasValue || !n.Branch {
		if n.Hashed {
			mark()
			enc = append(enc, n.Value...)
		} else {
			c := Compact(uint64(len(n.Value)))
			for range c {
				mark()
				enc = append(enc, 0)
			}
			copy(enc[len(enc)-len(c):], c)
			if len(n.Value) > 0 {
				mark()
			}
			enc = append(enc, n.Value...)
		}
	}
	if n.Branch {
		for _, c := range n.Children {
			if c == nil {
				continue
			}
			lp := Compact(uint64(len(c)))
			for range lp {
				mark()
				enc = append(enc, 0)
			}
			copy(enc[len(enc)-len(lp):], lp)
			mark()
			enc = append(enc, c...)
		}
	}
	marks = append(marks, len(enc)-1)
	// dedupe (marks are produced in ascending order except the closing ones)
	seen := map[int]bool{}
	out := marks[:0]
	for _, m := range marks {
		if m >= 0 && m < len(enc) && !seen[m] {
			seen[m] = true
			out = append(out, m)
		}
	}
	return enc, out
}
