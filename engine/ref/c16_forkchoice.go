//go:build verif

package ref

// C16 reference: the fork-choice rule of the property statement evaluated on a plain parent
// vector, plus the enumeration of all parent-first insertion orders of a labelled tree.
// Shared by the lib/blocktree and dot/state harnesses of C16.  Stdlib only.

import (
	"bytes"
	"fmt"
	"strings"
)

// C16Tree is a labelled rooted tree: node 0 is the (finalised) root, Parent[i] < i.
type C16Tree struct {
	N       int
	Parent  []int
	Primary []bool
	Number  []uint
	Hash    [][32]byte
}

func (t *C16Tree) String() string {
	var rec func(a int) string
	rec = func(a int) string {
		s := fmt.Sprintf("b%d", a)
		if a > 0 {
			if t.Primary[a] {
				s += "P"
			} else {
				s += "S"
			}
		}
		var ch []string
		for l := 1; l < t.N; l++ {
			if t.Parent[l] == a {
				ch = append(ch, rec(l))
			}
		}
		if len(ch) > 0 {
			s += "[" + strings.Join(ch, " ") + "]"
		}
		return s
	}
	return rec(0)
}

// Marks renders the marking.
func (t *C16Tree) Marks() []string {
	s := make([]string, t.N)
	s[0] = "root"
	for i := 1; i < t.N; i++ {
		s[i] = "S"
		if t.Primary[i] {
			s[i] = "P"
		}
	}
	return s
}

// Label renders a hash as the label of its block.
func (t *C16Tree) Label(h [32]byte) string {
	for a := 0; a < t.N; a++ {
		if t.Hash[a] == h {
			return fmt.Sprintf("b%d", a)
		}
	}
	return fmt.Sprintf("?%x", h[:5])
}

// Under: a is root or root is a proper ancestor of a.
func (t *C16Tree) Under(root, a int) bool {
	for x := a; x >= 0; x = t.Parent[x] {
		if x == root {
			return true
		}
	}
	return false
}

// PrimariesAfter counts the primary blocks on the chain of a after root.
func (t *C16Tree) PrimariesAfter(root, a int) int {
	c := 0
	for x := a; x != root; x = t.Parent[x] {
		if t.Primary[x] {
			c++
		}
	}
	return c
}

func (t *C16Tree) isLeaf(mask uint32, a int) bool {
	for c := 1; c < t.N; c++ {
		if mask&(1<<uint(c)) != 0 && t.Parent[c] == a {
			return false
		}
	}
	return true
}

// C16Spec evaluates the rule of the statement on the blocks in mask that descend from root:
// leaves only; most primaries after the root; then greater height; then earlier arrival; then
// lower hash.  decidedBy names the weakest criterion the winner needed against another leaf.
func C16Spec(t *C16Tree, mask uint32, root int, arrival []int) (best int, decidedBy string) {
	var leaves []int
	for a := 0; a < t.N; a++ {
		if mask&(1<<uint(a)) != 0 && t.Under(root, a) && t.isLeaf(mask, a) {
			leaves = append(leaves, a)
		}
	}
	if len(leaves) == 1 {
		return leaves[0], "single-leaf"
	}
	// level at which a beats b: 1 primaries, 2 height, 3 arrival, 4 hash; negative if b beats a
	cmp := func(a, b int) int {
		pa, pb := t.PrimariesAfter(root, a), t.PrimariesAfter(root, b)
		switch {
		case pa != pb:
			if pa > pb {
				return 1
			}
			return -1
		case t.Number[a] != t.Number[b]:
			if t.Number[a] > t.Number[b] {
				return 2
			}
			return -2
		case arrival[a] != arrival[b]:
			if arrival[a] < arrival[b] {
				return 3
			}
			return -3
		}
		if bytes.Compare(t.Hash[a][:], t.Hash[b][:]) < 0 {
			return 4
		}
		return -4
	}
	best = leaves[0]
	for _, l := range leaves[1:] {
		if cmp(l, best) > 0 {
			best = l
		}
	}
	lvl := 0
	for _, l := range leaves {
		if l != best {
			if c := cmp(best, l); c > lvl {
				lvl = c
			}
		}
	}
	return best, [...]string{"", "primaries", "height", "arrival", "hash"}[lvl]
}

// C16Classify names how got loses against want under the rule.
func C16Classify(t *C16Tree, mask uint32, root int, arrival []int, got [32]byte, want int) string {
	g := -1
	for a := 0; a < t.N; a++ {
		if t.Hash[a] == got {
			g = a
		}
	}
	if g < 0 || mask&(1<<uint(g)) == 0 || !t.Under(root, g) {
		return "BestBlockHash:not-a-block-of-the-tree"
	}
	if !t.isLeaf(mask, g) {
		return "BestBlockHash:not-a-leaf"
	}
	switch {
	case t.PrimariesAfter(root, g) < t.PrimariesAfter(root, want):
		return "BestBlockHash:leaf-with-fewer-primaries"
	case t.PrimariesAfter(root, g) > t.PrimariesAfter(root, want):
		return "BestBlockHash:wrong-result" // impossible for a correct oracle
	case t.Number[g] < t.Number[want]:
		return "BestBlockHash:lower-leaf-among-equal-primaries"
	case t.Number[g] > t.Number[want]:
		return "BestBlockHash:wrong-result"
	case arrival[g] > arrival[want]:
		return "BestBlockHash:later-arrival-among-equal-primaries-and-height"
	case arrival[g] < arrival[want]:
		return "BestBlockHash:wrong-result"
	}
	return "BestBlockHash:higher-hash-among-full-ties"
}

// C16Orders returns every parent-first insertion order of the non-root nodes (all linear
// extensions of the tree order, in a deterministic sequence) and the number of distinct
// inserted subsets (order ideals) they pass through.
func C16Orders(parent []int) (orders [][]int, ideals int) {
	n := len(parent)
	seen := map[uint32]struct{}{1: {}}
	cur := make([]int, 0, n)
	var rec func(mask uint32)
	rec = func(mask uint32) {
		seen[mask] = struct{}{}
		if len(cur) == n-1 {
			orders = append(orders, append([]int{}, cur...))
			return
		}
		for x := 1; x < n; x++ {
			if mask&(1<<uint(x)) == 0 && mask&(1<<uint(parent[x])) != 0 {
				cur = append(cur, x)
				rec(mask | 1<<uint(x))
				cur = cur[:len(cur)-1]
			}
		}
	}
	rec(1)
	return orders, len(seen)
}

// C16Arrivals lists the arrival-index assignments for n nodes (index 0, the root, unused):
// the full product {0,1}^(n-1), or (reduced) all-equal, alternating by label and its reverse.
func C16Arrivals(n int, full bool) [][]int {
	var out [][]int
	if full {
		for v := 0; v < 1<<uint(n-1); v++ {
			a := make([]int, n)
			for i := 1; i < n; i++ {
				a[i] = v >> uint(i-1) & 1
			}
			out = append(out, a)
		}
		return out
	}
	for _, f := range []func(i int) int{func(int) int { return 0 }, func(i int) int { return i % 2 }, func(i int) int { return (i + 1) % 2 }} {
		a := make([]int, n)
		for i := 1; i < n; i++ {
			a[i] = f(i)
		}
		out = append(out, a)
	}
	return out
}
