//go:build verif

package ref

// C29 reference ed25519 verifier under ZIP-215 rules, written with math/big from RFC 8032 §5.1
// and ZIP-215 (https://zips.z.cash/zip-0215): non-canonical point encodings are accepted (y is
// reduced mod p; x = 0 with the sign bit set is accepted), S must be below the group order, and
// the cofactored equation [8][S]B = [8]R + [8][k]A decides.  Nothing is shared with crypto/ed25519.

import (
	"crypto/sha512"
	"math/big"
	"sync"
)

// C29EdPoint is a point in extended coordinates (X:Y:Z:T), x = X/Z, y = Y/Z, xy = T/Z.
type C29EdPoint struct{ X, Y, Z, T *big.Int }

var (
	c29EdOnce   sync.Once
	c29EdP      *big.Int // 2^255 - 19
	c29EdL      *big.Int // 2^252 + 27742317777372353535851937790883648493
	c29EdD      *big.Int // -121665/121666
	c29Ed2D     *big.Int
	c29EdSqrtM1 *big.Int
	c29EdB      *C29EdPoint
)

func c29EdSetup() {
	c29EdOnce.Do(func() {
		one := big.NewInt(1)
		c29EdP = new(big.Int).Sub(new(big.Int).Lsh(one, 255), big.NewInt(19))
		c, _ := new(big.Int).SetString("27742317777372353535851937790883648493", 10)
		c29EdL = new(big.Int).Add(new(big.Int).Lsh(one, 252), c)
		inv := new(big.Int).ModInverse(big.NewInt(121666), c29EdP)
		c29EdD = c29Mod(new(big.Int).Mul(big.NewInt(-121665), inv))
		c29Ed2D = c29Mod(new(big.Int).Lsh(c29EdD, 1))
		// sqrt(-1) = 2^((p-1)/4)
		e := new(big.Int).Rsh(new(big.Int).Sub(c29EdP, one), 2)
		c29EdSqrtM1 = new(big.Int).Exp(big.NewInt(2), e, c29EdP)
		// base point: y = 4/5, x even
		by := c29Mod(new(big.Int).Mul(big.NewInt(4), new(big.Int).ModInverse(big.NewInt(5), c29EdP)))
		x, ok := c29EdRecoverX(by, 0)
		if !ok {
			panic("c29: base point")
		}
		c29EdB = c29EdAffine(x, by)
	})
}

func c29Mod(x *big.Int) *big.Int { return x.Mod(x, c29EdP) }

func c29EdAffine(x, y *big.Int) *C29EdPoint {
	return &C29EdPoint{X: new(big.Int).Set(x), Y: new(big.Int).Set(y), Z: big.NewInt(1), T: c29Mod(new(big.Int).Mul(x, y))}
}

// C29EdIdentity is the neutral element (0, 1).
func C29EdIdentity() *C29EdPoint {
	c29EdSetup()
	return c29EdAffine(big.NewInt(0), big.NewInt(1))
}

// C29EdBase is the standard base point.
func C29EdBase() *C29EdPoint { c29EdSetup(); return c29EdB }

// C29EdOrder is the prime group order L.
func C29EdOrder() *big.Int { c29EdSetup(); return new(big.Int).Set(c29EdL) }

// c29EdRecoverX solves x^2 = (y^2-1)/(d y^2+1) and picks the root with the requested parity;
// for x = 0 either sign is returned as 0 (ZIP-215 accepts the "negative zero").
func c29EdRecoverX(y *big.Int, sign uint) (*big.Int, bool) {
	p := c29EdP
	yy := c29Mod(new(big.Int).Mul(y, y))
	u := c29Mod(new(big.Int).Sub(yy, big.NewInt(1)))
	v := c29Mod(new(big.Int).Add(new(big.Int).Mul(c29EdD, yy), big.NewInt(1)))
	vinv := new(big.Int).ModInverse(v, p)
	if vinv == nil {
		return nil, false
	}
	xx := c29Mod(new(big.Int).Mul(u, vinv))
	// candidate root xx^((p+3)/8)
	e := new(big.Int).Rsh(new(big.Int).Add(p, big.NewInt(3)), 3)
	x := new(big.Int).Exp(xx, e, p)
	chk := c29Mod(new(big.Int).Mul(x, x))
	if chk.Cmp(xx) != 0 {
		x = c29Mod(new(big.Int).Mul(x, c29EdSqrtM1))
		chk = c29Mod(new(big.Int).Mul(x, x))
		if chk.Cmp(xx) != 0 {
			return nil, false
		}
	}
	if x.Bit(0) != sign && x.Sign() != 0 {
		x = new(big.Int).Sub(p, x)
	}
	return x, true
}

func c29LE(b []byte) *big.Int {
	be := make([]byte, len(b))
	for i := range b {
		be[len(b)-1-i] = b[i]
	}
	return new(big.Int).SetBytes(be)
}

func c29ToLE32(x *big.Int) []byte {
	be := x.Bytes()
	out := make([]byte, 32)
	for i := range be {
		out[i] = be[len(be)-1-i]
	}
	return out
}

// C29EdDecode decodes a 32-byte point encoding under ZIP-215 rules.
func C29EdDecode(enc []byte) (*C29EdPoint, bool) {
	c29EdSetup()
	if len(enc) != 32 {
		return nil, false
	}
	b := append([]byte{}, enc...)
	sign := uint(b[31] >> 7)
	b[31] &= 0x7f
	y := c29Mod(c29LE(b))
	x, ok := c29EdRecoverX(y, sign)
	if !ok {
		return nil, false
	}
	return c29EdAffine(x, y), true
}

// C29EdAffineXY returns the affine coordinates.
func (p *C29EdPoint) C29EdAffineXY() (x, y *big.Int) {
	zi := new(big.Int).ModInverse(p.Z, c29EdP)
	return c29Mod(new(big.Int).Mul(p.X, zi)), c29Mod(new(big.Int).Mul(p.Y, zi))
}

// C29EdEncode is the canonical RFC 8032 encoding.
func C29EdEncode(p *C29EdPoint) []byte {
	x, y := p.C29EdAffineXY()
	out := c29ToLE32(y)
	out[31] |= byte(x.Bit(0)) << 7
	return out
}

// C29EdAdd is the unified (complete for this curve) addition in extended coordinates.
func C29EdAdd(p, q *C29EdPoint) *C29EdPoint {
	c29EdSetup()
	m := func(a, b *big.Int) *big.Int { return c29Mod(new(big.Int).Mul(a, b)) }
	a := m(new(big.Int).Sub(p.Y, p.X), new(big.Int).Sub(q.Y, q.X))
	b := m(new(big.Int).Add(p.Y, p.X), new(big.Int).Add(q.Y, q.X))
	c := m(m(p.T, c29Ed2D), q.T)
	d := m(new(big.Int).Lsh(p.Z, 1), q.Z)
	e := new(big.Int).Sub(b, a)
	f := new(big.Int).Sub(d, c)
	g := new(big.Int).Add(d, c)
	h := new(big.Int).Add(b, a)
	return &C29EdPoint{X: m(e, f), Y: m(g, h), T: m(e, h), Z: m(f, g)}
}

// C29EdNeg negates a point.
func C29EdNeg(p *C29EdPoint) *C29EdPoint {
	c29EdSetup()
	return &C29EdPoint{X: c29Mod(new(big.Int).Neg(p.X)), Y: new(big.Int).Set(p.Y), Z: new(big.Int).Set(p.Z), T: c29Mod(new(big.Int).Neg(p.T))}
}

// C29EdMul is double-and-add scalar multiplication (k >= 0).
func C29EdMul(k *big.Int, p *C29EdPoint) *C29EdPoint {
	acc := C29EdIdentity()
	for i := k.BitLen() - 1; i >= 0; i-- {
		acc = C29EdAdd(acc, acc)
		if k.Bit(i) == 1 {
			acc = C29EdAdd(acc, p)
		}
	}
	return acc
}

// C29EdIsIdentity reports whether p is the neutral element.
func C29EdIsIdentity(p *C29EdPoint) bool {
	return c29Mod(new(big.Int).Set(p.X)).Sign() == 0 && c29Mod(new(big.Int).Sub(p.Y, p.Z)).Sign() == 0
}

// C29EdEqual reports whether two points are equal.
func C29EdEqual(p, q *C29EdPoint) bool { return C29EdIsIdentity(C29EdAdd(p, C29EdNeg(q))) }

// C29EdChallenge is k = SHA-512(R || A || M) mod L over the given encodings.
func C29EdChallenge(rEnc, aEnc, msg []byte) *big.Int {
	c29EdSetup()
	h := sha512.New()
	h.Write(rEnc)
	h.Write(aEnc)
	h.Write(msg)
	k := c29LE(h.Sum(nil))
	return k.Mod(k, c29EdL)
}

// C29EdVerdict is the detailed outcome of a reference verification.
type C29EdVerdict struct {
	WellFormed   bool // lengths right, A and R decodable, S < L
	Zip215       bool // the verdict: cofactored equation holds
	Cofactorless bool // [S]B = R + [k]A holds exactly
	CanonicalA   bool
	CanonicalR   bool
	SmallOrderA  bool
	SmallOrderR  bool
	Reason       string
}

// C29EdCanonical reports whether enc is the canonical encoding of the point it decodes to.
func C29EdCanonical(enc []byte) bool {
	p, ok := C29EdDecode(enc)
	if !ok {
		return false
	}
	c := C29EdEncode(p)
	for i := range c {
		if c[i] != enc[i] {
			return false
		}
	}
	return true
}

// C29EdVerify verifies (pub, msg, sig) under ZIP-215 rules and describes the input.
func C29EdVerify(pub, msg, sig []byte) C29EdVerdict {
	c29EdSetup()
	var v C29EdVerdict
	if len(pub) != 32 {
		v.Reason = "public key length"
		return v
	}
	if len(sig) != 64 {
		v.Reason = "signature length"
		return v
	}
	a, ok := C29EdDecode(pub)
	if !ok {
		v.Reason = "A not a curve point"
		return v
	}
	r, ok := C29EdDecode(sig[:32])
	if !ok {
		v.Reason = "R not a curve point"
		return v
	}
	s := c29LE(sig[32:])
	if s.Cmp(c29EdL) >= 0 {
		v.Reason = "S >= L"
		return v
	}
	v.WellFormed = true
	v.CanonicalA, v.CanonicalR = C29EdCanonical(pub), C29EdCanonical(sig[:32])
	eight := big.NewInt(8)
	v.SmallOrderA, v.SmallOrderR = C29EdIsIdentity(C29EdMul(eight, a)), C29EdIsIdentity(C29EdMul(eight, r))
	k := C29EdChallenge(sig[:32], pub, msg)
	// diff = [S]B - [k]A - R
	diff := C29EdAdd(C29EdMul(s, c29EdB), C29EdNeg(C29EdAdd(C29EdMul(k, a), r)))
	v.Cofactorless = C29EdIsIdentity(diff)
	v.Zip215 = C29EdIsIdentity(C29EdMul(eight, diff))
	if !v.Zip215 {
		v.Reason = "equation does not hold"
	}
	return v
}

// C29EdTorsion returns the 8 points of the torsion subgroup, [i]T for a generator T of order 8.
func C29EdTorsion() []*C29EdPoint {
	c29EdSetup()
	four := big.NewInt(4)
	for y := int64(2); ; y++ {
		p, ok := C29EdDecode(c29ToLE32(big.NewInt(y)))
		if !ok {
			continue
		}
		t := C29EdMul(c29EdL, p)
		if C29EdIsIdentity(C29EdMul(four, t)) {
			continue
		}
		out := []*C29EdPoint{C29EdIdentity()}
		for i := 1; i < 8; i++ {
			out = append(out, C29EdAdd(out[i-1], t))
		}
		return out
	}
}

// C29EdSmallOrderEncodings returns every 32-byte string that decodes (ZIP-215) to a point of the
// torsion subgroup: the 8 canonical encodings plus the non-canonical ones (y+p when y < 19, and
// both sign bits when x = 0); 14 encodings, in a fixed order.
func C29EdSmallOrderEncodings() [][]byte {
	c29EdSetup()
	var out [][]byte
	two255 := new(big.Int).Lsh(big.NewInt(1), 255)
	for _, t := range C29EdTorsion() {
		x, y := t.C29EdAffineXY()
		ys := []*big.Int{y}
		if yp := new(big.Int).Add(y, c29EdP); yp.Cmp(two255) < 0 {
			ys = append(ys, yp)
		}
		signs := []byte{byte(x.Bit(0))}
		if x.Sign() == 0 {
			signs = []byte{0, 1}
		}
		for _, yy := range ys {
			for _, s := range signs {
				e := c29ToLE32(yy)
				e[31] |= s << 7
				out = append(out, e)
			}
		}
	}
	return out
}

// C29EdScalarLE encodes a scalar as 32 little-endian bytes.
func C29EdScalarLE(s *big.Int) []byte { return c29ToLE32(s) }
