//go:build verif

package ref

// C06TrieRootHashedFrom is the state root of m when every value of at least minHashedLen bytes is
// replaced by its 32-byte BLAKE2b hash (hashed-value node variants) and shorter values are inline.
// With minHashedLen = 33 it is the state-version-1 root of the specification; other thresholds are
// NOT spec roots - C06 uses them only to name the exact shape of a root mismatch (a deviating
// inline/hashed threshold), never as an expectation.
func C06TrieRootHashedFrom(m map[string][]byte, minHashedLen int) []byte {
	return TrieRootMixed(m, func(k string, v []byte) bool { return len(v) >= minHashedLen })
}
