//go:build verif

package ref

import (
	"bytes"
	"sort"
)

// C06TrieRootHashedFrom is the state root of m when every value of at least minHashedLen bytes is
// replaced by its 32-byte BLAKE2b hash (hashed-value node variants) and shorter values are inline.
// With minHashedLen = 33 it is the state-version-1 root of the specification; other thresholds are
// NOT spec roots - C06 uses them only to name the exact shape of a root mismatch (a deviating
// inline/hashed threshold), never as an expectation.
func C06TrieRootHashedFrom(m map[string][]byte, minHashedLen int) []byte {
	es := make([]entry, 0, len(m))
	for k, v := range m {
		es = append(es, entry{nibbles([]byte(k)), v})
	}
	sort.Slice(es, func(i, j int) bool { return bytes.Compare(es[i].nk, es[j].nk) < 0 })
	if len(es) == 0 {
		return Blake256([]byte{0})
	}
	return Blake256(c06EncodeNode(es, 0, minHashedLen))
}

func c06EncodeNode(es []entry, depth int, minHashedLen int) []byte {
	if len(es) == 1 {
		pk := es[0].nk[depth:]
		hashed := len(es[0].v) >= minHashedLen
		var out []byte
		if hashed {
			out = header(0b0010_0000, 3, len(pk))
		} else {
			out = header(0b0100_0000, 2, len(pk))
		}
		out = append(out, packNibbles(pk)...)
		if hashed {
			out = append(out, Blake256(es[0].v)...)
		} else {
			out = append(out, Compact(uint64(len(es[0].v)))...)
			out = append(out, es[0].v...)
		}
		return out
	}
	first, last := es[0].nk, es[len(es)-1].nk
	cp := depth
	for cp < len(first) && cp < len(last) && first[cp] == last[cp] {
		cp++
	}
	pk := first[depth:cp]
	var value []byte
	hasValue := false
	rest := es
	if len(es[0].nk) == cp {
		hasValue, value = true, es[0].v
		rest = es[1:]
	}
	hashed := hasValue && len(value) >= minHashedLen
	var out []byte
	switch {
	case !hasValue:
		out = header(0b1000_0000, 2, len(pk))
	case hashed:
		out = header(0b0001_0000, 4, len(pk))
	default:
		out = header(0b1100_0000, 2, len(pk))
	}
	out = append(out, packNibbles(pk)...)
	var bitmap uint16
	var children [16][]entry
	for _, e := range rest {
		i := e.nk[cp]
		bitmap |= 1 << i
		children[i] = append(children[i], e)
	}
	out = append(out, byte(bitmap), byte(bitmap>>8))
	if hasValue {
		if hashed {
			out = append(out, Blake256(value)...)
		} else {
			out = append(out, Compact(uint64(len(value)))...)
			out = append(out, value...)
		}
	}
	for i := 0; i < 16; i++ {
		if children[i] == nil {
			continue
		}
		enc := c06EncodeNode(children[i], cp+1, minHashedLen)
		mv := enc
		if len(enc) >= 32 {
			mv = Blake256(enc)
		}
		out = append(out, Compact(uint64(len(mv)))...)
		out = append(out, mv...)
	}
	return out
}
