//go:build verif

package ref

// C14/C33: plain byte-append reference writer for SCALE and protobuf wire encodings, written from the
// Polkadot specification (appendix "SCALE codec") and the protobuf encoding guide.  It shares no code
// with pkg/scale or google.golang.org/protobuf.  stdlib only.
//
// Besides the bytes, the writer remembers where every *length prefix* sits (SCALE compact length of a
// Vec / byte string, protobuf LEN varint) so that C33 can splice crafted lengths into valid messages.

import (
	"fmt"
	"sort"
)

// C14Mark locates one length prefix inside an encoding.
type C14Mark struct {
	Off   int    // offset of the first byte of the prefix
	Width int    // number of bytes the prefix occupies
	Kind  string // "scale-vec-len" (count of a Vec) | "scale-bytes-len" (length of a byte string) | "pb-len"
	What  string // which field (for signatures)
	Pay   int    // pb-len: length of the payload that follows the prefix
}

// C14Buf is the reference writer.
type C14Buf struct {
	B     []byte
	Marks []C14Mark
}

// Raw appends bytes as they are.
func (b *C14Buf) Raw(p ...byte) *C14Buf { b.B = append(b.B, p...); return b }

// U8 appends one byte.
func (b *C14Buf) U8(v uint8) *C14Buf { b.B = append(b.B, v); return b }

// Bool appends 00 / 01.
func (b *C14Buf) Bool(v bool) *C14Buf {
	if v {
		return b.U8(1)
	}
	return b.U8(0)
}

// U16 appends a little-endian 16-bit integer.
func (b *C14Buf) U16(v uint16) *C14Buf { return b.Raw(byte(v), byte(v>>8)) }

// U32 appends a little-endian 32-bit integer.
func (b *C14Buf) U32(v uint32) *C14Buf { return b.Raw(byte(v), byte(v>>8), byte(v>>16), byte(v>>24)) }

// U64 appends a little-endian 64-bit integer.
func (b *C14Buf) U64(v uint64) *C14Buf {
	for i := 0; i < 8; i++ {
		b.B = append(b.B, byte(v>>(8*uint(i))))
	}
	return b
}

// Compact appends a SCALE compact integer that is a value (not a length).
func (b *C14Buf) Compact(n uint64) *C14Buf { b.B = append(b.B, Compact(n)...); return b }

// Len appends a SCALE compact integer that is the length of what follows and marks it.
func (b *C14Buf) Len(n int, what string) *C14Buf {
	c := Compact(uint64(n))
	b.Marks = append(b.Marks, C14Mark{Off: len(b.B), Width: len(c), Kind: "scale-vec-len", What: what})
	b.B = append(b.B, c...)
	return b
}

// Bytes appends a SCALE byte string: Compact(len) ++ bytes.
func (b *C14Buf) Bytes(p []byte, what string) *C14Buf {
	b.Len(len(p), what)
	b.Marks[len(b.Marks)-1].Kind = "scale-bytes-len"
	return b.Raw(p...)
}

// Append appends another buffer, keeping its marks.
func (b *C14Buf) Append(o *C14Buf) *C14Buf {
	for _, m := range o.Marks {
		m.Off += len(b.B)
		b.Marks = append(b.Marks, m)
	}
	b.B = append(b.B, o.B...)
	return b
}

// Clone copies the buffer.
func (b *C14Buf) Clone() *C14Buf {
	return &C14Buf{B: append([]byte{}, b.B...), Marks: append([]C14Mark{}, b.Marks...)}
}

// ---------------------------------------------------------------- protobuf wire format
//
// A message is a sequence of (tag, payload); tag = varint(field_number<<3 | wire_type); wire type 0 =
// varint, 2 = length delimited (varint length ++ bytes).  proto3 scalars with the default value are
// not emitted; members of a oneof and elements of a repeated field always are.  Fields are written in
// field-number order (the canonical order every mainstream implementation produces).

// C14Varint is the base-128 varint of v.
func C14Varint(v uint64) []byte {
	var out []byte
	for v >= 0x80 {
		out = append(out, byte(v)|0x80)
		v >>= 7
	}
	return append(out, byte(v))
}

// PBVarint appends field (wire type 0) with value v, always.
func (b *C14Buf) PBVarint(field int, v uint64) *C14Buf {
	b.B = append(b.B, C14Varint(uint64(field)<<3|0)...)
	b.B = append(b.B, C14Varint(v)...)
	return b
}

// PBVarintOpt appends field only when v != 0 (proto3 implicit presence).
func (b *C14Buf) PBVarintOpt(field int, v uint64) *C14Buf {
	if v == 0 {
		return b
	}
	return b.PBVarint(field, v)
}

// PBBytes appends field (wire type 2) with payload p, always; the length varint is marked.
func (b *C14Buf) PBBytes(field int, p *C14Buf, what string) *C14Buf {
	b.B = append(b.B, C14Varint(uint64(field)<<3|2)...)
	l := C14Varint(uint64(len(p.B)))
	b.Marks = append(b.Marks, C14Mark{Off: len(b.B), Width: len(l), Kind: "pb-len", What: what, Pay: len(p.B)})
	b.B = append(b.B, l...)
	return b.Append(p)
}

// PBBytesOpt appends field only when the payload is non-empty (proto3 implicit presence of bytes).
func (b *C14Buf) PBBytesOpt(field int, p *C14Buf, what string) *C14Buf {
	if len(p.B) == 0 {
		return b
	}
	return b.PBBytes(field, p, what)
}

// C14Raw wraps plain bytes in a buffer without marks.
func C14Raw(p []byte) *C14Buf { return &C14Buf{B: append([]byte{}, p...)} }

// C14Splice returns enc with the length prefix at mark m replaced by the encoding of n (SCALE compact
// or protobuf varint according to the mark's kind); everything else is unchanged.
func C14Splice(enc []byte, m C14Mark, n uint64) []byte {
	var p []byte
	if m.Kind == "pb-len" {
		p = C14Varint(n)
	} else {
		p = Compact(n)
	}
	out := append([]byte{}, enc[:m.Off]...)
	out = append(out, p...)
	return append(out, enc[m.Off+m.Width:]...)
}

// C14SpliceNested is C14Splice for an encoding with nested protobuf messages: the length prefix at
// marks[mi] is replaced by n and the length prefixes of every enclosing length-delimited field are
// adjusted to the new size of their payload, so that only the chosen prefix lies.
func C14SpliceNested(enc []byte, marks []C14Mark, mi int, n uint64) []byte {
	m := marks[mi]
	out := C14Splice(enc, m, n)
	delta := len(out) - len(enc)
	if delta == 0 {
		return out
	}
	// enclosing marks, innermost first (marks are recorded outer-before-inner, so walk backwards)
	for i := mi - 1; i >= 0; i-- {
		e := marks[i]
		if e.Kind != "pb-len" || !(e.Off+e.Width <= m.Off && m.Off < e.Off+e.Width+e.Pay) {
			continue
		}
		// e lies before m, so its offset in out is unchanged
		repl := C14Varint(uint64(e.Pay + delta))
		o2 := append([]byte{}, out[:e.Off]...)
		o2 = append(o2, repl...)
		o2 = append(o2, out[e.Off+e.Width:]...)
		delta += len(repl) - e.Width
		// later marks shift, but only m and enclosing ones (all before) matter from here on
		out = o2
	}
	return out
}

// C14Fill returns n bytes start, start+step, ... (deterministic, position dependent contents).
func C14Fill(n int, start, step byte) []byte {
	out := make([]byte, n)
	v := start
	for i := range out {
		out[i] = v
		v += step
	}
	return out
}

// C14Tame returns n zero bytes; when n > 6 the sixth is start and the last is 01.  Used for the
// byte strings and hashes of C33 catalogue entries: when a neighbouring length prefix is substituted
// into a 4-byte or big-integer mode, or a count is substituted so that the parse shifts, the bytes that
// follow are read as lengths; zeros keep the lengths declared inside the deviation neighbourhood small
// (on the unchanged tree every declared length is allocated and cleared up front, which makes each such
// input cost milliseconds; large declared lengths are the business of the crafted-length phase).
func C14Tame(n int, start byte) []byte {
	out := make([]byte, n)
	if n > 6 {
		out[n-1] = 1
		out[5] = start // not among the first four bytes: those become the high bytes of a substituted prefix
	}
	return out
}

// C14TameHash32 is C14Tame(32, start) as an array.
func C14TameHash32(start byte) (h [32]byte) {
	copy(h[:], C14Tame(32, start))
	return h
}

// C14Hash32 returns a 32-byte pattern as an array.
func C14Hash32(start, step byte) (h [32]byte) {
	copy(h[:], C14Fill(32, start, step))
	return h
}

// C14PBCanon re-orders the records of a protobuf message by field number (stable: elements of a
// repeated field keep their order), recursively inside the length-delimited fields listed in nested
// (paths like "1" or "1.2").  The wire format leaves the order of fields within a message unspecified,
// so two encodings are the same message byte for byte iff their canonical forms are equal.  Only wire
// types 0 (varint) and 2 (length delimited) occur in the schemas at hand; anything else is an error.
func C14PBCanon(msg []byte, nested map[string]bool, path string) ([]byte, error) {
	type rec struct {
		field uint64
		raw   []byte
	}
	var recs []rec
	readVarint := func(p []byte) (uint64, int, error) {
		var v uint64
		for i := 0; i < len(p) && i < 10; i++ {
			v |= uint64(p[i]&0x7f) << (7 * uint(i))
			if p[i] < 0x80 {
				return v, i + 1, nil
			}
		}
		return 0, 0, fmt.Errorf("bad varint")
	}
	for off := 0; off < len(msg); {
		tag, n, err := readVarint(msg[off:])
		if err != nil {
			return nil, err
		}
		start := off
		off += n
		field, wt := tag>>3, tag&7
		switch wt {
		case 0:
			_, n, err := readVarint(msg[off:])
			if err != nil {
				return nil, err
			}
			off += n
			recs = append(recs, rec{field, append([]byte{}, msg[start:off]...)})
		case 2:
			l, n, err := readVarint(msg[off:])
			if err != nil || uint64(len(msg)-off-n) < l {
				return nil, fmt.Errorf("bad length")
			}
			off += n
			payload := msg[off : off+int(l)]
			off += int(l)
			sub := fmt.Sprint(field)
			if path != "" {
				sub = path + "." + sub
			}
			if nested[sub] {
				c, err := C14PBCanon(payload, nested, sub)
				if err != nil {
					return nil, err
				}
				raw := append([]byte{}, msg[start:start+len(C14Varint(tag))]...)
				raw = append(raw, C14Varint(uint64(len(c)))...)
				recs = append(recs, rec{field, append(raw, c...)})
			} else {
				recs = append(recs, rec{field, append([]byte{}, msg[start:off]...)})
			}
		default:
			return nil, fmt.Errorf("wire type %d", wt)
		}
	}
	sort.SliceStable(recs, func(i, j int) bool { return recs[i].field < recs[j].field })
	var out []byte
	for _, r := range recs {
		out = append(out, r.raw...)
	}
	return out, nil
}
