//go:build verif

package ref

// C14/C33: plain byte-append reference writer for SCALE and protobuf wire encodings, written from the
// Polkadot specification (appendix "SCALE codec") and the protobuf encoding guide.  It shares no code
// with pkg/scale or google.golang.org/protobuf.  stdlib only.
//
// Besides the bytes, the writer remembers where every *length prefix* sits (SCALE compact length of a
// Vec / byte string, protobuf LEN varint) so that C33 can splice crafted lengths into valid messages.

// C14Mark locates one length prefix inside an encoding.
type C14Mark struct {
	Off   int    // offset of the first byte of the prefix
	Width int    // number of bytes the prefix occupies
	Kind  string // "scale-len" | "pb-len"
	What  string // which field (for signatures)
}

// C14Buf is the reference writer.
type C14Buf struct {
	B     []byte
	Marks []C14Mark
}

// Raw appends bytes as they are.
func (b *C14Buf) Raw(p ...byte) *C14Buf { b.B = append(b.B, p...); return b }

// U8 appends one byte.
func (b *C14Buf) U8(v uint8) *C14Buf { b.B = append(b.B, v); return b }

// Bool appends 00 / 01.
func (b *C14Buf) Bool(v bool) *C14Buf {
	if v {
		return b.U8(1)
	}
	return b.U8(0)
}

// U16 appends a little-endian 16-bit integer.
func (b *C14Buf) U16(v uint16) *C14Buf { return b.Raw(byte(v), byte(v>>8)) }

// U32 appends a little-endian 32-bit integer.
func (b *C14Buf) U32(v uint32) *C14Buf { return b.Raw(byte(v), byte(v>>8), byte(v>>16), byte(v>>24)) }

// U64 appends a little-endian 64-bit integer.
func (b *C14Buf) U64(v uint64) *C14Buf {
	for i := 0; i < 8; i++ {
		b.B = append(b.B, byte(v>>(8*uint(i))))
	}
	return b
}

// Compact appends a SCALE compact integer that is a value (not a length).
func (b *C14Buf) Compact(n uint64) *C14Buf { b.B = append(b.B, Compact(n)...); return b }

// Len appends a SCALE compact integer that is the length of what follows and marks it.
func (b *C14Buf) Len(n int, what string) *C14Buf {
	c := Compact(uint64(n))
	b.Marks = append(b.Marks, C14Mark{Off: len(b.B), Width: len(c), Kind: "scale-len", What: what})
	b.B = append(b.B, c...)
	return b
}

// Bytes appends a SCALE byte string: Compact(len) ++ bytes.
func (b *C14Buf) Bytes(p []byte, what string) *C14Buf { b.Len(len(p), what); return b.Raw(p...) }

// Append appends another buffer, keeping its marks.
func (b *C14Buf) Append(o *C14Buf) *C14Buf {
	for _, m := range o.Marks {
		m.Off += len(b.B)
		b.Marks = append(b.Marks, m)
	}
	b.B = append(b.B, o.B...)
	return b
}

// Clone copies the buffer.
func (b *C14Buf) Clone() *C14Buf {
	return &C14Buf{B: append([]byte{}, b.B...), Marks: append([]C14Mark{}, b.Marks...)}
}

// ---------------------------------------------------------------- protobuf wire format
//
// A message is a sequence of (tag, payload); tag = varint(field_number<<3 | wire_type); wire type 0 =
// varint, 2 = length delimited (varint length ++ bytes).  proto3 scalars with the default value are
// not emitted; members of a oneof and elements of a repeated field always are.  Fields are written in
// field-number order (the canonical order every mainstream implementation produces).

// C14Varint is the base-128 varint of v.
func C14Varint(v uint64) []byte {
	var out []byte
	for v >= 0x80 {
		out = append(out, byte(v)|0x80)
		v >>= 7
	}
	return append(out, byte(v))
}

// PBVarint appends field (wire type 0) with value v, always.
func (b *C14Buf) PBVarint(field int, v uint64) *C14Buf {
	b.B = append(b.B, C14Varint(uint64(field)<<3|0)...)
	b.B = append(b.B, C14Varint(v)...)
	return b
}

// PBVarintOpt appends field only when v != 0 (proto3 implicit presence).
func (b *C14Buf) PBVarintOpt(field int, v uint64) *C14Buf {
	if v == 0 {
		return b
	}
	return b.PBVarint(field, v)
}

// PBBytes appends field (wire type 2) with payload p, always; the length varint is marked.
func (b *C14Buf) PBBytes(field int, p *C14Buf, what string) *C14Buf {
	b.B = append(b.B, C14Varint(uint64(field)<<3|2)...)
	l := C14Varint(uint64(len(p.B)))
	b.Marks = append(b.Marks, C14Mark{Off: len(b.B), Width: len(l), Kind: "pb-len", What: what})
	b.B = append(b.B, l...)
	return b.Append(p)
}

// PBBytesOpt appends field only when the payload is non-empty (proto3 implicit presence of bytes).
func (b *C14Buf) PBBytesOpt(field int, p *C14Buf, what string) *C14Buf {
	if len(p.B) == 0 {
		return b
	}
	return b.PBBytes(field, p, what)
}

// C14Raw wraps plain bytes in a buffer without marks.
func C14Raw(p []byte) *C14Buf { return &C14Buf{B: append([]byte{}, p...)} }

// C14Splice returns enc with the length prefix at mark m replaced by the encoding of n (SCALE compact
// or protobuf varint according to the mark's kind); everything else is unchanged.
func C14Splice(enc []byte, m C14Mark, n uint64) []byte {
	var p []byte
	if m.Kind == "pb-len" {
		p = C14Varint(n)
	} else {
		p = Compact(n)
	}
	out := append([]byte{}, enc[:m.Off]...)
	out = append(out, p...)
	return append(out, enc[m.Off+m.Width:]...)
}

// C14Fill returns n bytes start, start+step, ... (deterministic, position dependent contents).
func C14Fill(n int, start, step byte) []byte {
	out := make([]byte, n)
	v := start
	for i := range out {
		out[i] = v
		v += step
	}
	return out
}

// C14Hash32 returns a 32-byte pattern as an array.
func C14Hash32(start, step byte) (h [32]byte) {
	copy(h[:], C14Fill(32, start, step))
	return h
}
