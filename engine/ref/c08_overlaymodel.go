//go:build verif

package ref

// C08 reference model ("overlaymodel"): runtime storage with nested transactions following
// sp-state-machine's Ext + OverlayedChanges, written over plain maps.
//
//   - backend: the committed storage (main map + one map per child trie; a child exists iff it
//     has a key);
//   - a stack of overlay layers, one per open transaction.  Every layer is a FULL copy of the
//     cumulative overlay at that nesting level (main entries and child entries, an entry is
//     Some(value) or None = deleted); start pushes a copy of the top, rollback pops, commit
//     replaces the parent by the top (or merges into the backend when it was the outermost);
//   - reads consult the top overlay, then the backend;
//   - a prefix clear marks EVERY overlay key with the prefix deleted and then the first `limit`
//     BACKEND keys with the prefix in key order (a backend key that the overlay already marks
//     deleted, or has overwritten, still counts towards the limit);
//   - killing a child is a prefix clear with the empty prefix inside that child;
//   - with no open transaction operations act on the backend directly (ordered-map semantics).
//
// Return values of limited clears are declared comparable only where the algorithm leaves no
// room for interpretation: no overlay entry (value or deletion mark) matches.

import (
	"bytes"
	"fmt"
	"sort"
	"strings"
)

// C08Entry is one overlay entry: Some(Val) when Present, else None (deleted).
type C08Entry struct {
	Present bool
	Val     []byte
}

// C08Layer is the cumulative overlay of one nesting level.
type C08Layer struct {
	Main  map[string]C08Entry
	Child map[string]map[string]C08Entry
}

// C08Overlay is the whole model.
type C08Overlay struct {
	BMain  OMap
	BChild map[string]OMap
	Txs    []*C08Layer
}

// C08New returns an empty model.
func C08New() *C08Overlay {
	return &C08Overlay{BMain: OMap{}, BChild: map[string]OMap{}}
}

func c08NewLayer() *C08Layer {
	return &C08Layer{Main: map[string]C08Entry{}, Child: map[string]map[string]C08Entry{}}
}

func c08CloneEntries(m map[string]C08Entry) map[string]C08Entry {
	c := make(map[string]C08Entry, len(m))
	for k, e := range m {
		c[k] = C08Entry{Present: e.Present, Val: append([]byte{}, e.Val...)}
	}
	return c
}

// Clone copies a layer.
func (l *C08Layer) Clone() *C08Layer {
	c := &C08Layer{Main: c08CloneEntries(l.Main), Child: map[string]map[string]C08Entry{}}
	for n, m := range l.Child {
		c.Child[n] = c08CloneEntries(m)
	}
	return c
}

// Clone copies the model.
func (o *C08Overlay) Clone() *C08Overlay {
	c := &C08Overlay{BMain: o.BMain.Clone(), BChild: map[string]OMap{}}
	for n, m := range o.BChild {
		c.BChild[n] = m.Clone()
	}
	for _, l := range o.Txs {
		c.Txs = append(c.Txs, l.Clone())
	}
	return c
}

// InTx reports whether a transaction is open.
func (o *C08Overlay) InTx() bool { return len(o.Txs) > 0 }

// Depth is the nesting depth.
func (o *C08Overlay) Depth() int { return len(o.Txs) }

func (o *C08Overlay) top() *C08Layer { return o.Txs[len(o.Txs)-1] }

func c08Merge(b OMap, ov map[string]C08Entry) OMap {
	v := OMap{}
	for k, x := range b {
		v[k] = append([]byte{}, x...)
	}
	for k, e := range ov {
		if e.Present {
			v[k] = append([]byte{}, e.Val...)
		} else {
			delete(v, k)
		}
	}
	return v
}

// MainViewAt is the main storage as seen at nesting level i (0 = backend, len(Txs) = current).
func (o *C08Overlay) MainViewAt(i int) OMap {
	if i == 0 {
		return o.BMain.Clone()
	}
	return c08Merge(o.BMain, o.Txs[i-1].Main)
}

// ChildViewAt is child c as seen at nesting level i; an empty map means the child does not exist.
func (o *C08Overlay) ChildViewAt(i int, c string) OMap {
	b := o.BChild[c]
	if b == nil {
		b = OMap{}
	}
	if i == 0 {
		return b.Clone()
	}
	return c08Merge(b, o.Txs[i-1].Child[c])
}

// MainView is the current main storage.
func (o *C08Overlay) MainView() OMap { return o.MainViewAt(len(o.Txs)) }

// ChildView is the current contents of child c.
func (o *C08Overlay) ChildView(c string) OMap { return o.ChildViewAt(len(o.Txs), c) }

// ChildNames lists every child name mentioned in the backend or in a layer.
func (o *C08Overlay) ChildNames() []string {
	set := map[string]bool{}
	for n := range o.BChild {
		set[n] = true
	}
	for _, l := range o.Txs {
		for n := range l.Child {
			set[n] = true
		}
	}
	var out []string
	for n := range set {
		out = append(out, n)
	}
	sort.Strings(out)
	return out
}

// Start opens a nested transaction.
func (o *C08Overlay) Start() {
	if len(o.Txs) == 0 {
		o.Txs = append(o.Txs, c08NewLayer())
		return
	}
	o.Txs = append(o.Txs, o.top().Clone())
}

// Rollback discards the innermost transaction.
func (o *C08Overlay) Rollback() { o.Txs = o.Txs[:len(o.Txs)-1] }

// Commit merges the innermost transaction into its parent, or into the backend.
func (o *C08Overlay) Commit() {
	t := o.top()
	o.Txs = o.Txs[:len(o.Txs)-1]
	if len(o.Txs) > 0 {
		o.Txs[len(o.Txs)-1] = t
		return
	}
	o.BMain = c08Merge(o.BMain, t.Main)
	for c, ov := range t.Child {
		b := o.BChild[c]
		if b == nil {
			b = OMap{}
		}
		o.BChild[c] = c08Merge(b, ov)
	}
	o.normalise()
}

func (o *C08Overlay) normalise() {
	for c, m := range o.BChild {
		if len(m) == 0 {
			delete(o.BChild, c)
		}
	}
}

// Put sets a main key.
func (o *C08Overlay) Put(k string, v []byte) {
	if !o.InTx() {
		o.BMain[k] = append([]byte{}, v...)
		return
	}
	o.top().Main[k] = C08Entry{Present: true, Val: append([]byte{}, v...)}
}

// Delete removes a main key.
func (o *C08Overlay) Delete(k string) {
	if !o.InTx() {
		delete(o.BMain, k)
		return
	}
	o.top().Main[k] = C08Entry{}
}

// SetChild sets a key of child c.
func (o *C08Overlay) SetChild(c, k string, v []byte) {
	if !o.InTx() {
		if o.BChild[c] == nil {
			o.BChild[c] = OMap{}
		}
		o.BChild[c][k] = append([]byte{}, v...)
		return
	}
	if o.top().Child[c] == nil {
		o.top().Child[c] = map[string]C08Entry{}
	}
	o.top().Child[c][k] = C08Entry{Present: true, Val: append([]byte{}, v...)}
}

// ClearChild removes a key of child c.
func (o *C08Overlay) ClearChild(c, k string) {
	if !o.InTx() {
		if o.BChild[c] != nil {
			delete(o.BChild[c], k)
			o.normalise()
		}
		return
	}
	if o.top().Child[c] == nil {
		o.top().Child[c] = map[string]C08Entry{}
	}
	o.top().Child[c][k] = C08Entry{}
}

// C08ClearResult is the outcome of a (limited) clear.
type C08ClearResult struct {
	Deleted    uint32
	AllDeleted bool
	// Comparable: the return values follow from the semantics without interpretation.
	Comparable bool
	// FlagComparable: AllDeleted may be compared too (false for limit 0 with nothing matching on
	// the no-transaction path, where the trie's own recorded limit-0 behaviour decides).
	FlagComparable bool
	// OverlayMatching: number of overlay entries (values and deletion marks) that matched.
	OverlayMatching int
	// BackendMatching: number of backend keys that matched.
	BackendMatching int
}

// clear implements clear_prefix / kill_child on one namespace.  limit < 0 means no limit.
func c08Clear(inTx bool, backend OMap, ov map[string]C08Entry, prefix string, limit int) C08ClearResult {
	var res C08ClearResult
	bk := backend.WithPrefix(prefix)
	res.BackendMatching = len(bk)
	if !inTx {
		n := len(bk)
		if limit >= 0 && limit < n {
			n = limit
		}
		for _, k := range bk[:n] {
			delete(backend, k)
		}
		res.Deleted = uint32(n)
		res.AllDeleted = n == len(bk)
		res.Comparable = true
		res.FlagComparable = !(limit == 0 && len(bk) == 0)
		return res
	}
	for k := range ov {
		if strings.HasPrefix(k, prefix) {
			res.OverlayMatching++
			ov[k] = C08Entry{}
		}
	}
	n := len(bk)
	if limit >= 0 && limit < n {
		n = limit
	}
	for _, k := range bk[:n] {
		ov[k] = C08Entry{}
	}
	res.Deleted = uint32(n)
	res.AllDeleted = n == len(bk)
	res.Comparable = res.OverlayMatching == 0
	res.FlagComparable = res.Comparable
	return res
}

// ClearPrefix clears main keys with the prefix; limit < 0 = unlimited.
func (o *C08Overlay) ClearPrefix(prefix string, limit int) C08ClearResult {
	if !o.InTx() {
		return c08Clear(false, o.BMain, nil, prefix, limit)
	}
	return c08Clear(true, o.BMain, o.top().Main, prefix, limit)
}

// ClearPrefixInChild clears keys of child c with the prefix; limit < 0 = unlimited.
// KillChild(c, limit) is ClearPrefixInChild(c, "", limit).
func (o *C08Overlay) ClearPrefixInChild(c, prefix string, limit int) C08ClearResult {
	b := o.BChild[c]
	if b == nil {
		b = OMap{}
	}
	if !o.InTx() {
		r := c08Clear(false, b, nil, prefix, limit)
		o.normalise()
		return r
	}
	if o.top().Child[c] == nil {
		o.top().Child[c] = map[string]C08Entry{}
	}
	return c08Clear(true, b, o.top().Child[c], prefix, limit)
}

// FullMain returns the main map as a state trie must hold it after a commit: main keys plus one
// entry per existing child (prefix + name -> child root).
func (o *C08Overlay) FullMain(childPrefix string, version int) OMap {
	f := o.BMain.Clone()
	for n, ch := range o.BChild {
		if len(ch) > 0 {
			f[childPrefix+n] = TrieRoot(ch, version)
		}
	}
	return f
}

func c08EntriesCanon(b *bytes.Buffer, m map[string]C08Entry) {
	ks := make([]string, 0, len(m))
	for k := range m {
		ks = append(ks, k)
	}
	sort.Strings(ks)
	for _, k := range ks {
		if m[k].Present {
			fmt.Fprintf(b, "%x=%x;", k, m[k].Val)
		} else {
			fmt.Fprintf(b, "%x=DEL;", k)
		}
	}
}

// Canon is a deterministic dump of the model (representation, not denotation: two models that
// denote the same views but differ in deletion marks are kept apart, which only costs time).
func (o *C08Overlay) Canon() []byte {
	var b bytes.Buffer
	b.WriteString("B:")
	b.Write(o.BMain.Canon())
	var names []string
	for n := range o.BChild {
		names = append(names, n)
	}
	sort.Strings(names)
	for _, n := range names {
		fmt.Fprintf(&b, "|%s:", n)
		b.Write(o.BChild[n].Canon())
	}
	for i, l := range o.Txs {
		fmt.Fprintf(&b, "#T%d:", i)
		c08EntriesCanon(&b, l.Main)
		var cn []string
		for n := range l.Child {
			cn = append(cn, n)
		}
		sort.Strings(cn)
		for _, n := range cn {
			fmt.Fprintf(&b, "|%s:", n)
			c08EntriesCanon(&b, l.Child[n])
		}
	}
	return b.Bytes()
}

// C08MapString renders a map for messages.
func C08MapString(m OMap) string {
	var p []string
	for _, k := range m.Keys() {
		p = append(p, fmt.Sprintf("%s=%x", k, m[k]))
	}
	return "{" + strings.Join(p, " ") + "}"
}
