//go:build verif

package ref

// C29 reference hash functions written from their specifications (RFC 7693 BLAKE2b, FIPS 202
// Keccak-f[1600] with the original Keccak padding, FIPS 180-4 SHA-256, the xxHash XXH64
// specification).  Constants that the specifications define by a formula (SHA-2 initial values and
// round constants, Keccak round constants and rotation offsets) are derived from the formula
// instead of being typed in.  Stdlib only; nothing is shared with gossamer or its dependencies.

import (
	"encoding/binary"
	"math/big"
	"math/bits"
	"sync"
)

// ---------- primes, square and cube roots (for the SHA-2 family constants) ----------

func c29Primes(n int) []int64 {
	var out []int64
	for c := int64(2); len(out) < n; c++ {
		isP := true
		for _, p := range out {
			if p*p > c {
				break
			}
			if c%p == 0 {
				isP = false
				break
			}
		}
		if isP {
			out = append(out, c)
		}
	}
	return out
}

// c29Root returns floor(x^(1/k)) by bisection.
func c29Root(x *big.Int, k int) *big.Int {
	lo, hi := big.NewInt(0), new(big.Int).Lsh(big.NewInt(1), uint(x.BitLen()/k+1))
	one := big.NewInt(1)
	for new(big.Int).Sub(hi, lo).Cmp(one) > 0 {
		mid := new(big.Int).Rsh(new(big.Int).Add(lo, hi), 1)
		if new(big.Int).Exp(mid, big.NewInt(int64(k)), nil).Cmp(x) <= 0 {
			lo = mid
		} else {
			hi = mid
		}
	}
	return lo
}

// c29Frac returns the first `bitsN` bits of the fractional part of p^(1/k).
func c29Frac(p int64, k int, bitsN uint) uint64 {
	x := new(big.Int).Lsh(big.NewInt(p), bitsN*uint(k))
	r := c29Root(x, k)
	mask := new(big.Int).Sub(new(big.Int).Lsh(big.NewInt(1), bitsN), big.NewInt(1))
	return r.And(r, mask).Uint64()
}

var (
	c29Sha256H   [8]uint32
	c29Sha256K   [64]uint32
	c29Blake2IV  [8]uint64
	c29KeccakRC  [24]uint64
	c29KeccakRot [5][5]uint
)

var c29Once sync.Once

func c29Setup() { c29Once.Do(c29Derive) }

func c29Derive() {
	ps := c29Primes(64)
	for i := 0; i < 8; i++ {
		c29Sha256H[i] = uint32(c29Frac(ps[i], 2, 32))
		c29Blake2IV[i] = c29Frac(ps[i], 2, 64) // the SHA-512 initial values
	}
	for i := 0; i < 64; i++ {
		c29Sha256K[i] = uint32(c29Frac(ps[i], 3, 32))
	}
	// Keccak round constants: bit 2^j-1 of RC[i] is rc(j+7i), rc from the LFSR x^8+x^6+x^5+x^4+1
	lfsr := byte(1)
	rc := func() bool {
		out := lfsr&1 == 1
		if lfsr&0x80 != 0 {
			lfsr = lfsr<<1 ^ 0x71
		} else {
			lfsr <<= 1
		}
		return out
	}
	for i := 0; i < 24; i++ {
		for j := 0; j < 7; j++ {
			if rc() {
				c29KeccakRC[i] |= 1 << (1<<uint(j) - 1)
			}
		}
	}
	// rho offsets: (x,y) = (1,0); for t = 0..23: r[x][y] = (t+1)(t+2)/2; (x,y) = (y, 2x+3y)
	x, y := 1, 0
	for t := 0; t < 24; t++ {
		c29KeccakRot[x][y] = uint((t+1)*(t+2)/2) % 64
		x, y = y, (2*x+3*y)%5
	}
}

// ---------- SHA-256 ----------

// C29Sha256 is SHA-256 (FIPS 180-4).
func C29Sha256(msg []byte) []byte {
	c29Setup()
	h := c29Sha256H
	m := append([]byte{}, msg...)
	m = append(m, 0x80)
	for len(m)%64 != 56 {
		m = append(m, 0)
	}
	m = binary.BigEndian.AppendUint64(m, uint64(len(msg))*8)
	var w [64]uint32
	for off := 0; off < len(m); off += 64 {
		for i := 0; i < 16; i++ {
			w[i] = binary.BigEndian.Uint32(m[off+4*i:])
		}
		for i := 16; i < 64; i++ {
			s0 := bits.RotateLeft32(w[i-15], -7) ^ bits.RotateLeft32(w[i-15], -18) ^ w[i-15]>>3
			s1 := bits.RotateLeft32(w[i-2], -17) ^ bits.RotateLeft32(w[i-2], -19) ^ w[i-2]>>10
			w[i] = w[i-16] + s0 + w[i-7] + s1
		}
		a, b, c, d, e, f, g, hh := h[0], h[1], h[2], h[3], h[4], h[5], h[6], h[7]
		for i := 0; i < 64; i++ {
			S1 := bits.RotateLeft32(e, -6) ^ bits.RotateLeft32(e, -11) ^ bits.RotateLeft32(e, -25)
			ch := e&f ^ ^e&g
			t1 := hh + S1 + ch + c29Sha256K[i] + w[i]
			S0 := bits.RotateLeft32(a, -2) ^ bits.RotateLeft32(a, -13) ^ bits.RotateLeft32(a, -22)
			maj := a&b ^ a&c ^ b&c
			t2 := S0 + maj
			hh, g, f, e, d, c, b, a = g, f, e, d+t1, c, b, a, t1+t2
		}
		h[0] += a
		h[1] += b
		h[2] += c
		h[3] += d
		h[4] += e
		h[5] += f
		h[6] += g
		h[7] += hh
	}
	out := make([]byte, 0, 32)
	for _, v := range h {
		out = binary.BigEndian.AppendUint32(out, v)
	}
	return out
}

// ---------- BLAKE2b (unkeyed) ----------

var c29Blake2Sigma = [10][16]byte{
	{0, 1, 2, 3, 4, 5, 6, 7, 8, 9, 10, 11, 12, 13, 14, 15},
	{14, 10, 4, 8, 9, 15, 13, 6, 1, 12, 0, 2, 11, 7, 5, 3},
	{11, 8, 12, 0, 5, 2, 15, 13, 10, 14, 3, 6, 7, 1, 9, 4},
	{7, 9, 3, 1, 13, 12, 11, 14, 2, 6, 5, 10, 4, 0, 15, 8},
	{9, 0, 5, 7, 2, 4, 10, 15, 14, 1, 11, 12, 6, 8, 3, 13},
	{2, 12, 6, 10, 0, 11, 8, 3, 4, 13, 7, 5, 15, 14, 1, 9},
	{12, 5, 1, 15, 14, 13, 4, 10, 0, 7, 6, 3, 9, 2, 8, 11},
	{13, 11, 7, 14, 12, 1, 3, 9, 5, 0, 15, 4, 8, 6, 2, 10},
	{6, 15, 14, 9, 11, 3, 0, 8, 12, 2, 13, 7, 1, 4, 10, 5},
	{10, 2, 8, 4, 7, 6, 1, 5, 15, 11, 9, 14, 3, 12, 13, 0},
}

func c29Blake2F(h *[8]uint64, block []byte, t uint64, last bool) {
	var m [16]uint64
	for i := range m {
		m[i] = binary.LittleEndian.Uint64(block[8*i:])
	}
	var v [16]uint64
	copy(v[:8], h[:])
	copy(v[8:], c29Blake2IV[:])
	v[12] ^= t // the high word of the counter stays 0 for inputs below 2^64 bytes
	if last {
		v[14] = ^v[14]
	}
	g := func(a, b, c, d int, x, y uint64) {
		v[a] = v[a] + v[b] + x
		v[d] = bits.RotateLeft64(v[d]^v[a], -32)
		v[c] = v[c] + v[d]
		v[b] = bits.RotateLeft64(v[b]^v[c], -24)
		v[a] = v[a] + v[b] + y
		v[d] = bits.RotateLeft64(v[d]^v[a], -16)
		v[c] = v[c] + v[d]
		v[b] = bits.RotateLeft64(v[b]^v[c], -63)
	}
	for r := 0; r < 12; r++ {
		s := c29Blake2Sigma[r%10]
		g(0, 4, 8, 12, m[s[0]], m[s[1]])
		g(1, 5, 9, 13, m[s[2]], m[s[3]])
		g(2, 6, 10, 14, m[s[4]], m[s[5]])
		g(3, 7, 11, 15, m[s[6]], m[s[7]])
		g(0, 5, 10, 15, m[s[8]], m[s[9]])
		g(1, 6, 11, 12, m[s[10]], m[s[11]])
		g(2, 7, 8, 13, m[s[12]], m[s[13]])
		g(3, 4, 9, 14, m[s[14]], m[s[15]])
	}
	for i := 0; i < 8; i++ {
		h[i] ^= v[i] ^ v[i+8]
	}
}

// C29Blake2b is unkeyed BLAKE2b with an outLen-byte digest (RFC 7693); the digest length is part
// of the parameter block, i.e. BLAKE2b-128 is not a truncation of BLAKE2b-256.
func C29Blake2b(outLen int, msg []byte) []byte {
	c29Setup()
	h := c29Blake2IV
	h[0] ^= 0x01010000 ^ uint64(outLen)
	rest := msg
	var t uint64
	for len(rest) > 128 {
		t += 128
		c29Blake2F(&h, rest[:128], t, false)
		rest = rest[128:]
	}
	var block [128]byte
	copy(block[:], rest)
	t += uint64(len(rest))
	c29Blake2F(&h, block[:], t, true)
	out := make([]byte, 0, 64)
	for _, v := range h {
		out = binary.LittleEndian.AppendUint64(out, v)
	}
	return out[:outLen]
}

// ---------- Keccak ----------

func c29KeccakF(a *[5][5]uint64) {
	for round := 0; round < 24; round++ {
		var c, d [5]uint64
		for x := 0; x < 5; x++ {
			c[x] = a[x][0] ^ a[x][1] ^ a[x][2] ^ a[x][3] ^ a[x][4]
		}
		for x := 0; x < 5; x++ {
			d[x] = c[(x+4)%5] ^ bits.RotateLeft64(c[(x+1)%5], 1)
			for y := 0; y < 5; y++ {
				a[x][y] ^= d[x]
			}
		}
		var b [5][5]uint64
		for x := 0; x < 5; x++ {
			for y := 0; y < 5; y++ {
				b[y][(2*x+3*y)%5] = bits.RotateLeft64(a[x][y], int(c29KeccakRot[x][y]))
			}
		}
		for x := 0; x < 5; x++ {
			for y := 0; y < 5; y++ {
				a[x][y] = b[x][y] ^ (^b[(x+1)%5][y] & b[(x+2)%5][y])
			}
		}
		a[0][0] ^= c29KeccakRC[round]
	}
}

// C29Sponge256 is the Keccak[512] sponge (rate 136 bytes) with a 32-byte output and the given
// domain/padding byte: 0x01 = original Keccak-256 (Ethereum, Substrate), 0x06 = SHA3-256.
func C29Sponge256(msg []byte, pad byte) []byte {
	c29Setup()
	const rate = 136
	m := append([]byte{}, msg...)
	m = append(m, pad)
	for len(m)%rate != 0 {
		m = append(m, 0)
	}
	m[len(m)-1] |= 0x80
	var a [5][5]uint64
	for off := 0; off < len(m); off += rate {
		for i := 0; i < rate/8; i++ {
			a[i%5][i/5] ^= binary.LittleEndian.Uint64(m[off+8*i:])
		}
		c29KeccakF(&a)
	}
	out := make([]byte, 0, 32)
	for i := 0; i < 4; i++ {
		out = binary.LittleEndian.AppendUint64(out, a[i%5][i/5])
	}
	return out
}

// C29Keccak256 is the original (pre-standard) Keccak-256.
func C29Keccak256(msg []byte) []byte { return C29Sponge256(msg, 0x01) }

// ---------- XXH64 ----------

const (
	c29P1 uint64 = 0x9E3779B185EBCA87
	c29P2 uint64 = 0xC2B2AE3D27D4EB4F
	c29P3 uint64 = 0x165667B19E3779F9
	c29P4 uint64 = 0x85EBCA77C2B2AE63
	c29P5 uint64 = 0x27D4EB2F165667C5
)

func c29XXRound(acc, input uint64) uint64 {
	acc += input * c29P2
	acc = bits.RotateLeft64(acc, 31)
	return acc * c29P1
}

func c29XXMerge(acc, val uint64) uint64 {
	acc ^= c29XXRound(0, val)
	return acc*c29P1 + c29P4
}

// C29XXH64 is XXH64 (xxHash specification, 64-bit variant).
func C29XXH64(seed uint64, msg []byte) uint64 {
	p := msg
	var h uint64
	if len(p) >= 32 {
		v1, v2, v3, v4 := seed+c29P1+c29P2, seed+c29P2, seed, seed-c29P1
		for len(p) >= 32 {
			v1 = c29XXRound(v1, binary.LittleEndian.Uint64(p[0:]))
			v2 = c29XXRound(v2, binary.LittleEndian.Uint64(p[8:]))
			v3 = c29XXRound(v3, binary.LittleEndian.Uint64(p[16:]))
			v4 = c29XXRound(v4, binary.LittleEndian.Uint64(p[24:]))
			p = p[32:]
		}
		h = bits.RotateLeft64(v1, 1) + bits.RotateLeft64(v2, 7) + bits.RotateLeft64(v3, 12) + bits.RotateLeft64(v4, 18)
		h = c29XXMerge(h, v1)
		h = c29XXMerge(h, v2)
		h = c29XXMerge(h, v3)
		h = c29XXMerge(h, v4)
	} else {
		h = seed + c29P5
	}
	h += uint64(len(msg))
	for len(p) >= 8 {
		h ^= c29XXRound(0, binary.LittleEndian.Uint64(p))
		h = bits.RotateLeft64(h, 27)*c29P1 + c29P4
		p = p[8:]
	}
	if len(p) >= 4 {
		h ^= uint64(binary.LittleEndian.Uint32(p)) * c29P1
		h = bits.RotateLeft64(h, 23)*c29P2 + c29P3
		p = p[4:]
	}
	for _, b := range p {
		h ^= uint64(b) * c29P5
		h = bits.RotateLeft64(h, 11) * c29P1
	}
	h ^= h >> 33
	h *= c29P2
	h ^= h >> 29
	h *= c29P3
	h ^= h >> 32
	return h
}

// C29Twox is Substrate's twox_{64,128,256}: XXH64 with seeds 0..n-1, each little endian.
func C29Twox(n int, msg []byte) []byte {
	out := make([]byte, 0, 8*n)
	for s := 0; s < n; s++ {
		out = binary.LittleEndian.AppendUint64(out, C29XXH64(uint64(s), msg))
	}
	return out
}
