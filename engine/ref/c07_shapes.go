//go:build verif

package ref

import (
	"fmt"
	"sync"
)

// C07Desc is a recursive description of a node with its children (the children that are inlined
// in the parent encoding are described down to their own fields).
type C07Desc struct {
	Branch   bool
	PK       []byte // nibbles
	HasValue bool
	Hashed   bool   // value stored by hash (state version 1, value longer than 32 bytes)
	RawValue []byte // the storage value itself
	Kids     [16]*C07Desc

	once  sync.Once
	enc   []byte
	marks []int
}

// Node flattens d into the fields that appear in its encoding.
func (d *C07Desc) Node() C07Node {
	n := C07Node{Branch: d.Branch, PK: d.PK, HasValue: d.HasValue || !d.Branch, Hashed: d.Hashed, Value: d.RawValue}
	if d.Hashed {
		n.Value = Blake256(d.RawValue)
	}
	for i, k := range d.Kids {
		if k != nil {
			enc, _ := k.Encode()
			n.Children[i] = C07MerkleValue(enc)
		}
	}
	return n
}

// Encode is the reference encoding of d and its structural offsets.
// (memoised; the returned slices must not be modified)
func (d *C07Desc) Encode() ([]byte, []int) {
	d.once.Do(func() { d.enc, d.marks = C07Encode(d.Node()) })
	return d.enc, d.marks
}

// C07Named is one enumerated node shape.
type C07Named struct {
	Name string
	D    *C07Desc
}

// C07PK is the deterministic partial key of n nibbles used by the shapes (nibble i = 7i+3 mod 16:
// never all-zero, first nibble non-zero).
func C07PK(n int) []byte {
	pk := make([]byte, n)
	for i := range pk {
		pk[i] = byte(7*i+3) & 0x0f
	}
	return pk
}

func c07Fill(b byte, n int) []byte {
	v := make([]byte, n)
	for i := range v {
		v[i] = b
	}
	return v
}

// C07PKLengths: the partial key lengths at which the header encoding changes shape for a variant
// whose first byte holds at most max (63, 31 or 15): 0,1,2, max-1..max+1 (length moves to a second
// byte), max+254..max+256 (a second length byte), max+509..max+511, the last multiple below
// 65535, and 65534, 65535 (the largest partial key).
func C07PKLengths(max int, thorough bool) []int {
	set := map[int]bool{}
	var out []int
	add := func(v int) {
		if v >= 0 && v <= 65535 && !set[v] {
			set[v] = true
			out = append(out, v)
		}
	}
	for _, v := range []int{0, 1, 2, max - 1, max, max + 1, max + 254, max + 255, max + 256} {
		add(v)
	}
	// the lengths the statement names for the two-bit variants are part of every variant's list
	for _, v := range []int{62, 63, 64, 317, 318, 319} {
		add(v)
	}
	for _, v := range []int{65534, 65535} {
		add(v)
	}
	if thorough {
		k := (65535 - max) / 255
		for _, v := range []int{max + 509, max + 510, max + 511, 65, 573, max + 255*k - 1, max + 255*k, max + 255*k + 1} {
			add(v)
		}
		for _, v := range []int{3, 16, 30, 32, 33, 127, 128, 255, 256, 1000, 32767, 32768} {
			add(v)
		}
	}
	return out
}

func c07InlineLeaf(i int) *C07Desc {
	return &C07Desc{PK: []byte{byte(i) & 0xf}, HasValue: true, RawValue: []byte{0xa0 | byte(i)}}
}

// a leaf whose encoding is 43 bytes: referenced by hash
func c07HashedLeaf(i int) *C07Desc {
	return &C07Desc{PK: []byte{byte(i) & 0xf}, HasValue: true, RawValue: c07Fill(0xc0|byte(i), 40)}
}

// a branch small enough to be inlined: one inline leaf child, no value
func c07InlineBranch(i int) *C07Desc {
	d := &C07Desc{Branch: true, PK: []byte{byte(i) & 0xf}}
	d.Kids[(i+2)%16] = c07InlineLeaf(i + 1)
	return d
}

type c07KidCfg struct {
	name string
	kids func() [16]*C07Desc
}

func c07KidCfgs() []c07KidCfg {
	one := func(i int, f func(int) *C07Desc) func() [16]*C07Desc {
		return func() (k [16]*C07Desc) { k[i] = f(i); return }
	}
	return []c07KidCfg{
		{"c0=inline", one(0, c07InlineLeaf)},
		{"c15=inline", one(15, c07InlineLeaf)},
		{"c0=hashed", one(0, c07HashedLeaf)},
		{"c15=hashed", one(15, c07HashedLeaf)},
		{"c5=inlinebranch", one(5, c07InlineBranch)},
		{"c3=inline,c9=hashed", func() (k [16]*C07Desc) { k[3] = c07InlineLeaf(3); k[9] = c07HashedLeaf(9); return }},
		{"c7=hashed,c8=inline", func() (k [16]*C07Desc) { k[7] = c07HashedLeaf(7); k[8] = c07InlineLeaf(8); return }},
		{"all16=inline", func() (k [16]*C07Desc) {
			for i := range k {
				k[i] = c07InlineLeaf(i)
			}
			return
		}},
		{"all16=hashed", func() (k [16]*C07Desc) {
			for i := range k {
				k[i] = c07HashedLeaf(i)
			}
			return
		}},
		{"all16=mixed", func() (k [16]*C07Desc) {
			for i := range k {
				switch i % 3 {
				case 0:
					k[i] = c07InlineLeaf(i)
				case 1:
					k[i] = c07HashedLeaf(i)
				default:
					k[i] = c07InlineBranch(i)
				}
			}
			return
		}},
	}
}

type c07ValCfg struct {
	name     string
	hasValue bool
	hashed   bool
	raw      []byte
}

func c07ValCfgs(branch bool) []c07ValCfg {
	vs := []c07ValCfg{
		{"v=empty", true, false, []byte{}},
		{"v=01", true, false, []byte{0x01}},
		{"v=32inline", true, false, c07Fill(0x32, 32)},
		{"v=33inline", true, false, c07Fill(0x33, 33)},
		{"v=33hashed", true, true, c07Fill(0x33, 33)},
		{"v=64inline", true, false, c07Fill(0x64, 64)},       // two-byte compact length
		{"v=16384inline", true, false, c07Fill(0x16, 16384)}, // four-byte compact length
	}
	if branch {
		vs = append([]c07ValCfg{{"v=none", false, false, nil}}, vs...)
	}
	return vs
}

// C07Shapes enumerates the node shapes of the round-trip part: {leaf, branch} x value
// configuration x partial key length (boundaries of the variant's header) x child configuration.
// To keep the product finite and small the long partial keys (> 600 nibbles) are combined with
// the first two child configurations and with the values none/01/33hashed only.
func C07Shapes(thorough bool) []C07Named {
	var out []C07Named
	for _, branch := range []bool{false, true} {
		for _, vc := range c07ValCfgs(branch) {
			max := 63
			if vc.hashed && !branch {
				max = 31
			}
			if vc.hashed && branch {
				max = 15
			}
			for _, l := range C07PKLengths(max, thorough) {
				long := l > 600
				if long && !(vc.name == "v=none" || vc.name == "v=01" || vc.name == "v=33hashed") {
					continue
				}
				if !branch {
					out = append(out, C07Named{fmt.Sprintf("leaf pk=%d %s", l, vc.name),
						&C07Desc{PK: C07PK(l), HasValue: true, Hashed: vc.hashed, RawValue: vc.raw}})
					continue
				}
				for ci, kc := range c07KidCfgs() {
					if long && ci > 1 {
						continue
					}
					// quick tier: 5 of the 10 child configurations, no 64/16384-byte branch values
					if !thorough && (ci == 1 || ci == 2 || ci == 5 || ci == 7 || ci == 8 ||
						vc.name == "v=64inline" || vc.name == "v=16384inline") {
						continue
					}
					if vc.name == "v=16384inline" && ci > 1 {
						continue
					}
					out = append(out, C07Named{fmt.Sprintf("branch pk=%d %s %s", l, vc.name, kc.name),
						&C07Desc{Branch: true, PK: C07PK(l), HasValue: vc.hasValue, Hashed: vc.hashed, RawValue: vc.raw, Kids: kc.kids()}})
				}
			}
		}
	}
	return out
}
