//go:build verif

package ref

// Reference SCALE codec over a small type-descriptor tree (properties C09, C11, C12).
// Written from the Polkadot specification (appendix "SCALE codec") and the documented
// behaviour of parity-scale-codec; shares no code with pkg/scale.  stdlib only.
//
//   fixed-width ints     little endian two's complement
//   Compact              0b00 one byte (<2^6), 0b01 two bytes (<2^14), 0b10 four bytes (<2^30),
//                        0b11 big-integer mode: upper six bits = number of following bytes - 4,
//                        value little endian, most significant byte non-zero.  A value must use
//                        the shortest mode (canonical form); anything else is rejected on decode.
//   bool                 00 / 01
//   Vec<T>, bytes, str   Compact(len) ++ items
//   [T; n]               items
//   Option<T>            00 | 01 ++ T
//   Result<T,E>          00 ++ T | 01 ++ E
//   enum                 variant index byte ++ payload
//   tuple / struct       fields in declaration order
//   BTreeMap<K,V>        Compact(len) ++ (K ++ V)*, sorted by K (Rust Ord)

import (
	"bytes"
	"fmt"
	"math/big"
	"sort"
	"strings"
)

// C11Kind enumerates the shapes of the descriptor tree.
type C11Kind int

const (
	C11U8 C11Kind = iota
	C11U16
	C11U32
	C11U64
	C11I8
	C11I16
	C11I32
	C11I64
	C11U128
	C11Compact    // Compact<uN>; Bits = 8,16,32,64,128
	C11CompactBig // compact integer of any size the format can express (<= 67 bytes)
	C11Bool
	C11Bytes
	C11Str
	C11Option
	C11Vec
	C11Array
	C11Map
	C11Tuple
	C11Result
	C11Enum
	C11Unit
)

// C11Type is one node of the descriptor tree.
type C11Type struct {
	Kind   C11Kind
	Bits   int        // Compact: width of the integer type
	N      int        // Array: length
	Elem   *C11Type   // Option, Vec, Array, Map (value)
	Key    *C11Type   // Map
	Fields []*C11Type // Tuple: fields in ENCODING order; Result: [ok, err]; Enum: variant payloads
	Tags   []byte     // Enum: variant index byte of Fields[i]
	// Harness-side layout information (ignored by the codec): for a Tuple realised as a Go struct
	// with `scale:"n"` tags, Perm[i] is the encoding position of the i-th Go field.
	Perm []int
	// Signed marks a Compact that is realised by a signed Go type (harness-side information).
	Signed bool
}

// C11Val is a value of some C11Type (interpretation is type driven).
type C11Val struct {
	N     *big.Int  // integers
	B     []byte    // Bytes, Str
	T     bool      // Bool
	Idx   int       // Option: 0 none / 1 some; Result: 0 ok / 1 err; Enum: position in Fields
	Elems []*C11Val // Option/Result/Enum payload (1), Vec, Array, Tuple (encoding order), Map (k0,v0,k1,v1,...)
}

func c11fixedWidth(k C11Kind) (bytes int, signed bool, ok bool) {
	switch k {
	case C11U8:
		return 1, false, true
	case C11U16:
		return 2, false, true
	case C11U32:
		return 4, false, true
	case C11U64:
		return 8, false, true
	case C11U128:
		return 16, false, true
	case C11I8:
		return 1, true, true
	case C11I16:
		return 2, true, true
	case C11I32:
		return 4, true, true
	case C11I64:
		return 8, true, true
	}
	return 0, false, false
}

// C11Name renders a type.
func C11Name(t *C11Type) string {
	switch t.Kind {
	case C11U8:
		return "u8"
	case C11U16:
		return "u16"
	case C11U32:
		return "u32"
	case C11U64:
		return "u64"
	case C11I8:
		return "i8"
	case C11I16:
		return "i16"
	case C11I32:
		return "i32"
	case C11I64:
		return "i64"
	case C11U128:
		return "u128"
	case C11Compact:
		if t.Signed {
			return fmt.Sprintf("compact%d(int)", t.Bits)
		}
		return fmt.Sprintf("compact%d", t.Bits)
	case C11CompactBig:
		return "compactbig"
	case C11Bool:
		return "bool"
	case C11Bytes:
		return "bytes"
	case C11Str:
		return "str"
	case C11Unit:
		return "()"
	case C11Option:
		return "option<" + C11Name(t.Elem) + ">"
	case C11Vec:
		return "vec<" + C11Name(t.Elem) + ">"
	case C11Array:
		return fmt.Sprintf("[%s;%d]", C11Name(t.Elem), t.N)
	case C11Map:
		return "map<" + C11Name(t.Key) + "," + C11Name(t.Elem) + ">"
	case C11Tuple:
		var s []string
		for _, f := range t.Fields {
			s = append(s, C11Name(f))
		}
		p := ""
		if t.Perm != nil {
			p = fmt.Sprintf("@%v", t.Perm)
		}
		return "(" + strings.Join(s, ",") + ")" + p
	case C11Result:
		return "result<" + C11Name(t.Fields[0]) + "," + C11Name(t.Fields[1]) + ">"
	case C11Enum:
		var s []string
		for i, f := range t.Fields {
			s = append(s, fmt.Sprintf("%d:%s", t.Tags[i], C11Name(f)))
		}
		return "enum{" + strings.Join(s, ",") + "}"
	}
	return "?"
}

// C11KindName is the short name of the kind of t (used in signatures).
func C11KindName(t *C11Type) string {
	switch t.Kind {
	case C11Option:
		return "option"
	case C11Vec:
		return "vec"
	case C11Array:
		return "array"
	case C11Map:
		return "map"
	case C11Tuple:
		return "struct"
	case C11Result:
		return "result"
	case C11Enum:
		return "enum"
	}
	return C11Name(t)
}

// C11String renders a value.
func C11String(t *C11Type, v *C11Val) string {
	if v == nil {
		return "<nil>"
	}
	switch t.Kind {
	case C11Bool:
		return fmt.Sprint(v.T)
	case C11Bytes, C11Str:
		if len(v.B) > 12 {
			return fmt.Sprintf("0x%x..(%d)", v.B[:12], len(v.B))
		}
		return fmt.Sprintf("0x%x", v.B)
	case C11Unit:
		return "()"
	case C11Option:
		if v.Idx == 0 {
			return "None"
		}
		return "Some(" + C11String(t.Elem, v.Elems[0]) + ")"
	case C11Result:
		if v.Idx == 0 {
			return "Ok(" + C11String(t.Fields[0], v.Elems[0]) + ")"
		}
		return "Err(" + C11String(t.Fields[1], v.Elems[0]) + ")"
	case C11Enum:
		return fmt.Sprintf("#%d(%s)", t.Tags[v.Idx], C11String(t.Fields[v.Idx], v.Elems[0]))
	case C11Vec, C11Array:
		var s []string
		for i, e := range v.Elems {
			if i == 4 {
				s = append(s, fmt.Sprintf("..(%d)", len(v.Elems)))
				break
			}
			s = append(s, C11String(t.Elem, e))
		}
		return "[" + strings.Join(s, " ") + "]"
	case C11Map:
		var s []string
		for i := 0; i+1 < len(v.Elems); i += 2 {
			if i == 8 {
				s = append(s, fmt.Sprintf("..(%d)", len(v.Elems)/2))
				break
			}
			s = append(s, C11String(t.Key, v.Elems[i])+":"+C11String(t.Elem, v.Elems[i+1]))
		}
		return "{" + strings.Join(s, " ") + "}"
	case C11Tuple:
		var s []string
		for i, e := range v.Elems {
			s = append(s, C11String(t.Fields[i], e))
		}
		return "(" + strings.Join(s, ",") + ")"
	}
	if v.N != nil {
		return v.N.String()
	}
	return "?"
}

// C11EncodeCompactBig is the canonical compact encoding of a non-negative integer.
func C11EncodeCompactBig(n *big.Int) []byte {
	if n.Sign() < 0 {
		panic("refscale: negative compact")
	}
	if n.BitLen() <= 30 {
		return Compact(n.Uint64())
	}
	be := n.Bytes()
	if len(be) > 67 {
		panic("refscale: compact integer too large")
	}
	out := []byte{byte((len(be)-4)<<2) | 3}
	for i := len(be) - 1; i >= 0; i-- {
		out = append(out, be[i])
	}
	return out
}

// C11Enc is the canonical encoding of v.
func C11Enc(t *C11Type, v *C11Val) []byte {
	var out []byte
	c11enc(&out, t, v)
	return out
}

func c11enc(out *[]byte, t *C11Type, v *C11Val) {
	if w, signed, ok := c11fixedWidth(t.Kind); ok {
		n := new(big.Int).Set(v.N)
		if signed && n.Sign() < 0 {
			n.Add(n, new(big.Int).Lsh(big.NewInt(1), uint(8*w)))
		}
		if n.Sign() < 0 || n.BitLen() > 8*w {
			panic(fmt.Sprintf("refscale: %s out of range for %s", v.N, C11Name(t)))
		}
		be := n.FillBytes(make([]byte, w))
		for i := w - 1; i >= 0; i-- {
			*out = append(*out, be[i])
		}
		return
	}
	switch t.Kind {
	case C11Compact, C11CompactBig:
		*out = append(*out, C11EncodeCompactBig(v.N)...)
	case C11Bool:
		if v.T {
			*out = append(*out, 1)
		} else {
			*out = append(*out, 0)
		}
	case C11Bytes, C11Str:
		*out = append(*out, Compact(uint64(len(v.B)))...)
		*out = append(*out, v.B...)
	case C11Unit:
	case C11Option:
		if v.Idx == 0 {
			*out = append(*out, 0)
			return
		}
		*out = append(*out, 1)
		c11enc(out, t.Elem, v.Elems[0])
	case C11Result:
		*out = append(*out, byte(v.Idx))
		c11enc(out, t.Fields[v.Idx], v.Elems[0])
	case C11Enum:
		*out = append(*out, t.Tags[v.Idx])
		c11enc(out, t.Fields[v.Idx], v.Elems[0])
	case C11Vec:
		*out = append(*out, Compact(uint64(len(v.Elems)))...)
		for _, e := range v.Elems {
			c11enc(out, t.Elem, e)
		}
	case C11Array:
		if len(v.Elems) != t.N {
			panic("refscale: array length")
		}
		for _, e := range v.Elems {
			c11enc(out, t.Elem, e)
		}
	case C11Tuple:
		for i, e := range v.Elems {
			c11enc(out, t.Fields[i], e)
		}
	case C11Map:
		idx := c11sortedEntries(t, v)
		*out = append(*out, Compact(uint64(len(idx)))...)
		for _, i := range idx {
			c11enc(out, t.Key, v.Elems[2*i])
			c11enc(out, t.Elem, v.Elems[2*i+1])
		}
	default:
		panic("refscale: kind")
	}
}

func c11sortedEntries(t *C11Type, v *C11Val) []int {
	idx := make([]int, len(v.Elems)/2)
	for i := range idx {
		idx[i] = i
	}
	sort.SliceStable(idx, func(a, b int) bool { return C11Cmp(t.Key, v.Elems[2*idx[a]], v.Elems[2*idx[b]]) < 0 })
	return idx
}

// C11Cmp is the Rust `Ord` order of two values of type t (derive(Ord) semantics:
// integers numerically, false<true, byte strings and sequences lexicographically,
// None<Some, Ok<Err, enum by variant position then payload, tuples field by field).
func C11Cmp(t *C11Type, a, b *C11Val) int {
	if _, _, ok := c11fixedWidth(t.Kind); ok || t.Kind == C11Compact || t.Kind == C11CompactBig {
		return a.N.Cmp(b.N)
	}
	switch t.Kind {
	case C11Bool:
		switch {
		case a.T == b.T:
			return 0
		case !a.T:
			return -1
		}
		return 1
	case C11Bytes, C11Str:
		return bytes.Compare(a.B, b.B)
	case C11Unit:
		return 0
	case C11Option, C11Result, C11Enum:
		if a.Idx != b.Idx {
			if a.Idx < b.Idx {
				return -1
			}
			return 1
		}
		if t.Kind == C11Option {
			if a.Idx == 0 {
				return 0
			}
			return C11Cmp(t.Elem, a.Elems[0], b.Elems[0])
		}
		return C11Cmp(t.Fields[a.Idx], a.Elems[0], b.Elems[0])
	case C11Vec, C11Array:
		for i := 0; i < len(a.Elems) && i < len(b.Elems); i++ {
			if c := C11Cmp(t.Elem, a.Elems[i], b.Elems[i]); c != 0 {
				return c
			}
		}
		return len(a.Elems) - len(b.Elems)
	case C11Tuple:
		for i := range t.Fields {
			if c := C11Cmp(t.Fields[i], a.Elems[i], b.Elems[i]); c != 0 {
				return c
			}
		}
		return 0
	case C11Map:
		ia, ib := c11sortedEntries(t, a), c11sortedEntries(t, b)
		for i := 0; i < len(ia) && i < len(ib); i++ {
			if c := C11Cmp(t.Key, a.Elems[2*ia[i]], b.Elems[2*ib[i]]); c != 0 {
				return c
			}
			if c := C11Cmp(t.Elem, a.Elems[2*ia[i]+1], b.Elems[2*ib[i]+1]); c != 0 {
				return c
			}
		}
		return len(ia) - len(ib)
	}
	panic("refscale: cmp kind")
}

// C11Equal reports whether two values of type t are equal (maps compared as maps).
func C11Equal(t *C11Type, a, b *C11Val) bool {
	if a == nil || b == nil {
		return a == b
	}
	if t.Kind == C11Map && len(a.Elems) != len(b.Elems) {
		return false
	}
	return C11Cmp(t, a, b) == 0
}

// C11HasMap reports whether t contains a map anywhere.
func C11HasMap(t *C11Type) bool {
	if t == nil {
		return false
	}
	if t.Kind == C11Map {
		return true
	}
	if C11HasMap(t.Elem) || C11HasMap(t.Key) {
		return true
	}
	for _, f := range t.Fields {
		if C11HasMap(f) {
			return true
		}
	}
	return false
}

// C11DecErr is a rejection by the reference decoder.
type C11DecErr struct {
	Class string // truncated | noncanonical-compact | compact-out-of-range | bad-bool | bad-option-tag | bad-result-tag | bad-enum-index | map-keys-not-strictly-ascending
	Leaf  string // kind of the node at which decoding failed
	Off   int    // offset of the node in the input
	InArr bool   // the failing node is (directly) an element of a fixed-size array
}

func (e *C11DecErr) Error() string { return fmt.Sprintf("%s at offset %d (%s)", e.Class, e.Off, e.Leaf) }

type c11dec struct {
	in  []byte
	pos int
	// budget guards the reference itself against huge declared lengths
	maxElems int
}

func (d *c11dec) fail(class string, t *C11Type, off int) *C11DecErr {
	return &C11DecErr{Class: class, Leaf: C11KindName(t), Off: off}
}

func (d *c11dec) take(n int, t *C11Type, off int) ([]byte, *C11DecErr) {
	if n < 0 || len(d.in)-d.pos < n {
		return nil, d.fail("truncated", t, off)
	}
	b := d.in[d.pos : d.pos+n]
	d.pos += n
	return b, nil
}

func c11le(b []byte) *big.Int {
	be := make([]byte, len(b))
	for i := range b {
		be[len(b)-1-i] = b[i]
	}
	return new(big.Int).SetBytes(be)
}

// compact decodes a canonical compact integer of at most maxBits bits (0 = unbounded).
func (d *c11dec) compact(t *C11Type, maxBits int) (*big.Int, *C11DecErr) {
	off := d.pos
	p, e := d.take(1, t, off)
	if e != nil {
		return nil, e
	}
	var n *big.Int
	switch p[0] & 3 {
	case 0:
		n = big.NewInt(int64(p[0] >> 2))
	case 1:
		b, e := d.take(1, t, off)
		if e != nil {
			return nil, e
		}
		n = big.NewInt(int64(uint16(p[0])|uint16(b[0])<<8) >> 2)
		if n.BitLen() <= 6 {
			return nil, d.fail("noncanonical-compact", t, off)
		}
	case 2:
		b, e := d.take(3, t, off)
		if e != nil {
			return nil, e
		}
		n = big.NewInt(int64((uint32(p[0]) | uint32(b[0])<<8 | uint32(b[1])<<16 | uint32(b[2])<<24) >> 2))
		if n.BitLen() <= 14 {
			return nil, d.fail("noncanonical-compact", t, off)
		}
	case 3:
		l := int(p[0]>>2) + 4
		b, e := d.take(l, t, off)
		if e != nil {
			return nil, e
		}
		if b[l-1] == 0 {
			return nil, d.fail("noncanonical-compact", t, off)
		}
		n = c11le(b)
		if n.BitLen() <= 30 {
			return nil, d.fail("noncanonical-compact", t, off)
		}
	}
	if maxBits > 0 && n.BitLen() > maxBits {
		return nil, d.fail("compact-out-of-range", t, off)
	}
	return n, nil
}

// C11Dec strictly decodes one value of type t from the front of in and returns the number of
// bytes consumed.  Every non-canonical form is rejected, so a successful decode implies
// C11Enc(t, v) == in[:n].
func C11Dec(t *C11Type, in []byte) (v *C11Val, n int, err *C11DecErr) {
	d := &c11dec{in: in, maxElems: 1 << 22}
	v, err = d.dec(t)
	if err != nil {
		return nil, 0, err
	}
	return v, d.pos, nil
}

func (d *c11dec) dec(t *C11Type) (*C11Val, *C11DecErr) {
	off := d.pos
	if w, signed, ok := c11fixedWidth(t.Kind); ok {
		b, e := d.take(w, t, off)
		if e != nil {
			return nil, e
		}
		n := c11le(b)
		if signed && n.Bit(8*w-1) == 1 {
			n.Sub(n, new(big.Int).Lsh(big.NewInt(1), uint(8*w)))
		}
		return &C11Val{N: n}, nil
	}
	switch t.Kind {
	case C11Compact:
		n, e := d.compact(t, t.Bits)
		if e != nil {
			return nil, e
		}
		return &C11Val{N: n}, nil
	case C11CompactBig:
		n, e := d.compact(t, 0)
		if e != nil {
			return nil, e
		}
		return &C11Val{N: n}, nil
	case C11Bool:
		b, e := d.take(1, t, off)
		if e != nil {
			return nil, e
		}
		if b[0] > 1 {
			return nil, d.fail("bad-bool", t, off)
		}
		return &C11Val{T: b[0] == 1}, nil
	case C11Bytes, C11Str:
		n, e := d.compact(t, 32)
		if e != nil {
			return nil, e
		}
		b, e := d.take(int(n.Int64()), t, off)
		if e != nil {
			return nil, e
		}
		return &C11Val{B: append([]byte{}, b...)}, nil
	case C11Unit:
		return &C11Val{}, nil
	case C11Option:
		b, e := d.take(1, t, off)
		if e != nil {
			return nil, e
		}
		switch b[0] {
		case 0:
			return &C11Val{Idx: 0}, nil
		case 1:
			x, e := d.dec(t.Elem)
			if e != nil {
				return nil, e
			}
			return &C11Val{Idx: 1, Elems: []*C11Val{x}}, nil
		}
		return nil, d.fail("bad-option-tag", t, off)
	case C11Result:
		b, e := d.take(1, t, off)
		if e != nil {
			return nil, e
		}
		if b[0] > 1 {
			return nil, d.fail("bad-result-tag", t, off)
		}
		x, e := d.dec(t.Fields[b[0]])
		if e != nil {
			return nil, e
		}
		return &C11Val{Idx: int(b[0]), Elems: []*C11Val{x}}, nil
	case C11Enum:
		b, e := d.take(1, t, off)
		if e != nil {
			return nil, e
		}
		for i, tag := range t.Tags {
			if tag == b[0] {
				x, e := d.dec(t.Fields[i])
				if e != nil {
					return nil, e
				}
				return &C11Val{Idx: i, Elems: []*C11Val{x}}, nil
			}
		}
		return nil, d.fail("bad-enum-index", t, off)
	case C11Vec, C11Map:
		n, e := d.compact(t, 32)
		if e != nil {
			return nil, e
		}
		cnt := int(n.Int64())
		v := &C11Val{}
		for i := 0; i < cnt; i++ {
			if i >= d.maxElems {
				// zero-sized elements with an absurd count: the reference refuses to loop
				return nil, d.fail("truncated", t, off)
			}
			if t.Kind == C11Map {
				k, e := d.dec(t.Key)
				if e != nil {
					return nil, e
				}
				if i > 0 && C11Cmp(t.Key, v.Elems[len(v.Elems)-2], k) >= 0 {
					return nil, d.fail("map-keys-not-strictly-ascending", t, off)
				}
				v.Elems = append(v.Elems, k)
			}
			x, e := d.dec(t.Elem)
			if e != nil {
				return nil, e
			}
			v.Elems = append(v.Elems, x)
		}
		return v, nil
	case C11Array:
		v := &C11Val{}
		for i := 0; i < t.N; i++ {
			x, e := d.dec(t.Elem)
			if e != nil {
				if _, _, fixed := c11fixedWidth(t.Elem.Kind); fixed && e.Leaf == C11KindName(t.Elem) {
					e.InArr = true // (elements with a length prefix of their own keep their shape)
				}
				return nil, e
			}
			v.Elems = append(v.Elems, x)
		}
		return v, nil
	case C11Tuple:
		v := &C11Val{}
		for _, f := range t.Fields {
			x, e := d.dec(f)
			if e != nil {
				return nil, e
			}
			v.Elems = append(v.Elems, x)
		}
		return v, nil
	}
	panic("refscale: dec kind")
}

// C11MinSize is the smallest possible encoding size of a value of type t.
func C11MinSize(t *C11Type) int {
	if w, _, ok := c11fixedWidth(t.Kind); ok {
		return w
	}
	switch t.Kind {
	case C11Unit:
		return 0
	case C11Array:
		return t.N * C11MinSize(t.Elem)
	case C11Tuple:
		n := 0
		for _, f := range t.Fields {
			n += C11MinSize(f)
		}
		return n
	case C11Result, C11Enum:
		m := -1
		for _, f := range t.Fields {
			if s := C11MinSize(f); m < 0 || s < m {
				m = s
			}
		}
		return 1 + m
	}
	return 1
}
