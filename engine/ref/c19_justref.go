//go:build verif

package ref

// C19 reference: which GRANDPA commits / justifications the property statement accepts, evaluated
// literally over explicit integer weights and an explicit Parent map.  Shared by the C19 harness
// parts in pkg/finality-grandpa, internal/client/consensus/grandpa and lib/grandpa.

type C19Tree struct {
	Parent []int
	Depth  []int
}

func C19NewTree(Parent []int) *C19Tree {
	t := &C19Tree{Parent: append([]int{}, Parent...), Depth: make([]int, len(Parent))}
	for i := 1; i < len(Parent); i++ {
		t.Depth[i] = t.Depth[Parent[i]] + 1
	}
	return t
}

func (t *C19Tree) IsAnc(a, b int) bool {
	for b >= 0 {
		if a == b {
			return true
		}
		b = t.Parent[b]
	}
	return false
}

// C19Pc is one precommit of a commit / justification.
type C19Pc struct {
	Voter int // index into the Voter list; -1 = an identity that is not in the Voter set
	Block int
	Sig   int // 0 = valid signature for the round and set; >0 kinds of invalid signatures (only used by the justification part)
}

type C19Reading struct {
	StrictSig         bool // an invalid signature on any precommit rejects (else: that precommit is just not counted)
	NonMembersConnect bool // precommits of non-members take part in "every precommit connects to the lowest one"
	EqvEverywhere     bool // an equivocator's weight counts towards every Block (else: towards the blocks it voted at-or-above)
}

const (
	C19Reject = iota
	C19Accept
	C19Undefined // supermajority blocks are not a chain, or equivocators alone are a supermajority
)

// C19Verdict evaluates the statement literally.  weights[v] is the (summed) weight of Voter v.
// headers == nil: no ancestry clause (ValidateCommit level, the chain is the whole tree).
// Otherwise headers lists the supplied header blocks (Block index; -2 = a header that is not a Block of the tree).
func C19Verdict(t *C19Tree, weights []uint64, pcs []C19Pc, target int, headers []int, rd C19Reading) int {
	var use []C19Pc
	for _, p := range pcs {
		if p.Sig != 0 {
			if rd.StrictSig {
				return C19Reject
			}
			continue
		}
		use = append(use, p)
	}
	var T uint64
	for _, w := range weights {
		T += w
	}
	thr := T - (T-1)/3
	// distinct set members and their distinct targets
	votes := make([][]int, len(weights))
	var connect []int // blocks that must connect to the lowest
	for _, p := range use {
		if p.Voter < 0 {
			if rd.NonMembersConnect {
				connect = append(connect, p.Block)
			}
			continue
		}
		connect = append(connect, p.Block)
		known := false
		for _, b := range votes[p.Voter] {
			known = known || b == p.Block
		}
		if !known {
			votes[p.Voter] = append(votes[p.Voter], p.Block)
		}
	}
	if len(connect) == 0 {
		return C19Reject
	}
	// the lowest precommit; everything must be on one branch above it
	low := connect[0]
	for _, b := range connect {
		if t.Depth[b] < t.Depth[low] {
			low = b
		}
	}
	for _, b := range connect {
		if !t.IsAnc(low, b) {
			return C19Reject // two different lowest blocks, or a precommit on another branch
		}
	}
	// weights
	W := func(b int) uint64 {
		var w uint64
		for v, vv := range votes {
			switch {
			case len(vv) == 1:
				if t.IsAnc(b, vv[0]) {
					w += weights[v]
				}
			case len(vv) >= 2:
				if rd.EqvEverywhere {
					w += weights[v]
				} else {
					for _, x := range vv {
						if t.IsAnc(b, x) {
							w += weights[v]
							break
						}
					}
				}
			}
		}
		return w
	}
	var eqv uint64
	for v, vv := range votes {
		if len(vv) >= 2 {
			eqv += weights[v]
		}
	}
	if rd.EqvEverywhere && eqv >= thr {
		return C19Undefined
	}
	ghost := -1
	var sm []int
	for b := range t.Parent {
		if W(b) >= thr {
			sm = append(sm, b)
			if ghost < 0 || t.Depth[b] > t.Depth[ghost] {
				ghost = b
			}
		}
	}
	if ghost < 0 {
		return C19Reject // no supermajority anywhere
	}
	for _, b := range sm {
		if !t.IsAnc(b, ghost) {
			return C19Undefined
		}
	}
	if ghost != target {
		return C19Reject // includes: less than a supermajority on the target or its descendants
	}
	if headers != nil {
		need := map[int]bool{}
		for _, b := range connect {
			for x := b; x != low; x = t.Parent[x] {
				need[x] = true
			}
		}
		have := map[int]bool{}
		for _, h := range headers {
			if h < 0 || !need[h] {
				return C19Reject // an unused header
			}
			have[h] = true
		}
		if len(have) != len(need) {
			return C19Reject // a missing header
		}
	}
	return C19Accept
}

var C19SkipNames = []string{
	"skip:supermajority-blocks-not-a-chain-or-equivocators-alone",
	"skip:open-clause:unneeded-precommit-with-invalid-signature",
	"skip:open-clause:non-member-precommit-position",
	"skip:open-clause:equivocator-not-voting-for-target",
	"skip:open-clause:combination",
}

// C19Decide: the verdict if all readings agree, else C19Undefined and the index of the open clause in C19SkipNames.
func C19Decide(t *C19Tree, weights []uint64, pcs []C19Pc, target int, headers []int) (int, int) {
	// only the readings that can make a difference on this input are evaluated
	hasBadSig, hasNonMember, hasEqv := false, false, false
	for i, p := range pcs {
		hasBadSig = hasBadSig || p.Sig != 0
		hasNonMember = hasNonMember || p.Voter < 0
		for _, q := range pcs[:i] {
			hasEqv = hasEqv || (p.Voter >= 0 && q.Voter == p.Voter && q.Block != p.Block)
		}
	}
	var v [8]int
	same := true
	for m := 0; m < 8; m++ {
		if (m&1 != 0 && !hasBadSig) || (m&2 != 0 && !hasNonMember) || (m&4 != 0 && !hasEqv) {
			v[m] = v[m&^((b2i(!hasBadSig))|(b2i(!hasNonMember)<<1)|(b2i(!hasEqv)<<2))]
			continue
		}
		v[m] = C19Verdict(t, weights, pcs, target, headers, C19Reading{StrictSig: m&1 == 0, NonMembersConnect: m&2 == 0, EqvEverywhere: m&4 == 0})
		if v[m] == C19Undefined {
			return C19Undefined, 0
		}
		same = same && v[m] == v[0]
	}
	if same {
		return v[0], -1
	}
	switch {
	case v[1] != v[0]:
		return C19Undefined, 1
	case v[2] != v[0]:
		return C19Undefined, 2
	case v[4] != v[0]:
		return C19Undefined, 3
	}
	return C19Undefined, 4
}

func b2i(b bool) int {
	if b {
		return 1
	}
	return 0
}
