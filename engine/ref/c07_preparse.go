//go:build verif

package ref

// C07MaxDeclaredLen is an independent structural walk over a (possibly malformed) node encoding
// that returns the largest SCALE byte-string length the input declares (value length, child
// reference lengths, and the same inside child references shorter than 32 bytes, which
// pkg/trie/node decodes recursively).  C07 uses it only to schedule inputs that make the SCALE
// decoder allocate the declared length (hundreds of MiB for a 30-byte input): they are executed one
// at a time or counted as skipped; it never decides a verdict.  -1 = none declared.
func C07MaxDeclaredLen(in []byte) int64 {
	return c07Declared(in, 0)
}

const c07Huge = int64(1) << 62

// c07Compact reads a SCALE compact integer at in[0:]; returns value (c07Huge if it does not fit or
// the big-integer mode is used), bytes consumed, ok=false if the input is too short.
func c07Compact(in []byte) (v int64, n int, ok bool) {
	if len(in) == 0 {
		return 0, 0, false
	}
	// a decoder that tolerates short reads sees the missing bytes as zero: pad
	pad := func(k int) []byte {
		if len(in) >= k {
			return in
		}
		p := make([]byte, k)
		copy(p, in)
		return p
	}
	avail := func(k int) int {
		if len(in) < k {
			return len(in)
		}
		return k
	}
	switch in[0] & 3 {
	case 0:
		return int64(in[0] >> 2), 1, true
	case 1:
		b := pad(2)
		return int64(uint16(b[0])|uint16(b[1])<<8) >> 2, avail(2), true
	case 2:
		b := pad(4)
		return int64(uint32(b[0])|uint32(b[1])<<8|uint32(b[2])<<16|uint32(b[3])<<24) >> 2, avail(4), true
	}
	l := int(in[0]>>2) + 4
	b := pad(1 + l)
	if l > 7 {
		for _, x := range b[8:] {
			if x != 0 {
				return c07Huge, avail(1 + l), true
			}
		}
		l = 7
	}
	var x int64
	for i := l - 1; i >= 0; i-- {
		x = x<<8 | int64(b[1+i])
	}
	return x, avail(1 + l), true
}

func c07Declared(in []byte, depth int) int64 {
	max := int64(-1)
	if len(in) == 0 || depth > 40 {
		return max
	}
	h := in[0]
	var branch, hasValue, hashed bool
	var lenMax int
	switch {
	case h>>6 == 0b01:
		hasValue, lenMax = true, 63
	case h>>6 == 0b10:
		branch, lenMax = true, 63
	case h>>6 == 0b11:
		branch, hasValue, lenMax = true, true, 63
	case h>>5 == 0b001:
		hasValue, hashed, lenMax = true, true, 31
	case h>>4 == 0b0001:
		branch, hasValue, hashed, lenMax = true, true, true, 15
	default:
		return max // empty, compact-proof or unknown variant: nothing follows
	}
	pos := 1
	pk := int(h) & lenMax
	if pk == lenMax {
		for {
			if pos >= len(in) {
				return max
			}
			b := int(in[pos])
			pos++
			pk += b
			if pk > 65535 {
				return max
			}
			if b < 255 {
				break
			}
		}
	}
	pos += pk/2 + pk%2
	if pos > len(in) {
		return max
	}
	var bitmap uint16
	if branch {
		if pos+2 > len(in) {
			// a one-byte bitmap read is possible with the decoders under test; nothing declared yet
			return max
		}
		bitmap = uint16(in[pos]) | uint16(in[pos+1])<<8
		pos += 2
	}
	if hasValue {
		if hashed {
			pos += 32
		} else {
			v, n, ok := c07Compact(in[pos:])
			if !ok {
				return max
			}
			if v > max {
				max = v
			}
			pos += n
			if v > int64(len(in)) {
				return max
			}
			pos += int(v)
		}
		if pos > len(in) {
			return max
		}
	}
	for i := 0; i < 16; i++ {
		if bitmap>>uint(i)&1 == 0 {
			continue
		}
		v, n, ok := c07Compact(in[pos:])
		if !ok {
			return max
		}
		if v > max {
			max = v
		}
		pos += n
		if v > int64(len(in)-pos) {
			// the decoders pad a short read; an inline child (< 32 bytes) would then be decoded from
			// the padded bytes - only possible for v < 32
			if v < 32 {
				child := make([]byte, v)
				copy(child, in[pos:])
				if d := c07Declared(child, depth+1); d > max {
					max = d
				}
			}
			return max
		}
		if v < 32 {
			if d := c07Declared(in[pos:pos+int(v)], depth+1); d > max {
				max = d
			}
		}
		pos += int(v)
	}
	return max
}
