//go:build verif

package ref

// C14/C33 shared: abstract descriptions of chain data structures, their reference
// encodings written straight from the Polkadot specification with the plain byte-append writer
// C14Buf (no pkg/scale), and builders of the corresponding real Go values.
//
// Specification (Polkadot Protocol Specification, "Block format" / "SCALE codec"):
//   Header      = parent_hash[32] ++ Compact(number) ++ state_root[32] ++ extrinsics_root[32] ++ Vec<DigestItem>
//   DigestItem  = 0x00 Other(bytes) | 0x04 Consensus(engine[4], bytes) | 0x05 Seal(engine[4], bytes)
//               | 0x06 PreRuntime(engine[4], bytes) | 0x08 RuntimeEnvironmentUpdated
//   Body        = Vec<Extrinsic>, Extrinsic = opaque bytes: Compact(len) ++ bytes
//   BABE pre-digest       = 0x01 Primary(authority_index u32, slot u64, vrf_output[32], vrf_proof[64])
//                         | 0x02 SecondaryPlain(authority_index u32, slot u64)
//                         | 0x03 SecondaryVRF(authority_index u32, slot u64, vrf_output[32], vrf_proof[64])
//   BABE consensus digest = 0x01 NextEpochData(Vec<(key[32], weight u64)>, randomness[32])
//                         | 0x02 OnDisabled(authority_index u32)
//                         | 0x03 NextConfigData(0x01 V1(c1 u64, c2 u64, secondary_slots u8))
//   GRANDPA consensus digest = 0x01 ScheduledChange(Vec<(key[32], weight u64)>, delay u32)
//                         | 0x02 ForcedChange(best_finalized u32, Vec<(key,weight)>, delay u32)
//                         | 0x03 OnDisabled(authority_index u64) | 0x04 Pause(delay u32) | 0x05 Resume(delay u32)

import (
	"fmt"
	"reflect"
)

// ---------------------------------------------------------------- digest items and headers

const (
	C14KindOther      = 0
	C14KindConsensus  = 4
	C14KindSeal       = 5
	C14KindPreRuntime = 6
	C14KindRuntimeEnv = 8
)

type C14Item struct {
	Kind   int
	Engine [4]byte
	Data   []byte
}

func (it C14Item) String() string {
	switch it.Kind {
	case C14KindOther:
		return fmt.Sprintf("Other(%dB)", len(it.Data))
	case C14KindRuntimeEnv:
		return "RuntimeEnvironmentUpdated"
	}
	name := map[int]string{4: "Consensus", 5: "Seal", 6: "PreRuntime"}[it.Kind]
	return fmt.Sprintf("%s(%s,%dB)", name, string(it.Engine[:]), len(it.Data))
}

type C14Header struct {
	Parent, StateRoot, ExtrinsicsRoot [32]byte
	Number                            uint64
	Items                             []C14Item
}

func (h C14Header) String() string {
	return fmt.Sprintf("header{number=%d parent=%x.. digest=%v}", h.Number, h.Parent[:2], h.Items)
}

func C14RefItem(b *C14Buf, it C14Item) {
	b.U8(byte(it.Kind))
	switch it.Kind {
	case C14KindOther:
		b.Bytes(it.Data, "digest-other-data")
	case C14KindConsensus, C14KindSeal, C14KindPreRuntime:
		b.Raw(it.Engine[:]...)
		b.Bytes(it.Data, "digest-item-data")
	case C14KindRuntimeEnv:
	default:
		panic("C14RefItem: kind outside the specification")
	}
}

// C14RefHeader is the reference encoding of a header.
func C14RefHeader(h C14Header) *C14Buf {
	b := &C14Buf{}
	b.Raw(h.Parent[:]...)
	b.Compact(h.Number)
	b.Raw(h.StateRoot[:]...)
	b.Raw(h.ExtrinsicsRoot[:]...)
	b.Len(len(h.Items), "digest-count")
	for _, it := range h.Items {
		C14RefItem(b, it)
	}
	return b
}

// C14Representable reports whether the Go type has a variant for every item.
func C14Representable(h C14Header) bool {
	for _, it := range h.Items {
		if it.Kind == C14KindOther {
			return false
		}
	}
	return true
}

func C14SameHeader(a, b C14Header) bool {
	if a.Parent != b.Parent || a.StateRoot != b.StateRoot || a.ExtrinsicsRoot != b.ExtrinsicsRoot || a.Number != b.Number || len(a.Items) != len(b.Items) {
		return false
	}
	for i := range a.Items {
		if a.Items[i].Kind != b.Items[i].Kind || a.Items[i].Engine != b.Items[i].Engine || string(a.Items[i].Data) != string(b.Items[i].Data) {
			return false
		}
	}
	return true
}

// C14ItemMenu lists digest items: every kind of the specification x engine id x data length.
func C14ItemMenu(dataLens []int) []C14Item {
	engines := [][4]byte{{'B', 'A', 'B', 'E'}, {'F', 'R', 'N', 'K'}, {'a', 'u', 'r', 'a'}}
	var out []C14Item
	for _, kind := range []int{C14KindPreRuntime, C14KindConsensus, C14KindSeal} {
		for _, e := range engines {
			for _, l := range dataLens {
				out = append(out, C14Item{Kind: kind, Engine: e, Data: C14Fill(l, byte(kind+l), 3)})
			}
		}
	}
	for _, l := range dataLens {
		out = append(out, C14Item{Kind: C14KindOther, Data: C14Fill(l, byte(0x40+l), 5)})
	}
	out = append(out, C14Item{Kind: C14KindRuntimeEnv})
	return out
}

// C14Numbers are block numbers at every compact-integer mode boundary within the u32 block-number
// type of Polkadot.
func C14Numbers() []uint64 {
	return []uint64{0, 1, 63, 64, 16383, 16384, 1<<30 - 1, 1 << 30, 1<<32 - 1}
}

// ---------------------------------------------------------------- bodies

func C14RefBody(exts [][]byte) *C14Buf {
	b := &C14Buf{}
	b.Len(len(exts), "extrinsic-count")
	for _, e := range exts {
		b.Bytes(e, "extrinsic")
	}
	return b
}

func C14BodyMenu(lens []int, maxN int) [][][]byte {
	var out [][][]byte
	var rec func(cur [][]byte)
	rec = func(cur [][]byte) {
		out = append(out, append([][]byte{}, cur...))
		if len(cur) == maxN {
			return
		}
		for _, l := range lens {
			rec(append(cur, C14Fill(l, byte(0x10*len(cur)+l), 7)))
		}
	}
	rec(nil)
	return out
}

// ---------------------------------------------------------------- a small header catalogue for other checks (C33)

// C14SmallHeaders is a short list of headers covering every digest item kind the Go type can hold.
func C14SmallHeaders() []C14Header {
	p, s, e := C14TameHash32(0x11), C14TameHash32(0x22), C14TameHash32(0x33)
	babe, frnk := [4]byte{'B', 'A', 'B', 'E'}, [4]byte{'F', 'R', 'N', 'K'}
	return []C14Header{
		{Parent: p, StateRoot: s, ExtrinsicsRoot: e, Number: 0},
		{Parent: p, StateRoot: s, ExtrinsicsRoot: e, Number: 64, Items: []C14Item{{Kind: C14KindPreRuntime, Engine: babe, Data: C14Tame(13, 2)}}},
		{Parent: p, StateRoot: s, ExtrinsicsRoot: e, Number: 16384, Items: []C14Item{
			{Kind: C14KindPreRuntime, Engine: babe, Data: C14Tame(13, 2)},
			{Kind: C14KindConsensus, Engine: frnk, Data: C14Tame(7, 9)},
			{Kind: C14KindSeal, Engine: babe, Data: C14Tame(64, 1)}}},
		{Parent: p, StateRoot: s, ExtrinsicsRoot: e, Number: 1 << 30, Items: []C14Item{{Kind: C14KindRuntimeEnv}, {Kind: C14KindConsensus, Engine: babe, Data: nil}}},
	}
}

// C14OtherBytes recognises a Go value that could stand for an Other digest item (a named []byte, or a
// struct whose only field is a byte slice); the unchanged tree has no such variant.
func C14OtherBytes(v any) ([]byte, bool) {
	rv := reflect.ValueOf(v)
	if rv.Kind() == reflect.Struct && rv.NumField() == 1 {
		rv = rv.Field(0)
	}
	if rv.Kind() == reflect.Slice && rv.Type().Elem().Kind() == reflect.Uint8 {
		out := make([]byte, rv.Len())
		for i := range out {
			out[i] = byte(rv.Index(i).Uint())
		}
		return out, true
	}
	return nil, false
}
