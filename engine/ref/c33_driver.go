//go:build verif

package ref

// C33: generic driver "arbitrary peer bytes against a message decoder".  The harness of each gossamer
// package lists its decoders (closures over the real functions) and a catalogue of valid encodings
// produced by the C14 reference writer; this file enumerates the inputs and evaluates the clauses of
// the statement on every one of them:
//
//	message or error     - the call returns (panics are caught per element, verifmc.Guard)
//	never hangs          - watchdog (20 s polls; an input that has not returned after 120 s is a hang)
//	memory ~ length      - runtime.MemStats.TotalAlloc delta, measured single-threaded, minimum of two
//	                       runs, bound 64*len(input)+256 KiB
//	re-encode equality   - a successfully decoded message m is encoded again, decoded again and the
//	                       second message must equal m (decode.encode.decode stable)
//
// Nothing is sampled; element i of every phase is a function of (decoder, catalogue, i).

import (
	"fmt"
	"os"
	"reflect"
	"runtime"
	"runtime/debug"
	"sort"
	"strings"
	"sync"
	"sync/atomic"
	"time"

	"github.com/ChainSafe/gossamer/internal/verifmc"
)

// C33Valid is one valid encoding of the catalogue.
type C33Valid struct {
	Name string
	Enc  *C14Buf
}

// C33Decoder describes one decoder under test.
type C33Decoder struct {
	Name string
	// Decode runs the real decoder; it gets a private copy of the input.
	Decode func(in []byte) (msg any, err error)
	// Encode re-encodes a decoded message (nil: the type has no encoder; the clause is counted as not applicable).
	Encode func(msg any) ([]byte, error)
	// Catalogue of valid encodings (deviation-1 neighbourhoods and crafted lengths are derived from it).
	Catalogue []C33Valid
	// Observe optionally runs extra observers on a decoded message (String methods...); panics there
	// are recorded as outcomes only, never as violations.
	Observe func(msg any)
}

// C33Config holds the bounds.
type C33Config struct {
	MaxLen       int      // all byte strings of length <= MaxLen
	CraftedScale []uint64 // values spliced into every SCALE length prefix of every catalogue entry
	CraftedPB    []uint64 // values spliced into every protobuf length prefix of every catalogue entry
	AllocAll     bool     // measure allocation on the deviation neighbourhoods too (otherwise: valid, crafted, all short strings)
}

const (
	c33Watchdog   = 20 * time.Second  // no progress on one input for this long = suspected hang ...
	c33HangAfter  = 120 * time.Second // ... reported as a hang when it still has not returned after this long
	c33AllocSlack = 256 << 10
	c33AllocPerB  = 64
)

type c33Input struct {
	seqOnly bool // scheduling: run single-threaded
	dec     int
	data    []byte
	label   string // how the input was derived (for replay/signatures)
	shape   string // short class of derivation: "short", "valid", "trunc", "subst", "append", "crafted:<what>"
}

// ---------------------------------------------------------------- canonical dump of a decoded message

// C33Dump renders every field of v (unexported ones included, read-only reflection) as "path=value"
// lines.  nil and empty slices are the same value; the `hash` cache of a Header is skipped.
func C33Dump(v any) []string {
	var out []string
	c33dump(reflect.ValueOf(v), "", &out, 0)
	return out
}

func c33dump(v reflect.Value, path string, out *[]string, depth int) {
	if depth > 40 {
		*out = append(*out, path+"=<too deep>")
		return
	}
	if !v.IsValid() {
		*out = append(*out, path+"=nil")
		return
	}
	switch v.Kind() {
	case reflect.Ptr:
		if v.IsNil() {
			*out = append(*out, path+"=nil")
			return
		}
		c33dump(v.Elem(), path+"*", out, depth+1)
	case reflect.Interface:
		if v.IsNil() {
			*out = append(*out, path+"=nil")
			return
		}
		c33dump(v.Elem(), path+"("+v.Elem().Type().String()+")", out, depth+1)
	case reflect.Struct:
		t := v.Type()
		if t.NumField() == 0 {
			*out = append(*out, path+"={}")
		}
		for i := 0; i < t.NumField(); i++ {
			f := t.Field(i)
			if f.Name == "hash" && t.Name() == "Header" {
				continue // lazily filled cache, not part of the message
			}
			c33dump(v.Field(i), path+"."+f.Name, out, depth+1)
		}
	case reflect.Slice, reflect.Array:
		if v.Type().Elem().Kind() == reflect.Uint8 {
			b := make([]byte, v.Len())
			for i := range b {
				b[i] = byte(v.Index(i).Uint())
			}
			*out = append(*out, fmt.Sprintf("%s=%x", path, b))
			return
		}
		*out = append(*out, fmt.Sprintf("%s.len=%d", path, v.Len()))
		for i := 0; i < v.Len(); i++ {
			c33dump(v.Index(i), fmt.Sprintf("%s[%d]", path, i), out, depth+1)
		}
	case reflect.Map:
		keys := v.MapKeys()
		ks := make([]string, len(keys))
		for i, k := range keys {
			ks[i] = fmt.Sprint(C33Dump(k))
		}
		idx := make([]int, len(keys))
		for i := range idx {
			idx[i] = i
		}
		sort.Slice(idx, func(a, b int) bool { return ks[idx[a]] < ks[idx[b]] })
		*out = append(*out, fmt.Sprintf("%s.len=%d", path, len(keys)))
		for _, i := range idx {
			c33dump(v.MapIndex(keys[i]), path+"{"+ks[i]+"}", out, depth+1)
		}
	case reflect.Bool:
		*out = append(*out, fmt.Sprintf("%s=%t", path, v.Bool()))
	case reflect.Int, reflect.Int8, reflect.Int16, reflect.Int32, reflect.Int64:
		*out = append(*out, fmt.Sprintf("%s=%d", path, v.Int()))
	case reflect.Uint, reflect.Uint8, reflect.Uint16, reflect.Uint32, reflect.Uint64, reflect.Uintptr:
		*out = append(*out, fmt.Sprintf("%s=%d", path, v.Uint()))
	case reflect.String:
		*out = append(*out, fmt.Sprintf("%s=%q", path, v.String()))
	case reflect.Float32, reflect.Float64:
		*out = append(*out, fmt.Sprintf("%s=%v", path, v.Float()))
	default:
		*out = append(*out, fmt.Sprintf("%s=<%s>", path, v.Kind()))
	}
}

// C33FirstDiff returns "" when the dumps are equal, else the path (indices removed) and the two lines.
func C33FirstDiff(a, b []string) (pathClass, detail string) {
	n := len(a)
	if len(b) < n {
		n = len(b)
	}
	for i := 0; i < n; i++ {
		if a[i] != b[i] {
			return c33PathClass(a[i]), fmt.Sprintf("first decode: %s | after re-encoding: %s", c33Clip(a[i]), c33Clip(b[i]))
		}
	}
	if len(a) != len(b) {
		return "shape", fmt.Sprintf("dump lengths %d vs %d", len(a), len(b))
	}
	return "", ""
}

func c33Clip(s string) string {
	if len(s) > 160 {
		return s[:160] + "..."
	}
	return s
}

func c33PathClass(line string) string {
	p := line
	if k := strings.Index(p, "="); k >= 0 {
		p = p[:k]
	}
	// strip indices
	var sb strings.Builder
	in := false
	for _, c := range p {
		switch {
		case c == '[':
			in = true
		case c == ']':
			in = false
			sb.WriteString("[]")
		case !in:
			sb.WriteRune(c)
		}
	}
	return sb.String()
}

// ---------------------------------------------------------------- evaluation of one input

// c33PanicSite names the innermost gossamer frame of a verifmc.Guard message ("pkg.(*T).Method").
func c33PanicSite(msg string) string {
	lines := strings.Split(msg, "\n")
	seen := false
	for _, l := range lines {
		if strings.HasPrefix(l, "panic(") {
			seen = true
			continue
		}
		if !seen || !strings.Contains(l, "github.com/ChainSafe/gossamer/") || strings.Contains(l, "internal/verifmc") || strings.HasPrefix(l, "\t") {
			continue
		}
		fn := l[strings.LastIndex(l, "/")+1:]
		if k := strings.LastIndex(fn, "("); k > 0 {
			fn = fn[:k]
		}
		return fn
	}
	return "unknown"
}

// c33DeepSize sums the payload bytes reachable from v (slices, strings, arrays of scalars); it stops
// as soon as the sum exceeds limit.
func c33DeepSize(v reflect.Value, limit, depth int) int {
	if !v.IsValid() || depth > 40 {
		return 0
	}
	switch v.Kind() {
	case reflect.Ptr, reflect.Interface:
		if v.IsNil() {
			return 0
		}
		return c33DeepSize(v.Elem(), limit, depth+1)
	case reflect.Struct:
		n := 0
		for i := 0; i < v.NumField() && n <= limit; i++ {
			n += c33DeepSize(v.Field(i), limit-n, depth+1)
		}
		return n
	case reflect.String:
		return v.Len()
	case reflect.Slice, reflect.Array:
		switch v.Type().Elem().Kind() {
		case reflect.Uint8, reflect.Int8, reflect.Bool:
			return v.Len()
		case reflect.Uint16, reflect.Int16:
			return 2 * v.Len()
		case reflect.Uint32, reflect.Int32:
			return 4 * v.Len()
		case reflect.Uint64, reflect.Int64, reflect.Uint, reflect.Int:
			return 8 * v.Len()
		}
		n := int(v.Type().Elem().Size()) * v.Len()
		for i := 0; i < v.Len() && n <= limit; i++ {
			n += c33DeepSize(v.Index(i), limit-n, depth+1)
		}
		return n
	case reflect.Map:
		n := 0
		it := v.MapRange()
		for it.Next() && n <= limit {
			n += c33DeepSize(it.Key(), limit-n, depth+1) + c33DeepSize(it.Value(), limit-n, depth+1)
		}
		return n
	}
	return int(v.Type().Size())
}

type c33Eval struct {
	dumpLines int // size of the canonical dump of the decoded message (a cheap class of its shape)
	outcome   string
	sig       string // "" = no violation
	desc      string
}

func c33Short(b []byte) string {
	if len(b) > 48 {
		return fmt.Sprintf("%x..(%d bytes)", b[:48], len(b))
	}
	return fmt.Sprintf("%x", b)
}

func c33EvalOne(d *C33Decoder, in []byte) (ev c33Eval) {
	var msg any
	var err error
	cp := append([]byte{}, in...)
	if p, pm := verifmc.Guard(func() { msg, err = d.Decode(cp) }); p {
		site := c33PanicSite(pm)
		return c33Eval{outcome: "panic", sig: d.Name + ":panic:" + site,
			desc: fmt.Sprintf("%s panics on %d-byte input %s\n%s", d.Name, len(in), c33Short(in), pm)}
	}
	if err != nil {
		return c33Eval{outcome: "error"}
	}
	if msg == nil || (reflect.ValueOf(msg).Kind() == reflect.Ptr && reflect.ValueOf(msg).IsNil()) {
		return c33Eval{outcome: "nil-message-nil-error", sig: d.Name + ":neither-message-nor-error",
			desc: fmt.Sprintf("%s returns a nil message and a nil error for input %s", d.Name, c33Short(in))}
	}
	// A decoded message that holds more bytes than the allocation bound is by itself a witness of the
	// memory clause (retained memory, no measurement needed); it is not re-encoded (a 46 MB body from a
	// 122-byte input takes seconds to encode and says nothing new).
	if bound := c33AllocPerB*len(in) + c33AllocSlack; c33DeepSize(reflect.ValueOf(msg), bound, 0) > bound {
		return c33Eval{outcome: "ok(message-larger-than-allocation-bound)", sig: d.Name + ":allocation-not-proportional-to-input:decoded-message-larger-than-bound",
			desc: fmt.Sprintf("%s decodes the %d-byte input %s into a message holding more than %d bytes (bound 64*len+256 KiB)", d.Name, len(in), c33Short(in), bound)}
	}
	if d.Observe != nil {
		if p, _ := verifmc.Guard(func() { d.Observe(msg) }); p {
			ev.outcome = "ok+observer-panics"
		}
	}
	if d.Encode == nil {
		if ev.outcome == "" {
			ev.outcome = "ok(no-encoder)"
		}
		return ev
	}
	dump1 := C33Dump(msg) // before Encode: Encode must not be able to repair the comparison
	ev.dumpLines = len(dump1)
	var enc []byte
	if p, pm := verifmc.Guard(func() { enc, err = d.Encode(msg) }); p {
		return c33Eval{outcome: "re-encode-panics", sig: d.Name + ":re-encode-panics:" + c33PanicSite(pm),
			desc: fmt.Sprintf("%s: message decoded from %s panics when encoded again\n%s", d.Name, c33Short(in), pm)}
	}
	if err != nil {
		return c33Eval{outcome: "re-encode-fails", sig: d.Name + ":decoded-message-does-not-re-encode",
			desc: fmt.Sprintf("%s: message decoded from %s cannot be encoded again: %v", d.Name, c33Short(in), err)}
	}
	var msg2 any
	enc2 := append([]byte{}, enc...)
	if p, pm := verifmc.Guard(func() { msg2, err = d.Decode(enc2) }); p {
		return c33Eval{outcome: "re-decode-panics", sig: d.Name + ":panic:" + c33PanicSite(pm),
			desc: fmt.Sprintf("%s panics on its own re-encoding %s of the message decoded from %s\n%s", d.Name, c33Short(enc), c33Short(in), pm)}
	}
	if err != nil {
		return c33Eval{outcome: "re-decode-fails", sig: d.Name + ":re-encoding-is-rejected",
			desc: fmt.Sprintf("%s: input %s decodes, re-encodes to %s, which is rejected: %v", d.Name, c33Short(in), c33Short(enc), err)}
	}
	if cls, det := C33FirstDiff(dump1, C33Dump(msg2)); cls != "" {
		return c33Eval{outcome: "re-decode-differs", sig: d.Name + ":re-decoded-message-differs-at:" + cls,
			desc: fmt.Sprintf("%s: input %s decodes to a message that re-encodes to %s, which decodes to a different message: %s", d.Name, c33Short(in), c33Short(enc), det)}
	}
	if ev.outcome == "" {
		ev.outcome = "ok"
		if string(enc) != string(in) {
			ev.outcome = "ok(re-encoding-differs-from-input)"
		}
	}
	return ev
}

// ---------------------------------------------------------------- the input space (indexable, nothing materialised)

// c33DevCount / c33DevAt enumerate exactly the set verifmc.Deviate(valid, true, ...) yields: every
// truncation, every single-byte substitution (255 values per position) and one appended byte (00, 01, ff).
func c33DevCount(l int) int { return l + 255*l + 3 }

func c33DevAt(valid []byte, k int) verifmc.Deviation {
	l := len(valid)
	switch {
	case k < l:
		return verifmc.Deviation{Kind: "trunc", Pos: k, Data: append([]byte{}, valid[:k]...)}
	case k < l+255*l:
		k -= l
		pos, v := k/255, k%255
		if byte(v) >= valid[pos] {
			v++
		}
		d := append([]byte{}, valid...)
		d[pos] = byte(v)
		return verifmc.Deviation{Kind: "subst", Pos: pos, Val: byte(v), Data: d}
	default:
		v := []byte{0x00, 0x01, 0xff}[k-l-255*l]
		return verifmc.Deviation{Kind: "append", Pos: l, Val: v, Data: append(append([]byte{}, valid...), v)}
	}
}

// c33PBFields splits a protobuf message into (field, wire type, payload of length-delimited fields);
// ok=false when the framing is broken.
func c33PBFields(b []byte, f func(field, wt int, payload []byte)) bool {
	varint := func() (uint64, bool) {
		var v uint64
		for i := 0; i < 10 && len(b) > 0; i++ {
			c := b[0]
			b = b[1:]
			v |= uint64(c&0x7f) << (7 * i)
			if c < 0x80 {
				return v, true
			}
		}
		return 0, false
	}
	for len(b) > 0 {
		tag, ok := varint()
		if !ok {
			return false
		}
		switch tag & 7 {
		case 0:
			if _, ok := varint(); !ok {
				return false
			}
			f(int(tag>>3), 0, nil)
		case 2:
			n, ok := varint()
			if !ok || n > uint64(len(b)) {
				return false
			}
			f(int(tag>>3), 2, b[:n])
			b = b[n:]
		case 1:
			if len(b) < 8 {
				return false
			}
			b = b[8:]
		case 5:
			if len(b) < 4 {
				return false
			}
			b = b[4:]
		default:
			return false
		}
	}
	return true
}

// c33BodyEntryDeclaresMore: some BlockData.body entry (field 1 -> field 3) starts with a SCALE compact
// length that declares more bytes than the entry holds.
func c33BodyEntryDeclaresMore(msg []byte) bool {
	found := false
	c33PBFields(msg, func(field, wt int, bd []byte) {
		if field != 1 || wt != 2 {
			return
		}
		c33PBFields(bd, func(field, wt int, e []byte) {
			if field != 3 || wt != 2 || len(e) == 0 {
				return
			}
			var declared uint64
			var width int
			switch e[0] & 3 {
			case 0:
				declared, width = uint64(e[0]>>2), 1
			case 1:
				if len(e) < 2 {
					return
				}
				declared, width = (uint64(e[0])|uint64(e[1])<<8)>>2, 2
			case 2:
				if len(e) < 4 {
					return
				}
				declared, width = (uint64(e[0])|uint64(e[1])<<8|uint64(e[2])<<16|uint64(e[3])<<24)>>2, 4
			default:
				n := int(e[0]>>2) + 4
				if n > 8 || len(e) < 1+n {
					return
				}
				for i := 0; i < n; i++ {
					declared |= uint64(e[1+i]) << (8 * i)
				}
				width = 1 + n
			}
			if declared > uint64(len(e)-width) {
				found = true
			}
		})
	})
	return found
}

type c33Seg struct {
	dec   int
	valid *C33Valid // nil: all short byte strings
	n     int
	base  int
	risky map[int]bool // offsets whose substitution into a multi-byte compact mode may declare > 1 MiB
}

type c33Space struct {
	segs  []c33Seg
	total int
}

func c33BuildSpace(decs []C33Decoder, cfg C33Config) (sp c33Space, seq []c33Input) {
	nShort := verifmc.NumBytesUpTo(cfg.MaxLen)
	for di := range decs {
		d := &decs[di]
		sp.segs = append(sp.segs, c33Seg{dec: di, n: nShort, base: sp.total})
		sp.total += nShort
		seen := map[string]bool{}
		for vi := range d.Catalogue {
			v := &d.Catalogue[vi]
			if seen[string(v.Enc.B)] {
				continue
			}
			seen[string(v.Enc.B)] = true
			n := 1 + c33DevCount(len(v.Enc.B))
			sp.segs = append(sp.segs, c33Seg{dec: di, valid: v, n: n, base: sp.total})
			sp.total += n
			for mi, m := range v.Enc.Marks {
				if m.Kind == "scale-bytes-len" {
					// scheduling only (not an oracle): when one substitution of the prefix's first byte can
					// declare more than 1 MiB (the following bytes become the high bytes of the length),
					// those substitutions are executed in the single-threaded phase instead of 16 at a time
					at := func(i int) uint64 {
						if m.Off+i < len(v.Enc.B) {
							return uint64(v.Enc.B[m.Off+i])
						}
						return 0
					}
					v2 := (0xfe | at(1)<<8 | at(2)<<16 | at(3)<<24) >> 2
					v3 := at(1) | at(2)<<8 | at(3)<<16 | at(4)<<24
					if v2 > 1<<20 || v3 > 1<<20 {
						if sp.segs[len(sp.segs)-1].risky == nil {
							sp.segs[len(sp.segs)-1].risky = map[int]bool{}
						}
						sp.segs[len(sp.segs)-1].risky[m.Off] = true
					}
				}
				lens := cfg.CraftedScale
				if m.Kind == "pb-len" {
					lens = cfg.CraftedPB
				}
				for _, n := range lens {
					full := C14SpliceNested(v.Enc.B, v.Enc.Marks, mi, n)
					seq = append(seq, c33Input{dec: di, data: full, shape: "crafted:" + m.Kind,
						label: fmt.Sprintf("valid %s with the %s of %s at offset %d replaced by %d", v.Name, m.Kind, m.What, m.Off, n)})
					// the crafted prefix followed by at most 3 payload bytes
					end := m.Off + len(C14Splice(v.Enc.B, m, n)) - len(v.Enc.B) + m.Width + 3
					if end < len(full) && len(full) == len(C14Splice(v.Enc.B, m, n)) {
						seq = append(seq, c33Input{dec: di, data: full[:end], shape: "crafted:" + m.Kind,
							label: fmt.Sprintf("valid %s with the %s of %s at offset %d replaced by %d, cut after 3 payload bytes", v.Name, m.Kind, m.What, m.Off, n)})
					}
				}
			}
		}
	}
	return sp, seq
}

// at builds input idx.  cheap=true skips the label (used by the shape filter of the allocation phase).
func (sp *c33Space) at(idx int) c33Input {
	k := sort.Search(len(sp.segs), func(i int) bool { return sp.segs[i].base > idx }) - 1
	s := &sp.segs[k]
	loc := idx - s.base
	if s.valid == nil {
		return c33Input{dec: s.dec, data: verifmc.BytesAt(loc), shape: "short", label: "short byte string"}
	}
	if loc == 0 {
		return c33Input{dec: s.dec, data: s.valid.Enc.B, shape: "valid", label: "valid " + s.valid.Name}
	}
	dv := c33DevAt(s.valid.Enc.B, loc-1)
	return c33Input{seqOnly: dv.Kind == "subst" && s.risky[dv.Pos] && dv.Val&3 >= 2, dec: s.dec, data: dv.Data, shape: dv.Kind,
		label: fmt.Sprintf("%s of valid %s at %d (%02x)", dv.Kind, s.valid.Name, dv.Pos, dv.Val)}
}

// shapeAt is at() without building the data (for filters).
func (sp *c33Space) shapeAt(idx int) string {
	k := sort.Search(len(sp.segs), func(i int) bool { return sp.segs[i].base > idx }) - 1
	s := &sp.segs[k]
	loc := idx - s.base
	if s.valid == nil {
		return "short"
	}
	if loc == 0 {
		return "valid"
	}
	l := len(s.valid.Enc.B)
	switch {
	case loc-1 < l:
		return "trunc"
	case loc-1 < l+255*l:
		return "subst"
	}
	return "append"
}

// C33SelfCheck verifies that the indexable deviation set is the set verifmc.Deviate enumerates.
func C33SelfCheck() error {
	valid := []byte{0x00, 0x7f, 0xff, 0x10}
	want := map[string]bool{}
	n := 0
	verifmc.Deviate(valid, true, func(d verifmc.Deviation) { want[d.Kind+string(d.Data)] = true; n++ })
	if n != c33DevCount(len(valid)) {
		return fmt.Errorf("deviation count %d != %d", c33DevCount(len(valid)), n)
	}
	for k := 0; k < n; k++ {
		d := c33DevAt(valid, k)
		if !want[d.Kind+string(d.Data)] {
			return fmt.Errorf("deviation %d (%s %x) not produced by verifmc.Deviate", k, d.Kind, d.Data)
		}
		delete(want, d.Kind+string(d.Data))
	}
	if len(want) != 0 {
		return fmt.Errorf("%d deviations of verifmc.Deviate not reproduced", len(want))
	}
	return nil
}

// ---------------------------------------------------------------- the run

// C33Rule describes the enumeration for the evidence file.
func C33Rule(cfg C33Config) string {
	return fmt.Sprintf("per decoder: every byte string of length <= %d; for every catalogue entry (a valid encoding written by the reference writer) the entry itself, every truncation, every single-byte substitution (255 values per position) and one appended byte (00, 01, ff); "+
		"every SCALE length prefix of every entry replaced by %v and every protobuf length prefix by %v (enclosing protobuf lengths kept consistent), each also cut 3 bytes after the crafted prefix; "+
		"a case is non-trivial when the decoder does not reject it; distinct = (decoder, derivation, outcome, size of the decoded message's dump)", cfg.MaxLen, cfg.CraftedScale, cfg.CraftedPB)
}

// C33Assumptions lists the trusted base.
func C33Assumptions() []string {
	return []string{
		"allocation is read from runtime.MemStats.TotalAlloc with no other goroutine of the harness running; bound 64*len+256 KiB, minimum of two runs",
		"a hang is one input that has not returned after 120 s (watchdog polls every 20 s; normal cost: microseconds)",
		"equality of messages: every field, unexported ones included, nil and empty slices identified, Header.hash cache ignored",
	}
}

// C33Run executes every phase and fills the report.  It returns the catalogue entries their own
// decoder rejects (a harness invariant: honest inputs must be accepted or the neighbourhoods are vacuous).
func C33Run(r *verifmc.Report, decs []C33Decoder, cfg C33Config) (rejected []string) {
	if err := C33SelfCheck(); err != nil {
		panic("C33 self check: " + err.Error())
	}
	for di := range decs {
		for _, v := range decs[di].Catalogue {
			var err error
			if p, _ := verifmc.Guard(func() { _, err = decs[di].Decode(append([]byte{}, v.Enc.B...)) }); !p && err != nil {
				rejected = append(rejected, fmt.Sprintf("%s: %s: %v", decs[di].Name, v.Name, err))
			}
		}
	}
	if only := os.Getenv("VERIF_C33_ONLY"); only != "" { // debugging aid: restrict to decoders whose name contains the value
		var f []C33Decoder
		for _, d := range decs {
			if strings.Contains(d.Name, only) {
				f = append(f, d)
			}
		}
		decs = f
	}
	sp, seq := c33BuildSpace(decs, cfg)
	r.Add("decoders", int64(len(decs)))
	for di := range decs {
		r.Add("catalogue_entries", int64(len(decs[di].Catalogue)))
	}
	hung := make([]int32, len(decs))
	var nSamples int32
	record := func(in *c33Input, ev c33Eval) {
		d := &decs[in.dec]
		if len(in.data) > 2 && atomic.AddInt32(&nSamples, 1) <= 6 {
			r.Sample(map[string]any{"decoder": d.Name, "input_hex": verifmc.Hex(in.data), "derivation": in.label, "outcome": ev.outcome})
		}
		r.Outcome(d.Name + ":" + ev.outcome)
		r.Outcome("derivation:" + strings.SplitN(in.shape, ":", 2)[0] + ":" + ev.outcome)
		if ev.outcome != "error" {
			r.Add("inputs_not_rejected", 1)
			r.Distinct(fmt.Sprintf("%s|%s|%s|%d", d.Name, in.shape, ev.outcome, ev.dumpLines))
		}
		if ev.sig != "" {
			r.Violate(ev.sig, ev.desc, map[string]any{"decoder": d.Name, "input_hex": verifmc.Hex(in.data), "derivation": in.label})
		}
	}
	reportHang := func(in *c33Input) {
		atomic.StoreInt32(&hung[in.dec], 1)
		r.Outcome(decs[in.dec].Name + ":hang")
		r.Violate(decs[in.dec].Name+":hang", fmt.Sprintf("%s does not return within %s on input %s", decs[in.dec].Name, c33HangAfter, c33Short(in.data)),
			map[string]any{"decoder": decs[in.dec].Name, "input_hex": verifmc.Hex(in.data), "derivation": in.label})
	}

	var defMu sync.Mutex
	var deferred []int
	tA := time.Now()
	// phase A: parallel, chunked watchdog (20 s without progress on one element = hang)
	const chunk = 1024
	nChunks := (sp.total + chunk - 1) / chunk
	verifmc.ParallelFor(r, nChunks, func(c int) {
		lo, hi := c*chunk, (c+1)*chunk
		if hi > sp.total {
			hi = sp.total
		}
		var cur int64 = int64(lo)
		ins := make([]c33Input, hi-lo)
		evs := make([]c33Eval, hi-lo)
		done := make(chan struct{})
		go func() {
			defer close(done)
			for i := lo; i < hi; i++ {
				ins[i-lo] = sp.at(i)
				atomic.StoreInt64(&cur, int64(i))
				if atomic.LoadInt32(&hung[ins[i-lo].dec]) != 0 {
					evs[i-lo] = c33Eval{outcome: "skipped-after-hang"}
					continue
				}
				if ins[i-lo].seqOnly {
					defMu.Lock()
					deferred = append(deferred, i)
					defMu.Unlock()
					continue
				}
				evs[i-lo] = c33EvalOne(&decs[ins[i-lo].dec], ins[i-lo].data)
			}
		}()
		last, stuck := int64(-1), time.Duration(0)
		tick := time.NewTimer(c33Watchdog)
		defer tick.Stop()
	wait:
		for {
			select {
			case <-done:
				break wait
			case <-tick.C:
				now := atomic.LoadInt64(&cur)
				if now == last {
					stuck += c33Watchdog
				} else {
					stuck = 0
				}
				if now == last && stuck < c33HangAfter-c33Watchdog {
					r.Outcome("watchdog:no-progress-for-20s-on-one-input(waiting)")
				}
				if now == last && stuck >= c33HangAfter-c33Watchdog {
					in := sp.at(int(now))
					reportHang(&in)
					r.Capped("a decoder hung; the rest of its chunk was abandoned (goroutine leaked)")
					for i := lo; int64(i) < now; i++ {
						record(&ins[i-lo], evs[i-lo])
					}
					r.Add("evaluations", now-int64(lo))
					return
				}
				last = now
				tick.Reset(c33Watchdog)
			}
		}
		n := 0
		for i := lo; i < hi; i++ {
			if !ins[i-lo].seqOnly || evs[i-lo].outcome != "" {
				record(&ins[i-lo], evs[i-lo])
				n++
			}
		}
		r.Add("evaluations", int64(n))
	}, func(c int, msg string) {
		r.Violate("harness:panic-outside-guard", msg, map[string]any{"chunk": c})
	})

	r.Extra["phase_parallel_s"] = time.Since(tA).Seconds()
	tB := time.Now()
	// phase B: single-threaded.  (1) crafted lengths: evaluated here only (a 1 GiB allocation per worker is
	// not something to run 16 at a time); (2) allocation of every selected input.
	sort.Ints(deferred)
	for _, idx := range deferred {
		in := sp.at(idx)
		in.label += " (run single-threaded: may declare a large length)"
		seq = append(seq, in)
	}
	r.Add("deferred_to_single_thread", int64(len(deferred)))
	for i := range seq {
		if r.Expired() {
			r.Capped(fmt.Sprintf("deadline in the crafted-length phase: %d of %d", i, len(seq)))
			break
		}
		in := &seq[i]
		if atomic.LoadInt32(&hung[in.dec]) != 0 {
			continue
		}
		var ev c33Eval
		fin, pm := verifmc.WithWatchdog(c33HangAfter, func() { ev = c33EvalOne(&decs[in.dec], in.data) })
		if !fin {
			reportHang(in)
			continue
		}
		if pm != "" {
			r.Violate("harness:panic-outside-guard", pm, nil)
			continue
		}
		record(in, ev)
		r.Add("evaluations", 1)
		if strings.HasPrefix(in.shape, "crafted") {
			r.Add("crafted_length_inputs", 1)
		}
	}
	r.Extra["phase_crafted_s"] = time.Since(tB).Seconds()
	tC := time.Now()
	c33AllocPhase(r, decs, cfg, &sp, seq, hung)
	r.Extra["phase_alloc_s"] = time.Since(tC).Seconds()
	return rejected
}

var c33Sink any

func c33TotalAlloc() uint64 {
	var ms runtime.MemStats
	runtime.ReadMemStats(&ms)
	return ms.TotalAlloc
}

// c33AllocPhase measures TotalAlloc deltas with nothing else running.  Inputs are run in batches; a
// batch whose total stays under the slack proves every member within its bound; members of any other
// batch are measured one by one (minimum of two runs).
func c33AllocPhase(r *verifmc.Report, decs []C33Decoder, cfg C33Config, sp *c33Space, seq []c33Input, hung []int32) {
	// selection: every crafted-length input, then the indexable space filtered by derivation
	var selIdx []int
	for i := 0; i < sp.total; i++ {
		if cfg.AllocAll {
			selIdx = append(selIdx, i)
			continue
		}
		switch sp.shapeAt(i) {
		case "short", "valid", "trunc", "append":
			selIdx = append(selIdx, i)
		}
	}
	nSel := len(seq) + len(selIdx)
	get := func(k int) *c33Input {
		if k < len(seq) {
			return &seq[k]
		}
		in := sp.at(selIdx[k-len(seq)])
		return &in
	}
	old := debug.SetGCPercent(100)
	defer debug.SetGCPercent(old)
	var mu sync.Mutex // documents single-threadedness: nothing else takes it
	mu.Lock()
	defer mu.Unlock()
	run := func(in *c33Input) {
		d := &decs[in.dec]
		cp := append([]byte{}, in.data...)
		verifmc.Guard(func() { m, _ := d.Decode(cp); c33Sink = m })
		c33Sink = nil
	}
	measureOne := func(in *c33Input) uint64 {
		best := ^uint64(0)
		for k := 0; k < 2; k++ {
			a := c33TotalAlloc()
			run(in)
			b := c33TotalAlloc()
			if b-a < best {
				best = b - a
			}
		}
		return best
	}
	// bigAllocInDecodeBytes: which function made the allocation that breaks the bound?  The runtime's memory profile (every allocation recorded
	// for the duration of one run) is read before and after one
	// more run of the input (single-threaded phase) and the stack with the largest growth is looked at.
	// Used only to NAME the shape (the listed finding is "decodeBytes allocates the declared length").
	bigAllocInDecodeBytes := func(in *c33Input) bool {
		snapshot := func() map[[32]uintptr]int64 {
			runtime.GC()
			runtime.GC()
			n, _ := runtime.MemProfile(nil, true)
			recs := make([]runtime.MemProfileRecord, n+64)
			n, ok := runtime.MemProfile(recs, true)
			if !ok {
				return nil
			}
			m := map[[32]uintptr]int64{}
			for _, rc := range recs[:n] {
				m[rc.Stack0] += rc.AllocBytes
			}
			return m
		}
		before := snapshot()
		oldRate := runtime.MemProfileRate
		runtime.MemProfileRate = 1 // record every allocation of this one run
		run(in)
		runtime.MemProfileRate = oldRate
		after := snapshot()
		if before == nil || after == nil {
			return false
		}
		var top [32]uintptr
		var topDelta int64
		for st, b := range after {
			if d := b - before[st]; d > topDelta {
				top, topDelta = st, d
			}
		}
		if topDelta < 64<<10 {
			return false
		}
		n := 0
		for n < len(top) && top[n] != 0 {
			n++
		}
		frames := runtime.CallersFrames(top[:n])
		for {
			f, more := frames.Next()
			if strings.Contains(f.Function, "pkg/scale.(*decodeState).decodeBytes") {
				return true
			}
			if !more {
				return false
			}
		}
	}
	const batch = 32
	var maxSeen uint64
	sel := make([]*c33Input, batch)
	for lo := 0; lo < nSel; lo += batch {
		if r.Expired() {
			r.Capped(fmt.Sprintf("deadline in the allocation phase: %d of %d", lo, nSel))
			break
		}
		hi := lo + batch
		if hi > nSel {
			hi = nSel
		}
		skip := false
		for i := lo; i < hi; i++ {
			sel[i-lo] = get(i)
			if atomic.LoadInt32(&hung[sel[i-lo].dec]) != 0 {
				skip = true
			}
		}
		if skip {
			continue
		}
		r.Add("alloc_measured_inputs", int64(hi-lo))
		a, b := uint64(0), uint64(c33AllocSlack+1)
		if hi > len(seq) { // crafted / deferred inputs are expected to be large: measured one by one straight away
			a = c33TotalAlloc()
			for i := lo; i < hi; i++ {
				run(sel[i-lo])
			}
			b = c33TotalAlloc()
		}
		if b-a <= c33AllocSlack {
			r.Outcome("alloc:batch-within-slack")
			continue
		}
		big := false
		for i := lo; i < hi; i++ {
			in := sel[i-lo]
			got := measureOne(in)
			if got > maxSeen {
				maxSeen = got
			}
			bound := uint64(c33AllocPerB*len(in.data) + c33AllocSlack)
			if got > bound {
				big = true
				d := &decs[in.dec]
				r.Outcome(d.Name + ":alloc-exceeds-bound")
				cls := "input"
				if strings.HasPrefix(in.shape, "crafted") {
					cls = in.shape[strings.Index(in.shape, ":")+1:]
					if cls == "scale-bytes-len" {
						// self-check of the site detector on inputs whose shape is known by construction
						r.Outcome(fmt.Sprintf("alloc-site-detector-on-crafted-scale-bytes-len:decodeBytes=%t", bigAllocInDecodeBytes(in)))
					}
				} else if d.Name == "BlockResponseMessage.Decode" && c33BodyEntryDeclaresMore(in.data) {
					// the protobuf framing (as this input has it) hands the SCALE decoder a body entry whose
					// compact length prefix declares more bytes than the entry holds: the same shape as a
					// crafted SCALE length, reached through a changed protobuf length or tag byte
					cls = "scale-bytes-len"
				} else if cls == "input" && bigAllocInDecodeBytes(in) {
					// the allocation that breaks the bound is made by scale's decodeBytes: a declared byte-string
					// length reached through a changed neighbouring byte (tag, count, variant index)
					cls = "scale-bytes-len"
				}
				r.Violate(d.Name+":allocation-not-proportional-to-input:"+cls,
					fmt.Sprintf("%s allocates %d bytes (minimum of two runs) decoding a %d-byte input (bound %d): %s; input %s",
						d.Name, got, len(in.data), bound, in.label, c33Short(in.data)),
					map[string]any{"decoder": d.Name, "input_hex": verifmc.Hex(in.data), "derivation": in.label, "allocated": got, "bound": bound})
			} else {
				r.Outcome("alloc:measured-individually-within-bound")
			}
		}
		if big {
			runtime.GC()
			debug.FreeOSMemory()
		}
	}
	r.Extra["alloc_max_individually_measured"] = maxSeen
}
