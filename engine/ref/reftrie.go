//go:build verif

// Package ref holds reference models written from the specifications,
// sharing no code with the gossamer packages they are compared against.
package ref

import (
	"bytes"
	"sort"

	"golang.org/x/crypto/blake2b"
)

// KV is one state entry.
type KV struct {
	K, V []byte
}

// Blake256 is BLAKE2b with a 32-byte digest.
func Blake256(b []byte) []byte {
	h := blake2b.Sum256(b)
	return h[:]
}

// Compact is the SCALE compact encoding of n.
func Compact(n uint64) []byte {
	switch {
	case n < 1<<6:
		return []byte{byte(n << 2)}
	case n < 1<<14:
		v := uint16(n<<2) | 1
		return []byte{byte(v), byte(v >> 8)}
	case n < 1<<30:
		v := uint32(n<<2) | 2
		return []byte{byte(v), byte(v >> 8), byte(v >> 16), byte(v >> 24)}
	}
	var le []byte
	for x := n; x > 0; x >>= 8 {
		le = append(le, byte(x))
	}
	return append([]byte{byte((len(le)-4)<<2) | 3}, le...)
}

func nibbles(k []byte) []byte {
	out := make([]byte, 0, 2*len(k))
	for _, b := range k {
		out = append(out, b>>4, b&0xf)
	}
	return out
}

type entry struct {
	nk     []byte
	v      []byte
	hashed bool // value stored by hash (state version 1 semantics at the time the value was written)
}

// TrieRoot computes the Polkadot state root of the map m (keys are raw byte strings held
// as Go strings) under state version 0 or 1, straight from the specification.
func TrieRoot(m map[string][]byte, version int) []byte {
	return TrieRootMixed(m, func(k string, v []byte) bool { return version == 1 && len(v) > 32 })
}

// TrieRootMixed computes the root of a trie whose values were written under different state
// versions: hashed(k, v) says whether the value of key k is stored by hash.  (A state raised from
// V0 to V1 keeps inline values until they are written again.)
func TrieRootMixed(m map[string][]byte, hashed func(k string, v []byte) bool) []byte {
	es := make([]entry, 0, len(m))
	for k, v := range m {
		es = append(es, entry{nibbles([]byte(k)), v, hashed(k, v)})
	}
	sort.Slice(es, func(i, j int) bool { return bytes.Compare(es[i].nk, es[j].nk) < 0 })
	if len(es) == 0 {
		return Blake256([]byte{0})
	}
	return Blake256(encodeNode(es, 0))
}

// TrieRootKV is TrieRoot over a list in which later duplicates win.
func TrieRootKV(kvs []KV, version int) []byte {
	m := map[string][]byte{}
	for _, kv := range kvs {
		m[string(kv.K)] = kv.V
	}
	return TrieRoot(m, version)
}

func header(variantBits byte, variantLen uint, pkLen int) []byte {
	// variantBits occupy the top variantLen bits; the rest hold min(pkLen, max)
	max := (1 << (8 - variantLen)) - 1
	if pkLen < max {
		return []byte{variantBits | byte(pkLen)}
	}
	out := []byte{variantBits | byte(max)}
	rest := pkLen - max
	for rest >= 255 {
		out = append(out, 255)
		rest -= 255
	}
	return append(out, byte(rest))
}

func packNibbles(n []byte) []byte {
	var out []byte
	if len(n)%2 == 1 {
		out = append(out, n[0])
		n = n[1:]
	}
	for i := 0; i < len(n); i += 2 {
		out = append(out, n[i]<<4|n[i+1])
	}
	return out
}

// encodeNode encodes the subtrie holding es (sorted, all sharing the first `depth` nibbles).
func encodeNode(es []entry, depth int) []byte {
	if len(es) == 1 {
		pk := es[0].nk[depth:]
		hashed := es[0].hashed
		var out []byte
		if hashed {
			out = header(0b0010_0000, 3, len(pk))
		} else {
			out = header(0b0100_0000, 2, len(pk))
		}
		out = append(out, packNibbles(pk)...)
		if hashed {
			out = append(out, Blake256(es[0].v)...)
		} else {
			out = append(out, Compact(uint64(len(es[0].v)))...)
			out = append(out, es[0].v...)
		}
		return out
	}
	// common prefix from depth
	first, last := es[0].nk, es[len(es)-1].nk
	cp := depth
	for cp < len(first) && cp < len(last) && first[cp] == last[cp] {
		cp++
	}
	pk := first[depth:cp]
	var value []byte
	hasValue := false
	rest := es
	hashed := false
	if len(es[0].nk) == cp {
		hasValue, value, hashed = true, es[0].v, es[0].hashed
		rest = es[1:]
	}
	var out []byte
	switch {
	case !hasValue:
		out = header(0b1000_0000, 2, len(pk))
	case hashed:
		out = header(0b0001_0000, 4, len(pk))
	default:
		out = header(0b1100_0000, 2, len(pk))
	}
	out = append(out, packNibbles(pk)...)
	var bitmap uint16
	var children [16][]entry
	for _, e := range rest {
		i := e.nk[cp]
		bitmap |= 1 << i
		children[i] = append(children[i], e)
	}
	out = append(out, byte(bitmap), byte(bitmap>>8))
	if hasValue {
		if hashed {
			out = append(out, Blake256(value)...)
		} else {
			out = append(out, Compact(uint64(len(value)))...)
			out = append(out, value...)
		}
	}
	for i := 0; i < 16; i++ {
		if children[i] == nil {
			continue
		}
		enc := encodeNode(children[i], cp+1)
		mv := enc
		if len(enc) >= 32 {
			mv = Blake256(enc)
		}
		out = append(out, Compact(uint64(len(mv)))...)
		out = append(out, mv...)
	}
	return out
}

// NodeEncodings returns the encodings of all nodes of the trie of m (root first, depth first),
// used as an independent source of proof nodes.
func NodeEncodings(m map[string][]byte, version int) [][]byte {
	es := make([]entry, 0, len(m))
	for k, v := range m {
		es = append(es, entry{nibbles([]byte(k)), v, version == 1 && len(v) > 32})
	}
	sort.Slice(es, func(i, j int) bool { return bytes.Compare(es[i].nk, es[j].nk) < 0 })
	if len(es) == 0 {
		return [][]byte{{0}}
	}
	var out [][]byte
	var walk func(es []entry, depth int)
	walk = func(es []entry, depth int) {
		out = append(out, encodeNode(es, depth))
		if len(es) == 1 {
			return
		}
		first, last := es[0].nk, es[len(es)-1].nk
		cp := depth
		for cp < len(first) && cp < len(last) && first[cp] == last[cp] {
			cp++
		}
		rest := es
		if len(es[0].nk) == cp {
			rest = es[1:]
		}
		var children [16][]entry
		for _, e := range rest {
			children[e.nk[cp]] = append(children[e.nk[cp]], e)
		}
		for i := 0; i < 16; i++ {
			if children[i] != nil {
				walk(children[i], cp+1)
			}
		}
	}
	walk(es, 0)
	return out
}
