//go:build verif

package ref

import (
	"bytes"
	"fmt"
	"sort"
	"strings"
)

// OMap is the boring reference: an ordered map over byte-string keys.
type OMap map[string][]byte

// Clone copies the map.
func (m OMap) Clone() OMap {
	c := OMap{}
	for k, v := range m {
		c[k] = append([]byte{}, v...)
	}
	return c
}

// Keys returns the keys in ascending byte order.
func (m OMap) Keys() []string {
	ks := make([]string, 0, len(m))
	for k := range m {
		ks = append(ks, k)
	}
	sort.Strings(ks)
	return ks
}

// NextKey returns the smallest key strictly greater than k.
func (m OMap) NextKey(k string) (string, bool) {
	for _, x := range m.Keys() {
		if x > k {
			return x, true
		}
	}
	return "", false
}

// WithPrefix returns the keys that start with p byte-wise, ascending.
func (m OMap) WithPrefix(p string) []string {
	var out []string
	for _, x := range m.Keys() {
		if strings.HasPrefix(x, p) {
			out = append(out, x)
		}
	}
	return out
}

// ClearPrefix deletes all keys with prefix p.
func (m OMap) ClearPrefix(p string) {
	for _, k := range m.WithPrefix(p) {
		delete(m, k)
	}
}

// ClearPrefixLimit removes the min(limit, n) smallest matching keys; returns the number removed
// and whether no matching key remains.
func (m OMap) ClearPrefixLimit(p string, limit uint32) (deleted uint32, allDeleted bool) {
	ks := m.WithPrefix(p)
	for _, k := range ks {
		if deleted == limit {
			break
		}
		delete(m, k)
		deleted++
	}
	return deleted, len(m.WithPrefix(p)) == 0
}

// Equal compares with another map (nil and empty values are the same value).
func (m OMap) Equal(o map[string][]byte) bool {
	if len(m) != len(o) {
		return false
	}
	for k, v := range m {
		w, ok := o[k]
		if !ok || !bytes.Equal(v, w) {
			return false
		}
	}
	return true
}

// Canon is a deterministic dump.
func (m OMap) Canon() []byte {
	var b bytes.Buffer
	for _, k := range m.Keys() {
		fmt.Fprintf(&b, "%d:%x=%d:%x;", len(k), k, len(m[k]), m[k])
	}
	return b.Bytes()
}
