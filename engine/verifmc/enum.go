//go:build verif

package verifmc

import (
	"encoding/hex"
	"fmt"
	"runtime"
	"sync"
	"sync/atomic"
	"time"
)

// Hex renders bytes.
func Hex(b []byte) string { return hex.EncodeToString(b) }

// UnHex parses bytes (panics on bad input; only used on literals).
func UnHex(s string) []byte {
	b, err := hex.DecodeString(s)
	if err != nil {
		panic(err)
	}
	return b
}

// ParallelFor runs f(i) for every i in [0,n) on all cores.  Every element is
// executed (nothing is sampled).  A panic inside f is reported through onPanic
// (element index, message).  If the report's deadline passes, remaining elements
// are skipped and the report is marked capped with the number completed.
func ParallelFor(r *Report, n int, f func(i int), onPanic func(i int, msg string)) {
	workers := runtime.GOMAXPROCS(0)
	var next int64 = -1
	var wg sync.WaitGroup
	var capped int32
	var done int64
	for w := 0; w < workers; w++ {
		wg.Add(1)
		go func() {
			defer wg.Done()
			for {
				i := int(atomic.AddInt64(&next, 1))
				if i >= n {
					return
				}
				if (i%256 == 0 || n < 1<<16) && r.Expired() {
					atomic.StoreInt32(&capped, 1)
				}
				if atomic.LoadInt32(&capped) == 1 {
					return
				}
				p, msg := Guard(func() { f(i) })
				if p && onPanic != nil {
					onPanic(i, msg)
				}
				atomic.AddInt64(&done, 1)
			}
		}()
	}
	wg.Wait()
	if capped == 1 {
		r.Capped(fmt.Sprintf("deadline: %d of %d elements executed", done, n))
	}
}

// WithWatchdog runs f in a goroutine and reports whether it returned within d.
// On a timeout the goroutine is leaked (it cannot be killed); callers report the
// hang and stop exploring further elements of that kind.
func WithWatchdog(d time.Duration, f func()) (finished bool, panicMsg string) {
	done := make(chan string, 1)
	go func() {
		p, msg := Guard(f)
		if p {
			done <- msg
		} else {
			done <- ""
		}
	}()
	select {
	case m := <-done:
		return true, m
	case <-time.After(d):
		return false, ""
	}
}

// AllBytes calls f for every byte string of length 0..maxLen (256^maxLen + ... + 1 strings).
func AllBytes(maxLen int, f func(b []byte)) {
	for l := 0; l <= maxLen; l++ {
		buf := make([]byte, l)
		var rec func(pos int)
		rec = func(pos int) {
			if pos == l {
				f(buf)
				return
			}
			for v := 0; v < 256; v++ {
				buf[pos] = byte(v)
				rec(pos + 1)
			}
		}
		rec(0)
	}
}

// NumBytesUpTo returns the number of byte strings of length 0..maxLen.
func NumBytesUpTo(maxLen int) int {
	n, p := 0, 1
	for l := 0; l <= maxLen; l++ {
		n += p
		p *= 256
	}
	return n
}

// BytesAt returns the i-th byte string in length-then-lexicographic order.
func BytesAt(i int) []byte {
	l, p := 0, 1
	for i >= p {
		i -= p
		p *= 256
		l++
	}
	b := make([]byte, l)
	for k := l - 1; k >= 0; k-- {
		b[k] = byte(i % 256)
		i /= 256
	}
	return b
}

// Deviations returns every value at deviation distance 1 from valid: every
// single-byte substitution (all 255 other values at every position when full is
// true, otherwise the values in subst XOR/absolute), every truncation and one appended byte.
type Deviation struct {
	Kind string // "subst", "trunc", "append", "bitflip"
	Pos  int
	Val  byte
	Data []byte
}

// Deviate enumerates the deviation-1 neighbourhood of valid.
func Deviate(valid []byte, fullSubst bool, f func(d Deviation)) {
	for l := 0; l < len(valid); l++ {
		f(Deviation{Kind: "trunc", Pos: l, Data: append([]byte{}, valid[:l]...)})
	}
	for pos := range valid {
		if fullSubst {
			for v := 0; v < 256; v++ {
				if byte(v) == valid[pos] {
					continue
				}
				d := append([]byte{}, valid...)
				d[pos] = byte(v)
				f(Deviation{Kind: "subst", Pos: pos, Val: byte(v), Data: d})
			}
		} else {
			for bit := 0; bit < 8; bit++ {
				d := append([]byte{}, valid...)
				d[pos] ^= 1 << bit
				f(Deviation{Kind: "bitflip", Pos: pos, Val: byte(bit), Data: d})
			}
		}
	}
	for _, v := range []byte{0x00, 0x01, 0xff} {
		f(Deviation{Kind: "append", Pos: len(valid), Val: v, Data: append(append([]byte{}, valid...), v)})
	}
}

// Permutations calls f with every permutation of 0..n-1 (Heap's algorithm; f must not retain p).
func Permutations(n int, f func(p []int)) {
	p := make([]int, n)
	for i := range p {
		p[i] = i
	}
	var rec func(k int)
	rec = func(k int) {
		if k <= 1 {
			f(p)
			return
		}
		for i := 0; i < k; i++ {
			rec(k - 1)
			if k%2 == 0 {
				p[i], p[k-1] = p[k-1], p[i]
			} else {
				p[0], p[k-1] = p[k-1], p[0]
			}
		}
	}
	if n == 0 {
		f(p)
		return
	}
	rec(n)
}

// Product calls f with every tuple in dims[0] x dims[1] x ... (idx[i] in [0,dims[i])).
func Product(dims []int, f func(idx []int)) {
	idx := make([]int, len(dims))
	for _, d := range dims {
		if d == 0 {
			return
		}
	}
	for {
		f(idx)
		k := len(dims) - 1
		for k >= 0 {
			idx[k]++
			if idx[k] < dims[k] {
				break
			}
			idx[k] = 0
			k--
		}
		if k < 0 {
			return
		}
	}
}

// ParentVectors calls f with every parent vector of n nodes (parent[0] = -1, parent[i] < i):
// the set of parent-first insertion histories of all rooted trees with n nodes.
func ParentVectors(n int, f func(parent []int)) {
	p := make([]int, n)
	if n == 0 {
		return
	}
	p[0] = -1
	var rec func(i int)
	rec = func(i int) {
		if i == n {
			f(p)
			return
		}
		for j := 0; j < i; j++ {
			p[i] = j
			rec(i + 1)
		}
	}
	rec(1)
}
