//go:build verif

// Package verifmc is the model-checking engine that /verif injects into the
// gossamer module as a virtual package (go build -overlay).  It is stdlib-only
// so that in-package test harnesses of every gossamer package can import it.
package verifmc

import (
	"encoding/json"
	"fmt"
	"os"
	"runtime"
	"runtime/debug"
	"sort"
	"strconv"
	"sync"
	"time"
)

// Violation is one counterexample found by a harness.
type Violation struct {
	// Sig identifies the failing call site / input class.  Known findings are
	// matched on it (regular expression, anchored) by bin/check.
	Sig string `json:"sig"`
	// Desc is the human readable mismatch.
	Desc string `json:"desc"`
	// Replay is the minimal history / input that reproduces it.
	Replay any `json:"replay"`
}

// Report accumulates what one harness run covered.  Counts are measured, never constants.
type Report struct {
	mu         sync.Mutex
	Property   string             `json:"property_id"`
	Part       string             `json:"part"`
	Tier       string             `json:"tier"`
	Seed       int64              `json:"seed"`
	Level      string             `json:"level"`
	Counters   map[string]int64   `json:"counters"`
	Rule       string             `json:"rule"`
	Samples    []any              `json:"samples"`
	Outcomes   map[string]int64   `json:"-"`
	Exhaustive bool               `json:"exhaustive"`
	CapNote    string             `json:"cap_note,omitempty"`
	Assume     []string           `json:"assumptions"`
	Violations []Violation        `json:"violations"`
	Extra      map[string]any     `json:"extra"`
	start      time.Time
	deadline   time.Time
	vioSeen    map[string]int
	maxPerSig  int
	distinct   map[string]struct{}
}

// Tier returns "quick" or "thorough".
func Tier() string {
	if os.Getenv("VERIF_TIER") == "thorough" {
		return "thorough"
	}
	return "quick"
}

// Thorough reports whether the thorough tier was requested.
func Thorough() bool { return Tier() == "thorough" }

// Pick returns q in the quick tier and t in the thorough tier.
func Pick[T any](q, t T) T {
	if Thorough() {
		return t
	}
	return q
}

// Seed returns VERIF_SEED (0 if unset).  No check draws random numbers; the
// seed is recorded only.
func Seed() int64 {
	n, _ := strconv.ParseInt(os.Getenv("VERIF_SEED"), 10, 64)
	return n
}

// NewReport creates the report of one harness part.
func NewReport(property, part, level string) *Report {
	r := &Report{
		Property: property, Part: part, Tier: Tier(), Seed: Seed(), Level: level,
		Counters: map[string]int64{}, Outcomes: map[string]int64{}, Exhaustive: true,
		Extra: map[string]any{}, start: time.Now(), vioSeen: map[string]int{}, maxPerSig: 3,
		distinct: map[string]struct{}{},
	}
	budget := 40 * time.Minute
	if s := os.Getenv("VERIF_BUDGET_S"); s != "" {
		if n, err := strconv.Atoi(s); err == nil {
			budget = time.Duration(n) * time.Second
		}
	}
	r.deadline = r.start.Add(budget)
	return r
}

// Expired reports whether the internal deadline of the run has passed.  A
// harness that stops because of it must call Capped.
func (r *Report) Expired() bool { return time.Now().After(r.deadline) }

// Capped records that a cap cut the exploration short.
func (r *Report) Capped(note string) {
	r.mu.Lock()
	defer r.mu.Unlock()
	r.Exhaustive = false
	if r.CapNote == "" {
		r.CapNote = note
	}
}

// Add adds n to a named counter.
func (r *Report) Add(key string, n int64) {
	r.mu.Lock()
	r.Counters[key] += n
	r.mu.Unlock()
}

// Outcome records one observed outcome class (anti-vacuity: distinct outcomes are reported).
func (r *Report) Outcome(s string) {
	r.mu.Lock()
	r.Outcomes[s]++
	r.mu.Unlock()
}

// Distinct records one distinct non-trivial case (by key); the number of keys is reported.
func (r *Report) Distinct(key string) {
	r.mu.Lock()
	r.distinct[key] = struct{}{}
	r.mu.Unlock()
}

// Sample keeps up to 6 written-out cases.
func (r *Report) Sample(x any) {
	r.mu.Lock()
	if len(r.Samples) < 6 {
		r.Samples = append(r.Samples, x)
	}
	r.mu.Unlock()
}

// Assumption records a trusted-base statement.
func (r *Report) Assumption(s string) {
	r.mu.Lock()
	r.Assume = append(r.Assume, s)
	r.mu.Unlock()
}

// Violate records a violation; at most 3 per signature are kept (the count is kept in full).
func (r *Report) Violate(sig, desc string, replay any) {
	r.mu.Lock()
	defer r.mu.Unlock()
	r.vioSeen[sig]++
	if r.vioSeen[sig] > r.maxPerSig {
		return
	}
	r.Violations = append(r.Violations, Violation{Sig: sig, Desc: desc, Replay: replay})
}

// NViolations is the number of violations recorded so far (all signatures).
func (r *Report) NViolations() int {
	r.mu.Lock()
	defer r.mu.Unlock()
	n := 0
	for _, c := range r.vioSeen {
		n += c
	}
	return n
}

// Write stores the report where bin/check expects it (VERIF_OUT) or prints it.
func (r *Report) Write() {
	r.mu.Lock()
	defer r.mu.Unlock()
	type out struct {
		*Report
		Outcomes      map[string]int64 `json:"outcomes"`
		NOutcomes     int              `json:"distinct_outcomes"`
		NDistinct     int              `json:"distinct_cases"`
		VioCounts     map[string]int   `json:"violation_counts"`
		WallS         float64          `json:"wall_s"`
		GoVersion     string           `json:"go_version"`
	}
	// keep the outcome table small
	oc := r.Outcomes
	if len(oc) > 40 {
		keys := make([]string, 0, len(oc))
		for k := range oc {
			keys = append(keys, k)
		}
		sort.Strings(keys)
		oc = map[string]int64{}
		for _, k := range keys[:40] {
			oc[k] = r.Outcomes[k]
		}
	}
	o := out{Report: r, Outcomes: oc, NOutcomes: len(r.Outcomes), NDistinct: len(r.distinct),
		VioCounts: r.vioSeen, WallS: time.Since(r.start).Seconds(), GoVersion: runtime.Version()}
	if r.Samples == nil {
		r.Samples = []any{}
	}
	if r.Violations == nil {
		r.Violations = []Violation{}
	}
	if r.Assume == nil {
		r.Assume = []string{}
	}
	b, err := json.MarshalIndent(o, "", " ")
	if err != nil {
		panic(err)
	}
	path := os.Getenv("VERIF_OUT")
	if path == "" {
		fmt.Println(string(b))
		return
	}
	if err := os.WriteFile(path, b, 0o644); err != nil {
		panic(err)
	}
}

// Guard runs f and converts a panic into (panicked=true, message with the top of the stack).
func Guard(f func()) (panicked bool, msg string) {
	defer func() {
		if x := recover(); x != nil {
			panicked = true
			st := debug.Stack()
			if len(st) > 1800 {
				st = st[:1800]
			}
			msg = fmt.Sprintf("panic: %v\n%s", x, st)
		}
	}()
	f()
	return false, ""
}

// PanicSite extracts a short stable site ("file.go:func") from a Guard message for signatures.
func PanicSite(msg string) string {
	// the frames after "panic(" line: find first gossamer frame
	lines := splitLines(msg)
	seenPanic := false
	for i, l := range lines {
		if len(l) >= 6 && l[:6] == "panic(" {
			seenPanic = true
			continue
		}
		if !seenPanic {
			continue
		}
		if containsStr(l, "github.com/ChainSafe/gossamer/") && !containsStr(l, "verifmc") && i+1 < len(lines) {
			fn := l
			if k := lastIndex(fn, "/"); k >= 0 {
				fn = fn[k+1:]
			}
			if k := indexStr(fn, "("); k >= 0 {
				fn = fn[:k]
			}
			return fn
		}
	}
	return "unknown"
}

func splitLines(s string) []string {
	var out []string
	cur := 0
	for i := 0; i < len(s); i++ {
		if s[i] == '\n' {
			out = append(out, s[cur:i])
			cur = i + 1
		}
	}
	out = append(out, s[cur:])
	return out
}
func containsStr(s, sub string) bool { return indexStr(s, sub) >= 0 }
func indexStr(s, sub string) int {
	for i := 0; i+len(sub) <= len(s); i++ {
		if s[i:i+len(sub)] == sub {
			return i
		}
	}
	return -1
}
func lastIndex(s, sub string) int {
	for i := len(s) - len(sub); i >= 0; i-- {
		if s[i:i+len(sub)] == sub {
			return i
		}
	}
	return -1
}

// A soft memory limit for every harness process: several harnesses make the code under test allocate
// large transient buffers from many workers at once (e.g. pkg/scale's decodeBytes allocating a declared
// length); without a limit the collector lets that garbage pile up to tens of gigabytes before the next
// cycle.  The limit only makes the collector run earlier; it never fails an allocation.
func init() {
	limit := int64(10) << 30
	if s := os.Getenv("VERIF_MEMLIMIT_MB"); s != "" {
		if v, err := strconv.ParseInt(s, 10, 64); err == nil && v > 0 {
			limit = v << 20
		}
	}
	debug.SetMemoryLimit(limit)
}
