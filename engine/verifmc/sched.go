//go:build verif

package verifmc

import (
	"fmt"
	"sync"
	"sync/atomic"
	"time"
)

// Controlled cooperative scheduler (engine E3).
//
// Harness threads are goroutines that run only while they hold the baton.  A thread
// announces its next visible step (operation call / lock request / unlocked / operation
// return) to the scheduler and blocks; the scheduler (the exploring goroutine) owns all
// bookkeeping, decides who runs next and enumerates every choice (DFS with a preemption
// bound).  Baton hand-offs are wrapped in runtime.RaceDisable/RaceEnable and carry only
// integers, so that under -race the detector does not take them for happens-before
// edges: it then reports the program's own unsynchronised accesses inside every explored
// interleaving, while the program's own lock edges stay visible (vsync delegates to real
// sync primitives outside the masked region).

const (
	evStart = iota
	evOpCall
	evOpRet
	evLock   // wants the write lock arg
	evRLock  // wants the read lock arg
	evUnlock // has released the write lock arg
	evRUnlock
	evDone
	evTryLock  // tries the write lock arg (never blocks)
	evTryRLock // tries the read lock arg
)

// SchedHeldPoints adds a scheduling point right after every lock acquisition, so that other threads
// run while a lock is held (needed to explore TryLock failing; off by default because it multiplies
// the schedules of code that only uses Lock/Unlock without adding behaviours).
var SchedHeldPoints bool

type schedEvent struct {
	tid, kind int
	arg       uintptr
}

type schedThread struct {
	id     int
	resume chan int
	s      *Sched
}

// Sched is one controlled execution.
type Sched struct {
	events  chan schedEvent
	threads []*schedThread
	wg      sync.WaitGroup
}

var curThread atomic.Pointer[schedThread]

func maskedSend(ch chan schedEvent, e schedEvent) {
	raceDisable()
	ch <- e
	raceEnable()
}

func (t *schedThread) yield(kind int, arg uintptr) int {
	raceDisable()
	t.s.events <- schedEvent{t.id, kind, arg}
	v := <-t.resume
	raceEnable()
	return v
}

// SchedLock is called by vsync before acquiring a lock; it returns false when no controlled
// execution is active on this goroutine (then the shim behaves like plain sync).
func SchedLock(id uintptr, read bool) bool {
	raceDisable()
	t := curThread.Load()
	raceEnable()
	if t == nil {
		return false
	}
	if read {
		t.yield(evRLock, id)
	} else {
		t.yield(evLock, id)
	}
	return true
}

// SchedTryLock is called by vsync for TryLock/TryRLock: controlled reports whether a controlled
// execution is active; ok is the scheduler's verdict (the lock was free at the chosen instant).
func SchedTryLock(id uintptr, read bool) (controlled, ok bool) {
	raceDisable()
	t := curThread.Load()
	raceEnable()
	if t == nil {
		return false, false
	}
	k := evTryLock
	if read {
		k = evTryRLock
	}
	return true, t.yield(k, id) == 1
}

// SchedHeld is called by vsync right after a lock was acquired.
func SchedHeld() {
	if SchedHeldPoints {
		SchedPoint()
	}
}

// SchedUnlock is called by vsync after releasing a lock.
func SchedUnlock(id uintptr, read bool) {
	raceDisable()
	t := curThread.Load()
	raceEnable()
	if t == nil {
		return
	}
	if read {
		t.yield(evRUnlock, id)
	} else {
		t.yield(evUnlock, id)
	}
}

// SchedPoint in the middle of an operation (an explicit extra scheduling point).
func SchedPoint() {
	raceDisable()
	t := curThread.Load()
	raceEnable()
	if t != nil {
		t.yield(evStart, 0)
	}
}

// ThreadOp is one operation of a harness thread; it returns the observed result rendered as a string.
type ThreadOp func() string

// OpRecord is the call/return record of one operation in one execution.
type OpRecord struct {
	Thread, Index int
	Inv, Ret      int // logical times (scheduler steps)
	Result        string
}

// Execution is the outcome of one controlled run.
type Execution struct {
	Choices  []int
	Points   []schedPoint
	History  []OpRecord
	Deadlock bool
	Panic    string
}

type schedPoint struct {
	nEnabled            int
	runningStillEnabled bool
	preemptionsBefore   int
}

type lockState struct {
	writer  int // tid or -1
	readers map[int]int
}

// runOnce executes the scenario following prefix, then always choice 0.
func runOnce(nthreads int, body func(tid int) []ThreadOp, prefix []int) (x *Execution) {
	s := &Sched{events: make(chan schedEvent)}
	x = &Execution{}
	results := make([][]string, nthreads)
	panics := make([]string, nthreads)
	for i := 0; i < nthreads; i++ {
		t := &schedThread{id: i, resume: make(chan int), s: s}
		s.threads = append(s.threads, t)
		ops := body(i)
		results[i] = make([]string, len(ops))
		s.wg.Add(1)
		go func(t *schedThread, ops []ThreadOp) {
			defer s.wg.Done()
			defer func() {
				if r := recover(); r != nil {
					panics[t.id] = fmt.Sprint(r)
					maskedSend(s.events, schedEvent{t.id, evDone, 0})
				}
			}()
			t.yield(evStart, 0)
			for i, op := range ops {
				t.yield(evOpCall, uintptr(i))
				results[t.id][i] = op()
				t.yield(evOpRet, uintptr(i))
			}
			maskedSend(s.events, schedEvent{t.id, evDone, 0})
		}(t, ops)
	}
	pending := make([]schedEvent, nthreads)
	done := make([]bool, nthreads)
	inv := make([]map[int]int, nthreads)
	ret := make([]map[int]int, nthreads)
	for i := range inv {
		inv[i], ret[i] = map[int]int{}, map[int]int{}
	}
	recv := func() schedEvent {
		raceDisable()
		e := <-s.events
		raceEnable()
		return e
	}
	// collect the first announcement of every thread (they start concurrently but only announce)
	for i := 0; i < nthreads; i++ {
		e := recv()
		pending[e.tid] = e
	}
	locks := map[uintptr]*lockState{}
	getLock := func(id uintptr) *lockState {
		l := locks[id]
		if l == nil {
			l = &lockState{writer: -1, readers: map[int]int{}}
			locks[id] = l
		}
		return l
	}
	enabledOf := func(tid int) bool {
		if done[tid] {
			return false
		}
		e := pending[tid]
		switch e.kind {
		case evLock:
			l := getLock(e.arg)
			return l.writer == -1 && len(l.readers) == 0
		case evRLock:
			return getLock(e.arg).writer == -1
		}
		return true
	}
	running := -1
	preemptions := 0
	step := 0
	for {
		var enabled []int
		if running >= 0 && enabledOf(running) {
			enabled = append(enabled, running)
		}
		for t := 0; t < nthreads; t++ {
			if t != running && enabledOf(t) {
				enabled = append(enabled, t)
			}
		}
		if len(enabled) == 0 {
			all := true
			for _, d := range done {
				all = all && d
			}
			if !all {
				x.Deadlock = true
			}
			break
		}
		stillEnabled := running >= 0 && enabled[0] == running
		x.Points = append(x.Points, schedPoint{len(enabled), stillEnabled, preemptions})
		choice := 0
		if len(x.Choices) < len(prefix) {
			choice = prefix[len(x.Choices)]
			if choice >= len(enabled) {
				panic(fmt.Sprintf("verifmc/sched: replay divergence: choice %d of %d at point %d", choice, len(enabled), len(x.Choices)))
			}
		}
		x.Choices = append(x.Choices, choice)
		t := enabled[choice]
		if stillEnabled && choice != 0 {
			preemptions++
		}
		running = t
		step++
		e := pending[t]
		answer := 0
		switch e.kind {
		case evLock:
			getLock(e.arg).writer = t
		case evRLock:
			getLock(e.arg).readers[t]++
		case evTryLock:
			if l := getLock(e.arg); l.writer == -1 && len(l.readers) == 0 {
				l.writer = t
				answer = 1
			}
		case evTryRLock:
			if l := getLock(e.arg); l.writer == -1 {
				l.readers[t]++
				answer = 1
			}
		case evOpCall:
			inv[t][int(e.arg)] = step
		}
		// hand the baton to t and wait for its next announcement
		raceDisable()
		curThread.Store(s.threads[t])
		s.threads[t].resume <- answer
		ne := <-s.events
		curThread.Store(nil)
		raceEnable()
		if ne.tid != t {
			panic("verifmc/sched: event from a thread that does not hold the baton")
		}
		step++
		switch ne.kind {
		case evUnlock:
			getLock(ne.arg).writer = -1
		case evRUnlock:
			l := getLock(ne.arg)
			l.readers[t]--
			if l.readers[t] <= 0 {
				delete(l.readers, t)
			}
		case evOpRet:
			ret[t][int(ne.arg)] = step
		case evDone:
			done[t] = true
		}
		pending[t] = ne
	}
	if x.Deadlock {
		// threads stay blocked for ever; they are leaked deliberately (reported as a violation)
		return x
	}
	s.wg.Wait() // real join: results written by the threads happen-before the reads below
	for t := 0; t < nthreads; t++ {
		if panics[t] != "" {
			x.Panic = panics[t]
		}
		for i, r := range results[t] {
			x.History = append(x.History, OpRecord{t, i, inv[t][i], ret[t][i], r})
		}
	}
	return x
}

// SchedStats is what an exploration covered.
type SchedStats struct {
	Executions  int
	MaxPoints   int
	Bound       int
	Capped      bool
	Transitions int
}

// ExploreSchedules enumerates every schedule of the scenario with at most `bound` preemptions
// (bound < 0: unbounded) and calls check on every complete execution.  setup must build a fresh
// shared object; body returns the straight-line operation list of each thread.
func ExploreSchedules(r *Report, nthreads int, bound int, setup func() func(tid int) []ThreadOp, check func(x *Execution)) SchedStats {
	st := SchedStats{Bound: bound}
	var explore func(prefix []int)
	deadline := time.Now().Add(24 * time.Hour)
	_ = deadline
	explore = func(prefix []int) {
		if st.Capped {
			return
		}
		if st.Executions%64 == 0 && r.Expired() {
			st.Capped = true
			return
		}
		x := runOnce(nthreads, setup(), prefix)
		st.Executions++
		st.Transitions += len(x.Choices)
		if len(x.Points) > st.MaxPoints {
			st.MaxPoints = len(x.Points)
		}
		check(x)
		for i := len(prefix); i < len(x.Points); i++ {
			p := x.Points[i]
			for alt := 1; alt < p.nEnabled; alt++ {
				cost := p.preemptionsBefore
				if p.runningStillEnabled {
					cost++
				}
				if bound >= 0 && cost > bound {
					continue
				}
				np := append(append([]int{}, x.Choices[:i]...), alt)
				explore(np)
			}
		}
	}
	explore(nil)
	return st
}

// ReplaySchedule runs one recorded schedule.
func ReplaySchedule(nthreads int, setup func() func(tid int) []ThreadOp, choices []int) *Execution {
	return runOnce(nthreads, setup(), choices)
}

// Linearizable reports whether the history has a sequential witness: a total order of the
// operations that respects real-time order (a.Ret < b.Inv => a before b) and in which a fresh
// sequential model produces exactly the recorded results.  step applies operation (thread, index) to
// the model and returns its result.  Brute force with pruning (histories have <= 8 operations).
func Linearizable(h []OpRecord, newModel func() any, step func(m any, thread, index int) string, cloneModel func(m any) any) bool {
	n := len(h)
	used := make([]bool, n)
	var rec func(m any, k int) bool
	rec = func(m any, k int) bool {
		if k == n {
			return true
		}
		for i := 0; i < n; i++ {
			if used[i] {
				continue
			}
			// i may be next only if no unused op returned before i was invoked
			ok := true
			for j := 0; j < n; j++ {
				if j != i && !used[j] && h[j].Ret < h[i].Inv {
					ok = false
					break
				}
			}
			if !ok {
				continue
			}
			m2 := cloneModel(m)
			if step(m2, h[i].Thread, h[i].Index) != h[i].Result {
				continue
			}
			used[i] = true
			if rec(m2, k+1) {
				return true
			}
			used[i] = false
		}
		return false
	}
	return rec(newModel(), 0)
}
