//go:build verif && race

package verifmc

import "runtime"

// RaceBuild reports whether the binary was built with -race.
const RaceBuild = true

func raceDisable() { runtime.RaceDisable() }
func raceEnable()  { runtime.RaceEnable() }
