//go:build verif

package verifmc

import (
	"crypto/sha256"
	"fmt"
	"runtime"
	"sync"
	"time"
)

// Op is one operation of a history alphabet.  Name must be deterministic and
// sufficient to re-create the operation (it is what replay files store).
type Op interface{ Name() string }

// OpS is the simplest Op: a rendered string.
type OpS string

func (o OpS) Name() string { return string(o) }

// Hist describes an explicit-state search over operation histories on a real
// object.  S bundles the real object and the reference model.
type Hist[S any] struct {
	// Fresh builds a new real object + model in the initial state.
	Fresh func() S
	// Ops lists the operations enabled in s (simplest first).
	Ops func(s S) []Op
	// Apply performs op on the real object and on the model and compares the
	// results of the call itself.  A non-empty string is a divergence.
	Apply func(s S, op Op) string
	// Check evaluates every observer / invariant in state s.  Non-empty = divergence.
	// It may mutate caches of the real object only if Canon covers them.
	Check func(s S) string
	// Canon is the canonical dump of the private state of the real object and
	// the model.  Histories are merged iff dumps are equal.
	Canon func(s S) []byte
	// Sig maps (history, last op, mismatch) to a finding signature.
	Sig func(hist []Op, desc string) string
	// Depth is the maximum history length.
	Depth int
	// ElemTimeout: if one transition takes longer, it is reported as a hang and the run stops.
	ElemTimeout time.Duration
	// Soft, if set, drains the non-fatal mismatches the harness recorded in s since the last
	// drain (observer-only mismatches, or mutator mismatches after which the harness
	// re-synchronised the model with the real object).  They are reported as violations
	// with their own signature; exploration continues past them.
	Soft func(s S) []Violation
	// Release, if set, is called on every state bundle once the explorer is done with it.
	Release func(s S)
}

type histItem struct {
	hist []Op
}

type succ struct {
	op   Op
	key  [32]byte
	desc string
	hang bool
	soft []Violation
}

// Names renders a history.
func Names(h []Op) []string {
	out := make([]string, len(h))
	for i, o := range h {
		out[i] = o.Name()
	}
	return out
}

// Explore runs the breadth-first search and fills r with states, transitions,
// histories executed on the real object and violations.  Exploration does not
// continue past a divergence.
func (h *Hist[S]) Explore(r *Report) {
	if h.ElemTimeout == 0 {
		h.ElemTimeout = 120 * time.Second
	}
	workers := runtime.GOMAXPROCS(0)
	seen := map[[32]byte]struct{}{}
	build := func(hist []Op) (S, string) {
		s := h.Fresh()
		for _, op := range hist {
			if d := h.Apply(s, op); d != "" {
				return s, "replay diverged at " + op.Name() + ": " + d
			}
		}
		return s, ""
	}
	rel := func(s S) {
		if h.Release != nil {
			h.Release(s)
		}
	}
	// determinism self-test on the initial state and check of the initial state
	{
		a, b := h.Fresh(), h.Fresh()
		ca, cb := h.Canon(a), h.Canon(b)
		if string(ca) != string(cb) {
			panic("verifmc: Fresh()+Canon() not deterministic")
		}
		if d := h.Check(a); d != "" {
			r.Violate(h.sig(nil, d), d, []string{})
		}
		seen[sha256.Sum256(ca)] = struct{}{}
		rel(a)
		rel(b)
	}
	frontier := []histItem{{}}
	var states, transitions, replays int64 = 1, 0, 0
	maxDepth := 0
	detChecked := false
	var perDepth []int
	for depth := 1; depth <= h.Depth && len(frontier) > 0; depth++ {
		if r.Expired() {
			r.Capped(fmt.Sprintf("deadline reached before depth %d (completed depth %d)", depth, depth-1))
			break
		}
		results := make([][]succ, len(frontier))
		var wg sync.WaitGroup
		var next int64
		var mu sync.Mutex
		capped := false
		for w := 0; w < workers; w++ {
			wg.Add(1)
			go func() {
				defer wg.Done()
				for {
					mu.Lock()
					i := int(next)
					next++
					mu.Unlock()
					if i >= len(frontier) {
						return
					}
					if i%64 == 0 && r.Expired() {
						mu.Lock()
						capped = true
						mu.Unlock()
						return
					}
					hist := frontier[i].hist
					base, d := build(hist)
					if d != "" {
						panic("verifmc: nondeterministic replay of " + fmt.Sprint(Names(hist)) + ": " + d)
					}
					ops := h.Ops(base)
					rel(base)
					out := make([]succ, 0, len(ops))
					for _, op := range ops {
						var sc succ
						sc.op = op
						done := make(chan struct{})
						go func() {
							defer close(done)
							var s S
							var made bool
							p, msg := Guard(func() {
								var d string
								s, d = build(hist)
								made = true
								if d != "" {
									panic("nondeterministic replay: " + d)
								}
								if h.Soft != nil {
									h.Soft(s) // drop what the replayed prefix reported (already reported there)
								}
								if d := h.Apply(s, op); d != "" {
									sc.desc = d
									return
								}
								// Canon before Check: Check may fill caches of the real object,
								// replay never runs Check, so the dump must be the pre-Check state.
								key := sha256.Sum256(h.Canon(s))
								d = h.Check(s)
								if h.Soft != nil {
									sc.soft = h.Soft(s)
								}
								if d != "" {
									sc.desc = d
									return
								}
								sc.key = key
							})
							if p {
								sc.desc = msg
							}
							if made {
								Guard(func() { rel(s) })
							}
						}()
						select {
						case <-done:
						case <-time.After(h.ElemTimeout):
							sc.hang = true
							sc.desc = fmt.Sprintf("hang: transition did not return within %s", h.ElemTimeout)
						}
						out = append(out, sc)
						if sc.hang {
							break
						}
					}
					results[i] = out
				}
			}()
		}
		wg.Wait()
		var nextFrontier []histItem
		hung := false
		for i, out := range results {
			if out == nil {
				continue
			}
			for _, sc := range out {
				transitions++
				replays++
				nh := append(append([]Op{}, frontier[i].hist...), sc.op)
				for _, sv := range sc.soft {
					r.Violate(sv.Sig, sv.Desc, Names(nh))
					r.Outcome("soft:" + sv.Sig)
				}
				if sc.desc != "" {
					r.Violate(h.sig(nh, sc.desc), sc.desc, Names(nh))
					r.Outcome("violation")
					if sc.hang {
						hung = true
					}
					continue
				}
				if _, ok := seen[sc.key]; ok {
					continue
				}
				seen[sc.key] = struct{}{}
				states++
				nextFrontier = append(nextFrontier, histItem{nh})
				if len(nh) > maxDepth {
					maxDepth = len(nh)
				}
				if states%997 == 3 {
					r.Sample(Names(nh))
				}
			}
		}
		if !detChecked && len(nextFrontier) > 0 {
			// determinism self-test: replay one recorded history twice, dumps must be identical
			hh := nextFrontier[len(nextFrontier)/2].hist
			a, _ := build(hh)
			b, _ := build(hh)
			if string(h.Canon(a)) != string(h.Canon(b)) {
				panic("verifmc: replaying " + fmt.Sprint(Names(hh)) + " twice gives different canonical states")
			}
			rel(a)
			rel(b)
			detChecked = true
		}
		if hung {
			r.Capped("stopped after a hang")
			break
		}
		if capped {
			r.Capped(fmt.Sprintf("deadline reached inside depth %d (completed depth %d)", depth, depth-1))
			break
		}
		r.Extra["completed_depth"] = depth
		perDepth = append(perDepth, len(nextFrontier))
		r.Extra["new_states_per_depth"] = perDepth
		frontier = nextFrontier
	}
	if len(r.Samples) == 0 && len(frontier) > 0 {
		r.Sample(Names(frontier[0].hist))
	}
	r.Add("states", states)
	r.Add("transitions", transitions)
	r.Add("traces_validated_against_impl", replays)
	r.Add("evaluations", transitions)
	r.mu.Lock()
	if v, ok := r.Extra["max_depth"].(int); !ok || maxDepth > v {
		r.Extra["max_depth"] = maxDepth
	}
	r.mu.Unlock()
}

func (h *Hist[S]) sig(hist []Op, desc string) string {
	if h.Sig != nil {
		return h.Sig(hist, desc)
	}
	if len(hist) == 0 {
		return "init"
	}
	return hist[len(hist)-1].Name()
}

// ReplayHist applies a stored history (names) by looking every name up among the
// enabled ops; used by replay tests.
func (h *Hist[S]) ReplayHist(names []string) (string, error) {
	s := h.Fresh()
	if d := h.Check(s); d != "" {
		return d, nil
	}
	for _, n := range names {
		var found Op
		for _, op := range h.Ops(s) {
			if op.Name() == n {
				found = op
				break
			}
		}
		if found == nil {
			return "", fmt.Errorf("op %q not enabled", n)
		}
		var d string
		p, msg := Guard(func() {
			d = h.Apply(s, found)
			if d == "" {
				d = h.Check(s)
			}
		})
		if p {
			return msg, nil
		}
		if d != "" {
			return d, nil
		}
	}
	return "", nil
}
