//go:build verif && !race

package verifmc

// RaceBuild reports whether the binary was built with -race.
const RaceBuild = false

func raceDisable() {}
func raceEnable()  {}
