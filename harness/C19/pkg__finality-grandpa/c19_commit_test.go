//go:build verif

package grandpa

// C19, part "commit": ValidateCommit accepts exactly the commits the statement describes, for
// every precommit order and for uint32 and uint64 block numbers.
//
// Input space: block tree (parent vector) x hash labelling x base number (1 and 2^32-1-depth) x
// number width x voter weight vector x every *sequence* (so every multiset in every order) of up
// to L precommits over the alphabet {member voters + one non-member} x {blocks} x every block as
// the commit target.  Signatures are not looked at by ValidateCommit; duplicates are the same
// (voter, block) letter twice, equivocations the same voter with two blocks.
//
// Reference (c19ref.go semantics, explicit weights and parent map): see ref.C19Verdict.  The verdict is
// computed under every admissible reading of the clauses the statement leaves open (non-member
// precommits: part of "every precommit must connect to the lowest one" or ignored; equivocators:
// weight counts towards every block, or only where they voted); an input is compared only if all
// readings agree, otherwise it is skipped and counted.

import (
	"fmt"
	"strings"
	"sync/atomic"
	"testing"

	"github.com/ChainSafe/gossamer/internal/verifmc"
	"github.com/ChainSafe/gossamer/internal/verifmc/ref"
	"golang.org/x/exp/constraints"
)

// ---------------------------------------------------------------- harness

type c19Chain[N constraints.Unsigned] struct {
	t    *ref.C19Tree
	hash []string
	idx  map[string]int
}

func (ch *c19Chain[N]) Ancestry(base, block string) ([]string, error) {
	b, ok := ch.idx[block]
	if !ok {
		return nil, fmt.Errorf("unknown block %q", block)
	}
	out := []string{}
	for {
		b = ch.t.Parent[b]
		if b < 0 {
			return nil, fmt.Errorf("block not descendant of base")
		}
		if ch.hash[b] == base {
			return out, nil
		}
		out = append(out, ch.hash[b])
	}
}

func (ch *c19Chain[N]) IsEqualOrDescendantOf(base, block string) bool {
	a, ok1 := ch.idx[base]
	b, ok2 := ch.idx[block]
	return ok1 && ok2 && ch.t.IsAnc(a, b)
}

type c19CommitCfg struct {
	parent  []int
	perm    []int // hash of node i = letter perm[i]
	baseNum uint64
	weights []uint64
	maxLen  int
	// leavesOnly: precommits only by members, one per voter, and only for leaf blocks or the root (used for
	// the 6-block trees root->F->{FA,FB}, root->E->EA: the smallest in which three vote-nodes at depth 2
	// merge below a voted block through two different children)
	leavesOnly bool
}

func (c *c19CommitCfg) String() string {
	return fmt.Sprintf("tree%v hashperm%v base#%d weights%v", c.parent, c.perm, c.baseNum, c.weights)
}

var c19SkipCount [8]atomic.Int64

func c19pcString(hash []string, pcs []ref.C19Pc) string {
	var sb strings.Builder
	for i, p := range pcs {
		if i > 0 {
			sb.WriteString(" ")
		}
		v := fmt.Sprintf("v%d", p.Voter)
		if p.Voter < 0 {
			v = "nonmember"
		}
		fmt.Fprintf(&sb, "%s:%s", v, hash[p.Block])
		if p.Sig != 0 {
			fmt.Fprintf(&sb, "!badsig%d", p.Sig)
		}
	}
	return sb.String()
}

// c19RunCommitCfg enumerates every precommit sequence and target of one configuration for number type N.
func c19RunCommitCfg[N constraints.Unsigned](r *verifmc.Report, c *c19CommitCfg, width string, counters *[8]atomic.Int64) {
	t := ref.C19NewTree(c.parent)
	n := len(c.parent)
	hash := make([]string, n)
	idx := map[string]int{}
	for i, p := range c.perm {
		hash[i] = string(rune('a' + p))
		idx[hash[i]] = i
	}
	chain := &c19Chain[N]{t: t, hash: hash, idx: idx}
	var iw []IDWeight[string]
	ids := make([]string, len(c.weights))
	for i, w := range c.weights {
		ids[i] = fmt.Sprintf("v%d", i)
		iw = append(iw, IDWeight[string]{ID: ids[i], Weight: w})
	}
	voters := NewVoterSet(iw)
	if voters == nil {
		panic("c19: nil voter set")
	}
	num := func(b int) N { return N(c.baseNum + uint64(t.Depth[b])) }
	nv := len(c.weights) + 1 // + the non-member
	letters := nv * n
	isLeaf := make([]bool, n)
	for i := range isLeaf {
		isLeaf[i] = true
	}
	for i, p := range c.parent {
		if i > 0 && p >= 0 {
			isLeaf[p] = false
		}
	}
	pcs := make([]ref.C19Pc, 0, c.maxLen)
	var rec func()
	eval := func() {
		for target := 0; target < n; target++ {
			counters[0].Add(1)
			want, skip := ref.C19Decide(t, c.weights, pcs, target, nil)
			commit := Commit[string, N, string, string]{TargetHash: hash[target], TargetNumber: num(target)}
			for _, p := range pcs {
				id := "x-nonmember"
				if p.Voter >= 0 {
					id = ids[p.Voter]
				}
				commit.Precommits = append(commit.Precommits, SignedPrecommit[string, N, string, string]{
					Precommit: Precommit[string, N]{TargetHash: hash[p.Block], TargetNumber: num(p.Block)},
					Signature: "sig/" + id + "/" + hash[p.Block], ID: id,
				})
			}
			var res CommitValidationResult
			var err error
			replay := func() any {
				return map[string]any{"configuration": c.String(), "width": width, "precommits": c19pcString(hash, pcs), "target": hash[target]}
			}
			if p, msg := verifmc.Guard(func() { res, err = ValidateCommit[string, N, string, string](commit, *voters, chain) }); p {
				r.Violate("ValidateCommit:panic:"+verifmc.PanicSite(msg), msg, replay())
				continue
			}
			if want == ref.C19Undefined {
				counters[1].Add(1)
				c19SkipCount[skip].Add(1)
				continue
			}
			got := err == nil && res.Valid()
			switch {
			case err != nil:
				counters[2].Add(1)
				if want == ref.C19Accept {
					r.Violate("ValidateCommit:error-on-valid-commit", err.Error(), replay())
				}
			case got && want == ref.C19Accept:
				counters[3].Add(1)
				if len(pcs) >= 2 && t.Depth[pcs[0].Block] > t.Depth[pcs[1].Block] {
					counters[5].Add(1) // accepted although the first precommit is not the lowest
				}
			case !got && want == ref.C19Reject:
				counters[4].Add(1)
			case !got && want == ref.C19Accept:
				// shape of the mismatch
				sig := "ValidateCommit:valid-commit-rejected"
				firstMember, lowest := -1, -1
				for _, p := range pcs {
					if p.Voter < 0 {
						continue
					}
					if firstMember < 0 {
						firstMember = p.Block
					}
					if lowest < 0 || t.Depth[p.Block] < t.Depth[lowest] {
						lowest = p.Block
					}
				}
				if width == "uint32" && firstMember >= 0 && t.Depth[firstMember] > t.Depth[lowest] {
					sig += ":uint32:first-member-precommit-is-not-the-lowest"
				}
				r.Violate(sig, fmt.Sprintf("ValidateCommit says invalid, the statement accepts: %s precommits [%s] target %s (%s)", c.String(), c19pcString(hash, pcs), hash[target], width), replay())
			case got && want == ref.C19Reject:
				r.Violate("ValidateCommit:invalid-commit-accepted", fmt.Sprintf("ValidateCommit says valid, the statement rejects: %s precommits [%s] target %s (%s)", c.String(), c19pcString(hash, pcs), hash[target], width), replay())
			}
		}
	}
	rec = func() {
		eval()
		if len(pcs) == c.maxLen {
			return
		}
		for l := 0; l < letters; l++ {
			v, b := l/n, l%n
			if v == nv-1 {
				v = -1
			}
			if c.leavesOnly {
				if v < 0 || !(isLeaf[b] || b == 0) {
					continue
				}
				dupVoter := false
				for _, q := range pcs {
					dupVoter = dupVoter || q.Voter == v
				}
				if dupVoter {
					continue
				}
			}
			pcs = append(pcs, ref.C19Pc{Voter: v, Block: b})
			rec()
			pcs = pcs[:len(pcs)-1]
		}
	}
	rec()
}

func TestVerif_C19_commit(t *testing.T) {
	r := verifmc.NewReport("C19", "commit", "exploration")
	defer r.Write()
	r.Rule = "ValidateCommit on every sequence (= every multiset in every order) of <=L precommits over {members + one non-member} x {blocks}, every block as target, for every block tree with <=4 (thorough 5) blocks, and for every labelling of the 6-block tree root->F->{FA,FB}, root->E->EA with one member precommit per voter for leaf blocks or the root (base number 1, weights {3,2,1,1}; thorough also {3,3,1,1} and {1,1,1,1}), two hash orders, base numbers 1 and 2^32-1-depth, uint32 and uint64 numbers, voter weight vectors with weights {1,2}; non-trivial = inputs on which all readings of the statement agree; accepted ones are counted separately"
	thorough := verifmc.Thorough()
	type wl struct {
		w []uint64
		l int
	}
	var cfgs []*c19CommitCfg
	maxN := 6
	for n := 1; n <= maxN; n++ {
		verifmc.ParentVectors(n, func(parent []int) {
			ident := make([]int, n)
			rev := make([]int, n)
			for i := range ident {
				ident[i], rev[i] = i, n-1-i
			}
			maxDepth := 0
			for _, d := range ref.C19NewTree(parent).Depth {
				if d > maxDepth {
					maxDepth = d
				}
			}
			var wls []wl
			switch {
			case n == 6:
				// only the merge shape: two children of the root, three leaves at depth 2
				kids, deep := 0, 0
				tr := ref.C19NewTree(parent)
				for i := 1; i < n; i++ {
					if parent[i] == 0 {
						kids++
					}
					if tr.Depth[i] == 2 {
						deep++
					}
				}
				if kids != 2 || deep != 3 {
					return
				}
				wls = []wl{{[]uint64{3, 2, 1, 1}, 4}}
				if thorough {
					wls = append(wls, wl{[]uint64{3, 3, 1, 1}, 4}, wl{[]uint64{1, 1, 1, 1}, 4})
				}
			case !thorough && n == 5:
				return
			case !thorough && n <= 3:
				wls = []wl{{[]uint64{1, 1, 1}, 3}, {[]uint64{2, 1, 1}, 4}, {[]uint64{1, 1, 2}, 3}, {[]uint64{2, 2, 1}, 3}, {[]uint64{1, 1, 1, 1}, 3}, {[]uint64{2, 1, 1, 1}, 3}}
			case !thorough:
				wls = []wl{{[]uint64{1, 1, 1}, 3}, {[]uint64{2, 1, 1}, 3}, {[]uint64{1, 1, 1, 1}, 3}}
			case n <= 4:
				wls = []wl{{[]uint64{1, 1, 1}, 4}, {[]uint64{2, 1, 1}, 4}, {[]uint64{1, 1, 2}, 4}, {[]uint64{2, 2, 1}, 4}, {[]uint64{1, 2, 2}, 4}, {[]uint64{1, 1, 1, 1}, 4}, {[]uint64{2, 1, 1, 1}, 4}, {[]uint64{1, 1, 1, 2}, 3}, {[]uint64{2, 2, 1, 1}, 3}}
			default:
				wls = []wl{{[]uint64{1, 1, 1}, 3}, {[]uint64{2, 1, 1}, 4}, {[]uint64{2, 2, 1}, 3}, {[]uint64{1, 1, 1, 1}, 3}, {[]uint64{2, 1, 1, 1}, 3}}
			}
			for _, perm := range [][]int{ident, rev} {
				if n == 1 && perm[0] != ident[0] {
					continue
				}
				for _, base := range []uint64{1, 1<<32 - 1 - uint64(maxDepth)} {
					if n == 6 && base != 1 {
						continue
					}
					for _, x := range wls {
						cfgs = append(cfgs, &c19CommitCfg{parent: append([]int{}, parent...), perm: append([]int{}, perm...), baseNum: base, weights: x.w, maxLen: x.l, leavesOnly: n == 6})
					}
				}
			}
		})
	}
	var counters [8]atomic.Int64
	verifmc.ParallelFor(r, 2*len(cfgs), func(i int) {
		c := cfgs[i/2]
		if i%2 == 0 {
			c19RunCommitCfg[uint32](r, c, "uint32", &counters)
		} else {
			c19RunCommitCfg[uint64](r, c, "uint64", &counters)
		}
	}, func(i int, msg string) {
		r.Violate("harness-panic", msg, cfgs[i/2].String())
	})
	r.Add("evaluations", counters[0].Load())
	r.Add("skipped_open_clause_or_undefined", counters[1].Load())
	r.Add("accepted_by_both", counters[3].Load())
	r.Add("rejected_by_both", counters[4].Load())
	r.Add("accepted_with_first_precommit_not_lowest", counters[5].Load())
	r.Add("distinct_nontrivial_inputs", counters[0].Load()-counters[1].Load())
	r.Outcomes["accepted"] = counters[3].Load()
	r.Outcomes["rejected"] = counters[4].Load()
	r.Outcomes["accepted-with-first-precommit-not-lowest"] = counters[5].Load()
	for i, n := range ref.C19SkipNames {
		if v := c19SkipCount[i].Load(); v > 0 {
			r.Outcomes[n] = v
		}
	}
	r.Extra["configurations"] = len(cfgs) * 2
	r.Sample(map[string]any{"configuration": cfgs[len(cfgs)-1].String(), "precommits": "v0:a v1:b v2:c", "target": "a"})
}
