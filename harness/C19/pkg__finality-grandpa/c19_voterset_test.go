//go:build verif

package grandpa

// C19, part "voterset": "a voter listed several times has its weights summed".
// Every weight list with up to 4 entries over 3 ids and the weights {0,1,2,3} (quick) — every order
// is a different list, so all orders are covered — plus lists with weights near 2^64, is given to the
// real NewVoterSet.  Reference: weight(id) = sum of the listed weights of id, total = sum of all,
// threshold = total - floor((total-1)/3), members in id order.  The statement is silent on ids whose
// summed weight is 0 and on totals above 2^64-1: those aspects are not compared (counted).

import (
	"fmt"
	"math"
	"math/big"
	"testing"

	"github.com/ChainSafe/gossamer/internal/verifmc"
)

func TestVerif_C19_voterset(t *testing.T) {
	r := verifmc.NewReport("C19", "voterset", "exploration")
	defer r.Write()
	r.Rule = "every list of <=4 (thorough 5) (id,weight) entries over ids {a,b,c} and weights {0,1,2,3}, and every list of <=3 entries over {a,b} with weights {1, 2^63, 2^64-1}; NewVoterSet result against summed weights; non-trivial = a list in which some id occurs more than once"
	ids := []string{"a", "b", "c"}
	type alpha struct {
		ids     []string
		weights []uint64
		maxLen  int
	}
	for _, al := range []alpha{
		{ids, []uint64{0, 1, 2, 3}, verifmc.Pick(4, 5)},
		{ids[:2], []uint64{1, 1 << 63, math.MaxUint64}, 3},
	} {
		for l := 0; l <= al.maxLen; l++ {
			dims := make([]int, 2*l)
			for i := 0; i < l; i++ {
				dims[2*i], dims[2*i+1] = len(al.ids), len(al.weights)
			}
			one := func(idx []int) {
				var list []IDWeight[string]
				sum := map[string]*big.Int{}
				total := new(big.Int)
				occ := map[string]int{}
				for i := 0; i < l; i++ {
					id, w := al.ids[idx[2*i]], al.weights[idx[2*i+1]]
					list = append(list, IDWeight[string]{ID: id, Weight: w})
					if sum[id] == nil {
						sum[id] = new(big.Int)
					}
					sum[id].Add(sum[id], new(big.Int).SetUint64(w))
					total.Add(total, new(big.Int).SetUint64(w))
					occ[id]++
				}
				r.Add("evaluations", 1)
				dup := false
				for _, n := range occ {
					dup = dup || n > 1
				}
				replay := fmt.Sprintf("NewVoterSet(%v)", list)
				if dup {
					r.Distinct(replay)
				}
				var vs *VoterSet[string]
				if p, msg := verifmc.Guard(func() { vs = NewVoterSet(list) }); p {
					r.Violate("voterset:panic:"+verifmc.PanicSite(msg), msg, replay)
					return
				}
				if !total.IsUint64() {
					r.Outcome("skip:total-above-2^64-1(statement silent)")
					return
				}
				if total.Sign() == 0 {
					r.Outcome("skip:no-non-zero-weight(statement silent)")
					if vs != nil {
						r.Outcome("empty-set-accepted")
					}
					return
				}
				if vs == nil {
					r.Violate("voterset:nil-for-valid-list", "NewVoterSet returned nil for a list with non-zero total weight <= 2^64-1", replay)
					return
				}
				T := total.Uint64()
				if uint64(vs.TotalWeight()) != T || uint64(vs.Threshold()) != T-(T-1)/3 {
					r.Violate("voterset:total-or-threshold-wrong", fmt.Sprintf("total %d threshold %d, reference %d %d", vs.TotalWeight(), vs.Threshold(), T, T-(T-1)/3), replay)
					return
				}
				var memberSum uint64
				for _, id := range al.ids {
					info := vs.Get(id)
					if sum[id] == nil || sum[id].Sign() == 0 {
						continue // membership of an id with summed weight 0: statement silent
					}
					want := sum[id].Uint64()
					switch {
					case info == nil:
						r.Violate("voterset:listed-voter-missing", fmt.Sprintf("voter %s (summed weight %d) is not a member", id, want), replay)
						return
					case uint64(info.Weight()) != want:
						sig := "voterset:weight-wrong"
						if occ[id] > 1 {
							// the shape of the mismatch: is it the last non-zero listed weight of that id?
							var last uint64
							for _, e := range list {
								if e.ID == id && e.Weight != 0 {
									last = e.Weight
								}
							}
							if uint64(info.Weight()) == last {
								sig = "voterset:duplicate-id-weight-overwritten-not-summed"
							}
						}
						r.Violate(sig, fmt.Sprintf("weight(%s) = %d, sum of its listed weights = %d (total reported %d)", id, info.Weight(), want, vs.TotalWeight()), replay)
						return
					}
					memberSum += want
				}
				if memberSum != T {
					t.Fatalf("harness: member sum %d != total %d", memberSum, T)
				}
				// order of members = id order
				pos := 0
				for _, id := range al.ids {
					if info := vs.Get(id); info != nil {
						if int(info.Position()) != pos || vs.Nth(uint(pos)).ID != id {
							r.Violate("voterset:position-wrong", fmt.Sprintf("voter %s at position %d, reference %d", id, info.Position(), pos), replay)
							return
						}
						pos++
					}
				}
				if dup {
					r.Outcome("accepted-with-duplicate-ids")
				} else {
					r.Outcome("accepted-distinct-ids")
				}
			}
			if l == 0 {
				one(nil)
			} else {
				verifmc.Product(dims, one)
			}
		}
	}
	r.Sample("NewVoterSet([{a 1} {a 2} {b 1}]) must give weight(a)=3, total 4, threshold 3")
}
