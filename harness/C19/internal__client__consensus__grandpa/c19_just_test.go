//go:build verif

package grandpa

// C19, part "justification": GrandpaJustification verification (verifyWithVoterSet, Verify,
// DecodeGrandpaJustificationVerifyFinalizes) accepts exactly the justifications the statement
// describes, for every precommit order, for uint32 and uint64 block numbers, with real ed25519
// signatures (pre-signed once per configuration and cached) and real headers.
//
// Layers per configuration (block tree x header salt x base number x number width x voter weights):
//  1 structure : every sequence of <=L validly signed precommits over {members + one non-member} x {blocks},
//                every block as target, every header-set variant (n<=3: every subset of the tree's headers and
//                the needed set plus a foreign header; n=4: needed set, each one-missing, each one-extra, plus foreign)
//  2 signatures: every such sequence with exactly one precommit carrying an invalid signature (signed for
//                another round / another set id / by another member's key), needed header set
//  3 duplicates: authority lists in which an authority is listed twice (weights must be summed), through Verify()
// Every accepted-by-reference input and every input the implementation accepts is also sent through
// scale.Marshal + DecodeGrandpaJustificationVerifyFinalizes (same verdict required; and a different
// finalized target must be rejected).
// Reference: ref.C19Decide (engine/ref/c19_justref.go); inputs on which the admissible readings of the
// statement disagree are skipped and counted.

import (
	"fmt"
	"sort"
	"strings"
	"sync/atomic"
	"testing"

	primitives "github.com/ChainSafe/gossamer/internal/primitives/consensus/grandpa"
	ced25519 "github.com/ChainSafe/gossamer/internal/primitives/core/ed25519"
	"github.com/ChainSafe/gossamer/internal/primitives/core/hash"
	"github.com/ChainSafe/gossamer/internal/primitives/keyring/ed25519"
	"github.com/ChainSafe/gossamer/internal/primitives/runtime"
	"github.com/ChainSafe/gossamer/internal/primitives/runtime/generic"
	"github.com/ChainSafe/gossamer/internal/verifmc"
	"github.com/ChainSafe/gossamer/internal/verifmc/ref"
	grandpa "github.com/ChainSafe/gossamer/pkg/finality-grandpa"
	"github.com/ChainSafe/gossamer/pkg/scale"
)

const (
	c19Round = 7
	c19SetID = 3
)

type c19JCfg struct {
	parent  []int
	salt    byte
	baseNum uint64
	weights []uint64
	maxLen  int
	allSubs bool // header variants: every subset of the tree's headers
	sigs    bool // run layer 2
}

func (c *c19JCfg) String() string {
	return fmt.Sprintf("tree%v salt%d base#%d weights%v L%d", c.parent, c.salt, c.baseNum, c.weights, c.maxLen)
}

var c19Keys = []ed25519.Keyring{ed25519.Alice, ed25519.Bob, ed25519.Charlie, ed25519.Dave, ed25519.Eve}

type c19Counters struct {
	evals, skipped, accepted, rejected, decoded, sigChecked atomic.Int64
	skip                                                    [8]atomic.Int64
}

type c19Env[N runtime.Number] struct {
	c       *c19JCfg
	width   string
	t       *ref.C19Tree
	headers []runtime.Header[N, hash.H256] // header of block i
	foreign runtime.Header[N, hash.H256]
	hashes  []hash.H256
	pubs    []ced25519.Public // members 0..k-1, then the non-member
	// sig[voter][block][kind]: kind 0 valid, 1 other round, 2 other set id, 3 signed by the next member's key
	sig    [][][4]primitives.AuthoritySignature
	voters *grandpa.VoterSet[string]
	names  []string
}

func c19NewEnv[N runtime.Number](c *c19JCfg, width string) *c19Env[N] {
	e := &c19Env[N]{c: c, width: width, t: ref.C19NewTree(c.parent)}
	n := len(c.parent)
	e.headers = make([]runtime.Header[N, hash.H256], n)
	e.hashes = make([]hash.H256, n)
	salt := hash.H256(string(append([]byte{c.salt}, make([]byte, 31)...)))
	zero := hash.H256(string(make([]byte, 32)))
	for i := 0; i < n; i++ {
		parent := zero
		if c.parent[i] >= 0 {
			parent = e.hashes[c.parent[i]]
		}
		// the state root distinguishes siblings
		sr := hash.H256(string(append([]byte{byte(i)}, make([]byte, 31)...)))
		h := generic.NewHeader[N, hash.H256, runtime.BlakeTwo256](N(c.baseNum+uint64(e.t.Depth[i])), salt, sr, parent, runtime.Digest{})
		e.headers[i] = h
		e.hashes[i] = h.Hash()
		e.names = append(e.names, string(rune('a'+i)))
	}
	e.foreign = generic.NewHeader[N, hash.H256, runtime.BlakeTwo256](N(c.baseNum+1), salt, hash.H256(string(append([]byte{0xff}, make([]byte, 31)...))), zero, runtime.Digest{})
	k := len(c.weights)
	var iw []grandpa.IDWeight[string]
	for v := 0; v <= k; v++ {
		pub := c19Keys[v].Pair().Public().(ced25519.Public)
		e.pubs = append(e.pubs, pub)
		if v < k {
			iw = append(iw, grandpa.IDWeight[string]{ID: string(pub.Bytes()), Weight: c.weights[v]})
		}
	}
	e.voters = grandpa.NewVoterSet(iw)
	if e.voters == nil {
		panic("c19: nil voter set")
	}
	e.sig = make([][][4]primitives.AuthoritySignature, k+1)
	for v := 0; v <= k; v++ {
		e.sig[v] = make([][4]primitives.AuthoritySignature, n)
		for b := 0; b < n; b++ {
			msg := grandpa.NewMessage(grandpa.Precommit[hash.H256, N]{TargetHash: e.hashes[b], TargetNumber: N(c.baseNum + uint64(e.t.Depth[b]))})
			e.sig[v][b][0] = c19Keys[v].Sign(primitives.NewLocalizedPayload(c19Round, c19SetID, msg))
			e.sig[v][b][1] = c19Keys[v].Sign(primitives.NewLocalizedPayload(c19Round+1, c19SetID, msg))
			e.sig[v][b][2] = c19Keys[v].Sign(primitives.NewLocalizedPayload(c19Round, c19SetID+1, msg))
			e.sig[v][b][3] = c19Keys[(v+1)%k].Sign(primitives.NewLocalizedPayload(c19Round, c19SetID, msg))
		}
	}
	return e
}

func (e *c19Env[N]) pcString(pcs []ref.C19Pc) string {
	var sb strings.Builder
	for i, p := range pcs {
		if i > 0 {
			sb.WriteString(" ")
		}
		v := fmt.Sprintf("v%d", p.Voter)
		if p.Voter < 0 {
			v = "nonmember"
		}
		fmt.Fprintf(&sb, "%s:%s", v, e.names[p.Block])
		if p.Sig != 0 {
			sb.WriteString([]string{"", "!sig-for-other-round", "!sig-for-other-set", "!sig-by-other-key"}[p.Sig])
		}
	}
	return sb.String()
}

func (e *c19Env[N]) hdrString(hs []int) string {
	var out []string
	for _, h := range hs {
		if h < 0 {
			out = append(out, "FOREIGN")
		} else {
			out = append(out, e.names[h])
		}
	}
	return "{" + strings.Join(out, ",") + "}"
}

func (e *c19Env[N]) build(pcs []ref.C19Pc, target int, hs []int) *GrandpaJustification[hash.H256, N] {
	k := len(e.c.weights)
	j := &GrandpaJustification[hash.H256, N]{}
	j.Justification.Round = c19Round
	j.Justification.Commit.TargetHash = e.hashes[target]
	j.Justification.Commit.TargetNumber = N(e.c.baseNum + uint64(e.t.Depth[target]))
	for _, p := range pcs {
		v := p.Voter
		if v < 0 {
			v = k
		}
		j.Justification.Commit.Precommits = append(j.Justification.Commit.Precommits,
			grandpa.SignedPrecommit[hash.H256, N, primitives.AuthoritySignature, primitives.AuthorityID]{
				Precommit: grandpa.Precommit[hash.H256, N]{TargetHash: e.hashes[p.Block], TargetNumber: N(e.c.baseNum + uint64(e.t.Depth[p.Block]))},
				Signature: e.sig[v][p.Block][p.Sig],
				ID:        e.pubs[v],
			})
	}
	j.Justification.VoteAncestries = make([]runtime.Header[N, hash.H256], 0, len(hs))
	for _, h := range hs {
		if h < 0 {
			j.Justification.VoteAncestries = append(j.Justification.VoteAncestries, e.foreign)
		} else {
			j.Justification.VoteAncestries = append(j.Justification.VoteAncestries, e.headers[h])
		}
	}
	return j
}

// needed header set when every precommit (incl. non-members iff withNonMembers) connects to the lowest one
func (e *c19Env[N]) needed(pcs []ref.C19Pc, withNonMembers bool) []int {
	low := -1
	for _, p := range pcs {
		if p.Voter < 0 && !withNonMembers {
			continue
		}
		if low < 0 || e.t.Depth[p.Block] < e.t.Depth[low] {
			low = p.Block
		}
	}
	need := map[int]bool{}
	for _, p := range pcs {
		if (p.Voter < 0 && !withNonMembers) || !e.t.IsAnc(low, p.Block) {
			continue
		}
		for x := p.Block; x != low; x = e.t.Parent[x] {
			need[x] = true
		}
	}
	var out []int
	for b := range need {
		out = append(out, b)
	}
	sort.Ints(out)
	return out
}

func (e *c19Env[N]) headerVariants(pcs []ref.C19Pc) [][]int {
	n := len(e.c.parent)
	seen := map[string]bool{}
	var out [][]int
	add := func(hs []int) {
		k := fmt.Sprint(hs)
		if !seen[k] {
			seen[k] = true
			out = append(out, hs)
		}
	}
	need := e.needed(pcs, true)
	add(need)
	add(e.needed(pcs, false))
	add(append(append([]int{}, need...), -2))
	if e.c.allSubs {
		for m := 0; m < 1<<n; m++ {
			var hs []int
			for b := 0; b < n; b++ {
				if m>>b&1 == 1 {
					hs = append(hs, b)
				}
			}
			add(hs)
		}
		return out
	}
	for i := range need {
		hs := append(append([]int{}, need[:i]...), need[i+1:]...)
		add(hs)
	}
	for b := 0; b < n; b++ {
		in := false
		for _, x := range need {
			in = in || x == b
		}
		if !in {
			hs := append(append([]int{}, need...), b)
			sort.Ints(hs)
			add(hs)
		}
	}
	return out
}

func c19RunJCfg[N runtime.Number](r *verifmc.Report, c *c19JCfg, width string, cn *c19Counters) {
	e := c19NewEnv[N](c, width)
	n := len(c.parent)
	k := len(c.weights)
	letters := (k + 1) * n
	evalOne := func(pcs []ref.C19Pc, target int, hs []int) {
		cn.evals.Add(1)
		hsRef := hs
		if hsRef == nil {
			hsRef = []int{}
		}
		want, skip := ref.C19Decide(e.t, c.weights, pcs, target, hsRef)
		j := e.build(pcs, target, hs)
		var err error
		replay := func() any {
			return map[string]any{"configuration": c.String(), "width": width, "round": c19Round, "set_id": c19SetID,
				"precommits": e.pcString(pcs), "target": e.names[target], "headers": e.hdrString(hs)}
		}
		if p, msg := verifmc.Guard(func() { err = j.verifyWithVoterSet(c19SetID, *e.voters) }); p {
			// a panic is never an acceptable way to reject
			r.Violate("verifyWithVoterSet:panic:"+verifmc.PanicSite(msg), msg, replay())
			return
		}
		got := err == nil
		if got || want == ref.C19Accept {
			// the same input through the encoded entry point
			cn.decoded.Add(1)
			enc, merr := scale.Marshal(j.Justification)
			if merr != nil {
				r.Violate("encode:error", merr.Error(), replay())
			} else {
				var derr error
				tgt := HashNumber[hash.H256, N]{Hash: j.Justification.Commit.TargetHash, Number: j.Justification.Commit.TargetNumber}
				if p, msg := verifmc.Guard(func() {
					_, derr = DecodeGrandpaJustificationVerifyFinalizes[hash.H256, N, runtime.BlakeTwo256](enc, tgt, c19SetID, *e.voters)
				}); p {
					r.Violate("DecodeGrandpaJustificationVerifyFinalizes:panic:"+verifmc.PanicSite(msg), msg, replay())
				} else if (derr == nil) != got {
					r.Violate("DecodeGrandpaJustificationVerifyFinalizes:verdict-differs-from-verifyWithVoterSet", fmt.Sprintf("decoded path err=%v, direct err=%v", derr, err), replay())
				}
				if got {
					other := tgt
					other.Hash = e.hashes[(target+1)%n]
					if n > 1 {
						if _, derr = DecodeGrandpaJustificationVerifyFinalizes[hash.H256, N, runtime.BlakeTwo256](enc, other, c19SetID, *e.voters); derr == nil {
							r.Violate("DecodeGrandpaJustificationVerifyFinalizes:accepts-for-a-different-target", "a justification for "+e.names[target]+" is accepted as finalizing another block", replay())
						}
					}
					other = tgt
					other.Number++
					if _, derr = DecodeGrandpaJustificationVerifyFinalizes[hash.H256, N, runtime.BlakeTwo256](enc, other, c19SetID, *e.voters); derr == nil {
						r.Violate("DecodeGrandpaJustificationVerifyFinalizes:accepts-for-a-different-target-number", "accepted with another finalized number", replay())
					}
				}
			}
		}
		if want == ref.C19Undefined {
			cn.skipped.Add(1)
			cn.skip[skip].Add(1)
			return
		}
		switch {
		case got && want == ref.C19Accept:
			cn.accepted.Add(1)
		case !got && want == ref.C19Reject:
			cn.rejected.Add(1)
		case !got && want == ref.C19Accept:
			sig := "verifyWithVoterSet:valid-justification-rejected"
			firstMember, lowest := -1, -1
			for _, p := range pcs {
				if p.Voter < 0 {
					continue
				}
				if firstMember < 0 {
					firstMember = p.Block
				}
				if lowest < 0 || e.t.Depth[p.Block] < e.t.Depth[lowest] {
					lowest = p.Block
				}
			}
			if width == "uint32" && firstMember >= 0 && e.t.Depth[firstMember] > e.t.Depth[lowest] && strings.Contains(err.Error(), "invalid commit in grandpa justification") {
				sig += ":uint32:first-member-precommit-is-not-the-lowest"
			}
			r.Violate(sig, fmt.Sprintf("rejected (%v), the statement accepts: %s precommits [%s] target %s headers %s (%s)", err, c.String(), e.pcString(pcs), e.names[target], e.hdrString(hs), width), replay())
		case got && want == ref.C19Reject:
			sig := "verifyWithVoterSet:invalid-justification-accepted"
			for _, p := range pcs {
				if p.Sig != 0 {
					sig += ":with-invalid-signature"
					break
				}
			}
			r.Violate(sig, fmt.Sprintf("accepted, the statement rejects: %s precommits [%s] target %s headers %s (%s)", c.String(), e.pcString(pcs), e.names[target], e.hdrString(hs), width), replay())
		}
	}
	pcs := make([]ref.C19Pc, 0, c.maxLen)
	var rec func()
	rec = func() {
		if len(pcs) > 0 {
			hv := e.headerVariants(pcs)
			for target := 0; target < n; target++ {
				for _, hs := range hv {
					evalOne(pcs, target, hs)
				}
			}
			if c.sigs {
				need := e.needed(pcs, true)
				for i := range pcs {
					for kind := 1; kind <= 3; kind++ {
						if pcs[i].Voter < 0 && kind == 3 {
							continue
						}
						pcs[i].Sig = kind
						for target := 0; target < n; target++ {
							evalOne(pcs, target, need)
						}
						pcs[i].Sig = 0
					}
				}
			}
		} else {
			for target := 0; target < n; target++ {
				func() {
					// no precommits at all: must be rejected without a panic
					cn.evals.Add(1)
					j := e.build(nil, target, nil)
					var err error
					if p, msg := verifmc.Guard(func() { err = j.verifyWithVoterSet(c19SetID, *e.voters) }); p {
						r.Violate("verifyWithVoterSet:panic:"+verifmc.PanicSite(msg), msg, map[string]any{"configuration": c.String(), "precommits": "", "target": e.names[target]})
					} else if err == nil {
						r.Violate("verifyWithVoterSet:invalid-justification-accepted:no-precommits", "a justification without precommits is accepted", map[string]any{"configuration": c.String(), "target": e.names[target]})
					} else {
						cn.rejected.Add(1)
					}
				}()
			}
		}
		if len(pcs) == c.maxLen {
			return
		}
		for l := 0; l < letters; l++ {
			v, b := l/n, l%n
			if v == k {
				v = -1
			}
			pcs = append(pcs, ref.C19Pc{Voter: v, Block: b})
			rec()
			pcs = pcs[:len(pcs)-1]
		}
	}
	rec()
}

// layer 3: an authority listed several times has its weights summed (through Verify, which builds the voter set)
func c19RunDuplicates[N runtime.Number](r *verifmc.Report, width string, cn *c19Counters) {
	c := &c19JCfg{parent: []int{-1, 0}, salt: 1, baseNum: 1, weights: []uint64{1, 1, 1}, maxLen: 3}
	e := c19NewEnv[N](c, width)
	// authority lists: sequences of 2..4 entries over {A,B,C} x {1,2}
	for l := 2; l <= 4; l++ {
		dims := make([]int, 2*l)
		for i := 0; i < l; i++ {
			dims[2*i], dims[2*i+1] = 3, 2
		}
		verifmc.Product(dims, func(idx []int) {
			var auths primitives.AuthorityList
			sum := make([]uint64, 3)
			last := make([]uint64, 3)
			occ := make([]int, 3)
			var desc []string
			for i := 0; i < l; i++ {
				v, w := idx[2*i], uint64(idx[2*i+1]+1)
				auths = append(auths, primitives.AuthorityIDWeight{AuthorityID: e.pubs[v], AuthorityWeight: primitives.AuthorityWeight(w)})
				sum[v] += w
				last[v] = w
				occ[v]++
				desc = append(desc, fmt.Sprintf("v%d:%d", v, w))
			}
			dup := occ[0] > 1 || occ[1] > 1 || occ[2] > 1
			if !dup {
				return
			}
			// precommits: every non-empty subset of the listed voters, each on block a or b (all on one chain), target a or b
			for m := 1; m < 1<<3; m++ {
				for bm := 0; bm < 1<<3; bm++ {
					var pcs []ref.C19Pc
					ok := true
					for v := 0; v < 3; v++ {
						if m>>v&1 == 0 {
							if bm>>v&1 == 1 {
								ok = false
							}
							continue
						}
						if occ[v] == 0 {
							ok = false
						}
						pcs = append(pcs, ref.C19Pc{Voter: v, Block: bm >> v & 1})
					}
					if !ok {
						continue
					}
					// lowest precommits first: this layer is about weights, not about order
					sort.SliceStable(pcs, func(a, b int) bool { return pcs[a].Block < pcs[b].Block })
					for target := 0; target < 2; target++ {
						cn.evals.Add(1)
						hs := e.needed(pcs, true)
						want, _ := ref.C19Decide(e.t, sum, pcs, target, append([]int{}, hs...))
						j := e.build(pcs, target, hs)
						var err error
						replay := map[string]any{"authorities": strings.Join(desc, " "), "width": width, "precommits": e.pcString(pcs), "target": e.names[target], "headers": e.hdrString(hs)}
						if p, msg := verifmc.Guard(func() { err = j.Verify(c19SetID, auths) }); p {
							r.Violate("Verify:panic:"+verifmc.PanicSite(msg), msg, replay)
							continue
						}
						got := err == nil
						if want == ref.C19Undefined {
							cn.skipped.Add(1)
							continue
						}
						if got == (want == ref.C19Accept) {
							if got {
								cn.accepted.Add(1)
								r.Outcome("accepted-with-duplicate-authorities")
							} else {
								cn.rejected.Add(1)
							}
							continue
						}
						// shape: is the verdict the one the statement gives for overwritten weights (last listed weight
						// of every authority, total still the sum of all listed weights = an extra silent voter)?
						sig := "Verify:duplicate-authority:valid-justification-rejected"
						if got {
							sig = "Verify:duplicate-authority:invalid-justification-accepted"
						}
						var T, lastSum uint64
						for v := 0; v < 3; v++ {
							T += sum[v]
							lastSum += last[v]
						}
						bugWeights := append(append([]uint64{}, last...), T-lastSum)
						if alt, _ := ref.C19Decide(e.t, bugWeights, pcs, target, append([]int{}, hs...)); alt != ref.C19Undefined && (alt == ref.C19Accept) == got {
							sig += ":weights-overwritten-not-summed"
						} else {
							sig += ":unexplained"
						}
						r.Violate(sig, fmt.Sprintf("Verify err=%v, the statement (weights summed) says accept=%v: authorities [%s] precommits [%s] target %s (%s)", err, want == ref.C19Accept, strings.Join(desc, " "), e.pcString(pcs), e.names[target], width), replay)
					}
				}
			}
		})
	}
}

func TestVerif_C19_justification(t *testing.T) {
	r := verifmc.NewReport("C19", "justification", "exploration")
	defer r.Write()
	r.Rule = "GrandpaJustification.verifyWithVoterSet / Verify / DecodeGrandpaJustificationVerifyFinalizes with real ed25519 signatures and headers: per configuration (tree x salt x base number x uint32|uint64 x weights) every sequence of <=L precommits over {members+non-member} x {blocks} x every target x header-set variants (all subsets for n<=3; needed, one-missing, one-extra, foreign for n=4); plus one invalid signature (other round / other set / other key) at every position; plus authority lists with duplicate ids through Verify; non-trivial = inputs on which all readings of the statement agree"
	thorough := verifmc.Thorough()
	var cfgs []*c19JCfg
	maxN := 4
	for n := 1; n <= maxN; n++ {
		verifmc.ParentVectors(n, func(parent []int) {
			maxDepth := 0
			for _, d := range ref.C19NewTree(parent).Depth {
				if d > maxDepth {
					maxDepth = d
				}
			}
			salts := []byte{1}
			if thorough {
				salts = []byte{1, 2}
			}
			for _, salt := range salts {
				for bi, base := range []uint64{1, 1<<32 - 1 - uint64(maxDepth)} {
					type plan struct {
						w    []uint64
						l    int
						sigs bool
					}
					var plans []plan
					switch {
					case !thorough && n <= 3 && bi == 0:
						plans = []plan{{[]uint64{1, 1, 1}, 3, true}, {[]uint64{2, 1, 1}, 3, true}, {[]uint64{1, 1, 1, 1}, 3, false}}
					case !thorough && n <= 3:
						plans = []plan{{[]uint64{2, 1, 1}, 3, false}}
					case !thorough && bi == 0:
						plans = []plan{{[]uint64{2, 1, 1}, 3, false}}
					case !thorough:
					case n <= 3:
						plans = []plan{{[]uint64{1, 1, 1}, 4, true}, {[]uint64{2, 1, 1}, 4, true}, {[]uint64{1, 1, 2}, 3, true}, {[]uint64{2, 2, 1}, 3, true}, {[]uint64{1, 1, 1, 1}, 3, true}, {[]uint64{2, 1, 1, 1}, 3, true}}
					case bi == 0:
						plans = []plan{{[]uint64{1, 1, 1}, 3, true}, {[]uint64{2, 1, 1}, 3, true}, {[]uint64{1, 1, 2}, 3, false}, {[]uint64{1, 1, 1, 1}, 3, false}}
					default:
						plans = []plan{{[]uint64{2, 1, 1}, 3, true}}
					}
					for _, pl := range plans {
						cfgs = append(cfgs, &c19JCfg{parent: append([]int{}, parent...), salt: salt, baseNum: base, weights: pl.w, maxLen: pl.l,
							allSubs: n <= 3, sigs: pl.sigs})
					}
				}
			}
		})
	}
	var cn c19Counters
	verifmc.ParallelFor(r, 2*len(cfgs)+2, func(i int) {
		switch {
		case i == 2*len(cfgs):
			c19RunDuplicates[uint32](r, "uint32", &cn)
		case i == 2*len(cfgs)+1:
			c19RunDuplicates[uint64](r, "uint64", &cn)
		case i%2 == 0:
			c19RunJCfg[uint32](r, cfgs[i/2], "uint32", &cn)
		default:
			c19RunJCfg[uint64](r, cfgs[i/2], "uint64", &cn)
		}
	}, func(i int, msg string) {
		r.Violate("harness-panic", msg, i)
	})
	r.Add("evaluations", cn.evals.Load())
	r.Add("skipped_open_clause_or_undefined", cn.skipped.Load())
	r.Add("accepted_by_both", cn.accepted.Load())
	r.Add("rejected_by_both", cn.rejected.Load())
	r.Add("sent_through_encoded_entry_point", cn.decoded.Load())
	r.Add("distinct_nontrivial_inputs", cn.evals.Load()-cn.skipped.Load())
	r.Outcomes["accepted"] = cn.accepted.Load()
	r.Outcomes["rejected"] = cn.rejected.Load()
	for i, n := range ref.C19SkipNames {
		if v := cn.skip[i].Load(); v > 0 {
			r.Outcomes[n] = v
		}
	}
	r.Extra["configurations"] = 2 * len(cfgs)
	r.Sample(map[string]any{"configuration": cfgs[len(cfgs)-1].String(), "precommits": "v0:b v1:a nonmember:c", "target": "a", "headers": "{b}"})
}
