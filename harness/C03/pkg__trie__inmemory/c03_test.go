//go:build verif

package inmemory

// C03: trie snapshots are isolated from one another.
// BFS over histories on a forest of up to 3 tries created by Snapshot(); ops on any trie
// (put/delete/clearPrefix/setVersion V1/hash/snapshot).  After every op EVERY trie of the
// forest must still have the contents and the spec root of its own model.

import (
	"github.com/ChainSafe/gossamer/internal/database"
	"bytes"
	"fmt"
	"strings"
	"testing"

	"github.com/ChainSafe/gossamer/internal/verifmc"
	"github.com/ChainSafe/gossamer/internal/verifmc/ref"
	"github.com/ChainSafe/gossamer/pkg/trie"
	"github.com/ChainSafe/gossamer/pkg/trie/node"
)

type c03T struct {
	*vTrieState
	// hashed[k]: the value of k was written while the trie was at V1 and is longer than 32 bytes, so
	// it is stored by hash.  Raising the version does not migrate values that are not written again
	// (as in Substrate), so a raised trie is a mix; the reference root takes the per-key flag.
	hashed map[string]bool
	// frozen: a snapshot has been taken from this trie.  Copy-on-write makes the *snapshot* the
	// writable side; the statement speaks of operations on snapshots seen "through the original",
	// so the original is only observed (hashed, read) from then on, never mutated.
	frozen bool
	// persisted: WriteDirty was run on this trie (once is enough: a second run changes nothing)
	persisted bool
}

func (c *c03T) sync() {
	for k := range c.hashed {
		if _, ok := c.m[k]; !ok {
			delete(c.hashed, k)
		}
	}
}

func (c *c03T) checkRoot() string {
	h, err := c.t.Hash()
	if err != nil {
		return "Hash: unexpected error " + err.Error()
	}
	want := ref.TrieRootMixed(c.m, func(k string, v []byte) bool { return c.hashed[k] })
	if !bytes.Equal(h[:], want) {
		return fmt.Sprintf("Hash: root %x, spec root %x for %s (hashed values: %v)", h[:], want, vMapString(c.m), c.hashed)
	}
	return ""
}

type c03Forest struct {
	ts   []*c03T
	soft []verifmc.Violation
}

type c03Op struct {
	i  int
	op vTrieOp // kind also: snapshot, setV1
}

func (o c03Op) Name() string { return fmt.Sprintf("t%d.%s", o.i, o.op.Name()) }

func c03Dump(f *c03Forest) []byte {
	var b bytes.Buffer
	ids := map[*node.Node]int{}
	var walk func(n *node.Node)
	walk = func(n *node.Node) {
		if n == nil {
			b.WriteString("_")
			return
		}
		if id, ok := ids[n]; ok {
			fmt.Fprintf(&b, "#%d", id)
			return
		}
		ids[n] = len(ids)
		val := "nil"
		if n.StorageValue != nil {
			val = fmt.Sprintf("%x", n.StorageValue)
		}
		fmt.Fprintf(&b, "%d(pk=%x v=%s mbh=%t ihv=%t d=%t mv=%d g=%d desc=%d", ids[n], n.PartialKey, val,
			n.MustBeHashed, n.IsHashedValue, n.Dirty, len(n.MerkleValue), n.Generation, n.Descendants)
		for i, c := range n.Children {
			if c != nil {
				fmt.Fprintf(&b, " %x:", i)
				walk(c)
			}
		}
		b.WriteString(")")
	}
	for i, s := range f.ts {
		fmt.Fprintf(&b, "T%d ver=%d gen=%d ", i, s.t.version, s.t.generation)
		walk(s.t.root)
		b.Write(s.m.Canon())
		fmt.Fprintf(&b, "%v frozen=%t\n", s.hashed, s.frozen)
	}
	return b.Bytes()
}

func TestVerif_C03(t *testing.T) {
	r := verifmc.NewReport("C03", "snapshot-forest", "model_checking")
	defer r.Write()
	maxTries := 3
	depth := verifmc.Pick(5, 8)
	r.Rule = fmt.Sprintf("BFS (depth %d) over histories on a forest of up to %d tries related by Snapshot (snapshots of snapshots included): put/delete/clearPrefix on keys 01,0100,0101 (from populated bases also 0102 and 10) with values 01 and a 40-byte value (inline in V0, hashed in V1; every second trie of the forest writes a different 40-byte value), raising any trie to V1, hashing any trie, and (from the populated bases) storing any trie with WriteDirty so that its nodes are clean; states deduplicated on the full private dump of all tries including node sharing; after every operation every trie of the forest must have the contents and the independent spec root of its own model", depth, maxTries)
	c03Run(r, "", depth, maxTries)
	// populated bases (a branch with a leaf and a sub-branch below it; a valued branch; hashed or not):
	// shapes that need 3-4 puts to build are then one step from the start
	dSeed := verifmc.Pick(4, 6)
	for _, seed := range []string{"leaf+subbranch", "valued-branch", "leaf+subbranch/hashed", "valued-branch/hashed"} {
		c03Run(r, seed, dSeed, maxTries)
	}
	r.Extra["depth_from_populated_bases"] = dSeed
}

var c03Seeds = map[string][]vTrieOp{
	"leaf+subbranch": {{kind: "put", k: []byte{0x01, 0x00}, v: []byte{0x01}}, {kind: "put", k: []byte{0x01, 0x01}, v: []byte{0x01}}, {kind: "put", k: []byte{0x10}, v: []byte{0x01}}},
	"valued-branch":  {{kind: "put", k: []byte{0x01}, v: vVal(0x40, 40)}, {kind: "put", k: []byte{0x01, 0x00}, v: []byte{0x01}}, {kind: "put", k: []byte{0x01, 0x01}, v: []byte{0x01}}, {kind: "put", k: []byte{0x10}, v: []byte{0x01}}},
}

// c03NullDB swallows what WriteDirty persists: the step only matters because it marks every node
// clean, which is the state of a block's trie after the node has stored it.
type c03NullDB struct{}
type c03NullBatch struct{}

func (c03NullDB) NewBatch() database.Batch     { return c03NullBatch{} }
func (c03NullBatch) Put(_, _ []byte) error     { return nil }
func (c03NullBatch) Del(_ []byte) error        { return nil }
func (c03NullBatch) Flush() error              { return nil }
func (c03NullBatch) Close() error              { return nil }
func (c03NullBatch) ValueSize() int            { return 0 }
func (c03NullBatch) Reset()                    {}

func c03Run(r *verifmc.Report, seed string, depth, maxTries int) {
	keys := [][]byte{{0x01}, {0x01, 0x00}, {0x01, 0x01}, {0x01, 0x02}, {0x10}}
	vals := [][]byte{{0x01}, vVal(0x40, 40)}
	if seed == "" {
		keys = keys[:3]
	}
	h := &verifmc.Hist[*c03Forest]{
		Fresh: func() *c03Forest {
			base := &c03T{&vTrieState{t: NewEmptyTrie(), m: ref.OMap{}, v: trie.V0}, map[string]bool{}, false, false}
			name := strings.TrimSuffix(seed, "/hashed")
			for _, o := range c03Seeds[name] {
				if d := vApplyTrieOp(base.vTrieState, o); d != "" {
					panic("seed: " + d)
				}
				base.hashed[string(o.k)] = false
			}
			if strings.HasSuffix(seed, "/hashed") {
				if _, err := base.t.Hash(); err != nil {
					panic(err)
				}
			}
			base.soft = nil
			return &c03Forest{ts: []*c03T{base}}
		},
		Ops: func(f *c03Forest) []verifmc.Op {
			var ops []verifmc.Op
			for i, s := range f.ts {
				if seed != "" && !s.persisted {
					// (from the populated bases only) the trie is stored as a block's state: all its nodes become clean
					ops = append(ops, c03Op{i, vTrieOp{kind: "persist"}})
				}
				if s.frozen {
					ops = append(ops, c03Op{i, vTrieOp{kind: "hash"}})
					if len(f.ts) < maxTries {
						ops = append(ops, c03Op{i, vTrieOp{kind: "snapshot"}})
					}
					continue
				}
				for _, k := range keys {
					for _, v := range vals {
						if len(v) > 32 && i%2 == 1 {
							// every second trie of the forest writes a DIFFERENT long value: a value stored by
							// hash is overwritten, in a snapshot, by another value stored by hash (and in a
							// snapshot of that snapshot by the first one again)
							v = vVal(0x41, 40)
						}
						ops = append(ops, c03Op{i, vTrieOp{kind: "put", k: k, v: v}})
					}
				}
				for _, k := range keys {
					if _, ok := s.m[string(k)]; ok {
						ops = append(ops, c03Op{i, vTrieOp{kind: "delete", k: k}})
					}
				}
				if len(s.m) > 0 {
					ops = append(ops, c03Op{i, vTrieOp{kind: "clearPrefix", k: []byte{0x01, 0x01}}})
				}
				ops = append(ops, c03Op{i, vTrieOp{kind: "hash"}})
				if s.v == trie.V0 {
					ops = append(ops, c03Op{i, vTrieOp{kind: "setV1"}})
				}
				if len(f.ts) < maxTries {
					ops = append(ops, c03Op{i, vTrieOp{kind: "snapshot"}})
				}
			}
			return ops
		},
		Apply: func(f *c03Forest, op verifmc.Op) string {
			o := op.(c03Op)
			s := f.ts[o.i]
			switch o.op.kind {
			case "snapshot":
				hc := map[string]bool{}
				for k, v := range s.hashed {
					hc[k] = v
				}
				f.ts = append(f.ts, &c03T{&vTrieState{t: s.t.Snapshot(), m: s.m.Clone(), v: s.v}, hc, false, false})
				s.frozen = true
				return ""
			case "persist":
				if err := s.t.WriteDirty(c03NullDB{}); err != nil {
					return "WriteDirty: unexpected error " + err.Error()
				}
				s.persisted = true
				return ""
			case "hash":
				// fills the Merkle-value caches of (possibly shared) nodes; compared in Check
				if _, err := s.t.Hash(); err != nil {
					return "Hash: unexpected error " + err.Error()
				}
				return ""
			case "setV1":
				s.t.SetVersion(trie.V1)
				s.v = trie.V1
				return ""
			}
			d := vApplyTrieOp(s.vTrieState, o.op)
			f.soft = append(f.soft, vDrainSoft(s.vTrieState)...)
			if o.op.kind == "put" {
				s.hashed[string(o.op.k)] = s.v == trie.V1 && len(o.op.v) > 32
			}
			s.sync()
			return d
		},
		Check: func(f *c03Forest) string {
			// every trie of the forest, not only the one just modified (isolation)
			for i, s := range f.ts {
				if d := vCheckContents(s.t, s.m); d != "" {
					return fmt.Sprintf("trie t%d: %s", i, d)
				}
			}
			for i, s := range f.ts {
				if d := s.checkRoot(); d != "" {
					return fmt.Sprintf("trie t%d: %s", i, d)
				}
			}
			r.Outcome(fmt.Sprintf("tries=%d", len(f.ts)))
			return ""
		},
		Canon: c03Dump,
		Soft: func(f *c03Forest) []verifmc.Violation {
			out := f.soft
			f.soft = nil
			return out
		},
		Sig: func(hist []verifmc.Op, desc string) string {
			last := hist[len(hist)-1].(c03Op)
			modified := fmt.Sprintf("trie t%d:", last.i)
			where := "other-trie"
			if len(desc) >= len(modified) && desc[:len(modified)] == modified {
				where = "same-trie"
			}
			kind := "contents"
			if bytes.Contains([]byte(desc), []byte("Hash:")) {
				kind = "root"
			}
			if len(desc) > 6 && desc[:6] == "panic:" {
				return last.op.kind + "->panic@" + verifmc.PanicSite(desc)
			}
			return fmt.Sprintf("%s->%s-of-%s-wrong", last.op.kind, kind, where)
		},
		Depth: depth,
	}
	h.Explore(r)
}
