//go:build verif

package state

// C27: slot equivocations are detected exactly.
//
// Explicit-state BFS over sequences of SlotState.CheckEquivocation(slotNow, slot, header, signer)
// calls on the real SlotState.  The explorer runs the real code over a map-backed
// database.Database (so that millions of replays are affordable); every distinct state that is
// reached is additionally replayed once, call by call, on the real in-memory Pebble database and
// the results and the final table contents must be identical (so the map-backed database is not
// part of the trusted base).
//
// Oracle 1 (literal part of the statement, no window arithmetic):
//   * a returned proof names the given signer and slot, carries the given header as second header
//     and, as first header, a header that was checked earlier in this history for the same slot by
//     the same signer and that differs from the given one;
//   * when every earlier check of that (slot, signer) used the identical header, no proof is returned.
// Oracle 2 (exact): a plain reference model of the retained window (map slot -> [(header, signer)],
//   first saved slot, retention 1000, pruning bound 2000) says for every call whether a proof is
//   due and which recorded header it must carry.

import (
	"bytes"
	"crypto/sha256"
	"encoding/binary"
	"errors"
	"fmt"
	"sort"
	"strings"
	"sync"
	"testing"

	"github.com/ChainSafe/gossamer/dot/types"
	"github.com/ChainSafe/gossamer/internal/database"
	"github.com/ChainSafe/gossamer/internal/verifmc"
	"github.com/ChainSafe/gossamer/lib/common"
	"github.com/ChainSafe/gossamer/pkg/scale"
)

// ---------------------------------------------------------------- map-backed database

type c27MemDB struct {
	mu sync.Mutex
	kv map[string][]byte
}

func c27NewMemDB() *c27MemDB { return &c27MemDB{kv: map[string][]byte{}} }

func (d *c27MemDB) Get(key []byte) ([]byte, error) {
	d.mu.Lock()
	defer d.mu.Unlock()
	v, ok := d.kv[string(key)]
	if !ok {
		return nil, database.ErrNotFound
	}
	return append([]byte{}, v...), nil
}
func (d *c27MemDB) Has(key []byte) (bool, error) {
	d.mu.Lock()
	defer d.mu.Unlock()
	_, ok := d.kv[string(key)]
	return ok, nil
}
func (d *c27MemDB) Put(key, value []byte) error {
	d.mu.Lock()
	defer d.mu.Unlock()
	d.kv[string(key)] = append([]byte{}, value...)
	return nil
}
func (d *c27MemDB) Del(key []byte) error {
	d.mu.Lock()
	defer d.mu.Unlock()
	delete(d.kv, string(key))
	return nil
}
func (d *c27MemDB) Flush() error { return nil }
func (d *c27MemDB) Close() error { return nil }
func (d *c27MemDB) Path() string { return "" }
func (d *c27MemDB) NewBatch() database.Batch {
	return &c27MemBatch{db: d}
}
func (d *c27MemDB) NewIterator() (database.Iterator, error) {
	return nil, errors.New("c27MemDB: iterators are not provided")
}
func (d *c27MemDB) NewPrefixIterator([]byte) (database.Iterator, error) {
	return nil, errors.New("c27MemDB: iterators are not provided")
}

// dump lists the contents in key order.
func (d *c27MemDB) dump() []byte {
	d.mu.Lock()
	defer d.mu.Unlock()
	keys := make([]string, 0, len(d.kv))
	for k := range d.kv {
		keys = append(keys, k)
	}
	sort.Strings(keys)
	var b bytes.Buffer
	for _, k := range keys {
		fmt.Fprintf(&b, "%x=%x;", k, d.kv[k])
	}
	return b.Bytes()
}

type c27BatchOp struct {
	del  bool
	k, v []byte
}

// c27MemBatch applies its operations in order, atomically, at Flush (as a Pebble batch commit does).
type c27MemBatch struct {
	db  *c27MemDB
	ops []c27BatchOp
}

func (b *c27MemBatch) Put(key, value []byte) error {
	b.ops = append(b.ops, c27BatchOp{k: append([]byte{}, key...), v: append([]byte{}, value...)})
	return nil
}
func (b *c27MemBatch) Del(key []byte) error {
	b.ops = append(b.ops, c27BatchOp{del: true, k: append([]byte{}, key...)})
	return nil
}
func (b *c27MemBatch) Flush() error {
	b.db.mu.Lock()
	defer b.db.mu.Unlock()
	for _, o := range b.ops {
		if o.del {
			delete(b.db.kv, string(o.k))
		} else {
			b.db.kv[string(o.k)] = o.v
		}
	}
	b.ops = nil
	return nil
}
func (b *c27MemBatch) ValueSize() int { return len(b.ops) }
func (b *c27MemBatch) Reset()         { b.ops = nil }
func (b *c27MemBatch) Close() error   { return nil }

// ---------------------------------------------------------------- alphabet

const (
	c27Retention = 1000 // "we keep at least this number of slots"
	c27Pruning   = 2000 // "we prune slots when they reach this number"
)

var c27Signers = func() []types.AuthorityID {
	var a, b types.AuthorityID
	for i := range a {
		a[i] = byte(0xA0 + i%7)
		b[i] = byte(0xB0 + i%5)
	}
	// differ in the last byte only as well
	b2 := a
	b2[len(b2)-1] ^= 1
	return []types.AuthorityID{a, b2, b}
}()

func c27Hash(b byte) common.Hash {
	var h common.Hash
	for i := range h {
		h[i] = b
	}
	return h
}

// c27Headers: realistic headers with a BABE pre-runtime digest and a seal (two that differ only in
// the seal, i.e. the same block sealed twice is NOT what they are: the seal is part of the hash),
// and a header without any digest.
var c27Headers = func() []*types.Header {
	mk := func(parent byte, number uint, pre []byte, seal []byte) *types.Header {
		d := types.NewDigest()
		if pre != nil {
			if err := d.Add(types.PreRuntimeDigest{ConsensusEngineID: types.BabeEngineID, Data: pre}); err != nil {
				panic(err)
			}
		}
		if seal != nil {
			if err := d.Add(types.SealDigest{ConsensusEngineID: types.BabeEngineID, Data: seal}); err != nil {
				panic(err)
			}
		}
		h := types.NewHeader(c27Hash(parent), c27Hash(0x51), c27Hash(0xE1), number, d)
		h.Hash() // cached before the header is shared between workers
		return h
	}
	pre := []byte{2, 0, 0, 0, 0, 5, 0, 0, 0, 0, 0, 0, 0} // secondary plain pre-digest: authority 0, slot 5
	sealA := bytes.Repeat([]byte{0x11}, 64)
	sealB := bytes.Repeat([]byte{0x22}, 64)
	return []*types.Header{
		mk(0x01, 7, pre, sealA),
		mk(0x01, 7, pre, sealB), // differs from the first in the seal only
		mk(0x02, 8, nil, nil),   // no digest at all
	}
}()

type c27Op struct {
	now, slot   uint64
	hdr, signer int
}

func (o c27Op) Name() string {
	return fmt.Sprintf("check(now=%d,slot=%d,h%d,signer%c)", o.now, o.slot, o.hdr+1, 'A'+o.signer)
}

// ---------------------------------------------------------------- reference model

type c27Entry struct{ hdr, signer int }

type c27Model struct {
	slots    map[uint64][]c27Entry
	hasFirst bool
	first    uint64
}

func c27SatSub(a, b uint64) uint64 {
	if a < b {
		return 0
	}
	return a - b
}

// check returns (proof due, recorded header it must carry, class of the call).
func (m *c27Model) check(o c27Op) (bool, int, string) {
	if c27SatSub(o.now, o.slot) > c27Retention {
		return false, -1, "too-old"
	}
	first := o.slot
	if m.hasFirst {
		first = m.first
	}
	if o.now < first {
		return false, -1, "before-first-saved"
	}
	for _, e := range m.slots[o.slot] {
		if e.signer == o.signer {
			if e.hdr != o.hdr {
				return true, e.hdr, "equivocation"
			}
			return false, -1, "duplicate"
		}
	}
	class := "recorded"
	newFirst := first
	if o.now-first >= c27Pruning {
		newFirst = c27SatSub(o.now, c27Retention)
		n := 0
		for s := range m.slots {
			if s >= first && s < newFirst {
				delete(m.slots, s)
				n++
			}
		}
		class = fmt.Sprintf("recorded+pruned(%d slots)", n)
	}
	m.slots[o.slot] = append(m.slots[o.slot], c27Entry{o.hdr, o.signer})
	m.hasFirst, m.first = true, newFirst
	return false, -1, class
}

func (m *c27Model) canon() string {
	var ss []uint64
	for s := range m.slots {
		ss = append(ss, s)
	}
	sort.Slice(ss, func(i, j int) bool { return ss[i] < ss[j] })
	var b strings.Builder
	fmt.Fprintf(&b, "first=%t/%d", m.hasFirst, m.first)
	for _, s := range ss {
		fmt.Fprintf(&b, " %d:%v", s, m.slots[s])
	}
	return b.String()
}

// ---------------------------------------------------------------- state bundle

type c27Result struct {
	proof *types.BabeEquivocationProof
	err   error
}

type c27State struct {
	db    *c27MemDB
	ss    *SlotState
	m     *c27Model
	calls []c27Op
	class string // class of the last call (model's view)
}

func c27Fresh() *c27State {
	db := c27NewMemDB()
	return &c27State{db: db, ss: NewSlotState(db), m: &c27Model{slots: map[uint64][]c27Entry{}}}
}

func c27SameHeader(got *types.Header, want *types.Header) string {
	if got.ParentHash != want.ParentHash || got.Number != want.Number || got.StateRoot != want.StateRoot ||
		got.ExtrinsicsRoot != want.ExtrinsicsRoot || len(got.Digest) != len(want.Digest) {
		return "fields differ"
	}
	cp := types.Header{ParentHash: got.ParentHash, Number: got.Number, StateRoot: got.StateRoot,
		ExtrinsicsRoot: got.ExtrinsicsRoot, Digest: got.Digest}
	eg, err1 := scale.Marshal(cp)
	ew, err2 := scale.Marshal(types.Header{ParentHash: want.ParentHash, Number: want.Number, StateRoot: want.StateRoot,
		ExtrinsicsRoot: want.ExtrinsicsRoot, Digest: want.Digest})
	if err1 != nil || err2 != nil {
		return fmt.Sprintf("cannot encode: %v %v", err1, err2)
	}
	if !bytes.Equal(eg, ew) {
		return "encodings differ"
	}
	if got.Hash() != want.Hash() {
		return "hashes differ"
	}
	return ""
}

func c27WhichHeader(h *types.Header) string {
	for i, w := range c27Headers {
		if c27SameHeader(h, w) == "" {
			return fmt.Sprintf("h%d", i+1)
		}
	}
	return "an unknown header"
}

// c27Apply performs one check on the real SlotState and on the model and compares the verdicts.
func c27Apply(s *c27State, o c27Op) string {
	proof, err := s.ss.CheckEquivocation(o.now, o.slot, c27Headers[o.hdr], c27Signers[o.signer])
	prior := s.calls
	s.calls = append(s.calls, o)
	due, first, class := s.m.check(o)
	s.class = class
	if err != nil {
		return fmt.Sprintf("CheckEquivocation:error|%s returned error %v", o.Name(), err)
	}
	// ---- oracle 1: literal clauses
	if proof != nil {
		if proof.Offender != c27Signers[o.signer] || proof.Slot != o.slot {
			return fmt.Sprintf("CheckEquivocation:proof-names-wrong-slot-or-offender|%s: proof for slot %d offender %x", o.Name(), proof.Slot, proof.Offender[:4])
		}
		if d := c27SameHeader(&proof.SecondHeader, c27Headers[o.hdr]); d != "" {
			return fmt.Sprintf("CheckEquivocation:proof-second-header-is-not-the-checked-header|%s: second header is %s (%s)", o.Name(), c27WhichHeader(&proof.SecondHeader), d)
		}
		sameSeen, otherSeen, firstSeen := false, false, false
		for _, p := range prior {
			if p.slot == o.slot && p.signer == o.signer {
				if p.hdr == o.hdr {
					sameSeen = true
				} else {
					otherSeen = true
					if c27SameHeader(&proof.FirstHeader, c27Headers[p.hdr]) == "" {
						firstSeen = true
					}
				}
			}
		}
		if !otherSeen {
			if sameSeen {
				return fmt.Sprintf("CheckEquivocation:identical-recheck-yields-proof|%s: only this very header was ever checked for the slot and signer, yet a proof (first=%s) was returned", o.Name(), c27WhichHeader(&proof.FirstHeader))
			}
			return fmt.Sprintf("CheckEquivocation:proof-without-any-earlier-header|%s: nothing was checked before for this slot and signer, yet a proof (first=%s) was returned", o.Name(), c27WhichHeader(&proof.FirstHeader))
		}
		if !firstSeen {
			return fmt.Sprintf("CheckEquivocation:proof-first-header-never-checked-for-slot-and-signer|%s: first header is %s", o.Name(), c27WhichHeader(&proof.FirstHeader))
		}
	}
	// ---- oracle 2: exact, against the window model
	switch {
	case due && proof == nil:
		return fmt.Sprintf("CheckEquivocation:missed-equivocation|%s: signer already has h%d recorded for slot %d inside the window (%s), no proof returned", o.Name(), first+1, o.slot, s.m.canon())
	case !due && proof != nil:
		return fmt.Sprintf("CheckEquivocation:spurious-proof(%s)|%s: proof (first=%s) returned although the model (%s) holds no different header of the signer for the slot in the window", class, o.Name(), c27WhichHeader(&proof.FirstHeader), s.m.canon())
	case due:
		if d := c27SameHeader(&proof.FirstHeader, c27Headers[first]); d != "" {
			return fmt.Sprintf("CheckEquivocation:proof-carries-wrong-first-header|%s: first header is %s, recorded one is h%d (%s)", o.Name(), c27WhichHeader(&proof.FirstHeader), first+1, d)
		}
	}
	return ""
}

// c27DBSlots decodes which slot keys and which first-saved-slot the table holds (informational).
func c27DBSlots(db *c27MemDB) string {
	db.mu.Lock()
	defer db.mu.Unlock()
	var ss []uint64
	first := "first=false/0"
	pm := slotTablePrefix + string(slotHeaderMapKey)
	pf := slotTablePrefix + string(slotHeaderStartKey)
	for k, v := range db.kv {
		switch {
		case k == pf && len(v) == 8:
			first = fmt.Sprintf("first=true/%d", binary.LittleEndian.Uint64(v))
		case strings.HasPrefix(k, pm) && len(k) == len(pm)+8:
			ss = append(ss, binary.LittleEndian.Uint64([]byte(k[len(pm):])))
		default:
			ss = append(ss, ^uint64(0))
		}
	}
	sort.Slice(ss, func(i, j int) bool { return ss[i] < ss[j] })
	return fmt.Sprintf("%s %v", first, ss)
}

func (m *c27Model) slotsString() string {
	var ss []uint64
	for s := range m.slots {
		ss = append(ss, s)
	}
	sort.Slice(ss, func(i, j int) bool { return ss[i] < ss[j] })
	return fmt.Sprintf("first=%t/%d %v", m.hasFirst, m.first, ss)
}

func c27PebbleDump(db *database.PebbleDB) ([]byte, [][]byte, error) {
	it, err := db.NewIterator()
	if err != nil {
		return nil, nil, err
	}
	defer it.Release()
	var b bytes.Buffer
	var keys [][]byte
	for ok := it.First(); ok; ok = it.Next() {
		fmt.Fprintf(&b, "%x=%x;", it.Key(), it.Value())
		keys = append(keys, append([]byte{}, it.Key()...))
	}
	return b.Bytes(), keys, nil
}

// c27Pebble replays the calls on the real in-memory Pebble and compares every result and the final
// table contents with what the map-backed run produced.
func c27Pebble(calls []c27Op, wantDump []byte, wantProofs []bool) string {
	db, err := database.NewPebble("", true) // a fresh instance per replay (reusing cleared instances measured slower)
	if err != nil {
		return "cannot open in-memory pebble: " + err.Error()
	}
	ss := NewSlotState(db)
	for i, o := range calls {
		proof, err := ss.CheckEquivocation(o.now, o.slot, c27Headers[o.hdr], c27Signers[o.signer])
		if err != nil {
			db.Close()
			return fmt.Sprintf("pebble: %s: error %v", o.Name(), err)
		}
		if (proof != nil) != wantProofs[i] {
			db.Close()
			return fmt.Sprintf("pebble: %s: proof=%t, map-backed run proof=%t", o.Name(), proof != nil, wantProofs[i])
		}
	}
	dump, keys, err := c27PebbleDump(db)
	if err != nil {
		db.Close()
		return "pebble iterator: " + err.Error()
	}
	_ = keys
	db.Close()
	if !bytes.Equal(dump, wantDump) {
		return fmt.Sprintf("pebble table contents differ from the map-backed run after %d calls", len(calls))
	}
	return ""
}

func TestVerif_C27(t *testing.T) {
	r := verifmc.NewReport("C27", "slot-equivocation", "model_checking")
	defer r.Write()
	// quick: one pruning round (slots up to 1006, slotNow up to 2006), 2 signers, depth 4.
	// thorough: pass 1 = the quick alphabet to depth 5; pass 2 = slot 2006 / slotNow 3006 added (second
	// pruning round from first-saved 1005/1006) and a third signer, to depth 4.
	type c27Pass struct {
		slots, nows []uint64
		nSigners    int
		depth       int
	}
	small := c27Pass{[]uint64{5, 6, 1005, 1006}, []uint64{5, 6, 1004, 1005, 1006, 2004, 2005, 2006}, 2, 4}
	passes := []c27Pass{small}
	if verifmc.Thorough() {
		small.depth = 5
		passes = []c27Pass{small, {[]uint64{5, 6, 1005, 1006, 2006}, []uint64{5, 6, 1004, 1005, 1006, 2004, 2005, 2006, 3006}, 3, 4}}
	}
	nHeaders := 3
	r.Rule = "BFS over all sequences of CheckEquivocation calls on the real SlotState, per pass: slotNow x slot x 3 headers (two differing only in the seal, one without digest) x signers (two differing in one byte); a call is non-trivial when it passes both window gates; every call is compared with a window model (retention 1000, pruning 2000) and with the literal clauses of the statement; every distinct state is re-executed once on the real in-memory Pebble and results + table contents compared; passes:"
	r.Assumption("exploration runs the real SlotState over a map-backed database.Database; every distinct reached state is re-validated on the real in-memory Pebble (results and table contents)")
	var pebbleRuns int64
	for pi, pass := range passes {
		slots, nows, nSigners, depth := pass.slots, pass.nows, pass.nSigners, pass.depth
		r.Rule += fmt.Sprintf(" [%d] <=%d calls, slotNow in %v, slot in %v, %d signers;", pi+1, depth, nows, slots, nSigners)
		var ops []verifmc.Op
		for _, now := range nows {
			for _, sl := range slots {
				for h := 0; h < nHeaders; h++ {
					for g := 0; g < nSigners; g++ {
						ops = append(ops, c27Op{now, sl, h, g})
					}
				}
			}
		}
		var seenMu sync.Mutex
		seen := map[[32]byte]struct{}{}
		h := &verifmc.Hist[*c27State]{
			Fresh: c27Fresh,
			Ops:   func(*c27State) []verifmc.Op { return ops },
			Apply: func(s *c27State, op verifmc.Op) string { return c27Apply(s, op.(c27Op)) },
			Check: func(s *c27State) string {
				r.Outcome(s.class)
				dbs, ms := c27DBSlots(s.db), s.m.slotsString()
				if dbs == ms {
					r.Outcome("table-keys==model-slots")
				} else {
					r.Outcome("table-keys!=model-slots")
				}
				r.Distinct(ms)
				// once per distinct state: the same calls on the real Pebble
				dump := s.db.dump()
				key := sha256.Sum256(append(append([]byte{}, dump...), s.m.canon()...))
				seenMu.Lock()
				_, ok := seen[key]
				if !ok {
					seen[key] = struct{}{}
					pebbleRuns++
				}
				seenMu.Unlock()
				if !ok {
					// recompute the proof verdicts of the map-backed run from the model (they agreed so far)
					m := &c27Model{slots: map[uint64][]c27Entry{}}
					proofs := make([]bool, len(s.calls))
					for i, o := range s.calls {
						proofs[i], _, _ = m.check(o)
					}
					if d := c27Pebble(s.calls, dump, proofs); d != "" {
						return "harness:pebble-and-map-backed-runs-differ|" + d
					}
				}
				return ""
			},
			Canon: func(s *c27State) []byte {
				return append(append(s.db.dump(), '|'), s.m.canon()...)
			},
			Sig: func(hist []verifmc.Op, desc string) string {
				if i := strings.Index(desc, "|"); i > 0 && !strings.HasPrefix(desc, "panic") {
					return desc[:i]
				}
				if strings.HasPrefix(desc, "panic") {
					return "CheckEquivocation:panic:" + verifmc.PanicSite(desc)
				}
				return "CheckEquivocation:wrong-result"
			},
			Depth: depth,
		}
		h.Explore(r)
		if r.Expired() {
			break
		}
	}
	r.Add("states_revalidated_on_pebble", pebbleRuns)
}
