//go:build verif

package sync

// C31 (part "serve"): a served response to any request is a gap-free chain starting at the
// requested block, in the requested direction, no longer than the requested and protocol maxima,
// with exactly the requested fields.
//
// Scenario = a generated tree held by a REAL dot/state.BlockState (in-memory Pebble):
//   main chain of L blocks over genesis, optionally one fork (attached to main block f, k blocks
//   long; k may exceed the main tail, then the fork is the best chain), optionally a finalised
//   prefix (main block F finalised through the real SetFinalisedHash: blocks <= F move to the
//   database, forks below F are pruned).
// Request alphabet = start (by number / by hash) x direction x Max x field mask, all served by the
// real SyncService.CreateBlockResponse.
// Oracle = the generated tree only (hash -> number, parent, unique state root, body, stored
// receipt / message queue / justification); it never asks the BlockState anything.

import (
	"bytes"
	"fmt"
	"sort"
	gosync "sync"
	"testing"
	"time"

	"github.com/ChainSafe/gossamer/dot/network/messages"
	"github.com/ChainSafe/gossamer/dot/state"
	"github.com/ChainSafe/gossamer/dot/types"
	"github.com/ChainSafe/gossamer/internal/database"
	"github.com/ChainSafe/gossamer/internal/verifmc"
	"github.com/ChainSafe/gossamer/lib/common"
	"github.com/libp2p/go-libp2p/core/peer"

	"encoding/json"
)

type c31NoTelemetry struct{}

func (c31NoTelemetry) SendMessage(json.Marshaler) {}

type c31Node struct {
	hash    common.Hash
	parent  common.Hash
	number  uint
	label   uint64
	header  *types.Header
	body    *types.Body
	receipt []byte // nil = not stored
	mq      []byte
	just    []byte
	onFork  bool
	alive   bool // false once pruned by finalisation
}

type c31Scenario struct {
	L, f, k, F int // f = -1: no fork
}

func (s c31Scenario) String() string {
	return fmt.Sprintf("L=%d fork(at=%d,len=%d) finalised=%d", s.L, s.f, s.k, s.F)
}

type c31World struct {
	sc      c31Scenario
	bs      *state.BlockState
	db      database.Database
	nodes   map[common.Hash]*c31Node
	genesis *c31Node
	main    []*c31Node // main[i] has number i (main[0] = genesis)
	fork    []*c31Node // fork[j] has number f+1+j
	maxNum  uint       // highest number of an alive block
}

func c31BodyFor(label uint64) *types.Body {
	switch label % 3 {
	case 0:
		return types.NewBody([]types.Extrinsic{})
	case 1:
		return types.NewBody([]types.Extrinsic{{byte(label), 1, 2}})
	default:
		return types.NewBody([]types.Extrinsic{{byte(label)}, {0xaa, byte(label >> 8), 0xbb, 0xcc}})
	}
}

func c31Build(sc c31Scenario) (*c31World, error) {
	db, err := database.LoadDatabase("c31-mem", true)
	if err != nil {
		return nil, err
	}
	w := &c31World{sc: sc, db: db, nodes: map[common.Hash]*c31Node{}}
	gh := types.NewHeader(common.Hash{}, c31Salt32(0x5e, 0), c31Salt32(0xe7, 0), 0, types.NewDigest())
	gh.Hash()
	bs, err := state.NewBlockStateFromGenesis(db, state.NewTries(), gh, c31NoTelemetry{})
	if err != nil {
		db.Close()
		return nil, err
	}
	w.bs = bs
	w.genesis = &c31Node{hash: gh.Hash(), number: 0, header: gh, body: types.NewBody([]types.Extrinsic{}), alive: true}
	w.nodes[w.genesis.hash] = w.genesis
	w.main = []*c31Node{w.genesis}
	t0 := time.Unix(1_700_000_000, 0)
	add := func(parent *c31Node, label uint64, onFork bool) (*c31Node, error) {
		h := c31MakeHeader(parent.hash, parent.number+1, label, c31Salt32(0x5e, label))
		n := &c31Node{hash: h.Hash(), parent: parent.hash, number: parent.number + 1, label: label, header: h,
			body: c31BodyFor(label), onFork: onFork, alive: true}
		blk := &types.Block{Header: *h, Body: *n.body}
		// arrival times are owned: strictly increasing in creation order
		if err := bs.AddBlockWithArrivalTime(blk, t0.Add(time.Duration(label)*time.Second)); err != nil {
			return nil, fmt.Errorf("AddBlock #%d: %w", n.number, err)
		}
		if label%3 == 0 {
			n.receipt = []byte{0x7e, byte(label)}
			if err := bs.SetReceipt(n.hash, n.receipt); err != nil {
				return nil, err
			}
		}
		if label%4 == 1 {
			n.mq = []byte{0x3a, byte(label), byte(label >> 8)}
			if err := bs.SetMessageQueue(n.hash, n.mq); err != nil {
				return nil, err
			}
		}
		if label%5 == 2 {
			n.just = []byte{0x1a, byte(label), 9, 9}
			if err := bs.SetJustification(n.hash, n.just); err != nil {
				return nil, err
			}
		}
		w.nodes[n.hash] = n
		return n, nil
	}
	for i := 1; i <= sc.L; i++ {
		n, err := add(w.main[i-1], uint64(i), false)
		if err != nil {
			w.close()
			return nil, err
		}
		w.main = append(w.main, n)
	}
	if sc.f >= 0 {
		p := w.main[sc.f]
		for j := 0; j < sc.k; j++ {
			n, err := add(p, uint64(10_000+sc.f+1+j), true)
			if err != nil {
				w.close()
				return nil, err
			}
			w.fork = append(w.fork, n)
			p = n
		}
	}
	if sc.F > 0 {
		if err := bs.SetFinalisedHash(w.main[sc.F].hash, 1, 0); err != nil {
			w.close()
			return nil, fmt.Errorf("SetFinalisedHash: %w", err)
		}
		// the harness' own notion of pruning: blocks that do not descend from main[F] and are not
		// its ancestors are gone (that is: a fork attached strictly below F)
		if sc.f >= 0 && sc.f < sc.F {
			for _, n := range w.fork {
				n.alive = false
			}
		}
	}
	for _, n := range w.nodes {
		if n.alive && n.number > w.maxNum {
			w.maxNum = n.number
		}
	}
	return w, nil
}

func (w *c31World) close() { _ = w.db.Close() }

type c31Start struct {
	name   string
	byHash bool
	num    uint
	hash   common.Hash
}

func (w *c31World) starts() []c31Start {
	var out []c31Start
	seenN := map[uint]bool{}
	addN := func(n uint) {
		if !seenN[n] {
			seenN[n] = true
			out = append(out, c31Start{name: fmt.Sprintf("n%d", n), num: n})
		}
	}
	for _, n := range []uint{0, 1, 2, 3, 126, 127, 128, 129, 130, 131} {
		addN(n)
	}
	best := w.maxNum
	for _, d := range []int{-129, -128, -127, -1, 0, 1, 2} {
		if int(best)+d >= 0 {
			addN(uint(int(best) + d))
		}
	}
	addN(uint(w.sc.L / 2))
	addN(uint(w.sc.L))
	if w.sc.F > 0 {
		addN(uint(w.sc.F))
		addN(uint(w.sc.F + 1))
	}
	addN(1<<32 - 1)
	seenH := map[common.Hash]bool{}
	addH := func(name string, n *c31Node) {
		if n != nil && !seenH[n.hash] {
			seenH[n.hash] = true
			out = append(out, c31Start{name: name, byHash: true, hash: n.hash})
		}
	}
	at := func(list []*c31Node, i int) *c31Node {
		if i >= 0 && i < len(list) {
			return list[i]
		}
		return nil
	}
	addH("genesis", w.genesis)
	for _, i := range []int{1, 2, w.sc.L / 2, w.sc.L - 1, w.sc.L, 127, 128, 129, 130, w.sc.L - 127, w.sc.L - 128, w.sc.L - 129, w.sc.F, w.sc.F + 1, w.sc.f, w.sc.f + 1} {
		addH(fmt.Sprintf("main%d", i), at(w.main, i))
	}
	for _, j := range []int{0, 1, len(w.fork) / 2, len(w.fork) - 1, 127, 128, 129} {
		addH(fmt.Sprintf("fork+%d", j), at(w.fork, j))
	}
	out = append(out, c31Start{name: "unknown", byHash: true, hash: c31Salt32(0xdd, 77)})
	return out
}

var c31Maxes = []struct {
	name string
	v    *uint32
}{
	{"nil", nil}, {"0", c31U32(0)}, {"1", c31U32(1)}, {"2", c31U32(2)}, {"3", c31U32(3)},
	{"127", c31U32(127)}, {"128", c31U32(128)}, {"129", c31U32(129)}, {"2^32-1", c31U32(1<<32 - 1)},
}

func c31U32(v uint32) *uint32 { return &v }

func c31Masks() []byte {
	var m []byte
	for i := 0; i <= 31; i++ {
		m = append(m, byte(i))
	}
	return append(m, 32, 33, 255)
}

// c31InTier: thorough = full product Max x mask.  quick = (every Max x masks {1,2,19,31,32}) united
// with (Max {1,2,3} x every mask): the quick tier factorises the product, the thorough tier does not.
func c31InTier(maxName string, mask byte) bool {
	if verifmc.Thorough() {
		return true
	}
	switch mask {
	case 1, 2, 19, 31, 32:
		return true
	}
	return maxName == "1" || maxName == "2" || maxName == "3"
}

func c31DirName(d messages.SyncDirection) string {
	switch d {
	case messages.Ascending:
		return "asc"
	case messages.Descending:
		return "desc"
	}
	return "dir?"
}

// c31CheckResponse evaluates the statement on one served response.  Returns sig, desc ("" = holds)
// and an outcome class.
func (w *c31World) checkResponse(st c31Start, dir messages.SyncDirection, mx *uint32, mask byte,
	bds []*types.BlockData) (sig, desc, class string) {
	by := "number"
	if st.byHash {
		by = "hash"
	}
	pre := "serve:" + c31DirName(dir) + ":" + by
	limit := uint(messages.MaxBlocksInResponse)
	if mx != nil && uint(*mx) < limit {
		limit = uint(*mx)
	}
	n := uint(len(bds))
	if n > limit {
		shape := "longer-than-max"
		if n == limit+1 {
			shape = "one-more-than-max"
		}
		return pre + ":" + shape, fmt.Sprintf("%d blocks served, limit min(Max,128)=%d", n, limit), ""
	}
	if n == 0 {
		if limit == 0 {
			return "", "", "empty:max0"
		}
		if !st.byHash && dir == messages.Descending && st.num > w.maxNum {
			// the requested block does not exist; the statement does not say what to serve
			return "", "", "empty:desc-start-above-best"
		}
		if !st.byHash && st.num == 0 {
			return pre + "0:empty-response", "request by number 0 answered with an empty response and no error", ""
		}
		return pre + ":empty-response", "empty response (no error) although Max >= 1", ""
	}
	ns := make([]*c31Node, n)
	for i, bd := range bds {
		if bd == nil {
			return pre + ":nil-block", fmt.Sprintf("block %d of the response is nil", i), ""
		}
		nd := w.nodes[bd.Hash]
		if nd == nil || !nd.alive {
			return pre + ":unknown-block", fmt.Sprintf("block %d of the response has hash %s which is not a live block of the chain", i, bd.Hash.Short()), ""
		}
		ns[i] = nd
	}
	// starts at the requested block
	class = "served"
	if st.byHash {
		if ns[0].hash != st.hash {
			return pre + ":wrong-start", fmt.Sprintf("first block is #%d %s, requested hash %s", ns[0].number, ns[0].hash.Short(), st.hash.Short()), ""
		}
	} else if ns[0].number != st.num {
		switch {
		case st.num == 0 && dir == messages.Ascending && ns[0].number == 1:
			return pre + "0:starts-at-1", "ascending request from number 0 is answered starting at block 1 (genesis not served)", ""
		case dir == messages.Descending && st.num > w.maxNum:
			// the requested block does not exist; the statement does not say what to serve
			class = "served:desc-start-above-best-clamped"
		default:
			return pre + ":wrong-start", fmt.Sprintf("first block is #%d, requested number %d", ns[0].number, st.num), ""
		}
	}
	// gap-free, hash-linked, in the requested direction
	for i := 0; i+1 < len(ns); i++ {
		fwd := ns[i+1].parent == ns[i].hash && ns[i+1].number == ns[i].number+1
		bwd := ns[i].parent == ns[i+1].hash && ns[i].number == ns[i+1].number+1
		okLink := fwd
		if dir == messages.Descending {
			okLink = bwd
		}
		if !okLink {
			shape := "gap"
			if fwd || bwd {
				shape = "wrong-direction"
			}
			return pre + ":" + shape, fmt.Sprintf("blocks %d (#%d %s) and %d (#%d %s) are not linked in the requested direction",
				i, ns[i].number, ns[i].hash.Short(), i+1, ns[i+1].number, ns[i+1].hash.Short()), ""
		}
	}
	// exactly the requested fields
	for i, bd := range bds {
		nd := ns[i]
		if mask&messages.RequestedDataHeader != 0 {
			if bd.Header == nil {
				return "serve:fields:header-missing", fmt.Sprintf("block %d (#%d): header requested, not served", i, nd.number), ""
			}
			if bd.Header.ParentHash != nd.parent || bd.Header.Number != nd.number || bd.Header.StateRoot != nd.header.StateRoot ||
				bd.Header.ExtrinsicsRoot != nd.header.ExtrinsicsRoot || len(bd.Header.Digest) != len(nd.header.Digest) {
				return "serve:fields:header-wrong-content", fmt.Sprintf("block %d (#%d): header of another block", i, nd.number), ""
			}
		} else if bd.Header != nil {
			return "serve:fields:header-unrequested", fmt.Sprintf("block %d (#%d): header served, not requested (mask %d)", i, nd.number, mask), ""
		}
		if mask&messages.RequestedDataBody != 0 {
			if bd.Body == nil {
				return "serve:fields:body-missing", fmt.Sprintf("block %d (#%d): body requested, not served", i, nd.number), ""
			}
			if !c31SameBody(bd.Body, nd.body) {
				return "serve:fields:body-wrong-content", fmt.Sprintf("block %d (#%d): body differs from the stored one", i, nd.number), ""
			}
		} else if bd.Body != nil {
			return "serve:fields:body-unrequested", fmt.Sprintf("block %d (#%d): body served, not requested (mask %d)", i, nd.number, mask), ""
		}
		for _, fl := range []struct {
			name   string
			bit    byte
			got    *[]byte
			stored []byte
		}{
			{"receipt", messages.RequestedDataReceipt, bd.Receipt, nd.receipt},
			{"message-queue", messages.RequestedDataMessageQueue, bd.MessageQueue, nd.mq},
			{"justification", messages.RequestedDataJustification, bd.Justification, nd.just},
		} {
			switch {
			case mask&fl.bit == 0 && fl.got != nil:
				return "serve:fields:" + fl.name + "-unrequested", fmt.Sprintf("block %d (#%d): %s served, not requested (mask %d)", i, nd.number, fl.name, mask), ""
			case mask&fl.bit != 0 && fl.stored != nil && fl.got == nil:
				return "serve:fields:" + fl.name + "-missing", fmt.Sprintf("block %d (#%d): %s requested and stored, not served", i, nd.number, fl.name), ""
			case mask&fl.bit != 0 && fl.stored == nil && fl.got != nil:
				return "serve:fields:" + fl.name + "-invented", fmt.Sprintf("block %d (#%d): %s served but none is stored", i, nd.number, fl.name), ""
			case mask&fl.bit != 0 && fl.stored != nil && !bytes.Equal(*fl.got, fl.stored):
				return "serve:fields:" + fl.name + "-wrong-content", fmt.Sprintf("block %d (#%d): %s differs from the stored one", i, nd.number, fl.name), ""
			}
		}
	}
	switch {
	case n == limit:
		class += ":full"
	default:
		class += ":short"
	}
	for _, nd := range ns {
		if nd.onFork {
			class += ":touches-fork"
			break
		}
	}
	if w.sc.F > 0 && ns[0].number <= uint(w.sc.F) != (ns[len(ns)-1].number <= uint(w.sc.F)) {
		class += ":crosses-finalised"
	}
	return "", "", class
}

func c31SameBody(a, b *types.Body) bool {
	if len(*a) != len(*b) {
		return false
	}
	for i := range *a {
		if !bytes.Equal((*a)[i], (*b)[i]) {
			return false
		}
	}
	return true
}

func c31ErrClass(err error) string {
	s := err.Error()
	for _, k := range []string{"invalid requested data", "invalid request direction", "start number is higher", "failed to get start block",
		"not on the same chain", "failed to find descendant", "retrieving range", "getting end block", "cannot get block", "start greater than end"} {
		if bytes.Contains([]byte(s), []byte(k)) {
			return "error:" + k
		}
	}
	return "error:other"
}

func c31Scenarios() []c31Scenario {
	// key lengths get every fork/finalisation variant; in the thorough tier every other length
	// 0..260 gets the no-fork chain and a mid fork that is the best chain, each with F in {0, L/3}
	key := []int{0, 1, 2, 3, 5, 127, 128, 129, 130, 131, 257, 258, 260}
	if verifmc.Thorough() {
		key = append(key, 4, 6, 7, 8, 126, 132, 255, 256, 259)
	}
	isKey := map[int]bool{}
	for _, l := range key {
		isKey[l] = true
	}
	var ls []int
	if verifmc.Thorough() {
		for l := 0; l <= 260; l++ {
			ls = append(ls, l)
		}
	} else {
		ls = key
	}
	var out []c31Scenario
	seen := map[c31Scenario]bool{}
	add := func(s c31Scenario) {
		if !seen[s] {
			seen[s] = true
			out = append(out, s)
		}
	}
	for _, l := range ls {
		fins := []int{0}
		if l/3 >= 1 {
			fins = append(fins, l/3)
		}
		for _, fin := range fins {
			add(c31Scenario{L: l, f: -1, F: fin})
			if l == 0 {
				continue
			}
			if !isKey[l] {
				add(c31Scenario{L: l, f: l / 2, k: l - l/2 + 1, F: fin})
				continue
			}
			for _, f := range []int{0, l / 2, l - 1} {
				for _, k := range []int{1, l - f + 1} {
					add(c31Scenario{L: l, f: f, k: k, F: fin})
				}
			}
		}
		if l >= 1 && isKey[l] {
			add(c31Scenario{L: l, f: -1, F: l}) // everything finalised
		}
	}
	// the fork is the best chain AND longer than one response
	add(c31Scenario{L: 3, f: 1, k: 130, F: 0})
	add(c31Scenario{L: 130, f: 1, k: 131, F: 0})
	return out
}

// c31Vio collects violations deterministically: per signature the total count and the three
// smallest witnesses in enumeration order (the run is parallel, the report must not depend on timing).
type c31VioEntry struct {
	key    [4]int
	desc   string
	replay any
}

type c31Vio struct {
	mu    gosync.Mutex
	count map[string]int64
	best  map[string][]c31VioEntry
}

func c31KeyLess(a, b [4]int) bool {
	for i := range a {
		if a[i] != b[i] {
			return a[i] < b[i]
		}
	}
	return false
}

func (v *c31Vio) add(sig string, key [4]int, desc string, replay any) {
	v.mu.Lock()
	defer v.mu.Unlock()
	if v.count == nil {
		v.count, v.best = map[string]int64{}, map[string][]c31VioEntry{}
	}
	v.count[sig]++
	l := append(v.best[sig], c31VioEntry{key, desc, replay})
	sort.Slice(l, func(i, j int) bool { return c31KeyLess(l[i].key, l[j].key) })
	if len(l) > 3 {
		l = l[:3]
	}
	v.best[sig] = l
}

func (v *c31Vio) flush(r *verifmc.Report) {
	var sigs []string
	for s := range v.count {
		sigs = append(sigs, s)
	}
	sort.Strings(sigs)
	for _, s := range sigs {
		for _, e := range v.best[s] {
			r.Violate(s, e.desc, e.replay)
		}
		for j := int64(len(v.best[s])); j < v.count[s]; j++ {
			r.Violate(s, "", nil) // counted only (the report keeps three witnesses per signature)
		}
	}
}

func TestVerif_C31_serve(t *testing.T) {
	c31Quiet()
	r := verifmc.NewReport("C31", "serve", "exploration")
	defer r.Write()
	scs := c31Scenarios()
	masks := c31Masks()
	dirs := []messages.SyncDirection{messages.Ascending, messages.Descending, messages.SyncDirection(2)}
	r.Rule = fmt.Sprintf("%d scenarios (main length L x {no fork, fork at 0/L/2/L-1 of length 1 or tail+1} x finalised {0, L/3, L} for key lengths 0,1,2,3,5,127..131,257,258,260 [thorough: +4,6,7,8,126,132,255,256,259 and every other L in 0..260 with {no fork, best fork at L/2} x F {0,L/3}]) on a real state.BlockState; "+
		"per scenario every start (by number 0,1,2,3,126..131,best-129..best+2,L/2,L,F,F+1,2^32-1; by hash genesis/main/fork/unknown) x direction {asc,desc,2} x "+
		"Max {nil,0,1,2,3,127,128,129,2^32-1} x mask {0..31,32,33,255} [quick: (every Max x masks 1,2,19,31,32) + (Max 1,2,3 x every mask); thorough: full product] through CreateBlockResponse; non-trivial = a non-empty response; "+
		"oracle = generated tree (start, links, length, fields)", len(scs))
	const shards = 8
	vio := &c31Vio{}
	var aggMu gosync.Mutex
	agg := map[string]int64{}
	verifmc.ParallelFor(r, len(scs)*shards, func(item int) {
		sc, shard := scs[item/shards], item%shards
		w, err := c31Build(sc)
		if err != nil {
			// building the scenario uses only valid operations of the real BlockState
			vio.add("serve:scenario-build-failed", [4]int{item / shards, 0, 0, 0}, sc.String()+": "+err.Error(), sc.String())
			return
		}
		defer w.close()
		// counters are kept locally and flushed once per work item (the report is mutex-protected)
		cnt := map[string]int64{}
		outc := map[string]int64{}
		defer func() {
			for k, v := range cnt {
				r.Add(k, v)
			}
			aggMu.Lock()
			for k, v := range outc {
				agg[k] += v
			}
			aggMu.Unlock()
		}()
		if shard == 0 {
			cnt["scenarios"]++
		}
		starts := w.starts()
		for si, st := range starts {
			if si%shards != shard {
				continue
			}
			for _, dir := range dirs {
				for mi, mx := range c31Maxes {
					svc := NewSyncService(WithBlockState(w.bs))
					who := peer.ID(fmt.Sprintf("c31peer%d", mi))
					for _, mask := range masks {
						if !c31InTier(mx.name, mask) {
							continue
						}
						var from messages.FromBlock
						if st.byHash {
							from = *messages.NewFromBlock(st.hash)
						} else {
							from = *messages.NewFromBlock(st.num)
						}
						var mxCopy *uint32
						if mx.v != nil {
							v := *mx.v
							mxCopy = &v
						}
						req := &messages.BlockRequestMessage{RequestedData: mask, StartingBlock: from, Direction: dir, Max: mxCopy}
						replay := func() map[string]any {
							return map[string]any{"scenario": sc.String(), "start": st.name, "direction": int(dir), "max": mx.name, "mask": mask}
						}
						var resp *messages.BlockResponseMessage
						var rerr error
						panicked, msg := verifmc.Guard(func() { resp, rerr = svc.CreateBlockResponse(who, req) })
						cnt["evaluations"]++
						vkey := [4]int{item / shards, si, int(dir)*16 + mi, int(mask)}
						if panicked {
							vio.add("serve:panic:"+verifmc.PanicSite(msg), vkey, msg, replay())
							outc["violation:panic"]++
							continue
						}
						if rerr != nil {
							outc[c31ErrClass(rerr)]++
							if resp != nil {
								vio.add("serve:error-with-response", vkey, rerr.Error(), replay())
							}
							continue
						}
						if resp == nil {
							vio.add("serve:nil-response-without-error", vkey, "nil response, nil error", replay())
							continue
						}
						if dir > messages.Descending {
							vio.add("serve:invalid-direction-served", vkey, fmt.Sprintf("direction %d answered with %d blocks", dir, len(resp.BlockData)), replay())
							continue
						}
						if mask == 0 {
							vio.add("serve:empty-mask-served", vkey, fmt.Sprintf("mask 0 answered with %d blocks", len(resp.BlockData)), replay())
							continue
						}
						sig, desc, class := w.checkResponse(st, dir, mx.v, mask, resp.BlockData)
						if sig != "" {
							vio.add(sig, vkey, sc.String()+" start="+st.name+" dir="+c31DirName(dir)+" max="+mx.name+fmt.Sprintf(" mask=%d: ", mask)+desc, replay())
							outc["violation:"+sig]++
							continue
						}
						outc[class]++
						if len(resp.BlockData) > 0 {
							cnt["nonempty_responses"]++
							cnt["blocks_checked"] += int64(len(resp.BlockData))
							if mask == 1 {
								r.Distinct(fmt.Sprintf("%s|%s|%d|%s", sc.String(), st.name, dir, mx.name))
							}
							if len(resp.BlockData) == 128 && mask == 19 && dir == messages.Descending {
								r.Sample(replay())
							}
						}
					}
				}
			}
		}
	}, func(i int, msg string) {
		vio.add("serve:harness-panic", [4]int{i / shards, 0, 0, 0}, msg, scs[i/shards].String())
	})
	vio.flush(r)
	for k, v := range agg { // the engine has no bulk Outcome; uncontended calls are cheap
		for j := int64(0); j < v; j++ {
			r.Outcome(k)
		}
	}
	var names []string
	for _, s := range scs[:min(len(scs), 5)] {
		names = append(names, s.String())
	}
	sort.Strings(names)
	r.Extra["first_scenarios"] = names
	r.Assumption("types.Header.Hash identifies blocks; dot/state.BlockState (real, in-memory Pebble) is the store; errors are not responses: they are counted per class, never judged")
	r.Assumption("descending requests by a number above the best block are counted, not judged (the requested block does not exist)")
}
