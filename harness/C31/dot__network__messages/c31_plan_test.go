//go:build verif

package messages

// C31 (part "plan"): the requests planned to sync heights a..b cover every height of [a,b]
// exactly once, in ascending order, with no request larger than the protocol maximum.
//
// Every (a,b) of a square [0,K]^2 (K=387 quick, 1050 thorough: 0, 1 and three/eight multiples of
// 128 with both neighbours are inside), plus windows around 2^32 (the wire format of a start
// number is 4 bytes), each with several field masks, is planned with the real
// NewAscendingBlockRequests.  Oracle (independent, interval arithmetic only): walking the
// requests in order, request i must be ascending, by number, start exactly at the first height
// not yet covered, have 1 <= *Max <= 128, carry the requested field mask; after the last request
// the first uncovered height is b+1; for a > b nothing may be planned.  Additionally every
// planned request whose start fits the 4-byte wire number must survive Encode/Decode unchanged.

import (
	"fmt"
	"math"
	"testing"

	"github.com/ChainSafe/gossamer/internal/verifmc"
)

type c31Pair struct{ a, b uint }

// c31CheckPlan returns (signature, description) of the first breach, or "", "".
func c31CheckPlan(a, b uint, mask byte, reqs []*BlockRequestMessage) (string, string) {
	if a > b {
		if len(reqs) != 0 {
			return "plan:requests-for-empty-range", fmt.Sprintf("a=%d > b=%d but %d requests planned", a, b, len(reqs))
		}
		return "", ""
	}
	next := a // first height not yet covered
	done := false
	for i, rq := range reqs {
		if rq == nil {
			return "plan:nil-request", fmt.Sprintf("a=%d b=%d request %d is nil", a, b, i)
		}
		if done {
			return "plan:covers-beyond-target", fmt.Sprintf("a=%d b=%d request %d planned after the range was covered", a, b, i)
		}
		if rq.Direction != Ascending {
			return "plan:not-ascending", fmt.Sprintf("a=%d b=%d request %d direction %d", a, b, i, rq.Direction)
		}
		st, ok := rq.StartingBlock.RawValue().(uint)
		if !ok {
			return "plan:start-not-a-number", fmt.Sprintf("a=%d b=%d request %d starts at %T", a, b, i, rq.StartingBlock.RawValue())
		}
		if rq.Max == nil {
			return "plan:max-unset", fmt.Sprintf("a=%d b=%d request %d has no Max", a, b, i)
		}
		mx := uint(*rq.Max)
		if mx == 0 {
			return "plan:empty-request", fmt.Sprintf("a=%d b=%d request %d has Max 0", a, b, i)
		}
		if mx > MaxBlocksInResponse {
			return "plan:request-larger-than-protocol-max", fmt.Sprintf("a=%d b=%d request %d has Max %d", a, b, i, mx)
		}
		if st < next {
			return "plan:height-covered-twice", fmt.Sprintf("a=%d b=%d request %d starts at %d, heights below %d already covered", a, b, i, st, next)
		}
		if st > next {
			return "plan:height-not-covered", fmt.Sprintf("a=%d b=%d request %d starts at %d, height %d skipped", a, b, i, st, next)
		}
		if rq.RequestedData != mask {
			return "plan:wrong-field-mask", fmt.Sprintf("a=%d b=%d request %d asks fields %d, want %d", a, b, i, rq.RequestedData, mask)
		}
		last := st + mx - 1 // no overflow: st <= b, mx <= 128, b far from MaxUint in every window
		if last > b {
			return "plan:covers-beyond-target", fmt.Sprintf("a=%d b=%d request %d covers %d..%d", a, b, i, st, last)
		}
		if last == b {
			done = true
		}
		next = last + 1
	}
	if !done {
		return "plan:height-not-covered", fmt.Sprintf("a=%d b=%d: %d requests end before height %d (first uncovered %d)", a, b, len(reqs), b, next)
	}
	return "", ""
}

// c31WireRoundTrip: a planned request must reach the peer as planned.
func c31WireRoundTrip(rq *BlockRequestMessage) (string, string) {
	st := rq.StartingBlock.RawValue().(uint)
	enc, err := rq.Encode()
	if err != nil {
		return "plan:wire-encode-error", fmt.Sprintf("start=%d: %v", st, err)
	}
	var back BlockRequestMessage
	if err := back.Decode(enc); err != nil {
		return "plan:wire-decode-error", fmt.Sprintf("start=%d: %v", st, err)
	}
	bst, ok := back.StartingBlock.RawValue().(uint)
	if !ok || bst != st || back.Direction != rq.Direction || back.RequestedData != rq.RequestedData ||
		back.Max == nil || *back.Max != *rq.Max {
		return "plan:wire-round-trip-changes-request", fmt.Sprintf("planned %s, peer decodes %s", rq.String(), back.String())
	}
	return "", ""
}

func TestVerif_C31_plan(t *testing.T) {
	r := verifmc.NewReport("C31", "plan", "exploration")
	defer r.Write()
	k := uint(verifmc.Pick(387, 1050))
	w := uint(verifmc.Pick(140, 300))
	r.Rule = fmt.Sprintf("every (a,b) in [0,%d]^2 with masks {1,19,31}, every (a,b) in [0,3]x[0,260] with all 256 masks, "+
		"every (a,b) with a in [2^32-%d-2, 2^32+2] and b-a in [-1,%d] (mask 19); non-trivial = a<=b; "+
		"oracle: interval walk (start == first uncovered height, 1<=Max<=128, ends exactly at b) + wire round trip of every planned request with start < 2^32", k, w, w)
	var pairs []c31Pair
	for a := uint(0); a <= k; a++ {
		for b := uint(0); b <= k; b++ {
			pairs = append(pairs, c31Pair{a, b})
		}
	}
	nSquare := len(pairs)
	two32 := uint(math.MaxUint32) + 1
	for a := two32 - w - 2; a <= two32+2; a++ {
		for d := -1; d <= int(w); d++ {
			pairs = append(pairs, c31Pair{a, uint(int(a) + d)})
		}
	}
	masksFor := func(i int, p c31Pair) []byte {
		if i >= nSquare {
			return []byte{BootstrapRequestData}
		}
		if p.a <= 3 && p.b <= 260 {
			all := make([]byte, 256)
			for m := range all {
				all[m] = byte(m)
			}
			return all
		}
		return []byte{RequestedDataHeader, BootstrapRequestData, 31}
	}
	verifmc.ParallelFor(r, len(pairs), func(i int) {
		p := pairs[i]
		for _, mask := range masksFor(i, p) {
			reqs := NewAscendingBlockRequests(p.a, p.b, mask)
			r.Add("evaluations", 1)
			sig, desc := c31CheckPlan(p.a, p.b, mask, reqs)
			if sig != "" {
				r.Violate(sig, desc, map[string]any{"a": p.a, "b": p.b, "mask": mask})
				r.Outcome("violation:" + sig)
				continue
			}
			if p.a > p.b {
				r.Outcome("empty-range:no-requests")
				continue
			}
			r.Distinct(fmt.Sprintf("%d-%d", p.a, p.b))
			n := p.b - p.a + 1
			cls := fmt.Sprintf("requests=%d", len(reqs))
			if n%MaxBlocksInResponse == 0 {
				cls += ",multiple-of-128"
			}
			if p.a == 0 {
				cls += ",from-0"
			}
			r.Outcome(cls)
			wire := 0
			for _, rq := range reqs {
				if rq.StartingBlock.RawValue().(uint) > math.MaxUint32 {
					r.Add("skipped_wire_start_above_u32", 1)
					continue
				}
				wire++
				if sig, desc := c31WireRoundTrip(rq); sig != "" {
					r.Violate(sig, desc, map[string]any{"a": p.a, "b": p.b, "mask": mask})
					r.Outcome("violation:" + sig)
				}
			}
			r.Add("wire_round_trips", int64(wire))
			if (p.a == 1 && p.b == 259) || (p.a == 0 && p.b == 127) {
				r.Sample(map[string]any{"a": p.a, "b": p.b, "requests": len(reqs), "last_max": *reqs[len(reqs)-1].Max})
			}
		}
	}, func(i int, msg string) {
		r.Violate("plan:panic:"+verifmc.PanicSite(msg), msg, map[string]any{"a": pairs[i].a, "b": pairs[i].b})
	})
	r.Assumption("heights near MaxUint64 are out of scope (block numbers are 32-bit on the wire); starts above 2^32-1 are planned but their wire form is not checked (counted in skipped_wire_start_above_u32)")
}
