//go:build verif

package allocator

// C28: the Wasm heap allocator never hands out overlapping memory.
//
// Explicit-state BFS (verifmc.Hist) over alloc / free / invalid-free / write histories on the real
// FreeingBumpHeapAllocator working on a sparse, byte-exact model of a (up to) 4 GiB Wasm linear
// memory.  The oracle is the list of invariants of the statement, evaluated by the harness from
// its own bookkeeping of what was handed out (no allocator function is used to compute an
// expectation):
//   S1 returned pointer is 8-byte aligned
//   S2 it lies above the heap base (pointer and its 8-byte header >= heap base)
//   S3 ptr + roundup(size) <= mem.Size()            (roundup = max(8, next power of two))
//   S4 [ptr-8, ptr+roundup) is disjoint from every other live allocation's [p-8, p+roundup)
//   S5 bytes written to a live allocation are unchanged after every later op
//   S6 free of an invalid / already-freed pointer returns an error and every later call errors
//   S7 alloc(size > 32 MiB) returns an error
//   S8 the allocator never asks the memory to grow past 65536 pages
// The private-state invariant named in DESIGN (bumper never wraps) is reported with its own
// signature and exploration continues past it so that the observable consequence (S2/S4) is
// shown too.
// Not judged (statement silent): whether a valid alloc/free must succeed (counted as outcomes).

import (
	"encoding/binary"
	"fmt"
	"sort"
	"strings"
	"sync"
	"testing"
	"unsafe"

	"github.com/ChainSafe/gossamer/internal/verifmc"
)

const (
	c28PageSize = 65536
	c28MaxPages = 65536 // wasm32 hard limit: 4 GiB
)

// ---------------------------------------------------------------------------------------------
// sparse linear memory (implements runtime.Memory)

type c28Byte struct {
	v   byte
	seq int
}

type c28Fill struct {
	start, end uint64 // [start,end)
	key        uint32 // pattern key = pointer of the block
	seq        int
}

// c28Mem is byte-exact: content(a) = the latest of {explicit byte write, pattern fill covering a},
// zero otherwise.  Size = pages * 64 KiB; reads and writes outside are refused like wazero does.
type c28Mem struct {
	pages, maxPages uint32
	seq             int
	over            map[uint32]c28Byte
	fills           []c28Fill
	growPast        string // set when Grow was asked to go past the wasm limit
	grows           int
}

func c28NewMem(pages, maxPages uint32) *c28Mem {
	return &c28Mem{pages: pages, maxPages: maxPages, over: map[uint32]c28Byte{}}
}

// c28Pattern is the byte a guest writes at address a of the block at ptr.  Every byte has bit 7
// set (never equals a zero byte / the high half of an allocator header) and bit 0 clear (no
// window of guest bytes can supply the "occupied" bit of a header: stated assumption).
func c28Pattern(key uint32, a uint64) byte {
	h := (key >> 3) ^ (key >> 6) ^ (key >> 12) ^ (key >> 20)
	return 0x80 | byte(h&7)<<4 | byte((a-uint64(key))&7)<<1
}

func (m *c28Mem) Size() uint64 { return uint64(m.pages) * c28PageSize }

func (m *c28Mem) Grow(delta uint32) (uint32, bool) {
	prev := m.pages
	if uint64(m.pages)+uint64(delta) > c28MaxPages {
		m.growPast = fmt.Sprintf("Grow(%d) at %d pages", delta, m.pages)
		return 0, false
	}
	if uint64(m.pages)+uint64(delta) > uint64(m.maxPages) {
		return 0, false
	}
	m.pages += delta
	m.grows++
	return prev, true
}

func (m *c28Mem) byteAt(a uint64) byte {
	var v byte
	s := -1
	if a <= 0xffffffff {
		if o, ok := m.over[uint32(a)]; ok {
			v, s = o.v, o.seq
		}
	}
	for i := range m.fills {
		f := &m.fills[i]
		if f.seq > s && a >= f.start && a < f.end {
			v, s = c28Pattern(f.key, a), f.seq
		}
	}
	return v
}

func (m *c28Mem) in(off uint32, n uint64) bool { return uint64(off)+n <= m.Size() }

//nolint:govet
func (m *c28Mem) ReadByte(off uint32) (byte, bool) {
	if !m.in(off, 1) {
		return 0, false
	}
	return m.byteAt(uint64(off)), true
}

func (m *c28Mem) ReadUint64Le(off uint32) (uint64, bool) {
	if !m.in(off, 8) {
		return 0, false
	}
	var b [8]byte
	for i := range b {
		b[i] = m.byteAt(uint64(off) + uint64(i))
	}
	return binary.LittleEndian.Uint64(b[:]), true
}

func (m *c28Mem) WriteUint64Le(off uint32, v uint64) bool {
	if !m.in(off, 8) {
		return false
	}
	var b [8]byte
	binary.LittleEndian.PutUint64(b[:], v)
	return m.Write(off, b[:])
}

func (m *c28Mem) Read(off uint32, n uint64) ([]byte, bool) {
	if !m.in(off, n) || n > 1<<16 {
		return nil, false
	}
	out := make([]byte, n)
	for i := range out {
		out[i] = m.byteAt(uint64(off) + uint64(i))
	}
	return out, true
}

//nolint:govet
func (m *c28Mem) WriteByte(off uint32, v byte) bool { return m.Write(off, []byte{v}) }

func (m *c28Mem) Write(off uint32, data []byte) bool {
	if !m.in(off, uint64(len(data))) {
		return false
	}
	m.seq++
	for i, v := range data {
		m.over[off+uint32(i)] = c28Byte{v, m.seq}
	}
	return true
}

// fill is the guest writing its pattern over [ptr, ptr+size).
func (m *c28Mem) fill(ptr, size uint32) {
	if size == 0 {
		return
	}
	if !m.in(ptr, uint64(size)) {
		panic("harness: guest write outside memory")
	}
	m.seq++
	m.fills = append(m.fills, c28Fill{uint64(ptr), uint64(ptr) + uint64(size), ptr, m.seq})
}

// intact reports the first byte of [ptr,ptr+size) that no longer holds the pattern written at
// sequence number fillSeq (exact: only later writes can have changed a byte).
func (m *c28Mem) intact(ptr, size uint32, fillSeq int) string {
	lo, hi := uint64(ptr), uint64(ptr)+uint64(size)
	bad := uint64(1 << 40)
	for a := range m.over {
		ua := uint64(a)
		if ua >= lo && ua < hi && ua < bad && m.byteAt(ua) != c28Pattern(ptr, ua) {
			bad = ua
		}
	}
	for i := range m.fills {
		f := &m.fills[i]
		if f.seq > fillSeq && f.key != ptr && f.start < hi && f.end > lo {
			a := max(f.start, lo)
			if a < bad && m.byteAt(a) != c28Pattern(ptr, a) {
				bad = a
			}
		}
	}
	if bad != 1<<40 {
		return fmt.Sprintf("byte at %d (offset %d of the %d-byte allocation at %d) is %02x, written %02x",
			bad, bad-lo, size, ptr, m.byteAt(bad), c28Pattern(ptr, bad))
	}
	return ""
}

// canon renders the content of the memory (not its write history).
func (m *c28Mem) canon(sb *strings.Builder) {
	fmt.Fprintf(sb, "pages=%d;", m.pages)
	addrs := make([]uint32, 0, len(m.over))
	for a := range m.over {
		addrs = append(addrs, a)
	}
	sort.Slice(addrs, func(i, j int) bool { return addrs[i] < addrs[j] })
	for _, a := range addrs {
		fmt.Fprintf(sb, "%d=%02x,", a, m.byteAt(uint64(a)))
	}
	fs := make([]string, 0, len(m.fills))
	for _, f := range m.fills {
		fs = append(fs, fmt.Sprintf("%d-%d:%d", f.start, f.end, f.key))
	}
	sort.Strings(fs)
	prev := ""
	for _, f := range fs {
		if f != prev {
			sb.WriteString(f + ";")
		}
		prev = f
	}
}

// ---------------------------------------------------------------------------------------------
// model

type c28Block struct {
	ptr, size uint32
	written   bool
	fillSeq   int
}

func c28Roundup(size uint32) uint64 {
	r := uint64(8)
	for r < uint64(size) {
		r *= 2
	}
	return r
}

type c28Cfg struct {
	heapBase             uint32
	initPages, maxPages  uint32
	sizes                []uint32
	depth                int
	name                 string
}

type c28State struct {
	cfg         *c28Cfg
	a           *FreeingBumpHeapAllocator
	mem         *c28Mem
	live        []c28Block // sorted by ptr
	freed       []uint32   // pointers freed and not live again, oldest first
	mustFail    bool       // S6: an invalid free happened -> every later call must error
	failedOnce  bool       // some call returned an error (allocator documents itself as poisoned then)
	prevBumper  uint32
	wrapped     bool // the bumper went backwards at some point of the history
	soft        []verifmc.Violation
	rep         *verifmc.Report
}

type c28Op struct {
	kind string // alloc, free, write, freeinv
	arg  uint32 // size / index
	inv  string // invalid kind
}

func (o c28Op) Name() string {
	switch o.kind {
	case "alloc":
		return fmt.Sprintf("alloc(%d)", o.arg)
	case "free":
		return fmt.Sprintf("free(live#%d)", o.arg)
	case "write":
		return fmt.Sprintf("write(live#%d)", o.arg)
	}
	return fmt.Sprintf("free-invalid(%s)", o.inv)
}

// c28InvalidPtr resolves an invalid-pointer kind in state s.  ok=false: not applicable here
// (would coincide with a live pointer, or does not exist).
func c28InvalidPtr(s *c28State, kind string) (uint32, bool) {
	isLive := func(p uint32) bool {
		for _, b := range s.live {
			if b.ptr == p {
				return true
			}
		}
		return false
	}
	var p uint64
	rel := func(which string, d int64) bool {
		if len(s.live) == 0 {
			return false
		}
		b := s.live[0]
		if which == "last" {
			if len(s.live) < 2 {
				return false
			}
			b = s.live[len(s.live)-1]
		}
		q := int64(b.ptr) + d
		if q < 0 || q > 0xffffffff {
			return false
		}
		p = uint64(q)
		return true
	}
	switch kind {
	case "first+8":
		if !rel("first", 8) {
			return 0, false
		}
	case "first-8":
		if !rel("first", -8) {
			return 0, false
		}
	case "first+4":
		if !rel("first", 4) {
			return 0, false
		}
	case "first+1":
		if !rel("first", 1) {
			return 0, false
		}
	case "last+8":
		if !rel("last", 8) {
			return 0, false
		}
	case "last-8":
		if !rel("last", -8) {
			return 0, false
		}
	case "last+4":
		if !rel("last", 4) {
			return 0, false
		}
	case "zero":
		p = 0
	case "seven":
		p = 7
	case "heapbase": // header would lie below the heap base
		p = uint64((s.cfg.heapBase + 7) &^ 7)
		if p > 0xffffffff {
			return 0, false
		}
	case "bumper+8": // header in never-used memory
		p = uint64(s.a.bumper) + 8
	case "memsize": // header is the last word of memory
		p = s.mem.Size()
	case "memsize+8": // header outside memory
		p = s.mem.Size() + 8
	case "max":
		p = 0xffffffff
	case "max-7":
		p = 0xfffffff8
	case "freed-newest":
		if len(s.freed) == 0 {
			return 0, false
		}
		p = uint64(s.freed[len(s.freed)-1])
	case "freed-oldest":
		if len(s.freed) < 2 {
			return 0, false
		}
		p = uint64(s.freed[0])
	default:
		panic(kind)
	}
	if p > 0xffffffff || isLive(uint32(p)) {
		return 0, false
	}
	return uint32(p), true
}

var c28InvalidKinds = []string{"freed-newest", "freed-oldest", "first+8", "first-8", "first+4", "first+1", "last+8", "last-8", "last+4",
	"zero", "seven", "heapbase", "bumper+8", "memsize", "memsize+8", "max", "max-7"}

func c28Ops(s *c28State) []verifmc.Op {
	var ops []verifmc.Op
	if s.mustFail || s.failedOnce {
		// everything must (S6) / may (documented poisoning) fail from here: one of each kind is enough,
		// the allocator state can no longer change if it is poisoned; if it is not, S1-S5 still apply
		ops = append(ops, c28Op{kind: "alloc", arg: 8})
		if len(s.live) > 0 {
			ops = append(ops, c28Op{kind: "free", arg: 0})
		}
		ops = append(ops, c28Op{kind: "freeinv", inv: "zero"})
		return ops
	}
	for _, sz := range s.cfg.sizes {
		ops = append(ops, c28Op{kind: "alloc", arg: sz})
	}
	for i := range s.live {
		ops = append(ops, c28Op{kind: "free", arg: uint32(i)})
	}
	for _, k := range c28InvalidKinds {
		if _, ok := c28InvalidPtr(s, k); ok {
			ops = append(ops, c28Op{kind: "freeinv", inv: k})
		}
	}
	return ops
}

func (s *c28State) softf(sig, format string, a ...any) {
	s.soft = append(s.soft, verifmc.Violation{Sig: sig, Desc: fmt.Sprintf(format, a...)})
}

// c28Apply performs one op on the real allocator and judges the call itself (S1-S4, S6-S8).
func c28Apply(s *c28State, op c28Op) string {
	r := s.rep
	switch op.kind {
	case "alloc":
		ptr, err := s.a.Allocate(s.mem, op.arg)
		if s.mem.growPast != "" {
			return "S8 grow-past-4GiB: allocator asked the memory to grow past 65536 pages: " + s.mem.growPast
		}
		if s.a.bumper < s.prevBumper {
			s.wrapped = true
			s.softf("alloc:bumper-wrapped", "bumper went from %d to %d in alloc(%d) (heap base %d, memory %d bytes)", s.prevBumper, s.a.bumper, op.arg, s.cfg.heapBase, s.mem.Size())
		}
		s.prevBumper = s.a.bumper
		if err != nil {
			if r != nil {
				c28Count(s, "alloc:error:" + c28ErrClass(err))
			}
			s.failedOnce = true
			return ""
		}
		if s.mustFail {
			return fmt.Sprintf("S6 not-poisoned: alloc(%d) succeeded (ptr %d) after an invalid free had been reported", op.arg, ptr)
		}
		if op.arg > 32*1024*1024 {
			return fmt.Sprintf("S7 oversize-accepted: alloc(%d) > 32 MiB returned ptr %d", op.arg, ptr)
		}
		if ptr%8 != 0 {
			return fmt.Sprintf("S1 unaligned: alloc(%d) returned %d", op.arg, ptr)
		}
		if ptr < s.cfg.heapBase {
			// shape of the cause, from the allocator's private state at the time of the mismatch
			shape := "pointer-below-heap-base"
			switch {
			case s.a.originalHeapBase < s.cfg.heapBase:
				shape += ":aligned-heap-base-wrapped"
			case s.wrapped:
				shape += ":after-bumper-wrap"
			}
			return fmt.Sprintf("S2 %s: alloc(%d) returned %d, heap base %d (allocator's aligned heap base %d)", shape, op.arg, ptr, s.cfg.heapBase, s.a.originalHeapBase)
		}
		if ptr < 8 || ptr-8 < s.cfg.heapBase {
			return fmt.Sprintf("S2 header-below-heap-base: alloc(%d) returned %d, its header lies below heap base %d", op.arg, ptr, s.cfg.heapBase)
		}
		ru := c28Roundup(op.arg)
		if uint64(ptr)+ru > s.mem.Size() {
			return fmt.Sprintf("S3 block-outside-memory: alloc(%d) returned %d, block end %d > memory size %d", op.arg, ptr, uint64(ptr)+ru, s.mem.Size())
		}
		for _, b := range s.live {
			lo, hi := uint64(b.ptr)-8, uint64(b.ptr)+c28Roundup(b.size)
			if uint64(ptr)-8 < hi && uint64(ptr)+ru > lo {
				return fmt.Sprintf("S4 overlap: alloc(%d) returned %d, block [%d,%d) overlaps live allocation %d (size %d, block [%d,%d))",
					op.arg, ptr, uint64(ptr)-8, uint64(ptr)+ru, b.ptr, b.size, lo, hi)
			}
		}
		how := "bumped"
		for _, f := range s.freed {
			if f == ptr {
				how = "reused-freed"
			}
		}
		// the guest initialises what it was given: the whole requested size is filled with the
		// block's pattern right away (a separate "write" op would only cost a depth level; the
		// allocator never reads guest data except as the header of an invalid free, where zero
		// and pattern words are both "not occupied")
		nb := c28Block{ptr: ptr, size: op.arg}
		if op.arg > 0 {
			s.mem.fill(ptr, op.arg)
			nb.written, nb.fillSeq = true, s.mem.seq
		}
		s.live = append(s.live, nb)
		sort.Slice(s.live, func(i, j int) bool { return s.live[i].ptr < s.live[j].ptr })
		for i, f := range s.freed {
			if f == ptr {
				s.freed = append(s.freed[:i:i], s.freed[i+1:]...)
				break
			}
		}
		if r != nil {
			c28Count(s, fmt.Sprintf("alloc:ok:%s:block=%d", how, ru))
		}
	case "free":
		b := s.live[op.arg]
		err := s.a.Deallocate(s.mem, b.ptr)
		if err != nil {
			if r != nil {
				if s.mustFail || s.failedOnce {
					c28Count(s, "free:error-after-poison")
				} else {
					c28Count(s, "free:valid-rejected:" + c28ErrClass(err)) // statement silent
				}
			}
			s.failedOnce = true
			return ""
		}
		if s.mustFail {
			return fmt.Sprintf("S6 not-poisoned: free(%d) succeeded after an invalid free had been reported", b.ptr)
		}
		s.live = append(s.live[:op.arg:op.arg], s.live[op.arg+1:]...)
		s.freed = append(s.freed, b.ptr)
		if r != nil {
			c28Count(s, "free:ok")
		}
	case "write":
		b := &s.live[op.arg]
		s.mem.fill(b.ptr, b.size)
		b.written, b.fillSeq = true, s.mem.seq
		if r != nil {
			c28Count(s, "write:ok")
		}
	case "freeinv":
		p, ok := c28InvalidPtr(s, op.inv)
		if !ok {
			panic("harness: invalid-pointer kind not applicable: " + op.inv)
		}
		err := s.a.Deallocate(s.mem, p)
		if err == nil {
			class := op.inv
			if strings.HasPrefix(class, "freed-") {
				class = "already-freed"
			}
			return fmt.Sprintf("S6 invalid-free-accepted:%s: free(%d) of an invalid pointer (%s) returned nil", class, p, op.inv)
		}
		if r != nil {
			c28Count(s, "free-invalid:" + op.inv + ":" + c28ErrClass(err))
		}
		s.mustFail = true
		s.failedOnce = true
	}
	return ""
}

// outcome classes are counted in 64 striped tables (the report's single mutex would serialise
// the workers); c28Publish copies them into the report single-threaded after the exploration.
type c28Shard struct {
	mu sync.Mutex
	m  map[string]int64
	_  [40]byte
}

var c28Shards [64]c28Shard

func c28Count(s *c28State, class string) {
	sh := &c28Shards[(uintptr(unsafe.Pointer(s))>>6)%64]
	sh.mu.Lock()
	if sh.m == nil {
		sh.m = map[string]int64{}
	}
	sh.m[class]++
	sh.mu.Unlock()
}

func c28Publish(r *verifmc.Report) {
	for i := range c28Shards {
		sh := &c28Shards[i]
		sh.mu.Lock()
		for k, n := range sh.m {
			r.Outcomes[k] += n
		}
		sh.m = nil
		sh.mu.Unlock()
	}
}

func c28ErrClass(err error) string {
	s := err.Error()
	for _, k := range []string{"poisoned", "too large", "out of space", "cannot grow", "empty header", "cannot read header", "invalid pointer for deallocation", "invalid header pointer", "occupied header", "invalid order", "memory shrunk", "underflow"} {
		if strings.Contains(s, k) {
			return strings.ReplaceAll(k, " ", "-")
		}
	}
	return "other"
}

// c28Check evaluates the state invariants (S5 and the private-state ones).
func c28Check(s *c28State) string {
	if s.mem.pages > c28MaxPages {
		return fmt.Sprintf("S8 memory-past-4GiB: %d pages", s.mem.pages)
	}
	for _, b := range s.live {
		if b.written {
			if d := s.mem.intact(b.ptr, b.size, b.fillSeq); d != "" {
				return "S5 live-bytes-changed: " + d
			}
		}
	}
	return ""
}

func c28Canon(s *c28State) []byte {
	var sb strings.Builder
	fmt.Fprintf(&sb, "hb=%d bump=%d pois=%v last=%d ba=%d|", s.a.originalHeapBase, s.a.bumper, s.a.poisoned, s.a.lastObservedMemorySize, s.a.stats.bytesAllocated)
	for _, h := range s.a.freeLists.heads {
		fmt.Fprintf(&sb, "%d,", h.intoRaw())
	}
	sb.WriteString("|")
	s.mem.canon(&sb)
	fmt.Fprintf(&sb, "|mf=%v fo=%v pb=%d w=%v|", s.mustFail, s.failedOnce, s.prevBumper, s.wrapped)
	for _, b := range s.live {
		fmt.Fprintf(&sb, "L%d:%d:%v,", b.ptr, b.size, b.written)
	}
	for _, f := range s.freed {
		fmt.Fprintf(&sb, "F%d,", f)
	}
	return []byte(sb.String())
}

// c28Sig: "<clause> <shape>: ..." -> "alloc:<shape>" etc.  The shape words are computed from the mismatch.
func c28Sig(hist []verifmc.Op, desc string) string {
	last := "init"
	if len(hist) > 0 {
		last = hist[len(hist)-1].(c28Op).kind
	}
	if strings.HasPrefix(desc, "panic") {
		return last + ":panic:" + verifmc.PanicSite(desc)
	}
	f := strings.Fields(desc)
	if len(f) >= 2 && (strings.HasPrefix(f[0], "S") || f[0] == "init") {
		return last + ":" + strings.TrimSuffix(f[1], ":")
	}
	return last + ":wrong-result"
}

func c28Explore(r *verifmc.Report, cfg *c28Cfg) {
	h := &verifmc.Hist[*c28State]{
		Fresh: func() *c28State {
			a := NewFreeingBumpHeapAllocator(cfg.heapBase)
			return &c28State{cfg: cfg, a: a, mem: c28NewMem(cfg.initPages, cfg.maxPages), prevBumper: a.bumper, rep: nil}
		},
		Ops:   c28Ops,
		Apply: func(s *c28State, op verifmc.Op) string { return c28Apply(s, op.(c28Op)) },
		Check: func(s *c28State) string {
			d := c28Check(s)
			if d == "" {
				nw := 0
				for _, b := range s.live {
					if b.written {
						nw++
					}
				}
				c28Count(s, fmt.Sprintf("S5:written-live-blocks-intact=%d", nw))
				c28Count(s, fmt.Sprintf("state:live=%d,freed=%d,poison=%v,pages=%s", len(s.live), min(len(s.freed), 3), s.a.poisoned, c28PagesClass(s.mem.pages)))
			}
			return d
		},
		Canon: c28Canon,
		Sig:   c28Sig,
		Depth: cfg.depth,
	}
	// outcome classes of calls are recorded on the last (new) op of every transition only: the
	// engine replays the prefix with rep == nil ... the harness cannot tell replay from the new
	// op inside Apply, so the report pointer is switched on by Soft (called right before the new op).
	h.Soft = func(s *c28State) []verifmc.Violation {
		s.rep = r
		v := s.soft
		s.soft = nil
		return v
	}
	h.Explore(r)
	c28Publish(r)
}

func c28PagesClass(p uint32) string {
	switch {
	case p == c28MaxPages:
		return "max"
	case p > 32768:
		return ">32768"
	case p > 1024:
		return ">1024"
	}
	return fmt.Sprint(p)
}

func c28InitPages(heapBase uint32) uint32 {
	p := uint32((uint64(heapBase) + c28PageSize - 1) / c28PageSize)
	if p == 0 {
		p = 1
	}
	return p
}

func TestVerif_C28(t *testing.T) {
	r := verifmc.NewReport("C28", "freeing-bump", "model_checking")
	defer r.Write()
	r.Rule = "BFS over histories of alloc(size)+guest pattern write / free(i-th live) / free(invalid pointer) on the real FreeingBumpHeapAllocator over a sparse byte-exact linear memory, one exploration per heap base / memory limit; states deduplicated on allocator private state + memory content + bookkeeping; invariants S1-S8 of the statement evaluated on every transition and state"
	r.Assumption("guest bytes never supply the 'occupied' bit of a header: the written pattern has bit 0 of every byte clear, memory below the heap base and never-used memory read as zero (DESIGN C28: forged headers are outside the property's 'invalid pointer')")
	r.Assumption("the linear memory is modelled byte-exactly by a sparse structure (explicit bytes + pattern fills), limited to 65536 pages like a wasm32 memory")

	// c28Mem self-test: behaves like a flat byte array on a small case (harness invariant)
	{
		m := c28NewMem(1, 2)
		m.WriteUint64Le(16, 0x0102030405060708)
		m.fill(20, 9)
		m.WriteByte(22, 0x55)
		want := make([]byte, 40)
		binary.LittleEndian.PutUint64(want[16:], 0x0102030405060708)
		for a := 20; a < 29; a++ {
			want[a] = c28Pattern(20, uint64(a))
		}
		want[22] = 0x55
		got, _ := m.Read(0, 40)
		if string(got) != string(want) {
			t.Fatalf("sparse memory self-test: %x != %x", got, want)
		}
		if d := m.intact(20, 9, m.fills[0].seq); !strings.Contains(d, "byte at 22") {
			t.Fatalf("intact self-test: %q", d)
		}
		if _, ok := m.ReadUint64Le(65536 - 7); ok {
			t.Fatal("read across the end accepted")
		}
		if _, ok := m.Grow(2); ok {
			t.Fatal("grow past max accepted")
		}
	}

	const max32 = 32 * 1024 * 1024
	small := []uint32{0, 1, 8, 9, 16, 17, 257, 4096, 65528, 1<<20 + 1, max32, max32 + 1} // 17, 257, 2^20+1: one size per shift step of the power-of-two rounding
	dMain := verifmc.Pick(5, 6)
	dSide := verifmc.Pick(4, 5)
	top := uint32(0xffffffff)
	cfgs := []*c28Cfg{
		{name: "base8", heapBase: 8, sizes: small, depth: dMain},
		{name: "base0", heapBase: 0, sizes: small, depth: dSide},
		{name: "base1", heapBase: 1, sizes: small, depth: dSide},
		{name: "base65528", heapBase: 65528, sizes: small, depth: dSide},
		// memory limit of 2 pages / 1025 pages: grow refusals and out-of-space paths
		{name: "base8-max2pages", heapBase: 8, maxPages: 2, sizes: []uint32{8, 16, 32760, 65528, max32}, depth: dSide},
		{name: "base8-max1025pages", heapBase: 8, maxPages: 1025, sizes: []uint32{8, 65528, max32 / 2, max32}, depth: dSide},
		// 64 MiB below the top of the address space, and exact fits to 4 GiB
		{name: "top-64MiB", heapBase: top - (1 << 26) + 1, sizes: []uint32{8, 16, 65528, max32 / 2, max32}, depth: dSide},
		{name: "top-2maxblocks", heapBase: top - 2*(max32+8) + 1, sizes: []uint32{8, 16, max32 / 2, max32}, depth: dSide},
		{name: "top-16", heapBase: top - 16 + 1, sizes: []uint32{0, 8, 16}, depth: dSide},
		{name: "top-24", heapBase: top - 24 + 1, sizes: []uint32{8, 16}, depth: dSide},
		{name: "top-1", heapBase: top, sizes: []uint32{8}, depth: 2},
	}
	if verifmc.Thorough() {
		// deeper histories over a reduced size alphabet (three size classes incl. a rounded one)
		cfgs = append(cfgs, &c28Cfg{name: "base8-deep", heapBase: 8, sizes: []uint32{8, 9, 4096}, depth: 8})
	}
	for _, c := range cfgs {
		c.initPages = c28InitPages(c.heapBase)
		if c.maxPages == 0 {
			c.maxPages = c28MaxPages
		}
		if r.Expired() {
			r.Capped("deadline before configuration " + c.name)
			break
		}
		before := r.Counters["states"]
		c28Explore(r, c)
		r.Extra["states_"+c.name] = r.Counters["states"] - before
		r.Extra["depth_"+c.name] = c.depth
	}
}
