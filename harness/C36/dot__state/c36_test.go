//go:build verif

package state

// C36: chain state survives a crash at any write.
// Engine E4: a logging database.Database records every write group (a direct Put/Del, or a
// batch Flush - batches are atomic and order is kept, as the statement says) made while
// scripted scenarios import blocks, finalise them and apply authority-set changes on the real
// dot/state services.  For EVERY prefix of that log the durable image is materialised into a
// fresh in-memory database and the real restart path (Service.Start) is run; then the oracle
// of the statement is evaluated.

import (
	"bytes"
	"encoding/json"
	"fmt"
	"sort"
	"strings"
	"testing"

	"github.com/ChainSafe/gossamer/dot/digest"
	"github.com/ChainSafe/gossamer/dot/types"
	"github.com/ChainSafe/gossamer/internal/database"
	"github.com/ChainSafe/gossamer/internal/verifmc"
	"github.com/ChainSafe/gossamer/lib/common"
	"github.com/ChainSafe/gossamer/lib/crypto/ed25519"
	"github.com/ChainSafe/gossamer/lib/crypto/sr25519"
	"github.com/ChainSafe/gossamer/pkg/scale"
	"github.com/ChainSafe/gossamer/pkg/trie"
	inmemory_trie "github.com/ChainSafe/gossamer/pkg/trie/inmemory"
)

type c36Telemetry struct{}

func (c36Telemetry) SendMessage(json.Marshaler) {}

// ---- logging database ----

type c36KV struct {
	k, v []byte // v == nil: delete
}
type c36Group []c36KV

type c36DB struct {
	database.Database
	log []c36Group
}

func (d *c36DB) Put(k, v []byte) error {
	d.log = append(d.log, c36Group{{append([]byte{}, k...), append([]byte{}, v...)}})
	return d.Database.Put(k, v)
}
func (d *c36DB) Del(k []byte) error {
	d.log = append(d.log, c36Group{{append([]byte{}, k...), nil}})
	return d.Database.Del(k)
}
func (d *c36DB) NewBatch() database.Batch { return &c36Batch{Batch: d.Database.NewBatch(), d: d} }

type c36Batch struct {
	database.Batch
	d   *c36DB
	cur c36Group
}

func (b *c36Batch) Put(k, v []byte) error {
	b.cur = append(b.cur, c36KV{append([]byte{}, k...), append([]byte{}, v...)})
	return b.Batch.Put(k, v)
}
func (b *c36Batch) Del(k []byte) error {
	b.cur = append(b.cur, c36KV{append([]byte{}, k...), nil})
	return b.Batch.Del(k)
}
func (b *c36Batch) Flush() error {
	if len(b.cur) > 0 {
		b.d.log = append(b.d.log, b.cur)
		b.cur = nil
	}
	return b.Batch.Flush()
}
func (b *c36Batch) Reset() { b.cur = nil; b.Batch.Reset() }

// materialise: genesis image + the first n write groups of the scenario log
func c36Materialise(t *testing.T, genesis, log []c36Group, n int) database.Database {
	db, err := database.LoadDatabase("", true)
	if err != nil {
		t.Fatal(err)
	}
	apply := func(g c36Group) {
		for _, kv := range g {
			if kv.v == nil {
				_ = db.Del(kv.k)
			} else if err := db.Put(kv.k, kv.v); err != nil {
				t.Fatal(err)
			}
		}
	}
	for _, g := range genesis {
		apply(g)
	}
	for _, g := range log[:n] {
		apply(g)
	}
	return db
}

// ---- scenario machinery ----

type c36Ack struct { // a finalisation whose call had returned (acknowledged) at log index `at`
	at           int
	round, setID uint64
	number       uint
}

type c36Env struct {
	t       *testing.T
	db      *c36DB
	svc     *Service
	handler *digest.BlockImportHandler
	states  map[common.Hash]map[string][]byte // state root -> expected entries
	acks    []c36Ack
	steps   []string
	stepAt  []int
	auths   [][]types.GrandpaAuthoritiesRaw
	babeCfg *types.BabeConfiguration
	version trie.TrieLayout
	soft    bool
	tolerateFinErr bool // SetFinalisedHash may refuse (re-finalising the head): the step then ends
}

func c36Auth(seed byte) types.GrandpaAuthoritiesRaw {
	s := bytes.Repeat([]byte{seed}, 32)
	kp, err := ed25519.NewKeypairFromSeed(s)
	if err != nil {
		panic(err)
	}
	var raw types.GrandpaAuthoritiesRaw
	copy(raw.Key[:], kp.Public().Encode())
	raw.ID = 1
	return raw
}

func c36NewEnv(t *testing.T, version trie.TrieLayout, withChild bool) (*c36Env, []c36Group) {
	base, err := database.LoadDatabase("", true)
	if err != nil {
		t.Fatal(err)
	}
	db := &c36DB{Database: base}
	e := &c36Env{t: t, db: db, states: map[common.Hash]map[string][]byte{}, version: version}
	gtrie := inmemory_trie.NewEmptyTrie()
	gtrie.SetVersion(version)
	must := func(err error) {
		if err != nil {
			t.Fatal(err)
		}
	}
	must(gtrie.Put([]byte("genesis-key"), []byte("genesis-value")))
	must(gtrie.Put([]byte("big"), bytes.Repeat([]byte{0x77}, 40)))
	if withChild {
		must(gtrie.PutIntoChild([]byte("child1"), []byte("ck"), bytes.Repeat([]byte{0x55}, 40)))
	}
	root := gtrie.MustHash()
	e.states[root] = gtrie.Entries()
	must(gtrie.WriteDirty(database.NewTable(db, storagePrefix)))
	header := types.NewHeader(common.Hash{}, root, trie.EmptyHash, 0, types.NewDigest())
	tries := NewTries()
	tries.SetTrie(gtrie)
	bs, err := NewBlockStateFromGenesis(db, tries, header, c36Telemetry{})
	must(err)
	ss, err := NewStorageState(db, bs, tries)
	must(err)
	e.babeCfg = &types.BabeConfiguration{SlotDuration: 1000, EpochLength: 200, C1: 1, C2: 4,
		GenesisAuthorities: []types.AuthorityRaw{}, SecondarySlots: 1}
	es, err := NewEpochStateFromGenesis(db, bs, e.babeCfg)
	must(err)
	a0 := c36Auth(1)
	gs, err := NewGrandpaStateFromGenesis(db, bs, types.NewGrandpaVotersFromAuthorities(mustAuths(t, []types.GrandpaAuthoritiesRaw{a0})), c36Telemetry{})
	must(err)
	e.svc = &Service{db: db, isMemDB: true, Block: bs, Storage: ss, Epoch: es, Grandpa: gs, Telemetry: c36Telemetry{}, genesisBABEConfig: e.babeCfg}
	e.handler = digest.NewBlockImportHandler(es, gs)
	genesisLog := db.log
	db.log = nil
	return e, genesisLog
}

func mustAuths(t *testing.T, raw []types.GrandpaAuthoritiesRaw) []types.Authority {
	a, err := types.GrandpaAuthoritiesRawToAuthorities(raw)
	if err != nil {
		t.Fatal(err)
	}
	return a
}

func (e *c36Env) mark(step string) {
	e.steps = append(e.steps, step)
	e.stepAt = append(e.stepAt, len(e.db.log))
}

// importBlock does what core.Service.handleBlock does with the state services.
func (e *c36Env) importBlock(parent *types.Header, slot uint64, salt byte, consensus ...any) *types.Header {
	t := e.t
	ts, err := e.svc.Storage.TrieState(&parent.StateRoot)
	if err != nil {
		t.Fatal(err)
	}
	if err := ts.Put([]byte(fmt.Sprintf("k-%d-%d", parent.Number+1, salt)), bytes.Repeat([]byte{salt}, 36)); err != nil {
		t.Fatal(err)
	}
	if err := ts.Put([]byte("genesis-key"), []byte{salt, byte(parent.Number + 1)}); err != nil {
		t.Fatal(err)
	}
	root := ts.Trie().MustHash()
	e.states[root] = ts.Trie().Entries()
	dg := types.NewDigest()
	pre, err := types.NewBabePrimaryPreDigest(0, slot, [sr25519.VRFOutputLength]byte{salt}, [sr25519.VRFProofLength]byte{}).ToPreRuntimeDigest()
	if err != nil {
		t.Fatal(err)
	}
	if err := dg.Add(*pre); err != nil {
		t.Fatal(err)
	}
	for _, c := range consensus {
		gd := types.NewGrandpaConsensusDigest()
		if err := gd.SetValue(c); err != nil {
			t.Fatal(err)
		}
		data, err := scale.Marshal(gd)
		if err != nil {
			t.Fatal(err)
		}
		if err := dg.Add(types.ConsensusDigest{ConsensusEngineID: types.GrandpaEngineID, Data: data}); err != nil {
			t.Fatal(err)
		}
	}
	h := types.NewHeader(parent.Hash(), root, trie.EmptyHash, parent.Number+1, dg)
	block := &types.Block{Header: *h, Body: types.Body{types.Extrinsic{salt, 1, 2}}}
	if err := e.svc.Storage.StoreTrie(ts, h); err != nil {
		t.Fatal(err)
	}
	if err := e.svc.Block.AddBlock(block); err != nil {
		t.Fatal(err)
	}
	if err := e.handler.HandleDigests(h); err != nil {
		if e.soft {
			e.mark(fmt.Sprintf("import #%d(%d) refused", h.Number, salt))
			panic("c36-import-refused: " + err.Error())
		}
		t.Fatal(err)
	}
	if err := e.svc.Grandpa.ApplyForcedChanges(h); err != nil {
		if e.soft {
			e.mark(fmt.Sprintf("import #%d(%d) refused", h.Number, salt))
			panic("c36-import-refused: " + err.Error())
		}
		t.Fatal(err)
	}
	e.mark(fmt.Sprintf("import #%d(%d)", h.Number, salt))
	return h
}

// tryImport is importBlock for generated scenarios: an import that the state services refuse (second
// forced change on a fork, forced change blocked by a pending scheduled change) ends the scenario
// instead of failing the harness.
func (e *c36Env) tryImport(parent *types.Header, slot uint64, salt byte, consensus ...any) (h *types.Header, ok bool) {
	defer func() {
		if x := recover(); x != nil {
			if s, isStr := x.(string); isStr && strings.HasPrefix(s, "c36-import-refused") {
				h, ok = nil, false
				return
			}
			panic(x)
		}
	}()
	e.soft = true
	defer func() { e.soft = false }()
	return e.importBlock(parent, slot, salt, consensus...), true
}

// finalise does what the GRANDPA voter and the digest handler do on finalisation.
func (e *c36Env) finalise(h *types.Header, round uint64) {
	t := e.t
	setID, err := e.svc.Grandpa.GetCurrentSetID()
	if err != nil {
		t.Fatal(err)
	}
	if err := e.svc.Block.SetJustification(h.Hash(), []byte{1, 2, 3, byte(round)}); err != nil {
		t.Fatal(err)
	}
	if err := e.svc.Grandpa.SetPrevotes(round, setID, []types.GrandpaSignedVote{}); err != nil {
		t.Fatal(err)
	}
	if err := e.svc.Grandpa.SetPrecommits(round, setID, []types.GrandpaSignedVote{}); err != nil {
		t.Fatal(err)
	}
	if err := e.svc.Block.SetFinalisedHash(h.Hash(), round, setID); err != nil {
		if e.tolerateFinErr {
			e.mark(fmt.Sprintf("finalise #%d again in round %d refused: %v", h.Number, round, err))
			return
		}
		t.Fatal(err)
	}
	e.acks = append(e.acks, c36Ack{at: len(e.db.log), round: round, setID: setID, number: h.Number})
	if err := e.svc.Grandpa.SetLatestRound(round); err != nil {
		t.Fatal(err)
	}
	if err := e.svc.Grandpa.ApplyScheduledChanges(h); err != nil {
		if e.soft {
			// e.g. "unfinalized ancestor": the finalisation jumped over a pending change (the node only logs
			// this); the scenario ends here, its crash points are still enumerated
			e.mark(fmt.Sprintf("finalise #%d round %d (scheduled changes not applicable: %v)", h.Number, round, err))
			panic("c36-finalise-stop")
		}
		t.Fatal(err)
	}
	e.mark(fmt.Sprintf("finalise #%d round %d", h.Number, round))
}

type c36Scenario struct {
	name string
	ver  trie.TrieLayout
	run  func(e *c36Env, g *types.Header)
}

func c36Scenarios() []c36Scenario {
	a2, a3 := c36Auth(2), c36Auth(3)
	return []c36Scenario{
		{"S1 import 3 blocks, finalise each", trie.V0, func(e *c36Env, g *types.Header) {
			b1 := e.importBlock(g, 10, 1)
			b2 := e.importBlock(b1, 11, 1)
			b3 := e.importBlock(b2, 12, 1)
			e.finalise(b1, 1)
			e.finalise(b2, 2)
			e.finalise(b3, 3)
		}},
		{"S2 fork, finalise one branch in one step", trie.V0, func(e *c36Env, g *types.Header) {
			b1 := e.importBlock(g, 10, 1)
			b2a := e.importBlock(b1, 11, 1)
			b2b := e.importBlock(b1, 12, 2)
			b3b := e.importBlock(b2b, 13, 2)
			_ = b2a
			e.finalise(b3b, 1)
		}},
		{"S3 scheduled authority change applied at finalisation", trie.V0, func(e *c36Env, g *types.Header) {
			b1 := e.importBlock(g, 10, 1, types.GrandpaScheduledChange{Auths: []types.GrandpaAuthoritiesRaw{a2}, Delay: 1})
			b2 := e.importBlock(b1, 11, 1)
			b3 := e.importBlock(b2, 12, 1, types.GrandpaScheduledChange{Auths: []types.GrandpaAuthoritiesRaw{a3}, Delay: 0})
			e.finalise(b1, 1)
			e.finalise(b2, 2)
			e.finalise(b3, 1)
		}},
		{"S4 forced authority change applied at import", trie.V0, func(e *c36Env, g *types.Header) {
			b1 := e.importBlock(g, 10, 1)
			e.finalise(b1, 1)
			b2 := e.importBlock(b1, 11, 1, types.GrandpaForcedChange{BestFinalizedBlock: 1, Auths: []types.GrandpaAuthoritiesRaw{a2}, Delay: 1})
			b3 := e.importBlock(b2, 12, 1)
			b4 := e.importBlock(b3, 13, 1)
			e.finalise(b4, 1)
		}},
		{"S5 V1 state with hashed values and a child trie", trie.V1, func(e *c36Env, g *types.Header) {
			b1 := e.importBlock(g, 10, 1)
			b2 := e.importBlock(b1, 11, 1)
			e.finalise(b2, 1)
		}},
	}
}

// c36Generated: every sequence of up to maxLen steps over a small step grammar, each a scenario of its
// own (so the crash points of every combination of imports on the tip / on a fork, announcements of
// scheduled or forced changes and finalisations are enumerated, not only the five scripted ones).
//   i : import a child of the current tip            f : import a sibling of the current tip (fork)
//   s : import a child announcing a scheduled change (delay 1)    x : ... a forced change (delay 1)
//   Z : finalise the current tip                      z : finalise the parent of the current tip
func c36Generated(maxLen int) []c36Scenario {
	var out []c36Scenario
	alphabet := []byte("ifsxZzR")
	var rec func(cur []byte)
	rec = func(cur []byte) {
		if len(cur) > 0 {
			seq := string(cur)
			// keep sequences that contain at least one finalisation and do not finalise before any import
			// ... and 'R' (the finalised head is finalised again in a later round: an idle chain) only after a
			// finalisation
			rOK := true
			if i := strings.IndexByte(seq, 'R'); i >= 0 {
				rOK = strings.ContainsAny(seq[:i], "Zz")
			}
			if strings.ContainsAny(seq, "Zz") && rOK {
				out = append(out, c36Scenario{"G:" + seq, trie.V0, func(e *c36Env, g *types.Header) { c36RunSeq(e, g, seq) }})
			}
		}
		if len(cur) == maxLen {
			return
		}
		for _, a := range alphabet {
			rec(append(append([]byte{}, cur...), a))
		}
	}
	rec(nil)
	return out
}

func c36RunSeq(e *c36Env, g *types.Header, seq string) {
	a2 := c36Auth(2)
	tip, parent := g, (*types.Header)(nil)
	var fin *types.Header = g
	round := uint64(0)
	salt := byte(1)
	isAnc := func(a, b *types.Header) bool { // a ancestor-or-equal of b, walking the headers we built
		ok, err := e.svc.Block.IsDescendantOf(a.Hash(), b.Hash())
		return err == nil && ok
	}
	for _, c := range seq {
		switch c {
		case 'i', 's', 'x':
			var dg []any
			if c == 's' {
				dg = append(dg, types.GrandpaScheduledChange{Auths: []types.GrandpaAuthoritiesRaw{a2}, Delay: 1})
			}
			if c == 'x' {
				dg = append(dg, types.GrandpaForcedChange{BestFinalizedBlock: uint32(fin.Number), Auths: []types.GrandpaAuthoritiesRaw{a2}, Delay: 1})
			}
			h, ok := e.tryImport(tip, uint64(100+tip.Number), salt, dg...)
			if !ok {
				return // the import was refused (e.g. second forced change on a fork): scenario ends
			}
			parent, tip = tip, h
		case 'f':
			if parent == nil || !isAnc(fin, parent) { // no fork below the finalised head
				continue
			}
			salt++
			h, ok := e.tryImport(parent, uint64(100+parent.Number), salt)
			if !ok {
				return
			}
			tip = h
		case 'R':
			if fin == g {
				continue
			}
			round++
			e.tolerateFinErr = true
			e.finalise(fin, round)
			e.tolerateFinErr = false
		case 'Z', 'z':
			target := tip
			if c == 'z' {
				if parent == nil || !isAnc(fin, parent) {
					continue
				}
				target = parent
			}
			if target.Number <= fin.Number || !isAnc(fin, target) {
				continue
			}
			round++
			stop := false
			func() {
				defer func() {
					if x := recover(); x != nil {
						if x == "c36-finalise-stop" {
							stop = true
							return
						}
						panic(x)
					}
				}()
				e.soft = true
				defer func() { e.soft = false }()
				e.finalise(target, round)
			}()
			if stop {
				return
			}
			fin = target
			if !isAnc(fin, tip) { // the tip was on an abandoned fork
				tip, parent = fin, nil
			}
		}
	}
}

func c36Less(r1, s1, r2, s2 uint64) bool { // (set, round) lexicographic: is (r1,s1) older than (r2,s2)?
	if s1 != s2 {
		return s1 < s2
	}
	return r1 < r2
}

func TestVerif_C36(t *testing.T) {
	r := verifmc.NewReport("C36", "crash-prefixes", "fault_enumeration")
	defer r.Write()
	r.Rule = "5 scripted scenarios plus every generated scenario of up to 3 (thorough 5) steps over {import on tip, import fork, import announcing a scheduled change, import announcing a forced change, finalise tip, finalise parent of tip, finalise the finalised head again in the next round} on the real dot/state services (import = StoreTrie+AddBlock+HandleDigests+ApplyForcedChanges as core.handleBlock; finalise = SetJustification+SetPrevotes+SetPrecommits+SetFinalisedHash+SetLatestRound+ApplyScheduledChanges) over a logging database; for every prefix of the write-group log (batches atomic, order kept) the durable image is materialised and Service.Start is run; a case is non-trivial when the prefix cuts inside a step (not at a step boundary)"
	r.Assumption("the store applies batches atomically and keeps write order (as the property states); genesis initialisation is complete before the first crash point")
	var evals int64
	genLen := verifmc.Pick(3, 5)
	all := append(c36Scenarios(), c36Generated(genLen)...)
	r.Extra["generated_scenarios_max_steps"] = genLen
	for si, sc := range all {
		if r.Expired() {
			r.Capped(fmt.Sprintf("deadline: %d of %d scenarios done", si, len(all)))
			break
		}
		env, genesisLog := c36NewEnv(t, sc.ver, sc.ver == trie.V1)
		gh, err := env.svc.Block.GetHeaderByNumber(0)
		if err != nil {
			t.Fatal(err)
		}
		sc.run(env, gh)
		log := env.db.log
		boundaries := map[int]bool{0: true}
		for _, at := range env.stepAt {
			boundaries[at] = true
		}
		if !strings.HasPrefix(sc.name, "G:") {
			r.Extra[sc.name] = map[string]any{"write_groups": len(log), "steps": env.steps, "step_ends": env.stepAt}
		}
		r.Add("scenarios", 1)
		r.Add("write_groups", int64(len(log)))
		var prevRound, prevSet uint64
		for n := 0; n <= len(log); n++ {
			evals++
			replay := map[string]any{"scenario": sc.name, "crash_after_write_group": n, "of": len(log)}
			stepName := "complete"
			for i, at := range env.stepAt {
				if n < at {
					stepName = env.steps[i]
					break
				}
			}
			db := c36Materialise(t, genesisLog, log, n)
			svc := &Service{db: db, isMemDB: true, Telemetry: c36Telemetry{}, genesisBABEConfig: env.babeCfg}
			var startErr error
			panicked, msg := verifmc.Guard(func() { startErr = svc.Start() })
			where := fmt.Sprintf("%s, crash after write group %d/%d (inside step %q)", sc.name, n, len(log), stepName)
			if panicked {
				r.Violate("restart:panic@"+verifmc.PanicSite(msg), where+": "+msg, replay)
				db.Close()
				continue
			}
			if startErr != nil {
				r.Violate("restart:start-fails", where+": Start fails: "+startErr.Error(), replay)
				db.Close()
				continue
			}
			// finalised head: header, body, state
			fh, err := svc.Block.GetHighestFinalisedHeader()
			if err != nil {
				r.Violate("restart:finalised-header-unreadable", where+": "+err.Error(), replay)
				db.Close()
				continue
			}
			if _, err := svc.Block.GetBlockBody(fh.Hash()); err != nil {
				r.Violate("restart:finalised-body-unreadable", fmt.Sprintf("%s: body of finalised #%d: %v", where, fh.Number, err), replay)
			}
			tr, err := svc.Storage.LoadFromDB(fh.StateRoot)
			if err != nil {
				r.Violate("restart:finalised-state-unreadable", fmt.Sprintf("%s: state of finalised #%d: %v", where, fh.Number, err), replay)
			} else if want, ok := env.states[fh.StateRoot]; ok {
				got := tr.Entries()
				same := len(got) == len(want)
				for k, v := range want {
					if !bytes.Equal(got[k], v) {
						same = false
					}
				}
				if !same {
					r.Violate("restart:finalised-state-differs", fmt.Sprintf("%s: state of finalised #%d has %d entries, expected %d", where, fh.Number, len(got), len(want)), replay)
				}
			} else {
				r.Violate("restart:finalised-state-unknown-root", where, replay)
			}
			// not older than the last acknowledged finalisation, and monotone over prefixes
			round, setID, err := svc.Block.GetHighestRoundAndSetID()
			if err != nil {
				r.Violate("restart:round-setid-unreadable", where+": "+err.Error(), replay)
			} else {
				var ack *c36Ack
				for i := range env.acks {
					if env.acks[i].at <= n {
						ack = &env.acks[i]
					}
				}
				if ack != nil && (c36Less(round, setID, ack.round, ack.setID) || fh.Number < ack.number) {
					r.Violate("restart:finalised-older-than-acknowledged", fmt.Sprintf("%s: recovered finalised #%d (round %d, set %d), but #%d (round %d, set %d) had been acknowledged", where, fh.Number, round, setID, ack.number, ack.round, ack.setID), replay)
				}
				if c36Less(round, setID, prevRound, prevSet) {
					r.Violate("restart:round-setid-regresses", fmt.Sprintf("%s: (round %d,set %d) older than at the previous crash point (round %d,set %d)", where, round, setID, prevRound, prevSet), replay)
				}
				prevRound, prevSet = round, setID
			}
			// current GRANDPA set: authorities and activation block present
			cur, err := svc.Grandpa.GetCurrentSetID()
			if err != nil {
				r.Violate("restart:current-setid-unreadable", where+": "+err.Error(), replay)
			} else {
				if auths, err := svc.Grandpa.GetAuthorities(cur); err != nil || len(auths) == 0 {
					r.Violate("restart:current-set-without-authorities", fmt.Sprintf("%s: current set id %d has no authority list (%v)", where, cur, err), replay)
				}
				if _, err := svc.Grandpa.GetSetIDChange(cur); err != nil {
					r.Violate("restart:current-set-without-activation-block", fmt.Sprintf("%s: current set id %d has no activation block (%v)", where, cur, err), replay)
				}
				r.Outcome(fmt.Sprintf("finalised#%d set%d", fh.Number, cur))
			}
			if !boundaries[n] {
				r.Distinct(fmt.Sprintf("%s/%d", sc.name, n))
			}
			db.Close()
		}
		var names []string
		for i, s := range env.steps {
			names = append(names, fmt.Sprintf("%s@%d", s, env.stepAt[i]))
		}
		sort.Strings(names)
		if !strings.HasPrefix(sc.name, "G:") || si%97 == 0 {
			r.Sample(map[string]any{"scenario": sc.name, "write_groups": len(log), "steps": names})
		}
		env.db.Database.Close()
	}
	r.Add("evaluations", evals)
}
