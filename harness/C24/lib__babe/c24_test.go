//go:build verif

package babe

// C24: BABE verification accepts exactly authorised blocks.
// Bounded-exhaustive enumeration of (epoch configuration, authority set size, threshold, slot,
// claiming authority, claim kind, deviation) on the real verifier, obtained through the real
// VerificationManager.getVerifierInfo + newVerifier; the verdict is compared with a reference
// evaluation of the statement.  Honest claims come from the node's own claimSlot.

import (
	"encoding/binary"
	"errors"
	"fmt"
	"math/big"
	"sync"
	"testing"
	"time"

	"github.com/ChainSafe/gossamer/dot/types"
	"github.com/ChainSafe/gossamer/internal/verifmc"
	"github.com/ChainSafe/gossamer/lib/common"
	"github.com/ChainSafe/gossamer/lib/crypto/sr25519"
	"github.com/ChainSafe/gossamer/pkg/scale"
	"golang.org/x/crypto/blake2b"
)

type c24BlockState struct{ BlockState }

func (c24BlockState) GenesisHash() common.Hash { return common.Hash{0xee} }

type c24SlotState struct{}

func (c24SlotState) CheckEquivocation(slotNow, slot uint64, header *types.Header, signer types.AuthorityID) (*types.BabeEquivocationProof, error) {
	return nil, nil
}

type c24EpochState struct {
	EpochState
	data *types.EpochDataRaw
	cfg  *types.ConfigData
}

func (e c24EpochState) GetEpochDataRaw(epoch uint64, header *types.Header) (*types.EpochDataRaw, error) {
	return e.data, nil
}
func (e c24EpochState) GetConfigData(epoch uint64, header *types.Header) (*types.ConfigData, error) {
	return e.cfg, nil
}

func c24Keypair(i int) *sr25519.Keypair {
	seed := make([]byte, 32)
	seed[0] = byte(i + 1)
	seed[31] = 0x24
	kp, err := sr25519.NewKeypairFromSeed(seed)
	if err != nil {
		panic(err)
	}
	return kp
}

// c24SecondaryAuthor: big-endian BLAKE2b-256(randomness || slot LE) mod n, from the statement of C25.
func c24SecondaryAuthor(randomness [32]byte, slot uint64, n int) uint32 {
	buf := append([]byte{}, randomness[:]...)
	s := make([]byte, 8)
	binary.LittleEndian.PutUint64(s, slot)
	h := blake2b.Sum256(append(buf, s...))
	return uint32(new(big.Int).Mod(new(big.Int).SetBytes(h[:]), big.NewInt(int64(n))).Uint64())
}

const (
	c24Primary = iota
	c24SecPlain
	c24SecVRF
)

var c24KindName = []string{"primary", "secondary-plain", "secondary-vrf"}

type c24Claim struct {
	kind      int
	authIdx   uint32 // index written into the pre-digest
	slot      uint64
	out       [sr25519.VRFOutputLength]byte
	proof     [sr25519.VRFProofLength]byte
	sealBy    int  // authority whose key seals
	sealFlip  int  // 0 none; 1 a bit of R, 2 a bit of s, 3 the schnorrkel marker bit (byte 63 bit 7) flipped
	extraLast bool // a further digest item after the seal
	noPre     bool // pre-runtime digest replaced by a consensus digest
	desc      string
}

func (c c24Claim) preDigest() (*types.PreRuntimeDigest, error) {
	switch c.kind {
	case c24Primary:
		return types.NewBabePrimaryPreDigest(c.authIdx, c.slot, c.out, c.proof).ToPreRuntimeDigest()
	case c24SecVRF:
		return types.NewBabeSecondaryVRFPreDigest(c.authIdx, c.slot, c.out, c.proof).ToPreRuntimeDigest()
	}
	return types.NewBabeSecondaryPlainPreDigest(c.authIdx, c.slot).ToPreRuntimeDigest()
}

// c24Header builds the sealed header of a claim.
func c24Header(c c24Claim, kps []*sr25519.Keypair) (*types.Header, error) {
	dg := types.NewDigest()
	if c.noPre {
		if err := dg.Add(types.ConsensusDigest{ConsensusEngineID: types.BabeEngineID, Data: []byte{1, 2, 3}}); err != nil {
			return nil, err
		}
	} else {
		pre, err := c.preDigest()
		if err != nil {
			return nil, err
		}
		if err := dg.Add(*pre); err != nil {
			return nil, err
		}
	}
	h := types.NewHeader(common.Hash{1}, common.Hash{2}, common.Hash{3}, 7, dg)
	enc, err := scale.Marshal(*h)
	if err != nil {
		return nil, err
	}
	hash := blake2b.Sum256(enc)
	sig, err := kps[c.sealBy].Sign(hash[:])
	if err != nil {
		return nil, err
	}
	switch c.sealFlip {
	case 1:
		sig[5] ^= 0x10
	case 2:
		sig[40] ^= 0x01
	case 3:
		sig[63] ^= 0x80
	}
	if err := h.Digest.Add(types.SealDigest{ConsensusEngineID: types.BabeEngineID, Data: sig}); err != nil {
		return nil, err
	}
	if c.extraLast {
		if err := h.Digest.Add(types.ConsensusDigest{ConsensusEngineID: types.BabeEngineID, Data: []byte{9}}); err != nil {
			return nil, err
		}
	}
	return types.NewHeader(h.ParentHash, h.StateRoot, h.ExtrinsicsRoot, h.Number, h.Digest), nil
}

// c24Reference evaluates the statement: is this block authorised?
// The sr25519 library is used only for the VRF and signature primitives.
func c24Reference(c c24Claim, h *types.Header, secondarySlots byte, auths []types.AuthorityRaw, randomness [32]byte,
	epoch uint64, threshold *big.Int) (bool, string) {
	n := len(auths)
	if c.noPre {
		return false, "no pre-runtime digest first"
	}
	if c.extraLast {
		return false, "seal is not the last digest item"
	}
	if uint64(c.authIdx) >= uint64(n) {
		return false, "authority index out of range"
	}
	pk, err := sr25519.NewPublicKey(auths[c.authIdx].Key[:])
	if err != nil {
		return false, "bad key"
	}
	vrfOK := func() bool {
		ok, err := pk.VrfVerify(makeTranscript(randomness, c.slot, epoch), c.out, c.proof)
		return err == nil && ok
	}
	switch c.kind {
	case c24Primary:
		if !vrfOK() {
			return false, "invalid VRF proof"
		}
		inout, err := sr25519.AttachInput(c.out, pk, makeTranscript(randomness, c.slot, epoch))
		if err != nil {
			return false, "bad VRF output"
		}
		b, err := inout.MakeBytes(16, []byte("substrate-babe-vrf"))
		if err != nil {
			return false, "bad VRF output"
		}
		le := make([]byte, 16)
		for i := range b {
			le[15-i] = b[i]
		}
		if new(big.Int).SetBytes(le).Cmp(threshold) >= 0 {
			return false, "VRF output not below the threshold"
		}
	case c24SecPlain:
		if secondarySlots != 1 {
			return false, "secondary plain claims not allowed by the configuration"
		}
		if c24SecondaryAuthor(randomness, c.slot, n) != c.authIdx {
			return false, "not the authority assigned to the slot"
		}
	case c24SecVRF:
		if secondarySlots != 2 {
			return false, "secondary VRF claims not allowed by the configuration"
		}
		if c24SecondaryAuthor(randomness, c.slot, n) != c.authIdx {
			return false, "not the authority assigned to the slot"
		}
		if !vrfOK() {
			return false, "invalid VRF proof"
		}
	}
	// seal: signature of authority authIdx over the header without the seal
	hd := types.NewDigest()
	for _, it := range h.Digest[:len(h.Digest)-1] {
		v, _ := it.Value()
		_ = hd.Add(v)
	}
	enc, err := scale.Marshal(*types.NewHeader(h.ParentHash, h.StateRoot, h.ExtrinsicsRoot, h.Number, hd))
	if err != nil {
		return false, "encode"
	}
	hash := blake2b.Sum256(enc)
	sv, _ := h.Digest[len(h.Digest)-1].Value()
	seal, ok := sv.(types.SealDigest)
	if !ok {
		return false, "last item is not a seal"
	}
	if c.sealFlip != 0 {
		// the harness itself corrupted one bit of a valid signature: it is not a signature of anybody (decided
		// from the construction, not by asking the library under test)
		return false, "seal is a corrupted signature"
	}
	okSig, err := pk.Verify(hash[:], seal.Data)
	if err != nil || !okSig {
		return false, "seal not signed by the claiming authority"
	}
	return true, "authorised"
}

func TestVerif_C24(t *testing.T) {
	r := verifmc.NewReport("C24", "babe-verify", "exploration")
	defer r.Write()
	maxN := verifmc.Pick(3, 6)
	nSlots := verifmc.Pick(4, 48)
	r.Rule = fmt.Sprintf("every (allowed-slots configuration 0/1/2, n=1..%d sr25519 authorities, threshold from c in {1/1, 1/2, 1/10^6}, slot 0..%d, claiming authority, claim kind primary/secondary-plain/secondary-VRF with the claimant's own correct VRF signature) x deviations {none, every other authority index incl. n and 2^32-1, VRF output bit flip, VRF proof bit flip, slot changed after signing, seal bit flip (in R, in s, the schnorrkel marker bit), seal by every other authority, extra digest after the seal, pre-runtime digest missing}; verdict of the real verifier (built by VerificationManager.getVerifierInfo + newVerifier) compared with a reference evaluation of the statement; additionally every claim produced by the node's own claimSlot must verify", maxN, nSlots-1)
	r.Assumption("sr25519 VRF and signature primitives (go-schnorrkel) are trusted; the reference uses them only as primitives")
	randomness := [32]byte{0x42, 1, 2, 3}
	epoch := uint64(3)
	type cfgT struct {
		sec    byte
		c1, c2 uint64
	}
	var elems []func() (evals int)
	var mu sync.Mutex
	accepted, rejected := 0, 0
	for n := 1; n <= maxN; n++ {
		kps := make([]*sr25519.Keypair, n+1) // one extra key: a non-authority sealer
		for i := range kps {
			kps[i] = c24Keypair(i)
		}
		auths := make([]types.AuthorityRaw, n)
		for i := 0; i < n; i++ {
			auths[i] = types.AuthorityRaw{Key: kps[i].Public().(*sr25519.PublicKey).AsBytes(), Weight: 1}
		}
		for _, cfg := range []cfgT{{0, 1, 1}, {1, 1, 1}, {2, 1, 1}, {0, 1, 2}, {1, 1, 2}, {2, 1, 2}, {1, 1, 1000000}, {2, 1, 1000000}, {0, 1, 1000000}} {
			n, cfg, kps, auths := n, cfg, kps, auths
			elems = append(elems, func() int {
				evals := 0
				es := c24EpochState{data: &types.EpochDataRaw{Authorities: auths, Randomness: randomness}, cfg: &types.ConfigData{C1: cfg.c1, C2: cfg.c2, SecondarySlots: cfg.sec}}
				vm := &VerificationManager{blockState: c24BlockState{}, slotState: c24SlotState{}, epochState: es}
				info, err := vm.getVerifierInfo(epoch, nil)
				if err != nil {
					r.Violate("getVerifierInfo:error", err.Error(), nil)
					return 0
				}
				thr, _ := CalculateThreshold(cfg.c1, cfg.c2, n)
				thrBig := new(big.Int).SetBytes(thr.Bytes(binary.BigEndian))
				for slot := uint64(0); slot < uint64(nSlots); slot++ {
					for who := 0; who < n; who++ {
						// the node's own lottery
						ed := &epochData{randomness: randomness, authorityIndex: uint32(who), authorities: auths, threshold: thr, allowedSlots: types.AllowedSlots(cfg.sec)}
						if pre, err := claimSlot(epoch, slot, ed, kps[who]); err == nil {
							evals++
							dg := types.NewDigest()
							_ = dg.Add(*pre)
							h := types.NewHeader(common.Hash{1}, common.Hash{2}, common.Hash{3}, 7, dg)
							enc, _ := scale.Marshal(*h)
							hash := blake2b.Sum256(enc)
							sig, _ := kps[who].Sign(hash[:])
							_ = h.Digest.Add(types.SealDigest{ConsensusEngineID: types.BabeEngineID, Data: sig})
							hh := types.NewHeader(h.ParentHash, h.StateRoot, h.ExtrinsicsRoot, h.Number, h.Digest)
							v := newVerifier(c24BlockState{}, c24SlotState{}, epoch, info, time.Second)
							if err := v.verifyAuthorshipRight(hh); err != nil {
								r.Violate("own-claim-rejected", fmt.Sprintf("cfg sec=%d c=%d/%d n=%d slot %d authority %d: claim from claimSlot rejected: %v", cfg.sec, cfg.c1, cfg.c2, n, slot, who, err), nil)
							}
							r.Outcome("own-claim-verified")
						}
						out, proof, err := kps[who].VrfSign(makeTranscript(randomness, slot, epoch))
						if err != nil {
							panic(err)
						}
						for kind := 0; kind < 3; kind++ {
							base := c24Claim{kind: kind, authIdx: uint32(who), slot: slot, out: out, proof: proof, sealBy: who, desc: "none"}
							var claims []c24Claim
							claims = append(claims, base)
							for j := 0; j <= n; j++ { // other authority index (j == n: out of range)
								if j != who {
									c := base
									c.authIdx = uint32(j)
									c.desc = fmt.Sprintf("authority index %d instead of %d", j, who)
									claims = append(claims, c)
									if j < n { // ... and sealed by that other authority (a consistent lie)
										c2 := c
										c2.sealBy = j
										c2.desc += ", sealed by it"
										claims = append(claims, c2)
									}
								}
							}
							c := base
							c.authIdx = 0xffffffff
							c.desc = "authority index 2^32-1"
							claims = append(claims, c)
							if kind != c24SecPlain {
								c = base
								c.out[0] ^= 1
								c.desc = "VRF output bit flipped"
								claims = append(claims, c)
								c = base
								c.proof[3] ^= 0x20
								c.desc = "VRF proof bit flipped"
								claims = append(claims, c)
							}
							c = base
							c.slot = slot + 1
							c.desc = "slot changed after signing"
							claims = append(claims, c)
							for f, what := range []string{"", "in R", "in s", "the schnorrkel marker"} {
								if f == 0 {
									continue
								}
								c = base
								c.sealFlip = f
								c.desc = "seal bit flipped (" + what + ")"
								claims = append(claims, c)
							}
							for j := 0; j <= n; j++ {
								if j != who {
									c = base
									c.sealBy = j
									c.desc = fmt.Sprintf("sealed by key %d", j)
									claims = append(claims, c)
								}
							}
							c = base
							c.extraLast = true
							c.desc = "extra digest after the seal"
							claims = append(claims, c)
							c = base
							c.noPre = true
							c.desc = "pre-runtime digest missing"
							claims = append(claims, c)
							for _, c := range claims {
								evals++
								h, err := c24Header(c, kps)
								if err != nil {
									panic(err)
								}
								want, why := c24Reference(c, h, cfg.sec, auths, randomness, epoch, thrBig)
								v := newVerifier(c24BlockState{}, c24SlotState{}, epoch, info, time.Second)
								var verr error
								panicked, msg := verifmc.Guard(func() { verr = v.verifyAuthorshipRight(h) })
								got := !panicked && verr == nil
								label := fmt.Sprintf("cfg(secondarySlots=%d c=%d/%d) n=%d slot=%d claimant=%d kind=%s deviation=%q", cfg.sec, cfg.c1, cfg.c2, n, slot, who, c24KindName[kind], c.desc)
								replay := map[string]any{"case": label}
								mu.Lock()
								if got {
									accepted++
								} else {
									rejected++
								}
								mu.Unlock()
								switch {
								case panicked:
									r.Violate("verify:panic@"+verifmc.PanicSite(msg), label+": "+msg, replay)
								case got && !want:
									sig := "accepts-unauthorised:" + c24KindName[kind]
									if why == "secondary plain claims not allowed by the configuration" || why == "secondary VRF claims not allowed by the configuration" {
										sig = fmt.Sprintf("accepts-%s-claim-under-allowed-slots-%d", c24KindName[kind], cfg.sec)
									}
									r.Violate(sig, fmt.Sprintf("%s: verifier accepts, statement rejects (%s)", label, why), replay)
								case !got && want:
									if errors.Is(verr, ErrProducerEquivocated) {
										continue
									}
									r.Violate("rejects-authorised:"+c24KindName[kind], fmt.Sprintf("%s: verifier rejects (%v), statement accepts", label, verr), replay)
								}
								r.Outcome(fmt.Sprintf("%s/%s/%t", c24KindName[kind], why, got))
								if want {
									r.Distinct(label)
								}
							}
						}
					}
				}
				return evals
			})
		}
	}
	var total int64
	verifmc.ParallelFor(r, len(elems), func(i int) {
		n := elems[i]()
		mu.Lock()
		total += int64(n)
		mu.Unlock()
	}, func(i int, msg string) { r.Violate("harness-panic", msg, nil) })
	r.Add("evaluations", total)
	r.Extra["accepted"] = accepted
	r.Extra["rejected"] = rejected
	r.Sample(map[string]any{"case": "cfg(secondarySlots=2 c=1/2) n=2 slot=0 claimant=0 kind=secondary-plain deviation=none"})
}
