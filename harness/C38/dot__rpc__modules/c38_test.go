//go:build verif

package modules

// C38: paginated key listing enumerates each matching key exactly once.
// For every state over a colliding key alphabet (all subsets up to a size), every prefix
// and every page size, state_getKeysPaged is called repeatedly with afterKey = last key
// returned, through the real StateModule over the real InmemoryStorageState + BlockState
// (Block=nil: best block); the concatenation must be exactly the matching keys ascending.
// state_getPairs(prefix) must be exactly the matching (key,value) pairs.

import (
	"bytes"
	"encoding/json"
	"fmt"
	"sort"
	"strings"
	"sync"
	"testing"

	"github.com/ChainSafe/gossamer/dot/state"
	"github.com/ChainSafe/gossamer/dot/types"
	"github.com/ChainSafe/gossamer/internal/database"
	"github.com/ChainSafe/gossamer/internal/verifmc"
	"github.com/ChainSafe/gossamer/lib/common"
	"github.com/ChainSafe/gossamer/pkg/trie"
	inmemory_trie "github.com/ChainSafe/gossamer/pkg/trie/inmemory"
)

type c38Telemetry struct{}

func (c38Telemetry) SendMessage(json.Marshaler) {}

var c38Keys = [][]byte{{}, {0x00}, {0x01}, {0x10}, {0x00, 0x00}, {0x01, 0x00}, {0x01, 0x01}, {0x10, 0x00}, {0x15, 0x00}, {0x15, 0x23}}
var c38Prefixes = [][]byte{{}, {0x00}, {0x01}, {0x10}, {0x15}, {0x01, 0x00}, {0x10, 0x00}, {0x02}, {0x23}}

func c38Nibbles(k []byte) []byte {
	out := make([]byte, 0, 2*len(k))
	for _, b := range k {
		out = append(out, b>>4, b&0xf)
	}
	return out
}

// what the known trie defect (trailing zero nibble of the prefix dropped) would match
func c38TrimmedMatch(keys []string, p []byte) []string {
	n := c38Nibbles(p)
	if len(n) > 0 && n[len(n)-1] == 0 {
		n = n[:len(n)-1]
	}
	var out []string
	for _, k := range keys {
		if bytes.HasPrefix(c38Nibbles([]byte(k)), n) {
			out = append(out, k)
		}
	}
	return out
}

func c38Hex(ks []string) string {
	var p []string
	for _, k := range ks {
		p = append(p, fmt.Sprintf("%x", k))
	}
	return "[" + strings.Join(p, " ") + "]"
}

func c38Module(t *testing.T, m map[string][]byte) (*StateModule, func()) {
	db, err := database.LoadDatabase("", true)
	if err != nil {
		t.Fatal(err)
	}
	tr := inmemory_trie.NewEmptyTrie()
	tr.SetVersion(trie.V0)
	for k, v := range m {
		if err := tr.Put([]byte(k), v); err != nil {
			t.Fatal(err)
		}
	}
	root, err := tr.Hash()
	if err != nil {
		t.Fatal(err)
	}
	tries := state.NewTries()
	tries.SetTrie(tr)
	header := types.NewHeader(common.Hash{}, root, common.Hash{}, 0, types.NewDigest())
	bs, err := state.NewBlockStateFromGenesis(db, tries, header, c38Telemetry{})
	if err != nil {
		t.Fatal(err)
	}
	ss, err := state.NewStorageState(db, bs, tries)
	if err != nil {
		t.Fatal(err)
	}
	return NewStateModule(nil, ss, nil, nil), func() { db.Close() }
}

func TestVerif_C38(t *testing.T) {
	r := verifmc.NewReport("C38", "rpc-paged-keys", "exploration")
	defer r.Write()
	maxSize := verifmc.Pick(3, 7)
	r.Rule = fmt.Sprintf("every subset of up to %d keys of a 10-key colliding alphabet (empty key, keys that prefix other keys, zero-low-nibble bytes) as a state x 9 prefixes x every page size 1..n+1: state_getKeysPaged is iterated with afterKey = last returned key through the real StateModule/InmemoryStorageState/BlockState (Block=nil) and the concatenation compared with the sorted matching keys; state_getPairs(prefix) compared with the matching pairs; a case is non-trivial when at least one key matches the prefix", maxSize)
	// enumerate subsets
	var subsets [][]int
	var rec func(start int, cur []int)
	rec = func(start int, cur []int) {
		subsets = append(subsets, append([]int{}, cur...))
		if len(cur) == maxSize {
			return
		}
		for i := start; i < len(c38Keys); i++ {
			rec(i+1, append(cur, i))
		}
	}
	rec(0, nil)
	var mu sync.Mutex
	var evals int64
	verifmc.ParallelFor(r, len(subsets), func(si int) {
		m := map[string][]byte{}
		for _, ki := range subsets[si] {
			m[string(c38Keys[ki])] = []byte{0xa0 + byte(ki)}
		}
		var all []string
		for k := range m {
			all = append(all, k)
		}
		sort.Strings(all)
		sm, closeFn := c38Module(t, m)
		defer closeFn()
		n := int64(0)
		for _, p := range c38Prefixes {
			var want []string
			for _, k := range all {
				if strings.HasPrefix(k, string(p)) {
					want = append(want, k)
				}
			}
			zeroLow := len(p) > 0 && p[len(p)-1]&0x0f == 0
			trimmed := c38TrimmedMatch(all, p)
			classify := func(op string, got []string) string {
				if zeroLow && c38Hex(got) == c38Hex(trimmed) {
					return op + ":zero-low-nibble-prefix-trimmed"
				}
				return op + ":wrong-result"
			}
			replay := map[string]any{"state_keys": c38Hex(all), "prefix": fmt.Sprintf("%x", p)}
			for qty := 1; qty <= len(want)+1; qty++ {
				n++
				var got []string
				after := ""
				ok := true
				for page := 0; page <= len(all)+2; page++ {
					var res StateStorageKeysResponse
					err := sm.GetKeysPaged(nil, &StateStorageKeyRequest{Prefix: fmt.Sprintf("0x%x", p), Qty: uint32(qty), AfterKey: after}, &res)
					if err != nil {
						r.Violate("GetKeysPaged:error", fmt.Sprintf("state %s prefix %x qty %d: error %v", c38Hex(all), p, qty, err), replay)
						ok = false
						break
					}
					if len(res) == 0 {
						break
					}
					if len(res) > qty {
						r.Violate("GetKeysPaged:page-too-long", fmt.Sprintf("state %s prefix %x qty %d: page of %d keys", c38Hex(all), p, qty, len(res)), replay)
						ok = false
						break
					}
					for _, hk := range res {
						b, err := common.HexToBytes(hk)
						if err != nil {
							r.Violate("GetKeysPaged:bad-hex", fmt.Sprintf("returned key %q is not hex", hk), replay)
						}
						got = append(got, string(b))
					}
					after = res[len(res)-1]
				}
				if !ok {
					continue
				}
				if c38Hex(got) != c38Hex(want) {
					r.Violate(classify("GetKeysPaged", got), fmt.Sprintf("state %s prefix %x page size %d: pages enumerate %s, matching keys are %s", c38Hex(all), p, qty, c38Hex(got), c38Hex(want)), replay)
					r.Outcome("mismatch")
				} else {
					r.Outcome(fmt.Sprintf("ok matches=%d", len(want)))
					if len(want) > 0 {
						r.Distinct(fmt.Sprintf("%s|%x|%d", c38Hex(all), p, qty))
					}
				}
			}
			// pairs
			n++
			ps := fmt.Sprintf("0x%x", p)
			var res StatePairResponse
			if err := sm.GetPairs(nil, &StatePairRequest{Prefix: &ps}, &res); err != nil {
				r.Violate("GetPairs:error", fmt.Sprintf("state %s prefix %x: error %v", c38Hex(all), p, err), replay)
				continue
			}
			gotPairs := map[string]string{}
			var gotKeys []string
			dup := false
			for _, it := range res {
				pair, okc := it.([]string)
				if !okc || len(pair) != 2 {
					r.Violate("GetPairs:malformed", fmt.Sprintf("pair %v", it), replay)
					continue
				}
				kb, _ := common.HexToBytes(pair[0])
				if _, seen := gotPairs[string(kb)]; seen {
					dup = true
				}
				gotPairs[string(kb)] = pair[1]
				gotKeys = append(gotKeys, string(kb))
			}
			sort.Strings(gotKeys)
			okp := !dup && c38Hex(gotKeys) == c38Hex(want)
			for _, k := range want {
				if gotPairs[k] != common.BytesToHex(m[k]) {
					okp = false
				}
			}
			if !okp {
				r.Violate(classify("GetPairs", gotKeys), fmt.Sprintf("state %s prefix %x: pairs %v, want keys %s with their values", c38Hex(all), p, gotPairs, c38Hex(want)), replay)
			}
		}
		mu.Lock()
		evals += n
		mu.Unlock()
		if si%97 == 0 {
			r.Sample(map[string]any{"state_keys": c38Hex(all), "prefixes": len(c38Prefixes)})
		}
	}, func(i int, msg string) {
		r.Violate("panic@"+verifmc.PanicSite(msg), msg, map[string]any{"subset": subsets[i]})
	})
	r.Add("evaluations", evals)
	r.Add("states_built", int64(len(subsets)))
}
