//go:build verif

package lrucache

// C35: shared LRU caches are safe under concurrency.
// Part "seq": BFS over sequential Get/Put histories for capacities 1..4 (8 thorough) against a
// capacity-bounded recency list.  Part "conc": all interleavings (preemption bounded) of 2-3
// threads on the real LRUCache rebuilt on the vsync shim, linearizability + race detector.

import (
	"fmt"
	"strings"
	"testing"

	"github.com/ChainSafe/gossamer/internal/verifmc"
)

// model: most recently used first
type c35Model struct {
	cap  int
	keys []int
	vals map[int]int
}

func c35New(cap int) *c35Model { return &c35Model{cap: cap, vals: map[int]int{}} }
func (m *c35Model) clone() *c35Model {
	c := &c35Model{cap: m.cap, keys: append([]int{}, m.keys...), vals: map[int]int{}}
	for k, v := range m.vals {
		c.vals[k] = v
	}
	return c
}
func (m *c35Model) touch(k int) {
	for i, x := range m.keys {
		if x == k {
			m.keys = append(m.keys[:i], m.keys[i+1:]...)
			break
		}
	}
	m.keys = append([]int{k}, m.keys...)
}
func (m *c35Model) get(k int) string {
	v, ok := m.vals[k]
	if !ok {
		return "0"
	}
	m.touch(k)
	return fmt.Sprint(v)
}
func (m *c35Model) put(k, v int) string {
	if _, ok := m.vals[k]; ok {
		m.vals[k] = v
		m.touch(k)
		return "-"
	}
	if len(m.keys) >= m.cap {
		last := m.keys[len(m.keys)-1]
		m.keys = m.keys[:len(m.keys)-1]
		delete(m.vals, last)
	}
	m.vals[k] = v
	m.touch(k)
	return "-"
}

type c35Op struct {
	kind string
	k, v int
}

func (o c35Op) Name() string {
	if o.kind == "get" {
		return fmt.Sprintf("get(%d)", o.k)
	}
	return fmt.Sprintf("put(%d,%d)", o.k, o.v)
}

func c35Real(c *LRUCache[int, int], o c35Op) string {
	if o.kind == "get" {
		return fmt.Sprint(c.Get(o.k)) // zero value 0 = absent (values are never 0)
	}
	c.Put(o.k, o.v)
	return "-"
}
func c35Mod(m *c35Model, o c35Op) string {
	if o.kind == "get" {
		return m.get(o.k)
	}
	return m.put(o.k, o.v)
}

type c35State struct {
	c *LRUCache[int, int]
	m *c35Model
}

func c35Canon(s *c35State) []byte {
	var b strings.Builder
	fmt.Fprintf(&b, "cap=%d list=", s.c.capacity)
	for e := s.c.lruList.Front(); e != nil; e = e.Next() {
		en := e.Value.(*Entry[int, int])
		fmt.Fprintf(&b, "(%d=%d)", en.key, en.value)
	}
	fmt.Fprintf(&b, " maplen=%d model=%v", len(s.c.cache), s.m.keys)
	return []byte(b.String())
}

func TestVerif_C35_seq(t *testing.T) {
	r := verifmc.NewReport("C35", "seq", "model_checking")
	defer r.Write()
	maxCap := verifmc.Pick(4, 8)
	depth := verifmc.Pick(6, 7)
	r.Rule = fmt.Sprintf("BFS over sequential Get/Put histories (depth %d) on the real LRUCache for every capacity 1..%d with keys 1..cap+1 and two values, against a capacity-bounded recency list; in every state the private list order, the map size and Get of every key (on a replayed copy) are compared", depth, maxCap)
	for cap := 1; cap <= maxCap; cap++ {
		cap := cap
		if cap > 4 {
			depth = 6
		}
		var ops []verifmc.Op
		for k := 1; k <= cap+1; k++ {
			ops = append(ops, c35Op{"get", k, 0}, c35Op{"put", k, 1}, c35Op{"put", k, 2})
		}
		h := &verifmc.Hist[*c35State]{
			Fresh: func() *c35State { return &c35State{NewLRUCache[int, int](uint(cap)), c35New(cap)} },
			Ops:   func(s *c35State) []verifmc.Op { return ops },
			Apply: func(s *c35State, op verifmc.Op) string {
				o := op.(c35Op)
				if got, want := c35Real(s.c, o), c35Mod(s.m, o); got != want {
					return fmt.Sprintf("%s: returned %s, model %s (model recency %v)", o.Name(), got, want, s.m.keys)
				}
				return ""
			},
			Check: func(s *c35State) string {
				// structural: list order == model recency, map consistent, size bounded
				var got []int
				for e := s.c.lruList.Front(); e != nil; e = e.Next() {
					got = append(got, e.Value.(*Entry[int, int]).key)
				}
				if fmt.Sprint(got) != fmt.Sprint(s.m.keys) {
					return fmt.Sprintf("recency: list order %v, model %v", got, s.m.keys)
				}
				if len(s.c.cache) != len(s.m.keys) || len(s.c.cache) > cap {
					return fmt.Sprintf("size: map holds %d entries, model %d, capacity %d", len(s.c.cache), len(s.m.keys), cap)
				}
				r.Outcome(fmt.Sprintf("cap=%d len=%d", cap, len(s.m.keys)))
				return ""
			},
			Canon: c35Canon,
			Depth: depth,
		}
		h.Explore(r)
	}
}

type c35Scenario struct {
	name    string
	cap     int
	pre     []c35Op
	threads [][]c35Op
}

func c35Scenarios() []c35Scenario {
	g := func(k int) c35Op { return c35Op{"get", k, 0} }
	p := func(k, v int) c35Op { return c35Op{"put", k, v} }
	var out []c35Scenario
	add := func(name string, cap int, pre []c35Op, th ...[]c35Op) {
		out = append(out, c35Scenario{name, cap, pre, th})
	}
	add("get-get|get-get cap2", 2, []c35Op{p(1, 1), p(2, 1)}, []c35Op{g(1), g(2)}, []c35Op{g(2), g(1)})
	add("get-put|put-get cap1", 1, []c35Op{p(1, 1)}, []c35Op{g(1), p(2, 1)}, []c35Op{p(3, 1), g(1)})
	add("put-put|put-put cap2", 2, nil, []c35Op{p(1, 1), p(2, 1)}, []c35Op{p(3, 1), p(1, 2)})
	add("get-put|get-get cap2 evict", 2, []c35Op{p(1, 1), p(2, 1)}, []c35Op{g(1), p(3, 1)}, []c35Op{g(2), g(1)})
	add("put-get|put-get same key", 2, nil, []c35Op{p(1, 1), g(1)}, []c35Op{p(1, 2), g(1)})
	add("get|get|put cap2", 2, []c35Op{p(1, 1), p(2, 1)}, []c35Op{g(1)}, []c35Op{g(2)}, []c35Op{p(3, 1)})
	add("put|put|get cap1", 1, nil, []c35Op{p(1, 1)}, []c35Op{p(2, 1)}, []c35Op{g(1)})
	add("get|get|get cap3", 3, []c35Op{p(1, 1), p(2, 1), p(3, 1)}, []c35Op{g(1)}, []c35Op{g(2)}, []c35Op{g(1)})
	// a full cache of capacity 3, two overlapping Gets of the oldest and the newest entry, then a Put of a
	// new key: whichever Get comes first, the untouched middle entry must be the one evicted
	add("get|get|put cap3 full", 3, []c35Op{p(1, 1), p(2, 1), p(3, 1)}, []c35Op{g(1)}, []c35Op{g(3)}, []c35Op{p(4, 1)})
	add("get-put|get-get cap3 full", 3, []c35Op{p(1, 1), p(2, 1), p(3, 1)}, []c35Op{g(1), p(4, 1)}, []c35Op{g(3), g(1)})
	if verifmc.Thorough() {
		add("3x2 mixed cap2", 2, []c35Op{p(1, 1)}, []c35Op{g(1), p(2, 1)}, []c35Op{p(3, 1), g(2)}, []c35Op{g(1), g(3)})
	}
	return out
}

func TestVerif_C35_conc(t *testing.T) {
	r := verifmc.NewReport("C35", "conc", "model_checking")
	defer r.Write()
	bound2 := verifmc.Pick(3, -1)
	bound3 := verifmc.Pick(2, 3)
	verifmc.SchedHeldPoints = true // also a point right after every acquisition, so TryLock can be seen to fail
	r.Rule = fmt.Sprintf("controlled scheduler: every interleaving of the scheduling points (operation call/return, before every Lock/RLock/TryLock, right after every acquisition, after every Unlock/RUnlock) of 2x2 and 3x1 (thorough 3x2) thread scenarios on the real LRUCache rebuilt on the vsync shim, preemption bound %d (2 threads) / %d (3 threads), -1 = unbounded; every call/return history plus a final Get of every key is checked for linearizability against the recency-list model; built with -race with masked hand-offs", bound2, bound3)
	r.Assumption("sequentially consistent interleavings at lock granularity; unsynchronised accesses are caught by the race detector, not interleaved")
	for si, sc := range c35Scenarios() {
		sc := sc
		nkeys := sc.cap + 2
		// every thread list is followed by nothing; a final observer thread is not needed: the final
		// content is compared through extra Get ops appended to thread 0 after its own ops? No - that
		// would change recency concurrently.  Instead the final state is compared structurally below.
		var lastCache *LRUCache[int, int]
		setup := func() func(tid int) []verifmc.ThreadOp {
			c := NewLRUCache[int, int](uint(sc.cap))
			lastCache = c
			for _, o := range sc.pre {
				c35Real(c, o)
			}
			return func(tid int) []verifmc.ThreadOp {
				var ops []verifmc.ThreadOp
				for _, o := range sc.threads[tid] {
					o := o
					ops = append(ops, func() string { return c35Real(c, o) })
				}
				return ops
			}
		}
		newModel := func() any {
			m := c35New(sc.cap)
			for _, o := range sc.pre {
				c35Mod(m, o)
			}
			return m
		}
		clone := func(m any) any { return m.(*c35Model).clone() }
		bound := bound2
		if len(sc.threads) > 2 {
			bound = bound3
		}
		outcomes := map[string]bool{}
		var first *verifmc.Execution
		st := verifmc.ExploreSchedules(r, len(sc.threads), bound, setup, func(x *verifmc.Execution) {
			if first == nil {
				first = x
			}
			// final content as an extra pseudo-operation that must come last in the witness
			var final []string
			for e := lastCache.lruList.Front(); e != nil; e = e.Next() {
				en := e.Value.(*Entry[int, int])
				final = append(final, fmt.Sprintf("%d=%d", en.key, en.value))
			}
			finalStr := strings.Join(final, ",")
			hist := append([]verifmc.OpRecord{}, x.History...)
			maxRet := 0
			for _, h := range hist {
				if h.Ret > maxRet {
					maxRet = h.Ret
				}
			}
			hist = append(hist, verifmc.OpRecord{Thread: -1, Index: 0, Inv: maxRet + 1, Ret: maxRet + 2, Result: finalStr})
			step := func(m any, th, idx int) string {
				mm := m.(*c35Model)
				if th == -1 {
					var f []string
					for _, k := range mm.keys {
						f = append(f, fmt.Sprintf("%d=%d", k, mm.vals[k]))
					}
					return strings.Join(f, ",")
				}
				return c35Mod(mm, sc.threads[th][idx])
			}
			var res []string
			for _, h := range hist {
				res = append(res, h.Result)
			}
			outcomes[strings.Join(res, "|")] = true
			replay := map[string]any{"scenario": sc.name, "choices": x.Choices}
			switch {
			case x.Deadlock:
				r.Violate("conc:deadlock", "deadlock in scenario "+sc.name, replay)
			case x.Panic != "":
				r.Violate("conc:panic", "panic in scenario "+sc.name+": "+x.Panic, replay)
			case len(lastCache.cache) != len(final) || len(final) > sc.cap:
				r.Violate("conc:size", fmt.Sprintf("scenario %s: map %d entries, list %d, capacity %d", sc.name, len(lastCache.cache), len(final), sc.cap), replay)
			case !verifmc.Linearizable(hist, newModel, step, clone):
				r.Violate("conc:not-linearizable", fmt.Sprintf("scenario %s: history %+v has no sequential witness", sc.name, hist), replay)
			}
		})
		_ = nkeys
		if first != nil {
			again := verifmc.ReplaySchedule(len(sc.threads), setup, first.Choices)
			if fmt.Sprint(again.History) != fmt.Sprint(first.History) {
				t.Fatalf("scenario %s: replaying a recorded schedule twice gives different observations", sc.name)
			}
		}
		r.Add("states", int64(st.Executions))
		r.Add("transitions", int64(st.Transitions))
		r.Add("traces_validated_against_impl", int64(st.Executions))
		r.Add("evaluations", int64(st.Executions))
		for k := range outcomes {
			r.Outcome(fmt.Sprintf("s%d:%s", si, k))
			r.Distinct(fmt.Sprintf("s%d:%s", si, k))
		}
		r.Extra[sc.name] = map[string]any{"schedules": st.Executions, "distinct_outcomes": len(outcomes), "max_points": st.MaxPoints, "bound": bound}
		if st.Capped {
			r.Capped("deadline inside scenario " + sc.name)
		}
		if si < 3 && first != nil {
			r.Sample(map[string]any{"scenario": sc.name, "schedule": first.Choices, "history": fmt.Sprint(first.History)})
		}
	}
}
