//go:build verif

package scale

// C11: for every value of every supported shape, decoding its encoding gives back an equal value,
// and the encoding is byte-identical to the canonical SCALE encoding.
// Oracle: the independent reference codec internal/verifmc/ref (C11Enc / C11Dec).

import (
	"bytes"
	"fmt"
	"math/big"
	"testing"

	"github.com/ChainSafe/gossamer/internal/verifmc"
	"github.com/ChainSafe/gossamer/internal/verifmc/ref"
)

var (
	c11Two32 = new(big.Int).Lsh(big.NewInt(1), 32)
	c11Two56 = new(big.Int).Lsh(big.NewInt(1), 56)
)

// c11HasMidCompact: the value contains a compact uint/int in [2^32, 2^56), i.e. one whose canonical
// encoding uses the big-integer mode with 5, 6 or 7 value bytes.
func c11HasMidCompact(t *ref.C11Type, v *ref.C11Val) bool {
	found := false
	c11Walk(t, v, func(t *ref.C11Type, v *ref.C11Val) {
		if t.Kind == ref.C11Compact && v.N.Cmp(c11Two32) >= 0 && v.N.Cmp(c11Two56) < 0 {
			found = true
		}
	})
	return found
}

func c11MaxMapEntries(t *ref.C11Type, v *ref.C11Val) int {
	m := 0
	c11Walk(t, v, func(t *ref.C11Type, v *ref.C11Val) {
		if t.Kind == ref.C11Map && len(v.Elems)/2 > m {
			m = len(v.Elems) / 2
		}
	})
	return m
}

type c11Case struct {
	Type  string `json:"type"`
	Value string `json:"value"`
	Enc   string `json:"gossamer_encoding,omitempty"`
	Want  string `json:"canonical_encoding,omitempty"`
}

func c11CheckOne(r *verifmc.Report, cnt *c11Counts, t *ref.C11Type, v *ref.C11Val) {
	cs := c11Case{Type: ref.C11Name(t), Value: ref.C11String(t, v)}
	top := ref.C11KindName(t)
	cnt.add["evaluations"]++
	neg := c11HasNegativeCompact(t, v)
	var want []byte
	if !neg {
		want = ref.C11Enc(t, v)
		cs.Want = verifmc.Hex(want)
	}
	gv := c11ToGo(t, v).Interface()

	var enc []byte
	var err error
	if p, msg := verifmc.Guard(func() { enc, err = Marshal(gv) }); p {
		r.Violate("Marshal:panic@"+c11PanicSite(msg), fmt.Sprintf("Marshal(%s %s) panics: %s", cs.Type, cs.Value, msg), cs)
		cnt.outcome["marshal-panic"]++
		return
	}
	if err != nil {
		r.Violate("Marshal:error@"+top, fmt.Sprintf("Marshal(%s %s): %v", cs.Type, cs.Value, err), cs)
		cnt.outcome["marshal-error"]++
		return
	}
	enc = append([]byte{}, enc...)
	cs.Enc = verifmc.Hex(enc)

	// Maps with two or more entries: whichever entry order is canonical, a canonical encoding is ONE
	// byte string per value.  The same value is encoded repeatedly (Go starts the iteration of a small
	// map at a random one of 8 slots, so 256 repetitions miss a second order with probability < 2e-15);
	// two different outputs cannot both be byte-identical to the canonical encoding.
	judgeCanonical := !neg
	if c11MaxMapEntries(t, v) >= 2 {
		for i := 0; i < 256; i++ {
			again, err := Marshal(gv)
			if err != nil {
				r.Violate("Marshal:error@"+top, fmt.Sprintf("Marshal(%s %s): %v", cs.Type, cs.Value, err), cs)
				return
			}
			if !bytes.Equal(enc, again) {
				cnt.outcome["canonical:map-entry-order-nondeterministic"]++
				r.Violate("Marshal:map-entry-order-nondeterministic", fmt.Sprintf("Marshal of the same %s %s gives %x and %x (ascending-key form %s)", cs.Type, cs.Value, enc, again, cs.Want), cs)
				judgeCanonical = false
				break
			}
		}
	}

	// canonical form
	switch {
	case neg:
		// The statement's "compact integers over their full range": SCALE has no compact form for a
		// negative number, so only the round trip is required of negative Go ints.
		cnt.outcome["canonical:skipped-negative-int-has-no-scale-form"]++
	case !judgeCanonical:
	case bytes.Equal(enc, want):
		cnt.outcome[fmt.Sprintf("canonical:ok len=%d", c11LenClass(len(enc)))]++
	default:
		dv, n, derr := ref.C11Dec(t, enc)
		switch {
		case derr != nil && derr.Class == "map-keys-not-strictly-ascending" && c11SameUpToMapOrder(t, v, enc):
			// Deterministic, complete, but not in ascending key order: the statement does not name the
			// canonical order of map entries; counted, not judged.
			cnt.outcome["canonical:map-entries-deterministic-but-not-ascending (not judged)"]++
		case derr != nil:
			r.Violate("Marshal:non-canonical:"+derr.Class+"@"+derr.Leaf, fmt.Sprintf("Marshal(%s %s) = %x is not a canonical encoding (%v), canonical %x", cs.Type, cs.Value, enc, derr, want), cs)
			cnt.outcome["canonical:violated"]++
		case n != len(enc):
			r.Violate("Marshal:trailing-bytes@"+top, fmt.Sprintf("Marshal(%s %s) = %x, canonical %x", cs.Type, cs.Value, enc, want), cs)
			cnt.outcome["canonical:violated"]++
		default:
			r.Violate("Marshal:encodes-another-value@"+c11FirstDiff(t, v, dv), fmt.Sprintf("Marshal(%s %s) = %x which is the encoding of %s; canonical %x", cs.Type, cs.Value, enc, ref.C11String(t, dv), want), cs)
			cnt.outcome["canonical:violated"]++
		}
	}

	// round trip.  For a value with a multi-entry map gossamer's own output varies from call to call
	// (reported above); the round trip is then evaluated on the ascending-key encoding - one of the
	// orders - so that the verdict is reproducible.
	if c11MaxMapEntries(t, v) >= 2 {
		enc = ref.C11Enc(t, c11Unsign(t, v)) // negative Go ints: the two's complement uint64, as gossamer writes them
	}
	dest := c11Dest(t)
	if p, msg := verifmc.Guard(func() { err = Unmarshal(enc, dest.Interface()) }); p {
		r.Violate("Unmarshal:panic@"+c11PanicSite(msg), fmt.Sprintf("Unmarshal(Marshal(%s %s) = %x) panics: %s", cs.Type, cs.Value, enc, msg), cs)
		cnt.outcome["roundtrip:panic"]++
		return
	}
	if err != nil {
		sig := "Unmarshal:rejects-own-encoding@" + top
		if c11HasMidCompact(t, v) {
			sig = "Unmarshal:rejects-compact-uint-of-5-to-7-bytes"
		}
		r.Violate(sig, fmt.Sprintf("Unmarshal(Marshal(%s %s) = %x): %v", cs.Type, cs.Value, enc, err), cs)
		cnt.outcome["roundtrip:decode-error"]++
		return
	}
	limit := 1 << 28 // harness guard only; far above the largest generated value
	back, cerr := c11FromGo(t, dest.Elem(), &limit)
	if cerr != nil {
		r.Violate("Unmarshal:malformed-result:"+cerr.Error(), fmt.Sprintf("Unmarshal(Marshal(%s %s) = %x) left %s", cs.Type, cs.Value, enc, cerr), cs)
		cnt.outcome["roundtrip:malformed"]++
		return
	}
	if !ref.C11Equal(t, v, back) {
		r.Violate("Unmarshal:value-changed@"+c11FirstDiff(t, v, back), fmt.Sprintf("Unmarshal(Marshal(%s %s) = %x) = %s", cs.Type, cs.Value, enc, ref.C11String(t, back)), cs)
		cnt.outcome["roundtrip:value-changed"]++
		return
	}
	cnt.outcome["roundtrip:ok"]++
}

func c11LenClass(n int) int {
	switch {
	case n <= 1:
		return n
	case n <= 2:
		return 2
	case n <= 4:
		return 4
	case n <= 9:
		return 9
	case n <= 17:
		return 17
	case n <= 64:
		return 64
	}
	return 65
}

// c11SameUpToMapOrder: enc decodes (with map entries accepted in any order, duplicates rejected by
// the entry count) to a value equal to v and has the canonical length.
func c11SameUpToMapOrder(t *ref.C11Type, v *ref.C11Val, enc []byte) bool {
	want := ref.C11Enc(t, v)
	if len(want) != len(enc) {
		return false
	}
	// decode with gossamer-independent means: try the reference decoder on every candidate would be
	// exponential; instead compare the multiset of bytes position-insensitively per map: a cheap and
	// sufficient test here is that sorting is the only freedom, i.e. re-encoding the value obtained by
	// reading enc with the reference reader in lenient-order mode equals want.
	dv, n, err := c11DecLenientMaps(t, enc)
	return err == nil && n == len(enc) && ref.C11Equal(t, v, dv) && bytes.Equal(ref.C11Enc(t, dv), want)
}

func TestVerif_C11(t *testing.T) {
	r := verifmc.NewReport("C11", "marshal-roundtrip-canonical", "exploration")
	defer r.Write()
	depth := verifmc.Pick(2, 3)
	cat := c11Catalogue(depth)
	r.Rule = fmt.Sprintf("types generated at run time with reflect from the grammar {u8..u64, i8..i64, uint, int, *big.Int, *Uint128, bool, []byte, string} x {option, slice, array[0..2], map (6 key kinds + array keys), struct untagged and with scale:\"n\" tags in all 6 Go field orders, Result, a VaryingDataType} to nesting depth %d; top-level leaves take their full boundary set (every compact mode boundary 2^6, 2^14, 2^30 ±1, every byte length 4..8 for uint and 4..17, 32, 66, 67 for big.Int, min/max/byte boundaries of fixed ints), containers take every element value at lengths 0,1,2 and 63/64/65; nested positions take one value per encoding shape; every value is Marshalled, compared byte-for-byte with the reference encoder, Unmarshalled and compared with the original; a case is non-trivial when its encoding has more than one byte", depth)
	// the reference itself, against constants from the Polkadot specification / parity-scale-codec docs
	for _, c := range []struct {
		n    string
		want string
	}{{"0", "00"}, {"1", "04"}, {"42", "a8"}, {"69", "1501"}, {"65535", "feff0300"}, {"1073741824", "0300000040"}, {"100000000000000", "0b00407a10f35a"}} {
		if got := verifmc.Hex(ref.C11EncodeCompactBig(c11Big(c.n))); got != c.want {
			t.Fatalf("reference compact(%s) = %s, want %s", c.n, got, c.want)
		}
	}
	verifmc.ParallelFor(r, len(cat), func(i int) {
		ty := cat[i]
		cnt := c11NewCounts()
		defer cnt.flush(r)
		vals := c11Values(ty, true)
		cnt.add["types"]++
		cnt.outcome["type-kind:"+ref.C11KindName(ty)]++
		for _, v := range vals {
			c11CheckOne(r, cnt, ty, v)
			if enc := ref.C11Name(ty) + "=" + ref.C11String(ty, v); !c11HasNegativeCompact(ty, v) && len(ref.C11Enc(ty, v)) > 1 {
				r.Distinct(enc)
			}
		}
	}, func(i int, msg string) {
		t.Errorf("harness panic on type %s: %s", ref.C11Name(cat[i]), msg)
	})
	c11Finish(r)
	for _, ty := range []*ref.C11Type{c11UintT, c11BigT, cat[len(cat)/2], cat[len(cat)-1]} {
		vs := c11Values(ty, true)
		v := vs[len(vs)/2]
		for k := len(vs) / 2; k < len(vs) && c11HasNegativeCompact(ty, v); k++ {
			v = vs[k]
		}
		if c11HasNegativeCompact(ty, v) {
			continue
		}
		r.Sample(c11Case{Type: ref.C11Name(ty), Value: ref.C11String(ty, v), Want: verifmc.Hex(ref.C11Enc(ty, v))})
	}
	r.Extra["depth"] = depth
	r.Extra["types"] = len(cat)
}
