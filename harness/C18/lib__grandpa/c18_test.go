//go:build verif

package grandpa

// C18: only supermajority-signed commits finalise blocks.
//
// Bounded-exhaustive enumeration of commit messages delivered to the real
// Service.handleCommitMessage (-> verifyCommitMessageJustification -> getEquivocatoryVoters /
// verifyJustification) of a real Service built by NewService over the c21 fakes.
//
// Fixed tree G(0) -> A(1) -> A1(2), G -> B(1); finalised head G; authority sets of n fixed keys.
// A commit is (target, ordered list of entries); an entry is (authority slot | non-authority key,
// kind, block):
//   valid        precommit correctly signed for (commit round, set)
//   badsig       the valid signature with one bit flipped
//   otherround   correctly signed, but for round+1
//   otherset     correctly signed, but for set+1
//   prevote      correctly signed, but as a prevote
//   wrongnum     vote carries number+1 (and is correctly signed over that)
//   sig-of-other-block  names block X, carries the signer's valid precommit signature for another block
//                (together with that valid entry: the same signature bytes listed twice with different votes)
// blocks A, A1, B, plus G (ancestor of every target) and U (unknown hash) for valid entries.
// Exact duplicates and equivocations arise from repeating / varying entries of one authority.
// Authorities are symmetric: sequences are enumerated up to renaming (a new authority slot is
// always the lowest unused one).
//
// Oracle (one direction, as the statement says).  Independently of the code, from the entry
// descriptions and the plain parent vector:
//   sigOK(e)   e is signed as a precommit for exactly (commit round, current set) over the vote it carries
//   valid(e)   sigOK(e) and the signer is one of the n current authorities
//   onchain(e) the voted block is the target or a descendant of it
//   equivocator(a)  authority a has two valid entries with different votes
//   C0 = #{ a : a has a valid on-chain entry, or equivocator(a) }        (distinct authorities)
// If the commit finalises (SetFinalisedHash called, or nil error) then 3*C0 > 2n must hold, and
// the finalised hash must be the target.  Rejections are never judged, except non-vacuity:
// the honest full commit (every authority, valid, on the target) must be accepted, otherwise the
// harness fails (exit 2), because a verifier rejecting everything would make the check vacuous.
//
// A violation is classified by the minimal sets of loosenesses of the count that explain the
// acceptance (threshold: count >= floor(2n/3) suffices; duplicates: repeated entries of one
// authority are counted repeatedly; forged-equivocators: an id listed twice with different signature
// bytes counts as an equivocator without two valid different precommits).  A "+" joins
// loosenesses that are needed together, a "|" separates alternative minimal explanations (either one
// alone lets this commit through); anything else is ":unexplained".

import (
	"encoding/json"
	"errors"
	"fmt"
	"os"
	"sort"
	"strings"
	"sync"
	"testing"

	"github.com/ChainSafe/gossamer/internal/verifmc"
)

const (
	c18G  = 0
	c18A  = 1
	c18A1 = 2
	c18B  = 3
	c18U  = 4 // unknown block (not a tree node)
)

var c18Parent = []int{-1, 0, 1, 0}
var c18BlkName = []string{"G", "A", "A1", "B", "U"}

const (
	c18Valid = iota
	c18BadSig
	c18OtherRound
	c18OtherSet
	c18PrevoteStage
	c18WrongNum
	c18SigOfOtherBlock // the entry names block X but carries the signer's valid precommit signature for another block
)

var c18KindName = []string{"valid", "badsig", "otherround", "otherset", "prevote", "wrongnum", "sig-of-other-block"}

// c18OtherBlock: the block whose (valid) signature a sig-of-other-block entry for blk carries.
func c18OtherBlock(blk int) int {
	if blk == c18B {
		return c18A
	}
	return c18B
}

// commit-level deviations (space S3)
const (
	c18MsgNone = iota
	c18MsgExtraPrecommit
	c18MsgExtraAuthData
	c18MsgSetPlus1SigsOld   // message says set+1, entries signed for the current set
	c18MsgSetPlus1SigsNew   // message says set+1, entries signed for set+1
	c18MsgTargetWrongNumber // target hash with number+1
	c18MsgTargetUnknown
	c18MsgDeliveredTwice
	c18MsgKinds
)

var c18MsgName = []string{"none", "extra-precommit", "extra-authdata", "msg-set+1-sigs-current-set", "msg-set+1-sigs-set+1",
	"target-wrong-number", "target-unknown", "delivered-twice"}

const c18XKey = 9 // index of the non-authority key (authority sets have at most 7 keys)

type c18Entry struct {
	Slot int `json:"slot"` // authority index, -1 = the non-authority key
	Kind int `json:"kind"`
	Blk  int `json:"blk"`
}

func (e c18Entry) String() string {
	who := "X"
	if e.Slot >= 0 {
		who = fmt.Sprintf("a%d", e.Slot)
	}
	return fmt.Sprintf("%s:%s:%s", who, c18KindName[e.Kind], c18BlkName[e.Blk])
}

type c18Elem struct {
	Space   string     `json:"space"`
	N       int        `json:"n"`
	Target  int        `json:"target"`
	MsgDev  int        `json:"msg_dev"`
	Entries []c18Entry `json:"entries"`
}

func (e *c18Elem) render() string {
	s := make([]string, len(e.Entries))
	for i, x := range e.Entries {
		s[i] = x.String()
	}
	return fmt.Sprintf("n=%d target=%s msg=%s commit=[%s]", e.N, c18BlkName[e.Target], c18MsgName[e.MsgDev], strings.Join(s, " "))
}

const (
	c18Round = uint64(1)
	c18SetID = uint64(0)
)

var (
	c18TreeOnce sync.Once
	c18TheTree  *c21Tree
)

func c18Tree() *c21Tree {
	c18TreeOnce.Do(func() { c18TheTree = c21NewTree(c18Parent) })
	return c18TheTree
}

// c18Build renders the element as a CommitMessage.
func c18Build(e *c18Elem) *CommitMessage {
	tree := c18Tree()
	cm := &CommitMessage{Round: c18Round, SetID: c18SetID, Vote: tree.vote(e.Target)}
	sigSet := c18SetID
	switch e.MsgDev {
	case c18MsgSetPlus1SigsOld:
		cm.SetID = c18SetID + 1
	case c18MsgSetPlus1SigsNew:
		cm.SetID = c18SetID + 1
		sigSet = c18SetID + 1
	case c18MsgTargetWrongNumber:
		cm.Vote.Number++
	case c18MsgTargetUnknown:
		cm.Vote = Vote{Hash: c21UnknownHash, Number: 1}
	}
	for _, en := range e.Entries {
		key := en.Slot
		if key < 0 {
			key = c18XKey
		}
		var v Vote
		if en.Blk == c18U {
			v = Vote{Hash: c21UnknownHash, Number: 1}
		} else {
			v = tree.vote(en.Blk)
		}
		round, set, stage := c18Round, sigSet, precommit
		switch en.Kind {
		case c18OtherRound:
			round++
		case c18OtherSet:
			set++
		case c18PrevoteStage:
			stage = prevote
		case c18WrongNum:
			v.Number++
		}
		sig := c21Sign(key, stage, v, round, set)
		if en.Kind == c18SigOfOtherBlock {
			sig = c21Sign(key, stage, tree.vote(c18OtherBlock(en.Blk)), round, set)
		}
		if en.Kind == c18BadSig {
			sig[0] ^= 0x01
		}
		cm.Precommits = append(cm.Precommits, v)
		cm.AuthData = append(cm.AuthData, AuthData{Signature: sig, AuthorityID: c21PubBytes(key)})
	}
	switch e.MsgDev {
	case c18MsgExtraPrecommit:
		cm.Precommits = append(cm.Precommits, tree.vote(e.Target))
	case c18MsgExtraAuthData:
		cm.AuthData = append(cm.AuthData, AuthData{Signature: c21Sign(0, precommit, tree.vote(e.Target), c18Round, c18SetID), AuthorityID: c21PubBytes(0)})
	}
	return cm
}

// c18Oracle: the independent counts.
type c18Counts struct {
	C0        int // distinct authorities with a valid on-chain precommit or genuinely equivocating
	T         int // floor(2n/3)
	Explained string
}

func c18Oracle(e *c18Elem) c18Counts {
	tree := c18Tree()
	n := e.N
	type voteID struct{ blk, numOff int }
	votesOf := map[int]map[voteID]bool{} // authority -> distinct validly signed votes
	onChain := map[int]bool{}            // authority has a valid on-chain entry
	onChainMult := map[int]int{}         // number of valid on-chain entries of the authority
	firstSig := map[int]string{}         // id (authority or -1) -> rendering of its first listed signature
	sigEqv := map[int]bool{}             // ids listed twice with different signature bytes
	for _, en := range e.Entries {
		// signature identity: two entries carry the same signature bytes iff they sign the same thing
		// the same way (ed25519 signing is deterministic and cached)
		sigID := fmt.Sprintf("%d/%d", en.Kind, en.Blk)
		if en.Kind == c18SigOfOtherBlock {
			sigID = fmt.Sprintf("%d/%d", c18Valid, c18OtherBlock(en.Blk)) // the very bytes of that valid entry
		}
		if f, ok := firstSig[en.Slot]; ok {
			if f != sigID {
				sigEqv[en.Slot] = true
			}
		} else {
			firstSig[en.Slot] = sigID
		}
		sigOK := en.Kind == c18Valid || en.Kind == c18WrongNum
		if e.MsgDev == c18MsgSetPlus1SigsNew {
			sigOK = false // signed for set+1, which is not the current set
		}
		if !sigOK || en.Slot < 0 || en.Slot >= n {
			continue
		}
		id := voteID{en.Blk, 0}
		if en.Kind == c18WrongNum {
			id.numOff = 1
		}
		if votesOf[en.Slot] == nil {
			votesOf[en.Slot] = map[voteID]bool{}
		}
		votesOf[en.Slot][id] = true
		if en.Blk != c18U && e.MsgDev != c18MsgTargetUnknown && tree.isAnc(e.Target, en.Blk) {
			onChain[en.Slot] = true
			onChainMult[en.Slot]++
		}
	}
	genuine := map[int]bool{}
	for a, vs := range votesOf {
		if len(vs) >= 2 {
			genuine[a] = true
		}
	}
	count := func(dup, feq bool) int {
		eqv := map[int]bool{}
		for a := range genuine {
			eqv[a] = true
		}
		if feq {
			for a := range sigEqv {
				eqv[a] = true
			}
		}
		c := len(eqv)
		for a := range onChain {
			if eqv[a] {
				continue
			}
			if dup {
				c += onChainMult[a]
			} else {
				c++
			}
		}
		return c
	}
	T := 2 * n / 3
	out := c18Counts{C0: count(false, false), T: T}
	// every minimal set of loosenesses that explains an acceptance (bit 0 thr, bit 1 dup, bit 2 feq)
	names := []string{"threshold", "duplicates", "forged-equivocators"}
	explains := [8]bool{}
	for m := 1; m < 8; m++ {
		c := count(m&2 != 0, m&4 != 0)
		explains[m] = (m&1 != 0 && c >= T) || (m&1 == 0 && 3*c > 2*n)
	}
	var minimal []string
	for _, m := range []int{1, 2, 4, 3, 5, 6, 7} {
		if !explains[m] {
			continue
		}
		isMin := true
		for sub := 1; sub < m; sub++ {
			if sub&m == sub && explains[sub] {
				isMin = false
			}
		}
		if !isMin {
			continue
		}
		var parts []string
		for b := 0; b < 3; b++ {
			if m&(1<<b) != 0 {
				parts = append(parts, names[b])
			}
		}
		minimal = append(minimal, strings.Join(parts, "+"))
	}
	out.Explained = strings.Join(minimal, "|")
	if out.Explained == "" {
		out.Explained = "unexplained"
	}
	return out
}

// c18ErrClass names the rejection reason (outcome classes only; never judged).
func c18ErrClass(err error) string {
	switch {
	case err == nil:
		return "nil"
	case errors.Is(err, ErrMinVotesNotMet):
		return "ErrMinVotesNotMet"
	case errors.Is(err, ErrBlockNumbersMismatch):
		return "ErrBlockNumbersMismatch"
	case errors.Is(err, ErrPrecommitSignatureMismatch):
		return "ErrPrecommitSignatureMismatch"
	case errors.Is(err, ErrSetIDMismatch):
		return "ErrSetIDMismatch"
	case errors.Is(err, errVoteBlockMismatch):
		return "errVoteBlockMismatch"
	case errors.Is(err, ErrBlockHashMismatch):
		return "ErrBlockHashMismatch"
	case strings.Contains(err.Error(), "getting header"):
		return "getting-header"
	case strings.Contains(err.Error(), "could not get header from block hash"):
		return "target-header-not-found"
	}
	return "other:" + err.Error()
}

type c18Result struct {
	Err       string
	Finalised []string // names of the blocks passed to SetFinalisedHash
	Panic     string
}

// c18Run delivers the commit to a fresh real Service.
func c18Run(e *c18Elem) (res c18Result, err error) {
	tree := c18Tree()
	nd := c21GetNode(tree, c18G, e.N, 0)
	if ierr := nd.svc.initiateRound(); ierr != nil {
		panic(fmt.Sprintf("c18: initiateRound: %v", ierr))
	}
	cm := c18Build(e)
	p, msg := verifmc.Guard(func() {
		err = nd.svc.handleCommitMessage(cm)
		if e.MsgDev == c18MsgDeliveredTwice {
			err2 := nd.svc.handleCommitMessage(c18Build(e))
			if err == nil {
				err = err2
			}
		}
	})
	if p {
		res.Panic = msg
	}
	for _, c := range nd.bs.c21FinalCalls() {
		name := "?" + c.Hash.String()
		if i, ok := tree.idx[c.Hash]; ok {
			name = c18BlkName[i]
		}
		res.Finalised = append(res.Finalised, name)
	}
	res.Err = c18ErrClass(err)
	if !p {
		c21PutNode(nd) // a node that panicked may hold locks: never reused
	}
	return res, err
}

// ---------------------------------------------------------------- enumeration

// c18Normal: the entries that are not deviations: valid precommits of an authority for A, A1 or B.
func c18NormalEntries(slot int) []c18Entry {
	return []c18Entry{{slot, c18Valid, c18A}, {slot, c18Valid, c18A1}, {slot, c18Valid, c18B}}
}

// c18DeviantEntries: every other entry of the alphabet for an authority slot.
func c18DeviantEntries(slot int, blocks []int) []c18Entry {
	var out []c18Entry
	kinds := verifmc.Pick([]int{c18BadSig, c18OtherRound, c18OtherSet, c18WrongNum, c18SigOfOtherBlock},
		[]int{c18BadSig, c18OtherRound, c18OtherSet, c18PrevoteStage, c18WrongNum, c18SigOfOtherBlock})
	for _, k := range kinds {
		for _, b := range blocks {
			out = append(out, c18Entry{slot, k, b})
		}
	}
	out = append(out, c18Entry{slot, c18Valid, c18G}, c18Entry{slot, c18Valid, c18U})
	return out
}

// c18Sequences enumerates all entry sequences of length exactly L for n authorities up to
// renaming, with exactly d deviant entries (at any positions).
func c18Sequences(n, L, d int, devBlocks []int, f func(seq []c18Entry)) {
	seq := make([]c18Entry, 0, L)
	var rec func(used, devLeft int)
	rec = func(used, devLeft int) {
		if len(seq) == L {
			if devLeft == 0 {
				f(seq)
			}
			return
		}
		remaining := L - len(seq)
		if devLeft > remaining {
			return
		}
		maxSlot := used // slots 0..used-1 are in use; slot `used` is the next new one
		if maxSlot >= n {
			maxSlot = n - 1
		}
		for s := 0; s <= maxSlot; s++ {
			nu := used
			if s == used {
				nu = used + 1
			}
			if devLeft < remaining { // room for a normal entry
				for _, en := range c18NormalEntries(s) {
					seq = append(seq, en)
					rec(nu, devLeft)
					seq = seq[:len(seq)-1]
				}
			}
			if devLeft > 0 {
				for _, en := range c18DeviantEntries(s, devBlocks) {
					seq = append(seq, en)
					rec(nu, devLeft-1)
					seq = seq[:len(seq)-1]
				}
			}
		}
		if devLeft > 0 { // the non-authority key: always a deviation
			for _, b := range []int{c18A, c18A1, c18B} {
				seq = append(seq, c18Entry{-1, c18Valid, b})
				rec(used, devLeft-1)
				seq = seq[:len(seq)-1]
			}
		}
	}
	rec(0, d)
}

// c18Packed is the compact stored form of an element (the thorough tier holds ~10^7 of them).
type c18Packed struct {
	space, n, target, msgDev, cnt uint8
	ent                          [7][3]int8
}

func c18Pack(space string, n, target, msgDev int, seq []c18Entry) c18Packed {
	if len(seq) > 7 {
		panic("c18: more than 7 entries")
	}
	p := c18Packed{space: space[1] - '0', n: uint8(n), target: uint8(target), msgDev: uint8(msgDev), cnt: uint8(len(seq))}
	for i, e := range seq {
		p.ent[i] = [3]int8{int8(e.Slot), int8(e.Kind), int8(e.Blk)}
	}
	return p
}

func (p *c18Packed) unpack() *c18Elem {
	e := &c18Elem{Space: "S" + string('0'+p.space), N: int(p.n), Target: int(p.target), MsgDev: int(p.msgDev)}
	for i := 0; i < int(p.cnt); i++ {
		e.Entries = append(e.Entries, c18Entry{int(p.ent[i][0]), int(p.ent[i][1]), int(p.ent[i][2])})
	}
	return e
}

func c18Elements() (elems []c18Packed, rule string) {
	targets := []int{c18A, c18A1, c18B}
	add := func(space string, n, target, msgDev int, seq []c18Entry) {
		elems = append(elems, c18Pack(space, n, target, msgDev, seq))
	}
	// S0: one entry per authority or none, no deviations, n = 1..7
	for n := 1; n <= 7; n++ {
		dims := make([]int, n)
		for i := range dims {
			dims[i] = 4
		}
		verifmc.Product(dims, func(idx []int) {
			var seq []c18Entry
			for a, c := range idx {
				if c > 0 {
					seq = append(seq, c18Entry{a, c18Valid, c}) // c = 1,2,3 = A, A1, B
				}
			}
			for _, tg := range targets {
				add("S0", n, tg, c18MsgNone, seq)
			}
		})
	}
	// S1: sequences of valid precommits with repetitions/equivocations
	type s1b struct{ n, maxL int }
	s1 := verifmc.Pick(
		[]s1b{{1, 3}, {2, 4}, {3, 5}, {4, 5}},
		[]s1b{{1, 3}, {2, 4}, {3, 5}, {4, 6}, {5, 6}, {6, 6}, {7, 6}})
	for _, b := range s1 {
		for L := 0; L <= b.maxL; L++ {
			c18Sequences(b.n, L, 0, nil, func(seq []c18Entry) {
				for _, tg := range targets {
					add("S1", b.n, tg, c18MsgNone, seq)
				}
			})
		}
	}
	// S2: sequences with 1..dmax deviant entries
	type s2b struct{ n, maxL, dmax int }
	s2 := verifmc.Pick(
		[]s2b{{1, 3, 2}, {2, 4, 2}, {3, 4, 2}, {4, 4, 1}},
		[]s2b{{1, 3, 3}, {2, 4, 3}, {3, 4, 3}, {4, 4, 2}, {5, 4, 2}, {6, 4, 2}, {7, 4, 2}})
	devBlocksQuick := []int{c18A, c18B}
	devBlocksThorough := []int{c18A, c18A1, c18B}
	devBlocks := verifmc.Pick(devBlocksQuick, devBlocksThorough)
	for _, b := range s2 {
		for d := 1; d <= b.dmax; d++ {
			for L := d; L <= b.maxL; L++ {
				c18Sequences(b.n, L, d, devBlocks, func(seq []c18Entry) {
					for _, tg := range targets {
						add("S2", b.n, tg, c18MsgNone, seq)
					}
				})
			}
		}
	}
	// S3: commit-level deviations of the honest full commit and of the commit one short of it
	for n := 1; n <= 4; n++ {
		for _, tg := range targets {
			for drop := 0; drop <= 1 && drop < n+1; drop++ {
				var seq []c18Entry
				for a := 0; a < n-drop; a++ {
					seq = append(seq, c18Entry{a, c18Valid, tg})
				}
				for md := 1; md < c18MsgKinds; md++ {
					add("S3", n, tg, md, seq)
				}
			}
		}
	}
	rule = fmt.Sprintf("commits (target in {A,A1,B} of the tree G->A->A1, G->B; ordered entry list) delivered to the real handleCommitMessage of a fresh real Service with n fixed authorities. "+
		"S0: n=1..7, every assignment authority -> {absent, valid precommit for A, A1, B}. "+
		"S1: every sequence (up to authority renaming) of valid precommits for A/A1/B incl. repetitions and equivocations, (n,max length) in %v. "+
		"S2: every such sequence in which 1..dmax entries are deviant (badsig/otherround/otherset/wrong-number/valid-signature-of-another-block (thorough: also prevote-stage) for blocks %v, valid for the ancestor G, valid for an unknown block, valid by a non-authority), (n,max length,dmax) in %v. "+
		"S3: n=1..4, honest full commit and the commit one entry short, with each message-level deviation %v. "+
		"S4: one Service accepts the honest commit of set 0 (n=1..4 keys), passes the real authority set change to set 1 (m=1..4 keys, overlapping set 0 or disjoint) and receives a set-1 commit signed by all keys of set 0: only keys of set 1 count. "+
		"Non-trivial = distinct (n, target class, per-authority behaviour multiset, verdict) classes.",
		s1, func() []string {
			var s []string
			for _, b := range devBlocks {
				s = append(s, c18BlkName[b])
			}
			return s
		}(), s2, c18MsgName[1:])
	return elems, rule
}

// c18ClassKey: a coarse canonical class of the element for the distinct-case count.
func c18ClassKey(e *c18Elem, res c18Result, oc c18Counts) string {
	per := map[int][]string{}
	for _, en := range e.Entries {
		on := "off"
		if en.Blk != c18U && c18Tree().isAnc(e.Target, en.Blk) {
			on = "on"
		}
		per[en.Slot] = append(per[en.Slot], c18KindName[en.Kind]+"/"+on)
	}
	var beh []string
	for _, v := range per {
		sort.Strings(v)
		beh = append(beh, strings.Join(v, ","))
	}
	sort.Strings(beh)
	return fmt.Sprintf("n%d|%s|%s|fin=%d|%s", e.N, c18MsgName[e.MsgDev], strings.Join(beh, ";"), len(res.Finalised), res.Err)
}

// c18Vio is one violation.  Per signature only the count and the 3 simplest witnesses (fewest entries,
// smallest n, enumeration order) are kept, so the reported witnesses are minimal and the same in every run.
type c18Vio struct {
	elem  *c18Elem
	order int
	mk    func() (desc string, replay any)
}

func (a *c18Vio) less(b *c18Vio) bool {
	if len(a.elem.Entries) != len(b.elem.Entries) {
		return len(a.elem.Entries) < len(b.elem.Entries)
	}
	if a.elem.N != b.elem.N {
		return a.elem.N < b.elem.N
	}
	return a.order < b.order
}

type c18SigBucket struct {
	count int
	best  []c18Vio
}

type c18Sink struct {
	mu   sync.Mutex
	sigs map[string]*c18SigBucket
}

func (s *c18Sink) Violate(sig string, e *c18Elem, order int, mk func() (string, any)) {
	s.mu.Lock()
	defer s.mu.Unlock()
	if s.sigs == nil {
		s.sigs = map[string]*c18SigBucket{}
	}
	b := s.sigs[sig]
	if b == nil {
		b = &c18SigBucket{}
		s.sigs[sig] = b
	}
	b.count++
	v := c18Vio{e, order, mk}
	b.best = append(b.best, v)
	sort.SliceStable(b.best, func(i, j int) bool { return b.best[i].less(&b.best[j]) })
	if len(b.best) > 3 {
		b.best = b.best[:3]
	}
}

func (s *c18Sink) flush(r *verifmc.Report) {
	var sigs []string
	for k := range s.sigs {
		sigs = append(sigs, k)
	}
	// signatures in the order of their simplest witness
	sort.Slice(sigs, func(i, j int) bool {
		a, b := s.sigs[sigs[i]].best[0], s.sigs[sigs[j]].best[0]
		if a.less(&b) != b.less(&a) {
			return a.less(&b)
		}
		return sigs[i] < sigs[j]
	})
	for _, sig := range sigs {
		b := s.sigs[sig]
		for _, v := range b.best {
			desc, replay := v.mk()
			r.Violate(sig, desc, replay)
		}
		for i := len(b.best); i < b.count; i++ {
			r.Violate(sig, "", nil) // counted only
		}
	}
}

func c18Check(r *verifmc.Report, sink *c18Sink, order int, t *testing.T, e *c18Elem) {
	oc := c18Oracle(e)
	res, _ := c18Run(e)
	r.Add("evaluations", 1)
	r.Add("evaluations_"+e.Space, 1)
	mkReplay := func() any {
		return map[string]any{"elem": e, "rendered": e.render(), "result": res, "C0": oc.C0, "n": e.N,
			"needs_more_than": fmt.Sprintf("2n/3 = %d/3", 2*e.N), "repeat": 5}
	}
	if res.Panic != "" {
		sink.Violate("panic:"+verifmc.PanicSite(res.Panic), e, order, func() (string, any) { return res.Panic, mkReplay() })
		return
	}
	accepted := len(res.Finalised) > 0 || res.Err == "nil"
	super := 3*oc.C0 > 2*e.N
	switch {
	case accepted && super:
		r.Outcome("finalised|supermajority")
	case accepted && !super:
		r.Outcome("finalised|short:" + oc.Explained)
	case !accepted && super:
		r.Outcome("rejected:" + res.Err + "|supermajority (not judged)")
	default:
		r.Outcome("rejected:" + res.Err + "|short")
	}
	r.Distinct(c18ClassKey(e, res, oc))
	if len(res.Finalised) > 0 && e.MsgDev != c18MsgTargetUnknown {
		for _, f := range res.Finalised {
			if f != c18BlkName[e.Target] {
				f := f
				sink.Violate("commit-finalises-a-block-other-than-its-target", e, order, func() (string, any) {
					return fmt.Sprintf("%s: SetFinalisedHash(%s)", e.render(), f), mkReplay()
				})
			}
		}
	}
	if accepted && !super {
		what := "finalised"
		if len(res.Finalised) == 0 {
			what = "accepted with nil error (nothing finalised)"
		}
		// delivered twice: the second delivery returns nil without verifying because the round is already
		// finalised by the first; only the finalisation itself is judged there
		if len(res.Finalised) == 0 && e.MsgDev == c18MsgDeliveredTwice {
			return
		}
		sink.Violate("commit-finalises-below-supermajority:"+oc.Explained, e, order, func() (string, any) {
			return fmt.Sprintf("%s: %s (err=%s) although only %d distinct authorities validly precommitted to the target chain or genuinely equivocated; more than 2n/3 = %d/3 are required (floor(2n/3) = %d)",
				e.render(), what, res.Err, oc.C0, 2*e.N, oc.T), mkReplay()
		})
	}
	// non-vacuity: the honest full commit must be accepted
	if e.Space == "S0" && len(e.Entries) == e.N {
		honest := true
		for _, en := range e.Entries {
			if en.Blk != e.Target {
				honest = false
			}
		}
		if honest {
			r.Add("honest_full_commits", 1)
			if !(len(res.Finalised) == 1 && res.Err == "nil") {
				t.Errorf("C18 non-vacuity: honest full commit not accepted: %s -> %+v", e.render(), res)
			}
		}
	}
}

// c18AfterSetChange (space S4): one long-lived Service accepts the honest full commit of authority set 0
// (n keys), goes through an authority set change (set 1 = m keys starting at key `off`: overlapping or
// disjoint) by the real initiateRound -> updateAuthorities, and then receives a set-1 commit for A1
// signed by ALL keys of the PREVIOUS set.  Only the keys that are also in set 1 count.
func c18AfterSetChange(r *verifmc.Report) {
	tree := c18Tree()
	mkCommit := func(target int, set uint64, keys []int) *CommitMessage {
		cm := &CommitMessage{Round: 1, SetID: set, Vote: tree.vote(target)}
		for _, k := range keys {
			cm.Precommits = append(cm.Precommits, tree.vote(target))
			cm.AuthData = append(cm.AuthData, AuthData{Signature: c21Sign(k, precommit, tree.vote(target), 1, set), AuthorityID: c21PubBytes(k)})
		}
		return cm
	}
	for n := 1; n <= 4; n++ {
		for m := 1; m <= 4; m++ {
			for off := 1; off <= n; off++ {
				r.Add("evaluations", 1)
				r.Add("evaluations_S4", 1)
				label := fmt.Sprintf("S4 set0=keys[0..%d) set1=keys[%d..%d)", n, off, off+m)
				nd := c21NewNode(tree, c18G, n, 0)
				if err := nd.svc.initiateRound(); err != nil {
					panic(err)
				}
				var old, next []int
				for k := 0; k < n; k++ {
					old = append(old, k)
				}
				var voters []Voter
				overlap := 0
				for k := off; k < off+m; k++ {
					next = append(next, k)
					voters = append(voters, c21Voters(k + 1)[k])
					if k < n {
						overlap++
					}
				}
				if err := nd.svc.handleCommitMessage(mkCommit(c18A, 0, old)); err != nil || len(nd.bs.c21FinalCalls()) != 1 {
					r.Outcome("S4:honest-commit-of-set-0-not-accepted (not judged)")
					continue
				}
				nd.gs.mu.Lock()
				nd.gs.setID = 1
				nd.gs.auths[1] = voters
				nd.gs.mu.Unlock()
				if err := nd.svc.initiateRound(); err != nil {
					r.Outcome("S4:round-after-set-change-not-opened (not judged)")
					continue
				}
				err := nd.svc.handleCommitMessage(mkCommit(c18A1, 1, old))
				fin := len(nd.bs.c21FinalCalls()) > 1
				switch {
				case fin && 3*overlap <= 2*m:
					r.Outcome("S4:previous-set-commit:finalised|short")
					r.Violate("commit-finalises-below-supermajority:signed-by-the-previous-authority-set",
						fmt.Sprintf("%s: after the change to set 1 a commit for A1 signed by the %d keys of set 0 finalises A1 (err=%v) although only %d of the %d current authorities signed it", label, n, err, overlap, m),
						map[string]any{"n": n, "m": m, "off": off})
					continue
				case fin:
					r.Outcome("S4:previous-set-commit:finalised|supermajority-by-overlap")
					continue
				default:
					r.Outcome("S4:previous-set-commit:rejected")
				}
				_ = nd.svc.handleCommitMessage(mkCommit(c18A1, 1, next))
				if len(nd.bs.c21FinalCalls()) > 1 {
					r.Outcome("S4:current-set-commit:finalised")
					r.Distinct(label)
				} else {
					r.Outcome("S4:current-set-commit:rejected (not judged)")
				}
			}
		}
	}
}

func TestVerif_C18(t *testing.T) {
	r := verifmc.NewReport("C18", "commit-supermajority", "exploration")
	defer r.Write()
	c18Tree()
	c21Keypair(0)
	if p := os.Getenv("VERIF_REPLAY"); p != "" {
		b, err := os.ReadFile(p)
		if err != nil {
			t.Fatal(err)
		}
		var f struct {
			Replay struct {
				Elem   c18Elem `json:"elem"`
				Repeat int     `json:"repeat"`
			} `json:"replay"`
		}
		if err := json.Unmarshal(b, &f); err != nil {
			t.Fatal(err)
		}
		r.Rule = "replay of " + p
		if f.Replay.Repeat == 0 {
			f.Replay.Repeat = 1
		}
		sink := &c18Sink{}
		for i := 0; i < f.Replay.Repeat; i++ {
			c18Check(r, sink, i, t, &f.Replay.Elem)
		}
		sink.flush(r)
		return
	}
	elems, rule := c18Elements()
	r.Rule = rule
	r.Assumption("an entry is taken to be validly signed iff the harness signed exactly (precommit, carried vote, commit round, current set) with the listed key (ed25519 of lib/crypto/ed25519 = crypto/ed25519); the honest commits check that the real verifier agrees")
	r.Assumption("the code path ranges over no map (getEquivocatoryVoters and authorityKeySet only build and look up maps), so elements are executed once; violations are re-executed 5 times before being reported")
	sink := &c18Sink{}
	verifmc.ParallelFor(r, len(elems), func(i int) {
		c18Check(r, sink, i, t, elems[i].unpack())
	}, func(i int, msg string) {
		e := elems[i].unpack()
		sink.Violate("harness-panic", e, i, func() (string, any) { return msg, map[string]any{"elem": e} })
	})
	sink.flush(r)
	c18AfterSetChange(r)
	// every violation kept in the report must reproduce (5x)
	for _, v := range r.Violations {
		m, ok := v.Replay.(map[string]any)
		if !ok {
			continue
		}
		e, ok := m["elem"].(*c18Elem)
		if !ok {
			continue
		}
		for k := 0; k < 5; k++ {
			res, _ := c18Run(e)
			oc := c18Oracle(e)
			acc := len(res.Finalised) > 0 || res.Err == "nil"
			if strings.HasPrefix(v.Sig, "commit-finalises-below-supermajority") && !(acc && 3*oc.C0 <= 2*e.N) {
				t.Fatalf("C18: violation did not reproduce (flaky): %s", e.render())
			}
		}
	}
	if len(elems) > 0 {
		r.Sample(elems[0].unpack().render())
		r.Sample(elems[len(elems)/3].unpack().render())
		r.Sample(elems[len(elems)/2].unpack().render())
		r.Sample(elems[len(elems)-1].unpack().render())
	}
}
