//go:build verif

package scale

// C12: decoding any byte string into any supported type either fails or returns a value whose
// canonical encoding is exactly the consumed prefix of the input; truncated input always fails and
// is never zero-filled; non-canonical compact integers are rejected; decoding never panics and never
// allocates much more memory than the input could describe.
//
// Oracle (one-directional, as the statement): when the real decoder returns no error, the value it
// produced is read back with reflect, encoded with the reference encoder and compared with the bytes
// the decoder took from the reader.  SCALE is prefix-free per type, so this also decides the
// truncation and the non-canonical clauses.  The reference decoder is only used to name the shape
// of a mismatch (signature).

import (
	"bytes"
	"fmt"
	"io"
	"math/big"
	"os"
	"runtime/pprof"
	"runtime"
	"runtime/debug"
	"sort"
	"strconv"
	"testing"
	"time"

	"github.com/ChainSafe/gossamer/internal/verifmc"
	"github.com/ChainSafe/gossamer/internal/verifmc/ref"
)

// ---- legal but unfriendly readers ----

const (
	c12Whole   = iota // returns everything asked for (like bytes.Buffer)
	c12OneByte        // at most one byte per Read
	c12Split          // the stream arrives in two chunks, split at k
	c12ZeroNil        // every other Read returns (0, nil) - allowed by io.Reader, "nothing happened"
)

var c12ModeName = []string{"whole", "one-byte-reads", "split", "zero-nil-reads"}

type c12Reader struct {
	data  []byte
	pos   int
	mode  int
	k     int
	calls int
}

func (r *c12Reader) Read(p []byte) (int, error) {
	r.calls++
	if len(p) == 0 {
		return 0, nil
	}
	if r.mode == c12ZeroNil && r.calls%2 == 1 {
		return 0, nil
	}
	if r.pos >= len(r.data) {
		return 0, io.EOF
	}
	end := len(r.data)
	switch r.mode {
	case c12OneByte:
		end = r.pos + 1
	case c12Split:
		if r.pos < r.k {
			end = r.k
		}
	}
	n := copy(p, r.data[r.pos:end])
	r.pos += n
	return n, nil
}

// ---- allocation guard for the parallel sweeps ----
//
// The unpatched decoder allocates the declared length of a byte string before reading it, so an input
// that declares 4 GiB costs 4 GiB.  Sixteen workers doing that concurrently would take the machine
// down, so such inputs are not executed in the parallel sweeps; the allocation clause is decided on
// crafted inputs in a sequential phase instead.  c12Dangerous predicts, by replaying the read pattern
// of pkg/scale's decoder (sizes of the Read calls, zero-filled short reads) on the same reader, whether
// a byte-string length more than 64 bytes above the bytes actually left in the input (or a count above 64 of zero-sized elements) would be
// reached.  It is not an oracle: it only selects inputs to skip, and skipped inputs are counted.
const c12DangerLen = 64

type c12Shadow struct {
	rd     *c12Reader
	danger bool
}

func (s *c12Shadow) readByte() (byte, bool) {
	b := make([]byte, 1)
	_, err := s.rd.Read(b)
	return b[0], err == nil
}

func (s *c12Shadow) read(n int) ([]byte, bool) {
	b := make([]byte, n)
	_, err := s.rd.Read(b)
	return b, err == nil
}

func c12LE(b []byte) uint64 {
	var v uint64
	for i := len(b) - 1; i >= 0; i-- {
		v = v<<8 | uint64(b[i])
	}
	return v
}

func (s *c12Shadow) compactUint() (uint64, bool) {
	p, ok := s.readByte()
	if !ok {
		return 0, false
	}
	switch p & 3 {
	case 0:
		return uint64(p >> 2), true
	case 1:
		b, ok := s.readByte()
		if !ok {
			return 0, false
		}
		v := (uint64(p) | uint64(b)<<8) >> 2
		return v, v > 63
	case 2:
		b, ok := s.read(3)
		if !ok {
			return 0, false
		}
		v := (uint64(p) | c12LE(b)<<8) >> 2
		return v, v > 1<<14-1
	}
	l := int(p>>2) + 4
	b, ok := s.read(l)
	if !ok {
		return 0, false
	}
	if l > 8 {
		return 0, false
	}
	return c12LE(b), true
}

func (s *c12Shadow) walk(t *ref.C11Type) bool {
	if s.danger {
		return false
	}
	switch t.Kind {
	case ref.C11U8, ref.C11I8:
		_, ok := s.readByte()
		return ok
	case ref.C11U16, ref.C11I16:
		_, ok := s.read(2)
		return ok
	case ref.C11U32, ref.C11I32:
		_, ok := s.read(4)
		return ok
	case ref.C11U64, ref.C11I64:
		_, ok := s.read(8)
		return ok
	case ref.C11U128:
		b := make([]byte, 16)
		_, err := io.ReadFull(s.rd, b)
		return err == nil
	case ref.C11Compact:
		_, ok := s.compactUint()
		return ok
	case ref.C11CompactBig:
		p, ok := s.readByte()
		if !ok {
			return false
		}
		switch p & 3 {
		case 0:
			return true
		case 1:
			_, ok = s.readByte()
		case 2:
			_, ok = s.read(3)
		default:
			_, ok = s.read(int(p>>2) + 4)
		}
		return ok
	case ref.C11Bool:
		b, ok := s.readByte()
		return ok && b <= 1
	case ref.C11Bytes, ref.C11Str:
		n, ok := s.compactUint()
		if !ok {
			return false
		}
		if n > uint64(len(s.rd.data)-s.rd.pos)+c12DangerLen {
			s.danger = true
			return false
		}
		if n > 0 {
			_, ok = s.read(int(n))
		}
		return ok
	case ref.C11Unit:
		return true
	case ref.C11Option:
		b, ok := s.readByte()
		if !ok || b > 1 {
			return false
		}
		return b == 0 || s.walk(t.Elem)
	case ref.C11Vec, ref.C11Map:
		n, ok := s.compactUint()
		if !ok {
			return false
		}
		if n > c12DangerLen && ref.C11MinSize(t.Elem) == 0 && (t.Kind == ref.C11Vec || ref.C11MinSize(t.Key) == 0) {
			s.danger = true
			return false
		}
		if t.Kind == ref.C11Vec && t.Elem.Kind == ref.C11U8 && n > uint64(len(s.rd.data)-s.rd.pos)+c12DangerLen {
			// vec<u8> is a Go []byte: decoded by decodeBytes, which allocates the declared length (the listed
			// finding; gigabytes per worker when a substitution lands in a 4-byte compact)
			s.danger = true
			return false
		}
		for i := uint64(0); i < n; i++ {
			if t.Kind == ref.C11Map && !s.walk(t.Key) {
				return false
			}
			if !s.walk(t.Elem) {
				return false
			}
		}
		return true
	case ref.C11Array:
		for i := 0; i < t.N; i++ {
			if !s.walk(t.Elem) {
				return false
			}
		}
		return true
	case ref.C11Tuple:
		for _, f := range t.Fields {
			if !s.walk(f) {
				return false
			}
		}
		return true
	case ref.C11Result:
		b, ok := s.readByte()
		if !ok || b > 1 {
			return false
		}
		return s.walk(t.Fields[b])
	case ref.C11Enum:
		b, ok := s.readByte()
		if !ok {
			return false
		}
		for i, tag := range t.Tags {
			if tag == b {
				return s.walk(t.Fields[i])
			}
		}
		return false
	}
	return false
}

func c12Dangerous(t *ref.C11Type, input []byte, mode, k int) bool {
	s := &c12Shadow{rd: &c12Reader{data: input, mode: mode, k: k}}
	s.walk(t)
	return s.danger
}

// ---- signature helpers ----

func c12LeafGroup(leaf string) string {
	switch leaf {
	case "u8", "i8":
		return "byte"
	case "u16", "u32", "u64", "i16", "i32", "i64":
		return "fixed-int"
	case "u128":
		return "u128"
	case "compact64", "compact64(int)":
		return "compact-uint"
	case "compactbig":
		return "compact-bigint"
	case "bytes", "str":
		return "bytes"
	case "vec", "map":
		return "length-prefix"
	}
	return leaf
}

type c12Case struct {
	Type     string `json:"type"`
	Input    string `json:"input"`
	Reader   string `json:"reader"`
	Class    string `json:"input_class"`
	Consumed int    `json:"consumed,omitempty"`
	Got      string `json:"decoded_value,omitempty"`
	ReEnc    string `json:"canonical_encoding_of_decoded_value,omitempty"`
}

// c12MapShape inspects an input that the strict reference rejected only for its map entry order:
// "unsorted" (all keys distinct) or "duplicate-key".
func c12MapShape(t *ref.C11Type, in []byte) string {
	v, _, err := c12DecMapsAsVecs(t, in)
	if err != nil {
		return ""
	}
	dup := false
	c12WalkVecMaps(t, v, func(mt *ref.C11Type, entries []*ref.C11Val) {
		ks := make([]*ref.C11Val, 0, len(entries))
		for _, kv := range entries {
			ks = append(ks, kv.Elems[0])
		}
		sort.SliceStable(ks, func(a, b int) bool { return ref.C11Cmp(mt.Key, ks[a], ks[b]) < 0 })
		for i := 1; i < len(ks); i++ {
			if ref.C11Cmp(mt.Key, ks[i-1], ks[i]) == 0 {
				dup = true
			}
		}
	})
	if dup {
		return "duplicate-key"
	}
	return "unsorted"
}

func c12DecMapsAsVecs(t *ref.C11Type, in []byte) (*ref.C11Val, int, error) {
	v, n, err := ref.C11Dec(c11MapsAsVecs(t), in)
	if err != nil {
		return nil, 0, err
	}
	return v, n, nil
}

// c12WalkVecMaps walks a value decoded with c12AsVecs(t) and calls f on the entry list of every map of t.
func c12WalkVecMaps(t *ref.C11Type, v *ref.C11Val, f func(mt *ref.C11Type, entries []*ref.C11Val)) {
	switch t.Kind {
	case ref.C11Map:
		f(t, v.Elems)
		for _, kv := range v.Elems {
			c12WalkVecMaps(t.Key, kv.Elems[0], f)
			c12WalkVecMaps(t.Elem, kv.Elems[1], f)
		}
	case ref.C11Option:
		if v.Idx == 1 {
			c12WalkVecMaps(t.Elem, v.Elems[0], f)
		}
	case ref.C11Vec, ref.C11Array:
		for _, e := range v.Elems {
			c12WalkVecMaps(t.Elem, e, f)
		}
	case ref.C11Tuple:
		for i, e := range v.Elems {
			c12WalkVecMaps(t.Fields[i], e, f)
		}
	case ref.C11Result, ref.C11Enum:
		c12WalkVecMaps(t.Fields[v.Idx], v.Elems[0], f)
	}
}

// c12Try runs f and returns the panic value rendered as text ("" when f returned normally).
func c12Try(f func()) (panicValue string) {
	defer func() {
		if x := recover(); x != nil {
			panicValue = fmt.Sprint(x)
			if panicValue == "" {
				panicValue = "panic"
			}
		}
	}()
	f()
	return ""
}

// c12Violate forwards a violation to the report; the description is only formatted for the first
// three violations of a signature in this task (the report keeps three per signature anyway).
func c12Violate(r *verifmc.Report, cnt *c11Counts, sig string, mk func() (string, any)) {
	cnt.vio[sig]++
	if cnt.vio[sig] <= 3 {
		desc, replay := mk()
		r.Violate(sig, desc, replay)
		return
	}
	r.Violate(sig, "", nil) // counted only: at least three of this signature were already recorded
}

// c12BigSem serialises (two at a time) the decodes of inputs in which SOME offset reads as a compact
// integer above 16 MiB.  c12Dangerous predicts most declared-length allocations of the listed decodeBytes
// finding, but not all of them (observed: 400 MiB buffers under decodeMap), and sixteen workers holding
// such buffers at once took the machine to 60 GB.  This is scheduling only: every input is still executed.
var c12BigSem = make(chan struct{}, 2)

func c12MayDeclareBig(in []byte) bool {
	for i := 0; i+3 < len(in); i++ {
		switch in[i] & 3 {
		case 2:
			if (uint32(in[i])|uint32(in[i+1])<<8|uint32(in[i+2])<<16|uint32(in[i+3])<<24)>>2 > 16<<20 {
				return true
			}
		case 3:
			if i+4 < len(in) && (in[i+4] != 0 || in[i+3] != 0) {
				return true
			}
		}
	}
	return false
}

// c12Check runs the real decoder on one input through one reader and applies the oracle.
// It returns true when the decoder accepted the input.
func c12Check(r *verifmc.Report, cnt *c11Counts, t *ref.C11Type, input []byte, mode, k int, class string) bool {
	if c12Dangerous(t, input, mode, k) {
		cnt.add["skipped_declares_64B_more_than_present"]++
		cnt.outcome[class+":not-executed-declares-64B-more-than-present (allocation phase decides the clause)"]++
		return false
	}
	cnt.add["evaluations"]++
	if c12MayDeclareBig(input) {
		c12BigSem <- struct{}{}
		defer func() { <-c12BigSem }()
	}
	dest := c11Dest(t)
	rd := &c12Reader{data: input, mode: mode, k: k}
	var err error
	mk := func() c12Case {
		rn := c12ModeName[mode]
		if mode == c12Split {
			rn = fmt.Sprintf("split@%d", k)
		}
		return c12Case{Type: ref.C11Name(t), Input: verifmc.Hex(input), Reader: rn, Class: class}
	}
	suffix := ""
	if mode != c12Whole {
		suffix = "/chunked-reader"
		if mode == c12ZeroNil {
			suffix = "/zero-nil-reader"
		}
	}
	if pv := c12Try(func() { err = NewDecoder(rd).Decode(dest.Interface()) }); pv != "" {
		cnt.outcome[class+":panic"]++
		// the stack is captured (expensive) once per distinct panic message and task, by re-running the input
		site, ok := cnt.sites[pv]
		msg := pv
		if !ok {
			_, msg = verifmc.Guard(func() {
				_ = NewDecoder(&c12Reader{data: input, mode: mode, k: k}).Decode(c11Dest(t).Interface())
			})
			site = c11PanicSite(msg)
			cnt.sites[pv] = site
		}
		c12Violate(r, cnt, "Decode:panic@"+site+suffix, func() (string, any) {
			return fmt.Sprintf("decoding %x into %s panics: %s", input, ref.C11Name(t), msg), mk()
		})
		return false
	}
	if err != nil {
		cnt.outcome[class+":rejected"]++
		return false
	}
	consumed := rd.pos
	limit := 1<<14 + 64*len(input)
	val, cerr := c11FromGo(t, dest.Elem(), &limit)
	if cerr != nil {
		cnt.outcome[class+":accepted-malformed"]++
		msig := "Decode:malformed-result:" + cerr.Error()
		if cerr.Error() == "value-larger-than-limit" {
			// more than 16 KiB + 64x the input came out of the decoder: only zero-filling can do that
			msig = "Decode:accepts:truncated-input-zero-filled@oversized-value"
		}
		c12Violate(r, cnt, msig+suffix, func() (string, any) {
			cs := mk()
			cs.Consumed = consumed
			return fmt.Sprintf("decoding %x into %s succeeds and leaves %s", input, cs.Type, cerr), cs
		})
		return true
	}
	reenc := ref.C11Enc(t, c11Unsign(t, val))
	if bytes.Equal(reenc, input[:consumed]) {
		cnt.outcome[class+":accepted-canonical"]++
		return true
	}
	// ---- the property is violated (or the case is one the statement does not decide); name the shape ----
	_, rn, derr := ref.C11Dec(t, input)
	sig := ""
	switch {
	case derr != nil && derr.Class == "truncated":
		shape := "truncated-input-accepted"
		if len(reenc) > len(input) && bytes.Equal(reenc[:consumed], input[:consumed]) && len(bytes.Trim(reenc[consumed:], "\x00")) == 0 {
			shape = "truncated-input-zero-filled"
		}
		sig = "Decode:accepts:" + shape + "@" + c12LeafGroup(derr.Leaf)
		if derr.InArr {
			// a fixed-size array is decoded element by element (no length prefix, no decodeBytes):
			// a shape of its own, not the listed byte-string one
			sig += "-in-array"
		}
	case derr != nil && derr.Class == "map-keys-not-strictly-ascending":
		switch c12MapShape(t, input) {
		case "unsorted":
			// entries complete and distinct, only not in ascending key order: the statement does not name
			// the canonical entry order of maps -> counted, not judged (same position as C11)
			if lv, ln, lerr := c11DecLenientMaps(t, input); lerr == nil && ln == consumed && ref.C11Equal(t, lv, c11Unsign(t, val)) {
				cnt.outcome[class+":accepted-map-entries-unsorted (not judged)"]++
				return true
			}
			sig = "Decode:wrong-value@map"
		case "duplicate-key":
			sig = "Decode:accepts:map-duplicate-key"
		default:
			sig = "Decode:accepts:map-malformed"
		}
	case derr != nil:
		sig = "Decode:accepts:" + derr.Class + "@" + c12LeafGroup(derr.Leaf)
	case mode != c12Whole:
		// the input is a valid encoding; the value or the consumed length changed because a short read
		// of the reader was taken for a complete one
		rv, _, _ := ref.C11Dec(t, input)
		sig = "Decode:short-read-not-completed@" + c12LeafGroup(c11FirstDiff(t, rv, val))
	case rn != consumed:
		sig = "Decode:wrong-consumed-length@" + ref.C11KindName(t)
	default:
		rv, _, _ := ref.C11Dec(t, input)
		sig = "Decode:wrong-value@" + c12LeafGroup(c11FirstDiff(t, rv, val))
	}
	cnt.outcome[class+":accepted-VIOLATING"]++
	c12Violate(r, cnt, sig+suffix, func() (string, any) {
		cs := mk()
		cs.Consumed = consumed
		cs.Got = ref.C11String(t, val)
		cs.ReEnc = verifmc.Hex(reenc)
		return fmt.Sprintf("decoding %x into %s (reader %s) succeeds with %s after %d bytes; the canonical encoding of that value is %x", input, cs.Type, cs.Reader, cs.Got, consumed, reenc), cs
	})
	return true
}

// c12SubstAlphabet: the byte values that select every compact mode, the boolean/option tags, the
// enum tags and the extremes.
var c12SubstAlphabet = []byte{0x00, 0x01, 0x02, 0x03, 0x04, 0x07, 0x0b, 0x0f, 0x13, 0x17, 0x7f, 0x80, 0xfc, 0xfd, 0xfe, 0xff}

func c12TypeTask(r *verifmc.Report, t *ref.C11Type, depth int) {
	cnt := c11NewCounts()
	defer cnt.flush(r)
	cnt.add["types"]++
	// A. every byte string up to a length
	maxLen := 1
	switch {
	case depth == 0:
		maxLen = verifmc.Pick(2, 3)
	case depth == 1:
		maxLen = 2
	default:
		maxLen = verifmc.Pick(1, 2)
	}
	nA := verifmc.NumBytesUpTo(maxLen)
	for i := 0; i < nA; i++ {
		in := verifmc.BytesAt(i)
		ok := c12Check(r, cnt, t, in, c12Whole, 0, "all-short-strings")
		if ok && len(in) == 2 {
			// an accepted two-byte input is also delivered one byte at a time
			c12Check(r, cnt, t, in, c12OneByte, 0, "all-short-strings/one-byte-reads")
		}
		if i%4096 == 0 && r.Expired() {
			r.Capped("deadline inside the all-short-strings sweep of " + ref.C11Name(t))
			return
		}
	}
	// B. canonical encodings of the boundary values and their deviation-1 neighbourhood
	vals := c11Values(t, depth <= verifmc.Pick(0, 1))
	fullSubstLen := verifmc.Pick(8, 24)
	if depth >= 2 {
		fullSubstLen = verifmc.Pick(0, 12)
	}
	seen := map[string]bool{}
	for _, v := range vals {
		if c11HasNegativeCompact(t, v) {
			v = c11Unsign(t, v)
		}
		e := ref.C11Enc(t, v)
		if seen[string(e)] || len(e) > 4096 {
			continue
		}
		seen[string(e)] = true
		cnt.add["canonical_encodings"]++
		r.Distinct(ref.C11Name(t) + "=" + verifmc.Hex(e))
		// the canonical encoding through every reader (valid input: accepted => must be the same value)
		if c12Check(r, cnt, t, e, c12Whole, 0, "canonical") {
			cnt.add["canonical_accepted"]++
		}
		c12Check(r, cnt, t, e, c12OneByte, 0, "canonical/one-byte-reads")
		c12Check(r, cnt, t, e, c12ZeroNil, 0, "canonical/zero-nil-reads")
		if len(e) <= 40 {
			for k := 1; k < len(e); k++ {
				c12Check(r, cnt, t, e, c12Split, k, "canonical/split")
			}
		} else {
			for _, k := range []int{1, 2, len(e) / 2, len(e) - 1} {
				c12Check(r, cnt, t, e, c12Split, k, "canonical/split")
			}
		}
		// every truncation (long encodings: the first and last 8 cut points)
		for l := 0; l < len(e); l++ {
			if len(e) > 64 && l > 8 && l < len(e)-8 {
				continue
			}
			c12Check(r, cnt, t, e[:l], c12Whole, 0, "truncation")
			c12Check(r, cnt, t, e[:l], c12OneByte, 0, "truncation/one-byte-reads")
		}
		// single-byte substitutions (long encodings: the first 4 positions and the last one)
		for pos := 0; pos < len(e); pos++ {
			if len(e) > 64 && pos >= 4 && pos != len(e)-1 {
				continue
			}
			var subst []byte
			if len(e) <= fullSubstLen {
				for b := 0; b < 256; b++ {
					subst = append(subst, byte(b))
				}
			} else {
				subst = append(append([]byte{}, c12SubstAlphabet...), e[pos]+1, e[pos]-1, e[pos]^0x80)
			}
			done := map[byte]bool{e[pos]: true}
			for _, b := range subst {
				if done[b] {
					continue
				}
				done[b] = true
				d := append([]byte{}, e...)
				d[pos] = b
				c12Check(r, cnt, t, d, c12Whole, 0, "substitution")
			}
		}
		// one appended byte must not change the result
		c12Check(r, cnt, t, append(append([]byte{}, e...), 0xff), c12Whole, 0, "appended-byte")
		if r.Expired() {
			r.Capped("deadline inside the deviation sweep of " + ref.C11Name(t))
			return
		}
	}
}

// ---- allocation clause ----

// c12AllocOf measures the bytes allocated by f (minimum of two runs; GiB-sized cases are run once).
func c12AllocOf(twice bool, f func()) uint64 {
	best := ^uint64(0)
	for i := 0; i < 2; i++ {
		if i == 1 && !twice {
			break
		}
		runtime.GC()
		var a, b runtime.MemStats
		runtime.ReadMemStats(&a)
		f()
		runtime.ReadMemStats(&b)
		if d := b.TotalAlloc - a.TotalAlloc; d < best {
			best = d
		}
		debug.FreeOSMemory()
	}
	return best
}

func c12AllocPhase(r *verifmc.Report) {
	cnt := c11NewCounts()
	defer cnt.flush(r)
	compact := func(n uint64) []byte { return ref.C11EncodeCompactBig(new(big.Int).SetUint64(n)) }
	type tcase struct {
		t      *ref.C11Type
		prefix []byte // bytes in front of the length prefix
		big    bool   // also try 2^32-1
	}
	bytesStruct := c11Tuple(nil, c11U8T, c11BytesT)
	cases := []tcase{
		{c11BytesT, nil, true},
		{c11StrT, nil, false},
		{c11Option(c11BytesT), []byte{1}, false},
		{bytesStruct, []byte{7}, false},
		{c11Vec(c11BytesT), []byte{4}, false},
		{c11Map(c11U8T, c11BytesT), []byte{4, 9}, false},
		{c11Result(c11UnitT, c11BytesT), []byte{1}, false},
		{c11EnumT, []byte{1, 0}, false},
		// element-wise containers: the declared count must not be pre-allocated either
		{c11Vec(c11U32T), nil, false},
		{c11Vec(c11BoolT), nil, false},
		{c11Map(c11U8T, c11U8T), nil, false},
		{c11Vec(c11Vec(c11U8T)), nil, false},
	}
	payloads := [][]byte{{}, {0x01, 0x02, 0x03}}
	for _, c := range cases {
		lens := []uint64{1 << 14, 1 << 20}
		if c.big {
			lens = append(lens, verifmc.Pick[uint64](1<<24, 1<<30))
		}
		for _, l := range lens {
			for _, pl := range payloads {
				in := append(append(append([]byte{}, c.prefix...), compact(l)...), pl...)
				cs := c12Case{Type: ref.C11Name(c.t), Input: verifmc.Hex(in), Reader: "whole", Class: "crafted-length-prefix"}
				cnt.add["evaluations"]++
				cnt.add["alloc_measurements"]++
				var err error
				var accepted bool
				var panicMsg string
				alloc := c12AllocOf(l < 1<<20, func() {
					dest := c11Dest(c.t)
					p, msg := verifmc.Guard(func() { err = Unmarshal(in, dest.Interface()) })
					if p {
						panicMsg = msg
					}
					accepted = !p && err == nil
				})
				bound := uint64(64*len(in) + 256<<10)
				switch {
				case panicMsg != "":
					r.Violate("Decode:panic@"+c11PanicSite(panicMsg), fmt.Sprintf("decoding %x into %s panics: %s", in, cs.Type, panicMsg), cs)
				case accepted:
					// the payload is at most 3 bytes but at least 2^14 items were declared
					cnt.outcome["crafted-length-prefix:accepted-VIOLATING"]++
					r.Violate("Decode:accepts:truncated-input-zero-filled@"+c12LeafGroup(ref.C11KindName(c12LenOwner(c.t))), fmt.Sprintf("decoding %x into %s succeeds although %d items are declared and %d payload bytes present", in, cs.Type, l, len(pl)), cs)
				default:
					cnt.outcome["crafted-length-prefix:rejected"]++
				}
				if alloc > bound {
					cnt.outcome["alloc:over-bound"]++
					r.Violate("Decode:allocates-declared-length@"+c12LeafGroup(ref.C11KindName(c12LenOwner(c.t))), fmt.Sprintf("decoding the %d-byte input %x into %s allocates %d bytes (bound 64*len+256KiB = %d)", len(in), in, cs.Type, alloc, bound), cs)
				} else {
					cnt.outcome["alloc:within-bound"]++
				}
			}
		}
	}
	// non-vacuity of the bound: honest inputs stay within it
	for _, t := range []*ref.C11Type{c11BytesT, c11Vec(c11U32T), c11Map(c11U8T, c11BytesT), c11BigT} {
		for _, v := range c11Values(t, false) {
			e := ref.C11Enc(t, v)
			cnt.add["alloc_measurements"]++
			alloc := c12AllocOf(true, func() {
				dest := c11Dest(t)
				c12Try(func() { _ = Unmarshal(e, dest.Interface()) })
			})
			if bound := uint64(64*len(e) + 256<<10); alloc > bound {
				r.Violate("Decode:allocation-over-bound-on-valid-input@"+ref.C11KindName(t), fmt.Sprintf("decoding the valid %d-byte encoding of %s allocates %d bytes (bound %d)", len(e), ref.C11Name(t), alloc, bound), c12Case{Type: ref.C11Name(t), Input: verifmc.Hex(e)})
			} else {
				cnt.outcome["alloc:valid-input-within-bound"]++
			}
		}
	}
}

// c12LenOwner: the node that owns the first length prefix of the crafted cases.
func c12LenOwner(t *ref.C11Type) *ref.C11Type {
	switch t.Kind {
	case ref.C11Option:
		return c12LenOwner(t.Elem)
	case ref.C11Tuple:
		return c12LenOwner(t.Fields[len(t.Fields)-1])
	case ref.C11Result:
		return c12LenOwner(t.Fields[1])
	case ref.C11Enum:
		return c12LenOwner(t.Fields[1])
	}
	return t
}

func TestVerif_C12(t *testing.T) {
	if f := os.Getenv("C12_HEAPDUMP"); f != "" { // debugging aid: heap profile after 5 minutes
		go func() {
			time.Sleep(5 * time.Minute)
			w, err := os.Create(f)
			if err == nil {
				_ = pprof.WriteHeapProfile(w)
				w.Close()
			}
		}()
	}
	r := verifmc.NewReport("C12", "decode-malformed", "exploration")
	defer r.Write()
	depth := verifmc.Pick(1, 2)
	cat := c11Catalogue(depth)
	r.Rule = fmt.Sprintf("for every type of the C11 catalogue (depth %d): every byte string of length <=%d (leaves), <=2 (depth 1), <=%d (depth 2); for the canonical encoding of every boundary value: the encoding through a whole-buffer reader, a one-byte-per-Read reader, a reader alternating (0,nil) reads and a two-chunk reader split at every position; every truncation (whole and one-byte readers); every single-byte substitution (all 255 values for encodings up to %d bytes at depth<=1, else 19 mode/tag/extreme values per position); one appended byte; crafted length prefixes 2^14, 2^20 (and 2^24 quick / 2^30 thorough for []byte) in front of 0/3 payload bytes with TotalAlloc measured (sequentially, minimum of two runs, bound 64*len+256KiB).  Oracle: an accepted input must re-encode (reference encoder) to exactly the bytes taken from the reader.  A case is non-trivial when the decoder accepts it.", depth, verifmc.Pick(2, 3), verifmc.Pick(1, 2), verifmc.Pick(8, 24))
	// reference decoder sanity (strictness) against specification examples
	for _, c := range []struct {
		in  string
		cls string
	}{{"0100", "noncanonical-compact"}, {"02000000", "noncanonical-compact"}, {"0300000000", "noncanonical-compact"}, {"03ffffff3f", "noncanonical-compact"}, {"0700000000", "truncated"}, {"070000000000", "noncanonical-compact"}} {
		_, _, err := ref.C11Dec(c11BigT, verifmc.UnHex(c.in))
		if err == nil || err.Class != c.cls {
			t.Fatalf("reference decoder on %s: %v, want %s", c.in, err, c.cls)
		}
	}
	if v, n, err := ref.C11Dec(c11BigT, verifmc.UnHex("0b00407a10f35a")); err != nil || n != 7 || v.N.String() != "100000000000000" {
		t.Fatalf("reference decoder on 0b00407a10f35a: %v %d %v", v, n, err)
	}
	if n, _ := strconv.Atoi(os.Getenv("VERIF_C12_DEBUG_TYPES")); n > 0 && n < len(cat) {
		cat = cat[:n] // debugging aid only; bin/check never sets it
		r.Capped("debug subset of types")
	}
	verifmc.ParallelFor(r, len(cat), func(i int) {
		c12TypeTask(r, cat[i], c11TypeDepth(cat[i]))
	}, func(i int, msg string) {
		t.Errorf("harness panic on type %s: %s", ref.C11Name(cat[i]), msg)
	})
	t0 := time.Now()
	c12AllocPhase(r)
	r.Extra["alloc_phase_s"] = int(time.Since(t0).Seconds())
	c11Finish(r)
	r.Sample(c12Case{Type: "u32", Input: "0102", Reader: "whole", Class: "all-short-strings"})
	r.Sample(c12Case{Type: "compactbig", Input: "0100", Reader: "whole", Class: "all-short-strings"})
	r.Sample(c12Case{Type: "bytes", Input: "0300000040010203", Reader: "whole", Class: "crafted-length-prefix"})
	r.Extra["types"] = len(cat)
	r.Extra["depth"] = depth
}
