//go:build verif

package proof

// C05: storage read proofs are complete and sound.
//
// States: every map with <= N entries over a 7-key alphabet x 3 values, for V0 and V1, built with the
// real InMemoryTrie and persisted (WriteDirty) into a map-backed database.
// Completeness: Generate(root, Q, db) for every key set Q (|Q| <= 2) over alphabet + absent probes;
// whenever Generate succeeds every present key of Q must verify with its value (and as an existence
// query); when all keys of Q are present Generate must succeed.
// Soundness: for EVERY proof evaluated (generated ones and adversarial ones: every sub-set up to size B
// of nodes(S) u nodes(S') for foreign states S', the honest node set with one node duplicated /
// reordered / one byte of one node altered (replacing the node or added next to it)), and every
// (key, value) over (alphabet + probes) x (3 values, hash of the 33-byte value, empty = existence
// query) that is NOT in the state, Verify must fail.
// The nodes of the adversarial proofs come from the reference encoder (engine/ref), not from Generate.

import (
	"bytes"
	"errors"
	"fmt"
	"io"
	"os"
	"runtime/debug"
	"sort"
	"strings"
	"testing"

	"github.com/ChainSafe/gossamer/internal/database"
	"github.com/ChainSafe/gossamer/internal/log"
	"github.com/ChainSafe/gossamer/internal/verifmc"
	"github.com/ChainSafe/gossamer/internal/verifmc/ref"
	"github.com/ChainSafe/gossamer/pkg/trie"
	"github.com/ChainSafe/gossamer/pkg/trie/inmemory"
)

// ---- map-backed database (batches applied atomically on Flush) ----

type c05DB struct{ m map[string][]byte }

func (d *c05DB) Get(k []byte) ([]byte, error) {
	v, ok := d.m[string(k)]
	if !ok {
		return nil, database.ErrNotFound
	}
	return append([]byte{}, v...), nil
}
func (d *c05DB) NewBatch() database.Batch { return &c05Batch{d: d} }

type c05Batch struct {
	d   *c05DB
	ops [][2][]byte
}

func (b *c05Batch) Put(k, v []byte) error {
	b.ops = append(b.ops, [2][]byte{append([]byte{}, k...), append([]byte{}, v...)})
	return nil
}
func (b *c05Batch) Del(k []byte) error {
	b.ops = append(b.ops, [2][]byte{append([]byte{}, k...), nil})
	return nil
}
func (b *c05Batch) Flush() error {
	for _, o := range b.ops {
		if o[1] == nil {
			delete(b.d.m, string(o[0]))
		} else {
			b.d.m[string(o[0])] = o[1]
		}
	}
	b.ops = nil
	return nil
}
func (b *c05Batch) Close() error   { return nil }
func (b *c05Batch) ValueSize() int { return len(b.ops) }
func (b *c05Batch) Reset()         { b.ops = nil }

// ---- alphabets ----

// (set per tier at the start of the test, before any parallel work)
var c05Alphabet = [][]byte{{0x01}, {0x01, 0x00}, {0x01, 0x01}, {0x10}, {0x15, 0x00}, {0x15, 0x23}, {0x15, 0x00, 0x00}}
var c05AlphabetQuick = [][]byte{{0x01}, {0x01, 0x00}, {0x10}, {0x15, 0x00}, {0x15, 0x23}, {0x15, 0x00, 0x00}}

// absent probes: "" (ends at the root boundary), 15 (ends at a nested node boundary / inside a partial
// key), 00 02 23 1501 (diverge), 0102 (absent child of 01), 010000 (extends the leaf 0100)
var c05Probes = [][]byte{{}, {0x00}, {0x02}, {0x01, 0x02}, {0x15}, {0x15, 0x01}, {0x23}, {0x01, 0x00, 0x00}}
var c05ProbesQuick = [][]byte{{}, {0x02}, {0x01, 0x02}, {0x15}, {0x15, 0x01}, {0x01, 0x00, 0x00}}

func c05KeyList(ks [][]byte) string {
	var out []string
	for _, k := range ks {
		out = append(out, fmt.Sprintf("'%x'", k))
	}
	return strings.Join(out, ",")
}

// Values: 1, 29, 32 and 33 bytes of 0x33 (each a proper prefix of the next, so that a prefix
// comparison instead of equality is visible).  29 bytes: a leaf with a one-byte partial key then
// encodes to exactly 32 bytes (smallest node referenced by hash), with an empty partial key to 31
// (largest inline node).  32/33: the V1 hashing threshold.
var (
	c05V1  = bytes.Repeat([]byte{0x33}, 1)
	c05V29 = bytes.Repeat([]byte{0x33}, 29)
	c05V32 = bytes.Repeat([]byte{0x33}, 32)
	c05V33 = bytes.Repeat([]byte{0x33}, 33)
)

var c05DryRun = os.Getenv("C05_DRY") == "1"

func c05StateValues() [][]byte { return [][]byte{c05V1, c05V29, c05V32, c05V33} }

// values a verifier is asked to confirm: the three state values, the hash of the hashed one, and the
// empty value (documented by Verify as "do not compare the value": an existence query)
func c05QueryValues() [][]byte {
	return [][]byte{c05V1, c05V29, c05V32, c05V33, ref.Blake256(c05V33), {}}
}

func c05QueryKeys(own [][]byte) [][]byte {
	var ks [][]byte
	if own != nil {
		ks = append(ks, own...)
		for _, k := range c05Probes {
			dup := false
			for _, o := range own {
				dup = dup || bytes.Equal(o, k)
			}
			if !dup {
				ks = append(ks, k)
			}
		}
		return ks
	}
	ks = append(ks, c05Alphabet...)
	ks = append(ks, c05Probes...)
	return ks
}

func c05ValName(v []byte) string {
	switch {
	case len(v) == 0:
		return "empty"
	case bytes.Equal(v, c05V1):
		return "v1"
	case bytes.Equal(v, c05V29):
		return "v29"
	case bytes.Equal(v, c05V32):
		return "v32"
	case bytes.Equal(v, c05V33):
		return "v33"
	case bytes.Equal(v, ref.Blake256(c05V33)):
		return "H(v33)"
	}
	return fmt.Sprintf("%x", v)
}

func c05ValNames(vs [][]byte) string {
	var vn []string
	for _, v := range vs {
		vn = append(vn, c05ValName(v))
	}
	return strings.Join(vn, ",")
}

func c05MapString(m map[string][]byte) string {
	var ks []string
	for k := range m {
		ks = append(ks, k)
	}
	sort.Strings(ks)
	var parts []string
	for _, k := range ks {
		parts = append(parts, fmt.Sprintf("%x=%s", k, c05ValName(m[k])))
	}
	return "{" + strings.Join(parts, " ") + "}"
}

// ---- nibble helpers for the shape predicates (independent of the code under test) ----

func c05Nib(k []byte) []byte {
	out := make([]byte, 0, 2*len(k))
	for _, b := range k {
		out = append(out, b>>4, b&0xf)
	}
	return out
}

// c05Under returns the nibble keys of m that have the nibble prefix p.
func c05Under(m map[string][]byte, p []byte) [][]byte {
	var out [][]byte
	for k := range m {
		n := c05Nib([]byte(k))
		if bytes.HasPrefix(n, p) {
			out = append(out, n)
		}
	}
	sort.Slice(out, func(i, j int) bool { return bytes.Compare(out[i], out[j]) < 0 })
	return out
}

func c05LCP(set [][]byte) []byte {
	if len(set) == 0 {
		return nil
	}
	p := set[0]
	for _, s := range set[1:] {
		i := 0
		for i < len(p) && i < len(s) && p[i] == s[i] {
			i++
		}
		p = p[:i]
	}
	return p
}

func c05NibToKey(n []byte) []byte {
	out := make([]byte, len(n)/2)
	for i := range out {
		out[i] = n[2*i]<<4 | n[2*i+1]
	}
	return out
}

// c05BoundaryBranch: k (absent) ends exactly where the node of a branch B begins (k == "" and B is the
// root, or the parent of B branches at k's last nibble), B has a non-empty partial key and holds a
// value.  Returns the key stored at B.  This is the shape of the trie Get defect KF-TRIE-get-prefix.
func c05BoundaryBranch(m map[string][]byte, k []byte) (kB []byte, ok bool) {
	if _, present := m[string(k)]; present {
		return nil, false
	}
	nk := c05Nib(k)
	under := c05Under(m, nk)
	if len(under) < 2 {
		return nil, false // the node below k is a leaf (or nothing)
	}
	lcp := c05LCP(under)
	if len(lcp) == len(nk) || len(lcp)%2 != 0 {
		return nil, false
	}
	if _, has := m[string(c05NibToKey(lcp))]; !has {
		return nil, false // branch without value
	}
	if len(nk) > 0 {
		parentSet := c05Under(m, nk[:len(nk)-1])
		if len(c05LCP(parentSet)) != len(nk)-1 {
			return nil, false // k's last nibble lies inside a partial key, not at a child index
		}
	}
	return c05NibToKey(lcp), true
}

func c05IsBranchKey(m map[string][]byte, k []byte) bool {
	return len(c05Under(m, c05Nib(k))) >= 2
}

func c05Hashed(ver int, v []byte) bool { return ver == 1 && len(v) > 32 }

// ---- states ----

type c05State struct {
	ver  int
	m    map[string][]byte
	keys [][]byte // the family's own key alphabet (nil = the global one); always part of the queried keys
}

// c05Family: every map with minN..maxN entries over the key alphabet and the values vals.
type c05Family struct {
	minN, maxN int
	vals       [][]byte
	keys       [][]byte // nil = c05Alphabet
}

// second key alphabet: keys around a ZERO low nibble.  '10' ends exactly at the slot of the branch
// '1034' (value + children '103456','103478'), '15' is a same-length sibling that shares all nibbles
// but the last (zero) one, '1030' diverges inside the branch's partial key at a zero nibble.
var c05AlphabetZero = [][]byte{{0x10}, {0x10, 0x34}, {0x10, 0x34, 0x56}, {0x10, 0x34, 0x78}, {0x15}, {0x10, 0x30}}

func c05States(fams []c05Family) []c05State {
	var out []c05State
	for _, f := range fams {
		out = append(out, c05FamilyStates(f)...)
	}
	return out
}

func c05FamilyStates(f c05Family) []c05State {
	vals := f.vals
	var out []c05State
	alphabet := c05Alphabet
	if f.keys != nil {
		alphabet = f.keys
	}
	n := len(alphabet)
	for size := f.minN; size <= f.maxN; size++ {
		for mask := 0; mask < 1<<n; mask++ {
			var ks [][]byte
			for i := 0; i < n; i++ {
				if mask>>i&1 == 1 {
					ks = append(ks, alphabet[i])
				}
			}
			if len(ks) != size {
				continue
			}
			dims := make([]int, size)
			for i := range dims {
				dims[i] = len(vals)
			}
			if size == 0 {
				for ver := 0; ver <= 1; ver++ {
					out = append(out, c05State{ver, map[string][]byte{}, f.keys})
				}
				continue
			}
			verifmc.Product(dims, func(idx []int) {
				for ver := 0; ver <= 1; ver++ {
					m := map[string][]byte{}
					for i, k := range ks {
						m[string(k)] = vals[idx[i]]
					}
					out = append(out, c05State{ver, m, f.keys})
				}
			})
		}
	}
	return out
}

// c05NodesOf: every node encoding of the trie of m (reference encoder; inline nodes included) plus the
// raw values that the trie stores by hash (state version 1: these travel in a proof as items of their own).
func c05NodesOf(m map[string][]byte, ver int) [][]byte {
	var out [][]byte
	if len(m) > 0 {
		out = append(out, ref.NodeEncodings(m, ver)...)
	}
	var ks []string
	for k := range m {
		ks = append(ks, k)
	}
	sort.Strings(ks)
	seen := map[string]bool{}
	for _, k := range ks {
		if c05Hashed(ver, m[k]) && !seen[string(m[k])] {
			seen[string(m[k])] = true
			out = append(out, m[k])
		}
	}
	return out
}

// c05Foreign: the fixed foreign state (same for every S).
func c05Foreign() map[string][]byte {
	return map[string][]byte{
		string([]byte{0x01}):       c05V33,
		string([]byte{0x01, 0x00}): c05V1,
		string([]byte{0x15, 0x23}): c05V32,
		string([]byte{0x20}):       c05V33,
	}
}

// c05Neighbours: every state at edit distance one from m over the alphabet (one value changed, one key
// added with any value, one key removed); in the quick tier only the first of each kind.
func c05Neighbours(m map[string][]byte, alphabet [][]byte, all bool) []map[string][]byte {
	if alphabet == nil {
		alphabet = c05Alphabet
	}
	vals := c05StateValues()
	clone := func() map[string][]byte {
		c := map[string][]byte{}
		for k, v := range m {
			c[k] = v
		}
		return c
	}
	var changed, added, removed []map[string][]byte
	for _, k := range alphabet {
		if cur, ok := m[string(k)]; ok {
			for _, v := range vals {
				if !bytes.Equal(v, cur) {
					c := clone()
					c[string(k)] = v
					changed = append(changed, c)
				}
			}
			c := clone()
			delete(c, string(k))
			removed = append(removed, c)
		} else {
			for _, v := range vals {
				c := clone()
				c[string(k)] = v
				added = append(added, c)
			}
		}
	}
	if all {
		return append(append(changed, added...), removed...)
	}
	var out []map[string][]byte
	for _, l := range [][]map[string][]byte{changed, added, removed} {
		if len(l) > 0 {
			out = append(out, l[0])
		}
	}
	return out
}

// ---- per-state work ----

type c05Vio struct {
	sig, desc string
	replay    any
}

type c05Ctx struct {
	st      c05State
	name    string
	root    []byte
	qkeys   [][]byte
	qvals   [][]byte
	cnt     map[string]int64
	out     map[string]int64
	vios    []c05Vio
	vioSeen map[string]int64
	intern  map[string]int
	seen    map[string]struct{}
	samples []any
	expired func() bool
	capped  bool
}

func (c *c05Ctx) violate(sig, desc string, replay func() any) {
	c.vioSeen[sig]++
	if c.vioSeen[sig] == 1 {
		c.vios = append(c.vios, c05Vio{sig, desc, replay()})
	}
}

func c05HexList(p [][]byte) []string {
	out := make([]string, len(p))
	for i, n := range p {
		out[i] = fmt.Sprintf("%x", n)
	}
	return out
}

func c05ErrClass(err error) string {
	switch {
	case err == nil:
		return "confirmed"
	case errors.Is(err, ErrEmptyProof):
		return "empty-proof"
	case errors.Is(err, ErrRootNodeNotFound):
		return "root-node-not-in-proof"
	case errors.Is(err, ErrKeyNotFoundInProofTrie):
		return "key-not-found"
	case errors.Is(err, ErrValueMismatchProofTrie):
		return "value-mismatch"
	}
	s := err.Error()
	if len(s) > 48 {
		s = s[:48]
	}
	return "other-error:" + s
}

// c05SoundSig names the exact shape of a wrongly confirmed (key, value).
func c05SoundSig(st c05State, k, v []byte) string {
	m := st.m
	keyShape, target := "absent-key", []byte(nil)
	if w, ok := m[string(k)]; ok {
		keyShape, target = "present-leaf-key", w
		if c05IsBranchKey(m, k) {
			keyShape = "present-branch-key"
		}
	} else if kB, ok := c05BoundaryBranch(m, k); ok {
		keyShape, target = "absent-key-ending-where-a-valued-branch-node-begins", m[string(kB)]
	}
	valShape := "unrelated-value"
	switch {
	case len(v) == 0:
		valShape = "existence-query"
	case target != nil && bytes.Equal(v, target):
		valShape = "value-stored-at-that-node"
	case target != nil && c05Hashed(st.ver, target) && bytes.Equal(v, ref.Blake256(target)):
		valShape = "hash-of-the-hashed-value-stored-at-that-node"
	case target != nil && bytes.HasPrefix(target, v):
		valShape = "truncation-of-the-value-stored-at-that-node"
	}
	return "Verify:confirms:" + keyShape + ":" + valShape
}

// c05CompleteSig names the shape of a rejected honest proof.
func c05CompleteSig(st c05State, k, v []byte, class string) string {
	kind := "leaf"
	if c05IsBranchKey(st.m, k) {
		kind = "branch"
	}
	val := "inline-value"
	if c05Hashed(st.ver, st.m[string(k)]) {
		val = "hashed-value"
	}
	q := "value"
	if len(v) == 0 {
		q = "existence-query"
	}
	if strings.HasPrefix(class, "other-error") {
		class = "other-error"
	}
	return fmt.Sprintf("Verify:rejects-generated-proof:%s-with-%s:%s:%s", kind, val, q, class)
}

// checkProof evaluates Verify for every (key, value) of the query space on one proof.
// must: keys whose true pairs must be confirmed (nil for adversarial proofs).
func (c *c05Ctx) checkProof(proof [][]byte, origin string, must map[string]bool) {
	if must == nil {
		key := make([]byte, 0, 2*len(proof))
		for _, n := range proof {
			id, ok := c.intern[string(n)]
			if !ok {
				id = len(c.intern)
				c.intern[string(n)] = id
			}
			key = append(key, byte(id>>8), byte(id))
		}
		if _, dup := c.seen[string(key)]; dup {
			c.cnt["proofs_deduplicated"]++
			return
		}
		c.seen[string(key)] = struct{}{}
	}
	if c.capped || c.expired() {
		c.capped = true
		return
	}
	c.cnt["proofs"]++
	c.cnt["proofs:"+origin]++
	built := false
	if c05DryRun { // sizing aid only (C05_DRY=1): counts the enumeration without calling Verify
		c.cnt["dry_evaluations"] += int64(len(c.qkeys) * len(c.qvals))
		return
	}
	for _, k := range c.qkeys {
		w, present := c.st.m[string(k)]
		for _, v := range c.qvals {
			truth := present && (len(v) == 0 || bytes.Equal(v, w))
			var err error
			panicked, msg := verifmc.Guard(func() { err = Verify(proof, c.root, k, v) })
			c.cnt["evaluations"]++
			class := c05ErrClass(err)
			if panicked {
				class = "panic"
			}
			if class != "empty-proof" && class != "root-node-not-in-proof" {
				built = true
			}
			replay := func() any {
				return map[string]any{"version": c.st.ver, "state": c05MapString(c.st.m), "root": fmt.Sprintf("%x", c.root),
					"proof_origin": origin, "proof": c05HexList(proof), "key": fmt.Sprintf("%x", k), "value": c05ValName(v),
					"value_hex": fmt.Sprintf("%x", v)}
			}
			if panicked {
				c.out["panic"]++
				c.violate("Verify:panic@"+verifmc.PanicSite(msg),
					fmt.Sprintf("Verify panics for key %x value %s on a %s proof of state %s V%d: %s", k, c05ValName(v), origin, c.name, c.st.ver, strings.SplitN(msg, "\n", 2)[0]), replay)
				continue
			}
			if truth {
				if must[string(k)] {
					c.out["honest:"+class]++
					if err != nil {
						c.violate(c05CompleteSig(c.st, k, v, class),
							fmt.Sprintf("state %s V%d: proof generated for key %x rejects its stored value %s (query %s): %v", c.name, c.st.ver, k, c05ValName(w), c05ValName(v), err), replay)
					}
				} else {
					c.out["true-pair-not-requested:"+class]++ // statement silent: counted only
				}
				continue
			}
			c.out["false-pair:"+class]++
			if err == nil {
				c.violate(c05SoundSig(c.st, k, v),
					fmt.Sprintf("state %s V%d: Verify confirms (%x, %s) which is not in the state, with a %s proof of %d nodes", c.name, c.st.ver, k, c05ValName(v), origin, len(proof)), replay)
			}
		}
	}
	if built {
		c.cnt["proofs_root_found"]++
	}
}

func c05Subsets(n, maxSize int, f func(idx []int)) {
	idx := make([]int, 0, maxSize)
	var rec func(start int)
	rec = func(start int) {
		f(idx)
		if len(idx) == maxSize {
			return
		}
		for i := start; i < n; i++ {
			idx = append(idx, i)
			rec(i + 1)
			idx = idx[:len(idx)-1]
		}
	}
	rec(0)
}

type c05Bounds struct {
	families      []c05Family
	subsetMax     int      // sub-set size bound for the pools with the fixed foreign state and with the first neighbour of each kind
	deepEntries   int      // states with at most this many entries get the deep treatment instead:
	deepSubsetMax int      // sub-set size bound for the pool with the fixed foreign state
	deepNbMax     int      // sub-set size bound for the pools with EVERY edit-distance-1 neighbour state
	substEntries  int      // byte alterations for states with at most this many entries ...
	substVals     [][]byte // ... whose values all come from this list
	fullSubst     bool     // every single-bit flip at every offset (else: all 8 bits at the first 4 and the last offset, bit 0 elsewhere)
	orderedPairs  bool     // key sets in both orders
}

func c05RunState(st c05State, b c05Bounds, expired func() bool) *c05Ctx {
	c := &c05Ctx{expired: expired, st: st, name: c05MapString(st.m), qkeys: c05QueryKeys(st.keys), qvals: c05QueryValues(),
		cnt: map[string]int64{}, out: map[string]int64{}, vioSeen: map[string]int64{}, intern: map[string]int{}, seen: map[string]struct{}{}}
	layout := trie.V0
	if st.ver == 1 {
		layout = trie.V1
	}
	// --- build and persist with the real trie
	tr := inmemory.NewEmptyTrie()
	tr.SetVersion(layout)
	var ks []string
	for k := range st.m {
		ks = append(ks, k)
	}
	sort.Strings(ks)
	for _, k := range ks {
		if err := tr.Put([]byte(k), st.m[k]); err != nil {
			c.violate("Setup:put-fails", err.Error(), func() any { return c.name })
			return c
		}
	}
	db := &c05DB{m: map[string][]byte{}}
	if err := tr.WriteDirty(db); err != nil {
		c.violate("Setup:writedirty-fails", err.Error(), func() any { return c.name })
		return c
	}
	h, err := tr.Hash()
	if err != nil {
		c.violate("Setup:hash-fails", err.Error(), func() any { return c.name })
		return c
	}
	c.root = h.ToBytes()
	if want := ref.TrieRoot(st.m, st.ver); !bytes.Equal(want, c.root) {
		c.violate("Setup:root-differs-from-reference", fmt.Sprintf("state %s V%d root %x reference %x", c.name, st.ver, c.root, want), func() any { return c.name })
		return c
	}

	// --- completeness (and soundness of the generated proofs)
	var keysets [][][]byte
	for i, a := range c.qkeys {
		keysets = append(keysets, [][]byte{a})
		for j, bb := range c.qkeys {
			if j > i || (b.orderedPairs && j != i) {
				keysets = append(keysets, [][]byte{a, bb})
			}
		}
	}
	for _, q := range keysets {
		allPresent := true
		must := map[string]bool{}
		var qs []string
		for _, k := range q {
			if _, ok := st.m[string(k)]; ok {
				must[string(k)] = true
			} else {
				allPresent = false
			}
			qs = append(qs, fmt.Sprintf("%x", k))
		}
		var proof [][]byte
		var gerr error
		panicked, msg := verifmc.Guard(func() { proof, gerr = Generate(c.root, q, db) })
		c.cnt["generate_calls"]++
		replay := func() any {
			return map[string]any{"version": st.ver, "state": c.name, "keys": qs}
		}
		switch {
		case panicked:
			c.out["generate:panic"]++
			site := verifmc.PanicSite(msg)
			if len(st.m) == 0 {
				site = "empty-state"
			}
			c.violate("Generate:panic:"+site, fmt.Sprintf("Generate panics for keys %v on state %s V%d: %s", qs, c.name, st.ver, strings.SplitN(msg, "\n", 2)[0]), replay)
			continue
		case gerr != nil && allPresent:
			c.out["generate:error-all-present"]++
			c.violate("Generate:fails-for-present-keys", fmt.Sprintf("Generate(%v) on state %s V%d: %v", qs, c.name, st.ver, gerr), replay)
			continue
		case gerr != nil && errors.Is(gerr, ErrKeyNotFound):
			c.out["generate:absent-key:ErrKeyNotFound"]++
			continue
		case gerr != nil:
			c.out["generate:absent-key:other-error"]++
			continue
		case allPresent:
			c.out["generate:ok-all-present"]++
		default:
			c.out["generate:ok-with-absent-key"]++
		}
		cp := make([][]byte, len(proof))
		for i := range proof {
			cp[i] = append([]byte{}, proof[i]...)
		}
		if len(c.samples) < 1 && len(must) == 2 {
			c.samples = append(c.samples, map[string]any{"version": st.ver, "state": c.name, "keys": qs, "generated_proof": c05HexList(cp)})
		}
		c.checkProof(cp, "generated", must)
	}

	// --- adversarial proofs
	base := c05NodesOf(st.m, st.ver)
	type foreign struct {
		m   map[string][]byte
		max int
	}
	deep := len(st.m) <= b.deepEntries
	fs := []foreign{{c05Foreign(), b.subsetMax}}
	if deep {
		fs[0].max = b.deepSubsetMax
	}
	for _, nb := range c05Neighbours(st.m, st.keys, deep) {
		max := b.subsetMax
		if deep {
			max = b.deepNbMax
		}
		fs = append(fs, foreign{nb, max})
	}
	for _, f := range fs {
		pool := append([][]byte{}, base...)
		have := map[string]bool{}
		for _, n := range pool {
			have[string(n)] = true
		}
		for _, n := range c05NodesOf(f.m, st.ver) {
			if !have[string(n)] {
				have[string(n)] = true
				pool = append(pool, n)
			}
		}
		c05Subsets(len(pool), f.max, func(idx []int) {
			p := make([][]byte, len(idx))
			for i, j := range idx {
				p[i] = pool[j]
			}
			c.checkProof(p, "subset", nil)
		})
	}
	if len(base) > 0 {
		// full honest set: as is, reversed, each node duplicated (in front / at the end)
		c.checkProof(base, "honest-full", nil)
		rev := make([][]byte, len(base))
		for i := range base {
			rev[len(base)-1-i] = base[i]
		}
		c.checkProof(rev, "honest-reversed", nil)
		for _, n := range base {
			c.checkProof(append(append([][]byte{}, base...), n), "duplicated-node", nil)
			c.checkProof(append([][]byte{n}, base...), "duplicated-node", nil)
		}
		substOK := len(st.m) <= b.substEntries
		for _, v := range st.m {
			in := false
			for _, sv := range b.substVals {
				in = in || bytes.Equal(v, sv)
			}
			substOK = substOK && in
		}
		if substOK {
			for i, n := range base {
				alter := func(a []byte) {
					repl := append([][]byte{}, base...)
					repl[i] = a
					c.checkProof(repl, "altered-node-replaces-original", nil)
					c.checkProof(append(append([][]byte{}, base...), a), "altered-node-added", nil)
				}
				for pos := range n {
					bits := 8
					if !b.fullSubst && pos >= 4 && pos != len(n)-1 {
						bits = 1
					}
					for bit := 0; bit < bits; bit++ {
						a := append([]byte{}, n...)
						a[pos] ^= 1 << bit
						alter(a)
					}
				}
			}
		}
	}
	return c
}

func TestVerif_C05(t *testing.T) {
	r := verifmc.NewReport("C05", "generate-verify", "exploration")
	defer r.Write()
	// the package logs every proof node at info level: silence it (test environment only)
	logger.Patch(log.SetLevel(log.Critical), log.SetWriter(io.Discard))

	b := verifmc.Pick(
		c05Bounds{families: []c05Family{{0, 2, c05StateValues(), nil}, {3, 3, [][]byte{c05V1, c05V33}, nil}, {3, 3, [][]byte{c05V1, c05V33}, c05AlphabetZero}}, subsetMax: 3, deepEntries: -1, substEntries: 2, substVals: [][]byte{c05V1, c05V33}, fullSubst: false, orderedPairs: false},
		c05Bounds{families: []c05Family{{0, 3, c05StateValues(), nil}, {4, 4, [][]byte{c05V1, c05V33}, nil}, {1, 5, [][]byte{c05V1, c05V33}, c05AlphabetZero}}, subsetMax: 3, deepEntries: 2, deepSubsetMax: 4, deepNbMax: 3, substEntries: 2, substVals: [][]byte{c05V1, c05V33}, fullSubst: true, orderedPairs: true},
	)
	if !verifmc.Thorough() {
		c05Alphabet, c05Probes = c05AlphabetQuick, c05ProbesQuick
	}
	debug.SetGCPercent(400) // Verify allocates heavily; the live heap is tiny
	states := c05States(b.families)
	var famText []string
	for _, f := range b.families {
		var vn []string
		for _, v := range f.vals {
			vn = append(vn, c05ValName(v))
		}
		ft := fmt.Sprintf("%d..%d entries x values {%s}", f.minN, f.maxN, strings.Join(vn, ","))
		if f.keys != nil {
			ft += " over the zero-nibble key alphabet {" + c05KeyList(f.keys) + "} (these keys are also the probes of those states)"
		}
		famText = append(famText, ft)
	}
	deepText := ""
	if b.deepEntries >= 0 {
		deepText = fmt.Sprintf("; for states of <= %d entries instead: size <= %d with the fixed foreign state and size <= %d with EVERY edit-distance-1 neighbour state (one value changed, one key added with any value, one key removed)", b.deepEntries, b.deepSubsetMax, b.deepNbMax)
	}
	r.Rule = fmt.Sprintf("states: every map with %s (vN = N bytes of 0x33) over keys {%s}, V0 and V1, built with the real trie, root compared with the reference root, persisted with WriteDirty to a map database. "+
		"Completeness: Generate(root, Q, db) for every key set Q, |Q|<=2 (ordered pairs: %t) over these keys + absent probes {%s}; a successful Generate must let every present key of Q verify with its value and as existence query; all-present Q must generate. "+
		"Soundness: on every generated proof and every adversarial proof (all sub-sets of size <= %d of nodes(S) u nodes(S') for the fixed foreign state S' and for the first value-changed/key-added/key-removed neighbour state S'%s, honest full set as is/reversed/with each node duplicated, and for states of <= %d entries with values in {%s} %s of every node both replacing the node and added to the honest set) Verify is called for all keys and probes x {v1,v29,v32,v33,H(v33),empty}; "+
		"every pair not in the state must be rejected. Adversarial nodes come from the reference encoder (inline nodes and raw hashed values included). Non-trivial = proof in which the root node was found.",
		strings.Join(famText, " and "), c05KeyList(c05Alphabet), b.orderedPairs, c05KeyList(c05Probes), b.subsetMax, deepText,
		b.substEntries, c05ValNames(b.substVals), map[bool]string{false: "single-bit flips (all 8 bits at offsets 0-3 and the last offset, bit 0 at every other offset)", true: "every single-bit flip at every offset"}[b.fullSubst])
	r.Assumption("reference node encoder / root (engine/ref/reftrie.go); BLAKE2b-256 from x/crypto")

	res := make([]*c05Ctx, len(states))
	verifmc.ParallelFor(r, len(states), func(i int) {
		res[i] = c05RunState(states[i], b, r.Expired)
	}, func(i int, msg string) {
		r.Violate("Harness:panic", fmt.Sprintf("state %s V%d: %s", c05MapString(states[i].m), states[i].ver, msg), nil)
	})
	// merge in state order (deterministic)
	for i, c := range res {
		if c == nil {
			continue
		}
		r.Add("states", 1)
		if c.capped {
			r.Capped("deadline reached inside a state: remaining proofs of that state skipped")
		}
		for k, n := range c.cnt {
			r.Add(k, n)
		}
		for k, n := range c.out {
			r.Outcomes[k] += n
		}
		if c.cnt["proofs_root_found"] > 0 {
			r.Distinct(fmt.Sprintf("V%d%s", c.st.ver, c.name))
		}
		for _, s := range c.samples {
			if i%97 == 5 {
				r.Sample(s)
			}
		}
		sigs := make([]string, 0, len(c.vioSeen))
		for s := range c.vioSeen {
			sigs = append(sigs, s)
		}
		sort.Strings(sigs)
		for _, v := range c.vios {
			r.Violate(v.sig, v.desc, v.replay)
		}
		for _, s := range sigs {
			r.Add("violating_calls:"+s, c.vioSeen[s])
		}
	}
}
