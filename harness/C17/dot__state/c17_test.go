//go:build verif

package state

// C17: finality is monotone and fully discards abandoned forks.
// Every tree of up to n nodes (node 0 = genesis) is imported into a real BlockState (in-memory
// database; every block has a body and its own state trie registered in Tries); then every sequence
// of up to k finalisation requests with targets in {every tree block, an unknown hash} is executed
// with increasing rounds, against a parent-map reference.

import (
	"bytes"
	"encoding/json"
	"fmt"
	"sort"
	"sync"
	"testing"

	"github.com/ChainSafe/gossamer/dot/types"
	"github.com/ChainSafe/gossamer/internal/database"
	"github.com/ChainSafe/gossamer/internal/verifmc"
	"github.com/ChainSafe/gossamer/lib/common"
	"github.com/ChainSafe/gossamer/lib/crypto/sr25519"
	"github.com/ChainSafe/gossamer/pkg/trie"
	inmemory_trie "github.com/ChainSafe/gossamer/pkg/trie/inmemory"
)

type c17Telemetry struct{}

func (c17Telemetry) SendMessage(json.Marshaler) {}

type c17Env struct {
	bs      *BlockState
	db      database.Database
	headers []*types.Header
	roots   []common.Hash
	parent  []int
	depth   []int
}

func c17Build(parent []int) (*c17Env, error) {
	db, err := database.LoadDatabase("", true)
	if err != nil {
		return nil, err
	}
	n := len(parent)
	e := &c17Env{db: db, headers: make([]*types.Header, n), roots: make([]common.Hash, n), parent: parent, depth: make([]int, n)}
	tries := NewTries()
	mk := func(i int) (common.Hash, *inmemory_trie.InMemoryTrie) {
		tr := inmemory_trie.NewEmptyTrie()
		_ = tr.Put([]byte("block"), []byte{byte(i), 0x17})
		return tr.MustHash(), tr
	}
	r0, t0 := mk(0)
	tries.SetTrie(t0)
	e.roots[0] = r0
	e.headers[0] = types.NewHeader(common.Hash{}, r0, trie.EmptyHash, 0, types.NewDigest())
	bs, err := NewBlockStateFromGenesis(db, tries, e.headers[0], c17Telemetry{})
	if err != nil {
		return nil, err
	}
	e.bs = bs
	for i := 1; i < n; i++ {
		p := parent[i]
		e.depth[i] = e.depth[p] + 1
		ri, ti := mk(i)
		tries.SetTrie(ti)
		e.roots[i] = ri
		dg := types.NewDigest()
		pre, err := types.NewBabePrimaryPreDigest(0, uint64(100+e.depth[i]), [sr25519.VRFOutputLength]byte{byte(i)}, [sr25519.VRFProofLength]byte{}).ToPreRuntimeDigest()
		if err != nil {
			return nil, err
		}
		_ = dg.Add(*pre)
		e.headers[i] = types.NewHeader(e.headers[p].Hash(), ri, trie.EmptyHash, uint(e.depth[i]), dg)
		if err := bs.AddBlock(&types.Block{Header: *e.headers[i], Body: types.Body{types.Extrinsic{byte(i)}}}); err != nil {
			return nil, err
		}
	}
	return e, nil
}

// observable state of the statement
func (e *c17Env) snapshot() string {
	var b bytes.Buffer
	h, err := e.bs.GetHighestFinalisedHash()
	r, s, _ := e.bs.GetHighestRoundAndSetID()
	fmt.Fprintf(&b, "fin=%x(%v) round=%d set=%d tries=%d;", h[:4], err, r, s, e.bs.tries.len())
	for i, hd := range e.headers {
		has, _ := e.bs.HasHeader(hd.Hash())
		unf := e.bs.unfinalisedBlocks.getBlock(hd.Hash()) != nil
		tr := e.bs.tries.get(e.roots[i]) != nil
		var inTree bool
		for _, x := range e.bs.bt.GetAllBlocks() {
			if x == hd.Hash() {
				inTree = true
			}
		}
		fmt.Fprintf(&b, " %d:h%t,u%t,t%t,b%t", i, has, unf, tr, inTree)
	}
	return b.String()
}

func TestVerif_C17(t *testing.T) {
	r := verifmc.NewReport("C17", "finalise-histories", "model_checking")
	defer r.Write()
	maxN := verifmc.Pick(5, 7)
	maxReq := verifmc.Pick(2, 3)
	r.Rule = fmt.Sprintf("every parent vector with up to %d nodes (node 0 = genesis) imported into a real BlockState with bodies and one state trie per block, then every sequence of up to %d finalisation requests (targets: every block of the tree and an unknown hash; rounds increasing) checked against a parent-map reference: success iff the target is a known proper descendant of the finalised head (re-finalising the head itself is not judged); a failed request changes nothing observable; after success every number up to the head resolves from the database to the canonical chain and every abandoned block is gone from the unfinalised map, GetHeader/HasHeader and Tries; after every successful finalisation a new child of every block that is no longer on the chain (abandoned, or an ancestor below the head) and every abandoned block itself is imported again: refused, nothing retained", maxN, maxReq)
	type job struct {
		parent []int
		reqs   []int
	}
	var jobs []job
	for n := 2; n <= maxN; n++ {
		verifmc.ParentVectors(n, func(parent []int) {
			pv := append([]int{}, parent...)
			for k := 1; k <= maxReq; k++ {
				dims := make([]int, k)
				for i := range dims {
					dims[i] = n + 1 // n = unknown hash
				}
				verifmc.Product(dims, func(idx []int) { jobs = append(jobs, job{pv, append([]int{}, idx...)}) })
			}
		})
	}
	var mu sync.Mutex
	var trans int64
	verifmc.ParallelFor(r, len(jobs), func(ji int) {
		jb := jobs[ji]
		n := len(jb.parent)
		e, err := c17Build(jb.parent)
		if err != nil {
			r.Violate("build:error", err.Error(), jb)
			return
		}
		defer e.db.Close()
		isAnc := func(a, b int) bool { // a is ancestor-or-equal of b
			for x := b; x >= 0; x = jb.parent[x] {
				if x == a {
					return true
				}
				if x == 0 {
					break
				}
			}
			return false
		}
		fin := 0
		gone := map[int]bool{} // abandoned (pruned) blocks
		label := func(step int) string {
			return fmt.Sprintf("tree %v requests %v (step %d)", jb.parent, jb.reqs[:step+1], step)
		}
		for step, target := range jb.reqs {
			mu.Lock()
			trans++
			mu.Unlock()
			round := uint64(step + 1)
			before := e.snapshot()
			var hash common.Hash
			if target == n {
				hash = common.Hash{0xde, 0xad}
			} else {
				hash = e.headers[target].Hash()
			}
			err := e.bs.SetFinalisedHash(hash, round, 0)
			replay := map[string]any{"parents": jb.parent, "requests": jb.reqs[:step+1]}
			kind := "descendant"
			switch {
			case target == n:
				kind = "unknown"
			case target == fin:
				kind = "head-itself"
			case gone[target]:
				kind = "abandoned"
			case isAnc(target, fin):
				kind = "stale-ancestor"
			case !isAnc(fin, target):
				kind = "non-descendant"
			}
			r.Outcome(fmt.Sprintf("%s err=%t", kind, err != nil))
			if kind == "head-itself" {
				// the statement speaks of moves; re-finalising the head is not judged, but it must not break lookups
				if err == nil {
					continue
				}
				continue
			}
			if kind != "descendant" {
				if err == nil {
					r.Violate("finalise:"+kind+"-target-accepted", fmt.Sprintf("%s: finalising %s target %d succeeded (finalised head was %d)", label(step), kind, target, fin), replay)
					return
				}
				if after := e.snapshot(); after != before {
					r.Violate("finalise:failed-request-changed-state:"+kind, fmt.Sprintf("%s: failed request changed the state:\n before %s\n after  %s", label(step), before, after), replay)
					return
				}
				continue
			}
			if err != nil {
				r.Violate("finalise:descendant-rejected", fmt.Sprintf("%s: finalising descendant %d of head %d fails: %v", label(step), target, fin, err), replay)
				return
			}
			r.Distinct(fmt.Sprintf("%v|%v", jb.parent, jb.reqs[:step+1]))
			// head moved
			if h, err := e.bs.GetHighestFinalisedHash(); err != nil || h != hash {
				r.Violate("finalise:head-not-moved", fmt.Sprintf("%s: highest finalised is %x err %v", label(step), h[:4], err), replay)
				return
			}
			// every finalised-chain number resolves from persistent storage
			for x := target; ; x = jb.parent[x] {
				num := uint64(e.depth[x])
				raw, err := e.bs.db.Get(headerHashKey(num))
				if err != nil || !bytes.Equal(raw, e.headers[x].Hash().ToBytes()) {
					r.Violate("finalise:number-lookup-not-in-db", fmt.Sprintf("%s: number %d does not resolve from the database to block %d (got %x err %v)", label(step), num, x, raw, err), replay)
					return
				}
				if has, err := e.bs.HasHeaderInDatabase(e.headers[x].Hash()); err != nil || !has {
					r.Violate("finalise:finalised-header-not-in-db", fmt.Sprintf("%s: header of finalised-chain block %d not in the database", label(step), x), replay)
					return
				}
				if _, err := e.bs.GetBlockBody(e.headers[x].Hash()); err != nil {
					r.Violate("finalise:finalised-body-not-readable", fmt.Sprintf("%s: body of finalised-chain block %d: %v", label(step), x, err), replay)
					return
				}
				if x == 0 {
					break
				}
			}
			// abandoned forks are fully discarded
			var leftovers []string
			for x := 1; x < n; x++ {
				if gone[x] || isAnc(x, target) || isAnc(target, x) {
					continue
				}
				gone[x] = true
				hx := e.headers[x].Hash()
				if e.bs.unfinalisedBlocks.getBlock(hx) != nil {
					leftovers = append(leftovers, fmt.Sprintf("block %d still in the unfinalised map", x))
				}
				if has, _ := e.bs.HasHeader(hx); has {
					leftovers = append(leftovers, fmt.Sprintf("block %d: HasHeader still true", x))
				}
				if _, err := e.bs.GetHeader(hx); err == nil {
					leftovers = append(leftovers, fmt.Sprintf("block %d: GetHeader still succeeds", x))
				}
				if e.bs.tries.get(e.roots[x]) != nil {
					leftovers = append(leftovers, fmt.Sprintf("block %d: state trie still in memory", x))
				}
			}
			if len(leftovers) > 0 {
				sort.Strings(leftovers)
				r.Violate("finalise:abandoned-fork-not-discarded", fmt.Sprintf("%s: after finalising %d: %v", label(step), target, leftovers), replay)
				return
			}
			fin = target
			// blocks that arrive AFTER the finalisation on what is no longer part of the chain: a child of
			// every abandoned block / of every ancestor strictly below the head, and every abandoned block
			// again.  They must be refused and leave nothing behind.
			beforeLate := e.snapshot()
			for x := 0; x < n; x++ {
				if isAnc(fin, x) {
					continue // head or its descendant: additions there are the block tree's business (C15, C16)
				}
				var late []*types.Header
				dg := types.NewDigest()
				pre, perr := types.NewBabePrimaryPreDigest(0, uint64(200+e.depth[x]), [sr25519.VRFOutputLength]byte{byte(x), 0x1a}, [sr25519.VRFProofLength]byte{}).ToPreRuntimeDigest()
				if perr != nil {
					panic(perr)
				}
				_ = dg.Add(*pre)
				late = append(late, types.NewHeader(e.headers[x].Hash(), common.Hash{0x1a, byte(x)}, trie.EmptyHash, uint(e.depth[x]+1), dg))
				if gone[x] {
					late = append(late, e.headers[x])
				}
				for li, lh := range late {
					mu.Lock()
					trans++
					mu.Unlock()
					what := fmt.Sprintf("a new child of block %d", x)
					if li == 1 {
						what = fmt.Sprintf("abandoned block %d again", x)
					}
					err := e.bs.AddBlock(&types.Block{Header: *lh, Body: types.Body{types.Extrinsic{0x1a}}})
					r.Outcome(fmt.Sprintf("late-import gone=%t err=%t", gone[x], err != nil))
					var left []string
					if err == nil {
						left = append(left, "AddBlock succeeds")
					}
					if e.bs.unfinalisedBlocks.getBlock(lh.Hash()) != nil {
						left = append(left, "kept in the unfinalised map")
					}
					if has, _ := e.bs.HasHeader(lh.Hash()); has {
						left = append(left, "HasHeader true")
					}
					if _, gerr := e.bs.GetHeader(lh.Hash()); gerr == nil {
						left = append(left, "GetHeader succeeds")
					}
					if after := e.snapshot(); after != beforeLate {
						left = append(left, "observable state changed")
					}
					if len(left) > 0 {
						r.Violate("late-import-on-abandoned-chain:not-discarded", fmt.Sprintf("%s: after finalising %d, importing %s: %v", label(step), target, what, left), replay)
						return
					}
				}
			}
		}
		if ji%4001 == 7 {
			r.Sample(map[string]any{"parents": jb.parent, "requests": jb.reqs})
		}
	}, func(i int, msg string) {
		r.Violate("panic@"+verifmc.PanicSite(msg), msg, map[string]any{"parents": jobs[i].parent, "requests": jobs[i].reqs})
	})
	r.Add("states", int64(len(jobs)))
	r.Add("transitions", trans)
	r.Add("traces_validated_against_impl", int64(len(jobs)))
	r.Add("evaluations", trans)
}
