//go:build verif

package scale

// C13: for every 128-bit unsigned value, its decimal string, JSON form, big-integer conversion
// and little-/big-endian byte forms denote the same number; JSON-decoding its JSON form gives
// back the original value.  Oracle: math/big.

import (
	"encoding/binary"
	"encoding/json"
	"fmt"
	"math/big"
	"sort"
	"testing"

	"github.com/ChainSafe/gossamer/internal/verifmc"
)

func c13Values() []*big.Int {
	seen := map[string]bool{}
	var out []*big.Int
	add := func(n *big.Int) {
		if n.Sign() < 0 || n.BitLen() > 128 {
			return
		}
		if k := n.String(); !seen[k] {
			seen[k] = true
			out = append(out, new(big.Int).Set(n))
		}
	}
	one := big.NewInt(1)
	add(big.NewInt(0))
	add(new(big.Int).Sub(new(big.Int).Lsh(one, 128), one))
	// all values with <= 2 non-zero bytes drawn from {01,7f,80,ff} at any of the 16 positions
	bv := []byte{0x01, 0x7f, 0x80, 0xff}
	for p := 0; p < 16; p++ {
		for _, a := range bv {
			b := make([]byte, 16)
			b[p] = a
			add(new(big.Int).SetBytes(b))
			for q := p + 1; q < 16; q++ {
				for _, c := range bv {
					b2 := append([]byte{}, b...)
					b2[q] = c
					add(new(big.Int).SetBytes(b2))
				}
			}
		}
	}
	// all 2^k, 2^k-1, 2^k+1
	for k := 0; k <= 128; k++ {
		p := new(big.Int).Lsh(one, uint(k))
		add(p)
		add(new(big.Int).Sub(p, one))
		add(new(big.Int).Add(p, one))
	}
	// byte-order witnesses: 16 distinct bytes, ascending and descending
	asc := make([]byte, 16)
	for i := range asc {
		asc[i] = byte(i + 1)
	}
	add(new(big.Int).SetBytes(asc))
	for n := 1; n <= 16; n++ {
		add(new(big.Int).SetBytes(asc[:n]))
	}
	sort.Slice(out, func(i, j int) bool { return out[i].Cmp(out[j]) < 0 })
	return out
}

func c13LE(b []byte) *big.Int {
	be := make([]byte, len(b))
	for i := range b {
		be[len(b)-1-i] = b[i]
	}
	return new(big.Int).SetBytes(be)
}

// c13ByteSwapped is the number obtained by reading the minimal little-endian bytes of n as big endian.
func c13ByteSwapped(n *big.Int) *big.Int {
	return c13LE(n.Bytes())
}

func TestVerif_C13(t *testing.T) {
	r := verifmc.NewReport("C13", "uint128-views", "exploration")
	defer r.Write()
	r.Rule = "every 128-bit value with <=2 non-zero bytes from {01,7f,80,ff} at any of the 16 byte positions, every 2^k and 2^k±1 (k=0..128), 0, max, 01..10 prefixes; the Uint128 is built directly from its (Upper,Lower) halves; String, json.Marshal (value and pointer), NewUint128(*big.Int), Bytes(LE), Bytes(BE), NewUint128(bytes, LE/BE) and UnmarshalJSON are compared with math/big; a value is non-trivial when its minimal byte string is not a palindrome (byte order observable)"
	mask := new(big.Int).Sub(new(big.Int).Lsh(big.NewInt(1), 64), big.NewInt(1))
	vals := c13Values()
	for _, n := range vals {
		u := &Uint128{Upper: new(big.Int).Rsh(n, 64).Uint64(), Lower: new(big.Int).And(n, mask).Uint64()}
		dec := n.String()
		rep := map[string]any{"value": dec, "hex": fmt.Sprintf("%x", n)}
		r.Add("evaluations", 1)
		be := n.Bytes()
		pal := true
		for i := range be {
			if be[i] != be[len(be)-1-i] {
				pal = false
			}
		}
		if !pal {
			r.Distinct(dec)
		}
		r.Outcome(fmt.Sprintf("bytes=%d palindrome=%v", len(be), pal))
		if len(r.Samples) < 3 && !pal {
			r.Sample(rep)
		}
		swapped := c13ByteSwapped(n).String()

		// decimal string
		if p, msg := verifmc.Guard(func() {
			if got := u.String(); got != dec {
				sig := "String:wrong-result"
				if got == swapped {
					sig = "String:little-endian-bytes-read-as-big-endian"
				}
				r.Violate(sig, fmt.Sprintf("Uint128{Upper:%#x,Lower:%#x}.String() = %s, the value is %s", u.Upper, u.Lower, got, dec), rep)
			}
		}); p {
			r.Violate("String:panic", msg, rep)
		}
		// JSON form (value and pointer receivers are both used by callers)
		jsonOK := true
		for _, form := range []struct {
			name string
			v    any
		}{{"value", *u}, {"pointer", u}} {
			got, err := json.Marshal(form.v)
			if err != nil {
				jsonOK = false
				r.Violate("MarshalJSON:error", fmt.Sprintf("json.Marshal(%s %s): %v", form.name, dec, err), rep)
				continue
			}
			if string(got) != dec {
				jsonOK = false
				sig := "MarshalJSON:wrong-result"
				if string(got) == swapped {
					sig = "MarshalJSON:little-endian-bytes-read-as-big-endian"
				}
				r.Violate(sig, fmt.Sprintf("json.Marshal(Uint128 %s) = %s", dec, got), rep)
			}
		}
		// JSON round trip through the package's own JSON form
		if j, err := json.Marshal(u); err == nil {
			var back Uint128
			if err := json.Unmarshal(j, &back); err != nil {
				r.Violate("JSONRoundTrip:unmarshal-error", fmt.Sprintf("json.Unmarshal(%s): %v", j, err), rep)
			} else if back != *u {
				sig := "JSONRoundTrip:value-changed"
				if !jsonOK {
					sig = "JSONRoundTrip:value-changed-by-wrong-json-form"
				}
				r.Violate(sig, fmt.Sprintf("json.Unmarshal(json.Marshal(%s)=%s) = {Upper:%#x Lower:%#x}", dec, j, back.Upper, back.Lower), rep)
			}
		}
		// JSON-decoding the (correct) decimal form
		{
			var back Uint128
			if err := json.Unmarshal([]byte(dec), &back); err != nil {
				r.Violate("UnmarshalJSON:error", fmt.Sprintf("json.Unmarshal(%s): %v", dec, err), rep)
			} else if back != *u {
				r.Violate("UnmarshalJSON:wrong-result", fmt.Sprintf("json.Unmarshal(%s) = {Upper:%#x Lower:%#x}", dec, back.Upper, back.Lower), rep)
			}
		}
		// big-integer conversion
		if p, msg := verifmc.Guard(func() {
			got, err := NewUint128(new(big.Int).Set(n))
			if err != nil {
				r.Violate("NewUint128(big):error", err.Error(), rep)
			} else if *got != *u {
				r.Violate("NewUint128(big):wrong-result", fmt.Sprintf("NewUint128(big %s) = {Upper:%#x Lower:%#x}", dec, got.Upper, got.Lower), rep)
			}
		}); p {
			r.Violate("NewUint128(big):panic", msg, rep)
		}
		// byte forms denote the number
		le := u.Bytes()
		if got := c13LE(le); got.Cmp(n) != 0 || len(le) > 16 {
			r.Violate("Bytes(LE):wrong-number", fmt.Sprintf("Uint128(%s).Bytes() = %x denotes %s", dec, le, got), rep)
		}
		if le2 := u.Bytes(binary.LittleEndian); fmt.Sprintf("%x", le2) != fmt.Sprintf("%x", le) {
			r.Violate("Bytes(LE):default-order-differs", fmt.Sprintf("Bytes()=%x Bytes(LittleEndian)=%x", le, le2), rep)
		}
		beGot := u.Bytes(binary.BigEndian)
		if got := new(big.Int).SetBytes(beGot); got.Cmp(n) != 0 || len(beGot) > 16 {
			sig := "Bytes(BE):wrong-number"
			r.Violate(sig, fmt.Sprintf("Uint128(%s).Bytes(BigEndian) = %x denotes %s", dec, beGot, got), rep)
		}
		// the package's own readers of the two byte forms (minimal and 16-byte padded)
		leMin := make([]byte, len(be))
		for i := range be {
			leMin[len(be)-1-i] = be[i]
		}
		le16 := append(append([]byte{}, leMin...), make([]byte, 16-len(leMin))...)
		be16 := append(make([]byte, 16-len(be)), be...)
		type rd struct {
			name  string
			in    []byte
			order []binary.ByteOrder
		}
		for _, c := range []rd{
			{"NewUint128(bytes,default)", leMin, nil},
			{"NewUint128(bytes,default)", le16, nil},
			{"NewUint128(bytes,LittleEndian)", leMin, []binary.ByteOrder{binary.LittleEndian}},
			{"NewUint128(bytes,LittleEndian)", le16, []binary.ByteOrder{binary.LittleEndian}},
			{"NewUint128(bytes,BigEndian)", append([]byte{}, be...), []binary.ByteOrder{binary.BigEndian}},
			{"NewUint128(bytes,BigEndian)", be16, []binary.ByteOrder{binary.BigEndian}},
		} {
			c := c
			r.Add("reader_evaluations", 1)
			if p, msg := verifmc.Guard(func() {
				got, err := NewUint128(append([]byte{}, c.in...), c.order...)
				if err != nil {
					r.Violate(c.name+":error", err.Error(), rep)
					return
				}
				if *got != *u {
					sig := c.name + ":wrong-result"
					if got.Upper == u.Lower && got.Lower == u.Upper {
						sig = c.name + ":halves-swapped"
					}
					r.Violate(sig, fmt.Sprintf("%s of %x (the number %s) = {Upper:%#x Lower:%#x}, want {Upper:%#x Lower:%#x}", c.name, c.in, dec, got.Upper, got.Lower, u.Upper, u.Lower), rep)
				}
			}); p {
				r.Violate(c.name+":panic", msg, rep)
			}
		}
	}
	r.Extra["values"] = len(vals)
}
