//go:build verif

package grandpa

// C22: GRANDPA finality is safe under a Byzantine minority.
// Protocol explorer (engine E5 = explicit-state BFS of engine E1): a state is three real
// grandpa.Service instances (honest voters 0,1,2 of 4; voter 3 is Byzantine) over fakes sharing
// one forked block tree, plus the soup of messages sent so far and who received what.  Every
// transition IS a call into the real implementation (determinePreVote, the enabling condition of
// defineRoundVotes + determinePreCommit, attemptToFinalize + newCommitMessage, initiateRound,
// validateVoteMessage, handleCommitMessage).  Invariant in every reachable state: the blocks
// finalised by the honest voters lie on one chain.
//
// Reduction (sound for the invariant): a delivery only matters at the receiver's next own step, and
// honest votes of different senders land in different map slots, so "voter i receives the subset S of
// the votes in flight, then takes step X" is one transition for every S and X; Byzantine votes
// and all commits are delivered one at a time (their order can matter).

import (
	"fmt"
	"sort"
	"strings"
	"sync"
	"testing"
	"time"

	"github.com/ChainSafe/gossamer/internal/log"
	"github.com/ChainSafe/gossamer/internal/verifmc"
	"github.com/ChainSafe/gossamer/lib/blocktree"
	"github.com/ChainSafe/gossamer/lib/common"
	"github.com/ChainSafe/gossamer/lib/crypto/ed25519"
	"github.com/libp2p/go-libp2p/core/peer"
)

// tree: 0 root -> 1 (A) -> 2 (A1) ; 0 -> 3 (B) -> 4 (B1)
var c22Parent = []int{-1, 0, 1, 0, 3}

const (
	c22N      = 4 // voters: 0,1,2 honest, 3 Byzantine
	c22Honest = 3
	c22Byz    = 3
)

var (
	c22TreeOnce sync.Once
	c22TreeV    *c21Tree
)

func c22Tree() *c21Tree {
	c22TreeOnce.Do(func() { c22TreeV = c21NewTree(c22Parent) })
	return c22TreeV
}

// c22NewNode: like c21NewNode, but the voter's best chain is the fork it prefers (pref = leaf index
// whose blocks arrive first; equal heights are decided by arrival time).
func c22NewNode(tree *c21Tree, self int, prefLeaf int) *c21Node {
	bt := blocktree.NewBlockTreeFromRoot(tree.hdr[0])
	for i := 1; i < len(tree.parent); i++ {
		at := c21ArrivalBase.Add(time.Duration(10+i) * time.Second)
		if tree.isAnc(i, prefLeaf) {
			at = c21ArrivalBase.Add(time.Duration(i) * time.Second)
		}
		if err := bt.AddBlock(tree.hdr[i], at); err != nil {
			panic(err)
		}
	}
	bs := &c21BlockState{tree: tree, bt: bt, head: 0,
		finalised: map[[2]uint64]common.Hash{{0, 0}: tree.hash[0]}, justif: map[common.Hash][]byte{}}
	gs := c21NewGrandpaState(c21Voters(c22N))
	net := &c21Network{}
	svc, err := NewService(&Config{LogLvl: log.Critical, BlockState: bs, GrandpaState: gs, Network: net,
		Voters: c21Voters(c22N), Keypair: c21Keypair(self), Authority: true, Interval: time.Hour, Telemetry: c21Telemetry{}})
	if err != nil {
		panic(err)
	}
	return &c21Node{svc: svc, bs: bs, gs: gs, net: net, tree: tree, self: self}
}

type c22Msg struct {
	from   int
	round  uint64
	stage  Subround // prevote / precommit (votes only)
	vm     *VoteMessage
	cm     *CommitMessage
	block  int // voted / committed block index
	isByz  bool
	commit bool
}

func (m c22Msg) String() string {
	if m.commit {
		return fmt.Sprintf("commit(v%d,r%d,b%d)", m.from, m.round, m.block)
	}
	st := "pv"
	if m.stage == precommit {
		st = "pc"
	}
	return fmt.Sprintf("%s(v%d,r%d,b%d)", st, m.from, m.round, m.block)
}

type c22State struct {
	nodes     [c22Honest]*c21Node
	soup      []c22Msg
	delivered [c22Honest]map[int]bool
	byzVotes  int
	byzCommit int
	notes     []string // non-fatal observations of this transition (errors of enabled steps)
}

type c22Op struct {
	kind  string // step / byz / commit / byzcommit
	i     int    // receiving / acting honest voter
	act   string // pv pc fin next (step)
	set   []int  // soup indices delivered first (step), or [index] (commit)
	stage Subround
	block int
	extra int // byzcommit: number of Byzantine precommits added
}

func (o c22Op) Name() string {
	switch o.kind {
	case "step":
		return fmt.Sprintf("v%d:recv%v;%s", o.i, o.set, o.act)
	case "byz":
		st := "pv"
		if o.stage == precommit {
			st = "pc"
		}
		return fmt.Sprintf("byz->v%d:%s(b%d)", o.i, st, o.block)
	case "commit":
		return fmt.Sprintf("v%d:recv-commit[%d]", o.i, o.set[0])
	}
	return fmt.Sprintf("byz->v%d:commit(b%d,+%d)", o.i, o.block, o.extra)
}

type c22Cfg struct {
	pref      [c22Honest]int // preferred leaf per honest voter
	maxRound  uint64
	maxByz    int
	maxByzCom int
}

func (c c22Cfg) String() string {
	return fmt.Sprintf("pref=%v rounds<=%d byzVotes<=%d byzCommits<=%d", c.pref, c.maxRound, c.maxByz, c.maxByzCom)
}

func c22OwnVote(nd *c21Node, stage Subround) (*SignedVote, bool) {
	return nd.svc.loadVote(nd.svc.publicKeyBytes(), stage)
}

func c22Fresh(cfg c22Cfg) *c22State {
	s := &c22State{}
	for i := 0; i < c22Honest; i++ {
		s.nodes[i] = c22NewNode(c22Tree(), i, cfg.pref[i])
		if err := s.nodes[i].svc.initiateRound(); err != nil {
			panic(err)
		}
		s.delivered[i] = map[int]bool{}
	}
	return s
}

func c22Subsets(xs []int) [][]int {
	out := [][]int{{}}
	for _, x := range xs {
		n := len(out)
		for k := 0; k < n; k++ {
			out = append(out, append(append([]int{}, out[k]...), x))
		}
	}
	return out
}

func c22Ops(cfg c22Cfg, s *c22State) []verifmc.Op {
	var ops []verifmc.Op
	tree := c22Tree()
	for i := 0; i < c22Honest; i++ {
		nd := s.nodes[i]
		round := nd.svc.state.round
		var inflight []int
		var commits []int
		for k, m := range s.soup {
			if m.from == i || s.delivered[i][k] {
				continue
			}
			if m.commit {
				commits = append(commits, k)
			} else {
				inflight = append(inflight, k)
			}
		}
		_, pvDone := c22OwnVote(nd, prevote)
		_, pcDone := c22OwnVote(nd, precommit)
		fin, _ := nd.bs.HasFinalisedBlock(round, 0)
		var acts []string
		switch {
		case fin:
			if round < cfg.maxRound {
				acts = append(acts, "next")
			}
		case !pvDone:
			acts = append(acts, "pv")
		case !pcDone:
			acts = append(acts, "pc")
		default:
			acts = append(acts, "fin")
		}
		if !fin && pvDone && !pcDone {
			// a voter may also finalise on the precommits of the others before it precommits itself
			acts = append(acts, "fin")
		}
		for _, set := range c22Subsets(inflight) {
			for _, a := range acts {
				ops = append(ops, c22Op{kind: "step", i: i, act: a, set: set})
			}
			if len(acts) == 0 && len(set) > 0 {
				ops = append(ops, c22Op{kind: "step", i: i, act: "none", set: set})
			}
		}
		for _, k := range commits {
			ops = append(ops, c22Op{kind: "commit", i: i, set: []int{k}})
		}
		if s.byzVotes < cfg.maxByz && !fin {
			for _, st := range []Subround{prevote, precommit} {
				for _, b := range []int{2, 4} { // the two leaves (a vote for a leaf also counts for its ancestors)
					ops = append(ops, c22Op{kind: "byz", i: i, stage: st, block: b})
				}
			}
		}
		if s.byzCommit < cfg.maxByzCom && !fin {
			for b := 1; b < len(tree.parent); b++ {
				ops = append(ops, c22Op{kind: "byzcommit", i: i, block: b, extra: 2})
			}
		}
	}
	return ops
}

// c22ByzCommit: a commit for block b in the recipient's round built from every honest precommit sent
// so far in that round for b or a descendant, plus `extra` Byzantine precommits (for b; the second one
// for a descendant or, if none, the same block again: a duplicate entry).
func c22ByzCommit(s *c22State, round uint64, b int, extra int) *CommitMessage {
	tree := c22Tree()
	cm := &CommitMessage{Round: round, SetID: 0, Vote: tree.vote(b)}
	for _, m := range s.soup {
		if m.commit || m.isByz || m.stage != precommit || m.round != round || !tree.isAnc(b, m.block) {
			continue
		}
		cm.Precommits = append(cm.Precommits, tree.vote(m.block))
		cm.AuthData = append(cm.AuthData, AuthData{Signature: m.vm.Message.Signature, AuthorityID: m.vm.Message.AuthorityID})
	}
	blocks := []int{b}
	if extra == 2 {
		second := b
		for d := range tree.parent {
			if d != b && tree.isAnc(b, d) {
				second = d
				break
			}
		}
		blocks = append(blocks, second)
	}
	for _, bb := range blocks {
		cm.Precommits = append(cm.Precommits, tree.vote(bb))
		cm.AuthData = append(cm.AuthData, AuthData{Signature: c21Sign(c22Byz, precommit, tree.vote(bb), round, 0), AuthorityID: c21PubBytes(c22Byz)})
	}
	return cm
}

func c22Apply(cfg c22Cfg, s *c22State, o c22Op) string {
	tree := c22Tree()
	nd := s.nodes[o.i]
	svc := nd.svc
	s.notes = nil
	switch o.kind {
	case "byz":
		s.byzVotes++
		vm := c21VoteMsg(c22Byz, o.stage, tree.vote(o.block), svc.state.round, 0)
		_, _ = svc.validateVoteMessage(peer.ID("byz"), vm)
		// the vote exists now: the Byzantine voter may later show it to the others as well
		s.soup = append(s.soup, c22Msg{from: c22Byz, round: svc.state.round, stage: o.stage, vm: vm, block: o.block, isByz: true})
		s.delivered[o.i][len(s.soup)-1] = true
		return ""
	case "commit":
		k := o.set[0]
		s.delivered[o.i][k] = true
		_ = svc.handleCommitMessage(s.soup[k].cm)
		return ""
	case "byzcommit":
		s.byzCommit++
		_ = svc.handleCommitMessage(c22ByzCommit(s, svc.state.round, o.block, o.extra))
		return ""
	}
	for _, k := range o.set {
		s.delivered[o.i][k] = true
		_, _ = svc.validateVoteMessage(peer.ID(fmt.Sprintf("v%d", s.soup[k].from)), s.soup[k].vm)
	}
	round := svc.state.round
	switch o.act {
	case "pv":
		v, err := svc.determinePreVote()
		if err != nil {
			s.notes = append(s.notes, "determinePreVote: "+err.Error())
			return ""
		}
		sv, vm, err := svc.createSignedVoteAndVoteMessage(v, prevote)
		if err != nil {
			return "createSignedVoteAndVoteMessage: " + err.Error()
		}
		svc.prevotes.Store(svc.publicKeyBytes(), sv)
		s.soup = append(s.soup, c22Msg{from: o.i, round: round, stage: prevote, vm: vm, block: tree.idx[v.Hash]})
	case "pc":
		// the enabling condition of finalisationEngine.defineRoundVotes
		ghost, err := svc.getPreVotedBlock()
		if err != nil {
			return ""
		}
		total, err := svc.getTotalVotesForBlock(ghost.Hash, prevote)
		if err != nil || total <= svc.state.threshold() {
			return ""
		}
		v, err := svc.determinePreCommit()
		if err != nil {
			s.notes = append(s.notes, "determinePreCommit: "+err.Error())
			return ""
		}
		sv, vm, err := svc.createSignedVoteAndVoteMessage(v, precommit)
		if err != nil {
			return "createSignedVoteAndVoteMessage: " + err.Error()
		}
		svc.precommits.Store(svc.publicKeyBytes(), sv)
		s.soup = append(s.soup, c22Msg{from: o.i, round: round, stage: precommit, vm: vm, block: tree.idx[v.Hash]})
	case "fin":
		ok, err := svc.attemptToFinalize()
		if err != nil || !ok {
			return ""
		}
		cm, err := svc.newCommitMessage(svc.head, round, 0)
		if err != nil {
			s.notes = append(s.notes, "newCommitMessage: "+err.Error())
			return ""
		}
		s.soup = append(s.soup, c22Msg{from: o.i, round: round, cm: cm, commit: true, block: tree.idx[svc.head.Hash()]})
	case "next":
		if err := svc.initiateRound(); err != nil {
			return "initiateRound: " + err.Error()
		}
	}
	return ""
}

// c22Check: the safety invariant.
func c22Check(s *c22State) string {
	tree := c22Tree()
	type fz struct{ node, block int }
	var all []fz
	for i, nd := range s.nodes {
		for _, c := range nd.bs.c21FinalCalls() {
			b, ok := tree.idx[c.Hash]
			if !ok {
				return fmt.Sprintf("voter %d finalised an unknown block %s", i, c.Hash.Short())
			}
			all = append(all, fz{i, b})
		}
	}
	for x := 0; x < len(all); x++ {
		for y := x + 1; y < len(all); y++ {
			a, b := all[x], all[y]
			if !tree.isAnc(a.block, b.block) && !tree.isAnc(b.block, a.block) {
				return fmt.Sprintf("SAFETY: honest voter %d finalised block %d and honest voter %d finalised block %d, which are on different forks", a.node, a.block, b.node, b.block)
			}
		}
	}
	return ""
}

func c22Canon(s *c22State) []byte {
	tree := c22Tree()
	var b strings.Builder
	name := func(v *Vote) string {
		if i, ok := tree.idx[v.Hash]; ok {
			return fmt.Sprintf("b%d#%d", i, v.Number)
		}
		return "?" + v.Hash.Short()
	}
	for i, nd := range s.nodes {
		svc := nd.svc
		fmt.Fprintf(&b, "N%d r%d s%d head=b%d ", i, svc.state.round, svc.state.setID, tree.idx[svc.head.Hash()])
		dump := func(tag string, m *sync.Map) {
			var l []string
			m.Range(func(k, v any) bool {
				kb := k.(ed25519.PublicKeyBytes)
				sv := v.(*SignedVote)
				l = append(l, fmt.Sprintf("%x=%s", kb[:2], name(&sv.Vote)))
				return true
			})
			sort.Strings(l)
			fmt.Fprintf(&b, "%s%v ", tag, l)
		}
		dump("pv", svc.prevotes)
		dump("pc", svc.precommits)
		eq := func(tag string, m map[ed25519.PublicKeyBytes][]*SignedVote) {
			var l []string
			for k, vs := range m {
				e := fmt.Sprintf("%x:", k[:2])
				var vv []string
				for _, v := range vs {
					vv = append(vv, name(&v.Vote))
				}
				sort.Strings(vv)
				l = append(l, e+strings.Join(vv, ","))
			}
			sort.Strings(l)
			fmt.Fprintf(&b, "%s%v ", tag, l)
		}
		eq("pvEq", svc.pvEquivocations)
		eq("pcEq", svc.pcEquivocations)
		for _, c := range nd.bs.c21FinalCalls() {
			fmt.Fprintf(&b, "F(b%d,r%d) ", tree.idx[c.Hash], c.Round)
		}
		var dl []int
		for k := range s.delivered[i] {
			dl = append(dl, k)
		}
		sort.Ints(dl)
		fmt.Fprintf(&b, "dl%v\n", dl)
	}
	for _, m := range s.soup {
		b.WriteString(m.String())
		b.WriteString(" ")
	}
	fmt.Fprintf(&b, "byz=%d/%d", s.byzVotes, s.byzCommit)
	return []byte(b.String())
}

func c22Explore(r *verifmc.Report, cfg c22Cfg, depth int) {
	h := &verifmc.Hist[*c22State]{
		Fresh: func() *c22State { return c22Fresh(cfg) },
		Ops:   func(s *c22State) []verifmc.Op { return c22Ops(cfg, s) },
		Apply: func(s *c22State, op verifmc.Op) string { return c22Apply(cfg, s, op.(c22Op)) },
		Check: func(s *c22State) string {
			if d := c22Check(s); d != "" {
				return cfg.String() + ": " + d
			}
			nf := 0
			for _, nd := range s.nodes {
				nf += len(nd.bs.c21FinalCalls())
			}
			r.Outcome(fmt.Sprintf("finalisations=%d msgs=%d", nf, len(s.soup)))
			return ""
		},
		Canon: c22Canon,
		Sig: func(hist []verifmc.Op, desc string) string {
			switch {
			case strings.Contains(desc, "SAFETY:"):
				last := hist[len(hist)-1].(c22Op)
				return "safety:two-forks-finalised:last-step=" + last.kind + ":" + last.act
			case strings.HasPrefix(desc, "panic:"):
				return "panic@" + verifmc.PanicSite(desc)
			}
			return "protocol-step-error"
		},
		Depth:       depth,
		ElemTimeout: 120 * time.Second,
	}
	h.Explore(r)
}

func TestVerif_C22(t *testing.T) {
	r := verifmc.NewReport("C22", "protocol-explorer", "model_checking")
	defer r.Write()
	depth := verifmc.Pick(4, 7)
	rounds := uint64(verifmc.Pick(1, 2))
	maxByz := verifmc.Pick(1, 2)
	r.Rule = fmt.Sprintf("explicit-state BFS (depth %d) over the protocol states of 3 real honest grandpa.Service voters + 1 Byzantine voter (weight 1 of 4) on the forked tree root->A->A1, root->B->B1, for every assignment of preferred fork to the honest voters (up to renaming), rounds <= %d; transitions: voter i receives any subset of the honest votes in flight and then prevotes / precommits (under the real enabling condition) / tries to finalise and broadcasts a commit / opens the next round; delivery of any honest commit to any voter; the Byzantine voter shows a correctly signed vote of its own for either leaf and either stage to one voter (<= %d per history; the vote is then in flight for the others too) or sends one voter a commit built from the honest precommits sent so far plus 2 of its own (<= 1 per history; all block/extra/duplicate variants are covered by the layered part); invariant in every state: all blocks finalised by honest voters are on one chain", depth, rounds, maxByz)
	r.Assumption("message loss = never delivered; delay/reordering = any subset/any order of deliveries between a voter's own steps; catch-up messages and authority-set changes are outside this harness; honest voters all know the whole tree")
	a1, b1 := 2, 4
	// assignments of preferred fork up to renaming of honest voters (they are symmetric): AAA, AAB, ABB, BBB
	for _, pref := range [][c22Honest]int{{a1, a1, a1}, {a1, a1, b1}, {a1, b1, b1}, {b1, b1, b1}} {
		cfg := c22Cfg{pref: pref, maxRound: rounds, maxByz: maxByz, maxByzCom: 1}
		c22Explore(r, cfg, depth)
		if r.Expired() {
			break
		}
	}
	r.Extra["tree"] = "0->1->2, 0->3->4"
}
