//go:build verif

package grandpa

// C22, part "layered": complete enumeration of ONE voting round.
//
// In one round the honest steps are layered: a prevote depends only on the voter's best chain and on
// whether it has seen the primary's vote; a precommit depends only on the voter's view of the prevotes;
// a finalisation depends only on the voter's view of prevotes and precommits.  Every interleaving of
// deliveries and steps is therefore equivalent, for what each voter decides, to choosing for every
// voter and every decision the set of messages it has received by then (any subset of the messages
// that can exist = arbitrary delay, reordering and loss; Byzantine votes can be shown to any voter
// independently).  This part enumerates ALL such choices and evaluates every decision with the real
// Service code on a real instance; it then checks, for every jointly possible combination, that no two
// honest voters can finalise blocks on different forks (own finalisation, or a Byzantine-built commit).

import (
	"fmt"
	"sort"
	"strings"
	"sync"
	"testing"

	"github.com/ChainSafe/gossamer/internal/verifmc"
	"github.com/libp2p/go-libp2p/core/peer"
)

const c22Primary = 1 // derivePrimary(): voters[round % n] with round 1

type c22View struct {
	honest uint8 // bit j: has the vote of honest voter j (never the own bit)
	byz    uint8 // bit b: has the Byzantine vote for block b (b = 1..4)
}

func (v c22View) sub(w c22View) bool { return v.honest&^w.honest == 0 && v.byz&^w.byz == 0 }
func (v c22View) String() string     { return fmt.Sprintf("{honest:%03b byz-blocks:%05b}", v.honest, v.byz) }

func c22PopCount(x uint8) int {
	n := 0
	for ; x != 0; x &= x - 1 {
		n++
	}
	return n
}

// all views of voter i: subsets of the other honest voters x Byzantine vote sets of size <= maxByz
func c22Views(i int, maxByz int) []c22View {
	var out []c22View
	for h := uint8(0); h < 8; h++ {
		if h&(1<<i) != 0 {
			continue
		}
		for z := uint8(0); z < 32; z += 2 { // bits 1..4
			if c22PopCount(z) <= maxByz {
				out = append(out, c22View{h, z})
			}
		}
	}
	return out
}

type c22Pool struct {
	mu    sync.Mutex
	nodes map[[2]int][]*c21Node
}

func (p *c22Pool) get(i, pref int) *c21Node {
	p.mu.Lock()
	l := p.nodes[[2]int{i, pref}]
	if n := len(l); n > 0 {
		nd := l[n-1]
		p.nodes[[2]int{i, pref}] = l[:n-1]
		p.mu.Unlock()
		nd.c21Recycle(0)
		return nd
	}
	p.mu.Unlock()
	return c22NewNode(c22Tree(), i, pref)
}
func (p *c22Pool) put(i, pref int, nd *c21Node) {
	p.mu.Lock()
	p.nodes[[2]int{i, pref}] = append(p.nodes[[2]int{i, pref}], nd)
	p.mu.Unlock()
}

// c22Round1 opens round 1 on a fresh node, stores the voter's own prevote and delivers a prevote view.
func c22Round1(nd *c21Node, i int, pv [c22Honest]int, view c22View) {
	tree := c22Tree()
	if err := nd.svc.initiateRound(); err != nil {
		panic(err)
	}
	if pv[i] > 0 {
		nd.c21StoreOwnVote(tree.vote(pv[i]), prevote)
	}
	for j := 0; j < c22Honest; j++ {
		if view.honest&(1<<j) != 0 && pv[j] > 0 {
			_, _ = nd.svc.validateVoteMessage(peer.ID("h"), c21VoteMsg(j, prevote, tree.vote(pv[j]), 1, 0))
		}
	}
	for b := 1; b <= 4; b++ {
		if view.byz&(1<<b) != 0 {
			_, _ = nd.svc.validateVoteMessage(peer.ID("byz"), c21VoteMsg(c22Byz, prevote, tree.vote(b), 1, 0))
		}
	}
}

func TestVerif_C22_layered(t *testing.T) {
	r := verifmc.NewReport("C22", "layered-one-round", "model_checking")
	defer r.Write()
	maxByz := verifmc.Pick(2, 4)
	r.Rule = fmt.Sprintf("one complete voting round of 3 real honest voters + 1 Byzantine voter on the tree root->A->A1, root->B->B1, for all 8 assignments of preferred forks: every choice of (has the voter seen the primary's vote before prevoting) x (prevote view at precommit time: any subset of the other honest prevotes and any set of <= %d Byzantine prevotes) x (prevote and precommit views at finalisation time: any superset / any subset of the existing honest precommits and any set of <= %d Byzantine precommits) is evaluated with the real determinePreVote / defineRoundVotes condition + determinePreCommit / attemptToFinalize on a real Service; Byzantine-built commits (every target block, existing honest precommits + 1-2 Byzantine ones, duplicates) are given to handleCommitMessage; for every jointly possible combination the blocks finalised by different honest voters must be on one chain. A state = one (voter, views) decision context; a transition = one evaluated decision", maxByz, maxByz)
	r.Assumption("within a round honest decisions are layered (prevote <- primary's vote; precommit <- prevote view; finalise <- prevote+precommit view), so choosing the received sets per decision covers every interleaving, delay, reordering and loss")
	tree := c22Tree()
	pool := &c22Pool{nodes: map[[2]int][]*c21Node{}}
	leaves := []int{2, 4}
	var mu sync.Mutex
	var decisions, joint int64
	type job struct {
		pref [c22Honest]int
		seen [c22Honest]bool // has seen the primary's vote before prevoting
	}
	var jobs []job
	for _, p0 := range leaves {
		for _, p1 := range leaves {
			for _, p2 := range leaves {
				for s := 0; s < 4; s++ {
					jobs = append(jobs, job{[c22Honest]int{p0, p1, p2}, [c22Honest]bool{s&1 != 0, false, s&2 != 0}})
				}
			}
		}
	}
	verifmc.ParallelFor(r, len(jobs), func(ji int) {
		jb := jobs[ji]
		label := fmt.Sprintf("pref=%v seenPrimary=%v", jb.pref, jb.seen)
		local := int64(0)
		// ---- layer A: prevotes
		var pv [c22Honest]int
		order := []int{c22Primary, 0, 2}
		for _, i := range order {
			nd := pool.get(i, jb.pref[i])
			if err := nd.svc.initiateRound(); err != nil {
				panic(err)
			}
			if i != c22Primary && jb.seen[i] {
				_, _ = nd.svc.validateVoteMessage(peer.ID("p"), c21VoteMsg(c22Primary, prevote, tree.vote(pv[c22Primary]), 1, 0))
			}
			v, err := nd.svc.determinePreVote()
			if err != nil {
				r.Violate("layered:determinePreVote-error", label+": "+err.Error(), label)
				pool.put(i, jb.pref[i], nd)
				return
			}
			pv[i] = tree.idx[v.Hash]
			pool.put(i, jb.pref[i], nd)
			local++
		}
		// ---- layer B: precommit of voter i under prevote view S
		views := [c22Honest][]c22View{}
		pcOf := [c22Honest]map[c22View]int{}
		for i := 0; i < c22Honest; i++ {
			views[i] = c22Views(i, maxByz)
			pcOf[i] = map[c22View]int{}
			for _, S := range views[i] {
				nd := pool.get(i, jb.pref[i])
				c22Round1(nd, i, pv, S)
				p := 0
				ghost, err := nd.svc.getPreVotedBlock()
				if err == nil {
					total, err := nd.svc.getTotalVotesForBlock(ghost.Hash, prevote)
					if err == nil && total > nd.svc.state.threshold() {
						if v, err := nd.svc.determinePreCommit(); err == nil {
							p = tree.idx[v.Hash]
						}
					}
				}
				pcOf[i][S] = p
				pool.put(i, jb.pref[i], nd)
				local++
			}
		}
		// ---- layer C: finalisation of voter i: prevote view S2, own precommit p, received honest
		// precommits (block per other voter, 0 = not received / not sent), Byzantine precommit set Z
		type finKey struct {
			S2   c22View
			own  int
			recv [c22Honest]int
			z    uint8
		}
		finMemo := [c22Honest]map[finKey]int{}
		finalise := func(i int, k finKey) int {
			if v, ok := finMemo[i][k]; ok {
				return v
			}
			nd := pool.get(i, jb.pref[i])
			c22Round1(nd, i, pv, k.S2)
			if k.own > 0 {
				nd.c21StoreOwnVote(tree.vote(k.own), precommit)
			}
			for j := 0; j < c22Honest; j++ {
				if j != i && k.recv[j] > 0 {
					_, _ = nd.svc.validateVoteMessage(peer.ID("h"), c21VoteMsg(j, precommit, tree.vote(k.recv[j]), 1, 0))
				}
			}
			for b := 1; b <= 4; b++ {
				if k.z&(1<<b) != 0 {
					_, _ = nd.svc.validateVoteMessage(peer.ID("byz"), c21VoteMsg(c22Byz, precommit, tree.vote(b), 1, 0))
				}
			}
			res := 0
			if ok, err := nd.svc.attemptToFinalize(); err == nil && ok {
				calls := nd.bs.c21FinalCalls()
				if len(calls) > 0 {
					res = tree.idx[calls[len(calls)-1].Hash]
				}
			}
			pool.put(i, jb.pref[i], nd)
			finMemo[i][k] = res
			local++
			return res
		}
		for i := range finMemo {
			finMemo[i] = map[finKey]int{}
		}
		// Byzantine-built commits accepted by voter i given the honest precommits that exist
		type comKey struct {
			pcs [c22Honest]int
		}
		comMemo := [c22Honest]map[comKey][]int{}
		for i := range comMemo {
			comMemo[i] = map[comKey][]int{}
		}
		commitsAccepted := func(i int, pcs [c22Honest]int) []int {
			k := comKey{pcs}
			if v, ok := comMemo[i][k]; ok {
				return v
			}
			var acc []int
			for b := 1; b <= 4; b++ {
				for extra := 1; extra <= 2; extra++ {
					for dup := 0; dup <= 1; dup++ { // dup: the honest precommits are listed twice
						nd := pool.get(i, jb.pref[i])
						if err := nd.svc.initiateRound(); err != nil {
							panic(err)
						}
						cm := &CommitMessage{Round: 1, SetID: 0, Vote: tree.vote(b)}
						for rep := 0; rep <= dup; rep++ {
							for j := 0; j < c22Honest; j++ {
								if pcs[j] > 0 && tree.isAnc(b, pcs[j]) {
									cm.Precommits = append(cm.Precommits, tree.vote(pcs[j]))
									cm.AuthData = append(cm.AuthData, AuthData{Signature: c21Sign(j, precommit, tree.vote(pcs[j]), 1, 0), AuthorityID: c21PubBytes(j)})
								}
							}
						}
						bb := []int{b}
						if extra == 2 {
							second := b
							for d := range tree.parent {
								if d != b && tree.isAnc(b, d) {
									second = d
									break
								}
							}
							bb = append(bb, second)
						}
						for _, x := range bb {
							cm.Precommits = append(cm.Precommits, tree.vote(x))
							cm.AuthData = append(cm.AuthData, AuthData{Signature: c21Sign(c22Byz, precommit, tree.vote(x), 1, 0), AuthorityID: c21PubBytes(c22Byz)})
						}
						_ = nd.svc.handleCommitMessage(cm)
						if calls := nd.bs.c21FinalCalls(); len(calls) > 0 {
							acc = append(acc, tree.idx[calls[len(calls)-1].Hash])
						}
						pool.put(i, jb.pref[i], nd)
						local++
					}
				}
			}
			sort.Ints(acc)
			comMemo[i][k] = acc
			return acc
		}
		// ---- joint check over all precommit-view tuples
		type witness struct {
			how string
		}
		zsets := []uint8{}
		for z := uint8(0); z < 32; z += 2 {
			if c22PopCount(z) <= maxByz {
				zsets = append(zsets, z)
			}
		}
		// possible finalised blocks of voter i given its precommit view S, its precommit p and the others' precommits
		type gKey struct {
			i   int
			S   c22View
			pcs [c22Honest]int
		}
		gMemo := map[gKey]map[int]string{}
		possible := func(i int, S c22View, pcs [c22Honest]int) map[int]string {
			k := gKey{i, S, pcs}
			if v, ok := gMemo[k]; ok {
				return v
			}
			out := map[int]string{}
			for _, S2 := range views[i] {
				if !S.sub(S2) {
					continue
				}
				for mask := 0; mask < 4; mask++ { // which of the two other voters' precommits arrived
					var recv [c22Honest]int
					bit := 0
					for j := 0; j < c22Honest; j++ {
						if j == i {
							continue
						}
						if mask&(1<<bit) != 0 {
							recv[j] = pcs[j]
						}
						bit++
					}
					for _, z := range zsets {
						b := finalise(i, finKey{S2, pcs[i], recv, z})
						if b > 0 {
							if _, ok := out[b]; !ok {
								out[b] = fmt.Sprintf("voter %d prevoted b%d, precommitted b%d under prevote view %v, then with prevote view %v, honest precommits received %v and Byzantine precommits for blocks %05b finalised b%d", i, pv[i], pcs[i], S, S2, recv, z, b)
							}
						}
					}
				}
			}
			for _, b := range commitsAccepted(i, pcs) {
				if _, ok := out[b]; !ok {
					out[b] = fmt.Sprintf("voter %d accepted a Byzantine-built commit for b%d (honest precommits existing: %v)", i, b, pcs)
				}
			}
			gMemo[k] = out
			return out
		}
		jointLocal := int64(0)
		for _, S0 := range views[0] {
			for _, S1 := range views[1] {
				for _, S2 := range views[2] {
					Ss := [c22Honest]c22View{S0, S1, S2}
					// every voter may also not have precommitted (yet): 0
					for nop := 0; nop < 8; nop++ {
						var pcs [c22Honest]int
						skip := false
						for i := 0; i < c22Honest; i++ {
							if nop&(1<<i) == 0 {
								pcs[i] = pcOf[i][Ss[i]]
							} else if pcOf[i][Ss[i]] == 0 {
								skip = true // same as the non-masked case
							}
						}
						if skip {
							continue
						}
						jointLocal++
						var fin [c22Honest]map[int]string
						for i := 0; i < c22Honest; i++ {
							fin[i] = possible(i, Ss[i], pcs)
						}
						for a := 0; a < c22Honest; a++ {
							for b := a + 1; b < c22Honest; b++ {
								for x, hx := range fin[a] {
									for y, hy := range fin[b] {
										if !tree.isAnc(x, y) && !tree.isAnc(y, x) {
											r.Violate("safety:two-forks-finalised:one-round",
												fmt.Sprintf("%s prevotes=%v: SAFETY: b%d and b%d finalised on different forks: [%s] and [%s]", label, pv, x, y, hx, hy),
												map[string]any{"config": label, "prevotes": pv, "a": hx, "b": hy})
										}
									}
								}
							}
						}
						nf := 0
						for i := range fin {
							nf += len(fin[i])
						}
						r.Outcome(fmt.Sprintf("precommits=%v finalisable-blocks=%d", pcs, nf))
					}
				}
			}
		}
		mu.Lock()
		decisions += local
		joint += jointLocal
		mu.Unlock()
		r.Distinct(label)
		if ji%8 == 3 {
			var pcl []string
			for i := 0; i < c22Honest; i++ {
				pcl = append(pcl, fmt.Sprintf("v%d:%d views", i, len(pcOf[i])))
			}
			r.Sample(map[string]any{"config": label, "prevotes": pv, "precommit_views": strings.Join(pcl, " "), "decisions_evaluated": local, "joint_combinations": jointLocal})
		}
	}, func(i int, msg string) { r.Violate("layered:panic@"+verifmc.PanicSite(msg), msg, fmt.Sprint(jobs[i])) })
	r.Add("states", decisions)
	r.Add("transitions", decisions)
	r.Add("traces_validated_against_impl", decisions)
	r.Add("evaluations", joint)
	r.Add("joint_combinations_checked", joint)
}
