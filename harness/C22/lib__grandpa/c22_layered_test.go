//go:build verif

package grandpa

// C22, part "layered": complete enumeration of ONE voting round, for several voter-set sizes.
//
// In one round the honest steps are layered: a prevote depends only on the voter's best chain (and
// on whether it has seen the primary's vote, which only makes it vote like a voter with the other
// preference); a precommit depends only on the voter's view of the prevotes; a finalisation depends
// only on the voter's view of prevotes and precommits.  Every interleaving of deliveries and steps is
// therefore equivalent, for what each voter decides, to choosing for every voter and every decision
// the set of messages it has received by then (any subset of the messages that can exist =
// arbitrary delay, reordering and loss; Byzantine votes can be shown to any voter independently).
// This part enumerates ALL such choices, evaluates every decision with the real Service code on a
// real instance, and checks for every jointly possible combination that no two honest voters can
// finalise blocks on different forks (own finalisation, or a Byzantine-built commit).
//
// Voter sets: h honest voters + 1 Byzantine voter (n = h+1, honest > 2/3 for h >= 3).  n = 4 and
// n = 5 are both needed: thresholds computed with integer division differ when n = 2 (mod 3).

import (
	"fmt"
	"sort"
	"strings"
	"sync"
	"testing"
	"time"

	"github.com/ChainSafe/gossamer/internal/log"
	"github.com/ChainSafe/gossamer/internal/verifmc"
	"github.com/ChainSafe/gossamer/lib/blocktree"
	"github.com/ChainSafe/gossamer/lib/common"
	"github.com/libp2p/go-libp2p/core/peer"
)

type c22View struct {
	honest uint16 // bit j: has the vote of honest voter j (never the own bit)
	byz    uint8  // bit b: has the Byzantine vote for block b (b = 1..4); c22Twice: each of them arrived twice
}

const c22Twice = 1 << 7 // the Byzantine votes of the set are delivered twice (re-sent / relayed by two peers)

func (v c22View) sub(w c22View) bool { return v.honest&^w.honest == 0 && v.byz&^w.byz == 0 }
func (v c22View) String() string     { return fmt.Sprintf("{honest:%b byz-blocks:%05b}", v.honest, v.byz) }

func c22PopCount(x uint8) int {
	n := 0
	for ; x != 0; x &= x - 1 {
		n++
	}
	return n
}

// Byzantine vote sets: subsets of `blocks` of size <= maxByz, as bit masks over block indices; with
// twiceAll every non-empty set also with each vote delivered twice, otherwise only the set of both leaves
func c22ZSets(blocks []int, maxByz int, twiceAll bool) []uint8 {
	out := c22ZSetsPlain(blocks, maxByz)
	for _, z := range out {
		if z != 0 && (twiceAll || z == 1<<2|1<<4) {
			out = append(out, z|c22Twice)
		}
	}
	return out
}

func c22ZSetsPlain(blocks []int, maxByz int) []uint8 {
	var out []uint8
	for m := 0; m < 1<<len(blocks); m++ {
		var z uint8
		for i, b := range blocks {
			if m&(1<<i) != 0 {
				z |= 1 << b
			}
		}
		if c22PopCount(z) <= maxByz {
			out = append(out, z)
		}
	}
	return out
}

func c22Views(i, h int, zsets []uint8) []c22View {
	var out []c22View
	for hm := uint16(0); hm < 1<<h; hm++ {
		if hm&(1<<i) != 0 {
			continue
		}
		for _, z := range zsets {
			out = append(out, c22View{hm, z})
		}
	}
	return out
}

// c22NewNodeN: a real Service for honest voter `self` of n voters whose best chain ends at prefLeaf.
func c22NewNodeN(tree *c21Tree, n, self, prefLeaf int) *c21Node {
	bt := blocktree.NewBlockTreeFromRoot(tree.hdr[0])
	for i := 1; i < len(tree.parent); i++ {
		at := c21ArrivalBase.Add(time.Duration(10+i) * time.Second)
		if tree.isAnc(i, prefLeaf) {
			at = c21ArrivalBase.Add(time.Duration(i) * time.Second)
		}
		if err := bt.AddBlock(tree.hdr[i], at); err != nil {
			panic(err)
		}
	}
	bs := &c21BlockState{tree: tree, bt: bt, head: 0,
		finalised: map[[2]uint64]common.Hash{{0, 0}: tree.hash[0]}, justif: map[common.Hash][]byte{}}
	gs := c21NewGrandpaState(c21Voters(n))
	net := &c21Network{}
	svc, err := NewService(&Config{LogLvl: log.Critical, BlockState: bs, GrandpaState: gs, Network: net,
		Voters: c21Voters(n), Keypair: c21Keypair(self), Authority: true, Interval: time.Hour, Telemetry: c21Telemetry{}})
	if err != nil {
		panic(err)
	}
	return &c21Node{svc: svc, bs: bs, gs: gs, net: net, tree: tree, self: self}
}

type c22Pool struct {
	mu    sync.Mutex
	nodes map[[3]int][]*c21Node
}

func (p *c22Pool) get(n, i, pref int) *c21Node {
	k := [3]int{n, i, pref}
	p.mu.Lock()
	l := p.nodes[k]
	if ln := len(l); ln > 0 {
		nd := l[ln-1]
		p.nodes[k] = l[:ln-1]
		p.mu.Unlock()
		nd.c21Recycle(0)
		return nd
	}
	p.mu.Unlock()
	return c22NewNodeN(c22Tree(), n, i, pref)
}
func (p *c22Pool) put(n, i, pref int, nd *c21Node) {
	k := [3]int{n, i, pref}
	p.mu.Lock()
	p.nodes[k] = append(p.nodes[k], nd)
	p.mu.Unlock()
}

type c22Layer struct {
	h, n int // honest voters 0..h-1, Byzantine voter = h, n = h+1
	pref []int
	pv   []int
	pool *c22Pool
}

// round1 opens round 1 on a node, stores the voter's own prevote and delivers a prevote view.
func (L *c22Layer) round1(nd *c21Node, i int, view c22View) {
	tree := c22Tree()
	if err := nd.svc.initiateRound(); err != nil {
		panic(err)
	}
	if L.pv[i] > 0 {
		nd.c21StoreOwnVote(tree.vote(L.pv[i]), prevote)
	}
	for j := 0; j < L.h; j++ {
		if view.honest&(1<<j) != 0 && L.pv[j] > 0 {
			_, _ = nd.svc.validateVoteMessage(peer.ID("h"), c21VoteMsg(j, prevote, tree.vote(L.pv[j]), 1, 0))
		}
	}
	for rep := 0; rep < 2; rep++ {
		for b := 1; b <= 4; b++ {
			if view.byz&(1<<b) != 0 && (rep == 0 || view.byz&c22Twice != 0) {
				_, _ = nd.svc.validateVoteMessage(peer.ID("byz"), c21VoteMsg(L.h, prevote, tree.vote(b), 1, 0))
			}
		}
	}
}

type c22FinKey struct {
	S2   c22View
	own  int
	recv string // blocks of the honest precommits received, one byte per voter ('0' = none)
	z    uint8
}

// c22RunConfig enumerates one (voter set size, preference assignment); returns decisions evaluated and
// joint combinations checked.
func c22RunConfig(r *verifmc.Report, pool *c22Pool, h int, pref []int, seenPrimary []bool, zsets []uint8) (int64, int64) {
	tree := c22Tree()
	n := h + 1
	L := &c22Layer{h: h, n: n, pref: pref, pv: make([]int, h), pool: pool}
	label := fmt.Sprintf("n=%d (honest %d + 1 Byzantine) pref=%v seenPrimary=%v", n, h, pref, seenPrimary)
	local := int64(0)
	// ---- layer A: prevotes (real determinePreVote on the voter's own best chain)
	const primary = 1 // derivePrimary(): voters[round % n] in round 1
	order := []int{primary}
	for i := 0; i < h; i++ {
		if i != primary {
			order = append(order, i)
		}
	}
	for _, i := range order {
		nd := pool.get(n, i, pref[i])
		if err := nd.svc.initiateRound(); err != nil {
			panic(err)
		}
		if i != primary && seenPrimary[i] {
			_, _ = nd.svc.validateVoteMessage(peer.ID("p"), c21VoteMsg(primary, prevote, tree.vote(L.pv[primary]), 1, 0))
		}
		v, err := nd.svc.determinePreVote()
		pool.put(n, i, pref[i], nd)
		if err != nil {
			r.Violate("layered:determinePreVote-error", label+": "+err.Error(), label)
			return local, 0
		}
		L.pv[i] = tree.idx[v.Hash]
		local++
	}
	// ---- layer B: precommit of voter i under prevote view S
	views := make([][]c22View, h)
	pcOf := make([]map[c22View]int, h)
	achievable := make([][]int, h)
	for i := 0; i < h; i++ {
		views[i] = c22Views(i, h, zsets)
		pcOf[i] = map[c22View]int{}
		seen := map[int]bool{0: true}
		for _, S := range views[i] {
			nd := pool.get(n, i, pref[i])
			L.round1(nd, i, S)
			p := 0
			ghost, err := nd.svc.getPreVotedBlock()
			if err == nil {
				total, err := nd.svc.getTotalVotesForBlock(ghost.Hash, prevote)
				if err == nil && total > nd.svc.state.threshold() {
					if v, err := nd.svc.determinePreCommit(); err == nil {
						p = tree.idx[v.Hash]
					}
				}
			}
			pcOf[i][S] = p
			seen[p] = true
			pool.put(n, i, pref[i], nd)
			local++
		}
		for p := range seen {
			achievable[i] = append(achievable[i], p)
		}
		sort.Ints(achievable[i])
	}
	// ---- layer C: finalisation of voter i (memoised on exactly what the voter has seen)
	finMemo := make([]map[c22FinKey]int, h)
	for i := range finMemo {
		finMemo[i] = map[c22FinKey]int{}
	}
	finalise := func(i int, k c22FinKey) int {
		if v, ok := finMemo[i][k]; ok {
			return v
		}
		nd := pool.get(n, i, pref[i])
		L.round1(nd, i, k.S2)
		if k.own > 0 {
			nd.c21StoreOwnVote(tree.vote(k.own), precommit)
		}
		for j := 0; j < h; j++ {
			if b := int(k.recv[j] - '0'); j != i && b > 0 {
				_, _ = nd.svc.validateVoteMessage(peer.ID("h"), c21VoteMsg(j, precommit, tree.vote(b), 1, 0))
			}
		}
		for rep := 0; rep < 2; rep++ {
			for b := 1; b <= 4; b++ {
				if k.z&(1<<b) != 0 && (rep == 0 || k.z&c22Twice != 0) {
					_, _ = nd.svc.validateVoteMessage(peer.ID("byz"), c21VoteMsg(h, precommit, tree.vote(b), 1, 0))
				}
			}
		}
		res := 0
		if ok, err := nd.svc.attemptToFinalize(); err == nil && ok {
			if calls := nd.bs.c21FinalCalls(); len(calls) > 0 {
				res = tree.idx[calls[len(calls)-1].Hash]
			}
		}
		pool.put(n, i, pref[i], nd)
		finMemo[i][k] = res
		local++
		return res
	}
	// Byzantine-built commits accepted by voter i given the honest precommits that exist
	comMemo := make([]map[string][]int, h)
	for i := range comMemo {
		comMemo[i] = map[string][]int{}
	}
	commitsAccepted := func(i int, pcs []int) []int {
		key := fmt.Sprint(pcs)
		if v, ok := comMemo[i][key]; ok {
			return v
		}
		var acc []int
		for b := 1; b <= 4; b++ {
			for extra := 1; extra <= 2; extra++ {
				for dup := 0; dup <= 1; dup++ { // dup: the honest precommits are listed twice
					nd := pool.get(n, i, pref[i])
					if err := nd.svc.initiateRound(); err != nil {
						panic(err)
					}
					cm := &CommitMessage{Round: 1, SetID: 0, Vote: tree.vote(b)}
					for rep := 0; rep <= dup; rep++ {
						for j := 0; j < h; j++ {
							if pcs[j] > 0 && tree.isAnc(b, pcs[j]) {
								cm.Precommits = append(cm.Precommits, tree.vote(pcs[j]))
								cm.AuthData = append(cm.AuthData, AuthData{Signature: c21Sign(j, precommit, tree.vote(pcs[j]), 1, 0), AuthorityID: c21PubBytes(j)})
							}
						}
					}
					bb := []int{b}
					if extra == 2 {
						second := b
						for d := range tree.parent {
							if d != b && tree.isAnc(b, d) {
								second = d
								break
							}
						}
						bb = append(bb, second)
					}
					for _, x := range bb {
						cm.Precommits = append(cm.Precommits, tree.vote(x))
						cm.AuthData = append(cm.AuthData, AuthData{Signature: c21Sign(h, precommit, tree.vote(x), 1, 0), AuthorityID: c21PubBytes(h)})
					}
					_ = nd.svc.handleCommitMessage(cm)
					if calls := nd.bs.c21FinalCalls(); len(calls) > 0 {
						acc = append(acc, tree.idx[calls[len(calls)-1].Hash])
					}
					pool.put(n, i, pref[i], nd)
					local++
				}
			}
		}
		sort.Ints(acc)
		comMemo[i][key] = acc
		return acc
	}
	// blocks voter i can finalise when the precommits of all honest voters are pcs (pcs[j] = 0: voter j
	// has not precommitted): union over its own compatible precommit views, later prevote views,
	// received subsets of the others' precommits and Byzantine precommit sets
	possible := func(i int, pcs []int) map[int]string {
		out := map[int]string{}
		for _, S := range views[i] {
			if pcs[i] != 0 && pcOf[i][S] != pcs[i] {
				continue
			}
			for _, S2 := range views[i] {
				if !S.sub(S2) {
					continue
				}
				for mask := 0; mask < 1<<h; mask++ {
					if mask&(1<<i) != 0 {
						continue
					}
					recv := make([]byte, h)
					skip := false
					for j := 0; j < h; j++ {
						recv[j] = '0'
						if mask&(1<<j) != 0 {
							if pcs[j] == 0 {
								skip = true // same as the mask without j
								break
							}
							recv[j] = byte('0' + pcs[j])
						}
					}
					if skip {
						continue
					}
					for _, z := range zsets {
						b := finalise(i, c22FinKey{S2, pcs[i], string(recv), z})
						if b > 0 {
							if _, ok := out[b]; !ok {
								out[b] = fmt.Sprintf("voter %d prevoted b%d, precommitted b%d under prevote view %v, then with prevote view %v, honest precommits received %s and Byzantine precommits for blocks %05b finalised b%d", i, L.pv[i], pcs[i], S, S2, recv, z, b)
							}
						}
					}
				}
			}
		}
		for _, b := range commitsAccepted(i, pcs) {
			if _, ok := out[b]; !ok {
				out[b] = fmt.Sprintf("voter %d accepted a Byzantine-built commit for b%d (honest precommits existing: %v)", i, b, pcs)
			}
		}
		return out
	}
	// ---- joint check: every tuple of achievable precommits (a voter's precommit depends only on its own
	// view, so every tuple of individually achievable precommits is jointly achievable)
	joint := int64(0)
	dims := make([]int, h)
	for i := range dims {
		dims[i] = len(achievable[i])
	}
	verifmc.Product(dims, func(idx []int) {
		pcs := make([]int, h)
		for i := range pcs {
			pcs[i] = achievable[i][idx[i]]
		}
		joint++
		fin := make([]map[int]string, h)
		nf := 0
		for i := 0; i < h; i++ {
			fin[i] = possible(i, pcs)
			nf += len(fin[i])
		}
		for a := 0; a < h; a++ {
			for b := a + 1; b < h; b++ {
				for x, hx := range fin[a] {
					for y, hy := range fin[b] {
						if !tree.isAnc(x, y) && !tree.isAnc(y, x) {
							r.Violate("safety:two-forks-finalised:one-round",
								fmt.Sprintf("%s prevotes=%v: SAFETY: b%d and b%d finalised on different forks: [%s] and [%s]", label, L.pv, x, y, hx, hy),
								map[string]any{"config": label, "prevotes": L.pv, "a": hx, "b": hy})
						}
					}
				}
			}
		}
		r.Outcome(fmt.Sprintf("n=%d precommits=%v finalisable-blocks=%d", n, pcs, nf))
	})
	r.Distinct(label)
	var pcl []string
	for i := 0; i < h; i++ {
		pcl = append(pcl, fmt.Sprintf("v%d:%d views->precommits %v", i, len(pcOf[i]), achievable[i]))
	}
	r.Sample(map[string]any{"config": label, "prevotes": fmt.Sprint(L.pv), "precommit_views": strings.Join(pcl, " "), "decisions_evaluated": local, "precommit_tuples": joint})
	return local, joint
}

func TestVerif_C22_layered(t *testing.T) {
	r := verifmc.NewReport("C22", "layered-one-round", "model_checking")
	defer r.Write()
	maxByz := verifmc.Pick(2, 3)
	r.Rule = fmt.Sprintf("one complete voting round on the tree root->A->A1, root->B->B1 for voter sets of 3 honest + 1 Byzantine (all 8 assignments of preferred forks x has each voter seen the primary's prevote before prevoting) and 4 honest + 1 Byzantine (thorough: also 5+1; preferred forks up to renaming of honest voters): every choice of (prevote view at precommit time: any subset of the other honest prevotes and any set of <= %d Byzantine prevotes) x (prevote and precommit views at finalisation time: any superset / any subset of the existing honest precommits and any set of <= %d Byzantine precommits; for the larger sets Byzantine votes are for the two leaves; the equivocation on both leaves also with every vote delivered twice, thorough: every non-empty set also delivered twice) is evaluated with the real determinePreVote / defineRoundVotes condition + determinePreCommit / attemptToFinalize on a real Service; Byzantine-built commits (every target block, existing honest precommits once or twice + 1-2 Byzantine ones) are given to handleCommitMessage; for every tuple of achievable precommits the blocks that different honest voters can finalise must be on one chain. A state = one (voter, views) decision context; a transition = one evaluated decision", maxByz, maxByz)
	r.Assumption("within a round honest decisions are layered (precommit <- prevote view; finalise <- prevote+precommit view) and a voter's precommit depends only on its own view, so choosing the received sets per decision covers every interleaving, delay, reordering and loss; seeing the primary's vote only makes a voter prevote like a voter of the other preference (covered by the preference assignments)")
	pool := &c22Pool{nodes: map[[3]int][]*c21Node{}}
	type job struct {
		h     int
		pref  []int
		seen  []bool // has seen the primary's prevote before prevoting
		zsets []uint8
	}
	var jobs []job
	allBlocks, leaves := []int{1, 2, 3, 4}, []int{2, 4}
	sizes := verifmc.Pick([]int{3, 4}, []int{3, 4, 5})
	for _, h := range sizes {
		zs := c22ZSets(allBlocks, maxByz, verifmc.Thorough())
		if h >= 4 {
			zs = c22ZSets(leaves, 2, verifmc.Thorough())
		}
		if h == 3 {
			// all 8 assignments x has each non-primary voter seen the primary's prevote first
			for m := 0; m < 8; m++ {
				p := make([]int, h)
				for i := range p {
					p[i] = 2
					if m&(1<<i) != 0 {
						p[i] = 4
					}
				}
				for sm := 0; sm < 4; sm++ {
					jobs = append(jobs, job{h, p, []bool{sm&1 != 0, false, sm&2 != 0}, zs})
				}
			}
			continue
		}
		for k := 0; k <= h; k++ { // the first k honest voters prefer A1, the others B1
			p := make([]int, h)
			for i := range p {
				p[i] = 4
				if i < k {
					p[i] = 2
				}
			}
			jobs = append(jobs, job{h, p, make([]bool, h), zs})
		}
	}
	var mu sync.Mutex
	var decisions, joint int64
	verifmc.ParallelFor(r, len(jobs), func(ji int) {
		d, j := c22RunConfig(r, pool, jobs[ji].h, jobs[ji].pref, jobs[ji].seen, jobs[ji].zsets)
		mu.Lock()
		decisions += d
		joint += j
		mu.Unlock()
	}, func(i int, msg string) { r.Violate("layered:panic@"+verifmc.PanicSite(msg), msg, fmt.Sprint(jobs[i].pref)) })
	r.Add("states", decisions)
	r.Add("transitions", decisions)
	r.Add("traces_validated_against_impl", decisions)
	r.Add("evaluations", decisions)
	r.Add("precommit_tuples_checked", joint)
}
