//go:build verif

package triedb

// C06: the database-backed trie engine agrees with the spec.
//
// Statement clauses and the oracle clause that implements each:
//  (a) "for every key/value map, state version and sequence of inserts and deletes, the
//      database-backed trie engine computes the spec root"
//      -> in every reached state TrieDB.Hash() (which commits) must return ref.TrieRoot(model);
//         Put/Delete/Hash returning an error or panicking means it did not compute it.
//  (b) "after it commits, a fresh instance opened at that root returns the same value for every
//      key and absent for all others"
//      -> after the commit a fresh NewTrieDB(root, db) must Get model[k] for every alphabet key,
//         nil for every absent alphabet key and for the probes.
// Histories: put / delete / commit / reopen (= commit, then continue on a fresh instance), so that
// mutations of persisted nodes (lazy loading, deathRow deletions, branch merges after a delete
// through persisted children) are reached, "committed once or repeatedly".

import (
	"bytes"
	"fmt"
	"sort"
	"strings"
	"testing"
	"time"

	"github.com/ChainSafe/gossamer/internal/database"
	"github.com/ChainSafe/gossamer/internal/primitives/core/hash"
	"github.com/ChainSafe/gossamer/internal/primitives/runtime"
	"github.com/ChainSafe/gossamer/internal/verifmc"
	"github.com/ChainSafe/gossamer/internal/verifmc/ref"
	"github.com/ChainSafe/gossamer/pkg/trie"
)

// ---------------------------------------------------------------- database

// c06DB is a plain map-backed db.RWDatabase.  The empty node is permanently available under the
// hash of the empty node (what the package's own helper NewMemoryDB(EmptyNode) and the Rust
// HashDB contract provide); this precondition is recorded as an assumption, not a finding.
// Batches are real batches: writes are buffered, applied in order by Flush and dropped by Close.
type c06DB struct {
	data map[string][]byte
	null []byte
}

func c06NewDB() *c06DB {
	return &c06DB{data: map[string][]byte{}, null: ref.Blake256([]byte{0})}
}

func (d *c06DB) isNull(key []byte) bool { return bytes.HasSuffix(key, d.null) }

func (d *c06DB) Get(key []byte) ([]byte, error) {
	if d.isNull(key) {
		return []byte{0}, nil
	}
	if v, ok := d.data[string(key)]; ok {
		return append([]byte{}, v...), nil
	}
	return nil, nil
}

func (d *c06DB) Put(key, value []byte) error {
	if d.isNull(key) {
		return nil
	}
	d.data[string(key)] = append([]byte{}, value...)
	return nil
}

func (d *c06DB) Del(key []byte) error {
	delete(d.data, string(key))
	return nil
}

func (d *c06DB) Flush() error { return nil }

func (d *c06DB) NewBatch() database.Batch { return &c06Batch{db: d} }

func (d *c06DB) canon(b *bytes.Buffer) {
	ks := make([]string, 0, len(d.data))
	for k := range d.data {
		ks = append(ks, k)
	}
	sort.Strings(ks)
	for _, k := range ks {
		fmt.Fprintf(b, "%x=%x;", k, d.data[k])
	}
}

type c06BatchOp struct {
	del  bool
	k, v []byte
}

type c06Batch struct {
	db  *c06DB
	ops []c06BatchOp
}

func (b *c06Batch) Put(k, v []byte) error {
	b.ops = append(b.ops, c06BatchOp{false, append([]byte{}, k...), append([]byte{}, v...)})
	return nil
}
func (b *c06Batch) Del(k []byte) error {
	b.ops = append(b.ops, c06BatchOp{true, append([]byte{}, k...), nil})
	return nil
}
func (b *c06Batch) Flush() error {
	for _, o := range b.ops {
		if o.del {
			_ = b.db.Del(o.k)
		} else {
			_ = b.db.Put(o.k, o.v)
		}
	}
	b.ops = nil
	return nil
}
func (b *c06Batch) Close() error   { b.ops = nil; return nil }
func (b *c06Batch) Reset()         { b.ops = nil }
func (b *c06Batch) ValueSize() int { return len(b.ops) }

// ---------------------------------------------------------------- state

type c06Trie = TrieDB[hash.H256, runtime.BlakeTwo256]

type c06State struct {
	t    *c06Trie
	db   *c06DB
	m    ref.OMap
	ver  trie.TrieLayout
	soft []verifmc.Violation
	r    *verifmc.Report
}

type c06Op struct {
	kind string // put delete commit reopen
	k, v []byte
}

func c06ValName(v []byte) string {
	if len(v) > 4 {
		return fmt.Sprintf("%02x*%d", v[0], len(v))
	}
	return fmt.Sprintf("%x", v)
}

func (o c06Op) Name() string {
	switch o.kind {
	case "put":
		return fmt.Sprintf("put(%x,%s)", o.k, c06ValName(o.v))
	case "delete":
		return fmt.Sprintf("delete(%x)", o.k)
	}
	return o.kind
}

func c06MapString(m ref.OMap) string {
	var parts []string
	for _, k := range m.Keys() {
		parts = append(parts, fmt.Sprintf("%x=%s", k, c06ValName(m[k])))
	}
	return "{" + strings.Join(parts, " ") + "}"
}

func c06Ver(v trie.TrieLayout) int {
	if v == trie.V1 {
		return 1
	}
	return 0
}

func c06Open(root hash.H256, db *c06DB, ver trie.TrieLayout) *c06Trie {
	t := NewTrieDB[hash.H256, runtime.BlakeTwo256](root, db)
	t.SetVersion(ver)
	return t
}

// A divergence is rendered as "<signature> :: <text>".
func c06Div(sig, format string, a ...any) string {
	return sig + " :: " + fmt.Sprintf(format, a...)
}

// c06Commit calls Hash() (which commits) and compares the result with the spec root of the
// model (clause a).  A mismatch that is completely explained by "a value of exactly 32 bytes
// was hashed" (the root equals the root with the hashed-value threshold moved from >32 to >=32)
// is reported soft under its own signature; the model stays valid (contents did not change).
func c06Commit(s *c06State, t *c06Trie, who string) (hash.H256, string) {
	h, err := t.Hash()
	if err != nil {
		return h, c06Div(who+":error", "%s() returned error %v for %s (version %d)", who, err, c06MapString(s.m), c06Ver(s.ver))
	}
	want := ref.TrieRoot(s.m, c06Ver(s.ver))
	if bytes.Equal(h.Bytes(), want) {
		return h, ""
	}
	text := fmt.Sprintf("%s() = %x, spec root %x for %s (version %d)", who, h.Bytes(), want, c06MapString(s.m), c06Ver(s.ver))
	if s.ver == trie.V1 && c06Has32(s.m) && bytes.Equal(h.Bytes(), ref.C06TrieRootHashedFrom(s.m, 32)) {
		const sig = "Hash:v1-value-of-exactly-32-bytes-is-hashed"
		for _, v := range s.soft {
			if v.Sig == sig {
				return h, ""
			}
		}
		s.soft = append(s.soft, verifmc.Violation{Sig: sig,
			Desc: text + "; the root is the one obtained when 32-byte values are hashed (spec: only values longer than 32 bytes)"})
		return h, ""
	}
	if bytes.Equal(h.Bytes(), ref.Blake256([]byte{0})) && len(s.m) > 0 {
		return h, c06Div("Hash:empty-root-for-non-empty-map", "%s", text)
	}
	return h, c06Div("Hash:root-differs-from-spec", "%s", text)
}

func c06Has32(m ref.OMap) bool {
	for _, v := range m {
		if len(v) == 32 {
			return true
		}
	}
	return false
}

// c06Exact copies b into a slice whose capacity equals its length (the tightest slice a caller
// can pass; a slice with spare capacity would only make aliasing writes by the callee more likely).
func c06Exact(b []byte) []byte {
	c := make([]byte, len(b))
	copy(c, b)
	return c
}

// c06Nibbles is the nibble form of a key.
func c06Nibbles(k []byte) []byte {
	out := make([]byte, 0, 2*len(k))
	for _, b := range k {
		out = append(out, b>>4, b&0xf)
	}
	return out
}

// c06DeleteShape names the relation of the deleted key to the model contents.
func c06DeleteShape(m ref.OMap, k []byte) string {
	if _, ok := m[string(k)]; ok {
		return "present-key"
	}
	for x := range m {
		if len(x) > len(k) && bytes.HasPrefix(c06Nibbles([]byte(x)), c06Nibbles(k)) {
			return "absent-key-prefixing-a-present-key"
		}
	}
	return "absent-key"
}

// c06Norm makes an error / panic text usable inside a signature: first line, hashes and numbers
// replaced by '#'.
func c06Norm(msg string) string {
	if i := strings.IndexByte(msg, '\n'); i >= 0 {
		msg = msg[:i]
	}
	msg = strings.TrimPrefix(msg, "panic: ")
	var b strings.Builder
	run := false
	for _, c := range msg {
		if c >= '0' && c <= '9' {
			if !run {
				b.WriteByte('#')
			}
			run = true
			continue
		}
		run = false
		b.WriteRune(c)
	}
	out := b.String()
	if len(out) > 90 {
		out = out[:90]
	}
	return out
}

func c06Apply(s *c06State, o c06Op) string {
	switch o.kind {
	case "put":
		k, v := c06Exact(o.k), c06Exact(o.v)
		var err error
		if p, msg := verifmc.Guard(func() { err = s.t.Put(k, v) }); p {
			return c06Div("Put:panic:"+c06Norm(msg), "Put(%x,%s) on %s (version %d): %s", o.k, c06ValName(o.v), c06MapString(s.m), c06Ver(s.ver), msg)
		}
		if !bytes.Equal(k, o.k) {
			// the engine wrote into the caller's key: the entry is then stored under other bytes
			return c06Div("Put:overwrites-callers-key", "Put(%x,%s) on %s (version %d) changed the caller's key slice (len=cap=%d) to %x",
				o.k, c06ValName(o.v), c06MapString(s.m), c06Ver(s.ver), len(o.k), k)
		}
		if err != nil {
			return c06Div("Put:error:"+c06Norm(err.Error()), "Put(%x,%s) on %s (version %d) returned error %v", o.k, c06ValName(o.v), c06MapString(s.m), c06Ver(s.ver), err)
		}
		s.m[string(o.k)] = append([]byte{}, o.v...)
	case "delete":
		k := c06Exact(o.k)
		shape := c06DeleteShape(s.m, o.k)
		var err error
		if p, msg := verifmc.Guard(func() { err = s.t.Delete(k) }); p {
			return c06Div("Delete:"+shape+":panic:"+c06Norm(msg), "Delete(%x) on %s (version %d): %s", o.k, c06MapString(s.m), c06Ver(s.ver), msg)
		}
		if !bytes.Equal(k, o.k) {
			return c06Div("Delete:overwrites-callers-key", "Delete(%x) on %s (version %d) changed the caller's key slice (len=cap=%d) to %x",
				o.k, c06MapString(s.m), c06Ver(s.ver), len(o.k), k)
		}
		if err != nil {
			return c06Div("Delete:"+shape+":error:"+c06Norm(err.Error()), "Delete(%x) on %s (version %d) returned error %v", o.k, c06MapString(s.m), c06Ver(s.ver), err)
		}
		delete(s.m, string(o.k))
		if shape == "absent-key-prefixing-a-present-key" {
			// Diagnostic read of the live object (Get does not mutate it): did deleting an absent
			// key remove a present key that it prefixes?  If exactly that happened the mismatch is
			// reported under its own signature and the model follows the real object; anything
			// else is left to the root / fresh-instance oracle of the next check.
			// A key counts as gone when the live Get returns nil or panics (a panic of this
			// diagnostic read is not itself reported: Get on an instance with uncommitted changes is
			// not an observation point of the statement; it is counted).  The next check validates
			// the re-synchronised model against the root and a fresh instance.
			var gone []string
			for _, x := range s.m.Keys() {
				if len(s.m[x]) == 0 {
					continue
				}
				var got []byte
				if p, _ := verifmc.Guard(func() { got = s.t.Get(c06Exact([]byte(x))) }); p {
					s.r.Outcome("diagnostic-live-get-panicked(outside statement,counted)")
					got = nil
				}
				if got == nil {
					gone = append(gone, x)
				}
			}
			if len(gone) == 1 && bytes.HasPrefix(c06Nibbles([]byte(gone[0])), c06Nibbles(o.k)) {
				s.soft = append(s.soft, verifmc.Violation{Sig: "Delete:absent-key-removes-a-key-it-prefixes",
					Desc: fmt.Sprintf("Delete(%x) on %s (version %d): key %x is absent, but afterwards Get(%x) on the same instance returns nil", o.k, c06MapString(s.m), c06Ver(s.ver), o.k, gone[0])})
				delete(s.m, gone[0])
			}
		}
	case "commit":
		_, d := c06Commit(s, s.t, "Hash")
		return d
	case "reopen":
		h, d := c06Commit(s, s.t, "Hash")
		if d != "" {
			return d
		}
		s.t = c06Open(h, s.db, s.ver)
	default:
		panic("unknown op " + o.kind)
	}
	return ""
}

// c06Check evaluates both clauses in state s.  It commits (mutates the real object and the
// database); the explorer takes the canonical dump before calling it and never replays it.
func c06Check(s *c06State, keys, probes [][]byte) string {
	h, d := c06Commit(s, s.t, "Hash")
	if d != "" {
		return d
	}
	// committing again must give the same (spec) root
	h2, d := c06Commit(s, s.t, "Hash(second)")
	if d != "" {
		return d
	}
	if h2 != h {
		return c06Div("Hash:second-commit-changes-root", "second Hash() = %x, first %x", h2.Bytes(), h.Bytes())
	}
	// clause (b): a fresh instance opened at that root
	fresh := c06Open(h, s.db, s.ver)
	for _, k := range keys {
		got := fresh.Get(c06Exact(k))
		want, present := s.m[string(k)]
		switch {
		case !present && got != nil:
			return c06Div("FreshGet:absent-key-reads-a-value", "after commit of %s (version %d) a fresh TrieDB at root %x returns %s for absent key %x",
				c06MapString(s.m), c06Ver(s.ver), h.Bytes(), c06ValName(got), k)
		case present && len(want) > 0 && got == nil:
			return c06Div("FreshGet:present-key-reads-absent", "after commit of %s (version %d) a fresh TrieDB at root %x returns nil for key %x (want %s)",
				c06MapString(s.m), c06Ver(s.ver), h.Bytes(), k, c06ValName(want))
		case present && !bytes.Equal(got, want):
			return c06Div("FreshGet:wrong-value", "after commit of %s (version %d) a fresh TrieDB at root %x returns %s for key %x (want %s)",
				c06MapString(s.m), c06Ver(s.ver), h.Bytes(), c06ValName(got), k, c06ValName(want))
		case present && len(want) == 0 && got == nil:
			// an empty value read back as nil: []byte cannot tell "empty" from "absent"; the
			// statement does not say which Go value an empty value is -> counted, not a violation
			s.r.Outcome("fresh-get:empty-value-reads-nil(ambiguous,skipped)")
		}
	}
	for _, k := range probes {
		if got := fresh.Get(c06Exact(k)); got != nil {
			return c06Div("FreshGet:absent-key-reads-a-value", "after commit of %s (version %d) a fresh TrieDB at root %x returns %s for absent probe %x",
				c06MapString(s.m), c06Ver(s.ver), h.Bytes(), c06ValName(got), k)
		}
	}
	// the fresh instance itself computes the same root (nothing to commit)
	fh, err := fresh.Hash()
	if err != nil || fh != h {
		return c06Div("FreshHash:differs", "fresh TrieDB at root %x: Hash() = %x, err %v", h.Bytes(), fh.Bytes(), err)
	}
	return ""
}

// ---------------------------------------------------------------- canonical dump

func c06DumpValue(b *bytes.Buffer, v nodeValue[hash.H256]) {
	switch x := v.(type) {
	case nil:
		b.WriteString("v=none")
	case inline[hash.H256]:
		fmt.Fprintf(b, "v=in:%x", []byte(x))
	case valueRef[hash.H256]:
		fmt.Fprintf(b, "v=ref:%x", x.hash.Bytes())
	case newValueRef[hash.H256]:
		fmt.Fprintf(b, "v=new:%x:%x", x.hash.Bytes(), x.data)
	default:
		fmt.Fprintf(b, "v=?%T", v)
	}
}

type c06Walk struct {
	t       *c06Trie
	visited map[int]bool
	broken  string
}

func (w *c06Walk) handle(b *bytes.Buffer, h NodeHandle) {
	switch x := h.(type) {
	case nil:
		b.WriteString("_")
	case persisted[hash.H256]:
		fmt.Fprintf(b, "P(%x)", x.hash.Bytes())
	case inMemory:
		idx := int(x)
		if idx < 0 || idx >= len(w.t.storage.nodes) || w.t.storage.nodes[idx] == nil {
			w.broken = fmt.Sprintf("handle %d refers to a free or missing storage slot", idx)
			fmt.Fprintf(b, "DANGLING(%d)", idx)
			return
		}
		if w.visited[idx] {
			w.broken = fmt.Sprintf("storage slot %d is referenced twice", idx)
			fmt.Fprintf(b, "ALIAS(%d)", idx)
			return
		}
		w.visited[idx] = true
		switch st := w.t.storage.nodes[idx].(type) {
		case NewStoredNode:
			b.WriteString("N")
			w.node(b, st.node)
		case CachedStoredNode[hash.H256]:
			fmt.Fprintf(b, "C[%x]", st.hash.Bytes())
			w.node(b, st.node)
		default:
			fmt.Fprintf(b, "?%T", st)
		}
	}
}

func (w *c06Walk) node(b *bytes.Buffer, n Node) {
	switch x := n.(type) {
	case Empty:
		b.WriteString("E")
	case Leaf[hash.H256]:
		fmt.Fprintf(b, "L(pk=%d:%x ", x.partialKey.Offset, x.partialKey.Data)
		c06DumpValue(b, x.value)
		b.WriteString(")")
	case Branch[hash.H256]:
		fmt.Fprintf(b, "B(pk=%d:%x ", x.partialKey.Offset, x.partialKey.Data)
		c06DumpValue(b, x.value)
		for i, c := range x.children {
			if c != nil {
				fmt.Fprintf(b, " %x:", i)
				w.handle(b, c)
			}
		}
		b.WriteString(")")
	default:
		fmt.Fprintf(b, "?%T", n)
	}
}

// c06Canon dumps every field the TrieDB methods read: version, rootHash, the node structure
// reachable from rootHandle (new/cached, keys, values, persisted hashes), the deathRow, the
// database and the model.  Storage slot numbers are abstracted away: they are pure names as long
// as reachable handles are distinct live slots and every free index is an empty slot - that
// invariant is checked here and, if it is broken, the raw slot table is dumped as well.
func c06Canon(s *c06State) []byte {
	var b bytes.Buffer
	t := s.t
	fmt.Fprintf(&b, "ver=%d root=%x ", t.version, t.rootHash.Bytes())
	w := &c06Walk{t: t, visited: map[int]bool{}}
	w.handle(&b, t.rootHandle)
	free := map[int]bool{}
	for i := 0; i < t.storage.freeIndices.Len(); i++ {
		idx := t.storage.freeIndices.At(i)
		if free[idx] {
			w.broken = fmt.Sprintf("free index %d listed twice", idx)
		}
		free[idx] = true
		if idx < 0 || idx >= len(t.storage.nodes) || t.storage.nodes[idx] != nil {
			w.broken = fmt.Sprintf("free index %d is an occupied slot", idx)
		}
	}
	if w.broken != "" {
		s.r.Outcome("storage-handle-invariant-broken")
		fmt.Fprintf(&b, " RAW[%s]", w.broken)
		for i, n := range t.storage.nodes {
			fmt.Fprintf(&b, " %d=%T", i, n)
		}
		for i := 0; i < t.storage.freeIndices.Len(); i++ {
			fmt.Fprintf(&b, " f%d", t.storage.freeIndices.At(i))
		}
	}
	dr := make([]string, 0, len(t.deathRow))
	for k := range t.deathRow {
		dr = append(dr, k)
	}
	sort.Strings(dr)
	b.WriteString(" death=")
	for _, k := range dr {
		fmt.Fprintf(&b, "%x,", k)
	}
	b.WriteString(" db=")
	s.db.canon(&b)
	b.WriteString(" model=")
	b.Write(s.m.Canon())
	return b.Bytes()
}

// ---------------------------------------------------------------- exploration

func c06Val(fill byte, n int) []byte { return bytes.Repeat([]byte{fill}, n) }

func c06Keys(family string) (keys, probes [][]byte) {
	switch family {
	case "short":
		// empty key, keys that are prefixes of others, shared nibble prefixes, zero low nibble
		return [][]byte{{}, {0x00}, {0x01}, {0x10}, {0x00, 0x00}, {0x00, 0x01}, {0x01, 0x00}, {0x10, 0x00}, {0x00, 0x00, 0x00}},
			[][]byte{{0x02}, {0x11}, {0x23}, {0x00, 0x02}, {0x00, 0x00, 0x01}, {0x10, 0x00, 0x00}}
	case "mid":
		// fewer keys, explored deeper: the empty key, a key, three extensions of it: two under the
		// same child nibble (a branch below a branch) and one under another child nibble (so that
		// the node of 01 can have two children)
		// plus a key under another root nibble (a root branch without partial key)
		return [][]byte{{}, {0x01}, {0x01, 0x00}, {0x01, 0x01}, {0x01, 0x10}, {0x10}},
			[][]byte{{0x00}, {0x11}, {0x01, 0x02}, {0x01, 0x00, 0x00}}
	case "long":
		// partial keys of 62..66 and 318..322 nibbles: the multi-byte header length encoding
		var ks [][]byte
		for _, n := range []int{31, 32, 33, 159, 160} {
			base := bytes.Repeat([]byte{0xab}, n)
			a := append([]byte{}, base...)
			b := append([]byte{}, base...)
			b[n-1] = 0xac
			c := append(append([]byte{}, base...), 0x01)
			ks = append(ks, a, b, c)
		}
		return ks, [][]byte{{0xab}, bytes.Repeat([]byte{0xab}, 34), bytes.Repeat([]byte{0xab}, 161)}
	}
	panic(family)
}

func c06Sig(hist []verifmc.Op, desc string) string {
	last := "init"
	if len(hist) > 0 {
		last = hist[len(hist)-1].Name()
		if i := strings.Index(last, "("); i >= 0 {
			last = last[:i]
		}
	}
	if strings.HasPrefix(desc, "panic:") {
		return last + "->panic@" + verifmc.PanicSite(desc)
	}
	if strings.HasPrefix(desc, "hang:") {
		return last + "->hang"
	}
	if i := strings.Index(desc, " :: "); i >= 0 {
		return desc[:i]
	}
	return last + "->unclassified"
}

func c06Explore(r *verifmc.Report, family string, ver trie.TrieLayout, vals [][]byte, depth int) {
	keys, probes := c06Keys(family)
	var ops []verifmc.Op
	for _, k := range keys {
		for _, v := range vals {
			ops = append(ops, c06Op{kind: "put", k: k, v: v})
		}
	}
	for _, k := range keys {
		ops = append(ops, c06Op{kind: "delete", k: k})
	}
	ops = append(ops, c06Op{kind: "commit"}, c06Op{kind: "reopen"})
	h := &verifmc.Hist[*c06State]{
		Fresh: func() *c06State {
			db := c06NewDB()
			t := NewEmptyTrieDB[hash.H256, runtime.BlakeTwo256](db)
			t.SetVersion(ver)
			return &c06State{t: t, db: db, m: ref.OMap{}, ver: ver, r: r}
		},
		Ops:   func(s *c06State) []verifmc.Op { return ops },
		Apply: func(s *c06State, op verifmc.Op) string { return c06Apply(s, op.(c06Op)) },
		Check: func(s *c06State) string {
			persistedRoot := false
			if _, ok := s.t.rootHandle.(persisted[hash.H256]); ok {
				persistedRoot = true
			}
			if d := c06Check(s, keys, probes); d != "" {
				return d
			}
			r.Outcome(fmt.Sprintf("entries=%d root-persisted-before-check=%t", len(s.m), persistedRoot))
			r.Outcome(fmt.Sprintf("db-records=%d%s", c06Bucket(len(s.db.data)), map[bool]string{true: "+", false: ""}[len(s.db.data) > 4]))
			return ""
		},
		Canon: c06Canon,
		Sig:   c06Sig,
		Soft: func(s *c06State) []verifmc.Violation {
			out := s.soft
			s.soft = nil
			return out
		},
		Depth: depth,
	}
	h.Explore(r)
}

func c06Bucket(n int) int {
	if n > 4 {
		return 4
	}
	return n
}

func TestVerif_C06(t *testing.T) {
	r := verifmc.NewReport("C06", "triedb", "model_checking")
	defer r.Write()
	r.Rule = "BFS over put/delete/commit/reopen histories on the real TrieDB (V0 and V1) over a map-backed database with real (buffered) batches; alphabets: short (9 colliding keys x values of 0,1,31,32,33 bytes), mid (6 keys x 1,29,30,32,33 bytes - child encodings of exactly 32 bytes - one level deeper), long (15 keys with 62..66 / 318..322 nibble partial keys x 1,33 bytes); states deduplicated on the dump of the private node structure, deathRow, database and model; in every state Hash() (commit) is compared with the independent spec root, Hash() is repeated, and a fresh TrieDB opened at the root must Get the model value for every alphabet key and nil for absent keys and probes"
	r.Assumption("the database always serves the empty node under the hash of the empty node (as the package's NewMemoryDB(EmptyNode) helper does); an empty TrieDB over a database without it fails with 'incomplete database' and that precondition is not counted as a finding")
	r.Assumption("database.Batch semantics: writes are buffered and applied in order by Flush, dropped by Close")
	// sanity of the reference against constants that do not come from the code under test
	if got := fmt.Sprintf("%x", ref.TrieRoot(map[string][]byte{}, 0)); got != "03170a2e7597b7b7e3d84c05391d139a62b157e78786d8c082f29dcf4c111314" {
		t.Fatalf("reference empty root wrong: %s", got)
	}
	// the threshold-parametrised copy used only for naming mismatches agrees with the reference
	for _, m := range []map[string][]byte{
		{"": c06Val(1, 33)}, {"\x00": c06Val(1, 32), "\x00\x01": c06Val(2, 33), "\x10": {1}}, {"a": {}, "ab": c06Val(3, 40), "b": c06Val(3, 31)},
	} {
		if !bytes.Equal(ref.C06TrieRootHashedFrom(m, 33), ref.TrieRoot(m, 1)) || !bytes.Equal(ref.C06TrieRootHashedFrom(m, 1<<30), ref.TrieRoot(m, 0)) {
			t.Fatalf("C06TrieRootHashedFrom disagrees with TrieRoot on %v", m)
		}
	}
	shortVals := [][]byte{{}, {0x01}, c06Val(0x31, 31), c06Val(0x32, 32), c06Val(0x33, 33)}
	// 29/30 bytes: a leaf child with a one-byte / empty partial key then encodes to exactly 32 bytes
	// (the inline-child threshold); 32/33: the hashed-value threshold
	midVals := [][]byte{{0x01}, c06Val(0x29, 29), c06Val(0x30, 30), c06Val(0x32, 32), c06Val(0x33, 33)}
	longVals := [][]byte{{0x01}, c06Val(0x33, 33)}
	dShort := verifmc.Pick(3, 4)
	dMid := verifmc.Pick(4, 5)
	dLong := verifmc.Pick(3, 4)
	timing := map[string]string{}
	for _, ver := range []trie.TrieLayout{trie.V0, trie.V1} {
		for _, e := range []struct {
			family string
			vals   [][]byte
			depth  int
		}{{"short", shortVals, dShort}, {"mid", midVals, dMid}, {"long", longVals, dLong}} {
			t0 := time.Now()
			c06Explore(r, e.family, ver, e.vals, e.depth)
			timing[fmt.Sprintf("%s-v%d", e.family, c06Ver(ver))] = fmt.Sprintf("depth %v done, new states per depth %v, %.1fs", r.Extra["completed_depth"], r.Extra["new_states_per_depth"], time.Since(t0).Seconds())
		}
	}
	r.Extra["explorations"] = timing
	delete(r.Extra, "completed_depth")
	delete(r.Extra, "new_states_per_depth")
	r.Extra["depth_short"] = dShort
	r.Extra["depth_mid"] = dMid
	r.Extra["depth_long"] = dLong
}
