//go:build verif

package grandpa

// C20, part "weights": the vote weights the round definitions are evaluated over.
// For every voter set of a finite family the real NewVoterSet / VoterSet accessors and
// roundContext.Weight / EquivocationWeight (bitfield arithmetic) are compared with explicit integer
// sums: total T, threshold T - floor((T-1)/3), per-voter weight and position (= rank in ID order),
// weight of a vote-node in phase p = sum of w(v) over voters that voted on it in p or equivocated in p
// ("an equivocator's weight counts towards every block"), votes of the other phase never leak in.

import (
	"fmt"
	"testing"

	"github.com/ChainSafe/gossamer/internal/verifmc"
)

type c20wSet struct {
	ids     []string
	weights []uint64
	probes  []int // voters (by position) whose votes/equivocations are enumerated
}

func c20wSets() []c20wSet {
	var out []c20wSet
	maxN := verifmc.Pick(4, 5)
	for n := 1; n <= maxN; n++ {
		dims := make([]int, n)
		for i := range dims {
			dims[i] = 3
		}
		verifmc.Product(dims, func(idx []int) {
			s := c20wSet{ids: c20Ids(n), probes: c20Seq(n)}
			for _, x := range idx {
				s.weights = append(s.weights, uint64(x+1))
			}
			out = append(out, s)
		})
	}
	// sets that span one, two and three 64-bit words of the bitfields (32 voters per word)
	for _, n := range []int{32, 33, 34, 64, 65, 70} {
		for _, pat := range []int{1, 3} {
			s := c20wSet{ids: c20Ids(n)}
			for i := 0; i < n; i++ {
				s.weights = append(s.weights, uint64(1+i%pat+(i/32)*pat))
			}
			for _, p := range []int{0, 31, 32, 63, 64, 69} {
				if p < n && len(s.probes) < 5 {
					s.probes = append(s.probes, p)
				}
			}
			out = append(out, s)
		}
	}
	return out
}

func TestVerif_C20_weights(t *testing.T) {
	r := verifmc.NewReport("C20", "weights", "exploration")
	defer r.Write()
	r.Rule = "every voter set with 1..4 (thorough 5) voters and weights in {1,2,3}, plus 12 sets of 32..70 voters spanning 1-3 bitfield words; for each: every subset A of probe voters voting on a node in the phase, every subset B voting in the other phase, every subset E equivocating in the phase; Weight/EquivocationWeight/threshold/total/positions against integer sums; non-trivial = distinct (set, A, B, E)"
	sets := c20wSets()
	verifmc.ParallelFor(r, len(sets), func(si int) {
		s := sets[si]
		n := len(s.ids)
		// build the set from the list in sorted, reversed and rotated order: the result must be the same
		orders := [][]int{c20Seq(n)}
		rev := make([]int, n)
		rot := make([]int, n)
		for i := range rev {
			rev[i] = n - 1 - i
			rot[i] = (i + n/2) % n
		}
		orders = append(orders, rev, rot)
		var T uint64
		for _, w := range s.weights {
			T += w
		}
		thr := T - (T-1)/3
		var local int64
		for oi, ord := range orders {
			var iw []IDWeight[string]
			for _, i := range ord {
				iw = append(iw, IDWeight[string]{ID: s.ids[i], Weight: s.weights[i]})
			}
			vs := NewVoterSet(iw)
			replay := map[string]any{"ids": s.ids, "weights": s.weights, "list_order": ord}
			if vs == nil {
				r.Violate("voterset:nil-for-valid-set", "NewVoterSet returned nil", replay)
				continue
			}
			if uint64(vs.TotalWeight()) != T || uint64(vs.Threshold()) != thr || vs.Len() != n {
				r.Violate("voterset:total-or-threshold-wrong", fmt.Sprintf("total %d threshold %d len %d, reference %d %d %d", vs.TotalWeight(), vs.Threshold(), vs.Len(), T, thr, n), replay)
				continue
			}
			bad := false
			for i, id := range s.ids {
				info := vs.Get(id)
				nth := vs.Nth(uint(i))
				if info == nil || uint64(info.Weight()) != s.weights[i] || info.Position() != uint(i) || nth == nil || nth.ID != id || !vs.Contains(id) {
					r.Violate("voterset:member-weight-or-position-wrong", fmt.Sprintf("voter %s: %+v / nth %+v, reference weight %d position %d", id, info, nth, s.weights[i], i), replay)
					bad = true
					break
				}
			}
			if vs.Contains("zz-not-a-member") || vs.Get("") != nil || vs.Nth(uint(n)) != nil {
				r.Violate("voterset:non-member-found", "a non-member id or out-of-range index is found", replay)
				bad = true
			}
			if bad || oi > 0 {
				continue // the bit arithmetic is enumerated once per set
			}
			k := len(s.probes)
			infos := make([]VoterInfo, k)
			for j, p := range s.probes {
				infos[j] = *vs.Get(s.ids[p])
			}
			sum := func(mask int) uint64 {
				var w uint64
				for j := 0; j < k; j++ {
					if mask>>j&1 == 1 {
						w += s.weights[s.probes[j]]
					}
				}
				return w
			}
			for phase := PrevotePhase; phase <= PrecommitPhase; phase++ {
				other := PrecommitPhase - phase
				for E := 0; E < 1<<k; E++ {
					ctx := newRoundContext(*vs)
					for j := 0; j < k; j++ {
						if E>>j&1 == 1 {
							ctx.Equivocated(infos[j], phase)
						}
					}
					if got := uint64(ctx.EquivocationWeight(phase)); got != sum(E) {
						r.Violate("weight:equivocation-weight-wrong", fmt.Sprintf("EquivocationWeight %d, reference %d", got, sum(E)), map[string]any{"set": replay, "phase": phase, "E": E})
					}
					if got := uint64(ctx.EquivocationWeight(other)); got != 0 {
						r.Violate("weight:equivocation-leaks-into-other-phase", fmt.Sprintf("EquivocationWeight(other phase) %d, reference 0", got), map[string]any{"set": replay, "phase": phase, "E": E})
					}
					for A := 0; A < 1<<k; A++ {
						for B := 0; B < 1<<k; B++ {
							node := &voteNode[string]{newBitfield()}
							half := &voteNode[string]{newBitfield()}
							for j := 0; j < k; j++ {
								if A>>j&1 == 1 {
									// half of the votes arrive through a merged child node
									if j%2 == 0 {
										node.AddVote(newVote[string](infos[j], phase))
									} else {
										half.AddVote(newVote[string](infos[j], phase))
									}
								}
								if B>>j&1 == 1 {
									node.AddVote(newVote[string](infos[j], other))
								}
							}
							cp := node.Copy()
							node.Add(half)
							local++
							want := sum(A | E)
							got := uint64(ctx.Weight(*node, phase))
							if got != want {
								sig := "weight:node-weight-wrong"
								if E != 0 && got == sum(A) {
									sig = "weight:equivocators-not-counted-on-node"
								}
								r.Violate(sig, fmt.Sprintf("Weight(node,%d) %d, reference %d", phase, got, want), map[string]any{"set": replay, "phase": phase, "voted": A, "other_phase": B, "equivocated": E, "probes": s.probes})
							}
							if gotCp, wantCp := uint64(ctx.Weight(*cp, phase)), sum(A&0x55555555|E); gotCp != wantCp {
								r.Violate("weight:copy-not-independent", fmt.Sprintf("Weight(copy taken before Add) %d, reference %d", gotCp, wantCp), map[string]any{"set": replay, "phase": phase, "voted": A, "equivocated": E})
							}
							if B>>(k-1)&1 == 1 && A == 0 {
								// anti-vacuity: a node whose bitfield is longer than the equivocation bitfield and v.v.
								r.Outcome(fmt.Sprintf("words node=%d eqv=%d", len(node.bits.bits), len(ctx.equivocations.bits)))
							}
						}
					}
				}
			}
		}
		r.Add("evaluations", local)
		r.Distinct(fmt.Sprint(s.weights))
	}, func(i int, msg string) {
		r.Violate("panic:"+verifmc.PanicSite(msg), msg, map[string]any{"ids": sets[i].ids, "weights": sets[i].weights})
	})
	r.Extra["voter_sets"] = len(sets)
	r.Sample(map[string]any{"weights": sets[len(sets)-1].weights, "probes": sets[len(sets)-1].probes})
}
