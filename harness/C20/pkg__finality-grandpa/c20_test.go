//go:build verif

package grandpa

// C20: GRANDPA round state follows the protocol definitions.
//
// Explicit-state search (verifmc.Hist) over import histories of prevotes and precommits on the
// real Round (unexported importPrevote / importPrecommit), for every block tree of a configuration
// family and a set of voter-weight vectors.  In every reached state the observers Round.State()
// (prevote-GHOST, finalized, estimate, completable), Round.PrecommitGHOST() and the participation
// weights are compared with a reference written from the definitions pinned in DESIGN §6 C20 over
// explicit integer weights and an explicit parent map.  Because every history (= every import
// order of every vote list up to the depth, incl. duplicates, equivocations and third votes) is a
// path of the search and the reference is a function of the vote *set* only, order independence is
// checked by the same comparison.
//
// Reference (T total weight, f = floor((T-1)/3), t = T-f; S a phase):
//   first(S,v)   the first vote of v imported in S; v equivocates in S iff two different votes of v were imported
//   W_S(B)       = sum of w(v) over non-equivocating v with first(S,v) >= B (B ancestor-or-equal)  +  weight of all equivocators of S
//   seen_S       = weight of voters with at least one vote in S
//   g            = highest block with W_prevotes >= t                    (exists iff seen_prevotes >= t)
//   pcghost      = highest block with W_precommits >= t                  (exists iff seen_precommits >= t)
//   finalized    = highest ancestor-or-equal of g with W_precommits >= t (exists iff g exists and seen_precommits >= t)
//   possible(B)  <=> weight of non-equivocating precommitters with first vote not >= B  +  precommit equivocator weight  <= 2f
//   estimate     = g while seen_precommits < t, else highest ancestor-or-equal of g with possible()
//   completable  <=> estimate != g, or no proper descendant of g has possible()
// The block tree is open-ended (a voter never knows that a block has no children): a not yet seen
// child C of g has possible(C) <=> seen_precommits <= 2f.  For T = 3f+1 that is exactly
// "seen_precommits < t"; for other T the window 2f < seen_precommits < t is where the weighted
// generalisation of the paper (which assumes n = 3f+1) is ambiguous: estimate/completable are
// skipped and counted there.
// Skipped and counted as well: supermajority blocks of a phase that do not form a chain (only
// possible when equivocator weight > f), estimate/completable when precommit equivocator weight > f.

import (
	"bytes"
	"fmt"
	"sort"
	"strings"
	"testing"

	"github.com/ChainSafe/gossamer/internal/verifmc"
)

// ---------------------------------------------------------------- configuration

type c20Cfg struct {
	name    string
	parent  []int    // parent vector, node 0 = round base
	hash    []string // hash (name) of node i; hash order is what the vote graph's btrees / binary searches see
	depthOf []int
	ids     []string // voter ids in ID order (= position order)
	weights []uint64 // weight of voter i
	active  []int    // indices of the voters that cast votes (the others are filler that never votes)
	symm    bool     // histories up to renaming of equal-weight active voters (new voters appear in id order)
	depth   int      // history length bound
	ghostOp bool     // PrecommitGHOST() is also an operation (its cache then becomes part of the explored state)
	baseNum uint32
	T, t, f uint64
}

func (c *c20Cfg) finish() *c20Cfg {
	c.depthOf = make([]int, len(c.parent))
	for i := 1; i < len(c.parent); i++ {
		c.depthOf[i] = c.depthOf[c.parent[i]] + 1
	}
	c.T = 0
	for _, w := range c.weights {
		c.T += w
	}
	c.f = (c.T - 1) / 3
	c.t = c.T - c.f
	return c
}

// isAnc reports whether a is an ancestor of or equal to b (explicit parent map walk).
func (c *c20Cfg) isAnc(a, b int) bool {
	for b >= 0 {
		if a == b {
			return true
		}
		b = c.parent[b]
	}
	return false
}

func (c *c20Cfg) num(i int) uint32 { return c.baseNum + uint32(c.depthOf[i]) }

func (c *c20Cfg) describe() string {
	return fmt.Sprintf("%s parent=%v hash=%v weights=%v active=%v base#=%d", c.name, c.parent, c.hash, c.weights, c.active, c.baseNum)
}

// c20Chain implements Chain[string,uint32] over the parent map.
type c20Chain struct {
	cfg *c20Cfg
	idx map[string]int
}

func c20NewChain(c *c20Cfg) *c20Chain {
	ch := &c20Chain{cfg: c, idx: map[string]int{}}
	for i, h := range c.hash {
		ch.idx[h] = i
	}
	return ch
}

// Ancestry: hashes strictly between block and base, from block's parent downwards; error unless
// block is a proper descendant of base (as the interface comment and the package's dummy chain say).
func (ch *c20Chain) Ancestry(base, block string) ([]string, error) {
	b, ok := ch.idx[block]
	if !ok {
		return nil, fmt.Errorf("unknown block %q", block)
	}
	out := []string{}
	for {
		b = ch.cfg.parent[b]
		if b < 0 {
			return nil, fmt.Errorf("block not descendant of base")
		}
		if ch.cfg.hash[b] == base {
			return out, nil
		}
		out = append(out, ch.cfg.hash[b])
	}
}

func (ch *c20Chain) IsEqualOrDescendantOf(base, block string) bool {
	a, ok1 := ch.idx[base]
	b, ok2 := ch.idx[block]
	return ok1 && ok2 && ch.cfg.isAnc(a, b)
}

// ---------------------------------------------------------------- state, ops

type c20Round = Round[string, string, uint32, string]

type c20State struct {
	cfg   *c20Cfg
	chain *c20Chain
	r     *c20Round
	// model: per phase, per voter: distinct votes in arrival order (at most the first two are kept,
	// a voter with two entries is an equivocator; later votes change nothing by the definitions)
	votes [2][][]int
	acted []bool
}

type c20Op struct {
	kind  int // 0 prevote, 1 precommit, 2 PrecommitGHOST()
	voter int
	block int
	name  string
}

func (o c20Op) Name() string { return o.name }

func c20Fresh(c *c20Cfg) *c20State {
	var iw []IDWeight[string]
	for i, id := range c.ids {
		iw = append(iw, IDWeight[string]{ID: id, Weight: c.weights[i]})
	}
	vs := NewVoterSet(iw)
	if vs == nil {
		panic("c20: NewVoterSet returned nil for " + c.describe())
	}
	s := &c20State{cfg: c, chain: c20NewChain(c), acted: make([]bool, len(c.ids))}
	s.r = NewRound[string, string, uint32, string](RoundParams[string, string, uint32]{
		RoundNumber: 1, Voters: *vs, Base: HashNumber[string, uint32]{Hash: c.hash[0], Number: c.baseNum},
	})
	s.votes[0] = make([][]int, len(c.ids))
	s.votes[1] = make([][]int, len(c.ids))
	return s
}

func c20AllOps(c *c20Cfg) []c20Op {
	var ops []c20Op
	for _, v := range c.active {
		for kind := 0; kind < 2; kind++ {
			for b := range c.parent {
				ops = append(ops, c20Op{kind: kind, voter: v, block: b,
					name: fmt.Sprintf("%s(%s,%s)", [2]string{"prevote", "precommit"}[kind], c.ids[v], c.hash[b])})
			}
		}
	}
	if c.ghostOp {
		ops = append(ops, c20Op{kind: 2, name: "PrecommitGHOST()"})
	}
	return ops
}

// c20Enabled: with symm, a voter that has not acted yet may act only if every lower active voter
// of the same weight has acted (every history is a renaming of exactly one such history).
func c20Enabled(s *c20State, all []c20Op) []verifmc.Op {
	c := s.cfg
	out := make([]verifmc.Op, 0, len(all))
	for _, o := range all {
		if c.symm && o.kind != 2 && !s.acted[o.voter] {
			blocked := false
			for _, u := range c.active {
				if u < o.voter && c.weights[u] == c.weights[o.voter] && !s.acted[u] {
					blocked = true
					break
				}
			}
			if blocked {
				continue
			}
		}
		out = append(out, o)
	}
	return out
}

func c20Sigstr(o c20Op) string { return "sig:" + o.name }

func c20Apply(s *c20State, o c20Op) string {
	c := s.cfg
	switch o.kind {
	case 0:
		res, err := s.r.importPrevote(s.chain, Prevote[string, uint32]{TargetHash: c.hash[o.block], TargetNumber: c.num(o.block)}, c.ids[o.voter], c20Sigstr(o))
		if err != nil || res == nil {
			return fmt.Sprintf("import-error: importPrevote of a vote for a block of the tree failed: %v", err)
		}
		if !res.ValidVoter {
			return "import-error: importPrevote says a set member is not a valid voter"
		}
	case 1:
		res, err := s.r.importPrecommit(s.chain, Precommit[string, uint32]{TargetHash: c.hash[o.block], TargetNumber: c.num(o.block)}, c.ids[o.voter], c20Sigstr(o))
		if err != nil || res == nil {
			return fmt.Sprintf("import-error: importPrecommit of a vote for a block of the tree failed: %v", err)
		}
		if !res.ValidVoter {
			return "import-error: importPrecommit says a set member is not a valid voter"
		}
	case 2:
		s.r.PrecommitGHOST()
		return ""
	}
	s.acted[o.voter] = true
	vv := s.votes[o.kind][o.voter]
	known := false
	for _, b := range vv {
		if b == o.block {
			known = true
		}
	}
	if !known && len(vv) < 2 {
		s.votes[o.kind][o.voter] = append(vv, o.block)
	}
	return ""
}

// ---------------------------------------------------------------- reference

type c20Expect struct {
	seen        [2]uint64
	eqv         [2]uint64
	ghost       [2]int // -1 none, -2 skipped (supermajority blocks are not a chain)
	finalized   int    // -1 none, -2 skipped
	estimate    int    // -1 none, -2 skipped
	completable int    // 0 false, 1 true, -2 skipped
	skip        []string
}

func (c *c20Cfg) refW(votes [][]int, b int) uint64 {
	var w uint64
	for v, vv := range votes {
		switch {
		case len(vv) >= 2:
			w += c.weights[v]
		case len(vv) == 1 && c.isAnc(b, vv[0]):
			w += c.weights[v]
		}
	}
	return w
}

func (c *c20Cfg) refSeenEqv(votes [][]int) (seen, eqv uint64) {
	for v, vv := range votes {
		if len(vv) >= 1 {
			seen += c.weights[v]
		}
		if len(vv) >= 2 {
			eqv += c.weights[v]
		}
	}
	return
}

// refGhost: the highest block with W >= t; -1 if none; -2 if those blocks are not a chain.
func (c *c20Cfg) refGhost(votes [][]int) int {
	best := -1
	var sm []int
	for b := range c.parent {
		if c.refW(votes, b) >= c.t {
			sm = append(sm, b)
			if best < 0 || c.depthOf[b] > c.depthOf[best] {
				best = b
			}
		}
	}
	for _, b := range sm {
		if !c.isAnc(b, best) {
			return -2
		}
	}
	return best
}

func (c *c20Cfg) refPossible(pc [][]int, b int, eqv uint64) bool {
	var elsewhere uint64
	for v, vv := range pc {
		if len(vv) == 1 && !c.isAnc(b, vv[0]) {
			elsewhere += c.weights[v]
		}
	}
	return elsewhere+eqv <= 2*c.f
}

func (c *c20Cfg) reference(votes [2][][]int) c20Expect {
	var e c20Expect
	for p := 0; p < 2; p++ {
		e.seen[p], e.eqv[p] = c.refSeenEqv(votes[p])
		e.ghost[p] = c.refGhost(votes[p])
		if e.ghost[p] == -2 {
			e.skip = append(e.skip, fmt.Sprintf("skip:%s-supermajority-blocks-not-a-chain", [2]string{"prevote", "precommit"}[p]))
		}
	}
	g := e.ghost[0]
	switch {
	case g == -2:
		e.finalized, e.estimate, e.completable = -2, -2, -2
		return e
	case g == -1:
		e.finalized, e.estimate, e.completable = -1, -1, -2 // nothing is defined before a prevote-GHOST exists
		return e
	}
	// finalized
	e.finalized = -1
	if e.seen[1] >= c.t {
		for b := g; b >= 0; b = c.parent[b] {
			if c.refW(votes[1], b) >= c.t {
				e.finalized = b
				break
			}
		}
	}
	// estimate / completable
	if e.eqv[1] > c.f {
		e.estimate, e.completable = -2, -2
		e.skip = append(e.skip, "skip:precommit-equivocator-weight-exceeds-f")
		return e
	}
	if e.seen[1] < c.t {
		e.estimate = g
		if e.seen[1] <= 2*c.f {
			e.completable = 0 // an unseen child of g could still get a supermajority
		} else {
			e.estimate, e.completable = -2, -2
			e.skip = append(e.skip, "skip:weighted-window-2f<seen-precommits<t")
		}
		return e
	}
	e.estimate = -1
	for b := g; b >= 0; b = c.parent[b] {
		if c.refPossible(votes[1], b, e.eqv[1]) {
			e.estimate = b
			break
		}
	}
	if e.estimate != g {
		if e.estimate == -1 {
			e.completable = -2 // cannot happen with equivocator weight <= f (base is always possible)
			e.skip = append(e.skip, "skip:no-possible-block")
		} else {
			e.completable = 1
		}
		return e
	}
	e.completable = 1
	for b := range c.parent {
		if b != g && c.isAnc(g, b) && c.refPossible(votes[1], b, e.eqv[1]) {
			e.completable = 0
		}
	}
	return e
}

// ---------------------------------------------------------------- comparison

func (c *c20Cfg) blockOf(hn *HashNumber[string, uint32]) (int, string) {
	if hn == nil {
		return -1, ""
	}
	for i, h := range c.hash {
		if h == hn.Hash {
			if hn.Number != c.num(i) {
				return i, fmt.Sprintf("block %s reported with number %d, is %d", h, hn.Number, c.num(i))
			}
			return i, ""
		}
	}
	return -3, fmt.Sprintf("unknown block %q", hn.Hash)
}

func (c *c20Cfg) bname(i int) string {
	if i < 0 {
		return "none"
	}
	return c.hash[i]
}

// relation of the implementation's block to the reference block: the shape of the mismatch
func (c *c20Cfg) rel(impl, ref int) string {
	switch {
	case impl == -1:
		return "impl-none-ref-defined"
	case ref == -1:
		return "impl-defined-ref-none"
	case impl < 0:
		return "impl-unknown-block"
	case c.isAnc(impl, ref):
		return "impl-lower-than-ref"
	case c.isAnc(ref, impl):
		return "impl-higher-than-ref"
	default:
		return "impl-on-another-branch"
	}
}

func (s *c20State) votesString() string {
	var sb strings.Builder
	for p := 0; p < 2; p++ {
		sb.WriteString([2]string{"prevotes{", " precommits{"}[p])
		for v, vv := range s.votes[p] {
			if len(vv) == 0 {
				continue
			}
			sb.WriteString(s.cfg.ids[v] + ":")
			for i, b := range vv {
				if i > 0 {
					sb.WriteString("+")
				}
				sb.WriteString(s.cfg.hash[b])
			}
			sb.WriteString(" ")
		}
		sb.WriteString("}")
	}
	return sb.String()
}

// c20Check compares every observer with the reference.  The returned string starts with the signature.
func c20Check(s *c20State, r *verifmc.Report) string {
	c := s.cfg
	e := c.reference(s.votes)
	for _, k := range e.skip {
		r.Outcome(k)
	}
	st := s.r.State()
	pcg := s.r.PrecommitGHOST()
	ctx := func() string {
		return fmt.Sprintf(" [%s; T=%d t=%d f=%d; %s]", c.describe(), c.T, c.t, c.f, s.votesString())
	}
	eqvTag := func(p int) string {
		if e.eqv[p] > 0 {
			return ":with-equivocation"
		}
		return ""
	}
	// participation weights
	if w, _ := s.r.PrevoteParticipation(); uint64(w) != e.seen[0] {
		return fmt.Sprintf("participation:prevote-weight-wrong|impl %d, reference %d%s", w, e.seen[0], ctx())
	}
	if w, _ := s.r.PrecommitParticipation(); uint64(w) != e.seen[1] {
		return fmt.Sprintf("participation:precommit-weight-wrong|impl %d, reference %d%s", w, e.seen[1], ctx())
	}
	type cmp struct {
		what string
		impl *HashNumber[string, uint32]
		ref  int
		tag  string
	}
	for _, x := range []cmp{
		{"prevote-ghost", st.PrevoteGHOST, e.ghost[0], eqvTag(0)},
		{"precommit-ghost", pcg, e.ghost[1], eqvTag(1)},
		{"finalized", st.Finalized, e.finalized, eqvTag(1)},
		{"estimate", st.Estimate, e.estimate, eqvTag(1)},
	} {
		if x.ref == -2 {
			continue
		}
		ib, bad := c.blockOf(x.impl)
		if bad != "" {
			return fmt.Sprintf("%s:bad-block|%s%s", x.what, bad, ctx())
		}
		if ib != x.ref {
			return fmt.Sprintf("%s:%s%s|impl %s, reference %s%s", x.what, c.rel(ib, x.ref), x.tag, c.bname(ib), c.bname(x.ref), ctx())
		}
	}
	if e.completable != -2 {
		if st.Completable != (e.completable == 1) {
			dir := "impl-false-ref-true"
			if st.Completable {
				dir = "impl-true-ref-false"
			}
			return fmt.Sprintf("completable:%s%s|estimate %s prevote-ghost %s%s", dir, eqvTag(1), c.bname(e.estimate), c.bname(e.ghost[0]), ctx())
		}
		if st.Completable != s.r.Completable() {
			return "completable:State-and-Completable-differ|" + ctx()
		}
	}
	// anti-vacuity classes
	cls := fmt.Sprintf("g=%v fin=%v est%s compl=%d eqv=%v/%v", e.ghost[0] >= 0, e.finalized >= 0,
		map[bool]string{true: "=g", false: "<g"}[e.estimate == e.ghost[0]], e.completable, e.eqv[0] > 0, e.eqv[1] > 0)
	if e.estimate == -2 {
		cls = fmt.Sprintf("g=%v fin=%v est-skipped eqv=%v/%v", e.ghost[0] >= 0, e.finalized >= 0, e.eqv[0] > 0, e.eqv[1] > 0)
	}
	r.Outcome(cls)
	if e.ghost[0] >= 0 {
		if _, isNode := s.r.graph.entries.Get(c.hash[e.ghost[0]]); !isNode {
			r.Outcome("shortcut:prevote-ghost-is-not-a-vote-node")
		}
		if e.completable >= 0 && e.seen[1] >= c.t {
			r.Distinct(c.name + "|" + s.votesString())
		}
	}
	return ""
}

// ---------------------------------------------------------------- canonical dump of the private state

func c20HN(b *bytes.Buffer, hn *HashNumber[string, uint32]) {
	if hn == nil {
		b.WriteString("nil;")
		return
	}
	fmt.Fprintf(b, "%s#%d;", hn.Hash, hn.Number)
}

func c20Canon(s *c20State) []byte {
	var b bytes.Buffer
	r := s.r
	fmt.Fprintf(&b, "eq%v|", r.context.equivocations.bits)
	b.WriteString("graph:")
	r.graph.entries.Scan(func(h string, e voteGraphEntry[string, uint32, *voteNode[string], vote[string]]) bool {
		fmt.Fprintf(&b, "%s#%d a%v d%v c%v;", h, e.number, e.ancestors, e.descendants, e.cumulativeVote.bits.bits)
		return true
	})
	fmt.Fprintf(&b, "heads%v base%s#%d|", r.graph.heads.Keys(), r.graph.base, r.graph.baseNumber)
	b.WriteString("pv:")
	r.prevotes.votes.Scan(func(id string, vm voteMultiplicity[Prevote[string, uint32], string]) bool {
		fmt.Fprintf(&b, "%s=%v;", id, vm.value)
		return true
	})
	fmt.Fprintf(&b, "w%d|pc:", r.prevotes.currentWeight)
	r.precommits.votes.Scan(func(id string, vm voteMultiplicity[Precommit[string, uint32], string]) bool {
		fmt.Fprintf(&b, "%s=%v;", id, vm.value)
		return true
	})
	fmt.Fprintf(&b, "w%d|", r.precommits.currentWeight)
	c20HN(&b, r.prevoteGhost)
	c20HN(&b, r.precommitGhost)
	c20HN(&b, r.finalized)
	c20HN(&b, r.estimate)
	fmt.Fprintf(&b, "%v|model%v%v", r.completable, s.votes, s.acted)
	// historicalVotes (the import-order log) is deliberately not part of the dump: it is read by
	// no method explored here (only returned by HistoricalVotes()).
	return b.Bytes()
}

// ---------------------------------------------------------------- configurations

func c20Ids(n int) []string {
	ids := make([]string, n)
	for i := range ids {
		ids[i] = fmt.Sprintf("v%02d", i)
	}
	return ids
}

func c20Seq(n int) []int {
	s := make([]int, n)
	for i := range s {
		s[i] = i
	}
	return s
}

// c20Labelings: node i gets hash letters[perm[i]].
func c20Hashes(perm []int) []string {
	h := make([]string, len(perm))
	for i, p := range perm {
		h[i] = string(rune('a' + p))
	}
	return h
}

// c20Shape is a canonical code of the unlabelled rooted tree (sorted child codes).
func c20Shape(parent []int) string {
	var code func(i int) string
	code = func(i int) string {
		var cs []string
		for j, p := range parent {
			if p == i {
				cs = append(cs, code(j))
			}
		}
		sort.Strings(cs)
		return "(" + strings.Join(cs, "") + ")"
	}
	return code(0)
}

type c20VoterCfg struct {
	name    string
	weights []uint64
	active  []int
}

func c20Configs() []*c20Cfg {
	thorough := verifmc.Thorough()
	var out []*c20Cfg
	add := func(parent []int, perm []int, lab string, vc c20VoterCfg, depth int, symm, ghostOp bool) {
		c := &c20Cfg{
			name:    fmt.Sprintf("tree%v/%s/%s", parent, lab, vc.name),
			parent:  append([]int{}, parent...),
			hash:    c20Hashes(perm),
			ids:     c20Ids(len(vc.weights)),
			weights: vc.weights, active: vc.active, symm: symm, depth: depth, ghostOp: ghostOp, baseNum: 1,
		}
		out = append(out, c.finish())
	}
	v4 := c20VoterCfg{"4x1", []uint64{1, 1, 1, 1}, c20Seq(4)}
	v211 := c20VoterCfg{"2+1+1", []uint64{2, 1, 1}, c20Seq(3)}
	v3 := c20VoterCfg{"3x1", []uint64{1, 1, 1}, c20Seq(3)}
	v2111 := c20VoterCfg{"2+1+1+1", []uint64{2, 1, 1, 1}, c20Seq(4)}
	// 35 voters: the four active ones sit at positions 0, 31, 32, 34 (bit words 0 and 1 of the
	// bitfields), weight 100 each; 31 fillers of weight 1 never vote.  T=431 f=143 t=288: three
	// active voters reach the threshold, one active equivocator is tolerated.
	wide := c20VoterCfg{name: "wide35", weights: make([]uint64, 35), active: []int{0, 31, 32, 34}}
	for i := range wide.weights {
		wide.weights[i] = 1
	}
	for _, a := range wide.active {
		wide.weights[a] = 100
	}

	for n := 1; n <= 5; n++ {
		seenShape := map[string]bool{}
		verifmc.ParentVectors(n, func(parent []int) {
			ident := c20Seq(n)
			rev := make([]int, n)
			for i := range rev {
				rev[i] = n - 1 - i
			}
			firstOfShape := !seenShape[c20Shape(parent)]
			seenShape[c20Shape(parent)] = true
			type lab struct {
				perm []int
				name string
			}
			labs := []lab{{ident, "id"}}
			if n >= 2 {
				labs = append(labs, lab{rev, "rev"})
			}
			for _, l := range labs {
				switch {
				case n <= 3:
					add(parent, l.perm, l.name, v4, verifmc.Pick(8, 9), true, false)
					add(parent, l.perm, l.name, v211, verifmc.Pick(7, 8), false, true)
					add(parent, l.perm, l.name, v3, 6, false, false)
					add(parent, l.perm, l.name, wide, verifmc.Pick(7, 8), true, false)
					if thorough {
						add(parent, l.perm, l.name, v2111, 8, true, false)
						add(parent, l.perm, l.name, v4, 7, false, false)
					}
				case n == 4:
					add(parent, l.perm, l.name, v4, verifmc.Pick(6, 8), true, false)
					add(parent, l.perm, l.name, v211, verifmc.Pick(6, 7), false, false)
					if thorough {
						add(parent, l.perm, l.name, wide, 7, true, false)
						add(parent, l.perm, l.name, v2111, 7, true, false)
					}
				case n == 5:
					// quick: one labelled representative per unlabelled shape (9 shapes), both hash orders
					if !thorough && !firstOfShape {
						continue
					}
					add(parent, l.perm, l.name, v211, verifmc.Pick(5, 6), false, false)
					add(parent, l.perm, l.name, v4, verifmc.Pick(6, 7), true, false)
				}
			}
		})
	}
	return out
}

// ---------------------------------------------------------------- test

func TestVerif_C20(t *testing.T) {
	r := verifmc.NewReport("C20", "round-state", "model_checking")
	defer r.Write()
	r.Rule = "per configuration (block tree as parent vector x hash labelling x voter-weight vector): BFS over all histories of importPrevote/importPrecommit calls (any active voter, any block of the tree, incl. duplicates, equivocations, third votes) up to the configuration's depth on a fresh real Round, states merged on a dump of the Round's private state (vote graph entries with ancestor/descendant lists and bitfields, trackers, equivocation bitfield, memoised ghost/finalized/estimate/completable); in every state State(), PrecommitGHOST(), Completable() and participation weights are compared with the reference over explicit weights; a case is non-trivial when both phases have reached the threshold"
	r.Assumption("votes are for blocks of the tree with their correct numbers, one signature per (voter, vote); round base = tree root")
	r.Assumption("configurations marked symm explore histories up to renaming of equal-weight voters (new voters appear in id order)")
	cfgs := c20Configs()
	r.Extra["configurations"] = len(cfgs)
	perCfg := map[string]any{}
	for _, c := range cfgs {
		if r.Expired() {
			r.Capped("deadline before configuration " + c.name)
			break
		}
		c := c
		all := c20AllOps(c)
		before := r.Counters["states"]
		h := &verifmc.Hist[*c20State]{
			Fresh: func() *c20State { return c20Fresh(c) },
			Ops:   func(s *c20State) []verifmc.Op { return c20Enabled(s, all) },
			Apply: func(s *c20State, op verifmc.Op) string { return c20Apply(s, op.(c20Op)) },
			Check: func(s *c20State) string { return c20Check(s, r) },
			Canon: c20Canon,
			Sig: func(hist []verifmc.Op, desc string) string {
				if strings.HasPrefix(desc, "panic:") {
					return "panic:" + verifmc.PanicSite(desc)
				}
				if i := strings.Index(desc, "|"); i > 0 {
					return desc[:i]
				}
				if i := strings.Index(desc, ":"); i > 0 {
					return desc[:i]
				}
				return "wrong-result"
			},
			Depth: c.depth,
		}
		h.Explore(r)
		perCfg[c.name] = map[string]any{"depth": c.depth, "symm": c.symm, "states": r.Counters["states"] - before}
	}
	r.Extra["per_configuration_states"] = perCfg
}
