//go:build verif

package grandpa

// C20: GRANDPA round state follows the protocol definitions.
//
// Explicit-state search (verifmc.Hist) over import histories of prevotes and precommits on the
// real Round (unexported importPrevote / importPrecommit), for every block tree of a configuration
// family and a set of voter-weight vectors.  In every reached state the observers Round.State()
// (prevote-GHOST, finalized, estimate, completable), Round.PrecommitGHOST() and the participation
// weights are compared with a reference written from the definitions pinned in DESIGN §6 C20 over
// explicit integer weights and an explicit parent map.  Because every history (= every import
// order of every vote list up to the depth, incl. duplicates, equivocations and third votes) is a
// path of the search and the reference is a function of the vote *set* only, order independence is
// checked by the same comparison.
//
// Reference (T total weight, f = floor((T-1)/3), t = T-f; S a phase):
//   first(S,v)   the first vote of v imported in S; v equivocates in S iff two different votes of v were imported
//   W_S(B)       = sum of w(v) over non-equivocating v with first(S,v) >= B (B ancestor-or-equal)  +  weight of all equivocators of S
//   seen_S       = weight of voters with at least one vote in S
//   g            = highest block with W_prevotes >= t                    (exists iff seen_prevotes >= t)
//   pcghost      = highest block with W_precommits >= t                  (exists iff seen_precommits >= t)
//   finalized    = highest ancestor-or-equal of g with W_precommits >= t (exists iff g exists and seen_precommits >= t)
//   possible(B)  <=> weight of non-equivocating precommitters with first vote not >= B  +  precommit equivocator weight  <= 2f
//   estimate     = g while seen_precommits < t, else highest ancestor-or-equal of g with possible()
//   completable  <=> estimate != g, or no proper descendant of g has possible()
// The block tree is open-ended (a voter never knows that a block has no children): a not yet seen
// child C of g has possible(C) <=> seen_precommits <= 2f.  For T = 3f+1 that is exactly
// "seen_precommits < t"; for other T the window 2f < seen_precommits < t is where the weighted
// generalisation of the paper (which assumes n = 3f+1) is ambiguous: estimate/completable are
// skipped and counted there.
// Skipped and counted as well: supermajority blocks of a phase that do not form a chain (only
// possible when equivocator weight > f), estimate/completable when precommit equivocator weight > f.

import (
	"fmt"
	"os"
	"sort"
	"strconv"
	"strings"
	"sync/atomic"
	"testing"

	"github.com/ChainSafe/gossamer/internal/verifmc"
)

// ---------------------------------------------------------------- configuration

type c20Cfg struct {
	name    string
	parent  []int    // parent vector, node 0 = round base
	hash    []string // hash (name) of node i; hash order is what the vote graph's btrees / binary searches see
	depthOf []int
	ids     []string // voter ids in ID order (= position order)
	weights []uint64 // weight of voter i
	active  []int    // indices of the voters that cast votes (the others are filler that never votes)
	symm    bool     // histories up to renaming of equal-weight active voters (new voters appear in id order)
	depth   int      // history length bound
	ghostOp bool     // PrecommitGHOST() is also an operation (its cache then becomes part of the explored state)
	beyondF bool     // histories may make the equivocator weight of a phase exceed f (outside the fault assumption)
	baseNum uint32
	T, t, f uint64
	voters  *VoterSet[string] // built once by the real NewVoterSet; never mutated by Round
	chain   *c20Chain
}

func (c *c20Cfg) finish() *c20Cfg {
	c.depthOf = make([]int, len(c.parent))
	for i := 1; i < len(c.parent); i++ {
		c.depthOf[i] = c.depthOf[c.parent[i]] + 1
	}
	c.T = 0
	for _, w := range c.weights {
		c.T += w
	}
	c.f = (c.T - 1) / 3
	c.t = c.T - c.f
	var iw []IDWeight[string]
	for i, id := range c.ids {
		iw = append(iw, IDWeight[string]{ID: id, Weight: c.weights[i]})
	}
	c.voters = NewVoterSet(iw)
	if c.voters == nil {
		panic("c20: NewVoterSet returned nil for " + c.describe())
	}
	c.chain = c20NewChain(c)
	return c
}

// isAnc reports whether a is an ancestor of or equal to b (explicit parent map walk).
func (c *c20Cfg) isAnc(a, b int) bool {
	for b >= 0 {
		if a == b {
			return true
		}
		b = c.parent[b]
	}
	return false
}

func (c *c20Cfg) num(i int) uint32 { return c.baseNum + uint32(c.depthOf[i]) }

func (c *c20Cfg) describe() string {
	return fmt.Sprintf("%s parent=%v hash=%v weights=%v active=%v base#=%d", c.name, c.parent, c.hash, c.weights, c.active, c.baseNum)
}

// c20Chain implements Chain[string,uint32] over the parent map.
type c20Chain struct {
	cfg *c20Cfg
	idx map[string]int
}

func c20NewChain(c *c20Cfg) *c20Chain {
	ch := &c20Chain{cfg: c, idx: map[string]int{}}
	for i, h := range c.hash {
		ch.idx[h] = i
	}
	return ch
}

// Ancestry: hashes strictly between block and base, from block's parent downwards; error unless
// block is a proper descendant of base (as the interface comment and the package's dummy chain say).
func (ch *c20Chain) Ancestry(base, block string) ([]string, error) {
	b, ok := ch.idx[block]
	if !ok {
		return nil, fmt.Errorf("unknown block %q", block)
	}
	out := []string{}
	for {
		b = ch.cfg.parent[b]
		if b < 0 {
			return nil, fmt.Errorf("block not descendant of base")
		}
		if ch.cfg.hash[b] == base {
			return out, nil
		}
		out = append(out, ch.cfg.hash[b])
	}
}

func (ch *c20Chain) IsEqualOrDescendantOf(base, block string) bool {
	a, ok1 := ch.idx[base]
	b, ok2 := ch.idx[block]
	return ok1 && ok2 && ch.cfg.isAnc(a, b)
}

// ---------------------------------------------------------------- state, ops

type c20Round = Round[string, string, uint32, string]

type c20State struct {
	cfg   *c20Cfg
	chain *c20Chain
	r     *c20Round
	// model: per phase, per voter: distinct votes in arrival order (at most the first two are kept,
	// a voter with two entries is an equivocator; later votes change nothing by the definitions)
	votes [2][][]int
	acted []bool
}

type c20Op struct {
	kind  int // 0 prevote, 1 precommit, 2 PrecommitGHOST()
	voter int
	block int
	name  string
}

func (o c20Op) Name() string { return o.name }

func c20Fresh(c *c20Cfg) *c20State {
	s := &c20State{cfg: c, chain: c.chain, acted: make([]bool, len(c.ids))}
	s.r = NewRound[string, string, uint32, string](RoundParams[string, string, uint32]{
		RoundNumber: 1, Voters: *c.voters, Base: HashNumber[string, uint32]{Hash: c.hash[0], Number: c.baseNum},
	})
	s.votes[0] = make([][]int, len(c.ids))
	s.votes[1] = make([][]int, len(c.ids))
	return s
}

func c20AllOps(c *c20Cfg) []c20Op {
	var ops []c20Op
	for _, v := range c.active {
		for kind := 0; kind < 2; kind++ {
			for b := range c.parent {
				ops = append(ops, c20Op{kind: kind, voter: v, block: b,
					name: fmt.Sprintf("%s(%s,%s)", [2]string{"prevote", "precommit"}[kind], c.ids[v], c.hash[b])})
			}
		}
	}
	if c.ghostOp {
		ops = append(ops, c20Op{kind: 2, name: "PrecommitGHOST()"})
	}
	return ops
}

// c20Enabled: without beyondF, votes that push the equivocator weight of a phase above f are not
// explored (outside the fault assumption; the beyondF configurations execute them).  With symm, a voter that has not acted yet may act only if every lower active voter
// of the same weight has acted (every history is a renaming of exactly one such history).
func c20Enabled(s *c20State, all []c20Op) []verifmc.Op {
	c := s.cfg
	out := make([]verifmc.Op, 0, len(all))
	for _, o := range all {
		if c.symm && o.kind != 2 && !s.acted[o.voter] {
			blocked := false
			for _, u := range c.active {
				if u < o.voter && c.weights[u] == c.weights[o.voter] && !s.acted[u] {
					blocked = true
					break
				}
			}
			if blocked {
				continue
			}
		}
		if !c.beyondF && o.kind != 2 {
			// a vote that would make a new equivocator is enabled only while the phase's equivocator weight stays <= f
			vv := s.votes[o.kind][o.voter]
			if len(vv) == 1 && vv[0] != o.block {
				_, eqv := c.refSeenEqv(s.votes[o.kind])
				if eqv+c.weights[o.voter] > c.f {
					continue
				}
			}
		}
		out = append(out, o)
	}
	return out
}

func c20Sigstr(o c20Op) string { return "sig:" + o.name }

func c20Apply(s *c20State, o c20Op) string {
	c := s.cfg
	switch o.kind {
	case 0:
		res, err := s.r.importPrevote(s.chain, Prevote[string, uint32]{TargetHash: c.hash[o.block], TargetNumber: c.num(o.block)}, c.ids[o.voter], c20Sigstr(o))
		if err != nil || res == nil {
			return fmt.Sprintf("import-error: importPrevote of a vote for a block of the tree failed: %v", err)
		}
		if !res.ValidVoter {
			return "import-error: importPrevote says a set member is not a valid voter"
		}
	case 1:
		res, err := s.r.importPrecommit(s.chain, Precommit[string, uint32]{TargetHash: c.hash[o.block], TargetNumber: c.num(o.block)}, c.ids[o.voter], c20Sigstr(o))
		if err != nil || res == nil {
			return fmt.Sprintf("import-error: importPrecommit of a vote for a block of the tree failed: %v", err)
		}
		if !res.ValidVoter {
			return "import-error: importPrecommit says a set member is not a valid voter"
		}
	case 2:
		s.r.PrecommitGHOST()
		return ""
	}
	s.acted[o.voter] = true
	vv := s.votes[o.kind][o.voter]
	known := false
	for _, b := range vv {
		if b == o.block {
			known = true
		}
	}
	if !known && len(vv) < 2 {
		s.votes[o.kind][o.voter] = append(vv, o.block)
	}
	return ""
}

// ---------------------------------------------------------------- reference

type c20Expect struct {
	seen        [2]uint64
	eqv         [2]uint64
	ghost       [2]int // -1 none, -2 skipped (supermajority blocks are not a chain)
	finalized   int    // -1 none, -2 skipped
	estimate    int    // -1 none, -2 skipped
	completable int    // 0 false, 1 true, -2 skipped
	skipIdx     []int
}

func (c *c20Cfg) refW(votes [][]int, b int) uint64 {
	var w uint64
	for v, vv := range votes {
		switch {
		case len(vv) >= 2:
			w += c.weights[v]
		case len(vv) == 1 && c.isAnc(b, vv[0]):
			w += c.weights[v]
		}
	}
	return w
}

func (c *c20Cfg) refSeenEqv(votes [][]int) (seen, eqv uint64) {
	for v, vv := range votes {
		if len(vv) >= 1 {
			seen += c.weights[v]
		}
		if len(vv) >= 2 {
			eqv += c.weights[v]
		}
	}
	return
}

// refGhost: the highest block with W >= t; -1 if none; -2 if those blocks are not a chain.
func (c *c20Cfg) refGhost(votes [][]int) int {
	best := -1
	var sm []int
	for b := range c.parent {
		if c.refW(votes, b) >= c.t {
			sm = append(sm, b)
			if best < 0 || c.depthOf[b] > c.depthOf[best] {
				best = b
			}
		}
	}
	for _, b := range sm {
		if !c.isAnc(b, best) {
			return -2
		}
	}
	return best
}

func (c *c20Cfg) refPossible(pc [][]int, b int, eqv uint64) bool {
	var elsewhere uint64
	for v, vv := range pc {
		if len(vv) == 1 && !c.isAnc(b, vv[0]) {
			elsewhere += c.weights[v]
		}
	}
	return elsewhere+eqv <= 2*c.f
}

func (c *c20Cfg) reference(votes [2][][]int) c20Expect {
	var e c20Expect
	for p := 0; p < 2; p++ {
		e.seen[p], e.eqv[p] = c.refSeenEqv(votes[p])
		e.ghost[p] = c.refGhost(votes[p])
		if e.eqv[p] >= c.t {
			// every block, seen or unseen, of the open-ended tree has a supermajority: "the highest" does not exist
			e.ghost[p] = -2
			e.skipIdx = append(e.skipIdx, c20SkPvEqvAll+p)
		} else if e.ghost[p] == -2 {
			e.skipIdx = append(e.skipIdx, c20SkPvChain+p)
		}
	}
	g := e.ghost[0]
	switch {
	case g == -2:
		e.finalized, e.estimate, e.completable = -2, -2, -2
		return e
	case g == -1:
		e.finalized, e.estimate, e.completable = -1, -1, -2 // nothing is defined before a prevote-GHOST exists
		return e
	}
	// finalized
	e.finalized = -1
	if e.seen[1] >= c.t {
		for b := g; b >= 0; b = c.parent[b] {
			if c.refW(votes[1], b) >= c.t {
				e.finalized = b
				break
			}
		}
	}
	// estimate / completable
	if e.eqv[1] > c.f {
		e.estimate, e.completable = -2, -2
		e.skipIdx = append(e.skipIdx, c20SkPcEqvF)
		return e
	}
	if e.seen[1] < c.t {
		e.estimate = g
		if e.seen[1] <= 2*c.f {
			e.completable = 0 // an unseen child of g could still get a supermajority
		} else {
			e.estimate, e.completable = -2, -2
			e.skipIdx = append(e.skipIdx, c20SkWindow)
		}
		return e
	}
	e.estimate = -1
	for b := g; b >= 0; b = c.parent[b] {
		if c.refPossible(votes[1], b, e.eqv[1]) {
			e.estimate = b
			break
		}
	}
	if e.estimate != g {
		if e.estimate == -1 {
			e.completable = -2 // cannot happen with equivocator weight <= f (base is always possible)
			e.skipIdx = append(e.skipIdx, c20SkNoPossible)
		} else {
			e.completable = 1
		}
		return e
	}
	e.completable = 1
	for b := range c.parent {
		if b != g && c.isAnc(g, b) && c.refPossible(votes[1], b, e.eqv[1]) {
			e.completable = 0
		}
	}
	return e
}

// ---------------------------------------------------------------- comparison

func (c *c20Cfg) blockOf(hn *HashNumber[string, uint32]) (int, string) {
	if hn == nil {
		return -1, ""
	}
	for i, h := range c.hash {
		if h == hn.Hash {
			if hn.Number != c.num(i) {
				return i, fmt.Sprintf("block %s reported with number %d, is %d", h, hn.Number, c.num(i))
			}
			return i, ""
		}
	}
	return -3, fmt.Sprintf("unknown block %q", hn.Hash)
}

func (c *c20Cfg) bname(i int) string {
	if i < 0 {
		return "none"
	}
	return c.hash[i]
}

// relation of the implementation's block to the reference block: the shape of the mismatch
func (c *c20Cfg) rel(impl, ref int) string {
	switch {
	case impl == -1:
		return "impl-none-ref-defined"
	case ref == -1:
		return "impl-defined-ref-none"
	case impl < 0:
		return "impl-unknown-block"
	case c.isAnc(impl, ref):
		return "impl-lower-than-ref"
	case c.isAnc(ref, impl):
		return "impl-higher-than-ref"
	default:
		return "impl-on-another-branch"
	}
}

func (s *c20State) votesString() string {
	var sb strings.Builder
	for p := 0; p < 2; p++ {
		sb.WriteString([2]string{"prevotes{", " precommits{"}[p])
		for v, vv := range s.votes[p] {
			if len(vv) == 0 {
				continue
			}
			sb.WriteString(s.cfg.ids[v] + ":")
			for i, b := range vv {
				if i > 0 {
					sb.WriteString("+")
				}
				sb.WriteString(s.cfg.hash[b])
			}
			sb.WriteString(" ")
		}
		sb.WriteString("}")
	}
	return sb.String()
}

// outcome classes are counted with atomics (a mutex per evaluation serialises 16 workers) and
// written to the report at the end.
var c20SkipNames = []string{
	"skip:prevote-supermajority-blocks-not-a-chain", "skip:precommit-supermajority-blocks-not-a-chain",
	"skip:prevote-equivocators-alone-are-a-supermajority", "skip:precommit-equivocators-alone-are-a-supermajority",
	"skip:precommit-equivocator-weight-exceeds-f", "skip:weighted-window-2f<seen-precommits<t", "skip:no-possible-block",
	"shortcut:prevote-ghost-is-not-a-vote-node", "shortcut:equivocation-bitfield-longer-than-node-bitfield",
	"shortcut:node-bitfield-longer-than-equivocation-bitfield", "nontrivial:both-phases-at-threshold",
}

const (
	c20SkPvChain = iota
	c20SkPcChain
	c20SkPvEqvAll
	c20SkPcEqvAll
	c20SkPcEqvF
	c20SkWindow
	c20SkNoPossible
	c20ShGhostNotNode
	c20ShEqvLonger
	c20ShNodeLonger
	c20NonTrivial
)

var c20SkipCount [16]atomic.Int64
var c20ClassCount [1024]atomic.Int64

func c20FlushOutcomes(r *verifmc.Report) {
	for i, n := range c20SkipNames {
		if v := c20SkipCount[i].Load(); v > 0 {
			r.Outcomes[n] += v
		}
	}
	r.Add("nontrivial_evaluations_both_phases_at_threshold", c20SkipCount[c20NonTrivial].Load())
	for code := range c20ClassCount {
		v := c20ClassCount[code].Load()
		if v == 0 {
			continue
		}
		b := func(k int) bool { return code>>k&1 == 1 }
		est := [4]string{"est-skipped", "est=g", "est<g", "est-none"}[code>>4&3]
		compl := [4]string{"compl-skipped", "compl=false", "compl=true", "?"}[code>>6&3]
		r.Outcomes[fmt.Sprintf("g=%v fin=%v pcghost=%v %s %s eqv=%v/%v", b(0), b(1), b(8), est, compl, b(2), b(3))] += v
	}
}

// c20Check compares every observer with the reference.  The returned string starts with the signature.
func c20Check(s *c20State, r *verifmc.Report) string {
	c := s.cfg
	e := c.reference(s.votes)
	for _, k := range e.skipIdx {
		c20SkipCount[k].Add(1)
	}
	st := s.r.State()
	pcg := s.r.PrecommitGHOST()
	ctx := func() string {
		return fmt.Sprintf(" [%s; T=%d t=%d f=%d; %s]", c.describe(), c.T, c.t, c.f, s.votesString())
	}
	eqvTag := func(p int) string {
		if e.eqv[p] > 0 {
			return ":with-equivocation"
		}
		return ""
	}
	// participation weights
	if w, _ := s.r.PrevoteParticipation(); uint64(w) != e.seen[0] {
		return fmt.Sprintf("participation:prevote-weight-wrong|impl %d, reference %d%s", w, e.seen[0], ctx())
	}
	if w, _ := s.r.PrecommitParticipation(); uint64(w) != e.seen[1] {
		return fmt.Sprintf("participation:precommit-weight-wrong|impl %d, reference %d%s", w, e.seen[1], ctx())
	}
	type cmp struct {
		what string
		impl *HashNumber[string, uint32]
		ref  int
		tag  string
	}
	for _, x := range []cmp{
		{"prevote-ghost", st.PrevoteGHOST, e.ghost[0], eqvTag(0)},
		{"precommit-ghost", pcg, e.ghost[1], eqvTag(1)},
		{"finalized", st.Finalized, e.finalized, eqvTag(1)},
		{"estimate", st.Estimate, e.estimate, eqvTag(1)},
	} {
		if x.ref == -2 {
			continue
		}
		ib, bad := c.blockOf(x.impl)
		if bad != "" {
			return fmt.Sprintf("%s:bad-block|%s%s", x.what, bad, ctx())
		}
		if ib != x.ref {
			return fmt.Sprintf("%s:%s%s|impl %s, reference %s%s", x.what, c.rel(ib, x.ref), x.tag, c.bname(ib), c.bname(x.ref), ctx())
		}
	}
	if e.completable != -2 {
		if st.Completable != (e.completable == 1) {
			dir := "impl-false-ref-true"
			if st.Completable {
				dir = "impl-true-ref-false"
			}
			return fmt.Sprintf("completable:%s%s|estimate %s prevote-ghost %s%s", dir, eqvTag(1), c.bname(e.estimate), c.bname(e.ghost[0]), ctx())
		}
		if st.Completable != s.r.Completable() {
			return "completable:State-and-Completable-differ|" + ctx()
		}
	}
	// anti-vacuity classes
	code := 0
	set := func(k int, v bool) {
		if v {
			code |= 1 << k
		}
	}
	set(0, e.ghost[0] >= 0)
	set(1, e.finalized >= 0)
	set(2, e.eqv[0] > 0)
	set(3, e.eqv[1] > 0)
	set(8, e.ghost[1] >= 0)
	switch {
	case e.estimate == -2:
	case e.estimate == -1:
		code |= 3 << 4
	case e.estimate == e.ghost[0]:
		code |= 1 << 4
	default:
		code |= 2 << 4
	}
	if e.completable >= 0 {
		code |= (e.completable + 1) << 6
	}
	c20ClassCount[code].Add(1)
	if e.ghost[0] >= 0 {
		if _, isNode := s.r.graph.entries.Get(c.hash[e.ghost[0]]); !isNode {
			c20SkipCount[c20ShGhostNotNode].Add(1)
		}
		if e.seen[1] >= c.t {
			c20SkipCount[c20NonTrivial].Add(1)
		}
	}
	if le := len(s.r.context.equivocations.bits); le > 0 {
		longer, shorter := false, false
		s.r.graph.entries.Scan(func(_ string, en voteGraphEntry[string, uint32, *voteNode[string], vote[string]]) bool {
			ln := len(en.cumulativeVote.bits.bits)
			longer = longer || le > ln
			shorter = shorter || ln > le
			return true
		})
		if longer {
			c20SkipCount[c20ShEqvLonger].Add(1)
		}
		if shorter {
			c20SkipCount[c20ShNodeLonger].Add(1)
		}
	}
	return ""
}

// ---------------------------------------------------------------- canonical dump of the private state

func c20HN(b []byte, hn *HashNumber[string, uint32]) []byte {
	if hn == nil {
		return append(b, "nil;"...)
	}
	b = append(b, hn.Hash...)
	b = append(b, '#')
	b = strconv.AppendUint(b, uint64(hn.Number), 10)
	return append(b, ';')
}

func c20Words(b []byte, w []uint64) []byte {
	b = append(b, '[')
	for _, x := range w {
		b = strconv.AppendUint(b, x, 16)
		b = append(b, ',')
	}
	return append(b, ']')
}

func c20Strs(b []byte, ss []string) []byte {
	b = append(b, '[')
	for _, x := range ss {
		b = append(b, x...)
		b = append(b, ',')
	}
	return append(b, ']')
}

func c20VM(b []byte, v any) []byte {
	switch x := v.(type) {
	case single[Prevote[string, uint32], string]:
		b = append(b, x.Vote.TargetHash...)
		b = append(b, '/')
		b = append(b, x.Signature...)
	case equivocated[Prevote[string, uint32], string]:
		for _, y := range x {
			b = append(b, y.Vote.TargetHash...)
			b = append(b, '/')
			b = append(b, y.Signature...)
			b = append(b, '+')
		}
	case single[Precommit[string, uint32], string]:
		b = append(b, x.Vote.TargetHash...)
		b = append(b, '/')
		b = append(b, x.Signature...)
	case equivocated[Precommit[string, uint32], string]:
		for _, y := range x {
			b = append(b, y.Vote.TargetHash...)
			b = append(b, '/')
			b = append(b, y.Signature...)
			b = append(b, '+')
		}
	default:
		panic("c20: unknown multiplicity value")
	}
	return append(b, ';')
}

// c20Canon dumps every private field the explored methods read.  historicalVotes (the
// import-order log) is deliberately not part of the dump: no method explored here reads it (it is
// only returned by HistoricalVotes()).
func c20Canon(s *c20State) []byte {
	b := make([]byte, 0, 512)
	r := s.r
	b = append(b, "eq"...)
	b = c20Words(b, r.context.equivocations.bits)
	b = append(b, "|graph:"...)
	r.graph.entries.Scan(func(h string, e voteGraphEntry[string, uint32, *voteNode[string], vote[string]]) bool {
		b = append(b, h...)
		b = append(b, '#')
		b = strconv.AppendUint(b, uint64(e.number), 10)
		b = append(b, 'a')
		b = c20Strs(b, e.ancestors)
		b = append(b, 'd')
		b = c20Strs(b, e.descendants)
		b = append(b, 'c')
		b = c20Words(b, e.cumulativeVote.bits.bits)
		b = append(b, ';')
		return true
	})
	b = append(b, "heads"...)
	b = c20Strs(b, r.graph.heads.Keys())
	b = append(b, "base"...)
	b = append(b, r.graph.base...)
	b = strconv.AppendUint(b, uint64(r.graph.baseNumber), 10)
	b = append(b, "|pv:"...)
	r.prevotes.votes.Scan(func(id string, vm voteMultiplicity[Prevote[string, uint32], string]) bool {
		b = append(b, id...)
		b = append(b, '=')
		b = c20VM(b, vm.value)
		return true
	})
	b = append(b, 'w')
	b = strconv.AppendUint(b, uint64(r.prevotes.currentWeight), 10)
	b = append(b, "|pc:"...)
	r.precommits.votes.Scan(func(id string, vm voteMultiplicity[Precommit[string, uint32], string]) bool {
		b = append(b, id...)
		b = append(b, '=')
		b = c20VM(b, vm.value)
		return true
	})
	b = append(b, 'w')
	b = strconv.AppendUint(b, uint64(r.precommits.currentWeight), 10)
	b = append(b, '|')
	b = c20HN(b, r.prevoteGhost)
	b = c20HN(b, r.precommitGhost)
	b = c20HN(b, r.finalized)
	b = c20HN(b, r.estimate)
	if r.completable {
		b = append(b, 'C')
	}
	b = append(b, "|model"...)
	for p := 0; p < 2; p++ {
		for _, vv := range s.votes[p] {
			for _, x := range vv {
				b = append(b, byte('0'+x))
			}
			b = append(b, ',')
		}
		b = append(b, '/')
	}
	for _, a := range s.acted {
		if a {
			b = append(b, '1')
		} else {
			b = append(b, '0')
		}
	}
	return b
}

// ---------------------------------------------------------------- configurations

func c20Ids(n int) []string {
	ids := make([]string, n)
	for i := range ids {
		ids[i] = fmt.Sprintf("v%02d", i)
	}
	return ids
}

func c20Seq(n int) []int {
	s := make([]int, n)
	for i := range s {
		s[i] = i
	}
	return s
}

// c20Labelings: node i gets hash letters[perm[i]].
func c20Hashes(perm []int) []string {
	h := make([]string, len(perm))
	for i, p := range perm {
		h[i] = string(rune('a' + p))
	}
	return h
}

// c20Shape is a canonical code of the unlabelled rooted tree (sorted child codes).
func c20Shape(parent []int) string {
	var code func(i int) string
	code = func(i int) string {
		var cs []string
		for j, p := range parent {
			if p == i {
				cs = append(cs, code(j))
			}
		}
		sort.Strings(cs)
		return "(" + strings.Join(cs, "") + ")"
	}
	return code(0)
}

type c20VoterCfg struct {
	name    string
	weights []uint64
	active  []int
}

type c20Plan struct {
	vc      c20VoterCfg
	depth   int
	symm    bool
	ghostOp bool
	beyondF bool
	labs    string // "all" hash orders, "idrev" (identity and reversed), "id", "other" (all but identity and reversed)
	shapes  bool   // only the first labelled tree of every unlabelled shape
}

func c20Configs() []*c20Cfg {
	thorough := verifmc.Thorough()
	var out []*c20Cfg
	v4 := c20VoterCfg{"4x1", []uint64{1, 1, 1, 1}, c20Seq(4)}
	v211 := c20VoterCfg{"2+1+1", []uint64{2, 1, 1}, c20Seq(3)}
	v3 := c20VoterCfg{"3x1", []uint64{1, 1, 1}, c20Seq(3)}
	v2111 := c20VoterCfg{"2+1+1+1", []uint64{2, 1, 1, 1}, c20Seq(4)}
	// T=4 f=1 t=3: the weight-3 voter alone is a supermajority, the weight-1 voter may equivocate within f
	v31 := c20VoterCfg{"3+1", []uint64{3, 1}, c20Seq(2)}
	// 35 voters: the four active ones sit at positions 0, 31, 32, 34 (bit words 0 and 1 of the
	// bitfields), weight 100 each; 31 fillers of weight 1 never vote.  T=431 f=143 t=288: three
	// active voters reach the threshold, one active equivocator is tolerated.
	wide := c20VoterCfg{name: "wide35", weights: make([]uint64, 35), active: []int{0, 31, 32, 34}}
	for i := range wide.weights {
		wide.weights[i] = 1
	}
	for _, a := range wide.active {
		wide.weights[a] = 100
	}
	var plans map[int][]c20Plan
	if !thorough {
		plans = map[int][]c20Plan{
			1: {{v4, 8, true, false, true, "id", false}, {v211, 7, false, true, true, "id", false}, {v3, 6, false, false, true, "id", false}, {wide, 7, true, false, true, "id", false}},
			2: {{v4, 7, true, false, true, "idrev", false}, {v211, 7, false, true, true, "idrev", false}, {v3, 6, false, false, true, "idrev", false}, {wide, 6, true, false, true, "idrev", false}},
			3: {{v211, 6, false, false, false, "idrev", false}, {v211, 5, false, true, true, "other", false}, {v4, 6, true, false, false, "id", false}, {wide, 6, true, false, false, "id", false}},
			4: {{v211, 5, true, false, false, "id", false}, {v31, 6, false, false, false, "idrev", false}},
			5: {{v31, 5, false, false, false, "id", true}, {v31, 4, false, false, false, "idrev", false}},
		}
	} else {
		plans = map[int][]c20Plan{
			1: {{v4, 9, false, true, true, "id", false}, {v211, 8, false, true, true, "id", false}, {v3, 7, false, false, true, "id", false}, {wide, 8, true, false, true, "id", false}, {v2111, 8, false, false, true, "id", false}},
			2: {{v4, 8, true, false, true, "idrev", false}, {v211, 8, false, true, true, "idrev", false}, {v3, 7, false, false, true, "idrev", false}, {wide, 7, true, false, true, "idrev", false}, {v2111, 7, true, false, true, "idrev", false}},
			3: {{v211, 7, false, false, false, "all", false}, {v211, 6, false, true, true, "all", false}, {v4, 7, true, false, false, "idrev", false}, {v4, 6, false, false, true, "id", false}, {wide, 7, true, false, false, "idrev", false}, {v2111, 7, true, false, false, "idrev", false}},
			4: {{v211, 6, true, false, false, "all", false}, {v211, 6, false, true, true, "id", false}, {v4, 7, true, false, false, "id", false}, {wide, 6, true, false, false, "id", true}, {v2111, 6, true, false, false, "id", true}},
			5: {{v211, 6, true, false, false, "idrev", false}, {v4, 6, true, false, false, "id", true}, {v31, 6, false, false, false, "idrev", false}},
		}
	}
	for n := 1; n <= 5; n++ {
		seenShape := map[string]bool{}
		verifmc.ParentVectors(n, func(parent []int) {
			firstOfShape := !seenShape[c20Shape(parent)]
			seenShape[c20Shape(parent)] = true
			type lab struct {
				perm []int
				name string
			}
			var labs []lab
			verifmc.Permutations(n, func(p []int) {
				labs = append(labs, lab{append([]int{}, p...), fmt.Sprintf("perm%v", p)})
			})
			for _, pl := range plans[n] {
				if pl.shapes && !firstOfShape {
					continue
				}
				for _, l := range labs {
					isID, isRev := true, n >= 2
					for i, x := range l.perm {
						isID = isID && x == i
						isRev = isRev && x == n-1-i
					}
					switch pl.labs {
					case "id":
						if !isID {
							continue
						}
					case "idrev":
						if !isID && !isRev {
							continue
						}
					case "other":
						if isID || isRev {
							continue
						}
					}
					c := &c20Cfg{
						name:    fmt.Sprintf("tree%v/%s/%s/d%d", parent, l.name, pl.vc.name, pl.depth),
						parent:  append([]int{}, parent...),
						hash:    c20Hashes(l.perm),
						ids:     c20Ids(len(pl.vc.weights)),
						weights: pl.vc.weights, active: pl.vc.active, symm: pl.symm, depth: pl.depth,
						ghostOp: pl.ghostOp, beyondF: pl.beyondF, baseNum: 1,
					}
					if pl.beyondF {
						c.name += "/beyondF"
					}
					if pl.symm {
						c.name += "/symm"
					}
					out = append(out, c.finish())
				}
			}
		})
	}
	// six blocks: the smallest trees in which two vote-nodes at depth 2 pass through the same child of the
	// round base while a third passes through its sibling (root->F->{FA,FB}, root->E->EA and its mirror): the
	// vote graph then merges per-child weights of several vote-nodes; both hash orders of the children
	for _, parent := range [][]int{{-1, 0, 1, 1, 0, 4}, {-1, 0, 1, 0, 3, 3}} {
		for _, perm := range [][]int{{0, 1, 2, 3, 4, 5}, {5, 4, 3, 2, 1, 0}} {
			c := &c20Cfg{
				name:    fmt.Sprintf("tree%v/perm%v/%s/d%d/symm", parent, perm, v4.name, verifmc.Pick(4, 6)),
				parent:  append([]int{}, parent...),
				hash:    c20Hashes(perm),
				ids:     c20Ids(len(v4.weights)),
				weights: v4.weights, active: v4.active, symm: true, depth: verifmc.Pick(4, 6), baseNum: 1,
			}
			out = append(out, c.finish())
		}
	}
	return out
}

// ---------------------------------------------------------------- test

func TestVerif_C20(t *testing.T) {
	r := verifmc.NewReport("C20", "round-state", "model_checking")
	defer r.Write()
	r.Rule = "per configuration (block tree as parent vector x hash labelling x voter-weight vector): BFS over all histories of importPrevote/importPrecommit calls (any active voter, any block of the tree, incl. duplicates, equivocations, third votes) up to the configuration's depth on a fresh real Round, states merged on a dump of the Round's private state (vote graph entries with ancestor/descendant lists and bitfields, trackers, equivocation bitfield, memoised ghost/finalized/estimate/completable); in every state State(), PrecommitGHOST(), Completable() and participation weights are compared with the reference over explicit weights; a case is non-trivial when both phases have reached the threshold"
	r.Assumption("votes are for blocks of the tree with their correct numbers, one signature per (voter, vote); round base = tree root")
	r.Assumption("configurations marked symm explore histories up to renaming of equal-weight voters (new voters appear in id order); configurations not marked beyondF do not explore votes that raise a phase's equivocator weight above f")
	cfgs := c20Configs()
	only := os.Getenv("C20_ONLY")
	r.Extra["configurations"] = len(cfgs)
	perCfg := map[string]any{}
	defer c20FlushOutcomes(r)
	for _, c := range cfgs {
		if only != "" && !strings.Contains(c.name, only) {
			continue
		}
		if r.Expired() {
			r.Capped("deadline before configuration " + c.name)
			break
		}
		c := c
		all := c20AllOps(c)
		before, beforeT, nv := r.Counters["states"], r.Counters["transitions"], len(r.Violations)
		h := &verifmc.Hist[*c20State]{
			Fresh: func() *c20State { return c20Fresh(c) },
			Ops:   func(s *c20State) []verifmc.Op { return c20Enabled(s, all) },
			Apply: func(s *c20State, op verifmc.Op) string { return c20Apply(s, op.(c20Op)) },
			Check: func(s *c20State) string { return c20Check(s, r) },
			Canon: c20Canon,
			Sig: func(hist []verifmc.Op, desc string) string {
				if strings.HasPrefix(desc, "panic:") {
					return "panic:" + verifmc.PanicSite(desc)
				}
				if i := strings.Index(desc, "|"); i > 0 {
					return desc[:i]
				}
				if i := strings.Index(desc, ":"); i > 0 {
					return desc[:i]
				}
				return "wrong-result"
			},
			Depth: c.depth,
		}
		h.Explore(r)
		// a history alone does not identify the case: store the configuration with it
		for i := nv; i < len(r.Violations); i++ {
			r.Violations[i].Replay = map[string]any{"configuration": c.describe(), "history": r.Violations[i].Replay}
		}
		perCfg[c.name] = []int64{r.Counters["states"] - before, r.Counters["transitions"] - beforeT}
		if only != "" {
			t.Logf("%s states=%d transitions=%d", c.name, r.Counters["states"]-before, r.Counters["transitions"]-beforeT)
		}
	}
	r.Extra["per_configuration_states_transitions"] = perCfg
}
