//go:build verif

package inmemory

// C01: State root equals the spec Merkle root of the state content.
// Explicit-state search over put/delete/hash histories on the real InMemoryTrie,
// V0 and V1, oracle = ref.TrieRoot (independent spec implementation).

import (
	"bytes"
	"fmt"
	"testing"

	"github.com/ChainSafe/gossamer/internal/verifmc"
	"github.com/ChainSafe/gossamer/internal/verifmc/ref"
	"github.com/ChainSafe/gossamer/pkg/trie"
)

func c01Keys(family string) [][]byte {
	switch family {
	case "short":
		// empty key, key that is a prefix of another, shared nibble prefixes, zero low nibble
		return [][]byte{{}, {0x00}, {0x01}, {0x10}, {0x00, 0x00}, {0x00, 0x01}, {0x01, 0x00}, {0x10, 0x00}, {0x00, 0x00, 0x00}}
	case "long":
		// partial keys of 62..66 nibbles and 63+255±1 nibbles: keys share all but the last byte
		var ks [][]byte
		for _, n := range []int{31, 32, 33, 159, 160} {
			base := bytes.Repeat([]byte{0xab}, n)
			a := append([]byte{}, base...)
			b := append([]byte{}, base...)
			b[n-1] = 0xac
			c := append(append([]byte{}, base...), 0x01)
			ks = append(ks, a, b, c)
		}
		return ks
	}
	panic(family)
}

// c01Seeds: populated start states (explored in addition to the empty trie, so that shapes needing 4-5
// operations to build - a valued branch below a branch, three siblings, nested prefix keys - are one
// or two operations away from the start).  Each is built by puts in the listed order.
var c01Seeds = map[string][]vTrieOp{
	"nested-valued-branch": {{kind: "put", k: []byte{0x00}, v: vVal(0x33, 33)}, {kind: "put", k: []byte{0x00, 0x00}, v: []byte{0x01}}, {kind: "put", k: []byte{0x00, 0x01}, v: []byte{0x01}}, {kind: "put", k: []byte{0x01}, v: []byte{0x01}}},
	"empty-key-root-value": {{kind: "put", k: []byte{}, v: vVal(0x33, 33)}, {kind: "put", k: []byte{0x00}, v: vVal(0x32, 32)}, {kind: "put", k: []byte{0x00, 0x00}, v: []byte{0x01}}, {kind: "put", k: []byte{0x10, 0x00}, v: []byte{0x01}}},
	"two-hashed-siblings":  {{kind: "put", k: []byte{0x10}, v: vVal(0x33, 33)}, {kind: "put", k: []byte{0x10, 0x00}, v: vVal(0x33, 33)}, {kind: "put", k: []byte{0x01}, v: []byte{0x01}}, {kind: "put", k: []byte{0x01, 0x00}, v: vVal(0x31, 31)}},
}

func c01Explore(t *testing.T, r *verifmc.Report, family string, ver trie.TrieLayout, depth int) {
	c01ExploreFrom(t, r, family, ver, depth, "", false)
}

func c01ExploreFrom(t *testing.T, r *verifmc.Report, family string, ver trie.TrieLayout, depth int, seed string, hashed bool) {
	generations := family == "generations"
	if generations {
		// the node works on Snapshot()s of the previous block's trie: the same histories with a
		// "snapshot" step (continue on trie.Snapshot(): copy-on-write of older-generation nodes) and two
		// DIFFERENT values above the hashing threshold (a hashed value overwritten by another one)
		family = "short"
	}
	keys := c01Keys(family)
	vals := [][]byte{{}, {0x01}, vVal(0x31, 31), vVal(0x32, 32), vVal(0x33, 33)}
	if family == "long" {
		vals = [][]byte{{0x01}, vVal(0x33, 33)}
	}
	if generations {
		vals = [][]byte{{0x01}, vVal(0x33, 33), vVal(0x34, 34)}
	}
	var ops []verifmc.Op
	for _, k := range keys {
		for _, v := range vals {
			ops = append(ops, vTrieOp{kind: "put", k: k, v: v})
		}
	}
	for _, k := range keys {
		ops = append(ops, vTrieOp{kind: "delete", k: k})
	}
	ops = append(ops, vTrieOp{kind: "hash"})
	if generations {
		ops = append(ops, vTrieOp{kind: "snapshot"})
	}
	h := &verifmc.Hist[*vTrieState]{
		Fresh: func() *vTrieState {
			tr := NewEmptyTrie()
			tr.SetVersion(ver)
			st := &vTrieState{t: tr, m: ref.OMap{}, v: ver}
			for _, o := range c01Seeds[seed] {
				if d := vApplyTrieOp(st, o); d != "" {
					panic("seed state: " + d)
				}
			}
			if hashed { // start with all Merkle values cached
				if d := vApplyTrieOp(st, vTrieOp{kind: "hash"}); d != "" {
					panic("seed state: " + d)
				}
			}
			st.soft = nil
			return st
		},
		Ops:   func(s *vTrieState) []verifmc.Op { return ops },
		Apply: func(s *vTrieState, op verifmc.Op) string {
			if op.(vTrieOp).kind == "snapshot" {
				s.t = s.t.Snapshot()
				return ""
			}
			return vApplyTrieOp(s, op.(vTrieOp))
		},
		Check: func(s *vTrieState) string {
			if d := vDescendantsOK(s.t.root); d != "" {
				return "Descendants: " + d
			}
			if d := vCheckContents(s.t, s.m); d != "" {
				return d
			}
			if d := vCheckRoot(s.t, s.m, s.v); d != "" {
				return d
			}
			// the root a user gets by building a fresh trie from the entries, in two orders
			if len(s.m) <= 4 {
				ks := s.m.Keys()
				for _, rev := range []bool{false, true} {
					var es trie.Entries
					for i := range ks {
						k := ks[i]
						if rev {
							k = ks[len(ks)-1-i]
						}
						es = append(es, trie.Entry{Key: []byte(k), Value: s.m[k]})
					}
					got, err := ver.Root(NewEmptyTrie(), es)
					if err != nil {
						return "Layout.Root: " + err.Error()
					}
					if want := ref.TrieRoot(s.m, vVersionInt(ver)); !bytes.Equal(got[:], want) {
						return fmt.Sprintf("Layout.Root: %x, spec root %x for %s", got[:], want, vMapString(s.m))
					}
				}
			}
			r.Outcome(fmt.Sprintf("entries=%d", len(s.m)))
			return ""
		},
		Canon: func(s *vTrieState) []byte { return append(vDumpTrie(s.t), s.m.Canon()...) },
		Sig:   vSigOf,
		Soft:  vDrainSoft,
		Depth: depth,
	}
	h.Explore(r)
}

func TestVerif_C01(t *testing.T) {
	r := verifmc.NewReport("C01", "inmemory-root", "model_checking")
	defer r.Write()
	r.Rule = "BFS over put/delete/hash histories on the real InMemoryTrie for V0 and V1; short-key alphabet (9 keys x 5 values incl. 31/32/33 bytes) and long-key alphabet (15 keys with 62..66 and 318..322 nibble partial keys); also from 3 populated start states (nested valued branch, empty-key root value, hashed siblings; each with and without cached Merkle values), and from the same start states histories with a Snapshot() step (continue on the copy-on-write snapshot, as the node does per block) and two different values above the hashing threshold; states deduplicated on the full private node dump; every state compared with the independent spec root, Entries, Descendants, and Layout.Root in two insertion orders"
	// sanity of the reference itself against constants that do not come from the code under test
	if got := fmt.Sprintf("%x", ref.TrieRoot(map[string][]byte{}, 0)); got != "03170a2e7597b7b7e3d84c05391d139a62b157e78786d8c082f29dcf4c111314" {
		t.Fatalf("reference empty root wrong: %s", got)
	}
	dShort := verifmc.Pick(3, 5)
	dLong := verifmc.Pick(3, 4)
	dSeed := verifmc.Pick(2, 4)
	for _, ver := range []trie.TrieLayout{trie.V0, trie.V1} {
		c01Explore(t, r, "short", ver, dShort)
		c01Explore(t, r, "long", ver, dLong)
		for _, seed := range []string{"nested-valued-branch", "empty-key-root-value", "two-hashed-siblings"} {
			for _, hashed := range []bool{false, true} {
				c01ExploreFrom(t, r, "short", ver, dSeed, seed, hashed)
			}
		}
	}
	dGen := verifmc.Pick(3, 4)
	for _, ver := range []trie.TrieLayout{trie.V0, trie.V1} {
		for _, seed := range []string{"nested-valued-branch", "empty-key-root-value", "two-hashed-siblings"} {
			c01ExploreFrom(t, r, "generations", ver, dGen, seed, true)
		}
	}
	r.Extra["depth_generations"] = dGen
	r.Extra["depth_from_populated_states"] = dSeed
	r.Extra["depth_short"] = dShort
	r.Extra["depth_long"] = dLong
}
