//go:build verif

package wazero_runtime

// C10: the host functions ext_trie_blake2_256_root_version_1/2 and
// ext_trie_blake2_256_ordered_root_version_1/2 return the spec root for the requested state
// version for every input, and failure (pointer 0) for an unknown version or undecodable input.
//
// Oracle: the reference trie of /verif/engine/ref (written from the specification, shares no
// code with gossamer): ref.TrieRootKV (later duplicates win), ordered root keyed by
// ref.Compact(i).  The input encodings are produced by the harness' own SCALE writer.
// The host functions are called on a real wazero api.Module (memory-only guest) with the real
// FreeingBumpHeapAllocator; the 32 result bytes are read back from guest memory.

import (
	"bytes"
	"encoding/binary"
	"fmt"
	"sort"
	"testing"

	"github.com/ChainSafe/gossamer/internal/verifmc"
	"github.com/ChainSafe/gossamer/internal/verifmc/ref"
)

// ---------- independent SCALE writer ----------

func c10EncBytes(out, b []byte) []byte {
	out = append(out, ref.Compact(uint64(len(b)))...)
	return append(out, b...)
}

func c10EncKVs(kvs []ref.KV) []byte {
	out := ref.Compact(uint64(len(kvs)))
	for _, kv := range kvs {
		out = c10EncBytes(out, kv.K)
		out = c10EncBytes(out, kv.V)
	}
	return out
}

func c10EncValues(vs [][]byte) []byte {
	out := ref.Compact(uint64(len(vs)))
	for _, v := range vs {
		out = c10EncBytes(out, v)
	}
	return out
}

// ---------- calling the host functions ----------

type c10Result struct {
	Ptr      uint32
	Root     []byte // the 32 bytes at Ptr when Ptr != 0
	Panicked bool
	Msg      string
}

const (
	c10FnRootV1    = "ext_trie_blake2_256_root_version_1"
	c10FnRootV2    = "ext_trie_blake2_256_root_version_2"
	c10FnOrderedV1 = "ext_trie_blake2_256_ordered_root_version_1"
	c10FnOrderedV2 = "ext_trie_blake2_256_ordered_root_version_2"
)

// c10Session is one guest instance (fresh module, fresh allocator, as in Instance.Exec) holding
// one complete encoding; every call of the item designates that buffer or a prefix of it, the
// way a runtime calls a host function many times during one execution.
type c10Session struct {
	g    *c10Guest
	ptr  uint32
	full []byte
}

func c10NewSession(full []byte) *c10Session {
	g := c10GetHost().c10NewGuest(nil)
	return &c10Session{g: g, ptr: g.Put(full), full: full}
}

// call runs one host function on the first n bytes of the session's buffer.
func (s *c10Session) call(fn string, n int, version uint32) (res c10Result) {
	g := s.g
	span := uint64(s.ptr) | uint64(n)<<32
	res.Panicked, res.Msg = verifmc.Guard(func() {
		switch fn {
		case c10FnRootV1:
			res.Ptr = ext_trie_blake2_256_root_version_1(g.Ctx, g.Mod, span)
		case c10FnRootV2:
			res.Ptr = ext_trie_blake2_256_root_version_2(g.Ctx, g.Mod, span, version)
		case c10FnOrderedV1:
			res.Ptr = ext_trie_blake2_256_ordered_root_version_1(g.Ctx, g.Mod, span)
		case c10FnOrderedV2:
			res.Ptr = ext_trie_blake2_256_ordered_root_version_2(g.Ctx, g.Mod, span, version)
		default:
			panic("c10: unknown function " + fn)
		}
	})
	if !res.Panicked && res.Ptr != 0 {
		b, ok := g.Get(res.Ptr, 32)
		if !ok {
			res.Panicked, res.Msg = true, fmt.Sprintf("result pointer %d outside guest memory", res.Ptr)
		}
		res.Root = b
	}
	return res
}

// close checks the harness invariant that the shared input buffer is intact and frees the guest.
func (s *c10Session) close(it *c10Item) {
	if now, ok := s.g.Get(s.ptr, uint32(len(s.full))); !ok || !bytes.Equal(now, s.full) {
		it.violate("harness:input-buffer-modified", "the input buffer in guest memory changed during the session; later verdicts of this item are unreliable", nil)
	}
	s.g.Close()
}

// ---------- per-item bookkeeping (merged in item order so reports are deterministic) ----------

type c10Vio struct {
	sig, desc string
	replay    any
}

type c10Item struct {
	evals    int64
	outcomes map[string]int64
	vios     []c10Vio
	distinct []string
	sample   any
	skipped  int64
}

func (it *c10Item) outcome(s string) {
	if it.outcomes == nil {
		it.outcomes = map[string]int64{}
	}
	it.outcomes[s]++
}

func (it *c10Item) violate(sig, desc string, replay any) {
	for _, v := range it.vios { // one per signature per item is enough
		if v.sig == sig {
			return
		}
	}
	it.vios = append(it.vios, c10Vio{sig, desc, replay})
}

// c10Alt is an alternative (wrong) reading of the input whose root explains a mismatch.
type c10Alt struct {
	name string
	root []byte
}

func c10Short(fn string) string {
	switch fn {
	case c10FnRootV1:
		return "root_v1"
	case c10FnRootV2:
		return "root_v2"
	case c10FnOrderedV1:
		return "ordered_root_v1"
	}
	return "ordered_root_v2"
}

// c10JudgeValid checks a call with decodable input: known version => exp; unknown => pointer 0.
func c10JudgeValid(it *c10Item, ss *c10Session, fn string, version uint32, exp []byte, alts []c10Alt, class string, desc any) {
	data := ss.full
	res := ss.call(fn, len(data), version)
	it.evals++
	rep := map[string]any{"function": fn, "version": version, "input_hex": c10HexCap(data), "input": desc}
	short := c10Short(fn)
	switch {
	case res.Panicked:
		it.outcome(class + " -> panic")
		it.violate(short+":panic:"+verifmc.PanicSite(res.Msg), res.Msg, rep)
	case exp == nil: // unknown version
		if res.Ptr == 0 {
			it.outcome(class + " -> failure(0)")
		} else {
			it.outcome(class + " -> pointer")
			rep["got_root"] = verifmc.Hex(res.Root)
			it.violate(short+":unknown-version-accepted", fmt.Sprintf("version %d is not a state version but a root was returned", version), rep)
		}
	case res.Ptr == 0:
		it.outcome(class + " -> failure(0)")
		rep["want_root"] = verifmc.Hex(exp)
		it.violate(short+":valid-input-rejected", "valid input and known version, pointer 0 returned", rep)
	case bytes.Equal(res.Root, exp):
		it.outcome(class + " -> spec-root")
	default:
		shape := "wrong-result"
		for _, a := range alts {
			if bytes.Equal(a.root, res.Root) {
				shape = a.name
				break
			}
		}
		it.outcome(class + " -> other-root")
		rep["got_root"], rep["want_root"] = verifmc.Hex(res.Root), verifmc.Hex(exp)
		it.violate(short+":wrong-root:"+shape, "root differs from the reference root", rep)
	}
}

// c10JudgeTruncated checks a call with a proper prefix of a valid encoding: pointer 0 expected.
func c10JudgeTruncated(it *c10Item, ss *c10Session, fn string, version uint32, cut int, lastValueLen int, zeroFilled func() []byte, desc any) {
	full := ss.full
	res := ss.call(fn, cut, version)
	it.evals++
	short := c10Short(fn)
	rep := map[string]any{"function": fn, "version": version, "input_hex": c10HexCap(full[:cut]),
		"truncated_from_len": len(full), "kept_len": cut, "full_input": desc}
	switch {
	case res.Panicked:
		it.outcome("truncated -> panic")
		it.violate(short+":panic:"+verifmc.PanicSite(res.Msg), res.Msg, rep)
	case res.Ptr == 0:
		it.outcome("truncated -> failure(0)")
	default:
		it.outcome("truncated -> pointer")
		// shape: the cut falls inside the payload of the last byte string with at least one
		// payload byte present, and the root is that of the list whose last value is the present
		// bytes followed by zeros up to the declared length
		shape := "some-root-returned"
		if cut > len(full)-lastValueLen {
			if bytes.Equal(res.Root, zeroFilled()) {
				shape = "short-last-byte-string-zero-filled"
			}
		}
		rep["got_root"] = verifmc.Hex(res.Root)
		it.violate(short+":truncated-input-accepted:"+shape, "a proper prefix of a valid encoding is undecodable but a root was returned", rep)
	}
}

// c10Unjudged runs versions above 255 (outside the quantifier: the ABI value is a u8 carried in
// an i32; Substrate truncates too) and only records what happened.
func c10Unjudged(it *c10Item, ss *c10Session, fn string, version uint32) {
	res := ss.call(fn, len(ss.full), version)
	it.skipped++
	switch {
	case res.Panicked:
		it.outcome(fmt.Sprintf("unjudged version=%#x -> panic", version))
	case res.Ptr == 0:
		it.outcome(fmt.Sprintf("unjudged version=%#x -> failure(0)", version))
	default:
		it.outcome(fmt.Sprintf("unjudged version=%#x -> pointer", version))
	}
}

func c10HexCap(b []byte) string {
	if len(b) <= 160 {
		return verifmc.Hex(b)
	}
	return fmt.Sprintf("%s…(%d bytes)…%s", verifmc.Hex(b[:64]), len(b), verifmc.Hex(b[len(b)-32:]))
}

func c10Fill(n int, b byte) []byte { return bytes.Repeat([]byte{b}, n) }

// ---------- alternative readings (only used to name the shape of a mismatch) ----------

func c10FirstWins(kvs []ref.KV) []ref.KV {
	seen := map[string]bool{}
	var out []ref.KV
	for _, kv := range kvs {
		if !seen[string(kv.K)] {
			seen[string(kv.K)] = true
			out = append(out, kv)
		}
	}
	return out
}

func c10DropEmpty(kvs []ref.KV) []ref.KV {
	m := map[string][]byte{}
	for _, kv := range kvs {
		if len(kv.V) == 0 {
			delete(m, string(kv.K))
		} else {
			m[string(kv.K)] = kv.V
		}
	}
	keys := make([]string, 0, len(m))
	for k := range m {
		keys = append(keys, k)
	}
	sort.Strings(keys)
	var out []ref.KV
	for _, k := range keys {
		out = append(out, ref.KV{K: []byte(k), V: m[k]})
	}
	return out
}

func c10KVAlts(kvs []ref.KV, version int) []c10Alt {
	return []c10Alt{
		{"root-of-the-other-state-version", ref.TrieRootKV(kvs, 1-version)},
		{"duplicate-key-first-wins", ref.TrieRootKV(c10FirstWins(kvs), version)},
		{"empty-values-treated-as-deletions", ref.TrieRootKV(c10DropEmpty(kvs), version)},
	}
}

func c10Ordered(vs [][]byte, key func(i int) []byte) []ref.KV {
	out := make([]ref.KV, len(vs))
	for i, v := range vs {
		out[i] = ref.KV{K: key(i), V: v}
	}
	return out
}

func c10OrderedAlts(vs [][]byte, version int) []c10Alt {
	compact := func(i int) []byte { return ref.Compact(uint64(i)) }
	return []c10Alt{
		{"root-of-the-other-state-version", ref.TrieRootKV(c10Ordered(vs, compact), 1-version)},
		{"index-key-off-by-one", ref.TrieRootKV(c10Ordered(vs, func(i int) []byte { return ref.Compact(uint64(i + 1)) }), version)},
		{"index-key-fixed-width-u32", ref.TrieRootKV(c10Ordered(vs, func(i int) []byte {
			b := make([]byte, 4)
			binary.LittleEndian.PutUint32(b, uint32(i))
			return b
		}), version)},
		{"empty-values-treated-as-deletions", ref.TrieRootKV(c10DropEmpty(c10Ordered(vs, compact)), version)},
	}
}

// ---------- the check ----------

var c10UnjudgedVersions = []uint32{256, 257, 0xffffff00, 0xffffffff}

func TestVerif_C10(t *testing.T) {
	r := verifmc.NewReport("C10", "host-trie-roots", "exploration")
	defer r.Write()
	c10GetHost()

	// --- alphabet of part A (root of key/value lists)
	keys := [][]byte{{}, {0x00}, {0x01}, {0x01, 0x00}}
	if verifmc.Thorough() {
		keys = append(keys, []byte{0x10}, []byte{0x01, 0x01})
	}
	values := [][]byte{{}, {0x01}, c10Fill(32, 0xa2), c10Fill(33, 0xa3)}
	maxLen := 3
	var alphabet []ref.KV
	for _, k := range keys {
		for _, v := range values {
			alphabet = append(alphabet, ref.KV{K: k, V: v})
		}
	}
	var lists [][]int
	for n := 0; n <= maxLen; n++ {
		dims := make([]int, n)
		for i := range dims {
			dims[i] = len(alphabet)
		}
		verifmc.Product(dims, func(idx []int) { lists = append(lists, append([]int{}, idx...)) })
	}
	extra := ""

	// --- alphabet of part B (ordered root of value lists)
	type ordCase struct {
		name     string
		vs       [][]byte
		allTrunc bool
	}
	var ords []ordCase
	smallMax := verifmc.Pick(2, 3)
	for n := 0; n <= smallMax; n++ {
		dims := make([]int, n)
		for i := range dims {
			dims[i] = len(values)
		}
		verifmc.Product(dims, func(idx []int) {
			vs := make([][]byte, n)
			for i, j := range idx {
				vs[i] = values[j]
			}
			ords = append(ords, ordCase{fmt.Sprintf("n=%d values=%v", n, idx), vs, true})
		})
	}
	sizes := verifmc.Pick([]int{3, 63, 64, 65, 300, 16385}, []int{3, 4, 63, 64, 65, 66, 300, 16383, 16384, 16385, 16386})
	patterns := []struct {
		name string
		gen  func(i int) []byte
	}{
		{"all-empty", func(i int) []byte { return []byte{} }},
		{"all-01", func(i int) []byte { return []byte{0x01} }},
		{"u32le(i)", func(i int) []byte { b := make([]byte, 4); binary.LittleEndian.PutUint32(b, uint32(i)); return b }},
		{"(i mod 35) bytes of byte(i)", func(i int) []byte { return c10Fill(i%35, byte(i)) }},
		{"all the same 33 bytes", func(i int) []byte { return c10Fill(33, 0xa3) }},
	}
	for _, n := range sizes {
		if n <= smallMax {
			continue
		}
		for _, p := range patterns {
			vs := make([][]byte, n)
			for i := range vs {
				vs[i] = p.gen(i)
			}
			// thorough: every prefix also for the 16385-value lists of the two shortest patterns
			all := n <= 300 || (verifmc.Thorough() && n == 16385 && (p.name == "all-empty" || p.name == "all-01"))
			ords = append(ords, ordCase{fmt.Sprintf("n=%d pattern=%s", n, p.name), vs, all})
		}
	}
	edgeTrunc := verifmc.Pick(64, 512) // lists above 300 values: prefixes shorter than edgeTrunc bytes and the last edgeTrunc ones

	r.Rule = fmt.Sprintf("part A: every ordered list (with repetition) of length 0..%d over %d keys %v x 4 values {\"\", 01, 32 bytes, 33 bytes}%s "+
		"(%d lists) is SCALE-encoded by the harness and passed to root_version_1 and to root_version_2 with every version 0..255; "+
		"every proper prefix of every encoding is passed to root_version_1 and root_version_2 (versions 0, 1). "+
		"part B: every value list of length 0..%d over the 4 values, and lists of length %v under 5 value patterns (all empty, all 01, u32le(i), "+
		"(i mod 35) bytes, constant 33 bytes), are passed to ordered_root_version_1 and ordered_root_version_2 with every version 0..255; "+
		"every proper prefix of the encodings (lists above 300 values: the prefixes shorter than %d bytes and the last %d; thorough tier: every prefix for the 16385-value all-empty and all-01 lists) is passed with versions 0, 1. "+
		"Expected: reference root (later duplicate wins; ordered: key = compact(i)) read back from guest memory for versions 0/1, pointer 0 otherwise and for prefixes. "+
		"A case is non-trivial when the list has at least two entries. Versions above 255 (%v) are executed but not judged.",
		maxLen, len(keys), c10HexList(keys), extra, len(lists), smallMax, sizes, edgeTrunc, edgeTrunc, c10UnjudgedVersions)
	r.Assumption("the reference trie root (engine/ref/reftrie.go) and the harness' SCALE writer are trusted")
	r.Assumption("failure is observed as result pointer 0 (the allocator never hands out address 0: heap base 1024)")
	r.Assumption("every proper prefix of a valid encoding of Vec<(Vec<u8>,Vec<u8>)> / Vec<Vec<u8>> is undecodable (the element count and lengths already read demand more bytes)")

	nA, nB := len(lists), len(ords)
	items := make([]c10Item, nA+nB)
	// schedule the long items (largest ordered lists) first; results are merged by item index
	order := make([]int, nA+nB)
	for i := range order {
		order[i] = i
	}
	weight := func(i int) int {
		if i < nA {
			return len(lists[i])
		}
		return len(ords[i-nA].vs)
	}
	sort.SliceStable(order, func(a, b int) bool { return weight(order[a]) > weight(order[b]) })
	verifmc.ParallelFor(r, nA+nB, func(j int) {
		i := order[j]
		it := &items[i]
		if i < nA {
			c10DoRootList(it, alphabet, lists[i])
			return
		}
		oc := ords[i-nA]
		c10DoOrdered(it, oc.name, oc.vs, oc.allTrunc, edgeTrunc)
	}, func(j int, msg string) {
		items[order[j]].violate("harness:panic", msg, map[string]any{"item": order[j]})
	})

	for i := range items {
		it := &items[i]
		r.Add("evaluations", it.evals)
		r.Add("executed_not_judged", it.skipped)
		for k, n := range it.outcomes {
			r.Outcomes[k] += n
		}
		for _, d := range it.distinct {
			r.Distinct(d)
		}
		for _, v := range it.vios {
			r.Violate(v.sig, v.desc, v.replay)
		}
	}
	for _, i := range []int{nA / 3, nA - 1, nA + 5, nA + nB - 1} {
		if i >= 0 && i < len(items) && items[i].sample != nil {
			r.Sample(items[i].sample)
		}
	}
	r.Add("lists_part_a", int64(nA))
	r.Add("lists_part_b", int64(nB))
}

func c10HexList(bs [][]byte) []string {
	out := make([]string, len(bs))
	for i, b := range bs {
		out[i] = "0x" + verifmc.Hex(b)
	}
	return out
}

func c10DoRootList(it *c10Item, alphabet []ref.KV, idx []int) {
	kvs := make([]ref.KV, len(idx))
	descr := make([]string, len(idx))
	dup, hashed, empty := false, false, false
	seen := map[string]bool{}
	for i, j := range idx {
		kvs[i] = alphabet[j]
		descr[i] = fmt.Sprintf("%x=>%d bytes", kvs[i].K, len(kvs[i].V))
		if seen[string(kvs[i].K)] {
			dup = true
		}
		seen[string(kvs[i].K)] = true
		hashed = hashed || len(kvs[i].V) > 32
		empty = empty || len(kvs[i].V) == 0
	}
	enc := c10EncKVs(kvs)
	exp := [2][]byte{ref.TrieRootKV(kvs, 0), ref.TrieRootKV(kvs, 1)}
	alts := [2][]c10Alt{c10KVAlts(kvs, 0), c10KVAlts(kvs, 1)}
	class := fmt.Sprintf("root n=%d dup=%v value>32=%v empty-value=%v", len(kvs), dup, hashed, empty)
	if len(kvs) >= 2 {
		it.distinct = append(it.distinct, "A:"+verifmc.Hex(enc))
	}
	it.sample = map[string]any{"function": c10FnRootV2, "entries": descr, "input_hex": c10HexCap(enc),
		"reference_root_v0": verifmc.Hex(exp[0]), "reference_root_v1": verifmc.Hex(exp[1])}

	ss := c10NewSession(enc)
	defer ss.close(it)
	c10JudgeValid(it, ss, c10FnRootV1, 0, exp[0], alts[0], class+" fn=v1", descr)
	for v := uint32(0); v <= 255; v++ {
		if v <= 1 {
			c10JudgeValid(it, ss, c10FnRootV2, v, exp[v], alts[v], fmt.Sprintf("%s fn=v2 version=%d", class, v), descr)
		} else {
			c10JudgeValid(it, ss, c10FnRootV2, v, nil, nil, "root fn=v2 version=2..255", descr)
		}
	}
	for _, v := range c10UnjudgedVersions {
		c10Unjudged(it, ss, c10FnRootV2, v)
	}
	lastLen := 0
	if len(kvs) > 0 {
		lastLen = len(kvs[len(kvs)-1].V)
	}
	for cut := 0; cut < len(enc); cut++ {
		cut := cut
		zf := func(version int) func() []byte {
			return func() []byte {
				alt := append([]ref.KV{}, kvs...)
				alt[len(alt)-1].V = c10ZeroFill(enc, cut, lastLen)
				return ref.TrieRootKV(alt, version)
			}
		}
		c10JudgeTruncated(it, ss, c10FnRootV1, 0, cut, lastLen, zf(0), descr)
		c10JudgeTruncated(it, ss, c10FnRootV2, 0, cut, lastLen, zf(0), descr)
		c10JudgeTruncated(it, ss, c10FnRootV2, 1, cut, lastLen, zf(1), descr)
	}
}

// c10ZeroFill is the last byte string of enc as a reader that zero-fills short reads sees it when
// only enc[:cut] is present (cut inside that byte string's payload).
func c10ZeroFill(enc []byte, cut, lastLen int) []byte {
	out := make([]byte, lastLen)
	copy(out, enc[len(enc)-lastLen:cut])
	return out
}

func c10DoOrdered(it *c10Item, name string, vs [][]byte, allTrunc bool, edge int) {
	compact := func(i int) []byte { return ref.Compact(uint64(i)) }
	kvs := c10Ordered(vs, compact)
	enc := c10EncValues(vs)
	exp := [2][]byte{ref.TrieRootKV(kvs, 0), ref.TrieRootKV(kvs, 1)}
	alts := [2][]c10Alt{c10OrderedAlts(vs, 0), c10OrderedAlts(vs, 1)}
	mode := "1-byte"
	switch {
	case len(vs) > 1<<14:
		mode = "4-byte"
	case len(vs) > 1<<6:
		mode = "2-byte"
	}
	class := fmt.Sprintf("ordered n=%d (largest index mode %s)", len(vs), mode)
	if len(vs) >= 2 {
		it.distinct = append(it.distinct, "B:"+name)
	}
	it.sample = map[string]any{"function": c10FnOrderedV2, "values": name, "input_hex": c10HexCap(enc),
		"reference_root_v0": verifmc.Hex(exp[0]), "reference_root_v1": verifmc.Hex(exp[1])}

	ss := c10NewSession(enc)
	defer ss.close(it)
	c10JudgeValid(it, ss, c10FnOrderedV1, 0, exp[0], alts[0], class+" fn=v1", name)
	for v := uint32(0); v <= 255; v++ {
		if v <= 1 {
			c10JudgeValid(it, ss, c10FnOrderedV2, v, exp[v], alts[v], fmt.Sprintf("%s fn=v2 version=%d", class, v), name)
		} else {
			c10JudgeValid(it, ss, c10FnOrderedV2, v, nil, nil, "ordered fn=v2 version=2..255", name)
		}
	}
	for _, v := range c10UnjudgedVersions {
		c10Unjudged(it, ss, c10FnOrderedV2, v)
	}
	lastLen := 0
	if len(vs) > 0 {
		lastLen = len(vs[len(vs)-1])
	}
	for cut := 0; cut < len(enc); cut++ {
		if !allTrunc && cut >= edge && cut < len(enc)-edge {
			continue
		}
		cut := cut
		zf := func(version int) func() []byte {
			return func() []byte {
				alt := append([]ref.KV{}, kvs...)
				alt[len(alt)-1].V = c10ZeroFill(enc, cut, lastLen)
				return ref.TrieRootKV(alt, version)
			}
		}
		c10JudgeTruncated(it, ss, c10FnOrderedV1, 0, cut, lastLen, zf(0), name)
		c10JudgeTruncated(it, ss, c10FnOrderedV2, 0, cut, lastLen, zf(0), name)
		c10JudgeTruncated(it, ss, c10FnOrderedV2, 1, cut, lastLen, zf(1), name)
	}
}
