//go:build verif

package wazero_runtime

// Shared by C10 and C29: a real wazero api.Module whose only content is an exported linear
// memory, so that gossamer's host functions can be called in-package without a runtime blob.
// Mirrors Instance.Exec: one compiled guest, a fresh module instance and a fresh
// FreeingBumpHeapAllocator per call, input placed with the allocator.

import (
	"context"
	"fmt"
	"io"
	"sync"

	"github.com/ChainSafe/gossamer/internal/log"
	"github.com/ChainSafe/gossamer/lib/runtime"
	"github.com/ChainSafe/gossamer/lib/runtime/allocator"
	"github.com/tetratelabs/wazero"
	"github.com/tetratelabs/wazero/api"
)

// c10MemWasm is a hand-assembled 25-byte Wasm binary:
// (module (memory (export "memory") 1))
var c10MemWasm = []byte{
	0x00, 0x61, 0x73, 0x6d, // \0asm
	0x01, 0x00, 0x00, 0x00, // version 1
	0x05, 0x03, 0x01, 0x00, 0x01, // memory section: 1 memory, no maximum, 1 initial page
	0x07, 0x0a, 0x01, 0x06, 'm', 'e', 'm', 'o', 'r', 'y', 0x02, 0x00, // export "memory" = memory 0
}

const c10HeapBase = 1024

type c10Host struct {
	rt       wazero.Runtime
	compiled wazero.CompiledModule
}

var (
	c10HostOnce sync.Once
	c10TheHost  *c10Host
)

// c10GetHost compiles the memory-only guest once and silences the package logger (the host
// functions log every rejected input at error level).
func c10GetHost() *c10Host {
	c10HostOnce.Do(func() {
		logger.Patch(log.SetWriter(io.Discard), log.SetLevel(log.Critical))
		ctx := context.Background()
		rt := wazero.NewRuntimeWithConfig(ctx, wazero.NewRuntimeConfigInterpreter())
		cm, err := rt.CompileModule(ctx, c10MemWasm)
		if err != nil {
			panic(fmt.Sprintf("c10: compiling the memory-only module: %v", err))
		}
		c10TheHost = &c10Host{rt: rt, compiled: cm}
	})
	return c10TheHost
}

// c10Guest is one fresh module instance with its runtime context.
type c10Guest struct {
	Mod   api.Module
	RtCtx *runtime.Context
	Ctx   context.Context
}

// c10NewGuest instantiates a fresh guest (anonymous module) with a fresh allocator.
func (h *c10Host) c10NewGuest(rtCtx *runtime.Context) *c10Guest {
	mod, err := h.rt.InstantiateModule(context.Background(), h.compiled, wazero.NewModuleConfig().WithName(""))
	if err != nil {
		panic(fmt.Sprintf("c10: instantiating: %v", err))
	}
	if rtCtx == nil {
		rtCtx = &runtime.Context{}
	}
	rtCtx.Allocator = allocator.NewFreeingBumpHeapAllocator(c10HeapBase)
	return &c10Guest{Mod: mod, RtCtx: rtCtx,
		Ctx: context.WithValue(context.Background(), runtimeContextKey, rtCtx)}
}

func (g *c10Guest) Close() { _ = g.Mod.Close(context.Background()) }

// Put places data in guest memory through the allocator (as a guest would through
// ext_allocator_malloc) and returns the pointer.
func (g *c10Guest) Put(data []byte) uint32 {
	ptr, err := g.RtCtx.Allocator.Allocate(g.Mod.Memory(), uint32(len(data)))
	if err != nil {
		panic(fmt.Sprintf("c10: allocating %d input bytes: %v", len(data), err))
	}
	if !g.Mod.Memory().Write(ptr, data) {
		panic("c10: writing input out of range")
	}
	return ptr
}

// Span places data and returns the pointer-size (ptr | len<<32) the host functions take.
func (g *c10Guest) Span(data []byte) uint64 {
	return uint64(g.Put(data)) | uint64(len(data))<<32
}

// Get copies n bytes at ptr out of guest memory.
func (g *c10Guest) Get(ptr, n uint32) ([]byte, bool) {
	b, ok := g.Mod.Memory().Read(ptr, uint64(n))
	if !ok {
		return nil, false
	}
	return append([]byte{}, b...), true
}

// GetSpan copies the bytes designated by a returned pointer-size.
func (g *c10Guest) GetSpan(ps uint64) ([]byte, bool) {
	return g.Get(uint32(ps), uint32(ps>>32))
}
