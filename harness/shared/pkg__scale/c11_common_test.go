//go:build verif

package scale

// Shared by C11 and C12: the type catalogue (descriptor trees of the reference codec realised as
// Go types at run time with reflect), the boundary value sets, and the converters between the
// reference value tree and Go values.  The converters use reflect and the package's public
// constructors only; they never call Marshal/Unmarshal.

import (
	"fmt"
	"math/big"
	"reflect"
	"sort"
	"strings"
	"sync"

	"github.com/ChainSafe/gossamer/internal/verifmc"
	"github.com/ChainSafe/gossamer/internal/verifmc/ref"
)

// ---- the test enum (VaryingDataType), declared the way gossamer's own enums are ----

type c11VarStruct struct {
	A uint
	B []byte
}

type c11VDT struct {
	inner any
}

func (v *c11VDT) SetValue(value any) (err error) {
	switch value.(type) {
	case uint16, c11VarStruct, bool, *big.Int:
		v.inner = value
		return nil
	}
	return fmt.Errorf("unsupported type %T", value)
}

func (v c11VDT) IndexValue() (index uint, value any, err error) {
	switch v.inner.(type) {
	case uint16:
		return 0, v.inner, nil
	case c11VarStruct:
		return 1, v.inner, nil
	case bool:
		return 2, v.inner, nil
	case *big.Int:
		return 7, v.inner, nil
	}
	return 0, nil, ErrUnsupportedVaryingDataTypeValue
}

func (v c11VDT) Value() (value any, err error) {
	_, value, err = v.IndexValue()
	return
}

func (v c11VDT) ValueAt(index uint) (value any, err error) {
	switch index {
	case 0:
		return uint16(0), nil
	case 1:
		return c11VarStruct{}, nil
	case 2:
		return false, nil
	case 7:
		return (*big.Int)(nil), nil
	}
	return nil, ErrUnknownVaryingDataTypeValue
}

// ---- descriptor constructors ----

func c11T(k ref.C11Kind) *ref.C11Type { return &ref.C11Type{Kind: k} }

var (
	c11U8T      = c11T(ref.C11U8)
	c11U16T     = c11T(ref.C11U16)
	c11U32T     = c11T(ref.C11U32)
	c11U64T     = c11T(ref.C11U64)
	c11I8T      = c11T(ref.C11I8)
	c11I16T     = c11T(ref.C11I16)
	c11I32T     = c11T(ref.C11I32)
	c11I64T     = c11T(ref.C11I64)
	c11U128T    = c11T(ref.C11U128)
	c11UintT    = &ref.C11Type{Kind: ref.C11Compact, Bits: 64}
	c11IntT     = &ref.C11Type{Kind: ref.C11Compact, Bits: 64, Signed: true}
	c11BigT     = c11T(ref.C11CompactBig)
	c11BoolT    = c11T(ref.C11Bool)
	c11BytesT   = c11T(ref.C11Bytes)
	c11StrT     = c11T(ref.C11Str)
	c11UnitT    = c11T(ref.C11Unit)
	c11VarStrT  = &ref.C11Type{Kind: ref.C11Tuple, Fields: []*ref.C11Type{c11UintT, c11BytesT}}
	c11EnumT    = &ref.C11Type{Kind: ref.C11Enum, Fields: []*ref.C11Type{c11U16T, c11VarStrT, c11BoolT, c11BigT}, Tags: []byte{0, 1, 2, 7}}
	c11Leaves   = []*ref.C11Type{c11U8T, c11U16T, c11U32T, c11U64T, c11I8T, c11I16T, c11I32T, c11I64T, c11UintT, c11IntT, c11BigT, c11U128T, c11BoolT, c11BytesT, c11StrT}
	c11MapKeys  = []*ref.C11Type{c11U8T, c11I8T, c11U32T, c11UintT, c11StrT, c11BoolT}
	c11TagValue = []int{2, 10, 30, 100} // numeric order differs from string order ("10" < "2")
)

func c11Option(e *ref.C11Type) *ref.C11Type { return &ref.C11Type{Kind: ref.C11Option, Elem: e} }
func c11Vec(e *ref.C11Type) *ref.C11Type    { return &ref.C11Type{Kind: ref.C11Vec, Elem: e} }
func c11Array(e *ref.C11Type, n int) *ref.C11Type {
	return &ref.C11Type{Kind: ref.C11Array, Elem: e, N: n}
}
func c11Map(k, e *ref.C11Type) *ref.C11Type { return &ref.C11Type{Kind: ref.C11Map, Key: k, Elem: e} }
func c11Tuple(perm []int, f ...*ref.C11Type) *ref.C11Type {
	return &ref.C11Type{Kind: ref.C11Tuple, Fields: f, Perm: perm}
}
func c11Result(ok, err *ref.C11Type) *ref.C11Type {
	return &ref.C11Type{Kind: ref.C11Result, Fields: []*ref.C11Type{ok, err}}
}

// c11Nestable reports whether gossamer can decode t when it is an element of a container that
// the decoder creates itself (slice, array, option, map): Result and VaryingDataType values must be
// pre-initialised by the caller, which is only possible at the top level and in struct fields.
func c11Nestable(t *ref.C11Type) bool {
	switch t.Kind {
	case ref.C11Result, ref.C11Enum:
		return false
	case ref.C11Tuple:
		for _, f := range t.Fields {
			if !c11Nestable(f) {
				return false
			}
		}
	case ref.C11Option, ref.C11Vec, ref.C11Array, ref.C11Map:
		return c11Nestable(t.Elem)
	}
	return true
}

func c11Comparable(t *ref.C11Type) bool {
	switch t.Kind {
	case ref.C11U8, ref.C11U16, ref.C11U32, ref.C11U64, ref.C11I8, ref.C11I16, ref.C11I32, ref.C11I64,
		ref.C11Compact, ref.C11Bool, ref.C11Str:
		return true
	case ref.C11Array:
		return c11Comparable(t.Elem)
	case ref.C11Tuple:
		for _, f := range t.Fields {
			if !c11Comparable(f) {
				return false
			}
		}
		return true
	}
	return false
}

// c11Depth1 applies every constructor to the given element types.
func c11Depth1(elems []*ref.C11Type, lvl int) []*ref.C11Type {
	var out []*ref.C11Type
	n := len(elems)
	for i, e := range elems {
		nx, nx2 := elems[(i+1)%n], elems[(i+2)%n]
		if c11Nestable(e) {
			out = append(out, c11Option(e), c11Vec(e), c11Array(e, 0), c11Array(e, 1), c11Array(e, 2))
			keys := c11MapKeys
			if lvl > 1 {
				keys = []*ref.C11Type{c11U8T, c11StrT}
			}
			for _, k := range keys {
				out = append(out, c11Map(k, e))
			}
			if lvl == 1 && c11Comparable(e) && e.Kind != ref.C11Str && e.Kind != ref.C11U8 {
				out = append(out, c11Map(c11Array(e, 2), c11BoolT)) // array keys
			}
		}
		// structs: untagged pair, and three fields with scale:"n" tags in every Go order
		out = append(out, c11Tuple(nil, e, nx))
		if lvl == 1 {
			verifmc.Permutations(3, func(p []int) {
				out = append(out, c11Tuple(append([]int{}, p...), e, nx, nx2))
			})
		} else {
			out = append(out, c11Tuple([]int{2, 0, 1}, c11U8T, e, c11BoolT))
		}
	}
	return out
}

var (
	c11CatMu    sync.Mutex
	c11CatCache = map[int][]*ref.C11Type{}
)

// c11Catalogue returns all generated types up to the given nesting depth (0 = leaves).
func c11Catalogue(depth int) []*ref.C11Type {
	c11CatMu.Lock()
	defer c11CatMu.Unlock()
	if c, ok := c11CatCache[depth]; ok {
		return c
	}
	out := append([]*ref.C11Type{}, c11Leaves...)
	level := c11Leaves
	for d := 1; d <= depth; d++ {
		var next []*ref.C11Type
		if d == 1 {
			// results and the enum exist from level 1 on
			next = append(next,
				c11Result(c11U32T, c11BoolT), c11Result(c11UnitT, c11BytesT), c11Result(c11Vec(c11U16T), c11UnitT),
				c11Result(c11UintT, c11BigT), c11Result(c11UnitT, c11UnitT), c11Result(c11Option(c11U8T), c11StrT),
				c11EnumT)
		}
		next = append(next, c11Depth1(level, d)...)
		out = append(out, next...)
		level = next
	}
	// drop duplicates by name
	seen := map[string]bool{}
	var uniq []*ref.C11Type
	for _, t := range out {
		if n := ref.C11Name(t); !seen[n] {
			seen[n] = true
			uniq = append(uniq, t)
		}
	}
	c11CatCache[depth] = uniq
	return uniq
}

func c11TypeDepth(t *ref.C11Type) int {
	d := 0
	for _, c := range append([]*ref.C11Type{t.Elem, t.Key}, t.Fields...) {
		if c != nil {
			if x := c11TypeDepth(c) + 1; x > d {
				d = x
			}
		}
	}
	if t == c11VarStrT || t == c11EnumT {
		return 1
	}
	return d
}

// ---- Go realisation ----

var c11GoCache sync.Map // *ref.C11Type -> reflect.Type

func c11GoType(t *ref.C11Type) reflect.Type {
	if g, ok := c11GoCache.Load(t); ok {
		return g.(reflect.Type)
	}
	g := c11GoTypeBuild(t)
	if prev, loaded := c11GoCache.LoadOrStore(t, g); loaded {
		return prev.(reflect.Type)
	}
	return g
}

func c11GoTypeBuild(t *ref.C11Type) reflect.Type {
	switch t.Kind {
	case ref.C11U8:
		return reflect.TypeOf(uint8(0))
	case ref.C11U16:
		return reflect.TypeOf(uint16(0))
	case ref.C11U32:
		return reflect.TypeOf(uint32(0))
	case ref.C11U64:
		return reflect.TypeOf(uint64(0))
	case ref.C11I8:
		return reflect.TypeOf(int8(0))
	case ref.C11I16:
		return reflect.TypeOf(int16(0))
	case ref.C11I32:
		return reflect.TypeOf(int32(0))
	case ref.C11I64:
		return reflect.TypeOf(int64(0))
	case ref.C11U128:
		return reflect.TypeOf((*Uint128)(nil))
	case ref.C11Compact:
		if t.Signed {
			return reflect.TypeOf(int(0))
		}
		return reflect.TypeOf(uint(0))
	case ref.C11CompactBig:
		return reflect.TypeOf((*big.Int)(nil))
	case ref.C11Bool:
		return reflect.TypeOf(false)
	case ref.C11Bytes:
		return reflect.TypeOf([]byte(nil))
	case ref.C11Str:
		return reflect.TypeOf("")
	case ref.C11Option:
		return reflect.PointerTo(c11GoType(t.Elem))
	case ref.C11Vec:
		return reflect.SliceOf(c11GoType(t.Elem))
	case ref.C11Array:
		return reflect.ArrayOf(t.N, c11GoType(t.Elem))
	case ref.C11Map:
		return reflect.MapOf(c11GoType(t.Key), c11GoType(t.Elem))
	case ref.C11Tuple:
		if t == c11VarStrT {
			return reflect.TypeOf(c11VarStruct{})
		}
		var fs []reflect.StructField
		for i := range t.Fields {
			pos := i
			tag := ""
			if t.Perm != nil {
				pos = t.Perm[i]
				tag = fmt.Sprintf(`scale:"%d"`, c11TagValue[pos])
			}
			fs = append(fs, reflect.StructField{Name: fmt.Sprintf("F%d", i), Type: c11GoType(t.Fields[pos]), Tag: reflect.StructTag(tag)})
		}
		return reflect.StructOf(fs)
	case ref.C11Result:
		return reflect.TypeOf(Result{})
	case ref.C11Enum:
		return reflect.TypeOf(c11VDT{})
	}
	panic("c11GoType: " + ref.C11Name(t))
}

func c11FieldPos(t *ref.C11Type, goField int) int {
	if t.Perm != nil {
		return t.Perm[goField]
	}
	return goField
}

var c11Mask64 = new(big.Int).SetUint64(^uint64(0))

// c11ToGo builds the Go value for v.
func c11ToGo(t *ref.C11Type, v *ref.C11Val) reflect.Value {
	gt := c11GoType(t)
	out := reflect.New(gt).Elem()
	switch t.Kind {
	case ref.C11U8, ref.C11U16, ref.C11U32, ref.C11U64:
		out.SetUint(v.N.Uint64())
	case ref.C11I8, ref.C11I16, ref.C11I32, ref.C11I64:
		out.SetInt(v.N.Int64())
	case ref.C11Compact:
		if t.Signed {
			out.SetInt(v.N.Int64())
		} else {
			out.SetUint(v.N.Uint64())
		}
	case ref.C11U128:
		out.Set(reflect.ValueOf(&Uint128{Upper: new(big.Int).Rsh(v.N, 64).Uint64(), Lower: new(big.Int).And(v.N, c11Mask64).Uint64()}))
	case ref.C11CompactBig:
		out.Set(reflect.ValueOf(new(big.Int).Set(v.N)))
	case ref.C11Bool:
		out.SetBool(v.T)
	case ref.C11Bytes:
		out.SetBytes(append([]byte{}, v.B...))
	case ref.C11Str:
		out.SetString(string(v.B))
	case ref.C11Option:
		if v.Idx == 1 {
			p := reflect.New(gt.Elem())
			p.Elem().Set(c11ToGo(t.Elem, v.Elems[0]))
			out.Set(p)
		}
	case ref.C11Vec:
		s := reflect.MakeSlice(gt, len(v.Elems), len(v.Elems))
		for i, e := range v.Elems {
			s.Index(i).Set(c11ToGo(t.Elem, e))
		}
		out.Set(s)
	case ref.C11Array:
		for i, e := range v.Elems {
			out.Index(i).Set(c11ToGo(t.Elem, e))
		}
	case ref.C11Map:
		m := reflect.MakeMap(gt)
		for i := 0; i+1 < len(v.Elems); i += 2 {
			m.SetMapIndex(c11ToGo(t.Key, v.Elems[i]), c11ToGo(t.Elem, v.Elems[i+1]))
		}
		out.Set(m)
	case ref.C11Tuple:
		for i := range t.Fields {
			pos := c11FieldPos(t, i)
			out.Field(i).Set(c11ToGo(t.Fields[pos], v.Elems[pos]))
		}
	case ref.C11Result:
		res := c11FreshResult(t)
		var payload any
		if t.Fields[v.Idx].Kind != ref.C11Unit {
			payload = c11ToGo(t.Fields[v.Idx], v.Elems[0]).Interface()
		}
		mode := OK
		if v.Idx == 1 {
			mode = Err
		}
		if err := res.Set(mode, payload); err != nil {
			panic("c11ToGo: Result.Set: " + err.Error())
		}
		out.Set(reflect.ValueOf(res))
	case ref.C11Enum:
		out.Set(reflect.ValueOf(c11VDT{inner: c11ToGo(t.Fields[v.Idx], v.Elems[0]).Interface()}))
	default:
		panic("c11ToGo: " + ref.C11Name(t))
	}
	return out
}

// c11FreshResult is an unset Result with the ok/err prototypes of t.
func c11FreshResult(t *ref.C11Type) Result {
	proto := func(f *ref.C11Type) any {
		if f.Kind == ref.C11Unit {
			return nil
		}
		return reflect.Zero(c11GoType(f)).Interface()
	}
	return NewResult(proto(t.Fields[0]), proto(t.Fields[1]))
}

// c11Dest returns a pointer to a decode destination for t: zero, except that Results (which the
// decoder cannot create) are pre-initialised at the top level and in struct fields.
func c11Dest(t *ref.C11Type) reflect.Value {
	p := reflect.New(c11GoType(t))
	c11Prefill(t, p.Elem())
	return p
}

func c11Prefill(t *ref.C11Type, v reflect.Value) {
	switch t.Kind {
	case ref.C11Result:
		v.Set(reflect.ValueOf(c11FreshResult(t)))
	case ref.C11Tuple:
		if t == c11VarStrT {
			return
		}
		for i := range t.Fields {
			c11Prefill(t.Fields[c11FieldPos(t, i)], v.Field(i))
		}
	}
}

type c11ConvErr struct{ what string }

func (e *c11ConvErr) Error() string { return e.what }

// c11FromGo reads a Go value back into the reference value tree.  limit bounds the total number
// of bytes/elements converted (a decoded value much larger than its input is reported, not copied).
func c11FromGo(t *ref.C11Type, g reflect.Value, limit *int) (*ref.C11Val, error) {
	*limit--
	if *limit < 0 {
		return nil, &c11ConvErr{"value-larger-than-limit"}
	}
	switch t.Kind {
	case ref.C11U8, ref.C11U16, ref.C11U32, ref.C11U64:
		return &ref.C11Val{N: new(big.Int).SetUint64(g.Uint())}, nil
	case ref.C11I8, ref.C11I16, ref.C11I32, ref.C11I64:
		return &ref.C11Val{N: big.NewInt(g.Int())}, nil
	case ref.C11Compact:
		if t.Signed {
			return &ref.C11Val{N: big.NewInt(g.Int())}, nil
		}
		return &ref.C11Val{N: new(big.Int).SetUint64(g.Uint())}, nil
	case ref.C11U128:
		if g.IsNil() {
			return nil, &c11ConvErr{"nil-uint128"}
		}
		u := g.Interface().(*Uint128)
		n := new(big.Int).SetUint64(u.Upper)
		n.Lsh(n, 64).Or(n, new(big.Int).SetUint64(u.Lower))
		return &ref.C11Val{N: n}, nil
	case ref.C11CompactBig:
		if g.IsNil() {
			return nil, &c11ConvErr{"nil-bigint"}
		}
		return &ref.C11Val{N: new(big.Int).Set(g.Interface().(*big.Int))}, nil
	case ref.C11Bool:
		return &ref.C11Val{T: g.Bool()}, nil
	case ref.C11Bytes:
		*limit -= g.Len()
		if *limit < 0 {
			return nil, &c11ConvErr{"value-larger-than-limit"}
		}
		return &ref.C11Val{B: append([]byte{}, g.Bytes()...)}, nil
	case ref.C11Str:
		*limit -= g.Len()
		if *limit < 0 {
			return nil, &c11ConvErr{"value-larger-than-limit"}
		}
		return &ref.C11Val{B: []byte(g.String())}, nil
	case ref.C11Unit:
		return &ref.C11Val{}, nil
	case ref.C11Option:
		if g.IsNil() {
			return &ref.C11Val{Idx: 0}, nil
		}
		x, err := c11FromGo(t.Elem, g.Elem(), limit)
		if err != nil {
			return nil, err
		}
		return &ref.C11Val{Idx: 1, Elems: []*ref.C11Val{x}}, nil
	case ref.C11Vec, ref.C11Array:
		v := &ref.C11Val{}
		for i := 0; i < g.Len(); i++ {
			x, err := c11FromGo(t.Elem, g.Index(i), limit)
			if err != nil {
				return nil, err
			}
			v.Elems = append(v.Elems, x)
		}
		return v, nil
	case ref.C11Map:
		v := &ref.C11Val{}
		it := g.MapRange()
		for it.Next() {
			k, err := c11FromGo(t.Key, it.Key(), limit)
			if err != nil {
				return nil, err
			}
			x, err := c11FromGo(t.Elem, it.Value(), limit)
			if err != nil {
				return nil, err
			}
			v.Elems = append(v.Elems, k, x)
		}
		// fix the order (the reference treats maps as sets; a stable order keeps reports deterministic)
		n := len(v.Elems) / 2
		idx := make([]int, n)
		for i := range idx {
			idx[i] = i
		}
		sort.Slice(idx, func(a, b int) bool { return ref.C11Cmp(t.Key, v.Elems[2*idx[a]], v.Elems[2*idx[b]]) < 0 })
		s := &ref.C11Val{}
		for _, i := range idx {
			s.Elems = append(s.Elems, v.Elems[2*i], v.Elems[2*i+1])
		}
		return s, nil
	case ref.C11Tuple:
		v := &ref.C11Val{Elems: make([]*ref.C11Val, len(t.Fields))}
		for i := range t.Fields {
			pos := c11FieldPos(t, i)
			x, err := c11FromGo(t.Fields[pos], g.Field(i), limit)
			if err != nil {
				return nil, err
			}
			v.Elems[pos] = x
		}
		return v, nil
	case ref.C11Result:
		res := g.Interface().(Result)
		var idx int
		var payload any
		switch res.mode {
		case OK:
			idx, payload = 0, res.ok
		case Err:
			idx, payload = 1, res.err
		default:
			return nil, &c11ConvErr{"result-left-unset"}
		}
		ft := t.Fields[idx]
		if ft.Kind == ref.C11Unit {
			if _, ok := payload.(empty); !ok {
				return nil, &c11ConvErr{fmt.Sprintf("result-unit-payload-is-%T", payload)}
			}
			return &ref.C11Val{Idx: idx, Elems: []*ref.C11Val{{}}}, nil
		}
		pv := reflect.ValueOf(payload)
		if !pv.IsValid() || pv.Type() != c11GoType(ft) {
			return nil, &c11ConvErr{fmt.Sprintf("result-payload-is-%T", payload)}
		}
		x, err := c11FromGo(ft, pv, limit)
		if err != nil {
			return nil, err
		}
		return &ref.C11Val{Idx: idx, Elems: []*ref.C11Val{x}}, nil
	case ref.C11Enum:
		vdt := g.Interface().(c11VDT)
		for i, f := range t.Fields {
			if vdt.inner != nil && reflect.TypeOf(vdt.inner) == c11GoType(f) {
				x, err := c11FromGo(f, reflect.ValueOf(vdt.inner), limit)
				if err != nil {
					return nil, err
				}
				return &ref.C11Val{Idx: i, Elems: []*ref.C11Val{x}}, nil
			}
		}
		return nil, &c11ConvErr{fmt.Sprintf("enum-inner-is-%T", vdt.inner)}
	}
	panic("c11FromGo: " + ref.C11Name(t))
}

// ---- values ----

func c11Big(s string) *big.Int {
	n, ok := new(big.Int).SetString(s, 0)
	if !ok {
		panic(s)
	}
	return n
}

func c11Pow2(k int) *big.Int { return new(big.Int).Lsh(big.NewInt(1), uint(k)) }

func c11IntVals(list []*big.Int) []*ref.C11Val {
	seen := map[string]bool{}
	var out []*ref.C11Val
	for _, n := range list {
		if !seen[n.String()] {
			seen[n.String()] = true
			out = append(out, &ref.C11Val{N: n})
		}
	}
	return out
}

// c11Around returns n-1, n, n+1 clipped to [lo, hi].
func c11Around(lo, hi *big.Int, ns ...*big.Int) []*big.Int {
	var out []*big.Int
	for _, n := range ns {
		for d := int64(-1); d <= 1; d++ {
			x := new(big.Int).Add(n, big.NewInt(d))
			if x.Cmp(lo) >= 0 && x.Cmp(hi) <= 0 {
				out = append(out, x)
			}
		}
	}
	return out
}

// c11CompactBoundaries: every compact-mode boundary 2^6, 2^14, 2^30 (±1) and every byte length from
// 4 up to maxBytes (2^(8k) ± 1), plus one value per byte length with distinct bytes (byte order).
func c11CompactBoundaries(maxBytes int, hi *big.Int) []*big.Int {
	zero := big.NewInt(0)
	ns := []*big.Int{zero, big.NewInt(1), c11Pow2(6), c11Pow2(14), c11Pow2(30), c11Pow2(31)}
	for k := 3; k <= maxBytes; k++ {
		ns = append(ns, c11Pow2(8*k))
	}
	out := c11Around(zero, hi, ns...)
	pat := []byte{0x01, 0x02, 0x03, 0x04, 0x05, 0x06, 0x07, 0x08, 0x09, 0x0a, 0x0b, 0x0c, 0x0d, 0x0e, 0x0f, 0x10, 0x11, 0x12, 0x13}
	for k := 2; k <= maxBytes && k <= len(pat); k++ {
		if x := new(big.Int).SetBytes(pat[:k]); x.Cmp(hi) <= 0 {
			out = append(out, x)
		}
	}
	out = append(out, hi)
	return out
}

func c11Pattern(n int, start byte) []byte {
	b := make([]byte, n)
	for i := range b {
		b[i] = start + byte(i)
	}
	return b
}

// c11LeafValues returns the boundary set of a leaf type (small = the reduced set used inside
// containers: one value per encoding shape).
func c11LeafValues(t *ref.C11Type, small bool) []*ref.C11Val {
	fixed := func(bits int, signed bool) []*ref.C11Val {
		lo, hi := big.NewInt(0), new(big.Int).Sub(c11Pow2(bits), big.NewInt(1))
		if signed {
			lo, hi = new(big.Int).Neg(c11Pow2(bits-1)), new(big.Int).Sub(c11Pow2(bits-1), big.NewInt(1))
		}
		if small {
			mid := new(big.Int).SetBytes(c11Pattern(bits/8, 1))
			if signed {
				mid = big.NewInt(-2)
			}
			return c11IntVals([]*big.Int{big.NewInt(0), mid, lo, hi})
		}
		ns := []*big.Int{lo, hi, big.NewInt(0), big.NewInt(1)}
		if signed {
			ns = append(ns, big.NewInt(-1), big.NewInt(-2))
		}
		var bnd []*big.Int
		for k := 7; k < bits; k += 1 {
			if k%8 == 7 || k%8 == 0 {
				bnd = append(bnd, c11Pow2(k))
				if signed {
					bnd = append(bnd, new(big.Int).Neg(c11Pow2(k)))
				}
			}
		}
		ns = append(ns, c11Around(lo, hi, bnd...)...)
		ns = append(ns, new(big.Int).SetBytes(c11Pattern(bits/8, 1)))
		var keep []*big.Int
		for _, n := range ns {
			if n.Cmp(lo) >= 0 && n.Cmp(hi) <= 0 {
				keep = append(keep, n)
			}
		}
		return c11IntVals(keep)
	}
	switch t.Kind {
	case ref.C11U8:
		return fixed(8, false)
	case ref.C11U16:
		return fixed(16, false)
	case ref.C11U32:
		return fixed(32, false)
	case ref.C11U64:
		return fixed(64, false)
	case ref.C11U128:
		return fixed(128, false)
	case ref.C11I8:
		return fixed(8, true)
	case ref.C11I16:
		return fixed(16, true)
	case ref.C11I32:
		return fixed(32, true)
	case ref.C11I64:
		return fixed(64, true)
	case ref.C11Compact:
		hi := new(big.Int).Sub(c11Pow2(64), big.NewInt(1))
		if t.Signed {
			hi = new(big.Int).Sub(c11Pow2(63), big.NewInt(1))
		}
		if small {
			return c11IntVals([]*big.Int{big.NewInt(0), big.NewInt(63), big.NewInt(64), c11Pow2(14), c11Pow2(30), c11Pow2(32), hi})
		}
		ns := c11CompactBoundaries(8, hi)
		if t.Signed {
			// negative ints have no SCALE form of their own; gossamer encodes the two's complement (round trip only)
			ns = append(ns, big.NewInt(-1), big.NewInt(-64), new(big.Int).Neg(c11Pow2(63)))
		}
		return c11IntVals(ns)
	case ref.C11CompactBig:
		hi := new(big.Int).Sub(c11Pow2(8*67), big.NewInt(1))
		if small {
			return c11IntVals([]*big.Int{big.NewInt(0), big.NewInt(64), c11Pow2(14), c11Pow2(30), c11Pow2(40), c11Pow2(64), c11Pow2(128)})
		}
		ns := c11CompactBoundaries(17, hi)
		ns = append(ns, c11Around(big.NewInt(0), hi, c11Pow2(8*32), c11Pow2(8*66))...)
		return c11IntVals(ns)
	case ref.C11Bool:
		return []*ref.C11Val{{T: false}, {T: true}}
	case ref.C11Bytes, ref.C11Str:
		start := byte(0xf0)
		if t.Kind == ref.C11Str {
			start = 'a'
		}
		if small {
			return []*ref.C11Val{{B: []byte{}}, {B: c11Pattern(1, start)}, {B: c11Pattern(3, start)}}
		}
		out := []*ref.C11Val{{B: []byte{}}, {B: []byte{0}}, {B: c11Pattern(1, start)}, {B: c11Pattern(2, start)}, {B: c11Pattern(63, start)}, {B: c11Pattern(64, start)}, {B: c11Pattern(65, start)}}
		if verifmc.Thorough() {
			out = append(out, &ref.C11Val{B: c11Pattern(1<<14-1, start)}, &ref.C11Val{B: c11Pattern(1<<14, start)})
		}
		return out
	case ref.C11Unit:
		return []*ref.C11Val{{}}
	}
	panic("c11LeafValues: " + ref.C11Name(t))
}

func c11IsLeaf(t *ref.C11Type) bool {
	return t.Elem == nil && t.Key == nil && t.Fields == nil
}

// c11Values returns the value set of t.  At the top level leaves use their full boundary set and
// containers range over every element value; below the top level the reduced sets are used.
func c11Values(t *ref.C11Type, top bool) []*ref.C11Val {
	if c11IsLeaf(t) {
		return c11LeafValues(t, !top)
	}
	var out []*ref.C11Val
	switch t.Kind {
	case ref.C11Option:
		out = append(out, &ref.C11Val{Idx: 0})
		for _, e := range c11Values(t.Elem, top) {
			out = append(out, &ref.C11Val{Idx: 1, Elems: []*ref.C11Val{e}})
		}
	case ref.C11Vec:
		es := c11Values(t.Elem, top)
		out = append(out, &ref.C11Val{})
		for i, e := range es {
			out = append(out, &ref.C11Val{Elems: []*ref.C11Val{e}})
			if top || i < 2 {
				out = append(out, &ref.C11Val{Elems: []*ref.C11Val{e, es[(i+1)%len(es)]}})
			}
		}
		if top {
			// crossing the one-byte length prefix: 63, 64, 65 elements
			for _, n := range []int{63, 64, 65} {
				v := &ref.C11Val{}
				for i := 0; i < n; i++ {
					v.Elems = append(v.Elems, es[i%len(es)])
				}
				out = append(out, v)
			}
		}
	case ref.C11Array:
		es := c11Values(t.Elem, top)
		switch t.N {
		case 0:
			out = append(out, &ref.C11Val{})
		case 1:
			for _, e := range es {
				out = append(out, &ref.C11Val{Elems: []*ref.C11Val{e}})
			}
		default:
			for i := range es {
				v := &ref.C11Val{}
				for k := 0; k < t.N; k++ {
					v.Elems = append(v.Elems, es[(i+k)%len(es)])
				}
				out = append(out, v)
			}
		}
	case ref.C11Map:
		ks := c11Values(t.Key, top)
		es := c11Values(t.Elem, false)
		if top {
			es = c11Values(t.Elem, true)
		}
		out = append(out, &ref.C11Val{})
		n := len(ks)
		if len(es) > n {
			n = len(es)
		}
		for i := 0; i < n; i++ {
			out = append(out, &ref.C11Val{Elems: []*ref.C11Val{ks[i%len(ks)], es[i%len(es)]}})
		}
		// two and three entries, keys given in descending and in ascending order
		for i := 0; i+1 < len(ks); i++ {
			out = append(out, &ref.C11Val{Elems: []*ref.C11Val{ks[i+1], es[i%len(es)], ks[i], es[(i+1)%len(es)]}})
			if !top && i >= 1 {
				break
			}
		}
		if len(ks) >= 3 {
			out = append(out, &ref.C11Val{Elems: []*ref.C11Val{ks[0], es[0], ks[1], es[1%len(es)], ks[2], es[2%len(es)]}})
		}
		if top && len(ks) > 8 {
			v := &ref.C11Val{}
			for i, k := range ks {
				v.Elems = append(v.Elems, k, es[i%len(es)])
			}
			out = append(out, v)
		}
	case ref.C11Tuple:
		var fv [][]*ref.C11Val
		for _, f := range t.Fields {
			fv = append(fv, c11Values(f, top))
		}
		mk := func(pick func(i int) *ref.C11Val) *ref.C11Val {
			v := &ref.C11Val{}
			for i := range t.Fields {
				v.Elems = append(v.Elems, pick(i))
			}
			return v
		}
		// every value of every field, the other fields at their first value; plus all-last
		for i := range t.Fields {
			for j, x := range fv[i] {
				if j == 0 && i > 0 {
					continue
				}
				i, x := i, x
				out = append(out, mk(func(k int) *ref.C11Val {
					if k == i {
						return x
					}
					return fv[k][0]
				}))
			}
		}
		out = append(out, mk(func(k int) *ref.C11Val { return fv[k][len(fv[k])-1] }))
	case ref.C11Result:
		for idx, f := range t.Fields {
			for _, x := range c11Values(f, top) {
				out = append(out, &ref.C11Val{Idx: idx, Elems: []*ref.C11Val{x}})
			}
		}
	case ref.C11Enum:
		for idx, f := range t.Fields {
			for _, x := range c11Values(f, top) {
				out = append(out, &ref.C11Val{Idx: idx, Elems: []*ref.C11Val{x}})
			}
		}
	default:
		panic("c11Values: " + ref.C11Name(t))
	}
	return out
}

// c11Walk calls f on every (type, value) node of a value tree.
func c11Walk(t *ref.C11Type, v *ref.C11Val, f func(t *ref.C11Type, v *ref.C11Val)) {
	f(t, v)
	switch t.Kind {
	case ref.C11Option:
		if v.Idx == 1 {
			c11Walk(t.Elem, v.Elems[0], f)
		}
	case ref.C11Vec, ref.C11Array:
		for _, e := range v.Elems {
			c11Walk(t.Elem, e, f)
		}
	case ref.C11Map:
		for i := 0; i+1 < len(v.Elems); i += 2 {
			c11Walk(t.Key, v.Elems[i], f)
			c11Walk(t.Elem, v.Elems[i+1], f)
		}
	case ref.C11Tuple:
		for i, e := range v.Elems {
			c11Walk(t.Fields[i], e, f)
		}
	case ref.C11Result, ref.C11Enum:
		c11Walk(t.Fields[v.Idx], v.Elems[0], f)
	}
}

func c11HasNegativeCompact(t *ref.C11Type, v *ref.C11Val) bool {
	found := false
	c11Walk(t, v, func(t *ref.C11Type, v *ref.C11Val) {
		if (t.Kind == ref.C11Compact || t.Kind == ref.C11CompactBig) && v.N.Sign() < 0 {
			found = true
		}
	})
	return found
}

// c11FirstDiff names the kind of the first node at which two values of type t differ.
func c11FirstDiff(t *ref.C11Type, a, b *ref.C11Val) string {
	if a == nil || b == nil {
		return ref.C11KindName(t)
	}
	if ref.C11Equal(t, a, b) {
		return ""
	}
	sub := func(ct *ref.C11Type, x, y *ref.C11Val) string {
		if d := c11FirstDiff(ct, x, y); d != "" {
			return d
		}
		return ""
	}
	switch t.Kind {
	case ref.C11Option:
		if a.Idx == 1 && b.Idx == 1 {
			return sub(t.Elem, a.Elems[0], b.Elems[0])
		}
	case ref.C11Result, ref.C11Enum:
		if a.Idx == b.Idx {
			return sub(t.Fields[a.Idx], a.Elems[0], b.Elems[0])
		}
	case ref.C11Vec, ref.C11Array:
		if len(a.Elems) == len(b.Elems) {
			for i := range a.Elems {
				if d := sub(t.Elem, a.Elems[i], b.Elems[i]); d != "" {
					return d
				}
			}
		}
	case ref.C11Tuple:
		for i := range t.Fields {
			if d := sub(t.Fields[i], a.Elems[i], b.Elems[i]); d != "" {
				return d
			}
		}
	}
	return ref.C11KindName(t)
}

// c11DecLenientMaps is the reference decoder with the map-order check disabled: it is obtained by
// decoding the map as a vector of (key,value) tuples.
func c11DecLenientMaps(t *ref.C11Type, in []byte) (*ref.C11Val, int, error) {
	lt := c11MapsAsVecs(t)
	v, n, err := ref.C11Dec(lt, in)
	if err != nil {
		return nil, 0, err
	}
	return c11VecsBackToMaps(t, v), n, nil
}

func c11MapsAsVecs(t *ref.C11Type) *ref.C11Type {
	if t == nil {
		return nil
	}
	c := *t
	c.Elem = c11MapsAsVecs(t.Elem)
	c.Key = c11MapsAsVecs(t.Key)
	c.Fields = nil
	for _, f := range t.Fields {
		c.Fields = append(c.Fields, c11MapsAsVecs(f))
	}
	if t.Kind == ref.C11Map {
		return &ref.C11Type{Kind: ref.C11Vec, Elem: &ref.C11Type{Kind: ref.C11Tuple, Fields: []*ref.C11Type{c.Key, c.Elem}}}
	}
	return &c
}

func c11VecsBackToMaps(t *ref.C11Type, v *ref.C11Val) *ref.C11Val {
	out := &ref.C11Val{N: v.N, B: v.B, T: v.T, Idx: v.Idx}
	switch t.Kind {
	case ref.C11Map:
		for _, kv := range v.Elems {
			out.Elems = append(out.Elems, c11VecsBackToMaps(t.Key, kv.Elems[0]), c11VecsBackToMaps(t.Elem, kv.Elems[1]))
		}
	case ref.C11Option:
		if v.Idx == 1 {
			out.Elems = []*ref.C11Val{c11VecsBackToMaps(t.Elem, v.Elems[0])}
		}
	case ref.C11Vec, ref.C11Array:
		for _, e := range v.Elems {
			out.Elems = append(out.Elems, c11VecsBackToMaps(t.Elem, e))
		}
	case ref.C11Tuple:
		for i, e := range v.Elems {
			out.Elems = append(out.Elems, c11VecsBackToMaps(t.Fields[i], e))
		}
	case ref.C11Result, ref.C11Enum:
		out.Elems = []*ref.C11Val{c11VecsBackToMaps(t.Fields[v.Idx], v.Elems[0])}
	}
	return out
}

var c11Two64 = new(big.Int).Lsh(big.NewInt(1), 64)

// c11Unsign maps a negative Go int (which gossamer encodes as the two's complement uint64; SCALE has
// no compact form for negative numbers) to the unsigned number whose compact encoding it is.
func c11Unsign(t *ref.C11Type, v *ref.C11Val) *ref.C11Val {
	out := &ref.C11Val{N: v.N, B: v.B, T: v.T, Idx: v.Idx}
	if t.Kind == ref.C11Compact && t.Signed && v.N.Sign() < 0 {
		out.N = new(big.Int).Add(v.N, c11Two64)
		return out
	}
	switch t.Kind {
	case ref.C11Option:
		if v.Idx == 1 {
			out.Elems = []*ref.C11Val{c11Unsign(t.Elem, v.Elems[0])}
		}
	case ref.C11Vec, ref.C11Array:
		for _, e := range v.Elems {
			out.Elems = append(out.Elems, c11Unsign(t.Elem, e))
		}
	case ref.C11Map:
		for i := 0; i+1 < len(v.Elems); i += 2 {
			out.Elems = append(out.Elems, c11Unsign(t.Key, v.Elems[i]), c11Unsign(t.Elem, v.Elems[i+1]))
		}
	case ref.C11Tuple:
		for i, e := range v.Elems {
			out.Elems = append(out.Elems, c11Unsign(t.Fields[i], e))
		}
	case ref.C11Result, ref.C11Enum:
		out.Elems = []*ref.C11Val{c11Unsign(t.Fields[v.Idx], v.Elems[0])}
	}
	return out
}

// c11PanicSite names the first function of pkg/scale itself on the stack of a captured panic.
func c11PanicSite(msg string) string {
	const pfx = "github.com/ChainSafe/gossamer/pkg/scale."
	seenPanic := false
	for _, l := range strings.Split(msg, "\n") {
		if strings.HasPrefix(l, "panic(") {
			seenPanic = true
			continue
		}
		if !seenPanic || !strings.HasPrefix(l, pfx) {
			continue
		}
		fn := strings.TrimPrefix(l, pfx)
		if k := strings.LastIndex(fn, "("); k > 0 {
			fn = fn[:k]
		}
		if strings.Contains(fn, "c11") || strings.Contains(fn, "c12") || strings.Contains(fn, "TestVerif") {
			continue
		}
		return fn
	}
	return "unknown"
}

// c11Counts accumulates counters locally and flushes them into the report in one go.
type c11Counts struct {
	add     map[string]int64
	outcome map[string]int64
	vio     map[string]int    // violations seen per signature in this task (not reported; see c12Violate)
	sites   map[string]string // panic message -> panic site (stack captured once per message)
}

func c11NewCounts() *c11Counts {
	return &c11Counts{add: map[string]int64{}, outcome: map[string]int64{}, vio: map[string]int{}, sites: map[string]string{}}
}

var (
	c11FlushMu  sync.Mutex
	c11Outcomes = map[*verifmc.Report]map[string]int64{}
)

// flush adds the local counters to the report; outcome classes are parked until c11Finish.
func (c *c11Counts) flush(r *verifmc.Report) {
	for k, n := range c.add {
		r.Add(k, n)
	}
	c11FlushMu.Lock()
	defer c11FlushMu.Unlock()
	m := c11Outcomes[r]
	if m == nil {
		m = map[string]int64{}
		c11Outcomes[r] = m
	}
	for k, n := range c.outcome {
		m[k] += n
	}
}

// c11Finish moves the parked outcome classes into the report (call once, after all workers are done).
func c11Finish(r *verifmc.Report) {
	c11FlushMu.Lock()
	defer c11FlushMu.Unlock()
	for k, n := range c11Outcomes[r] {
		r.Outcomes[k] += n
	}
	delete(c11Outcomes, r)
}
