//go:build verif

package sync

// Shared by C31 and C32: deterministic real types.Header construction (BABE secondary-plain
// pre-digest so that blocktree/BlockState accept the block; content is a function of the
// arguments only, so hashes are identical across runs).

import (
	"encoding/binary"

	"github.com/ChainSafe/gossamer/dot/types"
	"github.com/ChainSafe/gossamer/internal/log"
	"github.com/ChainSafe/gossamer/lib/common"
)

// c31Quiet silences every gossamer logger (they all derive from the global one).
func c31Quiet() { log.Patch(log.SetLevel(log.Critical)) }

// c31Salt32 spreads a label over 32 bytes (used as a unique state root / extrinsics root).
func c31Salt32(tag byte, label uint64) common.Hash {
	var h common.Hash
	h[0] = tag
	binary.BigEndian.PutUint64(h[8:16], label)
	binary.BigEndian.PutUint64(h[24:32], label*0x9e3779b97f4a7c15+1)
	return h
}

// c31MakeHeader builds a header with the given parent, number and state root; label makes the
// content (slot number, extrinsics root) unique.  The hash is computed before returning so the
// header can be shared read-only between goroutines.
func c31MakeHeader(parent common.Hash, number uint, label uint64, stateRoot common.Hash) *types.Header {
	pd, err := types.NewBabeSecondaryPlainPreDigest(0, 1000+label).ToPreRuntimeDigest()
	if err != nil {
		panic(err)
	}
	digest := types.NewDigest()
	if err := digest.Add(*pd); err != nil {
		panic(err)
	}
	h := types.NewHeader(parent, stateRoot, c31Salt32(0xe7, label), number, digest)
	h.Hash()
	return h
}
