//go:build verif

package blocktree

// Shared by C15 and C16: deterministic real headers for labelled tree nodes and a
// plain parent-map reference model of the block tree.  Nothing here calls the
// query methods of the code under test.

import (
	"fmt"
	"sort"
	"sync"

	"github.com/ChainSafe/gossamer/dot/types"
	"github.com/ChainSafe/gossamer/lib/common"
)

// c15PreDigest builds the BABE pre-runtime digest of a block with the given label.
// primary -> BabePrimaryPreDigest; secondary -> plain (even label) or VRF (odd label).
func c15PreDigest(label int, primary bool) types.Digest {
	var pre *types.PreRuntimeDigest
	var err error
	switch {
	case primary:
		pre, err = types.BabePrimaryPreDigest{AuthorityIndex: uint32(label), SlotNumber: uint64(100 + label)}.ToPreRuntimeDigest()
	case label%2 == 0:
		pre, err = types.BabeSecondaryPlainPreDigest{AuthorityIndex: uint32(label), SlotNumber: uint64(100 + label)}.ToPreRuntimeDigest()
	default:
		pre, err = types.BabeSecondaryVRFPreDigest{AuthorityIndex: uint32(label), SlotNumber: uint64(100 + label)}.ToPreRuntimeDigest()
	}
	if err != nil {
		panic(err)
	}
	d := types.NewDigest()
	if err := d.Add(*pre); err != nil {
		panic(err)
	}
	return d
}

// c15Header is the header of the block with the given label: its content is a function of
// (label, parent hash, number, mark) only, hence so is its hash.
func c15Header(label int, parentHash common.Hash, number uint, primary bool) *types.Header {
	key := c15HeaderKey{label, parentHash, number, primary}
	if h, ok := c15HeaderCache.Load(key); ok {
		return h.(*types.Header)
	}
	h := c15BuildHeader(label, parentHash, number, primary)
	c15HeaderCache.Store(key, h)
	return h
}

type c15HeaderKey struct {
	label   int
	parent  common.Hash
	number  uint
	primary bool
}

// headers are immutable once their hash is cached, so they are shared between histories
var c15HeaderCache sync.Map

func c15BuildHeader(label int, parentHash common.Hash, number uint, primary bool) *types.Header {
	h := &types.Header{
		ParentHash: parentHash,
		Number:     number,
		StateRoot:  common.Hash{0xc1, byte(label + 1)},
		Digest:     c15PreDigest(label, primary),
	}
	h.Hash()
	return h
}

// c15RootHeader is the header of the initial finalised block.
func c15RootHeader(number uint) *types.Header {
	h := &types.Header{
		ParentHash: common.Hash{0xee},
		Number:     number,
		StateRoot:  common.Hash{0xc1, 0x01},
		Digest:     types.NewDigest(),
	}
	h.Hash()
	return h
}

// c15Model is the reference: labelled blocks with parent links, and which of them the tree
// must hold (exactly the descendants of the last finalised block).
type c15Model struct {
	hash    []common.Hash
	header  []*types.Header
	parent  []int // label of the parent; -1 for the initial root
	number  []uint
	primary []bool
	inTree  []bool // added successfully and descends from the last finalised block
	root    int
	byHash  map[common.Hash]int
}

func c15NewModel(rootNumber uint) *c15Model {
	m := &c15Model{byHash: map[common.Hash]int{}}
	h := c15RootHeader(rootNumber)
	m.push(h, -1, rootNumber, false, true)
	return m
}

func (m *c15Model) push(h *types.Header, parent int, number uint, primary, inTree bool) int {
	l := len(m.hash)
	m.hash = append(m.hash, h.Hash())
	m.header = append(m.header, h)
	m.parent = append(m.parent, parent)
	m.number = append(m.number, number)
	m.primary = append(m.primary, primary)
	m.inTree = append(m.inTree, inTree)
	m.byHash[h.Hash()] = l
	return l
}

// newBlock creates the next labelled block as a child of parent (which may be a block the
// tree no longer holds); the block is held iff its parent is.
func (m *c15Model) newBlock(parent int, primary bool) (label int, h *types.Header) {
	label = len(m.hash)
	h = c15Header(label, m.hash[parent], m.number[parent]+1, primary)
	m.push(h, parent, m.number[parent]+1, primary, m.inTree[parent])
	return label, h
}

// anc: a is an ancestor of b or equal to it, following parent links inside the tree.
func (m *c15Model) anc(a, b int) bool {
	for x := b; x >= 0; x = m.parent[x] {
		if x == a {
			return true
		}
		if x == m.root {
			return false
		}
	}
	return false
}

func (m *c15Model) held() []int {
	var out []int
	for l, in := range m.inTree {
		if in {
			out = append(out, l)
		}
	}
	return out
}

func (m *c15Model) children(a int) []int {
	var out []int
	for l, in := range m.inTree {
		if in && l != m.root && m.parent[l] == a {
			out = append(out, l)
		}
	}
	return out
}

func (m *c15Model) leaves() []int {
	hasChild := map[int]bool{}
	for l, in := range m.inTree {
		if in && l != m.root {
			hasChild[m.parent[l]] = true
		}
	}
	var out []int
	for l, in := range m.inTree {
		if in && !hasChild[l] {
			out = append(out, l)
		}
	}
	return out
}

// path returns the labels from a down to b (a must be anc of b).
func (m *c15Model) path(a, b int) []int {
	var rev []int
	for x := b; ; x = m.parent[x] {
		rev = append(rev, x)
		if x == a {
			break
		}
	}
	out := make([]int, len(rev))
	for i := range rev {
		out[i] = rev[len(rev)-1-i]
	}
	return out
}

func (m *c15Model) lca(a, b int) int {
	for x := a; ; x = m.parent[x] {
		if m.anc(x, b) {
			return x
		}
	}
}

// finalise moves the root to x and returns the labels that must be reported as pruned:
// held blocks that are neither ancestors nor descendants of x.
func (m *c15Model) finalise(x int) (pruned []int) {
	for _, l := range m.held() {
		switch {
		case m.anc(x, l): // descendant or x itself: stays
		case m.anc(l, x): // ancestor: finalised, leaves the in-memory tree, not "pruned"
			m.inTree[l] = false
		default:
			pruned = append(pruned, l)
			m.inTree[l] = false
		}
	}
	m.root = x
	return pruned
}

// primariesAfterRoot counts primary blocks on the chain of l after the finalised root.
func (m *c15Model) primariesAfterRoot(l int) int {
	c := 0
	for x := l; x != m.root; x = m.parent[x] {
		if m.primary[x] {
			c++
		}
	}
	return c
}

func (m *c15Model) label(h common.Hash) string {
	if l, ok := m.byHash[h]; ok {
		return fmt.Sprintf("b%d", l)
	}
	return "?" + h.String()[:10]
}

func (m *c15Model) labels(hs []common.Hash) string {
	s := make([]string, len(hs))
	for i, h := range hs {
		s[i] = m.label(h)
	}
	return fmt.Sprint(s)
}

func c15LabelSet(ls []int) string {
	c := append([]int{}, ls...)
	sort.Ints(c)
	return fmt.Sprint(c)
}

// c15Dump is a canonical dump of the private state of the real tree (labels instead of hashes).
func c15Dump(bt *BlockTree, m *c15Model) string {
	var rec func(n *node) string
	rec = func(n *node) string {
		s := fmt.Sprintf("(%s#%d", m.label(n.hash), n.number)
		if n.isPrimary {
			s += "P"
		}
		if n.parent != nil {
			s += "^" + m.label(n.parent.hash)
		}
		for _, c := range n.children {
			s += rec(c)
		}
		return s + ")"
	}
	var lv []string
	for h := range bt.leaves.toMap() {
		lv = append(lv, m.label(h))
	}
	sort.Strings(lv)
	return rec(bt.root) + fmt.Sprint(lv)
}
