//go:build verif

package types_test

// C14/C33 shared: builders of real dot/types values from the abstract descriptions of
// internal/verifmc/ref (c14_chain.go), through the exported API only.  The same file is injected in
// every package whose harness needs real headers.

import (
	"fmt"

	"github.com/ChainSafe/gossamer/dot/types"
	"github.com/ChainSafe/gossamer/internal/verifmc/ref"
)

// c14BuildDigest builds the real types.Digest through the exported API.
func c14BuildDigest(items []ref.C14Item) (types.Digest, error) {
	d := types.NewDigest()
	for _, it := range items {
		var err error
		data := append([]byte{}, it.Data...)
		switch it.Kind {
		case ref.C14KindPreRuntime:
			err = d.Add(types.PreRuntimeDigest{ConsensusEngineID: it.Engine, Data: data})
		case ref.C14KindConsensus:
			err = d.Add(types.ConsensusDigest{ConsensusEngineID: it.Engine, Data: data})
		case ref.C14KindSeal:
			err = d.Add(types.SealDigest{ConsensusEngineID: it.Engine, Data: data})
		case ref.C14KindRuntimeEnv:
			err = d.Add(types.RuntimeEnvironmentUpdated{})
		default:
			err = fmt.Errorf("no Go variant for digest item kind %d", it.Kind)
		}
		if err != nil {
			return nil, err
		}
	}
	return d, nil
}

// c14BuildHeader builds the real types.Header (hash not yet computed).
func c14BuildHeader(h ref.C14Header) (*types.Header, error) {
	d, err := c14BuildDigest(h.Items)
	if err != nil {
		return nil, err
	}
	return &types.Header{ParentHash: h.Parent, Number: uint(h.Number), StateRoot: h.StateRoot, ExtrinsicsRoot: h.ExtrinsicsRoot, Digest: d}, nil
}

// c14AbstractHeader reads a real header back into the abstract form.
func c14AbstractHeader(h *types.Header) (ref.C14Header, error) {
	out := ref.C14Header{Parent: h.ParentHash, StateRoot: h.StateRoot, ExtrinsicsRoot: h.ExtrinsicsRoot, Number: uint64(h.Number)}
	for _, di := range h.Digest {
		v, err := di.Value()
		if err != nil {
			return out, fmt.Errorf("digest item without value: %w", err)
		}
		switch x := v.(type) {
		case types.PreRuntimeDigest:
			out.Items = append(out.Items, ref.C14Item{Kind: ref.C14KindPreRuntime, Engine: x.ConsensusEngineID, Data: x.Data})
		case types.ConsensusDigest:
			out.Items = append(out.Items, ref.C14Item{Kind: ref.C14KindConsensus, Engine: x.ConsensusEngineID, Data: x.Data})
		case types.SealDigest:
			out.Items = append(out.Items, ref.C14Item{Kind: ref.C14KindSeal, Engine: x.ConsensusEngineID, Data: x.Data})
		case types.RuntimeEnvironmentUpdated:
			out.Items = append(out.Items, ref.C14Item{Kind: ref.C14KindRuntimeEnv})
		default:
			// a variant added by a repair (e.g. an Other digest): recognised structurally
			if b, ok := ref.C14OtherBytes(v); ok {
				out.Items = append(out.Items, ref.C14Item{Kind: ref.C14KindOther, Data: b})
				continue
			}
			return out, fmt.Errorf("digest item of unknown Go type %T", v)
		}
	}
	return out, nil
}
