//go:build verif

package grandpa

// Shared by C18, C21 (and meant for C22): a real grandpa.Service built through the real NewService
// over hand-written minimal fakes of the BlockState / GrandpaState / Network / Telemetry
// interfaces.  The block tree behind the fake BlockState is a real lib/blocktree (so ancestry
// errors carry the same sentinel values as in production) filled with real types.Header values
// built from a parent vector; oracles never use it — they walk the plain parent vector
// (c21Tree.isAnc).  Keys are fixed ed25519 keys from constant seeds; signatures are cached
// (ed25519 signing/verification is the cost driver).  See /verif/harness/C21/NOTES.md.

import (
	"encoding/json"
	"errors"
	"fmt"
	"sync"
	"time"

	"github.com/ChainSafe/gossamer/dot/network"
	"github.com/ChainSafe/gossamer/dot/state"
	"github.com/ChainSafe/gossamer/dot/types"
	"github.com/ChainSafe/gossamer/internal/database"
	"github.com/ChainSafe/gossamer/internal/log"
	"github.com/ChainSafe/gossamer/lib/blocktree"
	"github.com/ChainSafe/gossamer/lib/common"
	"github.com/ChainSafe/gossamer/lib/crypto/ed25519"
	"github.com/ChainSafe/gossamer/lib/runtime"
	"github.com/ChainSafe/gossamer/pkg/scale"
	"github.com/libp2p/go-libp2p/core/peer"
	"github.com/libp2p/go-libp2p/core/protocol"
)

// ---------------------------------------------------------------- keys and signatures

const c21MaxKeys = 12

var (
	c21KeyOnce sync.Once
	c21Keys    [c21MaxKeys]*ed25519.Keypair
)

// c21Keypair returns the i-th fixed key (seed = c2 21 <i> 00...).  Keys 0..n-1 are the authorities
// of an n-voter set; higher indices serve as non-authorities.
func c21Keypair(i int) *ed25519.Keypair {
	c21KeyOnce.Do(func() {
		for k := 0; k < c21MaxKeys; k++ {
			seed := make([]byte, ed25519.SeedLength)
			seed[0], seed[1], seed[2] = 0xc2, 0x21, byte(k)
			kp, err := ed25519.NewKeypairFromSeed(seed)
			if err != nil {
				panic(err)
			}
			c21Keys[k] = kp
		}
	})
	return c21Keys[i]
}

func c21PubBytes(i int) ed25519.PublicKeyBytes {
	return c21Keypair(i).Public().(*ed25519.PublicKey).AsBytes()
}

// c21Voters is the authority set made of keys 0..n-1 (weight 1 each; ID = index).
func c21Voters(n int) []Voter {
	vs := make([]Voter, n)
	for i := 0; i < n; i++ {
		vs[i] = Voter{Key: *c21Keypair(i).Public().(*ed25519.PublicKey), ID: uint64(i)}
	}
	return vs
}

type c21SigKey struct {
	key   int
	stage Subround
	vote  Vote
	round uint64
	setID uint64
}

var c21SigCache sync.Map // c21SigKey -> [64]byte

// c21Sign signs FullVote{stage, vote, round, setID} with key i (cached).
func c21Sign(i int, stage Subround, vote Vote, round, setID uint64) [64]byte {
	k := c21SigKey{i, stage, vote, round, setID}
	if s, ok := c21SigCache.Load(k); ok {
		return s.([64]byte)
	}
	msg, err := scale.Marshal(FullVote{Stage: stage, Vote: vote, Round: round, SetID: setID})
	if err != nil {
		panic(err)
	}
	sig, err := c21Keypair(i).Sign(msg)
	if err != nil {
		panic(err)
	}
	var out [64]byte
	copy(out[:], sig)
	c21SigCache.Store(k, out)
	return out
}

// c21VoteMsg is a correctly signed vote message of key i.
func c21VoteMsg(i int, stage Subround, vote Vote, round, setID uint64) *VoteMessage {
	return &VoteMessage{
		Round: round,
		SetID: setID,
		Message: SignedMessage{
			Stage:       stage,
			BlockHash:   vote.Hash,
			Number:      vote.Number,
			Signature:   c21Sign(i, stage, vote, round, setID),
			AuthorityID: c21PubBytes(i),
		},
	}
}

// ---------------------------------------------------------------- tree of real headers

// c21Tree is a block tree given as a parent vector (parent[0] = -1, parent[i] < i) with a real
// header per node.  Node 0 has number baseNum.  Header content (hence hash) is a function of
// (index, parent hash, number) only.
type c21Tree struct {
	parent []int
	hdr    []*types.Header
	hash   []common.Hash
	num    []uint
	idx    map[common.Hash]int
}

func c21PreDigest(label int) types.Digest {
	pre, err := types.BabeSecondaryPlainPreDigest{AuthorityIndex: uint32(label), SlotNumber: uint64(100 + label)}.ToPreRuntimeDigest()
	if err != nil {
		panic(err)
	}
	d := types.NewDigest()
	if err := d.Add(*pre); err != nil {
		panic(err)
	}
	return d
}

func c21NewTree(parent []int) *c21Tree {
	t := &c21Tree{parent: append([]int{}, parent...), idx: map[common.Hash]int{}}
	for i, p := range parent {
		var h *types.Header
		if i == 0 {
			h = &types.Header{ParentHash: common.Hash{}, Number: 0, StateRoot: common.Hash{0xc2, 0x21, 0x01}, Digest: types.NewDigest()}
		} else {
			h = &types.Header{ParentHash: t.hash[p], Number: t.num[p] + 1, StateRoot: common.Hash{0xc2, 0x21, byte(i + 1)}, Digest: c21PreDigest(i)}
		}
		h.Hash()
		t.hdr = append(t.hdr, h)
		t.hash = append(t.hash, h.Hash())
		t.num = append(t.num, h.Number)
		t.idx[h.Hash()] = i
	}
	return t
}

// isAnc: a is an ancestor of or equal to b (plain parent-vector walk; the oracle's ancestry).
func (t *c21Tree) isAnc(a, b int) bool {
	for b >= 0 {
		if a == b {
			return true
		}
		b = t.parent[b]
	}
	return false
}

func (t *c21Tree) vote(i int) Vote { return Vote{Hash: t.hash[i], Number: uint32(t.num[i])} }

// c21UnknownHash is a hash that no tree contains.
var c21UnknownHash = common.Hash{0xde, 0xad, 0xc2, 0x21}

// ---------------------------------------------------------------- fake BlockState

type c21FinalCall struct {
	Hash  common.Hash
	Round uint64
	SetID uint64
}

// c21BlockState implements grandpa.BlockState over a c21Tree and a real blocktree.
type c21BlockState struct {
	mu        sync.Mutex
	tree      *c21Tree
	bt        *blocktree.BlockTree
	head      int // index of the highest finalised block
	finalised map[[2]uint64]common.Hash
	hiRound   uint64
	hiSetID   uint64
	calls     []c21FinalCall // every SetFinalisedHash call, in order
	justif    map[common.Hash][]byte
	failSetFn func(common.Hash) error // optional: make SetFinalisedHash fail
}

var c21ArrivalBase = time.Unix(1_700_000_000, 0)

// c21NewBlockState builds the fake; head is the index of the already finalised block (round 0, set 0).
func c21NewBlockState(tree *c21Tree, head int) *c21BlockState {
	bt := blocktree.NewBlockTreeFromRoot(tree.hdr[0])
	for i := 1; i < len(tree.parent); i++ {
		if err := bt.AddBlock(tree.hdr[i], c21ArrivalBase.Add(time.Duration(i)*time.Second)); err != nil {
			panic(fmt.Sprintf("c21: AddBlock node %d: %v", i, err))
		}
	}
	return &c21BlockState{
		tree: tree, bt: bt, head: head,
		finalised: map[[2]uint64]common.Hash{{0, 0}: tree.hash[head]},
		justif:    map[common.Hash][]byte{},
	}
}

func (b *c21BlockState) GenesisHash() common.Hash { return b.tree.hash[0] }

func (b *c21BlockState) HasHeader(hash common.Hash) (bool, error) {
	_, ok := b.tree.idx[hash]
	return ok, nil
}

func (b *c21BlockState) GetHeader(hash common.Hash) (*types.Header, error) {
	i, ok := b.tree.idx[hash]
	if !ok {
		return nil, database.ErrNotFound // what state.BlockState.GetHeader returns for an unknown hash
	}
	return b.tree.hdr[i], nil
}

func (b *c21BlockState) GetHeaderByNumber(num uint) (*types.Header, error) {
	h, err := b.bt.GetHashByNumber(num) // block with that number on the best chain, as state.BlockState does
	if err != nil {
		return nil, fmt.Errorf("failed to get hash from blocktree: %w", err)
	}
	return b.GetHeader(h)
}

// IsDescendantOf mirrors state.BlockState.IsDescendantOf: blocktree first, header walk as fallback.
func (b *c21BlockState) IsDescendantOf(ancestor, descendant common.Hash) (bool, error) {
	is, err := b.bt.IsDescendantOf(ancestor, descendant)
	if err == nil {
		return is, nil
	}
	dh, err2 := b.GetHeader(descendant)
	if err2 != nil {
		return false, fmt.Errorf("getting header: %w", err2)
	}
	ah, err2 := b.GetHeader(ancestor)
	if err2 != nil {
		return false, fmt.Errorf("getting header: %w", err2)
	}
	for cur := dh; cur.Number > ah.Number; {
		if cur.ParentHash == ancestor {
			return true, nil
		}
		cur, err2 = b.GetHeader(cur.ParentHash)
		if err2 != nil {
			return false, fmt.Errorf("getting header: %w", err2)
		}
	}
	return false, nil
}

func (b *c21BlockState) LowestCommonAncestor(x, y common.Hash) (common.Hash, error) {
	return b.bt.LowestCommonAncestor(x, y)
}

func (b *c21BlockState) HasFinalisedBlock(round, setID uint64) (bool, error) {
	b.mu.Lock()
	defer b.mu.Unlock()
	_, ok := b.finalised[[2]uint64{round, setID}]
	return ok, nil
}

func (b *c21BlockState) GetFinalisedHash(round, setID uint64) (common.Hash, error) {
	b.mu.Lock()
	defer b.mu.Unlock()
	h, ok := b.finalised[[2]uint64{round, setID}]
	if !ok {
		return common.Hash{}, database.ErrNotFound
	}
	return h, nil
}

func (b *c21BlockState) GetFinalisedHeader(round, setID uint64) (*types.Header, error) {
	h, err := b.GetFinalisedHash(round, setID)
	if err != nil {
		return nil, err
	}
	return b.GetHeader(h)
}

func (b *c21BlockState) GetRoundAndSetID() (uint64, uint64) {
	b.mu.Lock()
	defer b.mu.Unlock()
	return b.hiRound, b.hiSetID
}

func (b *c21BlockState) GetHighestRoundAndSetID() (uint64, uint64, error) {
	r, s := b.GetRoundAndSetID()
	return r, s, nil
}

func (b *c21BlockState) SetFinalisedHash(hash common.Hash, round, setID uint64) error {
	b.mu.Lock()
	defer b.mu.Unlock()
	b.calls = append(b.calls, c21FinalCall{hash, round, setID})
	if b.failSetFn != nil {
		if err := b.failSetFn(hash); err != nil {
			return err
		}
	}
	i, ok := b.tree.idx[hash]
	if !ok {
		return fmt.Errorf("cannot finalise unknown block %s", hash)
	}
	b.finalised[[2]uint64{round, setID}] = hash
	if setID > b.hiSetID || (setID == b.hiSetID && round > b.hiRound) {
		b.hiRound, b.hiSetID = round, setID
	}
	b.head = i // the fake never prunes: forks stay queryable, as the headers of pruned forks are not needed here
	return nil
}

// c21FinalCalls returns a copy of the SetFinalisedHash calls seen so far.
func (b *c21BlockState) c21FinalCalls() []c21FinalCall {
	b.mu.Lock()
	defer b.mu.Unlock()
	return append([]c21FinalCall{}, b.calls...)
}

// c21Reset forgets every finalisation after construction and puts the head back.
func (b *c21BlockState) c21Reset(head int) {
	b.mu.Lock()
	defer b.mu.Unlock()
	b.head = head
	b.finalised = map[[2]uint64]common.Hash{{0, 0}: b.tree.hash[head]}
	b.hiRound, b.hiSetID = 0, 0
	b.calls = nil
	b.justif = map[common.Hash][]byte{}
}

func (b *c21BlockState) BestBlockHash() common.Hash { return b.bt.BestBlockHash() }

func (b *c21BlockState) BestBlockHeader() (*types.Header, error) { return b.GetHeader(b.bt.BestBlockHash()) }

func (b *c21BlockState) BestBlockNumber() (uint, error) {
	h, err := b.BestBlockHeader()
	if err != nil {
		return 0, err
	}
	return h.Number, nil
}

func (b *c21BlockState) GetHighestFinalisedHeader() (*types.Header, error) {
	b.mu.Lock()
	defer b.mu.Unlock()
	return b.tree.hdr[b.head], nil
}

func (b *c21BlockState) GetImportedBlockNotifierChannel() chan *types.Block {
	return make(chan *types.Block, 1)
}
func (b *c21BlockState) FreeImportedBlockNotifierChannel(chan *types.Block) {}
func (b *c21BlockState) GetFinalisedNotifierChannel() chan *types.FinalisationInfo {
	return make(chan *types.FinalisationInfo, 1)
}
func (b *c21BlockState) FreeFinalisedNotifierChannel(chan *types.FinalisationInfo) {}

func (b *c21BlockState) SetJustification(hash common.Hash, data []byte) error {
	b.mu.Lock()
	defer b.mu.Unlock()
	b.justif[hash] = data
	return nil
}

func (b *c21BlockState) GetJustification(hash common.Hash) ([]byte, error) {
	b.mu.Lock()
	defer b.mu.Unlock()
	d, ok := b.justif[hash]
	if !ok {
		return nil, database.ErrNotFound
	}
	return d, nil
}

var errC21NoRuntime = errors.New("c21: no runtime in the fake block state")

// GetRuntime: none.  reportEquivocation logs the error and the vote handling carries on, as in production
// when the report cannot be submitted.
func (b *c21BlockState) GetRuntime(common.Hash) (runtime.Instance, error) { return nil, errC21NoRuntime }

// ---------------------------------------------------------------- fake GrandpaState

type c21GrandpaState struct {
	mu          sync.Mutex
	setID       uint64
	latestRound uint64
	auths       map[uint64][]types.GrandpaVoter
	prevotes    map[[2]uint64][]SignedVote
	precommits  map[[2]uint64][]SignedVote
	// nextChange: effective block number of a pending authority change announced at the tree root
	// (0 = none).  Like state.GrandpaState it is only reported for blocks whose number has reached it.
	nextChange uint
}

func c21NewGrandpaState(voters []Voter) *c21GrandpaState {
	return &c21GrandpaState{
		auths:      map[uint64][]types.GrandpaVoter{0: voters},
		prevotes:   map[[2]uint64][]SignedVote{},
		precommits: map[[2]uint64][]SignedVote{},
	}
}

func (g *c21GrandpaState) GetCurrentSetID() (uint64, error) { return g.setID, nil }
func (g *c21GrandpaState) GetAuthorities(setID uint64) ([]types.GrandpaVoter, error) {
	a, ok := g.auths[setID]
	if !ok {
		return nil, database.ErrNotFound
	}
	return a, nil
}
func (g *c21GrandpaState) GetSetIDByBlockNumber(uint) (uint64, error) { return g.setID, nil }
func (g *c21GrandpaState) SetLatestRound(round uint64) error {
	g.mu.Lock()
	defer g.mu.Unlock()
	g.latestRound = round
	return nil
}
func (g *c21GrandpaState) GetLatestRound() (uint64, error) {
	g.mu.Lock()
	defer g.mu.Unlock()
	return g.latestRound, nil
}
func (g *c21GrandpaState) SetPrevotes(round, setID uint64, data []SignedVote) error {
	g.mu.Lock()
	defer g.mu.Unlock()
	g.prevotes[[2]uint64{round, setID}] = data
	return nil
}
func (g *c21GrandpaState) SetPrecommits(round, setID uint64, data []SignedVote) error {
	g.mu.Lock()
	defer g.mu.Unlock()
	g.precommits[[2]uint64{round, setID}] = data
	return nil
}
func (g *c21GrandpaState) GetPrevotes(round, setID uint64) ([]SignedVote, error) {
	g.mu.Lock()
	defer g.mu.Unlock()
	d, ok := g.prevotes[[2]uint64{round, setID}]
	if !ok {
		return nil, database.ErrNotFound
	}
	return d, nil
}
func (g *c21GrandpaState) GetPrecommits(round, setID uint64) ([]SignedVote, error) {
	g.mu.Lock()
	defer g.mu.Unlock()
	d, ok := g.precommits[[2]uint64{round, setID}]
	if !ok {
		return nil, database.ErrNotFound
	}
	return d, nil
}
func (g *c21GrandpaState) NextGrandpaAuthorityChange(_ common.Hash, number uint) (uint, error) {
	if g.nextChange == 0 || g.nextChange > number {
		return 0, state.ErrNoNextAuthorityChange
	}
	return g.nextChange, nil
}
func (g *c21GrandpaState) GetAuthoritiesChangesFromBlock(uint) ([]uint, error) { return nil, nil }

// ---------------------------------------------------------------- fake Network / Telemetry

type c21Sent struct {
	To  peer.ID // "" for gossip
	Msg network.NotificationsMessage
}

type c21Network struct {
	mu   sync.Mutex
	sent []c21Sent
}

func (n *c21Network) GossipMessage(msg network.NotificationsMessage) {
	n.mu.Lock()
	n.sent = append(n.sent, c21Sent{Msg: msg})
	n.mu.Unlock()
}
func (n *c21Network) SendMessage(to peer.ID, msg NotificationsMessage) error {
	n.mu.Lock()
	n.sent = append(n.sent, c21Sent{To: to, Msg: msg})
	n.mu.Unlock()
	return nil
}
func (n *c21Network) RegisterNotificationsProtocol(protocol.ID, network.MessageType, network.HandshakeGetter,
	network.HandshakeDecoder, network.HandshakeValidator, network.MessageDecoder,
	network.NotificationsMessageHandler, network.NotificationsMessageBatchHandler, uint64) error {
	return nil
}

type c21Telemetry struct{}

func (c21Telemetry) SendMessage(json.Marshaler) {}

// ---------------------------------------------------------------- the node

// c21Node is one real Service with its fakes.
type c21Node struct {
	svc  *Service
	bs   *c21BlockState
	gs   *c21GrandpaState
	net  *c21Network
	tree *c21Tree
	self int
}

// c21NewNode builds a real Service with the real NewService: voters = keys 0..n-1, own key = key
// `self`, finalised head = tree node `head`.  The service is NOT started (no goroutines, no timers):
// harnesses call the unexported methods directly.  state.round is 0 after this; call
// node.svc.initiateRound() (the real round opening) to get to round 1.
func c21NewNode(tree *c21Tree, head, n, self int) *c21Node {
	bs := c21NewBlockState(tree, head)
	gs := c21NewGrandpaState(c21Voters(n))
	net := &c21Network{}
	svc, err := NewService(&Config{
		LogLvl:       log.Critical, // verifyCommitMessageJustification logs every bad entry at error level
		BlockState:   bs,
		GrandpaState: gs,
		Network:      net,
		Voters:       c21Voters(n),
		Keypair:      c21Keypair(self),
		Authority:    true,
		Interval:     time.Hour, // never used: nothing is started
		Telemetry:    c21Telemetry{},
	})
	if err != nil {
		panic(fmt.Sprintf("c21: NewService: %v", err))
	}
	return &c21Node{svc: svc, bs: bs, gs: gs, net: net, tree: tree, self: self}
}

// c21StoreOwnVote stores the node's own vote exactly as votingRoundHandler.Run does (own votes never
// go through validateVoteMessage, which rejects them with errVoteFromSelf).
func (nd *c21Node) c21StoreOwnVote(v Vote, stage Subround) {
	sv, _, err := nd.svc.createSignedVoteAndVoteMessage(&v, stage)
	if err != nil {
		panic(err)
	}
	if stage == precommit {
		nd.svc.precommits.Store(nd.svc.publicKeyBytes(), sv)
	} else {
		nd.svc.prevotes.Store(nd.svc.publicKeyBytes(), sv)
	}
}

// ---------------------------------------------------------------- recycling (NewService costs ~1 ms: the tracker's 1000-slot maps)

// c21Recycle puts the node back into the state c21NewNode leaves it in (round 0, no votes, nothing
// finalised, head = tree node `head`).  The only thing kept is the message tracker, which the
// un-started service only ever writes to (tracker.addVote/addCommit) and never reads.
func (nd *c21Node) c21Recycle(head int) {
	nd.bs.c21Reset(head)
	nd.gs.mu.Lock()
	nd.gs.setID, nd.gs.latestRound, nd.gs.nextChange = 0, 0, 0
	nd.gs.prevotes = map[[2]uint64][]SignedVote{}
	nd.gs.precommits = map[[2]uint64][]SignedVote{}
	nd.gs.mu.Unlock()
	nd.net.mu.Lock()
	nd.net.sent = nil
	nd.net.mu.Unlock()
	s := nd.svc
	s.state = NewState(nd.gs.auths[0], 0, 0)
	s.prevotes = new(sync.Map)
	s.precommits = new(sync.Map)
	s.pvEquivocations = make(map[ed25519.PublicKeyBytes][]*SignedVote)
	s.pcEquivocations = make(map[ed25519.PublicKeyBytes][]*SignedVote)
	s.preVotedBlock = make(map[uint64]*Vote)
	s.bestFinalCandidate = make(map[uint64]*Vote)
	s.head = nd.tree.hdr[head]
	s.paused.Store(false)
}

type c21PoolKey struct {
	tree    *c21Tree
	n, self int
}

var c21Pools sync.Map // c21PoolKey -> *sync.Pool

// c21GetNode returns a node equivalent to c21NewNode(tree, head, n, self), recycled when possible.
func c21GetNode(tree *c21Tree, head, n, self int) *c21Node {
	k := c21PoolKey{tree, n, self}
	p, _ := c21Pools.LoadOrStore(k, &sync.Pool{})
	if x := p.(*sync.Pool).Get(); x != nil {
		nd := x.(*c21Node)
		nd.c21Recycle(head)
		return nd
	}
	return c21NewNode(tree, head, n, self)
}

// c21PutNode hands a node back for reuse.
func c21PutNode(nd *c21Node) {
	k := c21PoolKey{nd.tree, len(nd.gs.auths[0]), nd.self}
	p, _ := c21Pools.LoadOrStore(k, &sync.Pool{})
	p.(*sync.Pool).Put(nd)
}
