//go:build verif

package grandpa

// C14/C33 shared (lib/grandpa): GRANDPA wire messages - abstract values, reference encodings written
// from the Polkadot specification ("GRANDPA messages"), and the corresponding real Go values.
//
//   Vote            = hash[32] ++ number u32
//   SignedVote      = Vote ++ signature[64] ++ authority_id[32]
//   Commit          = hash ++ number u32 ++ Vec<SignedVote>
//   Justification   = round u64 ++ Commit
//   FullVote (signed payload) = stage u8 ++ Vote ++ round u64 ++ set_id u64
//   GossipMessage   = 0x00 Vote(round u64, set_id u64, stage u8 ++ Vote, signature, authority_id)
//                   | 0x01 Commit(round u64, set_id u64, target Vote, Vec<Vote>, Vec<(signature, authority_id)>)
//                   | 0x02 Neighbour(version 0x01, round u64, set_id u64, last_finalized u32)
//                   | 0x03 CatchUpRequest(round u64, set_id u64)
//                   | 0x04 CatchUpResponse(set_id u64, round u64, Vec<SignedVote> prevotes, Vec<SignedVote> precommits, hash, number u32)

import (
	"fmt"

	"github.com/ChainSafe/gossamer/internal/verifmc/ref"
	"github.com/ChainSafe/gossamer/lib/common"
	"github.com/ChainSafe/gossamer/lib/crypto/ed25519"
)

type c14GMsg struct {
	Name string
	Enc  *ref.C14Buf
	Val  GrandpaMessage // pointer to the real message value, as decodeMessage returns it
}

func c14GSigned(i int, num uint32) (SignedVote, func(b *ref.C14Buf)) {
	h := ref.C14Hash32(byte(0x10+i), 3)
	var sig [64]byte
	copy(sig[:], ref.C14Fill(64, byte(0x50+i), 1))
	id := ref.C14Hash32(byte(0x90+i), 5)
	sv := SignedVote{Vote: Vote{Hash: common.Hash(h), Number: num}, Signature: sig, AuthorityID: ed25519.PublicKeyBytes(id)}
	return sv, func(b *ref.C14Buf) { b.Raw(h[:]...).U32(num).Raw(sig[:]...).Raw(id[:]...) }
}

func c14GSignedList(n int, num uint32) ([]SignedVote, func(b *ref.C14Buf, what string)) {
	var out []SignedVote
	var ws []func(b *ref.C14Buf)
	for i := 0; i < n; i++ {
		sv, w := c14GSigned(i, num+uint32(i))
		out = append(out, sv)
		ws = append(ws, w)
	}
	return out, func(b *ref.C14Buf, what string) {
		b.Len(n, what)
		for _, w := range ws {
			w(b)
		}
	}
}

// c14GrandpaMessages enumerates gossip messages over boundary field values.
func c14GrandpaMessages() []c14GMsg {
	var out []c14GMsg
	u64s := []uint64{0, 1, 1<<64 - 1}
	u32s := []uint32{0, 1, 1<<32 - 1}
	for _, round := range u64s {
		for _, set := range u64s {
			for _, num := range u32s {
				// vote messages, three stages
				for stage := byte(0); stage < 3; stage++ {
					sv, _ := c14GSigned(int(stage), num)
					m := &VoteMessage{Round: round, SetID: set, Message: SignedMessage{Stage: Subround(stage), BlockHash: sv.Vote.Hash, Number: num, Signature: sv.Signature, AuthorityID: sv.AuthorityID}}
					b := (&ref.C14Buf{}).U8(0).U64(round).U64(set).U8(stage).Raw(sv.Vote.Hash[:]...).U32(num).Raw(sv.Signature[:]...).Raw(sv.AuthorityID[:]...)
					out = append(out, c14GMsg{fmt.Sprintf("Vote{round=%d set=%d stage=%d number=%d}", round, set, stage, num), b, m})
				}
				nb := &NeighbourPacketV1{Round: round, SetID: set, Number: num}
				out = append(out, c14GMsg{fmt.Sprintf("Neighbour{round=%d set=%d number=%d}", round, set, num),
					(&ref.C14Buf{}).U8(2).U8(1).U64(round).U64(set).U32(num), nb})
				for n := 0; n <= 2; n++ {
					svs, _ := c14GSignedList(n, num)
					target, _ := c14GSigned(7, num)
					cm := &CommitMessage{Round: round, SetID: set, Vote: target.Vote}
					b := (&ref.C14Buf{}).U8(1).U64(round).U64(set).Raw(target.Vote.Hash[:]...).U32(num)
					b.Len(n, "commit-precommits")
					for _, sv := range svs {
						cm.Precommits = append(cm.Precommits, sv.Vote)
						b.Raw(sv.Vote.Hash[:]...).U32(sv.Vote.Number)
					}
					b.Len(n, "commit-auth-data")
					for _, sv := range svs {
						cm.AuthData = append(cm.AuthData, AuthData{Signature: sv.Signature, AuthorityID: sv.AuthorityID})
						b.Raw(sv.Signature[:]...).Raw(sv.AuthorityID[:]...)
					}
					out = append(out, c14GMsg{fmt.Sprintf("Commit{round=%d set=%d number=%d precommits=%d}", round, set, num, n), b, cm})
				}
			}
			out = append(out, c14GMsg{fmt.Sprintf("CatchUpRequest{round=%d set=%d}", round, set), (&ref.C14Buf{}).U8(3).U64(round).U64(set), &CatchUpRequest{Round: round, SetID: set}})
			for npv := 0; npv <= 2; npv++ {
				for npc := 0; npc <= 2; npc++ {
					pv, wpv := c14GSignedList(npv, 5)
					pc, wpc := c14GSignedList(npc, 9)
					h := ref.C14Hash32(0xc0, 1)
					resp := &CatchUpResponse{SetID: set, Round: round, PreVoteJustification: pv, PreCommitJustification: pc, Hash: common.Hash(h), Number: uint32(set) ^ 7}
					b := (&ref.C14Buf{}).U8(4).U64(set).U64(round)
					wpv(b, "catchup-prevotes")
					wpc(b, "catchup-precommits")
					b.Raw(h[:]...).U32(uint32(set) ^ 7)
					out = append(out, c14GMsg{fmt.Sprintf("CatchUpResponse{set=%d round=%d prevotes=%d precommits=%d}", set, round, npv, npc), b, resp})
				}
			}
		}
	}
	return out
}
