//go:build verif

package inmemory

// Shared by the C01/C02/C03 harnesses (each check injects this file once).

import (
	"bytes"
	"fmt"
	"sort"
	"strings"

	"github.com/ChainSafe/gossamer/internal/verifmc"
	"github.com/ChainSafe/gossamer/internal/verifmc/ref"
	"github.com/ChainSafe/gossamer/pkg/trie"
	"github.com/ChainSafe/gossamer/pkg/trie/node"
)

// vDumpNode writes every field the trie methods read.
func vDumpNode(b *bytes.Buffer, n *node.Node, gen uint64) {
	if n == nil {
		b.WriteString("_")
		return
	}
	kind := "L"
	if n.Kind() == node.Branch {
		kind = "B"
	}
	val := "nil"
	if n.StorageValue != nil {
		val = fmt.Sprintf("%x", n.StorageValue)
	}
	fmt.Fprintf(b, "%s(pk=%x v=%s mbh=%t ihv=%t d=%t mv=%d g=%t desc=%d", kind, n.PartialKey, val,
		n.MustBeHashed, n.IsHashedValue, n.Dirty, len(n.MerkleValue), n.Generation == gen, n.Descendants)
	if n.Kind() == node.Branch {
		for i, c := range n.Children {
			if c != nil {
				fmt.Fprintf(b, " %x:", i)
				vDumpNode(b, c, gen)
			}
		}
	}
	b.WriteString(")")
}

func vDumpTrie(t *InMemoryTrie) []byte {
	var b bytes.Buffer
	fmt.Fprintf(&b, "ver=%d ", t.version)
	vDumpNode(&b, t.root, t.generation)
	return b.Bytes()
}

func vCountNodes(n *node.Node) int {
	if n == nil {
		return 0
	}
	c := 1
	for _, ch := range n.Children {
		c += vCountNodes(ch)
	}
	return c
}

// vDescendantsOK checks the Descendants counter of every branch.
func vDescendantsOK(n *node.Node) string {
	if n == nil {
		return ""
	}
	if n.Kind() == node.Branch {
		if int(n.Descendants) != vCountNodes(n)-1 {
			return fmt.Sprintf("Descendants=%d but node has %d descendants (pk=%x)", n.Descendants, vCountNodes(n)-1, n.PartialKey)
		}
		for _, c := range n.Children {
			if d := vDescendantsOK(c); d != "" {
				return d
			}
		}
	}
	return ""
}

type vTrieOp struct {
	kind  string // put delete hash clearPrefix clearPrefixLimit
	k, v  []byte
	limit uint32
}

func (o vTrieOp) Name() string {
	switch o.kind {
	case "put":
		return fmt.Sprintf("put(%x,%s)", o.k, vValName(o.v))
	case "delete", "clearPrefix":
		return fmt.Sprintf("%s(%x)", o.kind, o.k)
	case "clearPrefixLimit":
		return fmt.Sprintf("clearPrefixLimit(%x,%d)", o.k, o.limit)
	}
	return o.kind
}

func vValName(v []byte) string {
	if len(v) > 4 {
		return fmt.Sprintf("%02x*%d", v[0], len(v))
	}
	return fmt.Sprintf("%x", v)
}

func vVal(fill byte, n int) []byte { return bytes.Repeat([]byte{fill}, n) }

type vTrieState struct {
	t    *InMemoryTrie
	m    ref.OMap
	v    trie.TrieLayout
	soft []verifmc.Violation
}

func (s *vTrieState) softf(sig, format string, a ...any) {
	s.soft = append(s.soft, verifmc.Violation{Sig: sig, Desc: fmt.Sprintf(format, a...)})
}

func vDrainSoft(s *vTrieState) []verifmc.Violation {
	out := s.soft
	s.soft = nil
	return out
}

func vVersionInt(v trie.TrieLayout) int {
	if v == trie.V1 {
		return 1
	}
	return 0
}

func vNibbles(k []byte) []byte {
	out := make([]byte, 0, 2*len(k))
	for _, b := range k {
		out = append(out, b>>4, b&0xf)
	}
	return out
}

// vTrimmedPrefixKeys: the keys whose nibble form starts with the nibbles of p minus one
// trailing zero nibble (what the code matches instead of the byte prefix p).
func vTrimmedPrefixKeys(m ref.OMap, p []byte) []string {
	n := vNibbles(p)
	if len(n) > 0 && n[len(n)-1] == 0 {
		n = n[:len(n)-1]
	}
	var out []string
	for _, k := range m.Keys() {
		if bytes.HasPrefix(vNibbles([]byte(k)), n) {
			out = append(out, k)
		}
	}
	return out
}

func vZeroLowNibble(p []byte) bool { return len(p) > 0 && p[len(p)-1]&0x0f == 0 }

// vResync makes the model follow the real object after a mutator mismatch that was
// reported (soft), so that exploration continues from the state the code is really in.
func vResync(s *vTrieState) {
	m := ref.OMap{}
	for k, v := range s.t.Entries() {
		m[k] = append([]byte{}, v...)
	}
	s.m = m
}

// vApplyTrieOp applies one mutator to the real trie and to the ordered-map model and
// compares the result of the call and the contents afterwards.  A mismatch is reported with a
// signature naming its exact shape; the model is then re-synchronised.
func vApplyTrieOp(s *vTrieState, o vTrieOp) string {
	before := s.m.Clone()
	switch o.kind {
	case "put":
		if err := s.t.Put(o.k, o.v); err != nil {
			return "Put: unexpected error " + err.Error()
		}
		s.m[string(o.k)] = append([]byte{}, o.v...)
	case "delete":
		if err := s.t.Delete(o.k); err != nil {
			return "Delete: unexpected error " + err.Error()
		}
		delete(s.m, string(o.k))
	case "hash":
		h, err := s.t.Hash()
		if err != nil {
			return "Hash: unexpected error " + err.Error()
		}
		if want := ref.TrieRoot(s.m, vVersionInt(s.v)); !bytes.Equal(h[:], want) {
			return fmt.Sprintf("Hash: root %x, spec root %x for %s", h[:], want, vMapString(s.m))
		}
		return ""
	case "clearPrefix":
		if err := s.t.ClearPrefix(o.k); err != nil {
			return "ClearPrefix: unexpected error " + err.Error()
		}
		s.m.ClearPrefix(string(o.k))
	case "clearPrefixLimit":
		del, all, err := s.t.ClearPrefixLimit(o.k, o.limit)
		if err != nil {
			return "ClearPrefixLimit: unexpected error " + err.Error()
		}
		wdel, wall := s.m.ClearPrefixLimit(string(o.k), o.limit)
		got := ref.OMap(s.t.Entries())
		if del == wdel && all == wall && s.m.Equal(got) {
			return ""
		}
		desc := fmt.Sprintf("ClearPrefixLimit(%x,%d) on %s: returned (deleted=%d, allDeleted=%t) leaving %s; ordered map gives (%d, %t) leaving %s",
			o.k, o.limit, vMapString(before), del, all, vMapString(got), wdel, wall, vMapString(s.m))
		s.softf("ClearPrefixLimit:"+vClassifyLimit(before, got, o, del, all), "%s", desc)
		vResync(s)
		return ""
	default:
		panic("unknown op " + o.kind)
	}
	got := ref.OMap(s.t.Entries())
	if s.m.Equal(got) {
		return ""
	}
	desc := fmt.Sprintf("%s on %s: trie now holds %s, ordered map holds %s", o.Name(), vMapString(before), vMapString(got), vMapString(s.m))
	switch o.kind {
	case "delete":
		// shape: deleting an absent key removed exactly one key that strictly extends it
		_, present := before[string(o.k)]
		removed := vDiffKeys(before, got)
		if !present && len(got) == len(before)-1 && len(removed) == 1 &&
			bytes.HasPrefix(vNibbles([]byte(removed[0])), vNibbles(o.k)) && vSubset(got, before) {
			s.softf("Delete:absent-key-removes-a-key-it-prefixes", "%s", desc)
		} else {
			s.softf("Delete:wrong-contents", "%s", desc)
		}
	case "clearPrefix", "clearPrefixLimit":
		exp := before.Clone()
		if o.kind == "clearPrefix" {
			for _, k := range vTrimmedPrefixKeys(before, o.k) {
				delete(exp, k)
			}
		}
		if o.kind == "clearPrefix" && vZeroLowNibble(o.k) && exp.Equal(got) {
			s.softf("ClearPrefix:zero-low-nibble-prefix-trimmed", "%s", desc)
		} else {
			s.softf(strings.ToUpper(o.kind[:1])+o.kind[1:]+":wrong-contents", "%s", desc)
		}
	default:
		return desc
	}
	vResync(s)
	return ""
}

// vClassifyLimit names the exact shape of a limited-clear mismatch: which matching rule (byte
// prefix, or prefix without its trailing zero nibble) and which deviations (not the smallest
// keys; "all deleted" reported false for limit 0) explain the observed outcome completely.
func vClassifyLimit(before, got ref.OMap, o vTrieOp, del uint32, all bool) string {
	removed := vDiffKeys(before, got)
	if !vSubset(got, before) {
		return "wrong-result"
	}
	type cand struct {
		name string
		x    []string
	}
	cands := []cand{{"", before.WithPrefix(string(o.k))}}
	if vZeroLowNibble(o.k) {
		cands = append(cands, cand{"zero-low-nibble-prefix-trimmed", vTrimmedPrefixKeys(before, o.k)})
	}
	for _, c := range cands {
		n := int(o.limit)
		if len(c.x) < n {
			n = len(c.x)
		}
		inX := map[string]bool{}
		for _, k := range c.x {
			inX[k] = true
		}
		ok := len(removed) == n && int(del) == n
		for _, k := range removed {
			ok = ok && inX[k]
		}
		if !ok {
			continue
		}
		var flags []string
		if c.name != "" {
			flags = append(flags, c.name)
		}
		for i, k := range removed { // removed is sorted
			if k != c.x[i] {
				flags = append(flags, "not-the-smallest-keys")
				break
			}
		}
		wantAll := len(c.x) == n
		if all != wantAll {
			if o.limit == 0 && !all {
				flags = append(flags, "limit0-none-matching-reports-not-all-deleted")
			} else {
				continue
			}
		}
		if len(flags) == 0 {
			return "wrong-result"
		}
		return strings.Join(flags, "+")
	}
	return "wrong-result"
}

func vDiffKeys(a, b ref.OMap) []string {
	var out []string
	for _, k := range a.Keys() {
		if _, ok := b[k]; !ok {
			out = append(out, k)
		}
	}
	return out
}

func vSubset(a, b ref.OMap) bool {
	for k, v := range a {
		w, ok := b[k]
		if !ok || !bytes.Equal(v, w) {
			return false
		}
	}
	return true
}

func vMapString(m ref.OMap) string {
	var parts []string
	for _, k := range m.Keys() {
		parts = append(parts, fmt.Sprintf("%x=%s", k, vValName(m[k])))
	}
	return "{" + strings.Join(parts, " ") + "}"
}

// vCheckContents compares Entries() with the model.
func vCheckContents(t *InMemoryTrie, m ref.OMap) string {
	got := t.Entries()
	if !m.Equal(got) {
		var parts []string
		for k, v := range got {
			parts = append(parts, fmt.Sprintf("%x=%s", k, vValName(v)))
		}
		sort.Strings(parts)
		return fmt.Sprintf("Entries: trie holds {%s}, ordered map holds %s", strings.Join(parts, " "), vMapString(m))
	}
	return ""
}

// vCheckRoot compares Hash() with the spec root of the model.
func vCheckRoot(t *InMemoryTrie, m ref.OMap, ver trie.TrieLayout) string {
	h, err := t.Hash()
	if err != nil {
		return "Hash: unexpected error " + err.Error()
	}
	if want := ref.TrieRoot(m, vVersionInt(ver)); !bytes.Equal(h[:], want) {
		return fmt.Sprintf("Hash: root %x, spec root %x for %s (version %d)", h[:], want, vMapString(m), vVersionInt(ver))
	}
	return ""
}

// vSigOf builds a finding signature "<last op kind>-><observer>" from a mismatch description.
func vSigOf(hist []verifmc.Op, desc string) string {
	last := "init"
	if len(hist) > 0 {
		last = hist[len(hist)-1].Name()
		if i := strings.Index(last, "("); i >= 0 {
			last = last[:i]
		}
	}
	obs := desc
	if strings.HasPrefix(desc, "panic:") {
		return last + "->panic@" + verifmc.PanicSite(desc)
	}
	if i := strings.IndexAny(obs, ":("); i >= 0 {
		obs = obs[:i]
	}
	return last + "->" + obs
}
