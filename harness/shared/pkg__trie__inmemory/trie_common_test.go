//go:build verif

package inmemory

// Shared by the C01/C02/C03 harnesses (each check injects this file once).

import (
	"bytes"
	"fmt"
	"sort"
	"strings"

	"github.com/ChainSafe/gossamer/internal/verifmc"
	"github.com/ChainSafe/gossamer/internal/verifmc/ref"
	"github.com/ChainSafe/gossamer/pkg/trie"
	"github.com/ChainSafe/gossamer/pkg/trie/node"
)

// vDumpNode writes every field the trie methods read.
func vDumpNode(b *bytes.Buffer, n *node.Node, gen uint64) {
	if n == nil {
		b.WriteString("_")
		return
	}
	kind := "L"
	if n.Kind() == node.Branch {
		kind = "B"
	}
	val := "nil"
	if n.StorageValue != nil {
		val = fmt.Sprintf("%x", n.StorageValue)
	}
	fmt.Fprintf(b, "%s(pk=%x v=%s mbh=%t ihv=%t d=%t mv=%d g=%t desc=%d", kind, n.PartialKey, val,
		n.MustBeHashed, n.IsHashedValue, n.Dirty, len(n.MerkleValue), n.Generation == gen, n.Descendants)
	if n.Kind() == node.Branch {
		for i, c := range n.Children {
			if c != nil {
				fmt.Fprintf(b, " %x:", i)
				vDumpNode(b, c, gen)
			}
		}
	}
	b.WriteString(")")
}

func vDumpTrie(t *InMemoryTrie) []byte {
	var b bytes.Buffer
	fmt.Fprintf(&b, "ver=%d ", t.version)
	vDumpNode(&b, t.root, t.generation)
	return b.Bytes()
}

func vCountNodes(n *node.Node) int {
	if n == nil {
		return 0
	}
	c := 1
	for _, ch := range n.Children {
		c += vCountNodes(ch)
	}
	return c
}

// vDescendantsOK checks the Descendants counter of every branch.
func vDescendantsOK(n *node.Node) string {
	if n == nil {
		return ""
	}
	if n.Kind() == node.Branch {
		if int(n.Descendants) != vCountNodes(n)-1 {
			return fmt.Sprintf("Descendants=%d but node has %d descendants (pk=%x)", n.Descendants, vCountNodes(n)-1, n.PartialKey)
		}
		for _, c := range n.Children {
			if d := vDescendantsOK(c); d != "" {
				return d
			}
		}
	}
	return ""
}

type vTrieOp struct {
	kind  string // put delete hash clearPrefix clearPrefixLimit
	k, v  []byte
	limit uint32
}

func (o vTrieOp) Name() string {
	switch o.kind {
	case "put":
		return fmt.Sprintf("put(%x,%s)", o.k, vValName(o.v))
	case "delete", "clearPrefix":
		return fmt.Sprintf("%s(%x)", o.kind, o.k)
	case "clearPrefixLimit":
		return fmt.Sprintf("clearPrefixLimit(%x,%d)", o.k, o.limit)
	}
	return o.kind
}

func vValName(v []byte) string {
	if len(v) > 4 {
		return fmt.Sprintf("%02x*%d", v[0], len(v))
	}
	return fmt.Sprintf("%x", v)
}

func vVal(fill byte, n int) []byte { return bytes.Repeat([]byte{fill}, n) }

type vTrieState struct {
	t *InMemoryTrie
	m ref.OMap
	v trie.TrieLayout
}

func vVersionInt(v trie.TrieLayout) int {
	if v == trie.V1 {
		return 1
	}
	return 0
}

// vApplyTrieOp applies one mutator to the real trie and to the ordered-map model and
// compares the results of the call.
func vApplyTrieOp(s *vTrieState, o vTrieOp) string {
	switch o.kind {
	case "put":
		if err := s.t.Put(o.k, o.v); err != nil {
			return "Put: unexpected error " + err.Error()
		}
		s.m[string(o.k)] = append([]byte{}, o.v...)
	case "delete":
		if err := s.t.Delete(o.k); err != nil {
			return "Delete: unexpected error " + err.Error()
		}
		delete(s.m, string(o.k))
	case "hash":
		h, err := s.t.Hash()
		if err != nil {
			return "Hash: unexpected error " + err.Error()
		}
		if want := ref.TrieRoot(s.m, vVersionInt(s.v)); !bytes.Equal(h[:], want) {
			return fmt.Sprintf("Hash: root %x, spec root %x for %s", h[:], want, vMapString(s.m))
		}
	case "clearPrefix":
		if err := s.t.ClearPrefix(o.k); err != nil {
			return "ClearPrefix: unexpected error " + err.Error()
		}
		s.m.ClearPrefix(string(o.k))
	case "clearPrefixLimit":
		del, all, err := s.t.ClearPrefixLimit(o.k, o.limit)
		if err != nil {
			return "ClearPrefixLimit: unexpected error " + err.Error()
		}
		wdel, wall := s.m.ClearPrefixLimit(string(o.k), o.limit)
		if del != wdel || all != wall {
			return fmt.Sprintf("ClearPrefixLimit(%x,%d): returned (deleted=%d, allDeleted=%t), ordered map gives (%d, %t)", o.k, o.limit, del, all, wdel, wall)
		}
	default:
		panic("unknown op " + o.kind)
	}
	return ""
}

func vMapString(m ref.OMap) string {
	var parts []string
	for _, k := range m.Keys() {
		parts = append(parts, fmt.Sprintf("%x=%s", k, vValName(m[k])))
	}
	return "{" + strings.Join(parts, " ") + "}"
}

// vCheckContents compares Entries() with the model.
func vCheckContents(t *InMemoryTrie, m ref.OMap) string {
	got := t.Entries()
	if !m.Equal(got) {
		var parts []string
		for k, v := range got {
			parts = append(parts, fmt.Sprintf("%x=%s", k, vValName(v)))
		}
		sort.Strings(parts)
		return fmt.Sprintf("Entries: trie holds {%s}, ordered map holds %s", strings.Join(parts, " "), vMapString(m))
	}
	return ""
}

// vCheckRoot compares Hash() with the spec root of the model.
func vCheckRoot(t *InMemoryTrie, m ref.OMap, ver trie.TrieLayout) string {
	h, err := t.Hash()
	if err != nil {
		return "Hash: unexpected error " + err.Error()
	}
	if want := ref.TrieRoot(m, vVersionInt(ver)); !bytes.Equal(h[:], want) {
		return fmt.Sprintf("Hash: root %x, spec root %x for %s (version %d)", h[:], want, vMapString(m), vVersionInt(ver))
	}
	return ""
}

// vSigOf builds a finding signature "<last op kind>-><observer>" from a mismatch description.
func vSigOf(hist []verifmc.Op, desc string) string {
	last := "init"
	if len(hist) > 0 {
		last = hist[len(hist)-1].Name()
		if i := strings.Index(last, "("); i >= 0 {
			last = last[:i]
		}
	}
	obs := desc
	if strings.HasPrefix(desc, "panic:") {
		return last + "->panic@" + verifmc.PanicSite(desc)
	}
	if i := strings.IndexAny(obs, ":("); i >= 0 {
		obs = obs[:i]
	}
	return last + "->" + obs
}
