//go:build verif

package messages

// C14/C33 shared (dot/network/messages): abstract block request / response values and their reference
// protobuf wire encodings (hand-rolled writer ref.C14Buf; schema api.v1.proto of the specification,
// "Requesting blocks"):
//
//   BlockRequest  { 1: fields uint32 (requested-data bits in the most significant byte, i.e. the
//                      big-endian u32 whose first byte is the bit set);
//                   oneof from_block { 2: hash bytes | 3: number bytes (little-endian u32) };
//                   5: direction enum {0 ascending, 1 descending}; 6: max_blocks uint32 (0 = unspecified) }
//   BlockResponse { 1: repeated BlockData }
//   BlockData     { 1: hash bytes; 2: header bytes (SCALE header); 3: repeated body bytes (each a SCALE
//                   encoded extrinsic); 4: receipt; 5: message_queue; 6: justification;
//                   7: is_empty_justification bool }
// proto3: scalar fields holding the default value are not written.

import (
	"fmt"

	"github.com/ChainSafe/gossamer/dot/types"
	"github.com/ChainSafe/gossamer/internal/verifmc/ref"
	"github.com/ChainSafe/gossamer/lib/common"
)

type c14Req struct {
	Fields   byte
	FromHash *[32]byte // exactly one of FromHash / FromNumber
	FromNum  uint32
	Desc     bool
	Max      *uint32
}

func (q c14Req) String() string {
	from := fmt.Sprintf("number %d", q.FromNum)
	if q.FromHash != nil {
		from = fmt.Sprintf("hash %x..", q.FromHash[:3])
	}
	max := "nil"
	if q.Max != nil {
		max = fmt.Sprint(*q.Max)
	}
	return fmt.Sprintf("BlockRequest{fields=%05b from=%s descending=%t max=%s}", q.Fields, from, q.Desc, max)
}

func c14RefReq(q c14Req) *ref.C14Buf {
	b := &ref.C14Buf{}
	b.PBVarintOpt(1, uint64(q.Fields)<<24)
	if q.FromHash != nil {
		b.PBBytes(2, ref.C14Raw(q.FromHash[:]), "from-hash")
	} else {
		b.PBBytes(3, (&ref.C14Buf{}).U32(q.FromNum), "from-number")
	}
	if q.Desc {
		b.PBVarint(5, 1)
	}
	if q.Max != nil {
		b.PBVarintOpt(6, uint64(*q.Max))
	}
	return b
}

func c14BuildReq(q c14Req) *BlockRequestMessage {
	m := &BlockRequestMessage{RequestedData: q.Fields}
	if q.FromHash != nil {
		m.StartingBlock = *NewFromBlock(common.Hash(*q.FromHash))
	} else {
		m.StartingBlock = *NewFromBlock(uint(q.FromNum))
	}
	if q.Desc {
		m.Direction = Descending
	}
	if q.Max != nil {
		v := *q.Max
		m.Max = &v
	}
	return m
}

func c14ReqMenu(allFields bool) []c14Req {
	var out []c14Req
	h1, h0 := ref.C14Hash32(0x11, 7), [32]byte{}
	u := func(v uint32) *uint32 { return &v }
	fields := []byte{0, 1, 2, 4, 8, 16, 19, 31}
	if allFields {
		fields = nil
		for f := 0; f < 32; f++ {
			fields = append(fields, byte(f))
		}
	}
	for _, f := range fields {
		for from := 0; from < 5; from++ {
			for _, desc := range []bool{false, true} {
				for _, max := range []*uint32{nil, u(0), u(1), u(128), u(1<<32 - 1)} {
					q := c14Req{Fields: f, Desc: desc, Max: max}
					switch from {
					case 0:
						q.FromHash = &h1
					case 1:
						q.FromHash = &h0
					case 2:
						q.FromNum = 0
					case 3:
						q.FromNum = 1
					case 4:
						q.FromNum = 1<<32 - 1
					}
					out = append(out, q)
				}
			}
		}
	}
	return out
}

// c14Block is one BlockData entry; nil pointers = absent optional parts.
type c14Block struct {
	Hash          [32]byte
	Header        *ref.C14Header
	Body          *[][]byte
	Receipt       *[]byte
	MessageQueue  *[]byte
	Justification *[]byte
}

func (b c14Block) String() string {
	opt := func(p *[]byte) string {
		if p == nil {
			return "nil"
		}
		return fmt.Sprintf("%dB", len(*p))
	}
	hd, bd := "nil", "nil"
	if b.Header != nil {
		hd = b.Header.String()
	}
	if b.Body != nil {
		bd = fmt.Sprintf("%d extrinsics", len(*b.Body))
	}
	return fmt.Sprintf("BlockData{hash=%x.. header=%s body=%s receipt=%s queue=%s justification=%s}", b.Hash[:2], hd, bd, opt(b.Receipt), opt(b.MessageQueue), opt(b.Justification))
}

func c14RefBlock(bd c14Block) *ref.C14Buf {
	b := &ref.C14Buf{}
	b.PBBytesOpt(1, ref.C14Raw(bd.Hash[:]), "block-hash")
	if bd.Header != nil {
		b.PBBytesOpt(2, ref.C14RefHeader(*bd.Header), "header")
	}
	if bd.Body != nil {
		for _, e := range *bd.Body {
			b.PBBytes(3, (&ref.C14Buf{}).Bytes(e, "extrinsic"), "body-entry")
		}
	}
	if bd.Receipt != nil {
		b.PBBytesOpt(4, ref.C14Raw(*bd.Receipt), "receipt")
	}
	if bd.MessageQueue != nil {
		b.PBBytesOpt(5, ref.C14Raw(*bd.MessageQueue), "message-queue")
	}
	if bd.Justification != nil {
		b.PBBytesOpt(6, ref.C14Raw(*bd.Justification), "justification")
		if len(*bd.Justification) == 0 {
			b.PBVarint(7, 1)
		}
	}
	return b
}

func c14RefResp(blocks []c14Block) *ref.C14Buf {
	b := &ref.C14Buf{}
	for _, bd := range blocks {
		b.PBBytes(1, c14RefBlock(bd), "block-data")
	}
	return b
}

func c14BuildBlock(bd c14Block) (*types.BlockData, error) {
	out := &types.BlockData{Hash: bd.Hash}
	if bd.Header != nil {
		h, err := c14BuildHeader(*bd.Header)
		if err != nil {
			return nil, err
		}
		out.Header = h
	}
	if bd.Body != nil {
		ex := []types.Extrinsic{}
		for _, e := range *bd.Body {
			ex = append(ex, types.Extrinsic(append([]byte{}, e...)))
		}
		out.Body = types.NewBody(ex)
	}
	cp := func(p *[]byte) *[]byte {
		if p == nil {
			return nil
		}
		c := append([]byte{}, *p...)
		return &c
	}
	out.Receipt, out.MessageQueue, out.Justification = cp(bd.Receipt), cp(bd.MessageQueue), cp(bd.Justification)
	return out, nil
}

// c14WireNormal returns the value the wire format can express for bd: proto3 cannot tell an absent
// `bytes`/`repeated` field from an empty one, so an empty body / receipt / message queue is the same
// message as an absent one (the justification has is_empty_justification for that purpose).
func c14WireNormal(bd c14Block) (c14Block, bool) {
	changed := false
	if bd.Body != nil && len(*bd.Body) == 0 {
		bd.Body, changed = nil, true
	}
	if bd.Receipt != nil && len(*bd.Receipt) == 0 {
		bd.Receipt, changed = nil, true
	}
	if bd.MessageQueue != nil && len(*bd.MessageQueue) == 0 {
		bd.MessageQueue, changed = nil, true
	}
	return bd, changed
}

func c14BlockMenu(full bool) []c14Block {
	hs := ref.C14SmallHeaders()
	headers := []*ref.C14Header{nil, &hs[0], &hs[2], &hs[3]}
	bp := func(b ...[]byte) *[][]byte { x := append([][]byte{}, b...); return &x }
	bodies := []*[][]byte{nil, bp(), bp(ref.C14Tame(4, 1)), bp(nil, ref.C14Tame(64, 9))}
	op := func(b []byte) *[]byte { return &b }
	opts := []*[]byte{nil, op([]byte{}), op([]byte{0x0a, 0, 1})}
	if !full {
		headers = []*ref.C14Header{nil, &hs[2]}
		bodies = []*[][]byte{nil, bp(ref.C14Tame(4, 1))}
	}
	var out []c14Block
	for hi, h := range headers {
		for _, bd := range bodies {
			for _, rc := range opts {
				for _, mq := range opts {
					for _, j := range opts {
						hash := ref.C14TameHash32(byte(0x30 + hi))
						if h == nil && bd == nil {
							hash = [32]byte{}
						}
						out = append(out, c14Block{Hash: hash, Header: h, Body: bd, Receipt: rc, MessageQueue: mq, Justification: j})
					}
				}
			}
		}
	}
	if full {
		// bodies whose extrinsic COUNT crosses the compact-integer modes (the count is re-encoded by hand
		// in NewBodyFromEncodedBytes): 63/64/65 (1 -> 2 bytes) and 16383/16384 (2 -> 4 bytes)
		for _, n := range []int{63, 64, 65, 300, 16383, 16384} {
			var ex [][]byte
			for i := 0; i < n; i++ {
				ex = append(ex, []byte{byte(i), byte(i >> 8)})
			}
			out = append(out, c14Block{Hash: ref.C14TameHash32(0x3f), Header: &hs[2], Body: &ex})
		}
	}
	return out
}
