//go:build verif

package blocktree

// C16: Fork choice selects the best leaf deterministically.
//
// Every labelled rooted tree with n nodes (parent vector) x every primary/secondary marking
// (real BABE pre-digests in real headers) x arrival time of every block in {t0,t1} is inserted
// into a fresh real BlockTree in EVERY parent-first order (all linear extensions of the tree
// order).  Header content, hence the hash, is a function of the labelled tree only, so all
// orders insert the same blocks.  After every single addition (and after Prune of every block)
// BestBlockHash is compared with the rule of the statement evaluated on a parent map; every
// history is repeated R times on fresh trees because the leaves live in a sync.Map.

import (
	"fmt"
	"runtime/debug"
	"sync"
	"testing"
	"time"

	"github.com/ChainSafe/gossamer/dot/types"
	"github.com/ChainSafe/gossamer/internal/log"
	"github.com/ChainSafe/gossamer/internal/verifmc"
	"github.com/ChainSafe/gossamer/internal/verifmc/ref"
	"github.com/ChainSafe/gossamer/lib/common"
)

// c16Build creates the real headers of a labelled tree and the reference view of it.
func c16Build(rootNum uint, parent []int, primary []bool) (*ref.C16Tree, []*types.Header) {
	n := len(parent)
	t := &ref.C16Tree{N: n, Parent: append([]int{}, parent...), Primary: append([]bool{}, primary...),
		Number: make([]uint, n), Hash: make([][32]byte, n)}
	hdr := make([]*types.Header, n)
	hdr[0] = c15RootHeader(rootNum)
	t.Hash[0] = hdr[0].Hash()
	t.Number[0] = rootNum
	for i := 1; i < n; i++ {
		p := parent[i]
		t.Number[i] = t.Number[p] + 1
		hdr[i] = c15Header(i, hdr[p].Hash(), t.Number[i], primary[i])
		t.Hash[i] = hdr[i].Hash()
	}
	return t, hdr
}

func c16Time(a int) time.Time { return time.Unix(1000+int64(a), 0) }

type c16Replay struct {
	RootNumber uint     `json:"root_number"`
	Tree       string   `json:"tree"`
	Parent     []int    `json:"parent_vector"`
	Marks      []string `json:"marks"`
	Arrival    []int    `json:"arrival_time_index"`
	Order      []int    `json:"insertion_order"`
	Inserted   int      `json:"blocks_inserted_when_observed"`
	PruneAt    int      `json:"finalised_block,omitempty"`
	Note       string   `json:"note"`
}

type c16Ctx struct {
	vios     []verifmc.Violation
	vioCount map[string]int64
	outcomes map[string]int64
	trans    int64
	hists    int64
	obs      int64
	states   int64
}

func (c *c16Ctx) vio(sig, desc string, rp c16Replay) {
	c.vioCount[sig]++
	if c.vioCount[sig] <= 2 {
		c.vios = append(c.vios, verifmc.Violation{Sig: sig, Desc: desc, Replay: rp})
	}
}

type c16Elem struct {
	rootNum  uint
	parent   []int
	primary  []bool
	arrivals [][]int // arrival-time index per node (index 0 unused)
	reps     int
	prune    bool
}

// c16RunElem explores one (tree, marking): every arrival assignment x every insertion order x reps.
func c16RunElem(e c16Elem, c *c16Ctx) {
	t, hdr := c16Build(e.rootNum, e.parent, e.primary)
	orders, ideals := ref.C16Orders(e.parent)
	for _, arr := range e.arrivals {
		c.states += int64(ideals)
		finals := map[common.Hash]bool{}
		for _, order := range orders {
			perOrder := map[common.Hash]bool{}
			for rep := 0; rep < e.reps; rep++ {
				c.hists++
				bt := NewBlockTreeFromRoot(hdr[0])
				var mask uint32 = 1
				for j := 0; j <= len(order); j++ {
					if j > 0 {
						x := order[j-1]
						c.trans++
						if err := bt.AddBlock(hdr[x], c16Time(arr[x])); err != nil {
							c.vio("AddBlock:rejects-child-of-held-block", fmt.Sprintf("AddBlock(b%d) = %v in tree %s", x, err, t), c16Replay{RootNumber: e.rootNum, Tree: t.String(), Parent: t.Parent, Marks: t.Marks(), Arrival: arr, Order: order, Inserted: j})
							break
						}
						mask |= 1 << uint(x)
					}
					want, by := ref.C16Spec(t, mask, 0, arr)
					for k := 0; k < 2; k++ {
						c.obs++
						got := bt.BestBlockHash()
						if j == len(order) {
							finals[got] = true
							perOrder[got] = true
						}
						if got != common.Hash(t.Hash[want]) {
							sig := ref.C16Classify(t, mask, 0, arr, got, want)
							c.vio(sig, fmt.Sprintf("BestBlockHash = %s, rule selects b%d (decided by %s) after inserting %v of tree %s, arrival %v", t.Label(got), want, by, order[:j], t, arr[1:]),
								c16Replay{RootNumber: e.rootNum, Tree: t.String(), Parent: t.Parent, Marks: t.Marks(), Arrival: arr, Order: order, Inserted: j, Note: "repeat 64x: leaves are kept in a sync.Map"})
						}
					}
					if rep == 0 {
						c.outcomes["decided-by:"+by]++
					}
				}
				if !e.prune || rep > 0 {
					continue
				}
				// finalise every non-root block of the complete tree: primaries up to and
				// including the new root no longer count
				for x := 1; x < t.N; x++ {
					c.hists++
					bt := NewBlockTreeFromRoot(hdr[0])
					for _, y := range order {
						c.trans++
						_ = bt.AddBlock(hdr[y], c16Time(arr[y]))
					}
					c.trans++
					bt.Prune(common.Hash(t.Hash[x]))
					want, by := ref.C16Spec(t, mask, x, arr)
					c.obs++
					got := bt.BestBlockHash()
					c.outcomes["after-finalisation:decided-by:"+by]++
					if got != common.Hash(t.Hash[want]) {
						sig := ref.C16Classify(t, mask, x, arr, got, want)
						c.vio("after-finalisation:"+sig[len("BestBlockHash:"):], fmt.Sprintf("after Prune(b%d): BestBlockHash = %s, rule selects b%d (decided by %s) in tree %s, arrival %v, order %v", x, t.Label(got), want, by, t, arr[1:], order),
							c16Replay{RootNumber: e.rootNum, Tree: t.String(), Parent: t.Parent, Marks: t.Marks(), Arrival: arr, Order: order, Inserted: len(order), PruneAt: x})
					}
				}
			}
			if len(perOrder) > 1 {
				c.vio("BestBlockHash:differs-between-repetitions-of-one-history", fmt.Sprintf("%d different best blocks over %d repetitions of order %v of tree %s, arrival %v", len(perOrder), e.reps, order, t, arr[1:]),
					c16Replay{RootNumber: e.rootNum, Tree: t.String(), Parent: t.Parent, Marks: t.Marks(), Arrival: arr, Order: order, Inserted: len(order)})
			}
		}
		if len(finals) > 1 {
			c.vio("BestBlockHash:depends-on-insertion-order", fmt.Sprintf("%d different best blocks over the %d insertion orders of tree %s, arrival %v", len(finals), len(orders), t, arr[1:]),
				c16Replay{RootNumber: e.rootNum, Tree: t.String(), Parent: t.Parent, Marks: t.Marks(), Arrival: arr, Inserted: t.N - 1})
		} else {
			c.outcomes["same-best-over-all-orders"]++
		}
	}
}

func TestVerif_C16(t *testing.T) {
	r := verifmc.NewReport("C16", "blocktree-fork-choice", "model_checking")
	defer r.Write()
	logger.Patch(log.SetLevel(log.Critical)) // Prune warns "no runtimes in the mapping" on every call
	defer debug.SetGCPercent(debug.SetGCPercent(400))
	nFull := verifmc.Pick(5, 6)    // sizes with the full arrival product
	nMax := verifmc.Pick(6, 7)     // sizes up to here with three arrival patterns
	reps := verifmc.Pick(3, 8)
	repsMax := verifmc.Pick(2, 2)
	nPrune := verifmc.Pick(5, 6)
	r.Rule = fmt.Sprintf("every parent vector with n<=%d nodes x every primary/secondary marking x arrival index per block in {t0,t1} (n<=%d: full product; larger: all-equal and the two alternations) x EVERY parent-first insertion order of that labelled tree, each history repeated %d (n>%d: %d) times on fresh trees; BestBlockHash read twice after every single addition and after Prune of every block (n<=%d) and compared with the rule of the statement on a parent map; non-trivial = (tree, marking, arrival, inserted subset)", nMax, nFull, reps, nFull, repsMax, nPrune)
	r.Assumption("hashes are a function of (label, parent hash, number, mark); the rule is evaluated by c16Spec on parent links, marks, arrival indices and those hashes")
	r.Extra["repetitions"] = reps

	vioCount := map[string]int64{}
	var vioAll []verifmc.Violation
	for n := 1; n <= nMax; n++ {
		var elems []c16Elem
		arrivals := ref.C16Arrivals(n, n <= nFull)
		verifmc.ParentVectors(n, func(parent []int) {
			dims := make([]int, n-1)
			for i := range dims {
				dims[i] = 2
			}
			verifmc.Product(dims, func(mk []int) {
				prim := make([]bool, n)
				for i := 1; i < n; i++ {
					prim[i] = mk[i-1] == 1
				}
				e := c16Elem{rootNum: uint(n % 2 * 4), parent: append([]int{}, parent...), primary: prim, arrivals: arrivals, reps: reps, prune: n <= nPrune}
				if n > nFull {
					e.reps = repsMax
				}
				elems = append(elems, e)
			})
		})
		ctxs := make([]*c16Ctx, len(elems))
		var mu sync.Mutex
		verifmc.ParallelFor(r, len(elems), func(i int) {
			c := &c16Ctx{vioCount: map[string]int64{}, outcomes: map[string]int64{}}
			c16RunElem(elems[i], c)
			mu.Lock()
			ctxs[i] = c
			mu.Unlock()
		}, func(i int, msg string) {
			r.Violate("panic:"+verifmc.PanicSite(msg), msg, map[string]any{"parent_vector": elems[i].parent, "primary": elems[i].primary})
		})
		for _, c := range ctxs {
			if c == nil {
				continue
			}
			for k, v := range c.outcomes {
				r.Outcomes[k] += v
			}
			for k, v := range c.vioCount {
				vioCount[k] += v
			}
			r.Add("states", c.states)
			r.Add("transitions", c.trans)
			r.Add("traces_validated_against_impl", c.hists)
			r.Add("evaluations", c.obs)
			vioAll = append(vioAll, c.vios...)
		}
		r.Extra[fmt.Sprintf("tree_markings_n%d", n)] = len(elems)
		if len(elems) > 0 {
			e := elems[len(elems)/3]
			tr, _ := c16Build(e.rootNum, e.parent, e.primary)
			o, _ := ref.C16Orders(e.parent)
			r.Sample(map[string]any{"tree": tr.String(), "insertion_orders": len(o), "arrival_assignments": len(e.arrivals), "repetitions": e.reps})
		}
		if !r.Exhaustive {
			break
		}
		r.Extra["completed_size"] = n
	}
	for _, v := range vioAll {
		r.Violate(v.Sig, v.Desc, v.Replay)
	}
	r.Extra["mismatches_per_signature"] = vioCount
}
