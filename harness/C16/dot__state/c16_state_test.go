//go:build verif

package state

// C16 (second observation point): BlockState.BestBlockHash / BestBlockNumber / BestBlockHeader
// over the same labelled trees, markings, arrival assignments and insertion orders, blocks
// added through the real BlockState.AddBlockWithArrivalTime on an in-memory database.

import (
	"encoding/json"
	"fmt"
	"os"
	"path/filepath"
	"sync"
	"sync/atomic"
	"testing"
	"time"

	"github.com/ChainSafe/gossamer/dot/types"
	"github.com/ChainSafe/gossamer/internal/database"
	"github.com/ChainSafe/gossamer/internal/verifmc"
	"github.com/ChainSafe/gossamer/internal/verifmc/ref"
	"github.com/ChainSafe/gossamer/lib/common"
)

type c16NoTelemetry struct{}

func (c16NoTelemetry) SendMessage(_ json.Marshaler) {}

func c16StateHeader(label int, parent common.Hash, number uint, primary bool) *types.Header {
	var pre *types.PreRuntimeDigest
	var err error
	switch {
	case primary:
		pre, err = types.BabePrimaryPreDigest{AuthorityIndex: uint32(label), SlotNumber: uint64(100 + label)}.ToPreRuntimeDigest()
	case label%2 == 0:
		pre, err = types.BabeSecondaryPlainPreDigest{AuthorityIndex: uint32(label), SlotNumber: uint64(100 + label)}.ToPreRuntimeDigest()
	default:
		pre, err = types.BabeSecondaryVRFPreDigest{AuthorityIndex: uint32(label), SlotNumber: uint64(100 + label)}.ToPreRuntimeDigest()
	}
	if err != nil {
		panic(err)
	}
	d := types.NewDigest()
	if err := d.Add(*pre); err != nil {
		panic(err)
	}
	h := &types.Header{ParentHash: parent, Number: number, StateRoot: common.Hash{0xc1, byte(label + 1)}, Digest: d}
	h.Hash()
	return h
}

func c16StateBuild(parent []int, primary []bool) (*ref.C16Tree, []*types.Header) {
	n := len(parent)
	t := &ref.C16Tree{N: n, Parent: append([]int{}, parent...), Primary: append([]bool{}, primary...),
		Number: make([]uint, n), Hash: make([][32]byte, n)}
	hdr := make([]*types.Header, n)
	hdr[0] = &types.Header{ParentHash: common.Hash{}, Number: 0, StateRoot: common.Hash{0xc1, 0x01}, Digest: types.NewDigest()}
	t.Hash[0] = hdr[0].Hash()
	for i := 1; i < n; i++ {
		p := parent[i]
		t.Number[i] = t.Number[p] + 1
		hdr[i] = c16StateHeader(i, hdr[p].Hash(), t.Number[i], primary[i])
		t.Hash[i] = hdr[i].Hash()
	}
	return t, hdr
}

type c16StateReplay struct {
	Tree     string   `json:"tree"`
	Parent   []int    `json:"parent_vector"`
	Marks    []string `json:"marks"`
	Arrival  []int    `json:"arrival_time_index"`
	Order    []int    `json:"insertion_order"`
	Inserted int      `json:"blocks_inserted_when_observed"`
}

type c16StateCtx struct {
	vios     []verifmc.Violation
	vioCount map[string]int64
	outcomes map[string]int64
	trans    int64
	hists    int64
	obs      int64
	states   int64
}

func (c *c16StateCtx) vio(sig, desc string, rp c16StateReplay) {
	c.vioCount[sig]++
	if c.vioCount[sig] <= 2 {
		c.vios = append(c.vios, verifmc.Violation{Sig: sig, Desc: desc, Replay: rp})
	}
}

var c16DBSeq int64

func TestVerif_C16_state(t *testing.T) {
	r := verifmc.NewReport("C16", "blockstate-best-block", "model_checking")
	defer r.Write()
	nFull := verifmc.Pick(5, 5)
	nMax := verifmc.Pick(5, 6)
	reps := verifmc.Pick(2, 3)
	r.Rule = fmt.Sprintf("every parent vector with n<=%d nodes x every primary/secondary marking x arrival index per block in {t0,t1} (n<=%d: full product; larger: all-equal and the two alternations) x every parent-first insertion order, %d repetitions, blocks added with BlockState.AddBlockWithArrivalTime on a fresh BlockState; BestBlockHash, BestBlockNumber and BestBlockHeader after every addition compared with the rule of the statement on a parent map", nMax, nFull, reps)
	tmp := os.Getenv("VERIF_TMP")
	if tmp == "" {
		t.Fatal("VERIF_TMP not set")
	}
	// in-memory databases are pooled: every BlockState gets a fresh block tree; the genesis
	// keys written by NewBlockStateFromGenesis are the same for every instance
	dbPool := sync.Pool{New: func() any {
		db, err := database.LoadDatabase(filepath.Join(tmp, fmt.Sprintf("c16db%d", atomic.AddInt64(&c16DBSeq, 1))), true)
		if err != nil {
			panic(err)
		}
		return db
	}}
	type elem struct {
		parent   []int
		primary  []bool
		arrivals [][]int
	}
	vioCount := map[string]int64{}
	var vioAll []verifmc.Violation
	for n := 1; n <= nMax; n++ {
		var elems []elem
		arrivals := ref.C16Arrivals(n, n <= nFull)
		verifmc.ParentVectors(n, func(parent []int) {
			dims := make([]int, n-1)
			for i := range dims {
				dims[i] = 2
			}
			verifmc.Product(dims, func(mk []int) {
				prim := make([]bool, n)
				for i := 1; i < n; i++ {
					prim[i] = mk[i-1] == 1
				}
				elems = append(elems, elem{append([]int{}, parent...), prim, arrivals})
			})
		})
		ctxs := make([]*c16StateCtx, len(elems))
		var mu sync.Mutex
		verifmc.ParallelFor(r, len(elems), func(i int) {
			e := elems[i]
			c := &c16StateCtx{vioCount: map[string]int64{}, outcomes: map[string]int64{}}
			db := dbPool.Get().(database.Database)
			defer dbPool.Put(db)
			tr, hdr := c16StateBuild(e.parent, e.primary)
			orders, ideals := ref.C16Orders(e.parent)
			for _, arr := range e.arrivals {
				c.states += int64(ideals)
				for _, order := range orders {
					for rep := 0; rep < reps; rep++ {
						c.hists++
						bs, err := NewBlockStateFromGenesis(db, NewTries(), hdr[0], c16NoTelemetry{})
						if err != nil {
							panic(err)
						}
						var mask uint32 = 1
						for j := 0; j <= len(order); j++ {
							rp := c16StateReplay{Tree: tr.String(), Parent: tr.Parent, Marks: nil, Arrival: arr, Order: order, Inserted: j}
							if j > 0 {
								x := order[j-1]
								c.trans++
								blk := &types.Block{Header: *hdr[x], Body: *types.NewBody([]types.Extrinsic{})}
								if err := bs.AddBlockWithArrivalTime(blk, time.Unix(1000+int64(arr[x]), 0)); err != nil {
									rp.Marks = tr.Marks()
									c.vio("AddBlockWithArrivalTime:rejects-child-of-held-block", fmt.Sprintf("AddBlockWithArrivalTime(b%d) = %v in tree %s", x, err, tr), rp)
									break
								}
								mask |= 1 << uint(x)
							}
							want, by := ref.C16Spec(tr, mask, 0, arr)
							c.obs++
							got := bs.BestBlockHash()
							if got != common.Hash(tr.Hash[want]) {
								rp.Marks = tr.Marks()
								c.vio("BlockState."+ref.C16Classify(tr, mask, 0, arr, got, want), fmt.Sprintf("BlockState.BestBlockHash = %s, rule selects b%d (decided by %s) after inserting %v of tree %s, arrival %v", tr.Label(got), want, by, order[:j], tr, arr[1:]), rp)
								continue
							}
							if rep == 0 {
								c.outcomes["decided-by:"+by]++
							}
							c.obs += 2
							if num, err := bs.BestBlockNumber(); err != nil || num != tr.Number[want] {
								rp.Marks = tr.Marks()
								c.vio("BlockState.BestBlockNumber:not-the-number-of-the-best-leaf", fmt.Sprintf("BestBlockNumber = %d, %v; best leaf b%d has number %d in tree %s", num, err, want, tr.Number[want], tr), rp)
							}
							if h, err := bs.BestBlockHeader(); err != nil || h.Hash() != common.Hash(tr.Hash[want]) || h.ParentHash != hdr[want].ParentHash {
								rp.Marks = tr.Marks()
								c.vio("BlockState.BestBlockHeader:not-the-header-of-the-best-leaf", fmt.Sprintf("BestBlockHeader = %v, %v; best leaf is b%d in tree %s", h, err, want, tr), rp)
							}
						}
					}
				}
			}
			mu.Lock()
			ctxs[i] = c
			mu.Unlock()
		}, func(i int, msg string) {
			r.Violate("panic:"+verifmc.PanicSite(msg), msg, map[string]any{"parent_vector": elems[i].parent, "primary": elems[i].primary})
		})
		for _, c := range ctxs {
			if c == nil {
				continue
			}
			for k, v := range c.outcomes {
				r.Outcomes[k] += v
			}
			for k, v := range c.vioCount {
				vioCount[k] += v
			}
			r.Add("states", c.states)
			r.Add("transitions", c.trans)
			r.Add("traces_validated_against_impl", c.hists)
			r.Add("evaluations", c.obs)
			vioAll = append(vioAll, c.vios...)
		}
		if len(elems) > 0 {
			e := elems[len(elems)/3]
			tr, _ := c16StateBuild(e.parent, e.primary)
			o, _ := ref.C16Orders(e.parent)
			r.Sample(map[string]any{"tree": tr.String(), "insertion_orders": len(o), "arrival_assignments": len(e.arrivals), "repetitions": reps})
		}
		if !r.Exhaustive {
			break
		}
		r.Extra["completed_size"] = n
	}
	for _, v := range vioAll {
		r.Violate(v.Sig, v.Desc, v.Replay)
	}
	r.Extra["mismatches_per_signature"] = vioCount
}
