//go:build verif

package grandpa

// C21: the voter's vote choices and finalisation follow GRANDPA-GHOST.
//
// A real Service (NewService over the c21 fakes, round opened with the real initiateRound) is
// voter 0 of n.  Votes of the other voters are delivered through the real validateVoteMessage;
// the node's own vote is stored exactly as votingRoundHandler.Run stores it.
//
// Part A (precommit choice).  For every tree / n / vote assignment: after delivery, and for every
// pending authority change c, determinePreCommit is called R times (map iteration order) and
// compared with the reference
//     W(B)  = #{non-equivocating voters whose prevote is B or a descendant} + #{equivocators}
//     G     = the highest block with 3*W(B) > 2n
//     want  = G, or the ancestor of G with number c if a change is pending at c < number(G)
// Only where some block has more than 2/3 (the statement is silent otherwise) and where the blocks
// with more than 2/3 form a chain (otherwise "the highest" is ambiguous; skipped and counted).
//
// Part B (finalisation).  Prevotes from a family of assignments, every precommit assignment of the
// other voters, own precommit absent or equal to what the node's own determinePreCommit returns;
// attemptToFinalize is called R times (each time on the same vote state with the finalisation
// effects undone).  If a block F is finalised then 3*Wprecommit(F) > 2n must hold, and, where the
// prevote GHOST exists, F must be an ancestor of or equal to the precommit target `want`.
//
// Part C (malformed votes are never counted).  Differential: a base sequence of valid votes is
// delivered with and without one malformed vote (bad signature, non-authority, unknown block,
// wrong block number, block not descending from the finalised head) inserted at every position; the
// stored prevotes/precommits/equivocations and every block's total weight must be identical.

import (
	"encoding/json"
	"errors"
	"fmt"
	"os"
	"sort"
	"strings"
	"sync"
	"sync/atomic"
	"testing"

	"github.com/ChainSafe/gossamer/internal/verifmc"
	"github.com/ChainSafe/gossamer/lib/blocktree"
	"github.com/ChainSafe/gossamer/lib/crypto/ed25519"
	"github.com/libp2p/go-libp2p/core/peer"
)

const (
	c21Round   = uint64(1)
	c21SetID   = uint64(0)
	c21Outside = 10 // key index of the non-authority
)

// ---------------------------------------------------------------- behaviours

// c21Beh is what one voter sends in one stage: nothing, one vote, or two different votes (in that order).
type c21Beh struct {
	Kind int `json:"kind"` // 0 none, 1 single, 2 equivocation
	B1   int `json:"b1"`
	B2   int `json:"b2"`
}

func (b c21Beh) String() string {
	switch b.Kind {
	case 1:
		return fmt.Sprintf("%d", b.B1)
	case 2:
		return fmt.Sprintf("%d&%d", b.B1, b.B2)
	}
	return "-"
}

// c21Behaviours: none, single(b) for the given blocks, equivocation pairs (ordered or unordered).
func c21Behaviours(blocks []int, ordered bool) []c21Beh {
	out := []c21Beh{{}}
	for _, b := range blocks {
		out = append(out, c21Beh{1, b, 0})
	}
	for i, b1 := range blocks {
		for j, b2 := range blocks {
			if i == j || (!ordered && j < i) {
				continue
			}
			out = append(out, c21Beh{2, b1, b2})
		}
	}
	return out
}

// c21Multisets calls f with every non-decreasing index sequence of length k over 0..nb-1.
func c21Multisets(k, nb int, f func(idx []int)) {
	idx := make([]int, k)
	var rec func(pos, from int)
	rec = func(pos, from int) {
		if pos == k {
			f(idx)
			return
		}
		for i := from; i < nb; i++ {
			idx[pos] = i
			rec(pos+1, i)
		}
	}
	rec(0, 0)
}

// ---------------------------------------------------------------- reference tallies

// c21Assign: per voter behaviour in one stage (index = voter, 0 = the node itself).
type c21Assign []c21Beh

// c21Weights: W(B) for every node, from the assignment only.
func c21Weights(tree *c21Tree, a c21Assign) []int {
	w := make([]int, len(tree.parent))
	for _, beh := range a {
		switch beh.Kind {
		case 1:
			for b := range w {
				if tree.isAnc(b, beh.B1) {
					w[b]++
				}
			}
		case 2:
			for b := range w {
				w[b]++
			}
		}
	}
	return w
}

// c21Ghost: the highest block with more than 2/3 of n; status "none" (no such block),
// "nonchain" (the blocks with more than 2/3 are not on one chain) or
// "equivocators-alone-exceed-two-thirds".
func c21Ghost(tree *c21Tree, w []int, n int, a c21Assign) (g int, status string) {
	g = -1
	eq := 0
	for _, beh := range a {
		if beh.Kind == 2 {
			eq++
		}
	}
	if 3*eq > 2*n {
		// the equivocators alone exceed 2/3: every block, voted for or not, known to this node or not,
		// has "more than two thirds"; the votes do not determine a highest one
		return -1, "equivocators-alone-exceed-two-thirds"
	}
	var super []int
	for b := range w {
		if 3*w[b] > 2*n {
			super = append(super, b)
		}
	}
	if len(super) == 0 {
		return -1, "none"
	}
	for _, x := range super {
		for _, y := range super {
			if !tree.isAnc(x, y) && !tree.isAnc(y, x) {
				return -1, "nonchain"
			}
		}
		if g < 0 || tree.num[x] > tree.num[g] {
			g = x
		}
	}
	return g, "ok"
}

// c21Cap: the ancestor of g at number c when a change is pending at c below g.
func c21Cap(tree *c21Tree, g int, c uint) int {
	if c == 0 || tree.num[g] <= c {
		return g
	}
	for tree.num[g] > c {
		g = tree.parent[g]
	}
	return g
}

// ---------------------------------------------------------------- driving the real service

type c21Run struct {
	nd   *c21Node
	tree *c21Tree
	bad  bool // a panic happened: never recycle
	prop bool // an equivocator's second prevote-stage message is sent as a primary proposal
}

func c21Open(tree *c21Tree, head, n int) *c21Run {
	nd := c21GetNode(tree, head, n, 0)
	if err := nd.svc.initiateRound(); err != nil {
		panic(fmt.Sprintf("c21: initiateRound: %v", err))
	}
	if nd.svc.state.round != c21Round {
		panic("c21: round after initiateRound is not 1")
	}
	return &c21Run{nd: nd, tree: tree}
}

func (x *c21Run) close() {
	if !x.bad {
		c21PutNode(x.nd)
	}
}

func c21ErrClass(err error) string {
	switch {
	case err == nil:
		return "ok"
	case errors.Is(err, ErrEquivocation):
		return "ErrEquivocation"
	case errors.Is(err, ErrInvalidSignature):
		return "ErrInvalidSignature"
	case errors.Is(err, ErrVoterNotFound):
		return "ErrVoterNotFound"
	case errors.Is(err, ErrBlockDoesNotExist):
		return "ErrBlockDoesNotExist"
	case errors.Is(err, errVoteBlockMismatch):
		return "errVoteBlockMismatch"
	case errors.Is(err, errVoteFromSelf):
		return "errVoteFromSelf"
	case errors.Is(err, ErrBlockNumbersMismatch), errors.Is(err, ErrBlockHashMismatch):
		return "block-number-mismatch"
	case errors.Is(err, blocktree.ErrStartNodeNotFound), errors.Is(err, blocktree.ErrEndNodeNotFound), errors.Is(err, blocktree.ErrNodeNotFound):
		return "blocktree-node-not-found"
	}
	return "other:" + err.Error()
}

// send delivers one vote message through the real validateVoteMessage.
func (x *c21Run) send(r *verifmc.Report, m *VoteMessage) string {
	var err error
	p, msg := verifmc.Guard(func() { _, err = x.nd.svc.validateVoteMessage(peer.ID("c21peer"), m) })
	if p {
		x.bad = true
		return "panic:" + verifmc.PanicSite(msg)
	}
	c := c21ErrClass(err)
	if r != nil {
		r.Outcome("validateVoteMessage:" + c)
	}
	return c
}

// deliver sends the votes of one stage: the node's own vote is stored directly, the others' go
// through validateVoteMessage in voter order, an equivocator's two votes back to back.
func (x *c21Run) deliver(r *verifmc.Report, a c21Assign, stage Subround) {
	for v, beh := range a {
		if beh.Kind == 0 {
			continue
		}
		if v == 0 {
			x.nd.c21StoreOwnVote(x.tree.vote(beh.B1), stage)
			continue
		}
		x.send(r, c21VoteMsg(v, stage, x.tree.vote(beh.B1), c21Round, c21SetID))
		if beh.Kind == 2 {
			st2 := stage
			if x.prop && stage == prevote {
				// gossamer keeps primary proposals with the prevotes: a proposal for another block than the
				// sender's prevote is an equivocation like two prevotes
				st2 = primaryProposal
			}
			x.send(r, c21VoteMsg(v, st2, x.tree.vote(beh.B2), c21Round, c21SetID))
		}
	}
}

func (x *c21Run) name(v *Vote) string {
	if v == nil {
		return "nil"
	}
	i, ok := x.tree.idx[v.Hash]
	if !ok {
		return "unknown-hash#" + fmt.Sprint(v.Number)
	}
	if uint(v.Number) != x.tree.num[i] {
		return fmt.Sprintf("%d(with number %d instead of %d)", i, v.Number, x.tree.num[i])
	}
	return fmt.Sprint(i)
}

// ---------------------------------------------------------------- elements

type c21Elem struct {
	Part   string   `json:"part"`
	Parent []int    `json:"parent"`
	Head   int      `json:"head"`
	N      int      `json:"n"`
	C      uint     `json:"pending_change_at"`
	Prop   bool      `json:"second_prevote_of_an_equivocator_sent_as_primary_proposal,omitempty"`
	Pre    c21Assign `json:"prevotes"`   // index = voter
	Pc     c21Assign `json:"precommits"` // index = voter
	// part C
	Base []c21Msg `json:"base,omitempty"`
	Mal  *c21Msg  `json:"malformed,omitempty"`
	Pos  int      `json:"insert_at,omitempty"`
}

func (e *c21Elem) render() string {
	s := fmt.Sprintf("part %s tree(parent)=%v head=%d n=%d", e.Part, e.Parent, e.Head, e.N)
	if e.Prop {
		s += " (second message of every prevote equivocator sent as primary proposal)"
	}
	if e.Part == "C" {
		var b []string
		for _, m := range e.Base {
			b = append(b, m.String())
		}
		return s + fmt.Sprintf(" base=[%s] malformed=%s inserted at %d", strings.Join(b, " "), e.Mal, e.Pos)
	}
	f := func(a c21Assign) string {
		var p []string
		for v, b := range a {
			p = append(p, fmt.Sprintf("v%d:%s", v, b))
		}
		return strings.Join(p, " ")
	}
	s += fmt.Sprintf(" pending-change-at=%d prevotes[%s]", e.C, f(e.Pre))
	if e.Part == "B" {
		s += fmt.Sprintf(" precommits[%s]", f(e.Pc))
	}
	return s
}

// violations: per signature the count and the 3 simplest witnesses are kept, so that the reported
// witnesses are minimal and the same in every run
type c21Vio struct {
	desc   string
	size   int
	order  int64
	replay any
}

func (a *c21Vio) less(b *c21Vio) bool {
	if a.size != b.size {
		return a.size < b.size
	}
	return a.order < b.order
}

type c21SigBucket struct {
	count int
	best  []c21Vio
}

type c21Sink struct {
	mu   sync.Mutex
	sigs map[string]*c21SigBucket
}

func (s *c21Sink) add(sig, desc string, size int, order int64, replay any) {
	s.mu.Lock()
	defer s.mu.Unlock()
	if s.sigs == nil {
		s.sigs = map[string]*c21SigBucket{}
	}
	b := s.sigs[sig]
	if b == nil {
		b = &c21SigBucket{}
		s.sigs[sig] = b
	}
	b.count++
	b.best = append(b.best, c21Vio{desc, size, order, replay})
	sort.SliceStable(b.best, func(i, j int) bool { return b.best[i].less(&b.best[j]) })
	if len(b.best) > 3 {
		b.best = b.best[:3]
	}
}

func (s *c21Sink) flush(r *verifmc.Report) {
	var sigs []string
	for k := range s.sigs {
		sigs = append(sigs, k)
	}
	sort.Slice(sigs, func(i, j int) bool {
		a, b := s.sigs[sigs[i]].best[0], s.sigs[sigs[j]].best[0]
		if a.less(&b) != b.less(&a) {
			return a.less(&b)
		}
		return sigs[i] < sigs[j]
	})
	for _, sig := range sigs {
		b := s.sigs[sig]
		for _, v := range b.best {
			r.Violate(sig, v.desc, v.replay)
		}
		for i := len(b.best); i < b.count; i++ {
			r.Violate(sig, "", nil) // counted only
		}
	}
}

func c21Size(e *c21Elem) int {
	s := len(e.Parent)*100 + e.N*10
	for _, b := range e.Pre {
		s += b.Kind
	}
	for _, b := range e.Pc {
		s += b.Kind
	}
	if e.C != 0 {
		s++
	}
	return s + len(e.Base)
}

func c21Replay(e *c21Elem, extra map[string]any) any {
	cp := *e
	cp.Parent = append([]int{}, e.Parent...)
	cp.Pre = append(c21Assign{}, e.Pre...)
	cp.Pc = append(c21Assign{}, e.Pc...)
	cp.Base = append([]c21Msg{}, e.Base...)
	if e.Mal != nil {
		m := *e.Mal
		cp.Mal = &m
	}
	m := map[string]any{"elem": &cp, "rendered": cp.render(), "repeat": 64}
	for k, v := range extra {
		m[k] = v
	}
	return m
}

// ---------------------------------------------------------------- part A

// c21CheckA: the prevotes of e.Pre are delivered once; determinePreCommit is compared for every c in cs, R times each.
func c21CheckA(r *verifmc.Report, sink *c21Sink, order int64, tree *c21Tree, e *c21Elem, cs []uint, R int) {
	x := c21Open(tree, e.Head, e.N)
	defer x.close()
	x.prop = e.Prop
	x.deliver(r, e.Pre, prevote)
	if x.bad {
		sink.add("panic:validateVoteMessage", e.render(), c21Size(e), order, c21Replay(e, nil))
		return
	}
	w := c21Weights(tree, e.Pre)
	g, status := c21Ghost(tree, w, e.N, e.Pre)
	for _, c := range cs {
		e.C = c
		x.nd.gs.nextChange = c
		r.Add("evaluations", 1)
		r.Add("evaluations_A", 1)
		if status != "ok" {
			r.Outcome("A:not-compared:" + status)
		}
		seen := map[string]bool{}
		for rep := 0; rep < R; rep++ {
			var got *Vote
			var err error
			p, msg := verifmc.Guard(func() { got, err = x.nd.svc.determinePreCommit() })
			if p {
				x.bad = true
				sink.add("panic:"+verifmc.PanicSite(msg), e.render()+"\n"+msg, c21Size(e), order, c21Replay(e, nil))
				return
			}
			res := x.name(got)
			if err != nil {
				res = "error:" + c21ErrClass(err)
			}
			if seen[res] {
				continue
			}
			seen[res] = true
			if status != "ok" {
				continue // statement silent (no block above 2/3) or ambiguous: executed, not compared
			}
			want := c21Cap(tree, g, c)
			if res == fmt.Sprint(want) {
				r.Outcome(fmt.Sprintf("A:agree|ghost-depth=%d|capped=%v", tree.num[g], want != g))
				r.Distinct(fmt.Sprintf("A|%v|n%d|c%d|w%v|%s", e.Parent, e.N, c, w, res))
				continue
			}
			sig := c21ShapeA(x, tree, e, w, g, want, got, err)
			r.Outcome("A:MISMATCH:" + sig)
			sink.add(sig, fmt.Sprintf("%s: determinePreCommit = %s, but the highest block with more than 2/3 of the %d prevote weights %v is %d and the precommit target (change pending at %d) is %d",
				e.render(), res, e.N, w, g, c, want), c21Size(e), order,
				c21Replay(e, map[string]any{"weights": w, "ghost": g, "want": want, "got": res}))
		}
		if len(seen) > 1 {
			atomic.AddInt64(&c21Nondet, 1)
			var l []string
			for k := range seen {
				l = append(l, k)
			}
			sort.Strings(l)
			want := "not-compared"
			if status == "ok" {
				want = fmt.Sprint(c21Cap(tree, g, c))
			}
			if status == "ok" {
				r.Outcome("A:nondeterministic-although-the-ghost-is-determined") // never seen; would make the counts run-dependent
			}
			c21NondetSample.Store(fmt.Sprintf("determinePreCommit: %s -> results %v (want %s)", e.render(), l, want))
		}
	}
	e.C = 0
}

// c21ShapeA names the exact shape of a precommit-choice mismatch.
func c21ShapeA(x *c21Run, tree *c21Tree, e *c21Elem, w []int, g, want int, got *Vote, err error) string {
	const p = "determinePreCommit:"
	if err != nil {
		return p + "error-although-a-block-has-supermajority:" + c21ErrClass(err)
	}
	gi, ok := tree.idx[got.Hash]
	if !ok {
		return p + "unknown-block"
	}
	if uint(got.Number) != tree.num[gi] {
		return p + "vote-number-differs-from-header"
	}
	direct := func(b int) bool {
		for _, beh := range e.Pre {
			if beh.Kind == 1 && beh.B1 == b { // an equivocator's votes are not direct votes for anything
				return true
			}
		}
		return false
	}
	if want != g { // a cap applies
		switch {
		case gi == g:
			return p + "authority-change-cap-not-applied"
		case tree.num[gi] == tree.num[want] && !tree.isAnc(gi, g):
			return p + "authority-change-cap-picks-block-off-the-ghost-chain"
		}
	}
	switch {
	case 3*w[gi] <= 2*e.N:
		return p + "block-without-supermajority"
	case tree.isAnc(gi, want) && want == g && !direct(g) && direct(gi):
		return p + "stops-at-directly-voted-ancestor-of-undirectly-supported-ghost"
	case tree.isAnc(gi, want):
		return p + "ancestor-of-the-ghost"
	}
	return p + "wrong-result"
}

// ---------------------------------------------------------------- part B

func c21CheckB(r *verifmc.Report, sink *c21Sink, order int64, tree *c21Tree, e *c21Elem, pcs []c21Assign, R int) {
	x := c21Open(tree, e.Head, e.N)
	defer x.close()
	x.prop = e.Prop
	x.deliver(nil, e.Pre, prevote)
	x.nd.gs.nextChange = e.C
	wpv := c21Weights(tree, e.Pre)
	g, status := c21Ghost(tree, wpv, e.N, e.Pre)
	want := -1
	if status == "ok" {
		want = c21Cap(tree, g, e.C)
	}
	s := x.nd.svc
	// the node's own precommit is never arbitrary: it is absent or what its own determinePreCommit says
	ownPc := -1
	{
		var own *Vote
		var err error
		if p, _ := verifmc.Guard(func() { own, err = s.determinePreCommit() }); p {
			x.bad = true
			return // part A reports panics of determinePreCommit
		}
		if err == nil {
			if i, ok := tree.idx[own.Hash]; ok {
				ownPc = i
			}
		}
	}
	for k, pc := range pcs {
		if pc[0].Kind != 0 && pc[0].B1 != ownPc {
			continue
		}
		e.Pc = pc
		// fresh precommit stage on the same prevote state
		s.precommits = new(sync.Map)
		s.pcEquivocations = map[ed25519.PublicKeyBytes][]*SignedVote{}
		x.deliver(nil, pc, precommit)
		if x.bad {
			sink.add("panic:validateVoteMessage", e.render(), c21Size(e), order, c21Replay(e, nil))
			return
		}
		wpc := c21Weights(tree, pc)
		r.Add("evaluations", 1)
		r.Add("evaluations_B", 1)
		seen := map[string]bool{}
		for rep := 0; rep < R; rep++ {
			// undo the effects of an earlier finalisation
			x.nd.bs.c21Reset(e.Head)
			s.head = tree.hdr[e.Head]
			s.preVotedBlock = map[uint64]*Vote{}
			s.bestFinalCandidate = map[uint64]*Vote{}
			var fin bool
			var err error
			p, msg := verifmc.Guard(func() { fin, err = s.attemptToFinalize() })
			if p {
				x.bad = true
				sink.add("attemptToFinalize:panic:"+verifmc.PanicSite(msg), e.render()+"\n"+msg, c21Size(e), order+int64(k), c21Replay(e, nil))
				return
			}
			calls := x.nd.bs.c21FinalCalls()
			res := fmt.Sprintf("fin=%v err=%s calls=", fin, c21ErrClass(err))
			unknown := false
			for _, c := range calls {
				fi, ok := tree.idx[c.Hash]
				if !ok {
					unknown = true
					continue
				}
				res += fmt.Sprint(fi) + ","
			}
			if unknown {
				sink.add("attemptToFinalize:finalises-unknown-block", e.render(), c21Size(e), order+int64(k), c21Replay(e, nil))
				continue
			}
			if seen[res] {
				continue
			}
			seen[res] = true
			if len(calls) == 0 {
				r.Outcome(fmt.Sprintf("B:nothing-finalised|fin=%v|err=%s", fin, c21ErrClass(err)))
				continue
			}
			for _, c := range calls {
				f := tree.idx[c.Hash]
				okW := 3*wpc[f] > 2*e.N
				okA := want < 0 || tree.isAnc(f, want)
				r.Distinct(fmt.Sprintf("B|%v|n%d|c%d|pv%v|pc%v|F%d", e.Parent, e.N, e.C, wpv, wpc, f))
				if okW && okA {
					if want < 0 {
						r.Outcome("B:finalised|precommit-supermajority|no-prevote-ghost (ancestry not judged: " + status + ")")
					} else {
						r.Outcome(fmt.Sprintf("B:finalised|precommit-supermajority|ancestor-of-target|capped=%v", want != g))
					}
					continue
				}
				var sig string
				switch {
				case !okW:
					sig = "attemptToFinalize:finalises-without-precommit-supermajority"
				case tree.isAnc(f, g):
					sig = "attemptToFinalize:finalises-above-the-authority-change-cap"
				default:
					sig = "attemptToFinalize:finalises-block-off-the-precommit-target-chain"
				}
				r.Outcome("B:MISMATCH:" + sig)
				sink.add(sig, fmt.Sprintf("%s: attemptToFinalize finalised block %d; precommit weights %v (need more than 2n/3 = %d/3), prevote weights %v, prevote ghost %d, precommit target %d",
					e.render(), f, wpc, 2*e.N, wpv, g, want), c21Size(e), order+int64(k),
					c21Replay(e, map[string]any{"precommit_weights": wpc, "prevote_weights": wpv, "ghost": g, "want": want, "finalised": f}))
			}
		}
		if len(seen) > 1 {
			atomic.AddInt64(&c21Nondet, 1)
			c21NondetSample.Store(fmt.Sprintf("attemptToFinalize: %s", e.render()))
		}
	}
	e.Pc = nil
}

// ---------------------------------------------------------------- part C

const (
	c21MValid = iota
	c21MBadSig
	c21MNonAuthority
	c21MUnknownBlock
	c21MWrongNumberUp
	c21MWrongNumberDown
	c21MNotDescendant
)

var c21MName = []string{"valid", "bad-signature", "non-authority", "unknown-block", "wrong-number+1", "wrong-number-1", "not-descendant-of-finalised-head"}

type c21Msg struct {
	Kind  int `json:"kind"`
	Voter int `json:"voter"`
	Stage int `json:"stage"` // 0 prevote, 1 precommit
	Blk   int `json:"blk"`
}

func (m c21Msg) String() string {
	st := "pv"
	if m.Stage == 1 {
		st = "pc"
	}
	if m.Kind == c21MValid {
		return fmt.Sprintf("v%d:%s:%d", m.Voter, st, m.Blk)
	}
	return fmt.Sprintf("%s(v%d:%s:%d)", c21MName[m.Kind], m.Voter, st, m.Blk)
}

func c21BuildMsg(tree *c21Tree, m c21Msg) *VoteMessage {
	stage := Subround(m.Stage)
	v := Vote{}
	if m.Kind == c21MUnknownBlock {
		v = Vote{Hash: c21UnknownHash, Number: 1}
	} else {
		v = tree.vote(m.Blk)
	}
	key := m.Voter
	switch m.Kind {
	case c21MNonAuthority:
		key = c21Outside
	case c21MWrongNumberUp:
		v.Number++
	case c21MWrongNumberDown:
		v.Number--
	}
	msg := c21VoteMsg(key, stage, v, c21Round, c21SetID)
	if m.Kind == c21MBadSig {
		msg.Message.Signature[0] ^= 0x01
	}
	return msg
}

// c21Snapshot: everything the tallies are made of, canonically.
func c21Snapshot(x *c21Run) []string {
	s := x.nd.svc
	var out []string
	dump := func(tag string, m *sync.Map) {
		var l []string
		m.Range(func(k, v any) bool {
			sv := v.(*SignedVote)
			kb := k.(ed25519.PublicKeyBytes)
			l = append(l, fmt.Sprintf("%s[%x]=%s", tag, kb[:3], x.name(&sv.Vote)))
			return true
		})
		sort.Strings(l)
		out = append(out, l...)
	}
	dump("prevote", s.prevotes)
	dump("precommit", s.precommits)
	eq := func(tag string, m map[ed25519.PublicKeyBytes][]*SignedVote) {
		var l []string
		for k, vs := range m {
			e := fmt.Sprintf("%s-equivocator[%x]=", tag, k[:3])
			for _, v := range vs {
				e += x.name(&v.Vote) + ","
			}
			l = append(l, e)
		}
		sort.Strings(l)
		out = append(out, l...)
	}
	eq("prevote", s.pvEquivocations)
	eq("precommit", s.pcEquivocations)
	for i, h := range x.tree.hash {
		a, e1 := s.getTotalVotesForBlock(h, prevote)
		b, e2 := s.getTotalVotesForBlock(h, precommit)
		out = append(out, fmt.Sprintf("total[%d]=pv%d/pc%d/%v/%v", i, a, b, e1 != nil, e2 != nil))
	}
	return out
}

func c21RunSeq(tree *c21Tree, head, n int, seq []c21Msg) (snap []string, classes []string, bad bool) {
	x := c21Open(tree, head, n)
	defer x.close()
	for _, m := range seq {
		classes = append(classes, x.send(nil, c21BuildMsg(tree, m)))
	}
	if x.bad {
		return nil, classes, true
	}
	p, _ := verifmc.Guard(func() { snap = c21Snapshot(x) })
	if p {
		x.bad = true
		return nil, classes, true
	}
	return snap, classes, false
}

func c21CheckC(r *verifmc.Report, sink *c21Sink, order int64, tree *c21Tree, e *c21Elem, mals []c21Msg) {
	baseSnap, _, bad := c21RunSeq(tree, e.Head, e.N, e.Base)
	if bad {
		sink.add("panic:base-sequence", e.render(), c21Size(e), order, c21Replay(e, nil))
		return
	}
	if len(e.Base) > 0 {
		r.Outcome(fmt.Sprintf("C:base-tally-lines=%d", len(baseSnap)))
	}
	k := int64(0)
	for mi := range mals {
		for pos := 0; pos <= len(e.Base); pos++ {
			k++
			mal := mals[mi]
			e.Mal, e.Pos = &mal, pos
			seq := append(append(append([]c21Msg{}, e.Base[:pos]...), mal), e.Base[pos:]...)
			snap, classes, bad := c21RunSeq(tree, e.Head, e.N, seq)
			r.Add("evaluations", 1)
			r.Add("evaluations_C", 1)
			if bad {
				sink.add("malformed-vote:panic:"+c21MName[mal.Kind], e.render(), c21Size(e), order+k, c21Replay(e, nil))
				continue
			}
			r.Outcome("C:" + c21MName[mal.Kind] + "->" + classes[pos])
			if strings.Join(snap, "\n") == strings.Join(baseSnap, "\n") {
				r.Distinct(fmt.Sprintf("C|%v|h%d|%s|%s|%v", e.Parent, e.Head, c21MName[mal.Kind], classes[pos], len(e.Base)))
				continue
			}
			// shape of the difference
			inBase := map[string]bool{}
			for _, l := range baseSnap {
				inBase[l] = true
			}
			inNew := map[string]bool{}
			for _, l := range snap {
				inNew[l] = true
			}
			var added, removed []string
			for _, l := range snap {
				if !inBase[l] {
					added = append(added, l)
				}
			}
			for _, l := range baseSnap {
				if !inNew[l] {
					removed = append(removed, l)
				}
			}
			effect := "changes-tally"
			has := func(ls []string, pre string) bool {
				for _, l := range ls {
					if strings.HasPrefix(l, pre) && !strings.HasPrefix(l, "total") {
						return true
					}
				}
				return false
			}
			switch {
			case has(added, "prevote-equivocator") || has(added, "precommit-equivocator"):
				effect = "makes-the-sender-an-equivocator"
			case (has(added, "prevote[") || has(added, "precommit[")) && (has(removed, "prevote[") || has(removed, "precommit[")):
				effect = "replaces-the-senders-vote"
			case has(added, "prevote[") || has(added, "precommit["):
				effect = "stored-as-a-vote"
			}
			kind := c21MName[mal.Kind]
			if mal.Kind == c21MWrongNumberUp || mal.Kind == c21MWrongNumberDown {
				kind = "wrong-block-number"
			}
			sig := "malformed-vote-counted:" + kind + ":" + effect
			r.Outcome("C:MISMATCH:" + sig)
			sink.add(sig, fmt.Sprintf("%s: validateVoteMessage returned %q for the malformed vote and the tallies changed: added %v removed %v",
				e.render(), classes[pos], added, removed), c21Size(e), order+k,
				c21Replay(e, map[string]any{"added": added, "removed": removed, "validateVoteMessage": classes[pos]}))
		}
	}
	e.Mal, e.Pos = nil, 0
}

// ---------------------------------------------------------------- enumeration

type c21Group struct {
	part string
	tree *c21Tree
	elem c21Elem
	cs   []uint      // part A
	pcs  []c21Assign // part B
	mals []c21Msg    // part C
}

func c21AllBlocks(m int) []int {
	b := make([]int, m)
	for i := range b {
		b[i] = i
	}
	return b
}

// c21Assignments: own behaviour (none or a single vote) x every multiset of behaviours of the other n-1 voters.
func c21Assignments(n int, blocks []int, ordered bool, f func(a c21Assign)) {
	behs := c21Behaviours(blocks, ordered)
	own := []c21Beh{{}}
	for _, b := range blocks {
		own = append(own, c21Beh{1, b, 0})
	}
	for _, o := range own {
		c21Multisets(n-1, len(behs), func(idx []int) {
			a := make(c21Assign, n)
			a[0] = o
			for i, k := range idx {
				a[i+1] = behs[k]
			}
			f(a)
		})
	}
}

func c21Groups() (groups []c21Group, rule string) {
	thorough := verifmc.Thorough()
	trees := map[string]*c21Tree{}
	treeOf := func(parent []int) *c21Tree {
		k := fmt.Sprint(parent)
		if t, ok := trees[k]; ok {
			return t
		}
		t := c21NewTree(parent)
		trees[k] = t
		return t
	}
	cs := []uint{0, 1, 2}
	// ---- part A
	type ab struct {
		nodes, minN, maxN int
		ordered           bool
	}
	boundsA := verifmc.Pick(
		[]ab{{1, 1, 5, true}, {2, 1, 5, true}, {3, 1, 5, true}, {4, 1, 4, true}, {4, 5, 5, false}},
		[]ab{{1, 1, 7, true}, {2, 1, 7, true}, {3, 1, 6, true}, {3, 7, 7, false}, {4, 1, 5, true}, {4, 6, 7, false}, {5, 1, 4, true}, {5, 5, 5, false}})
	for _, b := range boundsA {
		verifmc.ParentVectors(b.nodes, func(parent []int) {
			tree := treeOf(parent)
			for n := b.minN; n <= b.maxN; n++ {
				c21Assignments(n, c21AllBlocks(b.nodes), b.ordered, func(a c21Assign) {
					groups = append(groups, c21Group{part: "A", tree: tree, cs: cs,
						elem: c21Elem{Part: "A", Parent: tree.parent, N: n, Pre: a}})
					// the same assignment with every equivocator's second message sent as a primary proposal
					// (trees of <= 3 nodes, n <= 4: the tallies must be those of an ordinary equivocation)
					if b.nodes <= 3 && n <= 4 {
						for _, beh := range a {
							if beh.Kind == 2 {
								groups = append(groups, c21Group{part: "A", tree: tree, cs: cs,
									elem: c21Elem{Part: "A", Parent: tree.parent, N: n, Pre: a, Prop: true}})
								break
							}
						}
					}
				})
			}
		})
	}
	if !thorough {
		// the smallest tree with two forks of depth 2 (ghost on the fork that is not this node's best chain)
		tree := treeOf([]int{-1, 0, 1, 0, 3})
		for n := 1; n <= 3; n++ {
			c21Assignments(n, c21AllBlocks(5), false, func(a c21Assign) {
				groups = append(groups, c21Group{part: "A", tree: tree, cs: cs,
					elem: c21Elem{Part: "A", Parent: tree.parent, N: n, Pre: a}})
			})
		}
	}
	// ---- part B: prevote family = unanimous on p, or voters alternating between p1 and p2
	type bb struct{ nodes, maxN int }
	boundsB := verifmc.Pick([]bb{{2, 4}, {3, 4}, {4, 4}}, []bb{{2, 5}, {3, 5}, {4, 5}, {5, 3}})
	for _, b := range boundsB {
		verifmc.ParentVectors(b.nodes, func(parent []int) {
			tree := treeOf(parent)
			blocks := c21AllBlocks(b.nodes)
			for n := 1; n <= b.maxN; n++ {
				var pcs []c21Assign
				c21Assignments(n, blocks, thorough, func(a c21Assign) { pcs = append(pcs, a) })
				var fam []c21Assign
				for _, p := range blocks {
					a := make(c21Assign, n)
					for v := range a {
						a[v] = c21Beh{1, p, 0}
					}
					fam = append(fam, a)
				}
				if n >= 2 {
					for _, p1 := range blocks {
						for _, p2 := range blocks {
							if p1 == p2 {
								continue
							}
							a := make(c21Assign, n)
							for v := range a {
								a[v] = c21Beh{1, p1, 0}
								if v%2 == 1 {
									a[v].B1 = p2
								}
							}
							fam = append(fam, a)
							// ... and the same with the LAST voter equivocating in the prevote stage (p1 and p2): a
							// prevote equivocator must not gain weight in the precommit tally (added after a seeded
							// change that counted prevote equivocators as precommit equivocators was missed)
							e := make(c21Assign, n)
							for v := range e {
								e[v] = c21Beh{1, p1, 0}
							}
							e[n-1] = c21Beh{2, p1, p2}
							fam = append(fam, e)
						}
					}
				}
				for _, pv := range fam {
					for _, c := range cs {
						groups = append(groups, c21Group{part: "B", tree: tree, pcs: pcs,
							elem: c21Elem{Part: "B", Parent: tree.parent, N: n, C: c, Pre: pv}})
					}
				}
			}
		})
	}
	// ---- part C
	type cb struct{ nodes, maxN int }
	boundsC := verifmc.Pick([]cb{{2, 3}, {3, 3}, {4, 3}}, []cb{{2, 4}, {3, 4}, {4, 4}, {5, 3}})
	for _, b := range boundsC {
		verifmc.ParentVectors(b.nodes, func(parent []int) {
			tree := treeOf(parent)
			for head := 0; head <= 1; head++ {
				var valid, notDesc []int
				for i := range parent {
					if tree.isAnc(head, i) {
						valid = append(valid, i)
					} else {
						notDesc = append(notDesc, i)
					}
				}
				for n := 2; n <= b.maxN; n++ {
					// malformed messages: every kind x sender x stage x block
					var mals []c21Msg
					for stage := 0; stage <= 1; stage++ {
						for v := 1; v < n; v++ {
							for _, blk := range valid {
								mals = append(mals, c21Msg{c21MBadSig, v, stage, blk}, c21Msg{c21MWrongNumberUp, v, stage, blk})
								if tree.num[blk] > 0 {
									mals = append(mals, c21Msg{c21MWrongNumberDown, v, stage, blk})
								}
							}
							mals = append(mals, c21Msg{c21MUnknownBlock, v, stage, 0})
							for _, blk := range notDesc {
								mals = append(mals, c21Msg{c21MNotDescendant, v, stage, blk})
							}
						}
						for _, blk := range valid {
							mals = append(mals, c21Msg{c21MNonAuthority, 0, stage, blk})
						}
					}
					// base: every voter 1..n-1 votes for nothing or one valid block (same block in both stages)
					dims := make([]int, n-1)
					for i := range dims {
						dims[i] = len(valid) + 1
					}
					verifmc.Product(dims, func(idx []int) {
						var base []c21Msg
						for stage := 0; stage <= 1; stage++ {
							for i, k := range idx {
								if k > 0 {
									base = append(base, c21Msg{c21MValid, i + 1, stage, valid[k-1]})
								}
							}
						}
						groups = append(groups, c21Group{part: "C", tree: tree, mals: mals,
							elem: c21Elem{Part: "C", Parent: tree.parent, Head: head, N: n, Base: base}})
					})
				}
			}
		})
	}
	rule = fmt.Sprintf("real Service = voter 0 of n over fakes, round 1; votes delivered through the real validateVoteMessage in voter order (own vote stored as the round handler does). "+
		"A: every parent vector with the given node count, finalised head = root, every n in min..max, own prevote in {none, any block}, every multiset of behaviours {none, vote for any block, two different votes (ordered unless stated)} of the other voters, pending authority change in %v; determinePreCommit R=%d times; (nodes,min n,max n,ordered pairs) in %v (quick: plus the 5-node tree 0->1->2, 0->3->4 with n<=3, unordered pairs). "+
		"B: prevotes unanimous on each block or alternating between each ordered pair of blocks, pending change in %v, every precommit assignment (as in A, pairs %s); attemptToFinalize R times; (nodes,max n) in %v. "+
		"C: head in {root, node 1}, n>=2, base = every assignment of the other voters to {none, a block descending from the head} sent in both stages; one malformed vote (bad signature, wrong number +1/-1, unknown block, block not descending from the head: by every other voter; valid signature of a non-authority) for every block and stage inserted at every position; (nodes,max n) in %v. "+
		"Non-trivial = distinct (tree, n, c, weight vector, result) classes.",
		cs, c21R(), boundsA, cs, map[bool]string{true: "ordered", false: "unordered"}[thorough], boundsB, boundsC)
	return groups, rule
}

func c21R() int { return verifmc.Pick(3, 8) }

// elements whose repetitions gave different results (map iteration order): observed, run-dependent, hence
// kept out of the counters; every distinct result is judged on its own
var (
	c21Nondet       int64
	c21NondetSample atomic.Value
)

func c21RunGroup(r *verifmc.Report, sink *c21Sink, order int64, g *c21Group, R int) {
	e := g.elem
	switch g.part {
	case "A":
		c21CheckA(r, sink, order, g.tree, &e, g.cs, R)
	case "B":
		c21CheckB(r, sink, order, g.tree, &e, g.pcs, R)
	case "C":
		c21CheckC(r, sink, order, g.tree, &e, g.mals)
	}
}

func TestVerif_C21(t *testing.T) {
	r := verifmc.NewReport("C21", "grandpa-ghost", "exploration")
	defer r.Write()
	c21Keypair(0)
	if p := os.Getenv("VERIF_REPLAY"); p != "" {
		b, err := os.ReadFile(p)
		if err != nil {
			t.Fatal(err)
		}
		var f struct {
			Replay struct {
				Elem   c21Elem `json:"elem"`
				Repeat int     `json:"repeat"`
			} `json:"replay"`
		}
		if err := json.Unmarshal(b, &f); err != nil {
			t.Fatal(err)
		}
		r.Rule = "replay of " + p
		e := f.Replay.Elem
		tree := c21NewTree(e.Parent)
		sink := &c21Sink{}
		g := c21Group{part: e.Part, tree: tree, elem: e, cs: []uint{e.C}, pcs: []c21Assign{e.Pc}}
		if e.Mal != nil {
			g.mals = []c21Msg{*e.Mal}
		}
		if f.Replay.Repeat < 1 {
			f.Replay.Repeat = 1
		}
		c21RunGroup(r, sink, 0, &g, f.Replay.Repeat)
		sink.flush(r)
		return
	}
	groups, rule := c21Groups()
	r.Rule = rule
	r.Assumption("reference: weights over the plain parent vector; a vote counts iff the harness built it as valid (correct signature of an authority over (stage, hash, header number, round 1, set 0) for a block descending from the finalised head)")
	r.Assumption("map iteration order cannot be seeded: every tally-dependent call is repeated R times on the same vote state and every distinct result is judged; the (run-dependent) number of elements whose results differed between repetitions is reported in extra.nondeterministic_elements_observed")
	R := c21R()
	sink := &c21Sink{}
	verifmc.ParallelFor(r, len(groups), func(i int) {
		c21RunGroup(r, sink, int64(i)<<20, &groups[i], R)
	}, func(i int, msg string) {
		sink.add("harness-panic", msg, 0, int64(i), map[string]any{"elem": groups[i].elem})
	})
	sink.flush(r)
	r.Extra["nondeterministic_elements_observed"] = map[string]any{"count": atomic.LoadInt64(&c21Nondet), "example": c21NondetSample.Load(),
		"note": "elements on which R repetitions of the same call on the same vote state returned different results (Go map iteration order); the number depends on the run; all of them are vote sets with supermajority blocks on different forks (not compared) unless an outcome class says otherwise"}
	r.Add("groups", int64(len(groups)))
	for _, i := range []int{0, len(groups) / 4, len(groups) / 2, len(groups) - 1} {
		if i >= 0 && i < len(groups) {
			r.Sample(groups[i].elem.render())
		}
	}
}
