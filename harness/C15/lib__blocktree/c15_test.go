//go:build verif

package blocktree

// C15: Block tree structure matches the added blocks.
//
// Histories  A^n [ P [ A^k [ P ] ] ]  on the real BlockTree:
//   A^n : every parent vector with n nodes (= every parent-first insertion history of every
//         rooted tree with n nodes) x every primary/secondary marking,
//   P   : Prune(x) for every block x ever created (held or not),
//   A^k : k further additions, each below any block ever created (held, finalised away,
//         pruned, or rejected) x every marking,
//   P   : a second Prune(y) for every block y ever created.
// Every history (all its prefixes are histories of their own) is executed on a fresh real
// tree; the result of its last mutator and every query in the reached state are compared
// with a parent-map model.

import (
	"crypto/sha256"
	"encoding/json"
	"fmt"
	"os"
	"sort"
	"strings"
	"sync"
	"testing"
	"time"

	"github.com/ChainSafe/gossamer/internal/verifmc"
	"github.com/ChainSafe/gossamer/lib/common"
)

type c15Op struct {
	prune   bool
	target  int  // prune: label
	parent  int  // add: label of the parent
	primary bool // add: mark
}

func (o c15Op) String() string {
	if o.prune {
		return fmt.Sprintf("prune(b%d)", o.target)
	}
	mk := "S"
	if o.primary {
		mk = "P"
	}
	return fmt.Sprintf("add(<-b%d,%s)", o.parent, mk)
}

type c15Replay struct {
	RootNumber uint     `json:"root_number"`
	Ops        []string `json:"ops"`
	Note       string   `json:"note"`
}

type c15Vio struct {
	sig, desc string
}

// c15Ctx collects what one worker element observed; merged single-threaded afterwards.
type c15Ctx struct {
	vios     []verifmc.Violation
	outcomes map[string]int64
	states   map[[16]byte]struct{}
	trans    int64
	hists    int64
	queries  int64
}

func c15NewCtx() *c15Ctx {
	return &c15Ctx{outcomes: map[string]int64{}, states: map[[16]byte]struct{}{}}
}

func (c *c15Ctx) out(s string) { c.outcomes[s]++ }

func c15OpNames(ops []c15Op) []string {
	s := make([]string, len(ops))
	for i, o := range ops {
		s[i] = o.String()
	}
	return s
}

// c15Exec replays ops on a fresh real tree and a fresh model.  Only the result of the last
// op is compared (every prefix is a history of its own); returns the mismatches of that op.
func c15Exec(rootNum uint, ops []c15Op, c *c15Ctx) (*BlockTree, *c15Model, []c15Vio) {
	m := c15NewModel(rootNum)
	bt := NewBlockTreeFromRoot(m.header[0])
	var vios []c15Vio
	for i, op := range ops {
		last := i == len(ops)-1
		c.trans++
		if !op.prune {
			wantHeld := m.inTree[op.parent]
			_, h := m.newBlock(op.parent, op.primary)
			err := bt.AddBlock(h, time.Unix(1000+int64(i), 0))
			if last {
				switch {
				case wantHeld && err != nil:
					vios = append(vios, c15Vio{"AddBlock:rejects-child-of-held-block", fmt.Sprintf("AddBlock(child of held b%d) = %v", op.parent, err)})
				case wantHeld:
					c.out("AddBlock:ok")
				case err == nil:
					c.out("AddBlock:orphan-nil-error") // state is checked below; the statement is silent on the error value
				default:
					c.out("AddBlock:orphan-rejected")
				}
			}
			continue
		}
		x := op.target
		wasHeld := m.inTree[x] && x != m.root
		before := m.held()
		oldRoot := m.root
		var want []int
		if wasHeld {
			want = m.finalise(x)
		}
		got := bt.Prune(m.hash[x])
		if !last {
			continue
		}
		if !wasHeld {
			// finalising the current root / a block the tree does not hold: the statement is
			// silent about the returned list; the state check below uses the unchanged model
			c.out(fmt.Sprintf("Prune:target-not-a-held-descendant:reported=%d", len(got)))
			continue
		}
		c.out(fmt.Sprintf("Prune:ok:pruned=%d,kept=%d", len(want), len(m.held())))
		if sig, desc := c15ClassifyPrune(m, before, oldRoot, x, want, got); sig != "" {
			vios = append(vios, c15Vio{sig, desc})
		}
	}
	return bt, m, vios
}

// c15ClassifyPrune compares the reported list with the expected set and names the shape.
// m is the model after the finalisation; before/oldRoot describe the tree before it.
func c15ClassifyPrune(m *c15Model, before []int, oldRoot, x int, want []int, got []common.Hash) (sig, desc string) {
	wantSet := map[int]bool{}
	for _, l := range want {
		wantSet[l] = true
	}
	count := map[int]int{}
	var extra []string
	for _, h := range got {
		l, ok := m.byHash[h]
		if !ok || !wantSet[l] {
			extra = append(extra, m.label(h))
			continue
		}
		count[l]++
	}
	var missing, dup []int
	for _, l := range want {
		if count[l] == 0 {
			missing = append(missing, l)
		}
		if count[l] > 1 {
			dup = append(dup, l)
		}
	}
	if len(extra) == 0 && len(missing) == 0 && len(dup) == 0 {
		return "", ""
	}
	desc = fmt.Sprintf("Prune(b%d) on tree %s (root b%d) reported %s; blocks neither ancestor nor descendant: %s; missing %s, repeated %s, not-to-be-reported %v",
		x, c15TreeString(m, before, oldRoot), oldRoot, m.labels(got), c15LabelSet(want), c15LabelSet(missing), c15LabelSet(dup), extra)
	if len(extra) > 0 {
		return "Prune:wrong-result", desc
	}
	// Shape of the sibling-iteration defect: the anomalous block (or one of its ancestors below
	// the old root) has an earlier-inserted sibling that is itself removed by this finalisation.
	inBefore := map[int]bool{}
	for _, l := range before {
		inBefore[l] = true
	}
	explained := func(b int) bool {
		for c := b; c != oldRoot; c = m.parent[c] {
			p := m.parent[c]
			for e := 0; e < c; e++ { // labels are assigned in insertion order
				if inBefore[e] && e != oldRoot && m.parent[e] == p && wantSet[e] {
					return true
				}
			}
		}
		return false
	}
	for _, b := range append(append([]int{}, missing...), dup...) {
		if !explained(b) {
			return "Prune:wrong-result", desc
		}
	}
	var parts []string
	if len(missing) > 0 {
		parts = append(parts, "omits-block-after-earlier-sibling-removed")
	}
	if len(dup) > 0 {
		parts = append(parts, "repeats-block-after-earlier-sibling-removed")
	}
	return "Prune:" + strings.Join(parts, "+"), desc
}

func c15TreeString(m *c15Model, held []int, root int) string {
	in := map[int]bool{}
	for _, l := range held {
		in[l] = true
	}
	var rec func(a int) string
	rec = func(a int) string {
		s := fmt.Sprintf("b%d", a)
		var ch []string
		for l := range m.hash {
			if in[l] && l != root && m.parent[l] == a {
				ch = append(ch, rec(l))
			}
		}
		if len(ch) > 0 {
			s += "[" + strings.Join(ch, " ") + "]"
		}
		return s
	}
	return rec(root)
}

func c15HashSet(m *c15Model, hs []common.Hash) (set string, dups bool) {
	seen := map[common.Hash]bool{}
	var ls []string
	for _, h := range hs {
		if seen[h] {
			dups = true
		}
		seen[h] = true
		ls = append(ls, m.label(h))
	}
	sort.Strings(ls)
	return fmt.Sprint(ls), dups
}

func c15WantSet(ls []int) string {
	s := make([]string, len(ls))
	for i, l := range ls {
		s[i] = fmt.Sprintf("b%d", l)
	}
	sort.Strings(s)
	return fmt.Sprint(s)
}

func c15EqualPath(m *c15Model, got []common.Hash, want []int) bool {
	if len(got) != len(want) {
		return false
	}
	for i := range got {
		if got[i] != m.hash[want[i]] {
			return false
		}
	}
	return true
}

// c15CheckState compares every query of the real tree with the model.
func c15CheckState(bt *BlockTree, m *c15Model, c *c15Ctx) (vios []c15Vio) {
	add := func(sig, format string, a ...any) {
		vios = append(vios, c15Vio{sig, fmt.Sprintf(format, a...) + " in tree " + c15TreeString(m, m.held(), m.root)})
	}
	held := m.held()
	// private structure: parent links mirror child links, numbers follow depth
	if bt.root.parent != nil {
		add("Struct:root-has-parent", "root.parent != nil")
	}
	var walk func(n *node)
	walk = func(n *node) {
		for _, ch := range n.children {
			if ch.parent != n {
				add("Struct:child-parent-link-mismatch", "child %s of %s has parent pointer %v", m.label(ch.hash), m.label(n.hash), ch.parent)
			}
			if ch.number != n.number+1 {
				add("Struct:number-not-parent-plus-one", "child %s number %d, parent number %d", m.label(ch.hash), ch.number, n.number)
			}
			walk(ch)
		}
	}
	walk(bt.root)

	c.queries++
	if got, dups := c15HashSet(m, bt.GetAllBlocks()); got != c15WantSet(held) || dups {
		add("GetAllBlocks:wrong-set", "GetAllBlocks = %s (dups %v), want %s", got, dups, c15WantSet(held))
	}
	c.queries++
	if got, dups := c15HashSet(m, bt.Leaves()); got != c15WantSet(m.leaves()) || dups {
		add("Leaves:wrong-set", "Leaves = %s (dups %v), want %s", got, dups, c15WantSet(m.leaves()))
	}
	c.out(fmt.Sprintf("state:held=%d,leaves=%d", len(held), len(m.leaves())))

	n := len(m.hash)
	for a := 0; a < n; a++ {
		ha := m.hash[a]
		// descendants
		c.queries++
		desc, err := bt.GetAllDescendants(ha)
		if m.inTree[a] {
			var want []int
			for _, l := range held {
				if m.anc(a, l) {
					want = append(want, l)
				}
			}
			got, dups := c15HashSet(m, desc)
			if err != nil || got != c15WantSet(want) || dups {
				add("GetAllDescendants:wrong-set", "GetAllDescendants(b%d) = %s, %v (dups %v), want %s", a, got, err, dups, c15WantSet(want))
			}
		} else if err == nil {
			add("NotHeld:GetAllDescendants-answers-for-block-not-in-tree", "GetAllDescendants(b%d) = %s, nil for a block the tree must not hold", a, m.labels(desc))
		} else {
			c.out("GetAllDescendants:not-held:error")
		}
		for b := 0; b < n; b++ {
			hb := m.hash[b]
			both := m.inTree[a] && m.inTree[b]
			// ancestry
			c.queries++
			is, err := bt.IsDescendantOf(ha, hb)
			switch {
			case both && err != nil:
				add("IsDescendantOf:error-for-held-blocks", "IsDescendantOf(b%d,b%d) = %v", a, b, err)
			case both && is != m.anc(a, b):
				add("IsDescendantOf:wrong-answer", "IsDescendantOf(b%d,b%d) = %v, parent links say %v", a, b, is, m.anc(a, b))
			case both:
				c.out(fmt.Sprintf("IsDescendantOf:%v", is))
			case a != b && err == nil && is:
				add("NotHeld:IsDescendantOf-true-for-block-not-in-tree", "IsDescendantOf(b%d,b%d) = true, nil (held: %v, %v)", a, b, m.inTree[a], m.inTree[b])
			default:
				c.out("IsDescendantOf:not-held")
			}
			// lowest common ancestor
			c.queries++
			var lca common.Hash
			p, msg := verifmc.Guard(func() { lca, err = bt.LowestCommonAncestor(ha, hb) })
			switch {
			case p:
				add("LowestCommonAncestor:panic", "LowestCommonAncestor(b%d,b%d): %s", a, b, strings.SplitN(msg, "\n", 2)[0])
			case both && err != nil:
				add("LowestCommonAncestor:error-for-held-blocks", "LowestCommonAncestor(b%d,b%d) = %v", a, b, err)
			case both && lca != m.hash[m.lca(a, b)]:
				add("LowestCommonAncestor:wrong-answer", "LowestCommonAncestor(b%d,b%d) = %s, parent links say b%d", a, b, m.label(lca), m.lca(a, b))
			case both:
				c.out("LowestCommonAncestor:ok:" + c15Rel(m, a, b))
			case err == nil:
				add("NotHeld:LowestCommonAncestor-answers-for-block-not-in-tree", "LowestCommonAncestor(b%d,b%d) = %s, nil (held: %v, %v)", a, b, m.label(lca), m.inTree[a], m.inTree[b])
			default:
				c.out("LowestCommonAncestor:not-held:error")
			}
			// ranges
			for _, inMem := range []bool{false, true} {
				name := "Range"
				f := bt.Range
				if inMem {
					name = "RangeInMemory"
					f = bt.RangeInMemory
				}
				c.queries++
				var got []common.Hash
				p, msg := verifmc.Guard(func() { got, err = f(ha, hb) })
				switch {
				case p:
					add(name+":panic", "%s(b%d,b%d): %s", name, a, b, strings.SplitN(msg, "\n", 2)[0])
				case both && m.anc(a, b):
					if err != nil {
						add(name+":error-for-ancestor-descendant-pair", "%s(b%d,b%d) = %v", name, a, b, err)
					} else if !c15EqualPath(m, got, m.path(a, b)) {
						add(name+":wrong-chain", "%s(b%d,b%d) = %s, parent links give %v", name, a, b, m.labels(got), m.path(a, b))
					} else {
						c.out(fmt.Sprintf("%s:chain:len=%d", name, len(got)))
					}
				case both:
					// start is not an ancestor of end: no chain of parent links joins them
					if err == nil {
						add(name+":start-not-ancestor-of-end-answered-with-non-chain", "%s(b%d,b%d) = %s, nil although b%d is not an ancestor of b%d (%s)", name, a, b, m.labels(got), a, b, c15Rel(m, a, b))
					} else {
						c.out(name + ":not-ancestor:error")
					}
				case m.inTree[b] && !inMem:
					// documented: unknown start => chain from the root to end
					if err != nil {
						c.out("Range:unknown-start:error")
					} else if !c15EqualPath(m, got, m.path(m.root, b)) {
						add("Range:unknown-start-wrong-chain", "Range(b%d (not held),b%d) = %s, chain from root is %v", a, b, m.labels(got), m.path(m.root, b))
					} else {
						c.out("Range:unknown-start:chain-from-root")
					}
				case m.inTree[b]:
					if err == nil {
						add("NotHeld:RangeInMemory-answers-for-start-not-in-tree", "RangeInMemory(b%d (not held),b%d) = %s, nil", a, b, m.labels(got))
					} else {
						c.out("RangeInMemory:unknown-start:error")
					}
				default:
					if err == nil {
						add("NotHeld:"+name+"-answers-for-end-not-in-tree", "%s(b%d,b%d (not held)) = %s, nil", name, a, b, m.labels(got))
					} else {
						c.out(name + ":unknown-end:error")
					}
				}
			}
		}
	}

	// by-number queries
	best := bt.BestBlockHash()
	bl, ok := m.byHash[best]
	if !ok || !m.inTree[bl] {
		add("BestBlockHash:not-a-held-block", "BestBlockHash = %s", m.label(best))
		return vios
	}
	var maxNum uint
	for l := range m.hash {
		if m.number[l] > maxNum {
			maxNum = m.number[l]
		}
	}
	lo := m.number[m.root]
	if lo > 0 {
		lo--
	}
	for num := lo; num <= maxNum+1; num++ {
		var want []int
		for _, l := range held {
			if m.number[l] == num {
				want = append(want, l)
			}
		}
		c.queries++
		gotH := bt.GetHashesAtNumber(num)
		got, dups := c15HashSet(m, gotH)
		if got != c15WantSet(want) || dups {
			sig := "GetHashesAtNumber:wrong-result"
			if len(gotH) == 0 && num > m.number[bl] {
				sig = "GetHashesAtNumber:empty-for-number-above-best-leaf"
			}
			add(sig, "GetHashesAtNumber(%d) = %s (dups %v), blocks with that number: %s (best leaf b%d has number %d)", num, got, dups, c15WantSet(want), bl, m.number[bl])
		} else {
			c.out(fmt.Sprintf("GetHashesAtNumber:ok:n=%d", len(want)))
		}
		c.queries++
		h, err := bt.GetHashByNumber(num)
		onBest := num >= m.number[m.root] && num <= m.number[bl]
		switch {
		case err == nil:
			l, known := m.byHash[h]
			switch {
			case !known || !m.inTree[l] || m.number[l] != num:
				add("GetHashByNumber:block-without-that-number", "GetHashByNumber(%d) = %s", num, m.label(h))
			case !m.anc(l, bl):
				add("GetHashByNumber:not-on-best-chain", "GetHashByNumber(%d) = b%d, best leaf is b%d", num, l, bl)
			default:
				c.out("GetHashByNumber:ok")
			}
		case onBest:
			add("GetHashByNumber:error-for-number-on-best-chain", "GetHashByNumber(%d) = %v, best leaf b%d has number %d, root number %d", num, err, bl, m.number[bl], m.number[m.root])
		default:
			c.out("GetHashByNumber:out-of-range:error")
		}
	}
	return vios
}

func c15Rel(m *c15Model, a, b int) string {
	switch {
	case a == b:
		return "same"
	case m.anc(a, b):
		return "a-ancestor-of-b"
	case m.anc(b, a):
		return "b-ancestor-of-a"
	case m.number[a] == m.number[b]:
		return "forks-same-number"
	case m.number[a] < m.number[b]:
		return "forks-start-lower"
	default:
		return "forks-start-higher"
	}
}

// c15Eval executes one history and checks its last op and the reached state.
func c15Eval(rootNum uint, ops []c15Op, c *c15Ctx) {
	c.hists++
	var vios []c15Vio
	p, msg := verifmc.Guard(func() {
		bt, m, v := c15Exec(rootNum, ops, c)
		vios = append(vios, v...)
		c.states[c15Key(fmt.Sprintf("%x", bt.root.hash[:4])+c15Dump(bt, m))] = struct{}{}
		vios = append(vios, c15CheckState(bt, m, c)...)
	})
	if p {
		vios = append(vios, c15Vio{"panic:" + verifmc.PanicSite(msg), msg})
	}
	for _, v := range vios {
		c.vios = append(c.vios, verifmc.Violation{Sig: v.sig, Desc: v.desc,
			Replay: c15Replay{RootNumber: rootNum, Ops: c15OpNames(ops), Note: "labels b0,b1,.. are assigned in creation order; b0 is the initial root"}})
	}
}

func c15Key(s string) (k [16]byte) {
	h := sha256.Sum256([]byte(s))
	copy(k[:], h[:16])
	return k
}

// c15Adds calls f with every sequence of k additions whose parents range over all labels
// existing so far (first..first+i-1 for the i-th) and every marking.
func c15Adds(firstLabel, k int, f func(ops []c15Op)) {
	if k == 0 {
		f(nil)
		return
	}
	dims := make([]int, 0, 2*k)
	for i := 0; i < k; i++ {
		dims = append(dims, firstLabel+i, 2)
	}
	verifmc.Product(dims, func(idx []int) {
		ops := make([]c15Op, k)
		for i := 0; i < k; i++ {
			ops[i] = c15Op{parent: idx[2*i], primary: idx[2*i+1] == 1}
		}
		f(ops)
	})
}

type c15Elem struct {
	rootNum uint
	base    []c15Op // A^n
	n       int     // number of blocks after base (incl. root)
	round2  int     // max k of the second round (0 = none)
}

func c15RunElem(e c15Elem, c *c15Ctx) {
	c15Eval(e.rootNum, e.base, c)
	for x := 0; x < e.n; x++ {
		h1 := append(append([]c15Op{}, e.base...), c15Op{prune: true, target: x})
		c15Eval(e.rootNum, h1, c)
		for k := 1; k <= e.round2; k++ {
			c15Adds(e.n, k, func(adds []c15Op) {
				h2 := append(append([]c15Op{}, h1...), adds...)
				c15Eval(e.rootNum, h2, c)
				for y := 0; y < e.n+k; y++ {
					c15Eval(e.rootNum, append(append([]c15Op{}, h2...), c15Op{prune: true, target: y}), c)
				}
			})
		}
	}
}

func c15Replayed(t *testing.T, r *verifmc.Report, path string) {
	b, err := os.ReadFile(path)
	if err != nil {
		t.Fatal(err)
	}
	var f struct {
		Replay c15Replay `json:"replay"`
	}
	if err := json.Unmarshal(b, &f); err != nil {
		t.Fatal(err)
	}
	var ops []c15Op
	for _, s := range f.Replay.Ops {
		var o c15Op
		var mk string
		if _, err := fmt.Sscanf(s, "prune(b%d)", &o.target); err == nil {
			o.prune = true
		} else if _, err := fmt.Sscanf(strings.TrimSuffix(s, ")"), "add(<-b%d,%s", &o.parent, &mk); err == nil {
			o.primary = mk == "P"
		} else {
			t.Fatalf("bad op %q", s)
		}
		ops = append(ops, o)
	}
	for i := 0; i < 5; i++ {
		c := c15NewCtx()
		c15Eval(f.Replay.RootNumber, ops, c)
		for _, v := range c.vios {
			r.Violate(v.Sig, v.Desc, v.Replay)
		}
		r.Add("traces_validated_against_impl", 1)
	}
}

func TestVerif_C15(t *testing.T) {
	r := verifmc.NewReport("C15", "blocktree-structure", "model_checking")
	defer r.Write()
	if p := os.Getenv("VERIF_REPLAY"); p != "" {
		c15Replayed(t, r, p)
		return
	}
	n1 := verifmc.Pick(6, 7)    // blocks (incl. root) in the first round
	n2 := verifmc.Pick(5, 6)    // first-round size up to which a second round is explored
	k2 := verifmc.Pick(2, 2)    // additions in the second round
	k2s := verifmc.Pick(0, 3)   // additions in the second round for first-round size <= n2s
	n2s := verifmc.Pick(0, 5)
	rootNums := []uint{0, 3}
	r.Rule = fmt.Sprintf("histories A^n [P [A^k [P]]] on the real BlockTree: A^n = every parent vector with n<=%d nodes x every primary/secondary marking x root number in %v; P = Prune of every block ever created; A^k = k<=%d further additions (n<=%d; k<=%d for n<=%d) below every block ever created (held, finalised away, pruned or rejected) x every marking; each history is replayed on a fresh tree, the result of its last mutator and GetAllBlocks/Leaves/GetAllDescendants/IsDescendantOf/LowestCommonAncestor/Range/RangeInMemory for all ordered pairs of created blocks and GetHashesAtNumber/GetHashByNumber for every number are compared with a parent-map model; non-trivial = distinct canonical dump of the private tree", n1, rootNums, k2, n2, k2s, n2s)
	r.Assumption("reference model: parent map over labelled blocks (harness/shared/lib__blocktree/c15_blocktree_common_test.go); the best leaf used for the by-number oracle is the tree's own BestBlockHash (its choice is C16's subject)")

	states := map[[16]byte]struct{}{}
	var vioAll []verifmc.Violation
	for n := 1; n <= n1; n++ {
		var elems []c15Elem
		for _, rn := range rootNums {
			verifmc.ParentVectors(n, func(parent []int) {
				dims := make([]int, n-1)
				for i := range dims {
					dims[i] = 2
				}
				verifmc.Product(dims, func(mk []int) {
					base := make([]c15Op, n-1)
					for i := 1; i < n; i++ {
						base[i-1] = c15Op{parent: parent[i], primary: mk[i-1] == 1}
					}
					e := c15Elem{rootNum: rn, base: base, n: n}
					if n <= n2 {
						e.round2 = k2
					}
					if n <= n2s && k2s > e.round2 {
						e.round2 = k2s
					}
					elems = append(elems, e)
				})
			})
		}
		ctxs := make([]*c15Ctx, len(elems))
		var mu sync.Mutex
		verifmc.ParallelFor(r, len(elems), func(i int) {
			c := c15NewCtx()
			c15RunElem(elems[i], c)
			mu.Lock()
			ctxs[i] = c
			mu.Unlock()
		}, func(i int, msg string) {
			r.Violate("harness-panic", msg, c15OpNames(elems[i].base))
		})
		for _, c := range ctxs {
			if c == nil {
				continue
			}
			for k := range c.states {
				states[k] = struct{}{}
			}
			for k, v := range c.outcomes {
				r.Outcomes[k] += v
			}
			r.Add("transitions", c.trans)
			r.Add("traces_validated_against_impl", c.hists)
			r.Add("evaluations", c.hists)
			r.Add("queries_compared", c.queries)
			vioAll = append(vioAll, c.vios...)
			c.states, c.outcomes, c.vios = nil, nil, nil
		}
		r.Extra[fmt.Sprintf("first_round_histories_n%d", n)] = len(elems)
		if len(elems) > 0 {
			e := elems[len(elems)/3]
			r.Sample(map[string]any{"root_number": e.rootNum, "first_round": c15OpNames(e.base), "then": fmt.Sprintf("prune of each of %d blocks; second round k<=%d", e.n, e.round2)})
		}
		if !r.Exhaustive {
			break
		}
		r.Extra["completed_first_round_size"] = n
	}
	for _, v := range vioAll {
		r.Violate(v.Sig, v.Desc, v.Replay)
	}
	r.Add("states", int64(len(states)))
}
