//go:build verif

package blocktree

// C15: Block tree structure matches the added blocks.
//
// Histories  A^n [R] | A^n P [R] | A^n P A^k [P]  on the real BlockTree:
//   R   : AddBlock of a block that was already created (held, finalised away or pruned),
//   A^n : every parent vector with n nodes (= every parent-first insertion history of every
//         rooted tree with n nodes) x every primary/secondary marking,
//   P   : Prune(x) for every block x ever created (held or not),
//   A^k : k further additions, each below any block ever created (held, finalised away,
//         pruned, or rejected) x every marking,
//   P   : a second Prune(y) for every block y ever created.
// Every history (all its prefixes are histories of their own) is executed on a fresh real
// tree; the result of its last mutator and every query in the reached state are compared
// with a parent-map model.

import (
	"crypto/sha256"
	"encoding/json"
	"fmt"
	"runtime/debug"
	"os"
		"strings"
	"sync"
	"testing"
	"time"

	"github.com/ChainSafe/gossamer/dot/types"
	"github.com/ChainSafe/gossamer/internal/log"
	"github.com/ChainSafe/gossamer/internal/verifmc"
	"github.com/ChainSafe/gossamer/lib/common"
)

type c15Op struct {
	readd   bool // add the block with label target a second time
	bad     bool // add a child of parent whose header has no BABE pre-digest (AddBlock fails after all other checks)
	prune   bool
	target  int  // prune: label
	parent  int  // add: label of the parent
	primary bool // add: mark
}

func (o c15Op) String() string {
	if o.prune {
		return fmt.Sprintf("prune(b%d)", o.target)
	}
	if o.readd {
		return fmt.Sprintf("readd(b%d)", o.target)
	}
	if o.bad {
		return fmt.Sprintf("add-without-predigest(<-b%d)", o.parent)
	}
	mk := "S"
	if o.primary {
		mk = "P"
	}
	return fmt.Sprintf("add(<-b%d,%s)", o.parent, mk)
}

type c15Replay struct {
	RootNumber uint     `json:"root_number"`
	Ops        []string `json:"ops"`
	Note       string   `json:"note"`
}

// c15Ctx collects what one worker element observed; merged single-threaded afterwards.
type c15Ctx struct {
	vios     []verifmc.Violation
	vioCount map[string]int64
	curRoot  uint    // the history being evaluated
	curOps   []c15Op
	outcomes map[string]int64
	states   map[[16]byte]struct{}
	trans    int64
	hists    int64
	queries  int64
}

func c15NewCtx() *c15Ctx {
	return &c15Ctx{outcomes: map[string]int64{}, states: map[[16]byte]struct{}{}, vioCount: map[string]int64{}}
}

// vio counts a mismatch; only the first two per signature and element are rendered and kept.
func (c *c15Ctx) vio(sig string, desc func() string) {
	c.vioCount[sig]++
	if c.vioCount[sig] <= 2 {
		c.vios = append(c.vios, verifmc.Violation{Sig: sig, Desc: desc(), Replay: c15Replay{RootNumber: c.curRoot, Ops: c15OpNames(c.curOps),
			Note: "labels b0,b1,.. are assigned in creation order; b0 is the initial root"}})
	}
}

func (c *c15Ctx) out(s string) { c.outcomes[s]++ }

func c15OpNames(ops []c15Op) []string {
	s := make([]string, len(ops))
	for i, o := range ops {
		s[i] = o.String()
	}
	return s
}

// c15Exec replays ops on a fresh real tree and a fresh model.  Only the result of the last
// op is compared (every prefix is a history of its own); returns the mismatches of that op.
func c15Exec(rootNum uint, ops []c15Op, c *c15Ctx) (*BlockTree, *c15Model) {
	m := c15NewModel(rootNum)
	bt := NewBlockTreeFromRoot(m.header[0])
	for i, op := range ops {
		last := i == len(ops)-1
		c.trans++
		if op.readd {
			// a block is held at most once; a block the tree does not hold has no held parent
			err := bt.AddBlock(m.header[op.target], time.Unix(2000+int64(i), 0))
			if last {
				switch {
				case err == nil:
					c.out("AddBlock:again:nil-error") // the state check decides
				case m.inTree[op.target]:
					c.out("AddBlock:again:held:error")
				default:
					c.out("AddBlock:again:not-held:error")
				}
			}
			continue
		}
		if op.bad {
			// correct parent and number, but no BABE pre-runtime digest: a block AddBlock refuses is not an
			// added block, the tree must not hold it (the state check compares with the unchanged model)
			h := &types.Header{ParentHash: m.hash[op.parent], Number: m.number[op.parent] + 1, StateRoot: common.Hash{0xbd, byte(i)}, Digest: types.NewDigest()}
			err := bt.AddBlock(h, time.Unix(3000+int64(i), 0))
			if err == nil {
				m.push(h, op.parent, m.number[op.parent]+1, false, m.inTree[op.parent])
				if last {
					c.out("AddBlock:without-predigest:accepted")
				}
			} else if last {
				c.out("AddBlock:without-predigest:rejected")
			}
			continue
		}
		if !op.prune {
			wantHeld := m.inTree[op.parent]
			_, h := m.newBlock(op.parent, op.primary)
			err := bt.AddBlock(h, time.Unix(1000+int64(i), 0))
			if last {
				switch {
				case wantHeld && err != nil:
					c.vio("AddBlock:rejects-child-of-held-block", func() string { return fmt.Sprintf("AddBlock(child of held b%d) = %v", op.parent, err) })
				case wantHeld:
					c.out("AddBlock:ok")
				case err == nil:
					c.out("AddBlock:orphan-nil-error") // state is checked below; the statement is silent on the error value
				default:
					c.out("AddBlock:orphan-rejected")
				}
			}
			continue
		}
		x := op.target
		wasHeld := m.inTree[x] && x != m.root
		before := m.held()
		oldRoot := m.root
		var want []int
		if wasHeld {
			want = m.finalise(x)
		}
		got := bt.Prune(m.hash[x])
		if !last {
			continue
		}
		if !wasHeld {
			// finalising the current root / a block the tree does not hold: the statement is
			// silent about the returned list; the state check below uses the unchanged model
			c.out("Prune:target-not-a-held-descendant:reported=" + c15Num[len(got)])
			continue
		}
		c.out("Prune:ok:pruned=" + c15Num[len(want)] + ",kept=" + c15Num[len(m.held())])
		if sig, desc := c15ClassifyPrune(m, before, oldRoot, x, want, got); sig != "" {
			c.vio(sig, func() string { return desc })
		}
	}
	return bt, m
}

// c15ClassifyPrune compares the reported list with the expected set and names the shape.
// m is the model after the finalisation; before/oldRoot describe the tree before it.
func c15ClassifyPrune(m *c15Model, before []int, oldRoot, x int, want []int, got []common.Hash) (sig, desc string) {
	wantSet := map[int]bool{}
	for _, l := range want {
		wantSet[l] = true
	}
	count := map[int]int{}
	var extra []string
	for _, h := range got {
		l, ok := m.byHash[h]
		if !ok || !wantSet[l] {
			extra = append(extra, m.label(h))
			continue
		}
		count[l]++
	}
	var missing, dup []int
	for _, l := range want {
		if count[l] == 0 {
			missing = append(missing, l)
		}
		if count[l] > 1 {
			dup = append(dup, l)
		}
	}
	if len(extra) == 0 && len(missing) == 0 && len(dup) == 0 {
		return "", ""
	}
	desc = fmt.Sprintf("Prune(b%d) on tree %s (root b%d) reported %s; blocks neither ancestor nor descendant: %s; missing %s, repeated %s, not-to-be-reported %v",
		x, c15TreeString(m, before, oldRoot), oldRoot, m.labels(got), c15LabelSet(want), c15LabelSet(missing), c15LabelSet(dup), extra)
	if len(extra) > 0 {
		return "Prune:wrong-result", desc
	}
	// Shape of the sibling-iteration defect: the anomalous block (or one of its ancestors below
	// the old root) has an earlier-inserted sibling that is itself removed by this finalisation.
	inBefore := map[int]bool{}
	for _, l := range before {
		inBefore[l] = true
	}
	explained := func(b int) bool {
		for c := b; c != oldRoot; c = m.parent[c] {
			p := m.parent[c]
			for e := 0; e < c; e++ { // labels are assigned in insertion order
				if inBefore[e] && e != oldRoot && m.parent[e] == p && wantSet[e] {
					return true
				}
			}
		}
		return false
	}
	for _, b := range append(append([]int{}, missing...), dup...) {
		if !explained(b) {
			return "Prune:wrong-result", desc
		}
	}
	var parts []string
	if len(missing) > 0 {
		parts = append(parts, "omits-block-after-earlier-sibling-removed")
	}
	if len(dup) > 0 {
		parts = append(parts, "repeats-block-after-earlier-sibling-removed")
	}
	return "Prune:" + strings.Join(parts, "+"), desc
}

func c15TreeString(m *c15Model, held []int, root int) string {
	in := map[int]bool{}
	for _, l := range held {
		in[l] = true
	}
	var rec func(a int) string
	rec = func(a int) string {
		s := fmt.Sprintf("b%d", a)
		var ch []string
		for l := range m.hash {
			if in[l] && l != root && m.parent[l] == a {
				ch = append(ch, rec(l))
			}
		}
		if len(ch) > 0 {
			s += "[" + strings.Join(ch, " ") + "]"
		}
		return s
	}
	return rec(root)
}

// c15Mask turns a list of hashes into a bit set of labels; bad = a hash that is no created
// block, or one listed twice.
func c15Mask(m *c15Model, hs []common.Hash) (mask uint32, bad bool) {
	for _, h := range hs {
		l, ok := m.byHash[h]
		if !ok || mask&(1<<uint(l)) != 0 {
			bad = true
			continue
		}
		mask |= 1 << uint(l)
	}
	return mask, bad
}

func c15MaskString(mask uint32) string {
	var s []string
	for l := 0; l < 32; l++ {
		if mask&(1<<uint(l)) != 0 {
			s = append(s, fmt.Sprintf("b%d", l))
		}
	}
	return fmt.Sprint(s)
}

func c15EqualPath(m *c15Model, got []common.Hash, want []int) bool {
	if len(got) != len(want) {
		return false
	}
	for i := range got {
		if got[i] != m.hash[want[i]] {
			return false
		}
	}
	return true
}

var c15Num = func() (t [40]string) {
	for i := range t {
		t[i] = fmt.Sprint(i)
	}
	return
}()

// c15CheckState compares every query of the real tree with the model.
func c15CheckState(bt *BlockTree, m *c15Model, c *c15Ctx) {
	add := func(sig string, desc func() string) {
		c.vio(sig, func() string { return desc() + " in tree " + c15TreeString(m, m.held(), m.root) })
	}
	n := len(m.hash)
	var heldMask, leafMask uint32
	below := make([]uint32, n) // below[a] = held descendants of a, incl. a
	for l := 0; l < n; l++ {
		if m.inTree[l] {
			heldMask |= 1 << uint(l)
		}
	}
	leafMask = heldMask
	for l := 0; l < n; l++ {
		if !m.inTree[l] {
			continue
		}
		if l != m.root {
			leafMask &^= 1 << uint(m.parent[l])
		}
		for x := l; ; x = m.parent[x] {
			below[x] |= 1 << uint(l)
			if x == m.root {
				break
			}
		}
	}
	anc := func(a, b int) bool { return below[a]&(1<<uint(b)) != 0 }

	// private structure: parent links mirror child links, numbers follow depth
	if bt.root.parent != nil {
		add("Struct:root-has-parent", func() string { return "root.parent != nil" })
	}
	var walk func(nd *node)
	walk = func(nd *node) {
		for _, ch := range nd.children {
			ch, nd := ch, nd
			if ch.parent != nd {
				add("Struct:child-parent-link-mismatch", func() string {
					return fmt.Sprintf("child %s of %s has another parent pointer", m.label(ch.hash), m.label(nd.hash))
				})
			}
			if ch.number != nd.number+1 {
				add("Struct:number-not-parent-plus-one", func() string {
					return fmt.Sprintf("child %s number %d, parent number %d", m.label(ch.hash), ch.number, nd.number)
				})
			}
			walk(ch)
		}
	}
	walk(bt.root)

	c.queries += 2
	if all := bt.GetAllBlocks(); true {
		if got, bad := c15Mask(m, all); got != heldMask || bad {
			add("GetAllBlocks:wrong-set", func() string { return fmt.Sprintf("GetAllBlocks = %s, want %s", m.labels(all), c15MaskString(heldMask)) })
		}
	}
	if lv := bt.Leaves(); true {
		if got, bad := c15Mask(m, lv); got != leafMask || bad {
			add("Leaves:wrong-set", func() string { return fmt.Sprintf("Leaves = %s, want %s", m.labels(lv), c15MaskString(leafMask)) })
		}
	}
	nHeld, nLeaves := 0, 0
	for l := 0; l < n; l++ {
		if heldMask&(1<<uint(l)) != 0 {
			nHeld++
		}
		if leafMask&(1<<uint(l)) != 0 {
			nLeaves++
		}
	}
	c.out("state:held=" + c15Num[nHeld] + ",leaves=" + c15Num[nLeaves])

	// blocks the tree must not hold are paired with the root and one leaf only (every query
	// resolves its arguments through the same lookup)
	firstLeaf := 0
	for l := 0; l < n; l++ {
		if leafMask&(1<<uint(l)) != 0 {
			firstLeaf = l
			break
		}
	}
	for a := 0; a < n; a++ {
		a := a
		ha := m.hash[a]
		c.queries++
		desc, err := bt.GetAllDescendants(ha)
		if m.inTree[a] {
			got, bad := c15Mask(m, desc)
			if err != nil || got != below[a] || bad {
				add("GetAllDescendants:wrong-set", func() string {
					return fmt.Sprintf("GetAllDescendants(b%d) = %s, %v, want %s", a, m.labels(desc), err, c15MaskString(below[a]))
				})
			}
		} else if err == nil {
			add("NotHeld:GetAllDescendants-answers-for-block-not-in-tree", func() string {
				return fmt.Sprintf("GetAllDescendants(b%d) = %s, nil for a block the tree must not hold", a, m.labels(desc))
			})
		} else {
			c.out("GetAllDescendants:not-held:error")
		}
		for b := 0; b < n; b++ {
			b := b
			hb := m.hash[b]
			both := m.inTree[a] && m.inTree[b]
			if !both && !((a == m.root || a == firstLeaf || !m.inTree[a]) && (b == m.root || b == firstLeaf || !m.inTree[b])) {
				continue
			}
			if !both && !m.inTree[a] && !m.inTree[b] && a != b {
				continue
			}
			// ancestry
			c.queries++
			is, err := bt.IsDescendantOf(ha, hb)
			switch {
			case both && err != nil:
				add("IsDescendantOf:error-for-held-blocks", func() string { return fmt.Sprintf("IsDescendantOf(b%d,b%d) = %v", a, b, err) })
			case both && is != anc(a, b):
				add("IsDescendantOf:wrong-answer", func() string {
					return fmt.Sprintf("IsDescendantOf(b%d,b%d) = %v, parent links say %v", a, b, is, anc(a, b))
				})
			case both && is:
				c.out("IsDescendantOf:true")
			case both:
				c.out("IsDescendantOf:false")
			case a != b && err == nil && is:
				add("NotHeld:IsDescendantOf-true-for-block-not-in-tree", func() string {
					return fmt.Sprintf("IsDescendantOf(b%d,b%d) = true, nil (held: %v, %v)", a, b, m.inTree[a], m.inTree[b])
				})
			default:
				c.out("IsDescendantOf:not-held")
			}
			// lowest common ancestor
			c.queries++
			var lca common.Hash
			var lerr error
			p, msg := verifmc.Guard(func() { lca, lerr = bt.LowestCommonAncestor(ha, hb) })
			switch {
			case p:
				add("LowestCommonAncestor:panic", func() string {
					return fmt.Sprintf("LowestCommonAncestor(b%d,b%d): %s", a, b, strings.SplitN(msg, "\n", 2)[0])
				})
			case both && lerr != nil:
				add("LowestCommonAncestor:error-for-held-blocks", func() string { return fmt.Sprintf("LowestCommonAncestor(b%d,b%d) = %v", a, b, lerr) })
			case both && lca != m.hash[m.lca(a, b)]:
				add("LowestCommonAncestor:wrong-answer", func() string {
					return fmt.Sprintf("LowestCommonAncestor(b%d,b%d) = %s, parent links say b%d", a, b, m.label(lca), m.lca(a, b))
				})
			case both:
				c.out("LowestCommonAncestor:ok:" + c15Rel(m, a, b))
			case lerr == nil:
				add("NotHeld:LowestCommonAncestor-answers-for-block-not-in-tree", func() string {
					return fmt.Sprintf("LowestCommonAncestor(b%d,b%d) = %s, nil (held: %v, %v)", a, b, m.label(lca), m.inTree[a], m.inTree[b])
				})
			default:
				c.out("LowestCommonAncestor:not-held:error")
			}
			// ranges
			for _, inMem := range []bool{false, true} {
				name := "Range"
				f := bt.Range
				if inMem {
					name = "RangeInMemory"
					f = bt.RangeInMemory
				}
				c.queries++
				var got []common.Hash
				var rerr error
				p, msg := verifmc.Guard(func() { got, rerr = f(ha, hb) })
				switch {
				case p:
					add(name+":panic", func() string { return fmt.Sprintf("%s(b%d,b%d): %s", name, a, b, strings.SplitN(msg, "\n", 2)[0]) })
				case both && anc(a, b):
					if rerr != nil {
						add(name+":error-for-ancestor-descendant-pair", func() string { return fmt.Sprintf("%s(b%d,b%d) = %v", name, a, b, rerr) })
					} else if !c15EqualPath(m, got, m.path(a, b)) {
						add(name+":wrong-chain", func() string {
							return fmt.Sprintf("%s(b%d,b%d) = %s, parent links give %v", name, a, b, m.labels(got), m.path(a, b))
						})
					} else {
						c.out(name + ":chain:len=" + c15Num[len(got)])
					}
				case both:
					// start is not an ancestor of end: no chain of parent links joins them
					if rerr == nil {
						add(name+":start-not-ancestor-of-end-answered-with-non-chain", func() string {
							return fmt.Sprintf("%s(b%d,b%d) = %s, nil although b%d is not an ancestor of b%d (%s)", name, a, b, m.labels(got), a, b, c15Rel(m, a, b))
						})
					} else {
						c.out(name + ":not-ancestor:error")
					}
				case m.inTree[b] && !inMem:
					// documented: unknown start => chain from the root to end
					if rerr != nil {
						c.out("Range:unknown-start:error")
					} else if !c15EqualPath(m, got, m.path(m.root, b)) {
						add("Range:unknown-start-wrong-chain", func() string {
							return fmt.Sprintf("Range(b%d (not held),b%d) = %s, chain from root is %v", a, b, m.labels(got), m.path(m.root, b))
						})
					} else {
						c.out("Range:unknown-start:chain-from-root")
					}
				case m.inTree[b]:
					if rerr == nil {
						add("NotHeld:RangeInMemory-answers-for-start-not-in-tree", func() string {
							return fmt.Sprintf("RangeInMemory(b%d (not held),b%d) = %s, nil", a, b, m.labels(got))
						})
					} else {
						c.out("RangeInMemory:unknown-start:error")
					}
				default:
					if rerr == nil {
						add("NotHeld:"+name+"-answers-for-end-not-in-tree", func() string {
							return fmt.Sprintf("%s(b%d,b%d (not held)) = %s, nil", name, a, b, m.labels(got))
						})
					} else {
						c.out(name + ":unknown-end:error")
					}
				}
			}
		}
	}

	// by-number queries
	best := bt.BestBlockHash()
	bl, ok := m.byHash[best]
	if !ok || !m.inTree[bl] {
		add("BestBlockHash:not-a-held-block", func() string { return fmt.Sprintf("BestBlockHash = %s", m.label(best)) })
		return
	}
	var maxNum uint
	for l := range m.hash {
		if m.number[l] > maxNum {
			maxNum = m.number[l]
		}
	}
	lo := m.number[m.root]
	if lo > 0 {
		lo--
	}
	for num := lo; num <= maxNum+1; num++ {
		num := num
		var want uint32
		nWant := 0
		for l := 0; l < n; l++ {
			if m.inTree[l] && m.number[l] == num {
				want |= 1 << uint(l)
				nWant++
			}
		}
		c.queries++
		gotH := bt.GetHashesAtNumber(num)
		if got, bad := c15Mask(m, gotH); got != want || bad {
			sig := "GetHashesAtNumber:wrong-result"
			if len(gotH) == 0 && num > m.number[bl] {
				sig = "GetHashesAtNumber:empty-for-number-above-best-leaf"
			}
			add(sig, func() string {
				return fmt.Sprintf("GetHashesAtNumber(%d) = %s, blocks with that number: %s (best leaf b%d has number %d)", num, m.labels(gotH), c15MaskString(want), bl, m.number[bl])
			})
		} else {
			c.out("GetHashesAtNumber:ok:n=" + c15Num[nWant])
		}
		c.queries++
		h, err := bt.GetHashByNumber(num)
		onBest := num >= m.number[m.root] && num <= m.number[bl]
		switch {
		case err == nil:
			l, known := m.byHash[h]
			switch {
			case !known || !m.inTree[l] || m.number[l] != num:
				add("GetHashByNumber:block-without-that-number", func() string { return fmt.Sprintf("GetHashByNumber(%d) = %s", num, m.label(h)) })
			case !anc(l, bl):
				add("GetHashByNumber:not-on-best-chain", func() string { return fmt.Sprintf("GetHashByNumber(%d) = b%d, best leaf is b%d", num, l, bl) })
			default:
				c.out("GetHashByNumber:ok")
			}
		case onBest:
			add("GetHashByNumber:error-for-number-on-best-chain", func() string {
				return fmt.Sprintf("GetHashByNumber(%d) = %v, best leaf b%d has number %d, root number %d", num, err, bl, m.number[bl], m.number[m.root])
			})
		default:
			c.out("GetHashByNumber:out-of-range:error")
		}
	}
}

func c15Rel(m *c15Model, a, b int) string {
	switch {
	case a == b:
		return "same"
	case m.anc(a, b):
		return "a-ancestor-of-b"
	case m.anc(b, a):
		return "b-ancestor-of-a"
	case m.number[a] == m.number[b]:
		return "forks-same-number"
	case m.number[a] < m.number[b]:
		return "forks-start-lower"
	default:
		return "forks-start-higher"
	}
}

// c15Eval executes one history and checks its last op and the reached state.
func c15Eval(rootNum uint, ops []c15Op, c *c15Ctx) {
	c.hists++
	c.curRoot, c.curOps = rootNum, ops
	p, msg := verifmc.Guard(func() {
		bt, m := c15Exec(rootNum, ops, c)
		c.states[c15Key(fmt.Sprintf("%x", bt.root.hash[:4])+c15Dump(bt, m))] = struct{}{}
		c15CheckState(bt, m, c)
	})
	if p {
		c.vio("panic:"+verifmc.PanicSite(msg), func() string { return msg })
	}
}

func c15Key(s string) (k [16]byte) {
	h := sha256.Sum256([]byte(s))
	copy(k[:], h[:16])
	return k
}

// c15Adds calls f with every sequence of k additions whose parents range over all labels
// existing so far (first..first+i-1 for the i-th) and every marking.
func c15Adds(firstLabel, k int, f func(ops []c15Op)) {
	if k == 0 {
		f(nil)
		return
	}
	dims := make([]int, 0, 2*k)
	for i := 0; i < k; i++ {
		dims = append(dims, firstLabel+i, 2)
	}
	verifmc.Product(dims, func(idx []int) {
		ops := make([]c15Op, k)
		for i := 0; i < k; i++ {
			ops[i] = c15Op{parent: idx[2*i], primary: idx[2*i+1] == 1}
		}
		f(ops)
	})
}

type c15Elem struct {
	rootNum uint
	base    []c15Op // A^n
	n       int     // number of blocks after base (incl. root)
	round2  int     // max k of the second round (0 = none)
}

func c15RunElem(e c15Elem, c *c15Ctx) {
	c15Eval(e.rootNum, e.base, c)
	for x := 0; x < e.n; x++ {
		c15Eval(e.rootNum, append(append([]c15Op{}, e.base...), c15Op{readd: true, target: x}), c)
	}
	for x := 0; x < e.n; x++ {
		hb := append(append([]c15Op{}, e.base...), c15Op{bad: true, parent: x})
		c15Eval(e.rootNum, hb, c)
		// ... and what a later finalisation reports and keeps
		for y := 0; y < e.n && e.n <= 4; y++ {
			c15Eval(e.rootNum, append(append([]c15Op{}, hb...), c15Op{prune: true, target: y}), c)
		}
	}
	for x := 0; x < e.n; x++ {
		h1 := append(append([]c15Op{}, e.base...), c15Op{prune: true, target: x})
		c15Eval(e.rootNum, h1, c)
		for y := 0; y < e.n && e.n <= 5; y++ {
			c15Eval(e.rootNum, append(append([]c15Op{}, h1...), c15Op{readd: true, target: y}), c)
			c15Eval(e.rootNum, append(append([]c15Op{}, h1...), c15Op{bad: true, parent: y}), c)
		}
		for k := 1; k <= e.round2; k++ {
			c15Adds(e.n, k, func(adds []c15Op) {
				h2 := append(append([]c15Op{}, h1...), adds...)
				c15Eval(e.rootNum, h2, c)
				for y := 0; y < e.n+k; y++ {
					c15Eval(e.rootNum, append(append([]c15Op{}, h2...), c15Op{prune: true, target: y}), c)
				}
			})
		}
	}
}

func c15Replayed(t *testing.T, r *verifmc.Report, path string) {
	b, err := os.ReadFile(path)
	if err != nil {
		t.Fatal(err)
	}
	var f struct {
		Replay c15Replay `json:"replay"`
	}
	if err := json.Unmarshal(b, &f); err != nil {
		t.Fatal(err)
	}
	var ops []c15Op
	for _, s := range f.Replay.Ops {
		var o c15Op
		var mk string
		if _, err := fmt.Sscanf(s, "prune(b%d)", &o.target); err == nil {
			o.prune = true
		} else if _, err := fmt.Sscanf(s, "readd(b%d)", &o.target); err == nil {
			o.readd = true
		} else if _, err := fmt.Sscanf(strings.TrimSuffix(s, ")"), "add(<-b%d,%s", &o.parent, &mk); err == nil {
			o.primary = mk == "P"
		} else {
			t.Fatalf("bad op %q", s)
		}
		ops = append(ops, o)
	}
	for i := 0; i < 5; i++ {
		c := c15NewCtx()
		c15Eval(f.Replay.RootNumber, ops, c)
		for _, v := range c.vios {
			r.Violate(v.Sig, v.Desc, v.Replay)
		}
		t.Logf("replay %d: %d mismatches %v", i, len(c.vios), c.vioCount)
		r.Add("traces_validated_against_impl", 1)
	}
}

func TestVerif_C15(t *testing.T) {
	r := verifmc.NewReport("C15", "blocktree-structure", "model_checking")
	defer r.Write()
	logger.Patch(log.SetLevel(log.Critical)) // Prune warns "no runtimes in the mapping" on every call
	defer debug.SetGCPercent(debug.SetGCPercent(400))
	if p := os.Getenv("VERIF_REPLAY"); p != "" {
		c15Replayed(t, r, p)
		return
	}
	n1 := verifmc.Pick(6, 7) // blocks (incl. root) in the first round
	rootNums := []uint{0, 3}
	// additions in the second round, by first-round size and root number
	round2 := func(n int, rootNum uint) int {
		if verifmc.Thorough() {
			switch {
			case n <= 4:
				return 3
			case n == 5:
				return 2
			case n == 6:
				return 1
			}
			return 0
		}
		if n <= 4 && rootNum == 0 {
			return 2
		}
		return 0
	}
	r.Rule = fmt.Sprintf("histories A^n [R] | A^n P [R] | A^n P A^k [P] on the real BlockTree: R = AddBlock of an already created block a second time (every block; after P only for n<=5); A^n = every parent vector with n<=%d nodes x every primary/secondary marking x root number in %v; P = Prune of every block ever created; A^k = further additions below every block ever created (held, finalised away, pruned or rejected) x every marking, k<=%s; each history is replayed on a fresh tree, the result of its last mutator and GetAllBlocks/Leaves/GetAllDescendants/IsDescendantOf/LowestCommonAncestor/Range/RangeInMemory for all ordered pairs of held blocks (blocks the tree must not hold: paired with the root and a leaf) and GetHashesAtNumber/GetHashByNumber for every number are compared with a parent-map model; non-trivial = distinct canonical dump of the private tree", n1, rootNums,
		verifmc.Pick("2 for n<=4 with root number 0", "3 for n<=4, 2 for n=5, 1 for n=6, both root numbers"))
	r.Assumption("reference model: parent map over labelled blocks (harness/shared/lib__blocktree/c15_blocktree_common_test.go); the best leaf used for the by-number oracle is the tree's own BestBlockHash (its choice is C16's subject)")

	states := map[[16]byte]struct{}{}
	var vioAll []verifmc.Violation
	vioCount := map[string]int64{}
	for n := 1; n <= n1; n++ {
		var elems []c15Elem
		for _, rn := range rootNums {
			verifmc.ParentVectors(n, func(parent []int) {
				dims := make([]int, n-1)
				for i := range dims {
					dims[i] = 2
				}
				verifmc.Product(dims, func(mk []int) {
					base := make([]c15Op, n-1)
					for i := 1; i < n; i++ {
						base[i-1] = c15Op{parent: parent[i], primary: mk[i-1] == 1}
					}
					elems = append(elems, c15Elem{rootNum: rn, base: base, n: n, round2: round2(n, rn)})
				})
			})
		}
		ctxs := make([]*c15Ctx, len(elems))
		var mu sync.Mutex
		verifmc.ParallelFor(r, len(elems), func(i int) {
			c := c15NewCtx()
			c15RunElem(elems[i], c)
			mu.Lock()
			ctxs[i] = c
			mu.Unlock()
		}, func(i int, msg string) {
			r.Violate("harness-panic", msg, c15OpNames(elems[i].base))
		})
		for _, c := range ctxs {
			if c == nil {
				continue
			}
			for k := range c.states {
				states[k] = struct{}{}
			}
			for k, v := range c.outcomes {
				r.Outcomes[k] += v
			}
			r.Add("transitions", c.trans)
			r.Add("traces_validated_against_impl", c.hists)
			r.Add("evaluations", c.hists)
			r.Add("queries_compared", c.queries)
			vioAll = append(vioAll, c.vios...)
			for k, v := range c.vioCount {
				vioCount[k] += v
			}
			c.states, c.outcomes, c.vios = nil, nil, nil
		}
		r.Extra[fmt.Sprintf("first_round_histories_n%d", n)] = len(elems)
		if len(elems) > 0 {
			e := elems[len(elems)/3]
			r.Sample(map[string]any{"root_number": e.rootNum, "first_round": c15OpNames(e.base), "then": fmt.Sprintf("prune of each of %d blocks; second round k<=%d", e.n, e.round2)})
		}
		if !r.Exhaustive {
			break
		}
		r.Extra["completed_first_round_size"] = n
	}
	for _, v := range vioAll {
		r.Violate(v.Sig, v.Desc, v.Replay)
	}
	r.Extra["mismatches_per_signature"] = vioCount
	r.Add("states", int64(len(states)))
}
