//go:build verif

package wazero_runtime

// C09: appending an item to any stored value produces the same bytes as Substrate
// (sp_state_machine StorageAppend): a value starting with a canonical Compact<u32> length n with
// n+1 still fitting in u32 becomes compact(n+1) ++ old items ++ item; any other value (absent, empty,
// truncated, non-canonical or undecodable length) is replaced by the one-item list compact(1) ++ item.
// The unexported storageAppend is called directly on a real TrieState over an empty in-memory trie.
// Oracle: the reference SCALE codec (internal/verifmc/ref), no wasm runtime involved.

import (
	"bytes"
	"fmt"
	"math/big"
	"testing"

	"github.com/ChainSafe/gossamer/internal/verifmc"
	"github.com/ChainSafe/gossamer/internal/verifmc/ref"
	"github.com/ChainSafe/gossamer/lib/runtime/storage"
	inmemory_trie "github.com/ChainSafe/gossamer/pkg/trie/inmemory"
)

var c09U32 = &ref.C11Type{Kind: ref.C11Compact, Bits: 32}

// c09Expected is the Substrate result and the class of the existing value.
func c09Expected(existing []byte, present bool, item []byte) (want []byte, class string) {
	one := append([]byte{0x04}, item...)
	if !present {
		return one, "absent"
	}
	if len(existing) == 0 {
		return one, "empty"
	}
	v, k, err := ref.C11Dec(c09U32, existing)
	if err != nil {
		return one, err.Class // truncated | noncanonical-compact | compact-out-of-range
	}
	n := v.N.Uint64()
	if n+1 > 1<<32-1 {
		return one, "length-u32-max"
	}
	out := append([]byte{}, ref.Compact(n+1)...)
	out = append(out, existing[k:]...)
	return append(out, item...), fmt.Sprintf("valid-length-mode%d", existing[0]&3)
}

// c09Encodings returns the canonical and every wider (non-canonical) compact encoding of n.
func c09Encodings(n *big.Int) [][]byte {
	var out [][]byte
	le := func(w int) []byte {
		be := n.FillBytes(make([]byte, w))
		b := make([]byte, w)
		for i := range be {
			b[w-1-i] = be[i]
		}
		return b
	}
	if n.BitLen() <= 6 {
		out = append(out, []byte{byte(n.Uint64() << 2)})
	}
	if n.BitLen() <= 14 {
		v := n.Uint64()<<2 | 1
		out = append(out, []byte{byte(v), byte(v >> 8)})
	}
	if n.BitLen() <= 30 {
		v := n.Uint64()<<2 | 2
		out = append(out, []byte{byte(v), byte(v >> 8), byte(v >> 16), byte(v >> 24)})
	}
	for w := 4; w <= 9; w++ {
		if n.BitLen() <= 8*w {
			out = append(out, append([]byte{byte((w-4)<<2) | 3}, le(w)...))
		}
	}
	return out
}

func TestVerif_C09(t *testing.T) {
	r := verifmc.NewReport("C09", "storage-append", "exploration")
	defer r.Write()
	r.Rule = "existing value in {absent} + every byte string of length <=2 + for n in {0,1,63,64,16383,16384,2^30-1,2^30,2^32-2,2^32-1,2^32,2^40,2^64-1,2^64}: the canonical and every wider compact encoding of n (two-byte, four-byte and big-integer mode with 4..9 value bytes) followed by 0/1/3 payload bytes, and every truncation of each; appended item in {\"\", 00, ff, \"ab\"}; storageAppend is run on a real TrieState over an empty trie and the stored bytes are compared with the Substrate rule computed by the reference codec; a case is non-trivial when the existing value is present and non-empty"
	items := [][]byte{{}, {0x00}, {0xff}, []byte("ab")}
	two := func(k uint) *big.Int { return new(big.Int).Lsh(big.NewInt(1), k) }
	sub1 := func(n *big.Int, d int64) *big.Int { return new(big.Int).Sub(n, big.NewInt(d)) }
	ns := []*big.Int{big.NewInt(0), big.NewInt(1), big.NewInt(63), big.NewInt(64), big.NewInt(16383), big.NewInt(16384),
		sub1(two(30), 1), two(30), sub1(two(32), 2), sub1(two(32), 1), two(32), two(40), sub1(two(64), 1), two(64)}
	type ex struct {
		present bool
		val     []byte
	}
	seen := map[string]bool{}
	var cases []ex
	add := func(b []byte) {
		if !seen[string(b)] {
			seen[string(b)] = true
			cases = append(cases, ex{true, append([]byte{}, b...)})
		}
	}
	cases = append(cases, ex{false, nil})
	verifmc.AllBytes(2, add)
	for _, n := range ns {
		for _, enc := range c09Encodings(n) {
			for _, pl := range [][]byte{{}, {0x2a}, {0x01, 0x02, 0x03}} {
				full := append(append([]byte{}, enc...), pl...)
				for l := 1; l <= len(full); l++ {
					add(full[:l])
				}
			}
		}
	}
	key := []byte("c09key")
	for _, c := range cases {
		for _, item := range items {
			r.Add("evaluations", 1)
			want, class := c09Expected(c.val, c.present, item)
			rep := map[string]any{"existing": verifmc.Hex(c.val), "present": c.present, "item": verifmc.Hex(item), "class": class, "want": verifmc.Hex(want)}
			if c.present && len(c.val) > 0 {
				r.Distinct(verifmc.Hex(c.val) + "+" + verifmc.Hex(item))
			}
			ts := storage.NewTrieState(inmemory_trie.NewEmptyTrie())
			if c.present {
				if err := ts.Put(key, c.val); err != nil {
					t.Fatalf("seeding storage: %v", err)
				}
			}
			var err error
			if p, msg := verifmc.Guard(func() { err = storageAppend(ts, key, append([]byte{}, item...)) }); p {
				r.Outcome(class + ":panic")
				r.Violate("storageAppend:panic:"+class, fmt.Sprintf("storageAppend on existing %x, item %x panics: %s", c.val, item, msg), rep)
				continue
			}
			if err != nil {
				r.Outcome(class + ":error")
				r.Violate("storageAppend:error:"+class, fmt.Sprintf("storageAppend on existing %x, item %x: %v", c.val, item, err), rep)
				continue
			}
			got := ts.Get(key)
			if bytes.Equal(got, want) {
				r.Outcome(class + ":ok")
				if len(r.Samples) < 4 && class != "absent" && len(c.val) > 2 {
					r.Sample(rep)
				}
				continue
			}
			r.Outcome(class + ":MISMATCH")
			shape := "wrong-result"
			switch class {
			case "noncanonical-compact", "truncated", "compact-out-of-range", "length-u32-max":
				// the old bytes were kept and treated as a list (longer than a one-item list, item at the end)
				if len(got) > 1+len(item) && bytes.HasSuffix(got, item) {
					shape = "not-replaced-by-one-item-list"
				}
			}
			rep["got"] = verifmc.Hex(got)
			r.Violate("storageAppend:"+class+":"+shape, fmt.Sprintf("existing %x (%s) + item %x: stored %x, Substrate stores %x", c.val, class, item, got, want), rep)
		}
	}
	r.Extra["existing_values"] = len(cases)
}
