//go:build verif

package keystore

// C37: keystore encryption is a faithful, tamper-evident round trip.
//
// Statement clauses -> oracle:
//  (a) "decrypting the stored ciphertext with the same password returns the same key"
//      -> Decrypt / DecryptPrivateKey / ReadFromFileAndDecrypt give a key whose encoding and
//         public key equal the original's.
//  (b) "Decrypting with a different password ... returns an error, never a different key and
//      never a crash" -> every other password of the alphabet must give an error.
//  (c) "decrypting any modified or truncated ciphertext returns an error ..." -> every
//      single-bit flip, every truncation length 0..len-1, appended bytes (thorough: every
//      single-byte substitution and every pair of bit flips) must give an error.
// The oracle is the original key itself; nothing is computed with the code under test.
// Not judged (statement silent): a changed "Type" field of the key file, wrong keytype
// argument; truncations of the *JSON file* are only required not to crash and not to give a
// different key (a file cut after the closing brace is still the same stored ciphertext).

import (
	"bytes"
	"crypto/rand"
	"encoding/json"
	"fmt"
	"io"
	"os"
	"path/filepath"
	"strings"
	"sync"
	"testing"

	"github.com/ChainSafe/gossamer/internal/verifmc"
	"github.com/ChainSafe/gossamer/lib/crypto"
	"github.com/ChainSafe/gossamer/lib/crypto/ed25519"
	"github.com/ChainSafe/gossamer/lib/crypto/secp256k1"
	"github.com/ChainSafe/gossamer/lib/crypto/sr25519"
)

// c37Nonce is a deterministic replacement of crypto/rand.Reader while the ciphertexts are
// produced: the property is stated for any nonce, so the nonce is an enumerated input.
type c37Nonce struct{ pat byte }

func (n c37Nonce) Read(p []byte) (int, error) {
	for i := range p {
		switch n.pat {
		case 0:
			p[i] = 0x00
		case 1:
			p[i] = 0xff
		default:
			p[i] = byte(i*37 + 11)
		}
	}
	return len(p), nil
}

type c37Key struct {
	name    string
	keytype string
	priv    crypto.PrivateKey
	enc     []byte
	pub     []byte
}

func c37Keys(t *testing.T) []c37Key {
	seeds := map[string][]byte{
		"ones":     bytes.Repeat([]byte{0x01}, 32),
		"count":    nil,
		"fe":       bytes.Repeat([]byte{0xfe}, 32),
		"leadzero": append(bytes.Repeat([]byte{0x00}, 31), 0x01),
	}
	cnt := make([]byte, 32)
	for i := range cnt {
		cnt[i] = byte(i)
	}
	seeds["count"] = cnt
	var out []c37Key
	for _, sn := range []string{"ones", "count", "fe", "leadzero"} {
		seed := seeds[sn]
		ed, err := ed25519.NewKeypairFromSeed(seed)
		if err != nil {
			t.Fatal(err)
		}
		sr, err := sr25519.NewKeypairFromSeed(seed)
		if err != nil {
			t.Fatal(err)
		}
		scp, err := secp256k1.NewPrivateKey(seed)
		if err != nil {
			t.Fatal(err)
		}
		for _, e := range []struct {
			kt string
			p  crypto.PrivateKey
		}{{crypto.Ed25519Type, ed.Private()}, {crypto.Sr25519Type, sr.Private()}, {crypto.Secp256k1Type, scp}} {
			pub, err := e.p.Public()
			if err != nil {
				t.Fatal(err)
			}
			out = append(out, c37Key{name: e.kt + "/" + sn, keytype: e.kt, priv: e.p,
				enc: append([]byte{}, e.p.Encode()...), pub: append([]byte{}, pub.Encode()...)})
		}
	}
	return out
}

type c37Pw struct {
	name string
	pw   []byte
}

func c37Passwords() []c37Pw {
	return []c37Pw{
		{"empty", []byte{}},
		{"a", []byte("a")},
		{"A", []byte("A")},
		{"a-nul", []byte("a\x00")},
		{"aa", []byte("aa")},
		{"1KiB", bytes.Repeat([]byte("0123456789abcdef"), 64)},
		{"1KiB-lastdiff", append(bytes.Repeat([]byte("0123456789abcdef"), 63), []byte("0123456789abcdeg")...)},
		{"unicode", []byte("p\u00e4ssw\u00f6rd-\u5bc6\u7801-\U0001F511")},
		{"unicode-nfd", []byte("pa\u0308sswo\u0308rd-\u5bc6\u7801-\U0001F511")},
	}
}

// c37Same decides whether a returned key is the original one.
func c37Same(k c37Key, got crypto.PrivateKey) bool {
	if got == nil {
		return false
	}
	if !bytes.Equal(got.Encode(), k.enc) {
		return false
	}
	pub, err := got.Public()
	if err != nil {
		return false
	}
	return bytes.Equal(pub.Encode(), k.pub)
}

type c37Case struct {
	Key        string `json:"key"`
	Password   string `json:"password"`
	Nonce      int    `json:"nonce_pattern"`
	API        string `json:"api"`
	Deviation  string `json:"deviation"`
	Ciphertext string `json:"ciphertext_hex"`
	UsePw      string `json:"decrypt_password"`
}

// c37Acc batches counters of one worker element (the report's mutex is not taken per evaluation).
type c37Acc struct {
	evals    int64
	outcomes map[string]int64
}

func (a *c37Acc) outcome(s string) { a.outcomes[s]++ }

// flush merges into the harness-wide table (own mutex); c37Publish copies that table into the
// report once, single-threaded, after the parallel phase.
func (a *c37Acc) flush(r *verifmc.Report) {
	r.Add("evaluations", a.evals)
	c37Mu.Lock()
	for k, n := range a.outcomes {
		c37Outcomes[k] += n
	}
	c37Mu.Unlock()
}

var (
	c37Mu       sync.Mutex
	c37Outcomes = map[string]int64{}
)

func c37Publish(r *verifmc.Report) {
	c37Mu.Lock()
	defer c37Mu.Unlock()
	for k, n := range c37Outcomes {
		r.Outcomes[k] += n
	}
}

// c37Try runs one decryption through one API and classifies the result.
// wantOK: the statement requires the original key; otherwise it requires an error.
func c37Try(r *verifmc.Report, acc *c37Acc, k c37Key, api string, data, pw []byte, wantOK bool, devClass string, cs c37Case, dir string, idx int) {
	cs.API = api
	var gotKey crypto.PrivateKey
	var gotRaw []byte
	var err error
	p, msg := verifmc.Guard(func() {
		switch api {
		case "Decrypt":
			gotRaw, err = Decrypt(data, pw)
		case "DecryptPrivateKey":
			gotKey, err = DecryptPrivateKey(data, pw, k.keytype)
		case "ReadFromFileAndDecrypt":
			// the file is written by the harness in the format EncryptAndWriteToFile produces
			// (checked against the real writer in c37FileFormat) so that the stored
			// ciphertext can be the mutated one
			path := filepath.Join(dir, fmt.Sprintf("k%d.key", idx))
			b, merr := json.MarshalIndent(&EncryptedKeystore{Type: k.keytype, PublicKey: "0x" + verifmc.Hex(k.pub), Ciphertext: data}, "", "\t")
			if merr != nil {
				panic(merr)
			}
			if werr := os.WriteFile(path, append(b, '\n'), 0o600); werr != nil {
				panic("harness: " + werr.Error())
			}
			gotKey, err = ReadFromFileAndDecrypt(path, pw)
			os.Remove(path)
		}
	})
	acc.evals++
	if p || err == nil {
		cs.Ciphertext = verifmc.Hex(data)
	}
	if p {
		if strings.Contains(msg, "harness: ") {
			panic(msg)
		}
		site := verifmc.PanicSite(msg)
		shape := "other"
		if strings.Contains(msg, "slice bounds out of range") && len(data) < 12 {
			shape = "ciphertext-shorter-than-nonce"
		}
		acc.outcome("panic:" + devClass)
		r.Violate(fmt.Sprintf("%s:panic:%s:%s", api, shape, site),
			fmt.Sprintf("%s panicked on %s (ciphertext of %d bytes): %s", api, cs.Deviation, len(data), c37First(msg)), cs)
		return
	}
	same := false
	if err == nil {
		if api == "Decrypt" {
			same = bytes.Equal(gotRaw, k.enc)
		} else {
			same = c37Same(k, gotKey)
		}
	}
	switch {
	case wantOK && err == nil && same:
		acc.outcome("ok:same-key:" + api)
	case wantOK && err != nil:
		acc.outcome("BAD:roundtrip-error")
		r.Violate(api+":roundtrip:error", fmt.Sprintf("%s with the same password failed: %v", api, err), cs)
	case wantOK:
		acc.outcome("BAD:roundtrip-different-key")
		r.Violate(api+":roundtrip:different-key", fmt.Sprintf("%s with the same password returned a different key", api), cs)
	case err != nil:
		acc.outcome("rejected:" + devClass + ":" + c37ErrClass(err))
	case same:
		acc.outcome("BAD:accepted-same-key:" + devClass)
		r.Violate(api+":"+devClass+":accepted-returns-original-key", fmt.Sprintf("%s accepted %s without error (returned the original key)", api, cs.Deviation), cs)
	default:
		acc.outcome("BAD:accepted-different-key:" + devClass)
		r.Violate(api+":"+devClass+":accepted-returns-different-key", fmt.Sprintf("%s accepted %s without error and returned a different key", api, cs.Deviation), cs)
	}
}

func c37First(msg string) string {
	if i := strings.IndexByte(msg, '\n'); i >= 0 {
		return msg[:i]
	}
	return msg
}

func c37ErrClass(err error) string {
	s := err.Error()
	switch {
	case strings.Contains(s, "message authentication failed"):
		return "auth-failed"
	case strings.Contains(s, "too short"), strings.Contains(s, "short"):
		return "too-short"
	}
	if len(s) > 40 {
		s = s[:40]
	}
	return s
}

// c37FileFormat checks that the harness' way of writing key files is byte-identical to the real
// EncryptAndWriteToFile up to the (random-nonce) ciphertext, and runs the real writer + reader
// round trip (clause a through the real file path).
func c37FileFormat(t *testing.T, r *verifmc.Report, k c37Key, pw c37Pw, dir string) {
	path := filepath.Join(dir, "real.key")
	if err := EncryptAndWriteToFile(path, k.priv, pw.pw); err != nil {
		t.Fatalf("EncryptAndWriteToFile: %v", err)
	}
	defer os.Remove(path)
	raw, err := os.ReadFile(path)
	if err != nil {
		t.Fatal(err)
	}
	var ks EncryptedKeystore
	if err := json.Unmarshal(raw, &ks); err != nil {
		t.Fatal(err)
	}
	mine, _ := json.MarshalIndent(&EncryptedKeystore{Type: k.keytype, PublicKey: "0x" + verifmc.Hex(k.pub), Ciphertext: ks.Ciphertext}, "", "\t")
	if !bytes.Equal(append(mine, '\n'), raw) {
		t.Fatalf("harness key-file writer differs from EncryptAndWriteToFile:\n%s\n%s", mine, raw)
	}
	cs := c37Case{Key: k.name, Password: pw.name, API: "EncryptAndWriteToFile+ReadFromFileAndDecrypt", Deviation: "none", Ciphertext: verifmc.Hex(ks.Ciphertext), UsePw: pw.name}
	var got crypto.PrivateKey
	p, msg := verifmc.Guard(func() { got, err = ReadFromFileAndDecrypt(path, pw.pw) })
	r.Add("evaluations", 1)
	switch {
	case p:
		r.Violate("ReadFromFileAndDecrypt:panic:other:"+verifmc.PanicSite(msg), c37First(msg), cs)
	case err != nil:
		r.Violate("ReadFromFileAndDecrypt:roundtrip:error", err.Error(), cs)
	case !c37Same(k, got):
		r.Violate("ReadFromFileAndDecrypt:roundtrip:different-key", "real file round trip returned a different key", cs)
	default:
		r.Outcome("ok:same-key:real-file")
	}
	// every truncation of the JSON file: never a crash, never a different key
	for l := 0; l < len(raw); l++ {
		tp := filepath.Join(dir, "trunc.key")
		if err := os.WriteFile(tp, raw[:l], 0o600); err != nil {
			t.Fatal(err)
		}
		cs := c37Case{Key: k.name, Password: pw.name, API: "ReadFromFileAndDecrypt", Deviation: fmt.Sprintf("key file truncated to %d of %d bytes", l, len(raw)), UsePw: pw.name}
		var got crypto.PrivateKey
		var err error
		p, msg := verifmc.Guard(func() { got, err = ReadFromFileAndDecrypt(tp, pw.pw) })
		r.Add("evaluations", 1)
		switch {
		case p:
			r.Outcome("panic:file-trunc")
			r.Violate("ReadFromFileAndDecrypt:file-trunc:panic:"+verifmc.PanicSite(msg), c37First(msg), cs)
		case err != nil:
			r.Outcome("rejected:file-trunc")
		case c37Same(k, got):
			r.Outcome("skipped:file-trunc-still-complete-json") // statement silent: same stored ciphertext
		default:
			r.Outcome("BAD:file-trunc-different-key")
			r.Violate("ReadFromFileAndDecrypt:file-trunc:accepted-returns-different-key", "truncated key file gave a different key", cs)
		}
		os.Remove(tp)
	}
}

func TestVerif_C37(t *testing.T) {
	r := verifmc.NewReport("C37", "keystore-encrypt", "exploration")
	defer r.Write()
	thorough := verifmc.Thorough()
	r.Rule = "product of 12 fixed private keys (ed25519/sr25519/secp256k1 x 4 seeds incl. leading zeros) x 9 passwords (empty, near-misses, 1 KiB, unicode NFC/NFD) x 3 nonce patterns (crypto/rand.Reader owned while encrypting); per ciphertext: same password (must return the key), every other password (must fail), every truncation length, every single-bit flip, 3 appended bytes" +
		verifmc.Pick("", ", every single-byte substitution, every pair of bit flips") +
		"; each through Decrypt and DecryptPrivateKey, and (bit flips/truncations/appends) through ReadFromFileAndDecrypt on a key file; plus every truncation of the JSON key file written by the real EncryptAndWriteToFile. A case is non-trivial when the input differs from the valid ciphertext or the password differs."
	r.Assumption("key identity = equal PrivateKey.Encode() bytes and equal public key encoding (sr25519 nonce half is not part of Encode and therefore not compared)")
	r.Assumption("ciphertexts are produced by the real Encrypt with crypto/rand.Reader replaced by fixed nonce patterns; the property is stated for any nonce")
	dir := os.Getenv("VERIF_TMP")
	if dir == "" {
		dir = t.TempDir()
	}
	dir = filepath.Join(dir, "c37")
	if err := os.MkdirAll(dir, 0o755); err != nil {
		t.Fatal(err)
	}
	defer os.RemoveAll(dir)

	keys := c37Keys(t)
	pws := c37Passwords()
	nonces := []int{0, 1, 2}

	// 1. produce all ciphertexts serially with an owned nonce source
	type ctT struct {
		k     c37Key
		pi    int
		nonce int
		ct    []byte
	}
	var cts []ctT
	saved := rand.Reader
	for _, k := range keys {
		for pi := range pws {
			for _, n := range nonces {
				rand.Reader = c37Nonce{pat: byte(n)}
				ct, err := EncryptPrivateKey(k.priv, pws[pi].pw)
				rand.Reader = saved
				if err != nil {
					t.Fatalf("EncryptPrivateKey: %v", err)
				}
				if want := 12 + len(k.enc) + 16; len(ct) != want {
					// not a property clause, but the deviation alphabet below assumes nonce||ct||tag
					r.Outcome(fmt.Sprintf("note:ciphertext-len-%d-not-%d", len(ct), want))
				}
				// the owned nonce really was used (anti-vacuity of the nonce alphabet)
				exp := make([]byte, 12)
				io.ReadFull(c37Nonce{pat: byte(n)}, exp)
				if !bytes.HasPrefix(ct, exp) {
					t.Fatalf("owned nonce not used: %x", ct[:12])
				}
				cts = append(cts, ctT{k, pi, n, ct})
			}
		}
	}
	r.Add("ciphertexts", int64(len(cts)))
	r.Sample(c37Case{Key: cts[0].k.name, Password: pws[cts[0].pi].name, Nonce: cts[0].nonce, API: "EncryptPrivateKey", Deviation: "none", Ciphertext: verifmc.Hex(cts[0].ct)})

	// 2. real writer/reader round trip and file truncations (one nonce, random: the real writer)
	for _, k := range keys {
		for _, pw := range []c37Pw{pws[0], pws[7]} {
			c37FileFormat(t, r, k, pw, dir)
		}
	}

	// 3. per ciphertext: all deviations, all APIs
	verifmc.ParallelFor(r, len(cts), func(i int) {
		c := cts[i]
		k, pw := c.k, pws[c.pi]
		base := c37Case{Key: k.name, Password: pw.name, Nonce: c.nonce, UsePw: pw.name, Deviation: "none"}
		wdir := filepath.Join(dir, fmt.Sprintf("w%d", i))
		if err := os.MkdirAll(wdir, 0o755); err != nil {
			panic("harness: " + err.Error())
		}
		defer os.RemoveAll(wdir)
		acc := &c37Acc{outcomes: map[string]int64{}}
		defer acc.flush(r)
		apis := []string{"Decrypt", "DecryptPrivateKey", "ReadFromFileAndDecrypt"}
		// (a) same password
		for _, api := range apis {
			c37Try(r, acc, k, api, c.ct, pw.pw, true, "none", base, wdir, 0)
		}
		// (b) every other password
		for pj, other := range pws {
			if pj == c.pi {
				continue
			}
			cs := base
			cs.UsePw = other.name
			cs.Deviation = "wrong password " + other.name
			for _, api := range apis {
				c37Try(r, acc, k, api, c.ct, other.pw, false, "wrong-password", cs, wdir, 0)
			}
			r.Distinct(fmt.Sprintf("%s|%s|%d|pw:%s", k.name, pw.name, c.nonce, other.name))
		}
		// (c) deviations at distance 1
		n := 0
		verifmc.Deviate(c.ct, thorough, func(d verifmc.Deviation) {
			n++
			cs := base
			region := "nonce"
			switch {
			case d.Pos >= len(c.ct)-16:
				region = "tag"
			case d.Pos >= 12:
				region = "body"
			}
			cls := d.Kind
			switch d.Kind {
			case "trunc":
				cs.Deviation = fmt.Sprintf("truncated to %d of %d bytes", d.Pos, len(c.ct))
				if d.Pos < 12 {
					cls = "trunc<nonce"
				} else if d.Pos < 28 {
					cls = "trunc<nonce+tag"
				}
			case "append":
				cs.Deviation = fmt.Sprintf("byte %02x appended", d.Val)
			case "bitflip":
				cs.Deviation = fmt.Sprintf("bit %d of byte %d (%s) flipped", d.Val, d.Pos, region)
				cls = "bitflip-" + region
			case "subst":
				cs.Deviation = fmt.Sprintf("byte %d (%s) replaced by %02x", d.Pos, region, d.Val)
				cls = "subst-" + region
			}
			for _, api := range apis {
				if api == "ReadFromFileAndDecrypt" && d.Kind == "subst" {
					continue // 255 x len file writes add nothing over the bit flips through the file path
				}
				c37Try(r, acc, k, api, d.Data, pw.pw, false, cls, cs, wdir, n)
			}
			r.Distinct(fmt.Sprintf("%s|%s|%d|%s@%d=%02x", k.name, pw.name, c.nonce, d.Kind, d.Pos, d.Val))
		})
		// thorough: every pair of bit flips (distance 2)
		if thorough {
			nb := len(c.ct) * 8
			buf := append([]byte{}, c.ct...)
			for a := 0; a < nb; a++ {
				if r.Expired() {
					r.Capped("deadline inside the two-bit-flip enumeration")
					return
				}
				buf[a/8] ^= 1 << (a % 8)
				for b := a + 1; b < nb; b++ {
					buf[b/8] ^= 1 << (b % 8)
					cs := base
					cs.Deviation = fmt.Sprintf("bits %d and %d flipped", a, b)
					c37Try(r, acc, k, "DecryptPrivateKey", buf, pw.pw, false, "bitflip2", cs, wdir, 0)
					buf[b/8] ^= 1 << (b % 8)
				}
				buf[a/8] ^= 1 << (a % 8)
			}
			r.Add("two_bit_flip_pairs", int64(nb*(nb-1)/2))
		}
	}, func(i int, msg string) {
		t.Errorf("harness panic on ciphertext %d: %s", i, msg)
	})
	c37Publish(r)
}
