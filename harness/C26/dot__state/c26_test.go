//go:build verif

package state

// C26: BABE epoch data is taken from the block's own fork.
// Every parent-first tree up to n nodes (node 0 = genesis) x every assignment of epoch steps
// (each block in its parent's epoch or the next one) x every assignment of announcements
// (none / next-epoch data / next config / both) is built on the real BlockState + EpochState
// (in-memory database); then GetEpochDataRaw(e, h) and GetConfigData(e, h) are queried for
// every block h and every epoch e and compared with the announcements on h's own ancestry.

import (
	"encoding/json"
	"fmt"
	"sync"
	"testing"
	"time"

	"github.com/ChainSafe/gossamer/dot/types"
	"github.com/ChainSafe/gossamer/internal/database"
	"github.com/ChainSafe/gossamer/internal/verifmc"
	"github.com/ChainSafe/gossamer/lib/common"
	"github.com/ChainSafe/gossamer/lib/crypto/sr25519"
	"github.com/ChainSafe/gossamer/pkg/trie"
)

type c26Telemetry struct{}

func (c26Telemetry) SendMessage(json.Marshaler) {}

const c26EpochLen = 10

type c26Scenario struct {
	parent []int // parent vector, node 0 = genesis
	step   []int // step[i]=1: block i is in the epoch after its parent's (i>=2; blocks at depth 1 are in epoch 0)
	ann    []int // bit0: announces next epoch data, bit1: announces next config
}

func (s c26Scenario) String() string {
	return fmt.Sprintf("parents=%v epochStep=%v announce=%v", s.parent, s.step, s.ann)
}

type c26Built struct {
	es      *EpochState
	headers []*types.Header
	epoch   []uint64
	depth   []int
	db      database.Database
}

func c26Build(sc c26Scenario) (*c26Built, error) {
	db, err := database.LoadDatabase("", true)
	if err != nil {
		return nil, err
	}
	n := len(sc.parent)
	genesis := types.NewHeader(common.Hash{}, trie.EmptyHash, trie.EmptyHash, 0, types.NewDigest())
	tries := NewTries()
	tries.SetEmptyTrie()
	bs, err := NewBlockStateFromGenesis(db, tries, genesis, c26Telemetry{})
	if err != nil {
		return nil, err
	}
	cfg := &types.BabeConfiguration{SlotDuration: 1000, EpochLength: c26EpochLen, C1: 1, C2: 99,
		GenesisAuthorities: []types.AuthorityRaw{}, Randomness: [32]byte{0xfe}, SecondarySlots: 1}
	es, err := NewEpochStateFromGenesis(db, bs, cfg)
	if err != nil {
		return nil, err
	}
	b := &c26Built{es: es, headers: make([]*types.Header, n), epoch: make([]uint64, n), depth: make([]int, n), db: db}
	b.headers[0] = genesis
	for i := 1; i < n; i++ {
		p := sc.parent[i]
		b.depth[i] = b.depth[p] + 1
		if b.depth[i] >= 2 {
			b.epoch[i] = b.epoch[p] + uint64(sc.step[i])
		}
		slot := uint64(100) + c26EpochLen*b.epoch[i] + uint64(b.depth[i]-1)
		dg := types.NewDigest()
		pre, err := types.NewBabePrimaryPreDigest(0, slot, [sr25519.VRFOutputLength]byte{byte(i), 0xc2}, [sr25519.VRFProofLength]byte{}).ToPreRuntimeDigest()
		if err != nil {
			return nil, err
		}
		if err := dg.Add(*pre); err != nil {
			return nil, err
		}
		h := types.NewHeader(b.headers[p].Hash(), trie.EmptyHash, trie.EmptyHash, uint(b.depth[i]), dg)
		b.headers[i] = h
		if err := bs.AddBlock(&types.Block{Header: *h, Body: types.Body{}}); err != nil {
			return nil, fmt.Errorf("AddBlock %d: %w", i, err)
		}
		if sc.ann[i]&1 != 0 {
			d := types.NewBabeConsensusDigest()
			if err := d.SetValue(types.NextEpochData{Authorities: []types.AuthorityRaw{}, Randomness: [32]byte{byte(i)}}); err != nil {
				return nil, err
			}
			if err := es.HandleBABEDigest(h, d); err != nil {
				return nil, fmt.Errorf("HandleBABEDigest(epoch data) at %d: %w", i, err)
			}
		}
		if sc.ann[i]&2 != 0 {
			v := types.NewVersionedNextConfigData()
			v.SetValue(types.NextConfigDataV1{C1: 1, C2: uint64(100 + i), SecondarySlots: 1})
			d := types.NewBabeConsensusDigest()
			if err := d.SetValue(v); err != nil {
				return nil, err
			}
			if err := es.HandleBABEDigest(h, d); err != nil {
				return nil, fmt.Errorf("HandleBABEDigest(config) at %d: %w", i, err)
			}
		}
	}
	return b, nil
}

// c26Expect: which node's announcement applies to (epoch e, block h); -1 = none on the ancestry;
// -2 = ambiguous (two announcements for the same epoch on the ancestry: skipped and counted).
func c26Expect(sc c26Scenario, b *c26Built, h int, e uint64, bit int) int {
	found := -1
	for x := h; x > 0; x = sc.parent[x] {
		if sc.ann[x]&bit != 0 && b.epoch[x]+1 == e {
			if found >= 0 {
				return -2
			}
			found = x
		}
	}
	return found
}

func TestVerif_C26(t *testing.T) {
	r := verifmc.NewReport("C26", "epoch-data-by-fork", "model_checking")
	defer r.Write()
	maxN := verifmc.Pick(4, 5)
	r.Rule = fmt.Sprintf("every parent vector with up to %d nodes (node 0 = genesis; = every parent-first import history of every tree) x every epoch-step assignment x every announcement assignment (none/next-epoch-data/next-config/both per block), built on the real BlockState+EpochState by AddBlock+HandleBABEDigest; then, without finalisation and after finalising each block in turn (SetFinalisedHash + FinalizeBABENextEpochData/ConfigData as the digest handler does), GetEpochDataRaw(e,h) and GetConfigData(e,h) for every surviving block h and epoch e in 0..maxEpoch+1 compared with the announcements on h's ancestry; a lookup must return within a 20 s watchdog; a case is non-trivial when some other fork announces for the queried epoch", maxN)
	var scs []c26Scenario
	for n := 2; n <= maxN; n++ {
		verifmc.ParentVectors(n, func(parent []int) {
			pv := append([]int{}, parent...)
			dims := make([]int, 0, 2*(n-1))
			for i := 1; i < n; i++ {
				dims = append(dims, 2, 4)
			}
			verifmc.Product(dims, func(idx []int) {
				sc := c26Scenario{parent: pv, step: make([]int, n), ann: make([]int, n)}
				depth := make([]int, n)
				ok := true
				for i := 1; i < n; i++ {
					depth[i] = depth[pv[i]] + 1
					sc.step[i] = idx[2*(i-1)]
					sc.ann[i] = idx[2*(i-1)+1]
					if depth[i] == 1 && sc.step[i] == 1 { // depth-1 blocks are in epoch 0 by definition
						ok = false
					}
				}
				if ok {
					scs = append(scs, sc)
				}
			})
		})
	}
	var mu sync.Mutex
	var evals, states int64
	hung := false
	verifmc.ParallelFor(r, len(scs), func(si int) {
		mu.Lock()
		if hung {
			mu.Unlock()
			return
		}
		mu.Unlock()
		sc := scs[si]
		b, err := c26Build(sc)
		if err != nil {
			r.Violate("build:error", sc.String()+": "+err.Error(), sc.String())
			return
		}
		n := len(sc.parent)
		cnt := int64(0)
		// fin == 0: no finalisation; fin = f > 0: block f was finalised (SetFinalisedHash, then the epoch
		// state's finalisation hooks as the digest handler runs them) before the queries
		for fin := 0; fin < n; fin++ {
			if fin > 0 {
				b.db.Close()
				b, err = c26Build(sc)
				if err != nil {
					r.Violate("build:error", sc.String()+": "+err.Error(), sc.String())
					return
				}
				if err := b.es.blockState.SetFinalisedHash(b.headers[fin].Hash(), 1, 0); err != nil {
					r.Violate("finalise:error", fmt.Sprintf("%s: finalising block %d: %v", sc.String(), fin, err), sc.String())
					continue
				}
				_ = b.es.FinalizeBABENextEpochData(b.headers[fin])
				_ = b.es.FinalizeBABENextConfigData(b.headers[fin])
			}
			maxE := uint64(0)
			for _, e := range b.epoch {
				if e > maxE {
					maxE = e
				}
			}
			isDesc := func(a, x int) bool { // a is an ancestor of or equal to x
				for ; x > 0; x = sc.parent[x] {
					if x == a {
						return true
					}
				}
				return a == 0
			}
			for h := 1; h < n; h++ {
				if fin > 0 && !isDesc(fin, h) {
					continue // abandoned or already finalised below fin
				}
				for e := uint64(0); e <= maxE+1; e++ {
					for _, bit := range []int{1, 2} {
						cnt++
						want := c26Expect(sc, b, h, e, bit)
						if want == -2 {
							r.Outcome("skipped:two-announcements-for-one-epoch-on-one-chain")
							continue
						}
						otherFork := false
						for x := 1; x < n; x++ {
							if sc.ann[x]&bit != 0 && b.epoch[x]+1 == e && want != x {
								otherFork = true
							}
						}
						what := "GetEpochDataRaw"
						if bit == 2 {
							what = "GetConfigData"
						}
						label := fmt.Sprintf("%s finalised=%d: %s(epoch %d, block %d)", sc.String(), fin, what, e, h)
						replay := map[string]any{"scenario": sc.String(), "finalised_block": fin, "query": fmt.Sprintf("%s(%d, block %d)", what, e, h)}
						if fin > 0 {
							what += "[after-finalisation]"
						}
						var got int = -1
						var gerr error
						finished, pmsg := verifmc.WithWatchdog(20*time.Second, func() {
							if bit == 1 {
								d, err := b.es.GetEpochDataRaw(e, b.headers[h])
								gerr = err
								if err == nil && d != nil {
									got = int(d.Randomness[0])
									if d.Randomness[0] == 0xfe {
										got = 0 // genesis
									}
								}
							} else {
								c, err := b.es.GetConfigData(e, b.headers[h])
								gerr = err
								if err == nil && c != nil {
									got = int(c.C2) - 100
									if c.C2 == 99 {
										got = 0
									}
								}
							}
						})
						if !finished {
							mu.Lock()
							hung = true
							mu.Unlock()
							r.Violate(what+":hangs-when-own-ancestry-announces-nothing", label+": did not return within 20 s", replay)
							r.Capped("stopped after a lookup hung (the spinning goroutine cannot be killed)")
							return
						}
						if pmsg != "" {
							r.Violate(what+":panic@"+verifmc.PanicSite(pmsg), label+": "+pmsg, replay)
							continue
						}
						// expectation
						if bit == 1 {
							switch {
							case e == 0:
								if gerr != nil || got != 0 {
									r.Violate(what+":epoch0-not-genesis", fmt.Sprintf("%s: got node %d err %v, want genesis data", label, got, gerr), replay)
								}
							case want >= 0:
								if gerr != nil {
									r.Violate(what+":own-announcement-not-found", fmt.Sprintf("%s: error %v, want the data announced at block %d", label, gerr, want), replay)
								} else if got != want {
									r.Violate(what+":returns-other-announcement", fmt.Sprintf("%s: returned the data announced at block %d, want block %d", label, got, want), replay)
								}
							default:
								if gerr == nil {
									r.Violate(what+":returns-another-forks-data", fmt.Sprintf("%s: returned the data announced at block %d although nothing is announced on the ancestry", label, got), replay)
								}
							}
						} else {
							// latest earlier configuration on the ancestry, else genesis
							wantCfg := 0
							amb := false
							for ee := e; ee >= 1; ee-- {
								w := c26Expect(sc, b, h, ee, 2)
								if w == -2 {
									amb = true
									break
								}
								if w >= 0 {
									wantCfg = w
									break
								}
							}
							if amb {
								r.Outcome("skipped:two-announcements-for-one-epoch-on-one-chain")
								continue
							}
							if gerr != nil {
								sig := what + ":error"
								if otherFork || c26OtherForkBelow(sc, b, h, e) {
									sig = what + ":fails-instead-of-earlier-config-when-another-fork-announced"
								}
								r.Violate(sig, fmt.Sprintf("%s: error %v, want the configuration announced at block %d (0 = genesis)", label, gerr, wantCfg), replay)
							} else if got != wantCfg {
								r.Violate(what+":returns-other-config", fmt.Sprintf("%s: returned the configuration announced at block %d, want block %d (0 = genesis)", label, got, wantCfg), replay)
							}
						}
						if otherFork {
							r.Distinct(label)
						}
						r.Outcome(fmt.Sprintf("%s want=%t err=%t otherFork=%t", what, want >= 0, gerr != nil, otherFork))
					}
				}
			}
		}
		b.db.Close()
		mu.Lock()
		evals += cnt
		states++
		mu.Unlock()
		if si%5000 == 1 {
			r.Sample(sc.String())
		}
	}, func(i int, msg string) { r.Violate("harness-panic", msg, scs[i].String()) })
	r.Add("evaluations", evals)
	r.Add("states", states)
	r.Add("transitions", evals)
	r.Add("traces_validated_against_impl", states)
}

// is there an announcement of config for any epoch <= e on a block that is not on h's ancestry?
func c26OtherForkBelow(sc c26Scenario, b *c26Built, h int, e uint64) bool {
	anc := map[int]bool{}
	for x := h; x > 0; x = sc.parent[x] {
		anc[x] = true
	}
	for x := 1; x < len(sc.parent); x++ {
		if !anc[x] && sc.ann[x]&2 != 0 && b.epoch[x]+1 <= e {
			return true
		}
	}
	return false
}
