//go:build verif

package sr25519

// C29 part 4: sr25519.  There is NO second schnorrkel implementation available offline, so this
// part is limited to: sign/verify consistency of honest triples, rejection of every single-bit
// deviation and of malformed lengths / non-canonical scalars, agreement of the entry points, and
// two vectors recalled from Substrate's sr25519 tests (seed -> public key; a schnorrkel-js
// signature that only the deprecated verifier accepts).

import (
	"bytes"
	"fmt"
	"math/big"
	"testing"

	"github.com/ChainSafe/gossamer/internal/verifmc"
)

func c29SrMsg(n int) []byte {
	b := make([]byte, n)
	for i := range b {
		b[i] = byte(i % 251)
	}
	return b
}

func c29SrFlip(b []byte, bit int) []byte {
	o := append([]byte{}, b...)
	o[bit/8] ^= 1 << (bit % 8)
	return o
}

// c29SrVerdicts runs the three entry points; a key that cannot be constructed counts as reject.
func c29SrVerdicts(pub, msg, sig []byte) (verify, deprecated, viaFunc bool, how string) {
	viaFunc = VerifySignature(pub, sig, msg) == nil
	pk, err := NewPublicKey(pub)
	if err != nil {
		return false, false, viaFunc, "key-rejected"
	}
	how = "verdict"
	ok, err := pk.Verify(msg, sig)
	if err != nil {
		ok, how = false, "error"
	}
	dep, err := pk.VerifyDeprecated(msg, sig)
	if err != nil {
		dep = false
	}
	return ok, dep, viaFunc, how
}

func TestVerif_C29_sr25519(t *testing.T) {
	r := verifmc.NewReport("C29", "sr25519-verify", "exploration")
	defer r.Write()
	r.Rule = "4 seeds x 9 message lengths signed by the key pair (must verify); every single-bit flip of signature, key and message of chosen triples (must be rejected by Verify; " +
		"VerifyDeprecated must agree with Verify on the signature with the schnorrkel marker bit set); signature lengths 0..130, key lengths 0..66; s + k*L for every k that fits 255 bits; " +
		"cross-key and cross-message replays; two embedded Substrate vectors. A case is non-trivial when it is not an unmodified honest triple"
	r.Assumption("NO independent sr25519/schnorrkel implementation is available offline: this part checks self-consistency, deviation rejection and two embedded Substrate vectors only; agreement with Substrate's verifier on adversarial encodings is NOT established")

	type triple struct{ pub, msg, sig []byte }
	var honest []triple
	var seeds [][]byte
	s1, s3 := make([]byte, 32), make([]byte, 32)
	for i := range s1 {
		s1[i], s3[i] = byte(i+1), byte(i*7)
	}
	seeds = [][]byte{s1, make([]byte, 32), bytes.Repeat([]byte{0xff}, 32), s3}
	for _, seed := range seeds {
		kp, err := NewKeypairFromSeed(seed)
		if err != nil {
			t.Fatalf("keypair: %v", err)
		}
		for _, n := range []int{0, 1, 31, 32, 33, 64, 135, 136, 300} {
			msg := c29SrMsg(n)
			sig, err := kp.Sign(msg)
			if err != nil {
				t.Fatalf("sign: %v", err)
			}
			honest = append(honest, triple{kp.Public().Encode(), msg, sig})
		}
	}
	judge := func(class, note string, pub, msg, sig []byte, want bool) {
		r.Add("evaluations", 1)
		if class != "honest" {
			r.Distinct(class + "/" + note)
		}
		rep := map[string]any{"class": class, "note": note, "public_key": verifmc.Hex(pub), "message": verifmc.Hex(msg), "signature": verifmc.Hex(sig)}
		var ok, dep, viaFunc bool
		var how string
		panicked, pmsg := verifmc.Guard(func() { ok, dep, viaFunc, how = c29SrVerdicts(pub, msg, sig) })
		if panicked {
			r.Outcome(class + " -> panic")
			r.Violate("sr25519.Verify:panic:"+verifmc.PanicSite(pmsg), pmsg, rep)
			return
		}
		r.Outcome(fmt.Sprintf("%s: want=%v Verify=%v(%s) VerifyDeprecated=%v", class, want, ok, how, dep))
		if ok != want {
			if want {
				r.Violate("sr25519.Verify:rejects-valid:"+class, "an acceptable signature is rejected ("+how+")", rep)
			} else {
				r.Violate("sr25519.Verify:accepts-invalid:"+class, "a signature that must be rejected is accepted", rep)
			}
		}
		if viaFunc != ok {
			r.Violate("sr25519:verify-entry-points-disagree", fmt.Sprintf("PublicKey.Verify=%v VerifySignature=%v", ok, viaFunc), rep)
		}
		// deprecated verifier: same verdict as Verify on the signature with the marker bit set
		if len(sig) == 64 {
			marked := append([]byte{}, sig...)
			marked[63] |= 0x80
			mok, _, _, _ := c29SrVerdicts(pub, msg, marked)
			if dep != mok {
				r.Violate("sr25519.VerifyDeprecated:differs-from-Verify-on-marked-signature:"+class, fmt.Sprintf("VerifyDeprecated=%v, Verify(marked)=%v", dep, mok), rep)
			}
		} else if dep {
			r.Violate("sr25519.VerifyDeprecated:accepts-invalid:"+class, "wrong signature length accepted", rep)
		}
	}
	for i, h := range honest {
		judge("honest", fmt.Sprintf("honest #%d", i), h.pub, h.msg, h.sig, true)
	}
	for _, hi := range verifmc.Pick([]int{0, 13}, []int{0, 4, 13, 22, 35}) {
		h := honest[hi]
		for b := 0; b < 512; b++ {
			// flipping the marker bit (bit 511) gives the old-format signature: Verify must reject it too
			judge("bit-flip-sig", fmt.Sprintf("honest #%d signature bit %d", hi, b), h.pub, h.msg, c29SrFlip(h.sig, b), false)
		}
		for b := 0; b < 256; b++ {
			judge("bit-flip-key", fmt.Sprintf("honest #%d key bit %d", hi, b), c29SrFlip(h.pub, b), h.msg, h.sig, false)
		}
		for b := 0; b < 8*len(h.msg); b++ {
			judge("bit-flip-msg", fmt.Sprintf("honest #%d message bit %d", hi, b), h.pub, c29SrFlip(h.msg, b), h.sig, false)
		}
	}
	h0 := honest[4]
	for n := 0; n <= 130; n++ {
		if n != 64 {
			s := make([]byte, n)
			copy(s, h0.sig)
			judge("sig-length", fmt.Sprintf("signature length %d", n), h0.pub, h0.msg, s, false)
		}
	}
	for n := 0; n <= 66; n++ {
		if n != 32 {
			k := make([]byte, n)
			copy(k, h0.pub)
			judge("key-length", fmt.Sprintf("key length %d", n), k, h0.msg, h0.sig, false)
		}
	}
	// non-canonical scalar: s + k*L (bits 0..254 of the second half; bit 255 is the marker)
	L, _ := new(big.Int).SetString("7237005577332262213973186563042994240857116359379907606001950938285454250989", 10)
	for _, hi := range []int{0, 13} {
		h := honest[hi]
		le := append([]byte{}, h.sig[32:]...)
		le[31] &= 0x7f
		be := make([]byte, 32)
		for i := range le {
			be[31-i] = le[i]
		}
		s := new(big.Int).SetBytes(be)
		for k := int64(1); ; k++ {
			s2 := new(big.Int).Add(s, new(big.Int).Mul(big.NewInt(k), L))
			if s2.BitLen() > 255 {
				break
			}
			b2 := make([]byte, 32)
			s2.FillBytes(b2)
			sig := append([]byte{}, h.sig[:32]...)
			for i := 31; i >= 0; i-- {
				sig = append(sig, b2[i])
			}
			sig[63] |= 0x80
			judge("s-plus-kL", fmt.Sprintf("honest #%d, s + %d*L", hi, k), h.pub, h.msg, sig, false)
		}
	}
	// replays across keys and messages
	for i, a := range honest {
		b := honest[(i+9)%len(honest)] // same message length, next seed
		judge("other-key", fmt.Sprintf("signature of honest #%d under the key of #%d", i, (i+9)%len(honest)), b.pub, a.msg, a.sig, false)
		c := honest[(i/9)*9+(i+1)%9] // same seed, another message
		judge("other-message", fmt.Sprintf("signature of honest #%d on another message", i), a.pub, c.msg, a.sig, false)
	}

	// embedded Substrate vectors (substrate/primitives/core/src/sr25519.rs tests)
	kp, err := NewKeypairFromSeed([]byte("12345678901234567890123456789012"))
	if err != nil {
		t.Fatalf("keypair: %v", err)
	}
	r.Add("evaluations", 1)
	wantPub := verifmc.UnHex("741c08a06f41c596608f6774259bd9043304adfa5d3eea62760bd9be97634d63")
	if got := kp.Public().Encode(); bytes.Equal(got, wantPub) {
		r.Outcome("vector seed->public: agrees")
	} else {
		r.Outcome("vector seed->public: differs")
		r.Violate("sr25519:seed-to-public-key-vector", "public key of seed \"12345678901234567890123456789012\" differs from Substrate's", map[string]any{"got": verifmc.Hex(got), "want": verifmc.Hex(wantPub)})
	}
	kz, _ := NewKeypairFromSeed(make([]byte, 32))
	jsSig := verifmc.UnHex("28a854d54903e056f89581c691c1f7d2ff39f8f896c9e9c22475e60902cc2b3547199e0e91fa32902028f2ca2355e8cdd16cfe19ba5e8b658c94aa80f3b81a00")
	ok, dep, _, _ := c29SrVerdicts(kz.Public().Encode(), []byte("SUBSTRATE"), jsSig)
	r.Add("evaluations", 1)
	r.Outcome(fmt.Sprintf("vector schnorrkel-js signature: Verify=%v VerifyDeprecated=%v", ok, dep))
	// Not judged: the vector is recalled from Substrate's test-suite and cannot be validated offline
	// (no second schnorrkel implementation); Substrate expects verify=false, verify_deprecated=true.
	r.Add("executed_not_judged", 1)
	r.Sample(map[string]any{"class": "honest", "public_key": verifmc.Hex(honest[0].pub), "message": verifmc.Hex(honest[0].msg), "signature": verifmc.Hex(honest[0].sig)})
}
