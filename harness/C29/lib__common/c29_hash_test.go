//go:build verif

package common

// C29 part 1: the BLAKE2b-128/256 (and 64), xxHash-64/128/256, Keccak-256 and SHA-256 helpers
// return the reference digests.  References: engine/ref/c29_hashref.go (written from the
// specifications; SHA-2/Keccak constants derived from their defining formulas), self-checked
// against python-hashlib digests-of-digests embedded below (BLAKE2b, SHA-256, and the sponge via
// SHA3-256) and published XXH64 vectors; second opinions: x/crypto/blake2b with explicit sizes,
// crypto/sha256, cespare/xxhash (all seeds).

import (
	"bytes"
	"crypto/sha256"
	"encoding/binary"
	"encoding/hex"
	"fmt"
	"testing"

	"github.com/ChainSafe/gossamer/internal/verifmc"
	"github.com/ChainSafe/gossamer/internal/verifmc/ref"
	cespare "github.com/cespare/xxhash/v2"
	"golang.org/x/crypto/blake2b"
)

// python3 hashlib: sha256 over the concatenation of f(msg(n,pat)) for pat in (00.., ff.., i%251), n = 0..300
var c29PyDigests = map[string]string{
	"blake2b128": "53fad047fb2e30e3edae3458d1f8bc639931acb88e442135c308c3441c2eaf9e",
	"blake2b256": "75383975cb18fe19c16ea73e2e19670dfe3e85856144d0414da60df85bc15376",
	"blake2b8":   "35481934315f9ec52409e4ff158a6c578425de2d548dc069a6e7860bf84e6d69",
	"sha256":     "d1b9f00c06a7f4352204b0d7cd693107e04c36f2444ad659e41fb8bba3920766",
	"sha3_256":   "1496aba73e888624fe09e24846dfbea85de9b3d409cdf258404beddc93bd33f5",
}

func c29Msg(n, pat int) []byte {
	b := make([]byte, n)
	for i := range b {
		switch pat {
		case 1:
			b[i] = 0xff
		case 2:
			b[i] = byte(i % 251)
		}
	}
	return b
}

var c29PatName = []string{"00", "ff", "i mod 251"}

// c29SelfCheck validates the from-spec references against the embedded independent constants.
func c29SelfCheck(t *testing.T) {
	fns := map[string]func([]byte) []byte{
		"blake2b128": func(m []byte) []byte { return ref.C29Blake2b(16, m) },
		"blake2b256": func(m []byte) []byte { return ref.C29Blake2b(32, m) },
		"blake2b8":   func(m []byte) []byte { return ref.C29Blake2b(8, m) },
		"sha256":     ref.C29Sha256,
		"sha3_256":   func(m []byte) []byte { return ref.C29Sponge256(m, 0x06) },
	}
	for name, f := range fns {
		acc := sha256.New()
		for pat := 0; pat < 3; pat++ {
			for n := 0; n <= 300; n++ {
				acc.Write(f(c29Msg(n, pat)))
			}
		}
		if got := hex.EncodeToString(acc.Sum(nil)); got != c29PyDigests[name] {
			t.Fatalf("harness reference %s disagrees with python hashlib (%s != %s)", name, got, c29PyDigests[name])
		}
	}
	// Keccak-256 (original padding) published vectors: "" and "abc"
	for msg, want := range map[string]string{
		"":    "c5d2460186f7233c927e7db2dcc703c0e500b653ca82273b7bfad8045d85a470",
		"abc": "4e03657aea45a94fc7d47ba826c8d667c0d1e6e33a64a036ec44f58fa12d6c45",
	} {
		if got := hex.EncodeToString(ref.C29Keccak256([]byte(msg))); got != want {
			t.Fatalf("harness reference keccak256(%q) = %s, want %s", msg, got, want)
		}
	}
	// XXH64 published vectors (seed 0)
	for msg, want := range map[string]uint64{"": 0xEF46DB3751D8E999, "a": 0xD24EC4F1A98C6E5B, "abc": 0x44BC2CF5AD770999} {
		if got := ref.C29XXH64(0, []byte(msg)); got != want {
			t.Fatalf("harness reference xxh64(%q) = %x, want %x", msg, got, want)
		}
	}
}

type c29HashFn struct {
	name string
	impl func([]byte) ([]byte, error)
	refs []struct {
		name string
		f    func([]byte) []byte
	}
}

func c29Refs(pairs ...any) (out []struct {
	name string
	f    func([]byte) []byte
}) {
	for i := 0; i < len(pairs); i += 2 {
		out = append(out, struct {
			name string
			f    func([]byte) []byte
		}{pairs[i].(string), pairs[i+1].(func([]byte) []byte)})
	}
	return out
}

func c29Cespare(n int) func([]byte) []byte {
	return func(m []byte) []byte {
		out := make([]byte, 0, 8*n)
		for s := 0; s < n; s++ {
			d := cespare.NewWithSeed(uint64(s))
			d.Write(m)
			out = binary.LittleEndian.AppendUint64(out, d.Sum64())
		}
		return out
	}
}

func TestVerif_C29_hashes(t *testing.T) {
	r := verifmc.NewReport("C29", "hash-helpers", "exploration")
	defer r.Write()
	c29SelfCheck(t)
	maxLen := verifmc.Pick(300, 1200)
	r.Rule = fmt.Sprintf("every message length 0..%d (crossing the 32/64/128/136-byte block and stripe sizes) under the byte patterns {00.., ff.., i mod 251} "+
		"is passed to Blake2b128, Blake2b8, Blake2bHash, Keccak256, Sha256, Twox64, Twox128Hash, Twox256; each digest is compared with a from-specification reference and with a "+
		"second library; a case is non-trivial when the message is non-empty; the input slice must be left unchanged", maxLen)
	r.Assumption("references: engine/ref/c29_hashref.go (from RFC 7693, FIPS 202 + original Keccak padding, FIPS 180-4, XXH64 spec), self-checked in this run against embedded python-hashlib digests (BLAKE2b, SHA-256, sponge via SHA3-256), published Keccak-256 and XXH64 vectors")

	fns := []c29HashFn{
		{"Blake2b128", Blake2b128, c29Refs("spec", func(m []byte) []byte { return ref.C29Blake2b(16, m) },
			"x/crypto New(16)", func(m []byte) []byte { h, _ := blake2b.New(16, nil); h.Write(m); return h.Sum(nil) })},
		{"Blake2b8", func(m []byte) ([]byte, error) { d, err := Blake2b8(m); return d[:], err }, c29Refs("spec", func(m []byte) []byte { return ref.C29Blake2b(8, m) })},
		{"Blake2bHash", func(m []byte) ([]byte, error) { d, err := Blake2bHash(m); return d[:], err }, c29Refs("spec", func(m []byte) []byte { return ref.C29Blake2b(32, m) },
			"x/crypto Sum256", func(m []byte) []byte { d := blake2b.Sum256(m); return d[:] })},
		{"Keccak256", func(m []byte) ([]byte, error) { d, err := Keccak256(m); return d[:], err }, c29Refs("spec", ref.C29Keccak256)},
		{"Sha256", func(m []byte) ([]byte, error) { d := Sha256(m); return d[:], nil }, c29Refs("spec", ref.C29Sha256,
			"crypto/sha256", func(m []byte) []byte { d := sha256.Sum256(m); return d[:] })},
		{"Twox64", Twox64, c29Refs("spec", func(m []byte) []byte { return ref.C29Twox(1, m) }, "cespare", c29Cespare(1))},
		{"Twox128Hash", Twox128Hash, c29Refs("spec", func(m []byte) []byte { return ref.C29Twox(2, m) }, "cespare", c29Cespare(2))},
		{"Twox256", func(m []byte) ([]byte, error) { d, err := Twox256(m); return d[:], err }, c29Refs("spec", func(m []byte) []byte { return ref.C29Twox(4, m) }, "cespare", c29Cespare(4))},
	}
	for _, fn := range fns {
		for pat := 0; pat < 3; pat++ {
			for n := 0; n <= maxLen; n++ {
				msg := c29Msg(n, pat)
				in := append([]byte{}, msg...)
				var got []byte
				var err error
				panicked, pmsg := verifmc.Guard(func() { got, err = fn.impl(in) })
				r.Add("evaluations", 1)
				rep := map[string]any{"function": fn.name, "len": n, "pattern": c29PatName[pat]}
				if n > 0 {
					r.Distinct(fmt.Sprintf("%s/%d/%d", fn.name, pat, n))
				}
				switch {
				case panicked:
					r.Outcome(fn.name + " panic")
					r.Violate(fn.name+":panic", pmsg, rep)
					continue
				case err != nil:
					r.Outcome(fn.name + " error")
					r.Violate(fn.name+":error", err.Error(), rep)
					continue
				}
				if !bytes.Equal(in, msg) {
					r.Violate(fn.name+":modifies-input", "the input slice was modified", rep)
				}
				ok := true
				for _, rf := range fn.refs {
					want := rf.f(msg)
					if !bytes.Equal(got, want) {
						ok = false
						shape := "wrong-digest"
						if len(got) != len(want) {
							shape = fmt.Sprintf("digest-length-%d-not-%d", len(got), len(want))
						}
						rep["got"], rep["want"], rep["reference"] = hex.EncodeToString(got), hex.EncodeToString(want), rf.name
						r.Violate(fn.name+":"+shape, "digest differs from the reference "+rf.name, rep)
						break
					}
				}
				blocks := "<32"
				switch {
				case n >= 136:
					blocks = ">=136"
				case n >= 128:
					blocks = "128..135"
				case n >= 64:
					blocks = "64..127"
				case n >= 32:
					blocks = "32..63"
				}
				if ok {
					r.Outcome(fmt.Sprintf("%s len %s agrees", fn.name, blocks))
				} else {
					r.Outcome(fmt.Sprintf("%s len %s differs", fn.name, blocks))
				}
				if n == 137 && pat == 2 {
					r.Sample(map[string]any{"function": fn.name, "len": n, "pattern": c29PatName[pat], "digest": hex.EncodeToString(got)})
				}
			}
		}
	}
}
