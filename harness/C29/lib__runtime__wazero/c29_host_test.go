//go:build verif

package wazero_runtime

// C29 part 5: the ext_hashing_* and ext_crypto_*_verify / ecdsa_recover host functions, called on
// a real wazero module (memory-only guest, real allocator; see the shared c10_mem_test.go), give
// the reference digests / the verdicts of the verifiers Substrate uses.
// References: engine/ref (from-spec hashes, math/big ZIP-215 ed25519), decred secp256k1 (pure Go).
// Substrate semantics used for ecdsa_verify: sp_core::ecdsa::Pair::verify = the key recovered from
// the 65-byte signature (r|s|v, v in 0..3) over blake2_256(message) equals the public key.
// sr25519: no independent implementation offline; honest triples must verify, single-bit
// deviations must be rejected.

import (
	"bytes"
	"fmt"
	"math/big"
	"testing"

	"github.com/ChainSafe/gossamer/internal/verifmc"
	"github.com/ChainSafe/gossamer/internal/verifmc/ref"
	"github.com/ChainSafe/gossamer/lib/crypto"
	c29ed "github.com/ChainSafe/gossamer/lib/crypto/ed25519"
	c29secp "github.com/ChainSafe/gossamer/lib/crypto/secp256k1"
	c29sr "github.com/ChainSafe/gossamer/lib/crypto/sr25519"
	"github.com/ChainSafe/gossamer/lib/runtime"
	dcr "github.com/decred/dcrd/dcrec/secp256k1/v4"
	dcrecdsa "github.com/decred/dcrd/dcrec/secp256k1/v4/ecdsa"
)

func c29Guest() *c10Guest {
	return c10GetHost().c10NewGuest(&runtime.Context{SigVerifier: crypto.NewSignatureVerifier(logger)})
}

func c29Msg(n int) []byte {
	b := make([]byte, n)
	for i := range b {
		b[i] = byte(i % 251)
	}
	return b
}

func c29Flip(b []byte, bit int) []byte {
	o := append([]byte{}, b...)
	o[bit/8] ^= 1 << (bit % 8)
	return o
}

type c29Sig struct {
	Class, Note   string
	Pub, Msg, Sig []byte
}

func (c c29Sig) replay(fn string) map[string]any {
	return map[string]any{"function": fn, "class": c.Class, "note": c.Note, "public_key": verifmc.Hex(c.Pub), "message": verifmc.Hex(c.Msg), "signature": verifmc.Hex(c.Sig)}
}

// c29CallVerify places sig, msg, key in guest memory and calls a *_verify host function.
func c29CallVerify(fn string, c c29Sig) (ret uint32, panicked bool, pmsg string) {
	g := c29Guest()
	defer g.Close()
	sig, key, msg := g.Put(c.Sig), g.Put(c.Pub), g.Span(c.Msg)
	panicked, pmsg = verifmc.Guard(func() {
		switch fn {
		case "ext_crypto_ed25519_verify_version_1":
			ret = ext_crypto_ed25519_verify_version_1(g.Ctx, g.Mod, sig, msg, key)
		case "ext_crypto_sr25519_verify_version_1":
			ret = ext_crypto_sr25519_verify_version_1(g.Ctx, g.Mod, sig, msg, key)
		case "ext_crypto_sr25519_verify_version_2":
			ret = ext_crypto_sr25519_verify_version_2(g.Ctx, g.Mod, sig, msg, key)
		case "ext_crypto_ecdsa_verify_version_2":
			ret = ext_crypto_ecdsa_verify_version_2(g.Ctx, g.Mod, sig, msg, key)
		default:
			panic("c29: unknown " + fn)
		}
	})
	return
}

func c29Tamper(h c29Sig, msgBits bool) []c29Sig {
	var out []c29Sig
	for b := 0; b < 8*len(h.Sig); b++ {
		out = append(out, c29Sig{"bit-flip-sig", fmt.Sprintf("signature bit %d", b), h.Pub, h.Msg, c29Flip(h.Sig, b)})
	}
	for b := 0; b < 8*len(h.Pub); b++ {
		out = append(out, c29Sig{"bit-flip-key", fmt.Sprintf("key bit %d", b), c29Flip(h.Pub, b), h.Msg, h.Sig})
	}
	if msgBits {
		for b := 0; b < 8*len(h.Msg); b++ {
			out = append(out, c29Sig{"bit-flip-msg", fmt.Sprintf("message bit %d", b), h.Pub, c29Flip(h.Msg, b), h.Sig})
		}
	}
	return out
}

func TestVerif_C29_host(t *testing.T) {
	r := verifmc.NewReport("C29", "host-functions", "exploration")
	defer r.Write()
	c10GetHost()
	maxLen := verifmc.Pick(300, 1200)
	r.Rule = fmt.Sprintf("ext_hashing_{blake2_128,blake2_256,keccak_256,sha2_256,twox_64,twox_128,twox_256}_version_1 on every message length 0..%d (pattern i mod 251), digest read back from guest memory; "+
		"ext_crypto_ed25519_verify_version_1 on honest triples, every single-bit flip of one triple and the 14x14 small-order matrix against the ZIP-215 reference; "+
		"ext_crypto_sr25519_verify_version_1/2 on honest triples (must be 1) and every single-bit flip of signature/key/message (must be 0; version_1: the marker-bit flip is the old format and must be 1); "+
		"ext_crypto_ecdsa_verify_version_2 on honest 65-byte signatures, every recovery byte, the (r,N-s,v^1) twin, every single-bit flip, against recovery-based verification over blake2_256(message); "+
		"ext_crypto_secp256k1_ecdsa_recover(_compressed)_version_1/2 on every recovery byte 0..255, the twin and every single-bit flip of r|s for recovery ids 0..3, against decred's recovery; "+
		"a case is non-trivial when it is not an unmodified honest input", maxLen)
	r.Assumption("references as in the other parts of C29; sr25519 has no independent implementation offline (consistency and deviation rejection only)")
	r.Assumption("signature batching (ext_crypto_start_batch_verify) is not started: the host functions verify immediately")

	// ---------- hashing ----------
	type hfn struct {
		name string
		f    func(g *c10Guest, span uint64) uint32
		n    uint32
		ref  func([]byte) []byte
	}
	hfns := []hfn{
		{"ext_hashing_blake2_128_version_1", func(g *c10Guest, s uint64) uint32 { return ext_hashing_blake2_128_version_1(g.Ctx, g.Mod, s) }, 16, func(m []byte) []byte { return ref.C29Blake2b(16, m) }},
		{"ext_hashing_blake2_256_version_1", func(g *c10Guest, s uint64) uint32 { return ext_hashing_blake2_256_version_1(g.Ctx, g.Mod, s) }, 32, func(m []byte) []byte { return ref.C29Blake2b(32, m) }},
		{"ext_hashing_keccak_256_version_1", func(g *c10Guest, s uint64) uint32 { return ext_hashing_keccak_256_version_1(g.Ctx, g.Mod, s) }, 32, ref.C29Keccak256},
		{"ext_hashing_sha2_256_version_1", func(g *c10Guest, s uint64) uint32 { return ext_hashing_sha2_256_version_1(g.Ctx, g.Mod, s) }, 32, ref.C29Sha256},
		{"ext_hashing_twox_64_version_1", func(g *c10Guest, s uint64) uint32 { return ext_hashing_twox_64_version_1(g.Ctx, g.Mod, s) }, 8, func(m []byte) []byte { return ref.C29Twox(1, m) }},
		{"ext_hashing_twox_128_version_1", func(g *c10Guest, s uint64) uint32 { return ext_hashing_twox_128_version_1(g.Ctx, g.Mod, s) }, 16, func(m []byte) []byte { return ref.C29Twox(2, m) }},
		{"ext_hashing_twox_256_version_1", func(g *c10Guest, s uint64) uint32 { return ext_hashing_twox_256_version_1(g.Ctx, g.Mod, s) }, 32, func(m []byte) []byte { return ref.C29Twox(4, m) }},
	}
	for _, h := range hfns {
		g := c29Guest()
		for n := 0; n <= maxLen; n++ {
			msg := c29Msg(n)
			var ptr uint32
			span := g.Span(msg)
			panicked, pmsg := verifmc.Guard(func() { ptr = h.f(g, span) })
			r.Add("evaluations", 1)
			if n > 0 {
				r.Distinct(fmt.Sprintf("%s/%d", h.name, n))
			}
			rep := map[string]any{"function": h.name, "len": n}
			if panicked {
				r.Outcome(h.name + " panic")
				r.Violate(h.name+":panic", pmsg, rep)
				continue
			}
			got, ok := g.Get(ptr, h.n)
			want := h.ref(msg)
			switch {
			case ptr == 0 || !ok:
				r.Outcome(h.name + " no result")
				r.Violate(h.name+":no-result", "pointer 0 or outside memory", rep)
			case !bytes.Equal(got, want):
				r.Outcome(h.name + " differs")
				rep["got"], rep["want"] = verifmc.Hex(got), verifmc.Hex(want)
				r.Violate(h.name+":wrong-digest", "digest in guest memory differs from the reference", rep)
			default:
				r.Outcome(h.name + " agrees")
			}
		}
		g.Close()
	}

	// ---------- ed25519 ----------
	{
		fn := "ext_crypto_ed25519_verify_version_1"
		var cases []c29Sig
		var first c29Sig
		for si, seed := range [][]byte{c29Msg(32), bytes.Repeat([]byte{0xff}, 32)} {
			kp, err := c29ed.NewKeypairFromSeed(seed)
			if err != nil {
				t.Fatal(err)
			}
			for _, n := range []int{0, 1, 33, 111, 112, 300} {
				msg := c29Msg(n)
				sig, _ := kp.Sign(msg)
				c := c29Sig{"honest", fmt.Sprintf("seed #%d, message length %d", si, n), kp.Public().Encode(), msg, sig}
				cases = append(cases, c)
				if si == 0 && n == 33 {
					first = c
				}
			}
		}
		cases = append(cases, c29Tamper(first, true)...)
		encs := ref.C29EdSmallOrderEncodings()
		for ai, a := range encs {
			for ri, re := range encs {
				cases = append(cases, c29Sig{"small-order-matrix", fmt.Sprintf("A = torsion encoding #%d, R = #%d, S = 0", ai, ri), a, []byte("Zcash"), append(append([]byte{}, re...), make([]byte, 32)...)})
			}
		}
		for _, c := range cases {
			rv := ref.C29EdVerify(c.Pub, c.Msg, c.Sig)
			ret, panicked, pmsg := c29CallVerify(fn, c)
			r.Add("evaluations", 1)
			if c.Class != "honest" {
				r.Distinct(fn + c.Class + c.Note)
			}
			if panicked {
				r.Outcome(fn + " panic")
				r.Violate(fn+":panic:"+verifmc.PanicSite(pmsg), pmsg, c.replay(fn))
				continue
			}
			r.Outcome(fmt.Sprintf("%s %s: zip215=%v returned=%d", fn, c.Class, rv.Zip215, ret))
			switch {
			case ret > 1:
				r.Violate(fn+":result-not-boolean", fmt.Sprintf("returned %d", ret), c.replay(fn))
			case rv.Zip215 && ret == 0:
				shape := "other"
				switch {
				case !rv.CanonicalR:
					shape = "noncanonical-R-encoding"
				case !rv.Cofactorless:
					shape = "equation-holds-only-with-cofactor"
				case !rv.CanonicalA:
					shape = "noncanonical-A-encoding"
				}
				r.Violate(fn+":rejects-zip215-valid:"+shape, "ZIP-215 accepts, the host function returns 0", c.replay(fn))
			case !rv.Zip215 && ret == 1:
				r.Violate(fn+":accepts-zip215-invalid:"+rv.Reason, "ZIP-215 rejects, the host function returns 1", c.replay(fn))
			}
		}
	}

	// ---------- sr25519 ----------
	{
		var cases []c29Sig
		var first c29Sig
		for si, seed := range [][]byte{c29Msg(32), bytes.Repeat([]byte{0xff}, 32)} {
			kp, err := c29sr.NewKeypairFromSeed(seed)
			if err != nil {
				t.Fatal(err)
			}
			for _, n := range []int{0, 1, 33, 300} {
				msg := c29Msg(n)
				sig, _ := kp.Sign(msg)
				c := c29Sig{"honest", fmt.Sprintf("seed #%d, message length %d", si, n), kp.Public().Encode(), msg, sig}
				cases = append(cases, c)
				if si == 0 && n == 33 {
					first = c
				}
			}
		}
		cases = append(cases, c29Tamper(first, true)...)
		// the all-zero public key (ext_crypto_sr25519_verify_version_2 special-cases it)
		cases = append(cases, c29Sig{"zero-key", "all-zero public key with an honest signature of another key", make([]byte, 32), first.Msg, first.Sig})
		for _, fn := range []string{"ext_crypto_sr25519_verify_version_1", "ext_crypto_sr25519_verify_version_2"} {
			for _, c := range cases {
				want := uint32(0)
				if c.Class == "honest" {
					want = 1
				}
				if fn == "ext_crypto_sr25519_verify_version_1" && c.Class == "bit-flip-sig" && c.Note == "signature bit 511" {
					want = 1 // the same signature in the pre-audit format: verify_deprecated accepts it
				}
				ret, panicked, pmsg := c29CallVerify(fn, c)
				r.Add("evaluations", 1)
				if c.Class != "honest" {
					r.Distinct(fn + c.Class + c.Note)
				}
				if panicked {
					r.Outcome(fn + " panic")
					r.Violate(fn+":panic:"+verifmc.PanicSite(pmsg), pmsg, c.replay(fn))
					continue
				}
				r.Outcome(fmt.Sprintf("%s %s: want=%d returned=%d", fn, c.Class, want, ret))
				switch {
				case want == 1 && ret != 1:
					r.Violate(fn+":rejects-valid:"+c.Class, "an acceptable signature is rejected", c.replay(fn))
				case want == 0 && ret != 0:
					// version_1 answers 1 whatever the verification says (one root cause, whatever was tampered with);
					// version_2 is only expected to do so through its all-zero-key detour into version_1
					shape := ""
					if fn == "ext_crypto_sr25519_verify_version_2" {
						shape = ":" + c.Class
					}
					r.Violate(fn+":accepts-invalid-signature"+shape, fmt.Sprintf("returned %d for a %s signature that does not verify", ret, c.Class), c.replay(fn))
				}
			}
		}
	}

	// ---------- secp256k1 ----------
	{
		N, _ := new(big.Int).SetString("fffffffffffffffffffffffffffffffebaaedce6af48a03bbfd25e8cd0364141", 16)
		privBytes := c29Msg(33)[1:]
		priv, err := c29secp.NewPrivateKey(privBytes)
		if err != nil {
			t.Fatal(err)
		}
		kp, err := c29secp.NewKeypairFromPrivate(priv)
		if err != nil {
			t.Fatal(err)
		}
		pub33 := kp.Public().Encode()
		refPub := dcr.PrivKeyFromBytes(privBytes).PubKey()
		if !bytes.Equal(pub33, refPub.SerializeCompressed()) {
			t.Fatalf("public keys differ")
		}
		twin := func(s65 []byte) []byte {
			s := new(big.Int).SetBytes(s65[32:64])
			o := append([]byte{}, s65...)
			new(big.Int).Sub(N, s).FillBytes(o[32:64])
			o[64] ^= 1
			return o
		}
		refRecover := func(hash, sig65 []byte, substrateV bool) (*dcr.PublicKey, bool) {
			v := sig65[64]
			if substrateV && v > 26 {
				v -= 27
			}
			if v > 3 {
				return nil, false
			}
			pk, _, err := dcrecdsa.RecoverCompact(append([]byte{27 + v}, sig65[:64]...), hash)
			if err != nil {
				return nil, false
			}
			return pk, true
		}

		// --- ecdsa_verify_version_2: message of any length, hashed with blake2_256
		fn := "ext_crypto_ecdsa_verify_version_2"
		var cases []c29Sig
		for _, n := range []int{0, 33, 300} {
			msg := c29Msg(n)
			sig, err := kp.Sign(ref.C29Blake2b(32, msg))
			if err != nil {
				t.Fatal(err)
			}
			cases = append(cases, c29Sig{"honest", fmt.Sprintf("message length %d", n), pub33, msg, sig})
			cases = append(cases, c29Sig{"high-s-twin", fmt.Sprintf("message length %d, (r, N-s, v^1)", n), pub33, msg, twin(sig)})
			if n == 33 {
				for v := 0; v < 256; v++ {
					s := append([]byte{}, sig...)
					s[64] = byte(v)
					if byte(v) != sig[64] {
						cases = append(cases, c29Sig{"recovery-byte", fmt.Sprintf("honest v=%d replaced by %d", sig[64], v), pub33, msg, s})
					}
				}
				for b := 0; b < 512; b++ {
					cases = append(cases, c29Sig{"bit-flip-sig", fmt.Sprintf("r|s bit %d", b), pub33, msg, c29Flip(sig, b)})
				}
				for b := 0; b < 264; b++ {
					cases = append(cases, c29Sig{"bit-flip-key", fmt.Sprintf("key bit %d", b), c29Flip(pub33, b), msg, sig})
				}
				for b := 0; b < 8*n; b++ {
					cases = append(cases, c29Sig{"bit-flip-msg", fmt.Sprintf("message bit %d", b), pub33, c29Flip(msg, b), sig})
				}
			}
		}
		for _, c := range cases {
			want := uint32(0)
			hash := ref.C29Blake2b(32, c.Msg)
			if pk, ok := refRecover(hash, c.Sig, false); ok && bytes.Equal(pk.SerializeCompressed(), c.Pub) {
				want = 1
			}
			ret, panicked, pmsg := c29CallVerify(fn, c)
			r.Add("evaluations", 1)
			if c.Class != "honest" {
				r.Distinct(fn + c.Class + c.Note)
			}
			if panicked {
				r.Outcome(fn + " panic")
				r.Violate(fn+":panic:"+verifmc.PanicSite(pmsg), pmsg, c.replay(fn))
				continue
			}
			r.Outcome(fmt.Sprintf("%s %s: substrate=%d returned=%d", fn, c.Class, want, ret))
			switch {
			case want == 1 && ret != 1:
				shape := c.Class
				var s dcr.ModNScalar
				if !s.SetByteSlice(c.Sig[32:64]) && s.IsOverHalfOrder() {
					shape = "high-s-signature"
				}
				r.Violate(fn+":rejects-valid:"+shape, "recovery-based verification (sp_core::ecdsa) accepts, the host function returns 0", c.replay(fn))
			case want == 0 && ret != 0:
				shape := c.Class
				if _, ok := refRecover(hash, append(append([]byte{}, c.Sig[:64]...), 0), false); ok {
					// r|s verify under the key with some other recovery id: the byte at offset 64 is not looked at
					for v := byte(0); v < 4; v++ {
						if pk, ok := refRecover(hash, append(append([]byte{}, c.Sig[:64]...), v), false); ok && bytes.Equal(pk.SerializeCompressed(), c.Pub) {
							shape = "recovery-id-ignored"
						}
					}
				}
				r.Violate(fn+":accepts-invalid:"+shape, "recovery-based verification (sp_core::ecdsa) rejects, the host function returns 1", c.replay(fn))
			}
		}

		// --- ecdsa_recover (64-byte key) and ecdsa_recover_compressed (33-byte key), versions 1 and 2
		hash := ref.C29Blake2b(32, c29Msg(33))
		sig, err := kp.Sign(hash)
		if err != nil {
			t.Fatal(err)
		}
		var rcases []c29Sig
		for v := 0; v < 256; v++ {
			s := append([]byte{}, sig...)
			s[64] = byte(v)
			rcases = append(rcases, c29Sig{"recovery-byte", fmt.Sprintf("honest v=%d, recovery byte %d", sig[64], v), pub33, hash, s})
		}
		rcases = append(rcases, c29Sig{"high-s-twin", "(r, N-s, v^1)", pub33, hash, twin(sig)})
		for v := 0; v < 4; v++ {
			for b := 0; b < 512; b++ {
				s := c29Flip(sig, b)
				s[64] = byte(v)
				rcases = append(rcases, c29Sig{"bit-flip-sig", fmt.Sprintf("r|s bit %d, recovery id %d", b, v), pub33, hash, s})
			}
		}
		for b := 0; b < 256; b++ {
			rcases = append(rcases, c29Sig{"bit-flip-hash", fmt.Sprintf("hash bit %d", b), pub33, c29Flip(hash, b), sig})
		}
		for _, name := range []string{"ext_crypto_secp256k1_ecdsa_recover_version_1", "ext_crypto_secp256k1_ecdsa_recover_version_2",
			"ext_crypto_secp256k1_ecdsa_recover_compressed_version_1", "ext_crypto_secp256k1_ecdsa_recover_compressed_version_2"} {
			compressed := bytes.Contains([]byte(name), []byte("compressed"))
			for _, c := range rcases {
				r.Add("evaluations", 1)
				r.Distinct(name + c.Class + c.Note)
				// r or s >= N: version_1 of Substrate parses "overflowing" (reduces mod N); not judged there
				var rs, ss dcr.ModNScalar
				overflow := rs.SetByteSlice(c.Sig[:32])
				overflow = ss.SetByteSlice(c.Sig[32:64]) || overflow
				g := c29Guest()
				sp, mp := g.Put(c.Sig), g.Put(c.Msg)
				var out uint64
				panicked, pmsg := verifmc.Guard(func() {
					switch name {
					case "ext_crypto_secp256k1_ecdsa_recover_version_1":
						out = ext_crypto_secp256k1_ecdsa_recover_version_1(g.Ctx, g.Mod, sp, mp)
					case "ext_crypto_secp256k1_ecdsa_recover_version_2":
						out = ext_crypto_secp256k1_ecdsa_recover_version_2(g.Ctx, g.Mod, sp, mp)
					case "ext_crypto_secp256k1_ecdsa_recover_compressed_version_1":
						out = ext_crypto_secp256k1_ecdsa_recover_compressed_version_1(g.Ctx, g.Mod, sp, mp)
					default:
						out = ext_crypto_secp256k1_ecdsa_recover_compressed_version_2(g.Ctx, g.Mod, sp, mp)
					}
				})
				enc, okRead := g.GetSpan(out)
				g.Close()
				if panicked {
					r.Outcome(name + " panic")
					r.Violate(name+":panic:"+verifmc.PanicSite(pmsg), pmsg, c.replay(name))
					continue
				}
				if overflow && name[len(name)-1] == '1' {
					r.Add("executed_not_judged", 1)
					r.Outcome(name + " r or s >= N (not judged for version_1)")
					continue
				}
				wantPK, wantOK := refRecover(c.Msg, c.Sig, true)
				var wantKey []byte
				if wantOK {
					if compressed {
						wantKey = wantPK.SerializeCompressed()
					} else {
						wantKey = wantPK.SerializeUncompressed()[1:]
					}
				}
				rep := c.replay(name)
				rep["result_hex"] = verifmc.Hex(enc)
				gotOK := okRead && len(enc) >= 1 && enc[0] == 0
				switch {
				case !okRead || len(enc) == 0 || enc[0] > 1:
					r.Outcome(name + " malformed result")
					r.Violate(name+":malformed-result", "the returned span is not a SCALE Result", rep)
				case wantOK && !gotOK:
					r.Outcome(fmt.Sprintf("%s %s: reference recovers, host returns Err", name, c.Class))
					r.Violate(name+":fails-where-reference-recovers:"+c.Class, "Err returned", rep)
				case !wantOK && gotOK:
					r.Outcome(fmt.Sprintf("%s %s: reference fails, host returns Ok", name, c.Class))
					r.Violate(name+":recovers-where-reference-fails:"+c.Class, "Ok returned", rep)
				case wantOK && !bytes.Equal(enc[1:], wantKey):
					r.Outcome(fmt.Sprintf("%s %s: different key", name, c.Class))
					rep["want_key"] = verifmc.Hex(wantKey)
					r.Violate(name+":recovers-a-different-key:"+c.Class, "Ok(key) differs from the reference key", rep)
				default:
					r.Outcome(fmt.Sprintf("%s %s: agree (recovered=%v, Err encoding %d bytes)", name, c.Class, wantOK, len(enc)))
				}
			}
		}
	}
}
