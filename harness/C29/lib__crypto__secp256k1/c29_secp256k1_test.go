//go:build verif

package secp256k1

// C29 part 3: secp256k1 ECDSA verification and public-key recovery agree with an independent
// implementation (decred dcrec/secp256k1 v4, pure Go; gossamer goes through go-ethereum's cgo
// binding of libsecp256k1) on honest, tampered and malformed inputs.

import (
	"bytes"
	"fmt"
	"math/big"
	"testing"

	"github.com/ChainSafe/gossamer/internal/verifmc"
	dcr "github.com/decred/dcrd/dcrec/secp256k1/v4"
	dcrecdsa "github.com/decred/dcrd/dcrec/secp256k1/v4/ecdsa"
)

var c29N, _ = new(big.Int).SetString("fffffffffffffffffffffffffffffffebaaedce6af48a03bbfd25e8cd0364141", 16)

func c29B32(x *big.Int) []byte {
	out := make([]byte, 32)
	x.FillBytes(out)
	return out
}

// c29RefVerify is textbook ECDSA verification (no low-s rule) by decred; wellFormed is false when
// key, r or s cannot be parsed (wrong length, not on curve, 0, >= N).
func c29RefVerify(pub, msg, sig []byte) (ok, wellFormed, highS bool) {
	if len(sig) != 64 || len(msg) != 32 {
		return false, false, false
	}
	pk, err := dcr.ParsePubKey(pub)
	if err != nil || len(pub) != 33 {
		return false, false, false
	}
	var r, s dcr.ModNScalar
	if r.SetByteSlice(sig[:32]) || s.SetByteSlice(sig[32:]) || r.IsZero() || s.IsZero() {
		return false, false, false
	}
	return dcrecdsa.NewSignature(&r, &s).Verify(msg, pk), true, s.IsOverHalfOrder()
}

// c29RefRecover: recovery id v (after the Substrate rule v>26 => v-27) must be 0..3; returns the
// uncompressed key.
func c29RefRecover(msg, sig []byte) ([]byte, bool) {
	if len(sig) != 65 || len(msg) != 32 {
		return nil, false
	}
	v := sig[64]
	if v > 26 {
		v -= 27
	}
	if v > 3 {
		return nil, false
	}
	compact := append([]byte{27 + v}, sig[:64]...)
	pk, _, err := dcrecdsa.RecoverCompact(compact, msg)
	if err != nil {
		return nil, false
	}
	return pk.SerializeUncompressed(), true
}

type c29Case struct {
	Class, Note   string
	Pub, Msg, Sig []byte
}

func (c c29Case) replay() map[string]any {
	return map[string]any{"class": c.Class, "note": c.Note, "public_key": verifmc.Hex(c.Pub), "message_hash": verifmc.Hex(c.Msg), "signature": verifmc.Hex(c.Sig)}
}

func c29Flip(b []byte, bit int) []byte {
	o := append([]byte{}, b...)
	o[bit/8] ^= 1 << (bit % 8)
	return o
}

func c29Hashes() [][]byte {
	h := make([]byte, 32)
	for i := range h {
		h[i] = byte(i*5 + 1)
	}
	return [][]byte{h, make([]byte, 32), bytes.Repeat([]byte{0xff}, 32), c29B32(c29N), c29B32(big.NewInt(1))}
}

func c29Privs() [][]byte {
	p := make([]byte, 32)
	for i := range p {
		p[i] = byte(i + 1)
	}
	return [][]byte{p, c29B32(big.NewInt(1)), c29B32(big.NewInt(2)), c29B32(new(big.Int).Sub(c29N, big.NewInt(1)))}
}

type c29Honest struct {
	pub33, pub65, msg, sig65 []byte
	by                     string
}

func c29HonestSet(t *testing.T) []c29Honest {
	var out []c29Honest
	for pi, pb := range c29Privs() {
		priv, err := NewPrivateKey(pb)
		if err != nil {
			t.Fatalf("private key: %v", err)
		}
		kp, err := NewKeypairFromPrivate(priv)
		if err != nil {
			t.Fatalf("keypair: %v", err)
		}
		dpriv := dcr.PrivKeyFromBytes(pb)
		pub33 := dpriv.PubKey().SerializeCompressed()
		if !bytes.Equal(pub33, kp.Public().Encode()) {
			t.Fatalf("public key of private key #%d: gossamer %x, reference %x", pi, kp.Public().Encode(), pub33)
		}
		for _, msg := range c29Hashes() {
			sig, err := kp.Sign(msg)
			if err != nil {
				t.Fatalf("sign: %v", err)
			}
			out = append(out, c29Honest{pub33, dpriv.PubKey().SerializeUncompressed(), msg, sig, "gossamer"})
			// signed by the reference: [27+v+4 | r | s] -> r | s | v
			c := dcrecdsa.SignCompact(dpriv, msg, true)
			rsv := append(append([]byte{}, c[1:]...), (c[0]-27)&3)
			out = append(out, c29Honest{pub33, dpriv.PubKey().SerializeUncompressed(), msg, rsv, "reference"})
		}
	}
	return out
}

func c29SpecialScalars() map[string][]byte {
	return map[string][]byte{
		"0": make([]byte, 32), "1": c29B32(big.NewInt(1)), "N-1": c29B32(new(big.Int).Sub(c29N, big.NewInt(1))), "N": c29B32(c29N),
		"N+1": c29B32(new(big.Int).Add(c29N, big.NewInt(1))), "2^256-1": bytes.Repeat([]byte{0xff}, 32),
		"(N-1)/2": c29B32(new(big.Int).Rsh(c29N, 1)), "(N+1)/2": c29B32(new(big.Int).Add(new(big.Int).Rsh(c29N, 1), big.NewInt(1))),
	}
}

var c29SpecialOrder = []string{"0", "1", "(N-1)/2", "(N+1)/2", "N-1", "N", "N+1", "2^256-1"}

func c29HighSTwin(sig65 []byte) []byte {
	s := new(big.Int).SetBytes(sig65[32:64])
	o := append([]byte{}, sig65...)
	copy(o[32:64], c29B32(new(big.Int).Sub(c29N, s)))
	o[64] ^= 1
	return o
}

func TestVerif_C29_secp256k1(t *testing.T) {
	r := verifmc.NewReport("C29", "secp256k1-verify-recover", "exploration")
	defer r.Write()
	r.Rule = "4 private keys (1, 2, N-1, 01..20) x 5 message hashes (pattern, 00.., ff.., N, 1), each signed by gossamer and by the reference; " +
		"verify: honest, the (r, N-s) twin, every single-bit flip of signature / hash / compressed key of chosen triples, r and s from {0,1,(N-1)/2,(N+1)/2,N-1,N,N+1,2^256-1}, " +
		"signature lengths 0..66, hash lengths 0..33, key lengths 0..34 and every first byte 00..ff of the key; recover (plain and compressed): every recovery byte 0..255, the twin with flipped parity, " +
		"every single-bit flip of r|s and of the hash for recovery ids 0..3, the special r/s values, signature lengths 0..66 and hash lengths 0..33. Reference: decred secp256k1 v4. " +
		"High-s signatures that textbook ECDSA accepts are executed but not judged for Verify (the statement does not say which rule Substrate's verifier applies to a 64-byte signature). " +
		"A case is non-trivial when it is not an unmodified honest triple"
	r.Assumption("reference: github.com/decred/dcrd/dcrec/secp256k1/v4 (pure Go), independent of go-ethereum's cgo libsecp256k1 binding used by gossamer")
	honest := c29HonestSet(t)
	special := c29SpecialScalars()

	// ---------- Verify ----------
	var vc []c29Case
	for i, h := range honest {
		vc = append(vc, c29Case{"verify/honest-" + h.by, fmt.Sprintf("honest #%d", i), h.pub33, h.msg, h.sig65[:64]})
		vc = append(vc, c29Case{"verify/high-s-twin", fmt.Sprintf("honest #%d with s replaced by N-s", i), h.pub33, h.msg, c29HighSTwin(h.sig65)[:64]})
	}
	for _, hi := range verifmc.Pick([]int{0, 13}, []int{0, 1, 13, 22, 35}) {
		h := honest[hi]
		for b := 0; b < 512; b++ {
			vc = append(vc, c29Case{"verify/bit-flip-sig", fmt.Sprintf("honest #%d signature bit %d", hi, b), h.pub33, h.msg, c29Flip(h.sig65[:64], b)})
		}
		for b := 0; b < 256; b++ {
			vc = append(vc, c29Case{"verify/bit-flip-hash", fmt.Sprintf("honest #%d hash bit %d", hi, b), h.pub33, c29Flip(h.msg, b), h.sig65[:64]})
		}
		for b := 0; b < 264; b++ {
			vc = append(vc, c29Case{"verify/bit-flip-key", fmt.Sprintf("honest #%d key bit %d", hi, b), c29Flip(h.pub33, b), h.msg, h.sig65[:64]})
		}
		for first := 0; first < 256; first++ {
			k := append([]byte{}, h.pub33...)
			k[0] = byte(first)
			vc = append(vc, c29Case{"verify/key-prefix", fmt.Sprintf("honest #%d key first byte %#x", hi, first), k, h.msg, h.sig65[:64]})
		}
	}
	h0 := honest[0]
	for _, rn := range c29SpecialOrder {
		for _, sn := range c29SpecialOrder {
			vc = append(vc, c29Case{"verify/special-r-s", "r=" + rn + " s=" + sn, h0.pub33, h0.msg, append(append([]byte{}, special[rn]...), special[sn]...)})
		}
		vc = append(vc, c29Case{"verify/special-r", "r=" + rn + ", honest s", h0.pub33, h0.msg, append(append([]byte{}, special[rn]...), h0.sig65[32:64]...)})
		vc = append(vc, c29Case{"verify/special-s", "honest r, s=" + rn, h0.pub33, h0.msg, append(append([]byte{}, h0.sig65[:32]...), special[rn]...)})
	}
	for n := 0; n <= 66; n++ {
		if n != 64 {
			s := make([]byte, n)
			copy(s, h0.sig65)
			vc = append(vc, c29Case{"verify/sig-length", fmt.Sprintf("signature length %d", n), h0.pub33, h0.msg, s})
		}
	}
	for n := 0; n <= 33; n++ {
		if n != 32 {
			m := make([]byte, n)
			copy(m, h0.msg)
			vc = append(vc, c29Case{"verify/hash-length", fmt.Sprintf("hash length %d", n), h0.pub33, m, h0.sig65[:64]})
		}
	}
	for n := 0; n <= 34; n++ {
		if n != 33 {
			k := make([]byte, n)
			copy(k, h0.pub33)
			vc = append(vc, c29Case{"verify/key-length", fmt.Sprintf("key length %d", n), k, h0.msg, h0.sig65[:64]})
		}
	}
	for i, c := range vc {
		c := c
		r.Add("evaluations", 1)
		if i >= 2*len(honest) || i%2 == 1 {
			r.Distinct(fmt.Sprintf("v%d", i))
		}
		wantOK, wellFormed, highS := c29RefVerify(c.Pub, c.Msg, c.Sig)
		var got bool
		how := "verdict"
		panicked, pmsg := verifmc.Guard(func() {
			pk := new(PublicKey)
			if err := pk.Decode(append([]byte{}, c.Pub...)); err != nil {
				got, how = false, "key-rejected"
				return
			}
			ok, err := pk.Verify(append([]byte{}, c.Msg...), append([]byte{}, c.Sig...))
			if err != nil {
				ok, how = false, "error"
			}
			got = ok
			// the package-level entry point must agree (it takes the raw key bytes)
			if err2 := VerifySignature(append([]byte{}, c.Pub...), append([]byte{}, c.Sig...), append([]byte{}, c.Msg...)); (err2 == nil) != got && len(c.Msg) == 32 && len(c.Sig) == 64 {
				r.Violate("secp256k1:verify-entry-points-disagree", fmt.Sprintf("PublicKey.Verify=%v VerifySignature error=%v", got, err2), c.replay())
			}
		})
		if panicked {
			r.Outcome(c.Class + " -> panic")
			r.Violate("secp256k1.Verify:panic:"+verifmc.PanicSite(pmsg), pmsg, c.replay())
			continue
		}
		if wantOK && highS {
			r.Add("executed_not_judged", 1)
			r.Outcome(fmt.Sprintf("%s: textbook accepts high-s, gossamer=%v (not judged)", c.Class, got))
			continue
		}
		r.Outcome(fmt.Sprintf("%s: reference=%v(wellformed=%v) gossamer=%v(%s)", c.Class, wantOK, wellFormed, got, how))
		switch {
		case wantOK && !got:
			r.Violate("secp256k1.Verify:rejects-valid:"+c.Class, "the reference accepts, gossamer rejects ("+how+")", c.replay())
		case !wantOK && got:
			shape := "equation-fails"
			if !wellFormed {
				shape = "malformed-input"
			}
			r.Violate("secp256k1.Verify:accepts-invalid:"+shape, "the reference rejects, gossamer accepts", c.replay())
		}
	}

	// ---------- Recover ----------
	var rc []c29Case
	for i, h := range honest {
		rc = append(rc, c29Case{"recover/honest-" + h.by, fmt.Sprintf("honest #%d", i), h.pub65, h.msg, h.sig65})
		rc = append(rc, c29Case{"recover/high-s-twin", fmt.Sprintf("honest #%d with (r, N-s, v^1)", i), h.pub65, h.msg, c29HighSTwin(h.sig65)})
	}
	for _, hi := range verifmc.Pick([]int{0, 13}, []int{0, 1, 13, 22, 35}) {
		h := honest[hi]
		for v := 0; v < 256; v++ {
			s := append([]byte{}, h.sig65...)
			s[64] = byte(v)
			rc = append(rc, c29Case{"recover/recovery-byte", fmt.Sprintf("honest #%d (v=%d) with recovery byte %d", hi, h.sig65[64], v), h.pub65, h.msg, s})
		}
		for v := 0; v < 4; v++ {
			for b := 0; b < 512; b++ {
				s := c29Flip(h.sig65, b)
				s[64] = byte(v)
				rc = append(rc, c29Case{"recover/bit-flip-sig", fmt.Sprintf("honest #%d signature bit %d, recovery id %d", hi, b, v), h.pub65, h.msg, s})
			}
		}
		for b := 0; b < 256; b++ {
			rc = append(rc, c29Case{"recover/bit-flip-hash", fmt.Sprintf("honest #%d hash bit %d", hi, b), h.pub65, c29Flip(h.msg, b), h.sig65})
		}
	}
	for _, rn := range c29SpecialOrder {
		for _, sn := range c29SpecialOrder {
			for v := 0; v < 4; v++ {
				rc = append(rc, c29Case{"recover/special-r-s", fmt.Sprintf("r=%s s=%s v=%d", rn, sn, v), h0.pub65, h0.msg, append(append(append([]byte{}, special[rn]...), special[sn]...), byte(v))})
			}
		}
		for v := 0; v < 4; v++ {
			rc = append(rc, c29Case{"recover/special-r", fmt.Sprintf("r=%s, honest s, v=%d", rn, v), h0.pub65, h0.msg, append(append(append([]byte{}, special[rn]...), h0.sig65[32:64]...), byte(v))})
			rc = append(rc, c29Case{"recover/special-s", fmt.Sprintf("honest r, s=%s, v=%d", rn, v), h0.pub65, h0.msg, append(append(append([]byte{}, h0.sig65[:32]...), special[rn]...), byte(v))})
		}
	}
	for n := 0; n <= 66; n++ {
		if n != 65 {
			s := make([]byte, n)
			copy(s, h0.sig65)
			rc = append(rc, c29Case{"recover/sig-length", fmt.Sprintf("signature length %d", n), h0.pub65, h0.msg, s})
		}
	}
	for n := 0; n <= 33; n++ {
		if n != 32 {
			m := make([]byte, n)
			copy(m, h0.msg)
			rc = append(rc, c29Case{"recover/hash-length", fmt.Sprintf("hash length %d", n), h0.pub65, m, h0.sig65})
		}
	}
	for i, c := range rc {
		r.Add("evaluations", 1)
		if i >= 2*len(honest) || i%2 == 1 {
			r.Distinct(fmt.Sprintf("r%d", i))
		}
		want, wantOK := c29RefRecover(c.Msg, c.Sig)
		for _, compressed := range []bool{false, true} {
			fn := "RecoverPublicKey"
			wantKey := want
			if compressed {
				fn = "RecoverPublicKeyCompressed"
				if wantOK {
					pk, _ := dcr.ParsePubKey(want)
					wantKey = pk.SerializeCompressed()
				}
			}
			var got []byte
			var err error
			panicked, pmsg := verifmc.Guard(func() {
				if compressed {
					got, err = RecoverPublicKeyCompressed(append([]byte{}, c.Msg...), append([]byte{}, c.Sig...))
				} else {
					got, err = RecoverPublicKey(append([]byte{}, c.Msg...), append([]byte{}, c.Sig...))
				}
			})
			rep := c.replay()
			rep["function"] = fn
			switch {
			case panicked:
				r.Outcome(fmt.Sprintf("%s %s -> panic", fn, c.Class))
				shape := verifmc.PanicSite(pmsg)
				if len(c.Sig) < 65 {
					shape = "signature-shorter-than-65-bytes"
				}
				r.Violate(fn+":panic:"+shape, pmsg, rep)
			case wantOK && err != nil:
				r.Outcome(fmt.Sprintf("%s %s: reference recovers, gossamer fails", fn, c.Class))
				r.Violate(fn+":fails-where-reference-recovers:"+c.Class, err.Error(), rep)
			case !wantOK && err == nil:
				r.Outcome(fmt.Sprintf("%s %s: reference fails, gossamer recovers", fn, c.Class))
				rep["got"] = verifmc.Hex(got)
				r.Violate(fn+":recovers-where-reference-fails:"+c.Class, "gossamer returns a key", rep)
			case wantOK && !bytes.Equal(got, wantKey):
				r.Outcome(fmt.Sprintf("%s %s: different keys", fn, c.Class))
				rep["got"], rep["want"] = verifmc.Hex(got), verifmc.Hex(wantKey)
				r.Violate(fn+":recovers-a-different-key:"+c.Class, "keys differ", rep)
			default:
				isSigner := wantOK && bytes.Equal(want, c.Pub)
				r.Outcome(fmt.Sprintf("%s %s: agree (recovered=%v signer=%v)", fn, c.Class, wantOK, isSigner))
			}
		}
	}
	r.Sample(vc[0].replay())
	r.Sample(vc[1].replay())
	r.Sample(rc[1].replay())
}
