//go:build verif

package storage

// C08: runtime storage transactions are transparent and roll back exactly.
//
// Explicit-state BFS over histories of main/child storage operations interleaved with nested
// StartTransaction/CommitTransaction/RollbackTransaction on the real TrieState (over a real
// InMemoryTrie), stepped in lock-step with ref.C08Overlay (stack of full overlay copies over a
// backend, sp-state-machine semantics, see engine/ref/c08_overlaymodel.go).
//
// After every operation
//  (1) the return values of limited clears are compared where the semantics are unambiguous,
//  (2) the *denotation* of the private state of the real object (backend + every open
//      transaction's storageDiff, read field by field, not through the observers) is compared with
//      the model at EVERY nesting level (so a rollback must restore exactly the state at the
//      matching start),
//  (3) every observer of the statement is evaluated on every alphabet key/prefix and compared with
//      the model's current view,
//  (4) with no transaction open the state root is compared with the spec root of the model.
// A mismatch is reported (soft) with a signature naming its exact shape, the model is
// re-synchronised with the real object and exploration continues.

import (
	"bytes"
	"encoding/binary"
	"errors"
	"fmt"
	"sort"
	"strings"
	"testing"
	"time"

	"github.com/ChainSafe/gossamer/internal/verifmc"
	"github.com/ChainSafe/gossamer/internal/verifmc/ref"
	"github.com/ChainSafe/gossamer/pkg/trie"
	"github.com/ChainSafe/gossamer/pkg/trie/inmemory"
)

const c08Child = "c1"

var c08ChildPrefix = string(inmemory.ChildStorageKeyPrefix)

// Alphabet.  All keys of one namespace have the same length and no prefix has a zero low nibble,
// so none of the recorded InMemoryTrie defects (KF-TRIE-*) can be triggered.
var (
	c08MainKeys      = []string{"c1", "k1", "k2", "k3"}
	c08ChildKeys     = []string{"k1", "k2"}
	c08MainPrefixes  = []string{"k", "k1", "c"}
	c08ChildPrefixes = []string{"k", "k1"}
	c08ListPrefixes  = []string{"", "k", "k1"}
	c08ChildProbes   = []string{"j", "k1", "k2"} // next-key arguments ("j" sorts before every key)
)

type c08Op struct {
	kind  string
	k     string
	v     []byte
	limit int // -1: none
}

func (o c08Op) Name() string {
	switch o.kind {
	case "put":
		return fmt.Sprintf("put(%s,%x)", o.k, o.v)
	case "delete", "clearPrefix":
		return fmt.Sprintf("%s(%s)", o.kind, o.k)
	case "clearPrefixLimit":
		return fmt.Sprintf("clearPrefixLimit(%s,%d)", o.k, o.limit)
	case "setChild":
		return fmt.Sprintf("setChild(%s,%s,%x)", c08Child, o.k, o.v)
	case "clearChild":
		return fmt.Sprintf("clearChild(%s,%s)", c08Child, o.k)
	case "deleteChild":
		return fmt.Sprintf("deleteChild(%s)", c08Child)
	case "deleteChildLimit":
		if o.limit < 0 {
			return fmt.Sprintf("deleteChildLimit(%s,nil)", c08Child)
		}
		return fmt.Sprintf("deleteChildLimit(%s,%d)", c08Child, o.limit)
	case "clearPrefixInChild":
		return fmt.Sprintf("clearPrefixInChild(%s,%s)", c08Child, o.k)
	case "clearPrefixInChildLimit":
		return fmt.Sprintf("clearPrefixInChildLimit(%s,%s,%d)", c08Child, o.k, o.limit)
	}
	if o.kind == "init" {
		return "init(populated)"
	}
	return o.kind
}

type c08State struct {
	ts   *TrieState
	m    *ref.C08Overlay
	soft []verifmc.Violation
	// outcome classes seen while applying (drained into the report by the harness)
	outcomes []string
	// the exploration from the pre-populated state starts with the pseudo operation init(populated)
	needInit, inited bool
}

func (s *c08State) softf(sig, format string, a ...any) {
	s.soft = append(s.soft, verifmc.Violation{Sig: sig, Desc: fmt.Sprintf(format, a...)})
}

func c08TxTag(inTx bool) string {
	if inTx {
		return "[tx]"
	}
	return "[notx]"
}

// ---------------------------------------------------------------------------------------------
// Private state of the real object -> model (phi).  Reads the raw maps; no observer is called.

// c08HasMarker: the innermost open transaction marks the child's *name* deleted in the shared deletes map.
func c08HasMarker(ts *TrieState) bool {
	e := ts.transactions.Back()
	return e != nil && e.Value.(*storageDiff).deletes[c08Child]
}

// c08BothMarks: child keys that the innermost storageDiff holds both as an upsert and as a deletion
// (reads see the upsert, applyToTrie applies the deletion last).
func c08BothMarks(ts *TrieState) map[string]bool {
	out := map[string]bool{}
	e := ts.transactions.Back()
	if e == nil {
		return out
	}
	cd := e.Value.(*storageDiff).childChangeSet[c08Child]
	if cd == nil {
		return out
	}
	for k := range cd.upserts {
		if cd.deletes[k] {
			out[k] = true
		}
	}
	return out
}

func c08Phi(ts *TrieState) *ref.C08Overlay { return c08PhiOpt(ts, true) }

// c08PhiOpt reads the private state.  withMarker: interpret a deletion mark on the child's *name* as
// "the child is killed" (what the listing observers and applyToTrie do with it).
func c08PhiOpt(ts *TrieState, withMarker bool) *ref.C08Overlay {
	m := ref.C08New()
	for k, v := range ts.state.Entries() {
		if strings.HasPrefix(k, c08ChildPrefix) {
			name := k[len(c08ChildPrefix):]
			child, _ := ts.state.GetChild([]byte(name))
			if child != nil {
				ents := child.Entries()
				if len(ents) > 0 {
					m.BChild[name] = ref.OMap(ents).Clone()
				}
			}
			continue
		}
		m.BMain[k] = append([]byte{}, v...)
	}
	for e := ts.transactions.Front(); e != nil; e = e.Next() {
		d := e.Value.(*storageDiff)
		l := &ref.C08Layer{Main: map[string]ref.C08Entry{}, Child: map[string]map[string]ref.C08Entry{}}
		for k, del := range d.deletes {
			if del {
				l.Main[k] = ref.C08Entry{}
			}
		}
		for k, v := range d.upserts {
			l.Main[k] = ref.C08Entry{Present: true, Val: append([]byte{}, v...)}
		}
		for c, cd := range d.childChangeSet {
			if l.Child[c] == nil {
				l.Child[c] = map[string]ref.C08Entry{}
			}
			for k, del := range cd.deletes {
				if del {
					l.Child[c][k] = ref.C08Entry{}
				}
			}
			// a key held both as upsert and as deletion reads as the upsert (storageDiff.get)
			for k, v := range cd.upserts {
				l.Child[c][k] = ref.C08Entry{Present: true, Val: append([]byte{}, v...)}
			}
		}
		// The deletes map is shared by main keys and child names: a mark on the child's name is
		// what DeleteChild leaves behind; applyToTrie then removes the whole child (after the child
		// changes), and the child listing observers report the child as missing.
		if withMarker && d.deletes[c08Child] {
			if l.Child[c08Child] == nil {
				l.Child[c08Child] = map[string]ref.C08Entry{}
			}
			for k := range m.BChild[c08Child] {
				l.Child[c08Child][k] = ref.C08Entry{}
			}
			for k := range l.Child[c08Child] {
				l.Child[c08Child][k] = ref.C08Entry{}
			}
		}
		m.Txs = append(m.Txs, l)
	}
	return m
}

// ---------------------------------------------------------------------------------------------
// Comparison of denotations.

type c08Diff struct {
	level              int    // 0 = backend, i = i-th open transaction
	ns                 string // "main" or "child"
	lost, extra, wrong []string
}

func c08MapDiff(want, got ref.OMap) (lost, extra, wrong []string) {
	for _, k := range want.Keys() {
		g, ok := got[k]
		if !ok {
			lost = append(lost, k)
		} else if !bytes.Equal(g, want[k]) {
			wrong = append(wrong, k)
		}
	}
	for _, k := range got.Keys() {
		if _, ok := want[k]; !ok {
			extra = append(extra, k)
		}
	}
	return
}

func c08ModelDiff(want, got *ref.C08Overlay) []c08Diff {
	var out []c08Diff
	for lvl := 0; lvl <= want.Depth(); lvl++ {
		l, e, w := c08MapDiff(want.MainViewAt(lvl), got.MainViewAt(lvl))
		if len(l)+len(e)+len(w) > 0 {
			out = append(out, c08Diff{lvl, "main", l, e, w})
		}
		l, e, w = c08MapDiff(want.ChildViewAt(lvl, c08Child), got.ChildViewAt(lvl, c08Child))
		if len(l)+len(e)+len(w) > 0 {
			out = append(out, c08Diff{lvl, "child", l, e, w})
		}
	}
	return out
}

// c08KeyClass names the role a key had in the state *before* the operation (namespace ns):
// only in the overlay, only in the backend, in the backend and overwritten / deleted by the overlay.
func c08KeyClass(before *ref.C08Overlay, ns, k string) string {
	var b ref.OMap
	var ov map[string]ref.C08Entry
	if ns == "main" {
		b = before.BMain
		if before.InTx() {
			ov = before.Txs[before.Depth()-1].Main
		}
	} else {
		b = before.BChild[c08Child]
		if before.InTx() {
			ov = before.Txs[before.Depth()-1].Child[c08Child]
		}
	}
	_, inB := b[k]
	e, inO := ov[k]
	switch {
	case inO && e.Present && inB:
		return "backend-key-overwritten-in-overlay"
	case inO && e.Present:
		return "overlay-only-key"
	case inO && inB:
		return "backend-key-deleted-in-overlay"
	case inO:
		return "deleted-overlay-only-key"
	case inB:
		return "backend-key"
	}
	return "absent-key"
}

// c08Pre is what is read from the real object before an operation, for the explanation of mismatches.
type c08Pre struct {
	marker    bool            // the child's name carries a deletion mark in the innermost transaction
	bothMarks map[string]bool // child keys held both as upsert and as deletion
	noMarker  *ref.C08Overlay // denotation with the mark on the child's name ignored
}

func c08ReadPre(ts *TrieState) c08Pre {
	p := c08Pre{bothMarks: c08BothMarks(ts), noMarker: c08PhiOpt(ts, false)}
	if e := ts.transactions.Back(); e != nil {
		p.marker = e.Value.(*storageDiff).deletes[c08Child]
	}
	return p
}

// c08AltClear is the overlay clear with up to three named deviations from the pinned semantics:
//
//	skipEq:     the backend key equal to the prefix is not found,
//	stop:       the walk over the sorted union of overlay and backend keys stops when the limit is
//	            exhausted, so overlay keys sorting after that point survive (all of them for limit 0),
//	notCounted: a backend key that the overlay has overwritten does not count towards the limit.
//
// With all three false it is the pinned semantics (checked against the model at run time).
func c08AltClear(backend ref.OMap, ovIn map[string]ref.C08Entry, prefix string, limit int, skipEq, stop, notCounted bool) ref.OMap {
	ov := map[string]ref.C08Entry{}
	for k, e := range ovIn {
		ov[k] = e
	}
	inB := func(k string) bool {
		_, ok := backend[k]
		return ok && !(skipEq && k == prefix)
	}
	set := map[string]bool{}
	for k := range backend {
		if strings.HasPrefix(k, prefix) && inB(k) {
			set[k] = true
		}
	}
	for k, e := range ov {
		if strings.HasPrefix(k, prefix) && e.Present {
			set[k] = true
		}
	}
	var keys []string
	for k := range set {
		keys = append(keys, k)
	}
	sort.Strings(keys)
	remaining := limit // < 0: unlimited
	for _, k := range keys {
		inO := ov[k].Present
		if remaining == 0 {
			if stop {
				break
			}
			if !inO {
				continue // backend key beyond the limit stays
			}
		}
		ov[k] = ref.C08Entry{}
		if inB(k) && remaining > 0 && !(notCounted && inO) {
			remaining--
		}
	}
	v := ref.OMap{}
	for k, x := range backend {
		v[k] = x
	}
	for k, e := range ov {
		if e.Present {
			v[k] = e.Val
		} else {
			delete(v, k)
		}
	}
	return v
}

func c08SameKeys(a, b ref.OMap) bool {
	l, e, w := c08MapDiff(a, b)
	return len(l)+len(e)+len(w) == 0
}

// c08ExplainClear finds the smallest set of the named deviations that reproduces the real view.
func c08ExplainClear(before *ref.C08Overlay, ns, prefix string, limit int, want, got ref.OMap) string {
	var backend ref.OMap
	var ov map[string]ref.C08Entry
	top := before.Txs[before.Depth()-1]
	if ns == "main" {
		backend, ov = before.BMain, top.Main
	} else {
		backend, ov = before.BChild[c08Child], top.Child[c08Child]
		if backend == nil {
			backend = ref.OMap{}
		}
	}
	if !c08SameKeys(c08AltClear(backend, ov, prefix, limit, false, false, false), want) {
		panic("c08: c08AltClear without deviations differs from the model")
	}
	names := []string{"backend-key-equal-to-the-prefix-survives", "overlay-keys-survive-once-the-limit-is-exhausted", "overwritten-backend-key-not-counted-towards-the-limit"}
	best := ""
	bestN := 99
	for mask := 1; mask < 8; mask++ {
		if limit < 0 && mask&6 != 0 {
			continue
		}
		if c08SameKeys(c08AltClear(backend, ov, prefix, limit, mask&1 != 0, mask&2 != 0, mask&4 != 0), got) {
			var p []string
			for i := 0; i < 3; i++ {
				if mask&(1<<i) != 0 {
					p = append(p, names[i])
				}
			}
			if len(p) < bestN {
				bestN = len(p)
				best = strings.Join(p, "+")
			}
		}
	}
	return best
}

// c08Classify builds the signature of a state mismatch after a mutator from the mismatch itself:
// every differing namespace is either explained completely by a named deviation (the candidate
// semantics reproduces the real contents exactly) or rendered as generic flags (catch-all).
func c08Classify(o c08Op, before, want, got *ref.C08Overlay, pre c08Pre, diffs []c08Diff) string {
	cur := want.Depth()
	inTx := before.InTx()
	var parts []string
	generic := func(d c08Diff) {
		where := d.ns
		if d.level != cur {
			where = "enclosing-level-" + d.ns // a level that only a later rollback/commit exposes
		}
		add := func(dir string, keys []string) {
			for _, k := range keys {
				cls := c08KeyClass(before, d.ns, k)
				q := ""
				if d.ns == "main" && k == c08Child {
					q = "~named-like-the-child"
				}
				parts = append(parts, where+":"+dir+":"+cls+q)
			}
		}
		add("lost", d.lost)
		add("kept", d.extra)
		add("wrong-value", d.wrong)
	}
	mainClear := o.kind == "clearPrefix" || o.kind == "clearPrefixLimit"
	childClear := o.kind == "clearPrefixInChild" || o.kind == "clearPrefixInChildLimit" || o.kind == "deleteChild" || o.kind == "deleteChildLimit"
	only := func(keys []string, k string) bool { return len(keys) == 1 && keys[0] == k }
	for _, d := range diffs {
		if d.level != cur {
			generic(d)
			continue
		}
		gotView, wantView := got.MainViewAt(cur), want.MainViewAt(cur)
		if d.ns == "child" {
			gotView, wantView = got.ChildViewAt(cur, c08Child), want.ChildViewAt(cur, c08Child)
		}
		switch {
		case inTx && mainClear && d.ns == "main", inTx && childClear && d.ns == "child":
			prefix, limit := o.k, o.limit
			if o.kind == "deleteChild" || o.kind == "deleteChildLimit" {
				prefix = ""
			}
			if o.kind == "clearPrefix" || o.kind == "clearPrefixInChild" || o.kind == "deleteChild" {
				limit = -1
			}
			if ex := c08ExplainClear(before, d.ns, prefix, limit, wantView, gotView); ex != "" {
				parts = append(parts, ex)
			} else {
				generic(d)
			}
		case inTx && d.ns == "child" && (mainClear || (o.kind == "delete" && o.k == c08Child)) && len(gotView) == 0 && !pre.marker:
			// the main key named like the child got its deletion mark, and with it the child
			parts = append(parts, "name-collision:deleting-the-main-key-named-like-the-child-kills-the-child")
		case inTx && d.ns == "main" && childClear && only(d.lost, c08Child) && len(d.extra)+len(d.wrong) == 0:
			parts = append(parts, "name-collision:killing-the-child-deletes-the-main-key-named-like-it")
		case inTx && d.ns == "child" && o.kind == "put" && o.k == c08Child && pre.marker && c08SameKeys(gotView, pre.noMarker.ChildViewAt(cur, c08Child)):
			parts = append(parts, "name-collision:putting-the-main-key-named-like-the-child-revives-the-killed-child")
		case inTx && d.ns == "main" && o.kind == "setChild" && pre.marker && only(d.extra, c08Child) && len(d.lost)+len(d.wrong) == 0:
			parts = append(parts, "name-collision:writing-into-the-child-revives-the-deleted-main-key-named-like-it")
		case inTx && d.ns == "child" && o.kind == "setChild" && pre.marker && len(d.lost)+len(d.wrong) == 0:
			// candidate: the kill is forgotten, the backend keys (and pending child changes) are back
			cand := pre.noMarker.ChildViewAt(cur, c08Child)
			cand[o.k] = o.v
			if c08SameKeys(gotView, cand) {
				parts = append(parts, "writing-into-a-killed-child-revives-its-backend-keys")
			} else {
				generic(d)
			}
		case o.kind == "commit" && d.ns == "child" && len(d.extra)+len(d.wrong) == 0 && len(pre.bothMarks) > 0 && func() bool {
			for _, k := range d.lost {
				if !pre.bothMarks[k] {
					return false
				}
			}
			return true
		}():
			parts = append(parts, "child-key-deleted-then-set-in-one-transaction-is-deleted-by-the-commit")
		case o.kind == "commit" && d.ns == "main" && pre.marker && only(d.extra, c08Child) && len(d.lost)+len(d.wrong) == 0:
			parts = append(parts, "name-collision:commit-removes-the-child-instead-of-the-main-key-named-like-it")
		case !inTx && o.kind == "deleteChildLimit" && o.limit == 0 && d.ns == "child" && len(gotView) == 0:
			parts = append(parts, "limit0-deletes-every-key")
		default:
			generic(d)
		}
	}
	parts = c08Uniq(parts)
	kind := o.kind
	if o.kind == "deleteChildLimit" && o.limit < 0 {
		kind = "deleteChildLimit(nil)"
	}
	return kind + c08TxTag(inTx) + ":" + strings.Join(parts, "+")
}

func c08DiffString(diffs []c08Diff) string {
	var p []string
	for _, d := range diffs {
		lv := "backend"
		if d.level > 0 {
			lv = fmt.Sprintf("tx-level %d", d.level)
		}
		p = append(p, fmt.Sprintf("%s/%s: lost %v, wrongly kept or created %v, wrong value %v", lv, d.ns, d.lost, d.extra, d.wrong))
	}
	return strings.Join(p, "; ")
}

func c08ModelString(m *ref.C08Overlay) string {
	s := "backend main " + ref.C08MapString(m.BMain) + " child " + ref.C08MapString(m.ChildViewAt(0, c08Child))
	for i := 1; i <= m.Depth(); i++ {
		s += fmt.Sprintf(" | view@tx%d main %s child %s", i, ref.C08MapString(m.MainViewAt(i)), ref.C08MapString(m.ChildViewAt(i, c08Child)))
	}
	return s
}

// ---------------------------------------------------------------------------------------------
// Observers.

func c08ViewClass(m *ref.C08Overlay, ns, k string) string { return c08KeyClass(m, ns, k) }

func c08IsMissingChild(err error) bool { return errors.Is(err, trie.ErrChildTrieDoesNotExist) }

// c08Observe evaluates every observer of the statement against the model's current view.
func c08Observe(s *c08State) {
	m := s.m
	tag := c08TxTag(m.InTx())
	if c08HasMarker(s.ts) {
		tag += "[child-name-marked-deleted]"
	}
	mv := m.MainView()
	cv := m.ChildView(c08Child)
	ctx := func() string { return c08ModelString(m) }

	for _, k := range c08MainKeys {
		got := s.ts.Get([]byte(k))
		want, ok := mv[k]
		cls := c08ViewClass(m, "main", k)
		switch {
		case !ok && got != nil:
			s.softf("Get"+tag+":returns-a-value-for-absent:"+cls, "Get(%s) = %x, but the key is absent; %s", k, got, ctx())
		case ok && got == nil:
			s.softf("Get"+tag+":misses:"+cls, "Get(%s) = nil, want %x; %s", k, want, ctx())
		case ok && !bytes.Equal(got, want):
			s.softf("Get"+tag+":wrong-value:"+cls, "Get(%s) = %x, want %x; %s", k, got, want, ctx())
		}
		nk := s.ts.NextKey([]byte(k))
		wnk, wok := mv.NextKey(k)
		if (nk == nil) != !wok || (wok && string(nk) != wnk) {
			shape := "returns-none"
			if nk != nil {
				shape = "returns:" + c08ViewClass(m, "main", string(nk))
			}
			if wok {
				shape += ",expected:" + c08ViewClass(m, "main", wnk)
			} else {
				shape += ",expected-none"
			}
			s.softf("NextKey"+tag+":"+shape, "NextKey(%s) = %q (nil=%t), want %q (none=%t); %s", k, nk, nk == nil, wnk, !wok, ctx())
		}
	}
	// TrieEntries (main storage; the child root entries the trie keeps under :child_storage: are not
	// main storage keys of the statement and are skipped)
	{
		got := ref.OMap{}
		for k, v := range s.ts.TrieEntries() {
			if !strings.HasPrefix(k, c08ChildPrefix) {
				got[k] = v
			}
		}
		l, e, w := c08MapDiff(mv, got)
		if len(l)+len(e)+len(w) > 0 {
			var fl []string
			for _, k := range l {
				fl = append(fl, "misses:"+c08ViewClass(m, "main", k))
			}
			for _, k := range e {
				fl = append(fl, "lists-absent:"+c08ViewClass(m, "main", k))
			}
			for _, k := range w {
				fl = append(fl, "wrong-value:"+c08ViewClass(m, "main", k))
			}
			fl = c08Uniq(fl)
			s.softf("TrieEntries"+tag+":"+strings.Join(fl, "+"), "TrieEntries = %s, want %s; %s", ref.C08MapString(got), ref.C08MapString(mv), ctx())
		}
	}
	for _, k := range c08ChildKeys {
		got, err := s.ts.GetChildStorage([]byte(c08Child), []byte(k))
		if err != nil && !c08IsMissingChild(err) {
			s.softf("GetChildStorage"+tag+":unexpected-error", "GetChildStorage(%s,%s): %v", c08Child, k, err)
			continue
		}
		want, ok := cv[k]
		cls := c08ViewClass(m, "child", k)
		switch {
		case !ok && got != nil:
			s.softf("GetChildStorage"+tag+":returns-a-value-for-absent:"+cls, "GetChildStorage(%s,%s) = %x, but the key is absent; %s", c08Child, k, got, ctx())
		case ok && got == nil:
			s.softf("GetChildStorage"+tag+":misses:"+cls, "GetChildStorage(%s,%s) = nil (err %v), want %x; %s", c08Child, k, err, want, ctx())
		case ok && !bytes.Equal(got, want):
			s.softf("GetChildStorage"+tag+":wrong-value:"+cls, "GetChildStorage(%s,%s) = %x, want %x; %s", c08Child, k, got, want, ctx())
		}
	}
	for _, k := range c08ChildProbes {
		nk, err := s.ts.GetChildNextKey([]byte(c08Child), []byte(k))
		if err != nil && !c08IsMissingChild(err) {
			s.softf("GetChildNextKey"+tag+":unexpected-error", "GetChildNextKey(%s,%s): %v", c08Child, k, err)
			continue
		}
		wnk, wok := cv.NextKey(k)
		if (nk == nil) != !wok || (wok && string(nk) != wnk) {
			shape := "returns-none"
			if err != nil {
				shape = "reports-missing-child"
			}
			if nk != nil {
				shape = "returns:" + c08ViewClass(m, "child", string(nk))
			}
			if wok {
				shape += ",expected:" + c08ViewClass(m, "child", wnk)
			} else {
				shape += ",expected-none"
			}
			s.softf("GetChildNextKey"+tag+":"+shape, "GetChildNextKey(%s,%s) = %q (err %v), want %q (none=%t); %s", c08Child, k, nk, err, wnk, !wok, ctx())
		}
	}
	for _, p := range c08ListPrefixes {
		keys, err := s.ts.GetKeysWithPrefixFromChild([]byte(c08Child), []byte(p))
		if err != nil && !c08IsMissingChild(err) {
			s.softf("GetKeysWithPrefixFromChild"+tag+":unexpected-error", "GetKeysWithPrefixFromChild(%s,%q): %v", c08Child, p, err)
			continue
		}
		// the statement asks for the listed key *set*; the order of the listing is not compared
		got := ref.OMap{}
		for _, k := range keys {
			got[string(k)] = nil
		}
		want := ref.OMap{}
		for _, k := range cv.WithPrefix(p) {
			want[k] = nil
		}
		l, e, _ := c08MapDiff(want, got)
		if len(l)+len(e) > 0 || len(keys) != len(got) {
			var fl []string
			if err != nil {
				fl = append(fl, "reports-missing-child")
			}
			for _, k := range l {
				fl = append(fl, "misses:"+c08ViewClass(m, "child", k))
			}
			for _, k := range e {
				fl = append(fl, "lists-absent:"+c08ViewClass(m, "child", k))
			}
			if len(keys) != len(got) {
				fl = append(fl, "duplicates")
			}
			fl = c08Uniq(fl)
			s.softf("GetKeysWithPrefixFromChild"+tag+":"+strings.Join(fl, "+"), "GetKeysWithPrefixFromChild(%s,%q) = %q (err %v), want %q; %s", c08Child, p, keys, err, want.Keys(), ctx())
		}
	}
}

func c08Uniq(in []string) []string {
	sort.Strings(in)
	var out []string
	for i, x := range in {
		if i == 0 || x != in[i-1] {
			out = append(out, x)
		}
	}
	return out
}

// ---------------------------------------------------------------------------------------------
// Apply.

func c08LimitBytes(l int) *[]byte {
	if l < 0 {
		return nil
	}
	b := make([]byte, 4)
	binary.LittleEndian.PutUint32(b, uint32(l))
	return &b
}

// c08CmpRet compares (deleted, allDeleted) of a limited clear where the semantics are unambiguous
// (no overlay entry matches).  A mismatch is named after the deviation that reproduces the returned
// pair exactly, or "wrong-return-values".
func c08CmpRet(s *c08State, name string, inTx bool, before *ref.C08Overlay, ns, prefix string, limit int, res ref.C08ClearResult, del uint32, all bool) {
	if !res.Comparable {
		s.outcomes = append(s.outcomes, "ret-not-compared(overlay-key-matches)")
		return
	}
	flagCmp := res.FlagComparable
	if !flagCmp {
		s.outcomes = append(s.outcomes, "flag-not-compared(limit0-nothing-matching-notx)")
	}
	same := func(d uint32, a bool) bool { return del == d && (!flagCmp || all == a) }
	if same(res.Deleted, res.AllDeleted) {
		s.outcomes = append(s.outcomes, fmt.Sprintf("ret-compared(%s%s all=%t)", name, c08TxTag(inTx), all))
		return
	}
	pair := func(n int) (uint32, bool) { // pinned semantics on n matching backend keys
		d := n
		if limit >= 0 && limit < d {
			d = limit
		}
		return uint32(d), d == n
	}
	backend := before.BMain
	var ov map[string]ref.C08Entry
	if inTx {
		ov = before.Txs[before.Depth()-1].Main
	}
	if ns == "child" {
		backend = before.BChild[c08Child]
		if inTx {
			ov = before.Txs[before.Depth()-1].Child[c08Child]
		}
	}
	_, hasEq := backend[prefix]
	otherOverlayKeys := false
	for _, e := range ov {
		if e.Present {
			otherOverlayKeys = true // (none of them matches: res.Comparable)
		}
	}
	n := res.BackendMatching
	shape := "wrong-return-values"
	dEq, aEq := pair(n - 1)
	switch {
	case inTx && hasEq && same(dEq, aEq):
		shape = "backend-key-equal-to-the-prefix-not-found"
	case inTx && otherOverlayKeys && same(res.Deleted, false):
		shape = "not-all-deleted-because-the-overlay-holds-keys-without-the-prefix"
	case inTx && hasEq && otherOverlayKeys && same(dEq, false):
		shape = "backend-key-equal-to-the-prefix-not-found+not-all-deleted-because-the-overlay-holds-keys-without-the-prefix"
	case !inTx && limit == 0 && n > 0 && same(uint32(n), true):
		shape = "limit0-deletes-every-key"
	}
	s.softf(name+".returns"+c08TxTag(inTx)+":"+shape, "%s(prefix %q, limit %d) returned (deleted=%d, allDeleted=%t), want (%d, %t): %d backend keys match, no overlay entry matches; before: %s",
		name, prefix, limit, del, all, res.Deleted, res.AllDeleted, n, c08ModelString(before))
}

func c08Apply(s *c08State, o c08Op) string {
	if o.kind == "init" {
		c08Populate(s)
		return ""
	}
	before := s.m.Clone()
	inTx := before.InTx()
	pre := c08ReadPre(s.ts)
	child := []byte(c08Child)
	childExisted := len(before.ChildView(c08Child)) > 0
	// childErr handles the error of a child operation: "child trie does not exist" is accepted when
	// the child indeed has no key (the statement does not say what a missing child answers).
	childErr := func(name string, err error) (skip bool, hard string) {
		if err == nil {
			return false, ""
		}
		if c08IsMissingChild(err) {
			if !childExisted {
				s.outcomes = append(s.outcomes, "missing-child-error-accepted")
				return true, ""
			}
			s.softf(name+c08TxTag(inTx)+":reports-missing-child-for-an-existing-child", "%s: %v, but the child holds %s; %s", name, err, ref.C08MapString(before.ChildView(c08Child)), c08ModelString(before))
			return true, ""
		}
		return true, name + ": unexpected error " + err.Error()
	}
	switch o.kind {
	case "start":
		s.ts.StartTransaction()
		s.m.Start()
	case "commit":
		s.ts.CommitTransaction()
		s.m.Commit()
	case "rollback":
		s.ts.RollbackTransaction()
		s.m.Rollback()
	case "put":
		if err := s.ts.Put([]byte(o.k), o.v); err != nil {
			return "Put: unexpected error " + err.Error()
		}
		s.m.Put(o.k, o.v)
	case "delete":
		if err := s.ts.Delete([]byte(o.k)); err != nil {
			return "Delete: unexpected error " + err.Error()
		}
		s.m.Delete(o.k)
	case "clearPrefix":
		if err := s.ts.ClearPrefix([]byte(o.k)); err != nil {
			return "ClearPrefix: unexpected error " + err.Error()
		}
		s.m.ClearPrefix(o.k, -1)
	case "clearPrefixLimit":
		del, all, err := s.ts.ClearPrefixLimit([]byte(o.k), uint32(o.limit))
		if err != nil {
			return "ClearPrefixLimit: unexpected error " + err.Error()
		}
		res := s.m.ClearPrefix(o.k, o.limit)
		c08CmpRet(s, "ClearPrefixLimit", inTx, before, "main", o.k, o.limit, res, del, all)
	case "setChild":
		if err := s.ts.SetChildStorage(child, []byte(o.k), o.v); err != nil {
			return "SetChildStorage: unexpected error " + err.Error()
		}
		s.m.SetChild(c08Child, o.k, o.v)
	case "clearChild":
		err := s.ts.ClearChildStorage(child, []byte(o.k))
		if _, hard := childErr("ClearChildStorage", err); hard != "" {
			return hard
		}
		s.m.ClearChild(c08Child, o.k)
	case "deleteChild":
		err := s.ts.DeleteChild(child)
		if _, hard := childErr("DeleteChild", err); hard != "" {
			return hard
		}
		s.m.ClearPrefixInChild(c08Child, "", -1)
	case "deleteChildLimit":
		del, all, err := s.ts.DeleteChildLimit(child, c08LimitBytes(o.limit))
		skip, hard := childErr("DeleteChildLimit", err)
		if hard != "" {
			return hard
		}
		res := s.m.ClearPrefixInChild(c08Child, "", o.limit)
		if !skip {
			c08CmpRet(s, "DeleteChildLimit", inTx, before, "child", "", o.limit, res, del, all)
		}
	case "clearPrefixInChild":
		err := s.ts.ClearPrefixInChild(child, []byte(o.k))
		if _, hard := childErr("ClearPrefixInChild", err); hard != "" {
			return hard
		}
		s.m.ClearPrefixInChild(c08Child, o.k, -1)
	case "clearPrefixInChildLimit":
		del, all, err := s.ts.ClearPrefixInChildWithLimit(child, []byte(o.k), uint32(o.limit))
		skip, hard := childErr("ClearPrefixInChildWithLimit", err)
		if hard != "" {
			return hard
		}
		res := s.m.ClearPrefixInChild(c08Child, o.k, o.limit)
		if !skip {
			c08CmpRet(s, "ClearPrefixInChildWithLimit", inTx, before, "child", o.k, o.limit, res, del, all)
		}
	default:
		panic("unknown op " + o.kind)
	}
	// (2) denotation of the private state at every nesting level
	real := c08Phi(s.ts)
	if real.Depth() != s.m.Depth() {
		return fmt.Sprintf("SIG{%s:wrong-nesting-depth} %s: %d open transactions, want %d", o.kind, o.Name(), real.Depth(), s.m.Depth())
	}
	if diffs := c08ModelDiff(s.m, real); len(diffs) > 0 {
		s.softf(c08Classify(o, before, s.m, real, pre, diffs), "%s on [%s]: %s; real state now [%s], overlay semantics give [%s]",
			o.Name(), c08ModelString(before), c08DiffString(diffs), c08ModelString(real), c08ModelString(s.m))
		s.m = real // re-synchronise
	}
	// (3) observers
	c08Observe(s)
	return ""
}

// ---------------------------------------------------------------------------------------------
// Canonical dump of the private state.

// c08DumpTrie: the sorted entries.  The shape of a radix trie is a function of its key set; Dirty
// flags and cached Merkle values are left out: TrieState never reads them, applyToTrie ranges over
// Go maps (so their distribution may depend on the iteration order) and the trie's hash caching is
// the subject of C01.  (RootNode() cannot be used: it dereferences a nil root on an empty trie.)
func c08DumpTrie(b *bytes.Buffer, t trie.Trie) {
	b.Write(ref.OMap(t.Entries()).Canon())
}

func c08DumpDiff(b *bytes.Buffer, d *storageDiff) {
	ks := make([]string, 0, len(d.upserts))
	for k := range d.upserts {
		ks = append(ks, k)
	}
	sort.Strings(ks)
	b.WriteString("U{")
	for _, k := range ks {
		fmt.Fprintf(b, "%x=%x(nil=%t);", k, d.upserts[k], d.upserts[k] == nil)
	}
	ks = ks[:0]
	for k, v := range d.deletes {
		ks = append(ks, fmt.Sprintf("%x=%t", k, v))
	}
	sort.Strings(ks)
	fmt.Fprintf(b, "}D{%s}S{%q}C{", strings.Join(ks, ";"), d.sortedKeys)
	ks = ks[:0]
	for k := range d.childChangeSet {
		ks = append(ks, k)
	}
	sort.Strings(ks)
	for _, k := range ks {
		fmt.Fprintf(b, "%x:", k)
		if d.childChangeSet[k] == nil {
			b.WriteString("nil")
		} else {
			c08DumpDiff(b, d.childChangeSet[k])
		}
	}
	b.WriteString("}")
}

func c08Canon(s *c08State) []byte {
	var b bytes.Buffer
	tr := s.ts.state.(*inmemory.InMemoryTrie)
	c08DumpTrie(&b, tr)
	var kids []string
	for h, c := range tr.GetChildTries() {
		var cb bytes.Buffer
		c08DumpTrie(&cb, c)
		// keyed by the hash under which the main trie files the child (may be stale, which matters)
		kids = append(kids, fmt.Sprintf("%x:%s", h[:4], cb.String()))
	}
	sort.Strings(kids)
	b.WriteString("|kids:" + strings.Join(kids, ";"))
	i := 0
	for e := s.ts.transactions.Front(); e != nil; e = e.Next() {
		fmt.Fprintf(&b, "|T%d:", i)
		c08DumpDiff(&b, e.Value.(*storageDiff))
		i++
	}
	b.WriteString("|M:")
	b.Write(s.m.Canon())
	return b.Bytes()
}

// ---------------------------------------------------------------------------------------------
// Root check (no transaction open).

func c08CheckRoot(s *c08State) {
	if s.m.InTx() {
		return
	}
	h, err := s.ts.Trie().Hash()
	if err != nil {
		s.softf("Root[notx]:error", "Trie().Hash(): %v", err)
		return
	}
	want := ref.TrieRoot(s.m.FullMain(c08ChildPrefix, 0), 0)
	if bytes.Equal(h[:], want) {
		return
	}
	shape := "wrong-root"
	ents := s.ts.state.Entries()
	cv := s.m.ChildView(c08Child)
	entry, has := ents[c08ChildPrefix+c08Child]
	switch {
	case has && len(cv) == 0:
		shape = "main-trie-keeps-a-root-entry-for-a-child-without-keys"
	case has && !bytes.Equal(entry, ref.TrieRoot(cv, 0)):
		shape = "child-root-entry-in-main-trie-is-stale"
	case !has && len(cv) > 0:
		shape = "child-root-entry-missing"
	}
	s.softf("Root[notx]:"+shape, "Trie().Hash() = %x, spec root of the contents %x; %s; child entry in main trie %x", h[:], want, c08ModelString(s.m), entry)
}

// ---------------------------------------------------------------------------------------------

var c08V1, c08V2 = []byte{0x01}, []byte{0x02}

func c08Ops(s *c08State, maxNest int) []verifmc.Op {
	var ops []verifmc.Op
	if s.needInit && !s.inited {
		return []verifmc.Op{c08Op{kind: "init"}}
	}
	if s.m.Depth() < maxNest {
		ops = append(ops, c08Op{kind: "start"})
	}
	if s.m.InTx() {
		ops = append(ops, c08Op{kind: "commit"}, c08Op{kind: "rollback"})
	}
	for _, k := range c08MainKeys {
		ops = append(ops, c08Op{kind: "put", k: k, v: c08V1})
	}
	ops = append(ops, c08Op{kind: "put", k: "k1", v: c08V2})
	ops = append(ops, c08Op{kind: "put", k: "k2", v: []byte{}}) // present with an empty value
	for _, k := range c08MainKeys {
		ops = append(ops, c08Op{kind: "delete", k: k})
	}
	for _, p := range c08MainPrefixes {
		ops = append(ops, c08Op{kind: "clearPrefix", k: p})
	}
	for _, p := range c08MainPrefixes {
		for l := 0; l <= 2; l++ {
			if p != "k" && l == 2 {
				continue // at most one key can match k1 / c
			}
			ops = append(ops, c08Op{kind: "clearPrefixLimit", k: p, limit: l})
		}
	}
	for _, k := range c08ChildKeys {
		ops = append(ops, c08Op{kind: "setChild", k: k, v: c08V1})
	}
	ops = append(ops, c08Op{kind: "setChild", k: "k1", v: c08V2})
	for _, k := range c08ChildKeys {
		ops = append(ops, c08Op{kind: "clearChild", k: k})
	}
	ops = append(ops, c08Op{kind: "deleteChild"})
	for _, l := range []int{-1, 0, 1} {
		ops = append(ops, c08Op{kind: "deleteChildLimit", limit: l})
	}
	for _, p := range c08ChildPrefixes {
		ops = append(ops, c08Op{kind: "clearPrefixInChild", k: p})
	}
	ops = append(ops, c08Op{kind: "clearPrefixInChildLimit", k: "k", limit: 1})
	return ops
}

// c08Populate is the "init(populated)" pseudo operation: the committed state the second exploration
// starts from (it is the mandatory first operation there, so that replays are self-contained).
func c08Populate(s *c08State) {
	tr := s.ts.state
	for _, k := range []string{"c1", "k1", "k2"} {
		if err := tr.Put([]byte(k), c08V1); err != nil {
			panic(err)
		}
		s.m.BMain[k] = c08V1
	}
	s.m.BChild[c08Child] = ref.OMap{}
	for _, k := range c08ChildKeys {
		if err := tr.PutIntoChild([]byte(c08Child), []byte(k), c08V1); err != nil {
			panic(err)
		}
		s.m.BChild[c08Child][k] = c08V1
	}
	s.inited = true
}

func c08Fresh(populated bool) *c08State {
	return &c08State{ts: NewTrieState(inmemory.NewEmptyTrie()), m: ref.C08New(), needInit: populated}
}

var c08SigRe = "SIG{"

func c08Sig(hist []verifmc.Op, desc string) string {
	if strings.HasPrefix(desc, c08SigRe) {
		if i := strings.Index(desc, "}"); i > 0 {
			return desc[len(c08SigRe):i]
		}
	}
	last := "init"
	if len(hist) > 0 {
		last = hist[len(hist)-1].(c08Op).kind
	}
	if strings.HasPrefix(desc, "panic:") {
		return last + "->panic@" + verifmc.PanicSite(desc)
	}
	obs := desc
	if i := strings.IndexAny(obs, ":("); i >= 0 {
		obs = obs[:i]
	}
	return last + "->" + obs
}

func TestVerif_C08(t *testing.T) {
	r := verifmc.NewReport("C08", "triestate-overlaymodel", "model_checking")
	defer r.Write()
	depth := verifmc.Pick(4, 6)
	maxNest := 3
	r.Rule = "BFS over all histories up to the depth of Put/Delete/ClearPrefix/ClearPrefixLimit(0..2)/SetChildStorage/ClearChildStorage/DeleteChild/" +
		"DeleteChildLimit(nil,0,1)/ClearPrefixInChild/ClearPrefixInChildWithLimit(1)/Start/Commit/Rollback (nesting <= 3) on the real TrieState over a real InMemoryTrie, " +
		"from an empty state, from a pre-populated committed state (main c1 k1 k2, child c1 {k1 k2}) and from that state with an open transaction that has already written k1 k3 and child k1 k2; main keys c1 k1 k2 k3 (c1 is also the child's name), child keys k1 k2, " +
		"prefixes k k1 c (k1 equals a key; the empty prefix is excluded: Substrate refuses it). All keys of a namespace have equal length and no prefix ends in a zero " +
		"nibble, so the recorded InMemoryTrie defects (absent key at a node boundary, trimmed zero nibble, limited clear order) cannot fire; the allDeleted flag is not " +
		"compared for limit 0 with nothing matching outside a transaction (recorded trie behaviour). After every operation: return values of limited clears (only when no " +
		"overlay entry matches), the denotation of the private state (backend and every open storageDiff) at EVERY nesting level, Get/NextKey on 4 keys, TrieEntries, " +
		"GetChildStorage/GetChildNextKey/GetKeysWithPrefixFromChild, and the state root (no transaction open) against the overlay model / spec root. " +
		"A history is non-trivial when it opens a transaction; distinct cases = distinct (model state) reached."
	r.Assumption("oracle: engine/ref/c08_overlaymodel.go (sp-state-machine Ext/OverlayedChanges semantics as pinned in DESIGN §6 C08) and engine/ref/reftrie.go")
	r.Assumption("the canonical dump omits Dirty flags and cached Merkle values of trie nodes (never read by TrieState; covered by C01)")
	r.Assumption("listing order of GetKeysWithPrefixFromChild is not compared (sets); a 'child trie does not exist' error is read as 'no keys'")
	// third start state (added after a seeded change was missed): the populated state with an OPEN
	// transaction that has already written main and child keys, so that "outer transaction has writes,
	// nested transaction changes them, rollback, read" is three operations from the start
	c08OpenTxPrefix := []c08Op{{kind: "start"}, {kind: "put", k: "k1", v: c08V2}, {kind: "put", k: "k3", v: c08V1}, {kind: "setChild", k: "k1", v: c08V2}, {kind: "setChild", k: "k2", v: c08V1}}
	for mode := 0; mode < 3; mode++ {
		populated := mode >= 1
		openTx := mode == 2
		h := &verifmc.Hist[*c08State]{
			Fresh: func() *c08State {
				st := c08Fresh(populated && !openTx)
				if openTx {
					c08Populate(st)
					for _, o := range c08OpenTxPrefix {
						if d := c08Apply(st, o); d != "" {
							panic("open-transaction start state: " + d)
						}
					}
					st.soft, st.outcomes = nil, nil
				}
				return st
			},
			Ops:   func(s *c08State) []verifmc.Op { return c08Ops(s, maxNest) },
			Apply: func(s *c08State, op verifmc.Op) string { return c08Apply(s, op.(c08Op)) },
			Check: func(s *c08State) string {
				c08CheckRoot(s)
				for _, o := range s.outcomes {
					r.Outcome(o)
				}
				s.outcomes = nil
				r.Outcome(fmt.Sprintf("nesting=%d main=%d child=%d", s.m.Depth(), len(s.m.MainView()), len(s.m.ChildView(c08Child))))
				if s.m.InTx() {
					r.Distinct(string(s.m.Canon()))
				}
				return ""
			},
			Canon: c08Canon,
			Sig:   c08Sig,
			Soft: func(s *c08State) []verifmc.Violation {
				out := s.soft
				s.soft = nil
				s.outcomes = nil
				return out
			},
			Depth: depth,
		}
		if populated && !openTx {
			h.Depth = depth + 1 // init(populated) is the first operation
		}
		h.Explore(r)
		key := "empty"
		if populated {
			key = "populated"
		}
		if openTx {
			key = "populated-with-open-transaction"
		}
		r.Extra["completed_depth_from_"+key] = r.Extra["completed_depth"]
		r.Extra["new_states_per_depth_from_"+key] = r.Extra["new_states_per_depth"]
	}
}

// TestVerif_C08_EmptyChildPrefix: clearing a child trie with the EMPTY prefix is legal in Substrate
// (clear_child_prefix; only the main-storage clear refuses prefixes overlapping :child_storage:).
// It is kept out of the BFS alphabet because the unchanged code does not return from it inside a
// transaction when the child exists in the state (the key loop never sees the end of the iterator):
// a non-returning operation cannot be a BFS successor.  Here every combination of
// {no transaction, transaction} x {child absent, child in the state, child only in the overlay, both}
// x {unlimited, limit 1} is executed under a watchdog of 3 s (~10^6 times the normal cost).
func TestVerif_C08_EmptyChildPrefix(t *testing.T) {
	r := verifmc.NewReport("C08", "empty-child-prefix", "model_checking")
	defer r.Write()
	r.Rule = "ClearPrefixInChild / ClearPrefixInChildWithLimit(1) with the empty prefix on child c1 for every combination of {no transaction, open transaction} x " +
		"{child keys in the state: none, k1 k2} x {child keys set in the transaction: none, k2 (only when a transaction is open)}; the call must return (3 s watchdog) and " +
		"leave the contents the overlay model prescribes"
	var n int64
	for _, inTx := range []bool{false, true} {
		for _, inState := range []bool{false, true} {
			for _, inOverlay := range []bool{false, true} {
				if inOverlay && !inTx {
					continue
				}
				for _, limit := range []int{-1, 1} {
					s := c08Fresh(false)
					var hist []string
					if inState {
						for _, k := range c08ChildKeys {
							c08Apply(s, c08Op{kind: "setChild", k: k, v: c08V1})
							hist = append(hist, c08Op{kind: "setChild", k: k, v: c08V1}.Name())
						}
					}
					if inTx {
						c08Apply(s, c08Op{kind: "start"})
						hist = append(hist, "start")
					}
					if inOverlay {
						c08Apply(s, c08Op{kind: "setChild", k: "k2", v: c08V2})
						hist = append(hist, c08Op{kind: "setChild", k: "k2", v: c08V2}.Name())
					}
					s.soft = nil
					op := c08Op{kind: "clearPrefixInChild", k: ""}
					if limit >= 0 {
						op = c08Op{kind: "clearPrefixInChildLimit", k: "", limit: limit}
					}
					hist = append(hist, op.Name())
					n++
					done := make(chan string, 1)
					go func() {
						var d string
						if p, msg := verifmc.Guard(func() { d = c08Apply(s, op) }); p {
							d = msg
						}
						done <- d
					}()
					select {
					case d := <-done:
						r.Outcome("returned")
						if d != "" {
							r.Violate(c08Sig(nil, d), d, hist)
						}
						for _, v := range s.soft {
							r.Violate(v.Sig, v.Desc, hist)
						}
					case <-time.After(3 * time.Second):
						r.Outcome("did-not-return")
						r.Violate(op.kind+c08TxTag(inTx)+":empty-prefix-does-not-terminate", fmt.Sprintf("%s did not return within 3 s (child in state: %t, child keys in overlay: %t)", op.Name(), inState, inOverlay), hist)
						// the goroutine keeps appending keys; stop here so that the process ends soon
						r.Add("evaluations", n)
						r.Capped("stopped after a non-returning call (its goroutine cannot be cancelled)")
						return
					}
					r.Distinct(strings.Join(hist, ";"))
				}
			}
		}
	}
	r.Add("evaluations", n)
	r.Sample([]string{"setChild(c1,k1,01)", "start", "clearPrefixInChild(c1,)"})
}
