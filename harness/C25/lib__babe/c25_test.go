//go:build verif

package babe

// C25: BABE lottery arithmetic matches the specification.
//
// Part 1 (CalculateThreshold), for every (c1,c2,n) of the alphabet, c = c1/c2 in (0,1], n >= 1:
//   T0  a value is returned (no error, no panic);
//   T1  c == 1  =>  2^128-1 (saturation);
//   T2  "computed as Substrate computes it": Substrate evaluates  p = 1 - powf(1 - c1/c2, 1/n)  in
//       IEEE f64 and returns floor(2^128 * p) exactly.  Division, subtraction and 1/n are exactly
//       specified by IEEE-754; powf is not (libm).  The oracle re-derives the pipeline with
//       math/big: c_f = RN(c1/c2), pp_f = RN(1-c_f), th_f = RN(1/n), y = pp_f^th_f evaluated with
//       512-bit big.Float (n-th root by Newton, self-checked by raising to the n-th power, plus
//       the first/second order correction for th_f != 1/n), z = RN(y) +- j ulp, p = RN(1-z),
//       T = floor(2^128 p).  The implementation must hit one of the candidates |j| <= 2 (last-ulp
//       tolerance of two libm pow implementations; DESIGN C25 limitation: bit-exact agreement
//       with Rust's powf cannot be established here).  The observed j is counted.
//   T3  the distance to the real-number formula floor(2^128 (1-(1-c)^(1/n))) (512-bit) is
//       measured; DESIGN pins 2^128 * 2^-50 as the propagated rounding bound of the f64 pipeline:
//       a T2 mismatch is classified by it, a T2 match that exceeds it is only counted.
//   T4  monotone in c for every fixed n (pairs sorted as exact rationals; equal ratios => equal T).
//       (non-increasing in n is measured as well; it follows from the formula.)
// Part 2 (getSecondarySlotAuthor): index == bigendian(BLAKE2b-256(randomness || slot u64 LE)) mod n
//   with x/crypto/blake2b and math/big.
// Not judged (statement silent): c1 == 0, c2 == 0, c1 > c2, n <= 0 (counted).

import (
	"encoding/binary"
	"fmt"
	"math"
	"math/big"
	"sort"
	"sync"
	"testing"

	"github.com/ChainSafe/gossamer/internal/verifmc"
	"github.com/ChainSafe/gossamer/pkg/scale"
	"golang.org/x/crypto/blake2b"
)

const c25Prec = 512

func c25F() *big.Float { return new(big.Float).SetPrec(c25Prec) }

// c25PowInt is x^n by binary exponentiation at 512 bits.
func c25PowInt(x *big.Float, n int) *big.Float {
	res := c25F().SetInt64(1)
	b := c25F().Set(x)
	for n > 0 {
		if n&1 == 1 {
			res.Mul(res, b)
		}
		n >>= 1
		if n > 0 {
			b.Mul(b, b)
		}
	}
	return res
}

// c25Root returns a^(1/n) for 0 < a <= 1 at ~500 bits; ok=false if the self-check fails.
func c25Root(a *big.Float, n int) (*big.Float, bool) {
	if n == 1 {
		return c25F().Set(a), true
	}
	a64, _ := a.Float64()
	x := c25F().SetFloat64(math.Exp(math.Log(a64) / float64(n))) // seed only; verified below
	nf := c25F().SetInt64(int64(n))
	for it := 0; it < 12; it++ {
		xn1 := c25PowInt(x, n-1)
		xn := c25F().Mul(xn1, x)
		num := c25F().Sub(xn, a)
		den := c25F().Mul(nf, xn1)
		delta := c25F().Quo(num, den)
		x.Sub(x, delta)
		if delta.Sign() == 0 || delta.MantExp(nil)-x.MantExp(nil) < -500 {
			break
		}
	}
	// self-check: |x^n / a - 1| < 2^-470  (=> relative error of x below 2^-470 / n)
	chk := c25F().Quo(c25PowInt(x, n), a)
	chk.Sub(chk, c25F().SetInt64(1))
	if chk.Sign() != 0 && chk.MantExp(nil) > -470 {
		return x, false
	}
	return x, true
}

var c25Two128 = new(big.Int).Lsh(big.NewInt(1), 128)

// c25Floor128 is floor(2^128 * p) for 0 <= p <= 1.
func c25Floor128(p *big.Float) *big.Int {
	v := c25F().SetMantExp(p, 128)
	i, _ := v.Int(nil) // truncation toward zero == floor for v >= 0
	return i
}

// c25Nearest64 rounds to the nearest float64 (ties to even).
func c25Nearest64(x *big.Float) float64 {
	f, _ := x.Float64()
	return f
}

type c25Oracle struct {
	saturate   bool
	trueT      *big.Int         // real-number formula, floor
	cand       map[string]int   // candidate threshold (decimal) -> smallest |j| signed pow offset in ulps
	hardCase   bool             // y is within 2^-20 ulp of a rounding boundary: the correctly rounded z is not certain
	rootOK     bool
}

const c25MaxJ = 4

// c25Expect builds the oracle for (c1,c2,n), 1 <= c1 <= c2, n >= 1.
func c25Expect(c1, c2 uint64, n int) c25Oracle {
	var o c25Oracle
	if c1 == c2 {
		o.saturate = true
		o.rootOK = true
		return o
	}
	// real-number formula
	a := c25F().Quo(c25F().SetUint64(c2-c1), c25F().SetUint64(c2))
	root, ok := c25Root(a, n)
	o.rootOK = ok
	o.trueT = c25Floor128(c25F().Sub(c25F().SetInt64(1), root))

	// f64 pipeline
	cf, _ := new(big.Rat).SetFrac(new(big.Int).SetUint64(c1), new(big.Int).SetUint64(c2)).Float64() // RN(c1/c2)
	ppf := c25Nearest64(c25F().Sub(c25F().SetInt64(1), c25F().SetFloat64(cf)))                      // RN(1-c_f)
	thf, _ := new(big.Rat).SetFrac64(1, int64(n)).Float64()                                          // RN(1/n)
	var y *big.Float
	if ppf == 0 {
		y = c25F()
	} else {
		r, ok2 := c25Root(c25F().SetFloat64(ppf), n)
		o.rootOK = o.rootOK && ok2
		// th_f = (1+d)/n exactly, d = th_f*n - 1;  pp^th_f = r * exp(d ln r) = r (1 + e + e^2/2), e = d ln r
		d := c25F().Mul(c25F().SetFloat64(thf), c25F().SetInt64(int64(n)))
		d.Sub(d, c25F().SetInt64(1))
		r64, _ := r.Float64()
		e := c25F().Mul(d, c25F().SetFloat64(math.Log(r64))) // |e| < 2^-50: ln r only needs ~40 correct bits
		corr := c25F().Mul(e, e)
		corr.Quo(corr, c25F().SetInt64(2))
		corr.Add(corr, e)
		corr.Add(corr, c25F().SetInt64(1))
		y = c25F().Mul(r, corr)
	}
	z0 := c25Nearest64(y)
	// hard case: distance of y to the midpoint between z0 and its neighbour relative to ulp
	if z0 > 0 {
		up, dn := math.Nextafter(z0, 2), math.Nextafter(z0, -1)
		for _, nb := range []float64{up, dn} {
			mid := c25F().Add(c25F().SetFloat64(z0), c25F().SetFloat64(nb))
			mid.Quo(mid, c25F().SetInt64(2))
			dist := c25F().Sub(y, mid)
			ulp := c25F().SetFloat64(math.Abs(nb - z0))
			if dist.Sign() == 0 || dist.MantExp(nil)-ulp.MantExp(nil) < -20 {
				o.hardCase = true
			}
		}
	}
	o.cand = map[string]int{}
	z := z0
	zs := []float64{z0}
	js := []int{0}
	u, dwn := z0, z0
	for j := 1; j <= c25MaxJ; j++ {
		u = math.Nextafter(u, 2)
		dwn = math.Nextafter(dwn, -1)
		zs = append(zs, u, dwn)
		js = append(js, j, -j)
	}
	_ = z
	for i, zz := range zs {
		if zz < 0 || zz > 1 {
			continue
		}
		p := c25Nearest64(c25F().Sub(c25F().SetInt64(1), c25F().SetFloat64(zz))) // RN(1-z)
		t := c25Floor128(c25F().SetFloat64(p))
		k := t.String()
		if old, ok := o.cand[k]; !ok || c25Abs(js[i]) < c25Abs(old) {
			o.cand[k] = js[i]
		}
	}
	return o
}

func c25Abs(x int) int {
	if x < 0 {
		return -x
	}
	return x
}

func c25U128(u *scale.Uint128) *big.Int {
	v := new(big.Int).SetUint64(u.Upper)
	v.Lsh(v, 64)
	return v.Or(v, new(big.Int).SetUint64(u.Lower))
}

type c25Pair struct{ c1, c2 uint64 }

type c25Case struct {
	C1   uint64 `json:"c1"`
	C2   uint64 `json:"c2"`
	N    int    `json:"n"`
	Got  string `json:"got,omitempty"`
	Want string `json:"want,omitempty"`
	Note string `json:"note,omitempty"`
}

// c25Tally batches per-worker counts (merged under one lock per block).
type c25Tally struct {
	evals    int64
	outcomes map[string]int64
	maxErr   int // max bit length of |T - trueT|
	maxErrAt c25Case
	samples  []c25Case
}

var (
	c25Mu  sync.Mutex
	c25Tot = c25Tally{outcomes: map[string]int64{}}
)

func (t *c25Tally) merge() {
	c25Mu.Lock()
	defer c25Mu.Unlock()
	c25Tot.evals += t.evals
	for k, n := range t.outcomes {
		c25Tot.outcomes[k] += n
	}
	// deterministic under any worker interleaving: largest error, ties by (n, c2, c1)
	less := func(x, y c25Case) bool {
		if x.N != y.N {
			return x.N < y.N
		}
		if x.C2 != y.C2 {
			return x.C2 < y.C2
		}
		return x.C1 < y.C1
	}
	if t.maxErr > c25Tot.maxErr || (t.maxErr == c25Tot.maxErr && t.maxErr > 0 && less(t.maxErrAt, c25Tot.maxErrAt)) {
		c25Tot.maxErr, c25Tot.maxErrAt = t.maxErr, t.maxErrAt
	}
	c25Tot.samples = append(c25Tot.samples, t.samples...)
	sort.Slice(c25Tot.samples, func(i, j int) bool { return less(c25Tot.samples[i], c25Tot.samples[j]) })
	if len(c25Tot.samples) > 4 {
		c25Tot.samples = c25Tot.samples[:4]
	}
}

// c25Eval runs the implementation on one element and judges T0-T3; returns the threshold (nil on violation of T0).
func c25Eval(r *verifmc.Report, tl *c25Tally, c1, c2 uint64, n int) *big.Int {
	cs := c25Case{C1: c1, C2: c2, N: n}
	var got *scale.Uint128
	var err error
	p, msg := verifmc.Guard(func() { got, err = CalculateThreshold(c1, c2, n) })
	tl.evals++
	if p {
		cs.Note = msg
		r.Violate("threshold:panic:"+verifmc.PanicSite(msg), fmt.Sprintf("CalculateThreshold(%d,%d,%d) panicked", c1, c2, n), cs)
		return nil
	}
	if err != nil || got == nil {
		cs.Note = fmt.Sprint(err)
		tl.outcomes["BAD:error-on-valid-input"]++
		r.Violate("threshold:error-on-valid-input", fmt.Sprintf("CalculateThreshold(%d,%d,%d) returned error %v for c in (0,1], n>=1", c1, c2, n, err), cs)
		return nil
	}
	T := c25U128(got)
	cs.Got = fmt.Sprintf("%032x", T)
	o := c25Expect(c1, c2, n)
	if !o.rootOK {
		panic(fmt.Sprintf("harness: n-th root self-check failed for %d/%d n=%d", c1, c2, n))
	}
	if o.saturate {
		max := new(big.Int).Sub(c25Two128, big.NewInt(1))
		if T.Cmp(max) != 0 {
			cs.Want = fmt.Sprintf("%032x", max)
			tl.outcomes["BAD:c=1-not-saturated"]++
			r.Violate("threshold:c=1-not-saturated", fmt.Sprintf("CalculateThreshold(%d,%d,%d) = %s, want 2^128-1", c1, c2, n, cs.Got), cs)
		} else {
			tl.outcomes["saturated(c=1)"]++
		}
		return T
	}
	diff := new(big.Int).Sub(T, o.trueT)
	diff.Abs(diff)
	if bl := diff.BitLen(); bl > tl.maxErr {
		tl.maxErr, tl.maxErrAt = bl, c25Case{C1: c1, C2: c2, N: n, Got: cs.Got, Want: fmt.Sprintf("%032x", o.trueT), Note: "largest |T - real formula|"}
	}
	within := diff.BitLen() <= 78 // |diff| < 2^78 = 2^128 * 2^-50
	j, ok := o.cand[T.String()]
	switch {
	case ok && c25Abs(j) <= 2:
		tl.outcomes[fmt.Sprintf("f64-pipeline:pow-offset=%+d-ulp", j)]++
		if j != 0 {
			if o.hardCase {
				tl.outcomes["pow-differs-from-correctly-rounded:hard-case"]++
			} else {
				tl.outcomes["pow-differs-from-correctly-rounded"]++
				if len(tl.samples) < 4 { // elements are visited in a fixed order inside a block
					tl.samples = append(tl.samples, c25Case{C1: c1, C2: c2, N: n, Got: cs.Got, Note: fmt.Sprintf("math.Pow result is %+d ulp from the correctly rounded power (counted, within the pinned last-ulp tolerance)", j)})
				}
			}
		}
		if !within {
			tl.outcomes["note:f64-pipeline-deviates-more-than-2^-50-from-real-formula"]++
		}
	default:
		class := "beyond-2^-50"
		if within {
			class = "within-2^-50"
		}
		if ok {
			class += fmt.Sprintf(":pow-off-by-%d-ulp", c25Abs(j))
		}
		cs.Want = fmt.Sprintf("%032x (real-number formula; f64 pipeline candidates differ from it by last ulps)", o.trueT)
		tl.outcomes["BAD:"+class]++
		r.Violate("threshold:differs-from-f64-pipeline:"+class,
			fmt.Sprintf("CalculateThreshold(%d,%d,%d) = %s is none of the values the f64 pipeline can produce with a pow within 2 ulp; |T-real| has %d bits", c1, c2, n, cs.Got, diff.BitLen()), cs)
	}
	return T
}

func c25Thresholds(t *testing.T, r *verifmc.Report) {
	maxC := verifmc.Pick(64, 256)
	maxN := verifmc.Pick(128, 1024)
	var pairs []c25Pair
	for c2 := uint64(1); c2 <= uint64(maxC); c2++ {
		for c1 := uint64(1); c1 <= c2; c1++ {
			pairs = append(pairs, c25Pair{c1, c2})
		}
	}
	// exact rational order for the monotonicity check
	sort.SliceStable(pairs, func(i, j int) bool { return pairs[i].c1*pairs[j].c2 < pairs[j].c1*pairs[i].c2 })
	ns := []int{}
	for n := 1; n <= maxN; n++ {
		ns = append(ns, n)
	}
	ns = append(ns, 10000)
	r.Extra["threshold_pairs"] = len(pairs)
	r.Extra["threshold_ns"] = len(ns)

	// sanity of the oracle against a constant that does not come from this harness: the value
	// pinned by the repo's own test for (1,2,3) (0x34d00ad6148e1800 << 64) must be a j=0 candidate
	{
		o := c25Expect(1, 2, 3)
		want := new(big.Int).Lsh(new(big.Int).SetUint64(0x34d00ad6148e1800), 64)
		if j, ok := o.cand[want.String()]; !ok || j != 0 {
			t.Fatalf("oracle sanity: (1,2,3) candidates %v do not contain %x at offset 0", o.cand, want)
		}
		// and the real-number value 2^128(1-2^(-1/3)) = 0.20629947401590026...
		f, _ := new(big.Float).Quo(new(big.Float).SetInt(o.trueT), new(big.Float).SetInt(c25Two128)).Float64()
		if math.Abs(f-0.2062994740159002) > 1e-15 {
			t.Fatalf("oracle sanity: real formula gives %v", f)
		}
	}

	const block = 8
	nblocks := (len(ns) + block - 1) / block
	verifmc.ParallelFor(r, nblocks, func(bi int) {
		tl := &c25Tally{outcomes: map[string]int64{}}
		defer tl.merge()
		var prev []*big.Int
		lo, hi := bi*block, min((bi+1)*block, len(ns))
		for ni := lo; ni < hi; ni++ {
			n := ns[ni]
			cur := make([]*big.Int, len(pairs))
			for pi, pr := range pairs {
				cur[pi] = c25Eval(r, tl, pr.c1, pr.c2, n)
				r.Distinct(string([]byte{byte(pr.c1 - 1), byte(pr.c2 - 1), byte(n), byte(n >> 8)}))
			}
			// T4 monotone in c (pairs are in non-decreasing c order)
			for pi := 1; pi < len(pairs); pi++ {
				a, b := cur[pi-1], cur[pi]
				if a == nil || b == nil {
					continue
				}
				pa, pb := pairs[pi-1], pairs[pi]
				eq := pa.c1*pb.c2 == pb.c1*pa.c2
				switch {
				case a.Cmp(b) > 0 || (eq && a.Cmp(b) != 0):
					tl.outcomes["BAD:not-monotone-in-c"]++
					r.Violate("threshold:not-monotone-in-c", fmt.Sprintf("n=%d: T(%d/%d)=%032x > T(%d/%d)=%032x", n, pa.c1, pa.c2, a, pb.c1, pb.c2, b),
						[]c25Case{{C1: pa.c1, C2: pa.c2, N: n, Got: fmt.Sprintf("%032x", a)}, {C1: pb.c1, C2: pb.c2, N: n, Got: fmt.Sprintf("%032x", b)}})
				case eq:
					tl.outcomes["monotone-in-c:equal-ratio-equal-T"]++
				case a.Cmp(b) == 0:
					tl.outcomes["monotone-in-c:different-ratio-equal-T"]++
				default:
					tl.outcomes["monotone-in-c:strictly-increasing"]++
				}
			}
			// measured: non-increasing in n (consecutive n inside a block)
			if prev != nil && ns[ni-1] < n {
				for pi := range pairs {
					if prev[pi] != nil && cur[pi] != nil && prev[pi].Cmp(cur[pi]) < 0 {
						tl.outcomes["BAD:increasing-in-n"]++
						r.Violate("threshold:increasing-in-n", fmt.Sprintf("c=%d/%d: T(n=%d) < T(n=%d)", pairs[pi].c1, pairs[pi].c2, ns[ni-1], n),
							c25Case{C1: pairs[pi].c1, C2: pairs[pi].c2, N: n})
					}
				}
				tl.outcomes["non-increasing-in-n:rows-compared"]++
			}
			prev = cur
		}
	}, func(i int, msg string) { t.Errorf("harness panic in block %d: %s", i, msg) })

	// inputs outside the statement: executed for robustness, counted, never judged (except panics)
	for _, e := range []struct {
		c1, c2 uint64
		n      int
	}{{0, 1, 1}, {1, 0, 1}, {0, 0, 1}, {2, 1, 1}, {1, 2, 0}, {1, 2, -1}, {math.MaxUint64, math.MaxUint64, 1}, {math.MaxUint64 - 1, math.MaxUint64, 1}} {
		var err error
		var got *scale.Uint128
		p, msg := verifmc.Guard(func() { got, err = CalculateThreshold(e.c1, e.c2, e.n) })
		switch {
		case p:
			r.Violate("threshold:panic:"+verifmc.PanicSite(msg), fmt.Sprintf("CalculateThreshold(%d,%d,%d) panicked", e.c1, e.c2, e.n), c25Case{C1: e.c1, C2: e.c2, N: e.n, Note: msg})
		case err != nil:
			r.Outcome("skipped:outside-statement:error")
		default:
			r.Outcome(fmt.Sprintf("skipped:outside-statement:value(%d/%d,n=%d)=%032x", e.c1, e.c2, e.n, c25U128(got)))
		}
	}
}

// ---------------------------------------------------------------------------------------------

func c25Randomness() []Randomness {
	var out []Randomness
	add := func(f func(j int) byte) {
		var x Randomness
		for j := range x {
			x[j] = f(j)
		}
		out = append(out, x)
	}
	add(func(int) byte { return 0 })
	add(func(int) byte { return 0xff })
	for i := 0; i < 32; i++ {
		i := i
		add(func(j int) byte {
			if j == i {
				return 0x01
			}
			return 0
		})
	}
	for _, i := range []int{0, 15, 16, 31} {
		i := i
		add(func(j int) byte {
			if j == i {
				return 0x80
			}
			return 0
		})
	}
	add(func(j int) byte { return byte(j) })
	add(func(j int) byte { return byte(31 - j) })
	for k := 1; len(out) < 64; k++ {
		k := k
		add(func(j int) byte { return byte(j*k*7 + k*13 + (j*j)%(k+1)) })
	}
	return out
}

func c25Index(h [32]byte, n int) uint64 {
	return new(big.Int).Mod(new(big.Int).SetBytes(h[:]), big.NewInt(int64(n))).Uint64()
}

func c25Secondary(t *testing.T, r *verifmc.Report) {
	// BLAKE2b-256 known answer (RFC 7693 family, empty input) so that the oracle uses the right primitive
	if got := fmt.Sprintf("%x", blake2b.Sum256(nil)); got != "0e5751c026e543b2e8ab2eb06099daa1d1e5df47778f7787faab45cdf12fe3a8" {
		t.Fatalf("blake2b-256 known answer: %s", got)
	}
	rands := c25Randomness()
	slots := []uint64{0, 1, 255, 256, 0x0102030405060708, 1 << 63, math.MaxUint64}
	var ns []int
	for n := 1; n <= verifmc.Pick(17, 1024); n++ {
		ns = append(ns, n)
	}
	ns = append(ns, 1<<31, 1<<32-1)
	r.Extra["secondary_randomness"] = len(rands)
	r.Extra["secondary_slots"] = len(slots)
	r.Extra["secondary_ns"] = len(ns)
	verifmc.ParallelFor(r, len(rands), func(ri int) {
		rd := rands[ri]
		var evals int64
		oc := map[string]int64{}
		for _, slot := range slots {
			var le, be [8]byte
			binary.LittleEndian.PutUint64(le[:], slot)
			binary.BigEndian.PutUint64(be[:], slot)
			h := blake2b.Sum256(append(append([]byte{}, rd[:]...), le[:]...))
			hBE := blake2b.Sum256(append(append([]byte{}, rd[:]...), be[:]...))
			hSw := blake2b.Sum256(append(append([]byte{}, le[:]...), rd[:]...))
			var hRev [32]byte
			for i := range h {
				hRev[i] = h[31-i]
			}
			for _, n := range ns {
				want := c25Index(h, n)
				var got uint32
				var err error
				p, msg := verifmc.Guard(func() { got, err = getSecondarySlotAuthor(slot, n, rd) })
				evals++
				cs := map[string]any{"randomness": verifmc.Hex(rd[:]), "slot": slot, "n": n, "want": want}
				switch {
				case p:
					r.Violate("secondary:panic:"+verifmc.PanicSite(msg), msg, cs)
				case err != nil:
					r.Violate("secondary:error", err.Error(), cs)
				case uint64(got) == want:
					if n == 1 {
						oc["secondary:ok:n=1"]++
					} else {
						oc[fmt.Sprintf("secondary:ok:index-class=%d", min(got, 4))]++
					}
				default:
					shape := "wrong-result"
					probe := uint64(got)
					if n < 1<<31 {
						probe = math.MaxUint64 // a coincidence modulo a small n proves nothing about the shape
					}
					switch probe {
					case c25Index(hBE, n):
						shape = "slot-encoded-big-endian"
					case c25Index(hSw, n):
						shape = "slot-before-randomness"
					case c25Index(hRev, n):
						shape = "hash-read-little-endian"
					}
					cs["got"] = got
					oc["BAD:"+shape]++
					r.Violate("secondary:"+shape, fmt.Sprintf("getSecondarySlotAuthor(slot=%d, n=%d, randomness=%x) = %d, want %d", slot, n, rd, got, want), cs)
				}
				r.Distinct(fmt.Sprintf("s%d/%x/%x", ri, slot, n))
			}
		}
		r.Add("evaluations", evals)
		c25Mu.Lock()
		for k, v := range oc {
			c25Tot.outcomes[k] += v
		}
		c25Mu.Unlock()
	}, func(i int, msg string) { t.Errorf("harness panic at randomness %d: %s", i, msg) })
}

func TestVerif_C25(t *testing.T) {
	r := verifmc.NewReport("C25", "babe-lottery", "exploration")
	defer r.Write()
	r.Rule = "thresholds: every (c1,c2) with 1<=c1<=c2<=" + fmt.Sprint(verifmc.Pick(64, 256)) + " x every n in 1.." + fmt.Sprint(verifmc.Pick(128, 1024)) + " and 10000, each compared with the f64 pipeline re-derived in math/big (512-bit n-th root, pow tolerance 2 ulp), with the real-number formula, saturation at c=1, and monotonicity in c along the exact rational order for every n; secondary author: 64 randomness patterns x 7 slots x n in 1.." + fmt.Sprint(verifmc.Pick(17, 1024)) + ", 2^31, 2^32-1 against BLAKE2b-256/big-endian/mod n. Non-trivial = every element (all distinct inputs)."
	r.Assumption("bit-exact agreement with Rust's powf cannot be established (no Rust libm here): 'computed as Substrate computes it' is checked up to a 2-ulp tolerance on the pow result; every other step of the f64 pipeline is checked exactly")
	r.Assumption("the secondary-author oracle uses x/crypto/blake2b as the BLAKE2b-256 primitive (checked against the empty-input known answer)")
	c25Thresholds(t, r)
	c25Secondary(t, r)
	c25Mu.Lock()
	r.Add("evaluations", c25Tot.evals)
	for k, n := range c25Tot.outcomes {
		r.Outcomes[k] += n
	}
	for _, sm := range c25Tot.samples {
		r.Sample(sm)
	}
	r.Extra["max_abs_diff_to_real_formula_bits"] = c25Tot.maxErr
	r.Extra["max_abs_diff_to_real_formula_at"] = c25Tot.maxErrAt
	c25Mu.Unlock()
}
