//go:build verif

package babe

// C25: BABE lottery arithmetic matches the specification.
//
// Part 1 (CalculateThreshold), for every (c1,c2,n) of the alphabet, c = c1/c2 in (0,1], n >= 1:
//   T0  a value is returned (no error, no panic);
//   T1  c == 1  =>  2^128-1 (saturation);
//   T2  "computed as Substrate computes it": Substrate evaluates  p = 1 - powf(1 - c1/c2, 1/n)  in
//       IEEE f64 and returns floor(2^128 * p) exactly.  Division, subtraction and 1/n are exactly
//       specified by IEEE-754; powf is not (libm).  The oracle re-derives the pipeline with
//       math/big: c_f = RN(c1/c2), pp_f = RN(1-c_f), th_f = RN(1/n), y = pp_f^th_f evaluated with
//       512-bit big.Float (n-th root by Newton; its last step is the residual x^n - a itself, plus
//       the first/second order correction for th_f != 1/n), z = RN(y) +- j ulp, p = RN(1-z),
//       T = floor(2^128 p).  The implementation must hit one of the candidates |j| <= 2 (last-ulp
//       tolerance of two libm pow implementations; DESIGN C25 limitation: bit-exact agreement
//       with Rust's powf cannot be established here).  The observed j is counted.
//   T3  the distance to the real-number formula floor(2^128 (1-(1-c)^(1/n))) (512-bit) is
//       measured; DESIGN pins 2^128 * 2^-50 as the propagated rounding bound of the f64 pipeline:
//       a T2 mismatch is classified by it, a T2 match that exceeds it is only counted.
//   T4  monotone in c for every fixed n (pairs sorted as exact rationals; equal ratios => equal T).
//       (non-increasing in n is measured as well; it follows from the formula.)
// Part 2 (getSecondarySlotAuthor): index == bigendian(BLAKE2b-256(randomness || slot u64 LE)) mod n
//   with x/crypto/blake2b and math/big.
// Not judged (statement silent): c1 == 0, c2 == 0, c1 > c2, n <= 0 (counted).

import (
	"encoding/binary"
	"fmt"
	"math"
	"math/big"
	"sort"
	"sync"
	"testing"

	"github.com/ChainSafe/gossamer/internal/verifmc"
	"github.com/ChainSafe/gossamer/pkg/scale"
	"golang.org/x/crypto/blake2b"
)

const c25Prec = 512

func c25F() *big.Float { return new(big.Float).SetPrec(c25Prec) }

// c25Scratch holds the temporaries of one worker (no allocation per element).
type c25Scratch struct {
	x, b, res, xn1, xn, num, den, delta, one, nf, t1, t2, y, tr *big.Float
}

func c25NewScratch() *c25Scratch {
	return &c25Scratch{x: c25F(), b: c25F(), res: c25F(), xn1: c25F(), xn: c25F(), num: c25F(), den: c25F(), delta: c25F(),
		one: c25F().SetInt64(1), nf: c25F(), t1: c25F(), t2: c25F(), y: c25F(), tr: c25F()}
}

// powInt: sc.res = x^n (binary exponentiation, 512-bit).
func (sc *c25Scratch) powInt(x *big.Float, n int) *big.Float {
	sc.res.SetInt64(1)
	sc.b.Set(x)
	for n > 0 {
		if n&1 == 1 {
			sc.res.Mul(sc.res, sc.b)
		}
		n >>= 1
		if n > 0 {
			sc.b.Mul(sc.b, sc.b)
		}
	}
	return sc.res
}

// root: sc.x = a^(1/n) for 0 < a <= 1 by Newton from a float64 seed.  The iteration stops when the
// step is below 2^-236 relative; the step is (x^n - a)/(n x^(n-1)), i.e. the residual of the
// defining equation itself, so a small last step is the proof that x^n = a to ~2^-226 relative
// (the updated x is better still).  ok=false when that was not reached (harness error).
func (sc *c25Scratch) root(a *big.Float, n int) bool {
	if n == 1 {
		sc.x.Set(a)
		return true
	}
	a64, _ := a.Float64()
	sc.x.SetFloat64(math.Exp(math.Log(a64) / float64(n))) // seed only
	sc.nf.SetInt64(int64(n))
	for it := 0; it < 10; it++ {
		sc.xn1.Set(sc.powInt(sc.x, n-1))
		sc.xn.Mul(sc.xn1, sc.x)
		sc.num.Sub(sc.xn, a)
		sc.den.Mul(sc.nf, sc.xn1)
		sc.delta.Quo(sc.num, sc.den)
		sc.x.Sub(sc.x, sc.delta)
		if sc.delta.Sign() == 0 || sc.delta.MantExp(nil)-sc.x.MantExp(nil) < -(c25Prec/2-20) {
			return true
		}
	}
	return false
}

var c25Two128 = new(big.Int).Lsh(big.NewInt(1), 128)
var c25Max128 = new(big.Int).Sub(c25Two128, big.NewInt(1))

// c25Floor128 is floor(2^128 * p) for a big.Float 0 <= p <= 1.
func c25Floor128(p *big.Float) *big.Int {
	v := c25F().SetMantExp(p, 128)
	i, _ := v.Int(nil) // truncation toward zero == floor for v >= 0
	return i
}

// c25Floor128f is floor(2^128 * p) for a float64 0 <= p <= 1, exactly (p = m * 2^e).
func c25Floor128f(p float64) *big.Int {
	if p == 0 {
		return new(big.Int)
	}
	fr, e := math.Frexp(p) // p = fr * 2^e, fr in [0.5,1)
	m := new(big.Int).SetUint64(uint64(fr * (1 << 53)))
	sh := 128 + e - 53
	if sh >= 0 {
		return m.Lsh(m, uint(sh))
	}
	return m.Rsh(m, uint(-sh))
}

const c25MaxJ = 4

// c25PairPre is what depends on (c1,c2) only.
type c25PairPre struct {
	c1, c2 uint64
	sat    bool
	ppf    float64    // RN(1 - RN(c1/c2)): IEEE-754 division and subtraction (exactly specified operations)
	ppfB   *big.Float // the same, exact
	da     *big.Float // (a - ppf)/ppf with a = (c2-c1)/c2 exact: relative offset of the real 1-c from the f64 one
}

func c25Pre(c1, c2 uint64) c25PairPre {
	pp := c25PairPre{c1: c1, c2: c2, sat: c1 == c2}
	if pp.sat {
		return pp
	}
	cf := float64(c1) / float64(c2)
	// cross-check of the hardware division against math/big (harness invariant)
	if chk, _ := new(big.Rat).SetFrac(new(big.Int).SetUint64(c1), new(big.Int).SetUint64(c2)).Float64(); chk != cf {
		panic("harness: float64 division is not correctly rounded?")
	}
	pp.ppf = 1 - cf
	pp.ppfB = c25F().SetFloat64(pp.ppf)
	a := c25F().Quo(c25F().SetUint64(c2-c1), c25F().SetUint64(c2))
	pp.da = c25F().Quo(c25F().Sub(a, pp.ppfB), pp.ppfB)
	return pp
}

type c25Oracle struct {
	trueT    *big.Int // floor of the real-number formula
	t0       *big.Int // f64 pipeline with the correctly rounded pow
	z0       float64
	hardCase bool // y is within 2^-20 ulp of a rounding boundary: the correctly rounded z is not certain
}

// c25Expect builds the oracle for a non-saturating pair and n >= 1.
func (sc *c25Scratch) expect(pp *c25PairPre, n int) c25Oracle {
	var o c25Oracle
	if !sc.root(pp.ppfB, n) {
		panic(fmt.Sprintf("harness: n-th root did not converge for %d/%d n=%d", pp.c1, pp.c2, n))
	}
	r := sc.x
	// real-number formula: a^(1/n) = r (1+da)^(1/n) = r (1 + da/n - (n-1) da^2/(2 n^2) + O(da^3)), |da| < 2^-44
	sc.nf.SetInt64(int64(n))
	sc.t1.Quo(pp.da, sc.nf)                  // da/n
	sc.t2.Mul(sc.t1, sc.t1)                  // da^2/n^2
	sc.t2.Mul(sc.t2, sc.den.SetInt64(int64(n-1)))
	sc.t2.Quo(sc.t2, sc.den.SetInt64(2))
	sc.tr.Sub(sc.t1, sc.t2)
	sc.tr.Add(sc.tr, sc.one)
	sc.tr.Mul(sc.tr, r)
	o.trueT = c25Floor128(sc.t1.Sub(sc.one, sc.tr))
	// f64 pipeline: th_f = RN(1/n) = (1+d)/n exactly, d = th_f*n - 1;  pp^th_f = r exp(d ln r) = r (1 + e + e^2/2), e = d ln r
	thf := 1 / float64(n)
	sc.t1.SetFloat64(thf)
	sc.t1.Mul(sc.t1, sc.nf)
	sc.t1.Sub(sc.t1, sc.one) // d, exact
	r64, _ := r.Float64()
	sc.t2.SetFloat64(math.Log(r64)) // |e| < 2^-50: ln r only needs ~40 correct bits
	sc.t1.Mul(sc.t1, sc.t2)         // e
	sc.t2.Mul(sc.t1, sc.t1)
	sc.t2.Quo(sc.t2, sc.den.SetInt64(2))
	sc.t2.Add(sc.t2, sc.t1)
	sc.t2.Add(sc.t2, sc.one)
	sc.y.Mul(r, sc.t2)
	o.z0, _ = sc.y.Float64() // nearest, ties to even
	// hard case: y within 2^-20 ulp of the midpoint to a neighbouring float
	for _, nb := range []float64{math.Nextafter(o.z0, 2), math.Nextafter(o.z0, -1)} {
		sc.t1.SetFloat64(o.z0)
		sc.t2.SetFloat64(nb)
		sc.t1.Add(sc.t1, sc.t2)
		sc.t1.Quo(sc.t1, sc.den.SetInt64(2)) // midpoint, exact
		sc.t1.Sub(sc.y, sc.t1)
		sc.t2.SetFloat64(math.Abs(nb - o.z0))
		if sc.t1.Sign() == 0 || sc.t1.MantExp(nil)-sc.t2.MantExp(nil) < -20 {
			o.hardCase = true
		}
	}
	o.t0 = c25Floor128f(1 - o.z0) // RN(1-z) is an exactly specified IEEE operation
	return o
}

// c25Offset finds the smallest |j| <= c25MaxJ such that the pipeline with z = z0 + j ulp gives T.
func c25Offset(o *c25Oracle, T *big.Int) (int, bool) {
	if T.Cmp(o.t0) == 0 {
		return 0, true
	}
	u, d := o.z0, o.z0
	for j := 1; j <= c25MaxJ; j++ {
		u = math.Nextafter(u, 2)
		d = math.Nextafter(d, -1)
		if u <= 1 && T.Cmp(c25Floor128f(1-u)) == 0 {
			return j, true
		}
		if d >= 0 && T.Cmp(c25Floor128f(1-d)) == 0 {
			return -j, true
		}
	}
	return 0, false
}

func c25Abs(x int) int {
	if x < 0 {
		return -x
	}
	return x
}

func c25U128(u *scale.Uint128) *big.Int {
	v := new(big.Int).SetUint64(u.Upper)
	v.Lsh(v, 64)
	return v.Or(v, new(big.Int).SetUint64(u.Lower))
}

type c25Case struct {
	C1   uint64 `json:"c1"`
	C2   uint64 `json:"c2"`
	N    int    `json:"n"`
	Got  string `json:"got,omitempty"`
	Want string `json:"want,omitempty"`
	Note string `json:"note,omitempty"`
}

// c25Tally batches per-worker counts (merged under one lock per block).
type c25Tally struct {
	evals    int64
	outcomes map[string]int64
	maxErr   int // max bit length of |T - trueT|
	maxErrAt c25Case
	samples  []c25Case
	sc       *c25Scratch
}

var (
	c25Mu  sync.Mutex
	c25Tot = c25Tally{outcomes: map[string]int64{}}
)

func c25Less(x, y c25Case) bool {
	if x.N != y.N {
		return x.N < y.N
	}
	if x.C2 != y.C2 {
		return x.C2 < y.C2
	}
	return x.C1 < y.C1
}

func (t *c25Tally) merge() {
	c25Mu.Lock()
	defer c25Mu.Unlock()
	c25Tot.evals += t.evals
	for k, n := range t.outcomes {
		c25Tot.outcomes[k] += n
	}
	// deterministic under any worker interleaving: largest error, ties by (n, c2, c1)
	if t.maxErr > c25Tot.maxErr || (t.maxErr == c25Tot.maxErr && t.maxErr > 0 && c25Less(t.maxErrAt, c25Tot.maxErrAt)) {
		c25Tot.maxErr, c25Tot.maxErrAt = t.maxErr, t.maxErrAt
	}
	c25Tot.samples = append(c25Tot.samples, t.samples...)
	sort.Slice(c25Tot.samples, func(i, j int) bool { return c25Less(c25Tot.samples[i], c25Tot.samples[j]) })
	if len(c25Tot.samples) > 4 {
		c25Tot.samples = c25Tot.samples[:4]
	}
}

var c25OffsetName = map[int]string{0: "f64-pipeline:pow-offset=+0-ulp", 1: "f64-pipeline:pow-offset=+1-ulp", -1: "f64-pipeline:pow-offset=-1-ulp",
	2: "f64-pipeline:pow-offset=+2-ulp", -2: "f64-pipeline:pow-offset=-2-ulp"}

// c25Eval runs the implementation on one element and judges T0-T3; returns the threshold (nil on violation of T0).
func c25Eval(r *verifmc.Report, tl *c25Tally, pp *c25PairPre, n int) *big.Int {
	c1, c2 := pp.c1, pp.c2
	cs := c25Case{C1: c1, C2: c2, N: n}
	var got *scale.Uint128
	var err error
	p, msg := verifmc.Guard(func() { got, err = CalculateThreshold(c1, c2, n) })
	tl.evals++
	if p {
		cs.Note = msg
		r.Violate("threshold:panic:"+verifmc.PanicSite(msg), fmt.Sprintf("CalculateThreshold(%d,%d,%d) panicked", c1, c2, n), cs)
		return nil
	}
	if err != nil || got == nil {
		cs.Note = fmt.Sprint(err)
		tl.outcomes["BAD:error-on-valid-input"]++
		r.Violate("threshold:error-on-valid-input", fmt.Sprintf("CalculateThreshold(%d,%d,%d) returned error %v for c in (0,1], n>=1", c1, c2, n, err), cs)
		return nil
	}
	T := c25U128(got)
	if pp.sat {
		if T.Cmp(c25Max128) != 0 {
			cs.Got, cs.Want = fmt.Sprintf("%032x", T), fmt.Sprintf("%032x", c25Max128)
			tl.outcomes["BAD:c=1-not-saturated"]++
			r.Violate("threshold:c=1-not-saturated", fmt.Sprintf("CalculateThreshold(%d,%d,%d) = %s, want 2^128-1", c1, c2, n, cs.Got), cs)
		} else {
			tl.outcomes["saturated(c=1)"]++
		}
		return T
	}
	o := tl.sc.expect(pp, n)
	diff := new(big.Int).Sub(T, o.trueT)
	diff.Abs(diff)
	if bl := diff.BitLen(); bl > tl.maxErr {
		tl.maxErr, tl.maxErrAt = bl, c25Case{C1: c1, C2: c2, N: n, Got: fmt.Sprintf("%032x", T), Want: fmt.Sprintf("%032x", o.trueT), Note: "largest |T - real formula|"}
	}
	within := diff.BitLen() <= 78 // |diff| < 2^78 = 2^128 * 2^-50
	j, ok := c25Offset(&o, T)
	switch {
	case ok && c25Abs(j) <= 2:
		tl.outcomes[c25OffsetName[j]]++
		if j != 0 {
			if o.hardCase {
				tl.outcomes["pow-differs-from-correctly-rounded:hard-case"]++
			} else {
				tl.outcomes["pow-differs-from-correctly-rounded"]++
				if len(tl.samples) < 4 { // elements are visited in a fixed order inside a block
					tl.samples = append(tl.samples, c25Case{C1: c1, C2: c2, N: n, Got: fmt.Sprintf("%032x", T), Want: fmt.Sprintf("%032x", o.t0),
						Note: fmt.Sprintf("math.Pow result is %+d ulp from the correctly rounded power (counted, within the pinned last-ulp tolerance)", j)})
				}
			}
		}
		if !within {
			tl.outcomes["note:f64-pipeline-deviates-more-than-2^-50-from-real-formula"]++
		}
	default:
		class := "beyond-2^-50"
		if within {
			class = "within-2^-50"
		}
		if ok {
			class += fmt.Sprintf(":pow-off-by-%d-ulp", c25Abs(j))
		}
		cs.Got = fmt.Sprintf("%032x", T)
		cs.Want = fmt.Sprintf("%032x", o.t0)
		cs.Note = fmt.Sprintf("want = f64 pipeline with the correctly rounded pow; real-number formula = %032x", o.trueT)
		tl.outcomes["BAD:"+class]++
		r.Violate("threshold:differs-from-f64-pipeline:"+class,
			fmt.Sprintf("CalculateThreshold(%d,%d,%d) = %s is none of the values the f64 pipeline can produce with a pow within 2 ulp; |T-real| has %d bits", c1, c2, n, cs.Got, diff.BitLen()), cs)
	}
	return T
}

func c25Thresholds(t *testing.T, r *verifmc.Report) {
	maxC := verifmc.Pick(64, 256)
	maxN := verifmc.Pick(256, 1024)
	var pairs []c25PairPre
	for c2 := uint64(1); c2 <= uint64(maxC); c2++ {
		for c1 := uint64(1); c1 <= c2; c1++ {
			pairs = append(pairs, c25Pre(c1, c2))
		}
	}
	// exact rational order for the monotonicity check
	sort.SliceStable(pairs, func(i, j int) bool { return pairs[i].c1*pairs[j].c2 < pairs[j].c1*pairs[i].c2 })
	ns := []int{}
	for n := 1; n <= maxN; n++ {
		ns = append(ns, n)
	}
	ns = append(ns, 10000)
	r.Extra["threshold_pairs"] = len(pairs)
	r.Extra["threshold_ns"] = len(ns)

	// sanity of the oracle against a constant that does not come from this harness: the value
	// pinned by the repo's own test for (1,2,3) (0x34d00ad6148e1800 << 64) must be a j=0 candidate
	{
		sc := c25NewScratch()
		pre := c25Pre(1, 2)
		o := sc.expect(&pre, 3)
		want := new(big.Int).Lsh(new(big.Int).SetUint64(0x34d00ad6148e1800), 64)
		if o.t0.Cmp(want) != 0 {
			t.Fatalf("oracle sanity: (1,2,3) gives %x, the repo's pinned vector is %x", o.t0, want)
		}
		// and the real-number value 2^128(1-2^(-1/3)) = 0.20629947401590026...
		f, _ := new(big.Float).Quo(new(big.Float).SetInt(o.trueT), new(big.Float).SetInt(c25Two128)).Float64()
		if math.Abs(f-0.2062994740159002) > 1e-15 {
			t.Fatalf("oracle sanity: real formula gives %v", f)
		}
		// the second-order expansion used for the real formula against a direct 512-bit root of (c2-c1)/c2
		for _, e := range [][3]uint64{{254, 255, 2}, {1, 3, 7}, {200, 201, 1000}, {1, 256, 10000}} {
			pre := c25Pre(e[0], e[1])
			o := sc.expect(&pre, int(e[2]))
			a := c25F().Quo(c25F().SetUint64(e[1]-e[0]), c25F().SetUint64(e[1]))
			sc2 := c25NewScratch()
			if !sc2.root(a, int(e[2])) {
				t.Fatal("oracle sanity: direct root did not converge")
			}
			direct := c25Floor128(c25F().Sub(c25F().SetInt64(1), sc2.x))
			if d := new(big.Int).Sub(direct, o.trueT); d.CmpAbs(big.NewInt(4)) > 0 {
				t.Fatalf("oracle sanity: real formula via expansion %x vs direct %x for %v", o.trueT, direct, e)
			}
		}
	}

	const block = 8
	nblocks := (len(ns) + block - 1) / block
	verifmc.ParallelFor(r, nblocks, func(bi int) {
		tl := &c25Tally{outcomes: map[string]int64{}, sc: c25NewScratch()}
		defer tl.merge()
		var prev []*big.Int
		lo, hi := bi*block, min((bi+1)*block, len(ns))
		for ni := lo; ni < hi; ni++ {
			n := ns[ni]
			if r.Expired() {
				r.Capped(fmt.Sprintf("deadline: threshold row n=%d not executed", n))
				return
			}
			cur := make([]*big.Int, len(pairs))
			for pi := range pairs {
				pr := &pairs[pi]
				cur[pi] = c25Eval(r, tl, pr, n)
				r.Distinct(string([]byte{byte(pr.c1 - 1), byte(pr.c2 - 1), byte(n), byte(n >> 8)}))
			}
			// T4 monotone in c (pairs are in non-decreasing c order)
			for pi := 1; pi < len(pairs); pi++ {
				a, b := cur[pi-1], cur[pi]
				if a == nil || b == nil {
					continue
				}
				pa, pb := pairs[pi-1], pairs[pi]
				eq := pa.c1*pb.c2 == pb.c1*pa.c2
				switch {
				case a.Cmp(b) > 0 || (eq && a.Cmp(b) != 0):
					tl.outcomes["BAD:not-monotone-in-c"]++
					r.Violate("threshold:not-monotone-in-c", fmt.Sprintf("n=%d: T(%d/%d)=%032x > T(%d/%d)=%032x", n, pa.c1, pa.c2, a, pb.c1, pb.c2, b),
						[]c25Case{{C1: pa.c1, C2: pa.c2, N: n, Got: fmt.Sprintf("%032x", a)}, {C1: pb.c1, C2: pb.c2, N: n, Got: fmt.Sprintf("%032x", b)}})
				case eq:
					tl.outcomes["monotone-in-c:equal-ratio-equal-T"]++
				case a.Cmp(b) == 0:
					tl.outcomes["monotone-in-c:different-ratio-equal-T"]++
				default:
					tl.outcomes["monotone-in-c:strictly-increasing"]++
				}
			}
			// measured: non-increasing in n (consecutive n inside a block)
			if prev != nil && ns[ni-1] < n {
				for pi := range pairs {
					if prev[pi] != nil && cur[pi] != nil && prev[pi].Cmp(cur[pi]) < 0 {
						tl.outcomes["BAD:increasing-in-n"]++
						r.Violate("threshold:increasing-in-n", fmt.Sprintf("c=%d/%d: T(n=%d) < T(n=%d)", pairs[pi].c1, pairs[pi].c2, ns[ni-1], n),
							c25Case{C1: pairs[pi].c1, C2: pairs[pi].c2, N: n})
					}
				}
				tl.outcomes["non-increasing-in-n:rows-compared"]++
			}
			prev = cur
		}
	}, func(i int, msg string) { t.Errorf("harness panic in block %d: %s", i, msg) })

	// inputs outside the statement: executed for robustness, counted, never judged (except panics)
	for _, e := range []struct {
		c1, c2 uint64
		n      int
	}{{0, 1, 1}, {1, 0, 1}, {0, 0, 1}, {2, 1, 1}, {1, 2, 0}, {1, 2, -1}, {math.MaxUint64, math.MaxUint64, 1}, {math.MaxUint64 - 1, math.MaxUint64, 1}} {
		var err error
		var got *scale.Uint128
		p, msg := verifmc.Guard(func() { got, err = CalculateThreshold(e.c1, e.c2, e.n) })
		switch {
		case p:
			r.Violate("threshold:panic:"+verifmc.PanicSite(msg), fmt.Sprintf("CalculateThreshold(%d,%d,%d) panicked", e.c1, e.c2, e.n), c25Case{C1: e.c1, C2: e.c2, N: e.n, Note: msg})
		case err != nil:
			r.Outcome("skipped:outside-statement:error")
		default:
			r.Outcome(fmt.Sprintf("skipped:outside-statement:value(%d/%d,n=%d)=%032x", e.c1, e.c2, e.n, c25U128(got)))
		}
	}
}

// ---------------------------------------------------------------------------------------------

func c25Randomness() []Randomness {
	var out []Randomness
	add := func(f func(j int) byte) {
		var x Randomness
		for j := range x {
			x[j] = f(j)
		}
		out = append(out, x)
	}
	add(func(int) byte { return 0 })
	add(func(int) byte { return 0xff })
	for i := 0; i < 32; i++ {
		i := i
		add(func(j int) byte {
			if j == i {
				return 0x01
			}
			return 0
		})
	}
	for _, i := range []int{0, 15, 16, 31} {
		i := i
		add(func(j int) byte {
			if j == i {
				return 0x80
			}
			return 0
		})
	}
	add(func(j int) byte { return byte(j) })
	add(func(j int) byte { return byte(31 - j) })
	for k := 1; len(out) < 64; k++ {
		k := k
		add(func(j int) byte { return byte(j*k*7 + k*13 + (j*j)%(k+1)) })
	}
	return out
}

func c25Index(h [32]byte, n int) uint64 {
	return new(big.Int).Mod(new(big.Int).SetBytes(h[:]), big.NewInt(int64(n))).Uint64()
}

func c25Secondary(t *testing.T, r *verifmc.Report) {
	// BLAKE2b-256 known answer (RFC 7693 family, empty input) so that the oracle uses the right primitive
	if got := fmt.Sprintf("%x", blake2b.Sum256(nil)); got != "0e5751c026e543b2e8ab2eb06099daa1d1e5df47778f7787faab45cdf12fe3a8" {
		t.Fatalf("blake2b-256 known answer: %s", got)
	}
	rands := c25Randomness()
	slots := []uint64{0, 1, 255, 256, 0x0102030405060708, 1 << 63, math.MaxUint64}
	var ns []int
	for n := 1; n <= verifmc.Pick(17, 1024); n++ {
		ns = append(ns, n)
	}
	ns = append(ns, 1<<31, 1<<32-1)
	r.Extra["secondary_randomness"] = len(rands)
	r.Extra["secondary_slots"] = len(slots)
	r.Extra["secondary_ns"] = len(ns)
	verifmc.ParallelFor(r, len(rands), func(ri int) {
		rd := rands[ri]
		var evals int64
		oc := map[string]int64{}
		for _, slot := range slots {
			var le, be [8]byte
			binary.LittleEndian.PutUint64(le[:], slot)
			binary.BigEndian.PutUint64(be[:], slot)
			h := blake2b.Sum256(append(append([]byte{}, rd[:]...), le[:]...))
			hBE := blake2b.Sum256(append(append([]byte{}, rd[:]...), be[:]...))
			hSw := blake2b.Sum256(append(append([]byte{}, le[:]...), rd[:]...))
			var hRev [32]byte
			for i := range h {
				hRev[i] = h[31-i]
			}
			for _, n := range ns {
				want := c25Index(h, n)
				var got uint32
				var err error
				p, msg := verifmc.Guard(func() { got, err = getSecondarySlotAuthor(slot, n, rd) })
				evals++
				cs := map[string]any{"randomness": verifmc.Hex(rd[:]), "slot": slot, "n": n, "want": want}
				switch {
				case p:
					r.Violate("secondary:panic:"+verifmc.PanicSite(msg), msg, cs)
				case err != nil:
					r.Violate("secondary:error", err.Error(), cs)
				case uint64(got) == want:
					if n == 1 {
						oc["secondary:ok:n=1"]++
					} else {
						oc[fmt.Sprintf("secondary:ok:index-class=%d", min(got, 4))]++
					}
				default:
					shape := "wrong-result"
					probe := uint64(got)
					if n < 1<<31 {
						probe = math.MaxUint64 // a coincidence modulo a small n proves nothing about the shape
					}
					switch probe {
					case c25Index(hBE, n):
						shape = "slot-encoded-big-endian"
					case c25Index(hSw, n):
						shape = "slot-before-randomness"
					case c25Index(hRev, n):
						shape = "hash-read-little-endian"
					}
					cs["got"] = got
					oc["BAD:"+shape]++
					r.Violate("secondary:"+shape, fmt.Sprintf("getSecondarySlotAuthor(slot=%d, n=%d, randomness=%x) = %d, want %d", slot, n, rd, got, want), cs)
				}
				r.Distinct(fmt.Sprintf("s%d/%x/%x", ri, slot, n))
			}
		}
		r.Add("evaluations", evals)
		c25Mu.Lock()
		for k, v := range oc {
			c25Tot.outcomes[k] += v
		}
		c25Mu.Unlock()
	}, func(i int, msg string) { t.Errorf("harness panic at randomness %d: %s", i, msg) })
}

func TestVerif_C25(t *testing.T) {
	r := verifmc.NewReport("C25", "babe-lottery", "exploration")
	defer r.Write()
	r.Rule = "thresholds: every (c1,c2) with 1<=c1<=c2<=" + fmt.Sprint(verifmc.Pick(64, 256)) + " x every n in 1.." + fmt.Sprint(verifmc.Pick(256, 1024)) + " and 10000, each compared with the f64 pipeline re-derived in math/big (512-bit n-th root, pow tolerance 2 ulp), with the real-number formula, saturation at c=1, and monotonicity in c along the exact rational order for every n; secondary author: 64 randomness patterns x 7 slots x n in 1.." + fmt.Sprint(verifmc.Pick(17, 1024)) + ", 2^31, 2^32-1 against BLAKE2b-256/big-endian/mod n. Non-trivial = every element (all distinct inputs)."
	r.Assumption("bit-exact agreement with Rust's powf cannot be established (no Rust libm here): 'computed as Substrate computes it' is checked up to a 2-ulp tolerance on the pow result; every other step of the f64 pipeline is checked exactly")
	r.Assumption("the secondary-author oracle uses x/crypto/blake2b as the BLAKE2b-256 primitive (checked against the empty-input known answer)")
	c25Thresholds(t, r)
	c25Secondary(t, r)
	c25Mu.Lock()
	r.Add("evaluations", c25Tot.evals)
	for k, n := range c25Tot.outcomes {
		r.Outcomes[k] += n
	}
	for _, sm := range c25Tot.samples {
		r.Sample(sm)
	}
	r.Extra["max_abs_diff_to_real_formula_bits"] = c25Tot.maxErr
	r.Extra["max_abs_diff_to_real_formula_at"] = c25Tot.maxErrAt
	c25Mu.Unlock()
}
